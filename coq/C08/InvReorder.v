(** C08 -- [reorder(block_names, connection_names)] preserves the invariant. *)
From Coq Require Import Ascii String List Bool PArith NArith FMapPositive Permutation Lia.
From PTBase Require Import Exn PyStr.
From P Require Import Assoc GridEdit GridLemmas Inv.
Import ListNotations. Open Scope list_scope.

(** ** one reversed connection *)

(** [blk.connection_name.remove(orig); blk.connection_name.add(names)] on one block: only the
    connection_name field map changes, and membership in the new sets is known *)
Lemma cn_swap_step g i orig names g2 : cn_remove g i orig = Ok g2 ->
  exists v, cn_add g2 i names = set_bcn g v /\
    forall i' k, In k (fget [] v i') <->
      if Pos.eqb i' i then (In k (cn g i') /\ k <> orig) \/ k = names else In k (cn g i').
Proof.
  unfold cn_remove. destruct (set_mem orig (cn g i)); [|discriminate].
  intro H; inversion H; subst g2; clear H.
  exists (fset (fset (bcn g) i (set_del (cn g i) orig)) i
               (set_add (fget [] (fset (bcn g) i (set_del (cn g i) orig)) i) names)).
  split; [reflexivity|]. intros i' k. rewrite fget_fset.
  destruct (Pos.eqb_spec i' i) as [->|N].
  - rewrite In_set_add, fget_fset_eq, In_set_del. tauto.
  - rewrite fget_fset_neq by exact N. reflexivity.
Qed.

(** the state after a successful reversal, in normal form *)
Lemma reverse_connection_shape g j orig names g' : reverse_connection g j orig names = Ok g' ->
  exists v,
    g' = set_cdict (set_bcn (set_cb1 (set_cb0 g (fset (cb0 g) j (c1 g j))) (fset (cb1 g) j (c0 g j))) v)
                   (aset key2_eqb (adel key2_eqb (cdict g) orig) names j) /\
    forall i k, In k (fget [] v i) <->
      if Pos.eqb i (c0 g j) || Pos.eqb i (c1 g j)
      then (In k (cn g i) /\ k <> orig) \/ k = names else In k (cn g i).
Proof.
  unfold reverse_connection. cbv zeta.
  set (g1 := set_cb1 (set_cb0 g (fset (cb0 g) j (c1 g j))) (fset (cb1 g) j (c0 g j))).
  assert (E0 : c0 g1 j = c1 g j) by exact (fget_fset_eq _ _ _ _).
  assert (E1 : c1 g1 j = c0 g j) by exact (fget_fset_eq _ _ _ _).
  rewrite E0, E1. intro H.
  destruct (cn_remove g1 (c1 g j) orig) as [g2|] eqn:R1; cbn [bind] in H; [|discriminate].
  destruct (cn_swap_step _ _ _ names _ R1) as [v1 [S1 M1]]. rewrite S1 in H.
  destruct (cn_remove (set_bcn g1 v1) (c0 g j) orig) as [g4|] eqn:R2; cbn [bind] in H; [|discriminate].
  destruct (cn_swap_step _ _ _ names _ R2) as [v2 [S2 M2]]. rewrite S2 in H.
  inversion H; subst g'; clear H. exists v2. split; [reflexivity|].
  intros i k. specialize (M1 i k). specialize (M2 i k).
  change (cn (set_bcn g1 v1) i) with (fget [] v1 i) in M2. change (cn g1 i) with (cn g i) in M1.
  destruct (Pos.eqb i (c0 g j)), (Pos.eqb i (c1 g j)); cbn [orb]; tauto.
Qed.

Lemma reverse_connection_inv g j orig names g' : Inv g -> cget g orig = Some j -> cget g names = None ->
  names = (snd orig, fst orig) -> reverse_connection g j orig names = Ok g' ->
  Inv g' /\ blist g' = blist g /\ clist g' = clist g /\ bdict g' = bdict g /\ bn g' = bn g.
Proof.
  intros I Ho Hn En H.
  destruct (reverse_connection_shape _ _ _ _ _ H) as [v [Eg CN]]. clear H.
  destruct (inv_cget g orig j I Ho) as [Hj Hk].
  destruct (i_ends g I j Hj) as [Ha Hb].
  assert (En' : names = (bn g (c1 g j), bn g (c0 g j))) by (rewrite En, <- Hk; reflexivity).
  assert (B : blist g' = blist g) by (subst g'; reflexivity).
  assert (C : clist g' = clist g) by (subst g'; reflexivity).
  assert (Bd : bdict g' = bdict g) by (subst g'; reflexivity).
  assert (Bn : bn g' = bn g) by (subst g'; reflexivity).
  assert (C0j : c0 g' j = c1 g j) by (subst g'; exact (fget_fset_eq _ _ _ _)).
  assert (C1j : c1 g' j = c0 g j) by (subst g'; exact (fget_fset_eq _ _ _ _)).
  assert (C0n : forall x, x <> j -> c0 g' x = c0 g x)
    by (intros x N; subst g'; exact (fget_fset_neq _ _ _ _ _ N)).
  assert (C1n : forall x, x <> j -> c1 g' x = c1 g x)
    by (intros x N; subst g'; exact (fget_fset_neq _ _ _ _ _ N)).
  assert (CKj : ckey g' j = names) by (unfold ckey; rewrite Bn, C0j, C1j; symmetry; exact En').
  assert (CKn : forall x, x <> j -> ckey g' x = ckey g x)
    by (intros x N; unfold ckey; rewrite Bn, (C0n x N), (C1n x N); reflexivity).
  assert (CN' : forall i k, In k (cn g' i) <->
      if Pos.eqb i (c0 g j) || Pos.eqb i (c1 g j)
      then (In k (cn g i) /\ k <> orig) \/ k = names else In k (cn g i))
    by (subst g'; exact CN).
  split; [|auto].
  (* the connection dictionary: [j] refiled under its new key *)
  assert (IC : DL (ckey g') (clist g') (cdict g')).
  { rewrite C. replace (cdict g') with (aset key2_eqb (adel key2_eqb (cdict g) orig) names j) by (subst g'; reflexivity).
    apply (DL_rename key2_eqb key2_spec (ckey g)); [apply I|exact Ho| |exact CKj|exact CKn].
    intro X. apply keys_adel_incl in X. apply (aget_None_notin key2_eqb key2_spec) in Hn. contradiction. }
  (* the ends of [j] are swapped *)
  assert (IE : forall x, In x (clist g') -> In (c0 g' x) (blist g') /\ In (c1 g' x) (blist g')).
  { rewrite B, C. intros x Hx. destruct (Pos.eq_dec x j) as [->|N].
    - rewrite C0j, C1j. auto.
    - rewrite (C0n x N), (C1n x N). apply (i_ends g I). exact Hx. }
  (* the connection_name sets of the two ends follow the new key *)
  assert (IB : forall i, In i (blist g') -> forall k,
      In k (cn g' i) <-> exists x, In x (clist g') /\ ckey g' x = k /\ (c0 g' x = i \/ c1 g' x = i)).
  { rewrite B, C. intros i Hi k. rewrite CN'.
    destruct (Pos.eqb i (c0 g j) || Pos.eqb i (c1 g j)) eqn:Eab; rewrite (i_back g I i Hi k).
    - assert (Hij : c0 g j = i \/ c1 g j = i).
      { apply orb_true_iff in Eab. destruct Eab as [E|E]; apply Pos.eqb_eq in E; auto. }
      split.
      + intros [[[x [Hx [Kx Ex]]] Nk]| ->].
        * assert (Nx : x <> j) by (intros ->; apply Nk; rewrite <- Kx; exact Hk).
          exists x. rewrite (CKn x Nx), (C0n x Nx), (C1n x Nx). auto.
        * exists j. rewrite CKj, C0j, C1j. split; [exact Hj|split; [reflexivity|tauto]].
      + intros [x [Hx [Kx Ex]]]. destruct (Pos.eq_dec x j) as [->|Nx].
        * right. rewrite CKj in Kx. auto.
        * left. rewrite (CKn x Nx) in Kx. rewrite (C0n x Nx), (C1n x Nx) in Ex.
          split; [exists x; auto|]. intros Ek. apply Nx. apply (inv_ckey_inj g x j I Hx Hj). congruence.
    - apply orb_false_iff in Eab. destruct Eab as [Na Nb]. apply Pos.eqb_neq in Na, Nb.
      split; intros [x [Hx [Kx Ex]]]; exists x.
      + assert (Nx : x <> j) by (intros ->; destruct Ex; congruence).
        rewrite (CKn x Nx), (C0n x Nx), (C1n x Nx). auto.
      + assert (Nx : x <> j) by (intros ->; rewrite C0j, C1j in Ex; destruct Ex; congruence).
        rewrite (CKn x Nx) in Kx. rewrite (C0n x Nx), (C1n x Nx) in Ex. auto. }
  constructor; try assumption; subst g'; apply I.
Qed.

(** ** the connection loop *)
Lemma reorder_conns_inv ks : forall g g' l, Inv g -> reorder_conns g ks = Ok (g', l) ->
  Inv g' /\ blist g' = blist g /\ clist g' = clist g /\ (forall j, In j l -> In j (clist g)).
Proof.
  induction ks as [|k r IH]; cbn [reorder_conns]; intros g g' l I H.
  - inversion H; subst. split; [assumption|]. split; [reflexivity|]. split; [reflexivity|]. intros j [].
  - destruct (cget g k) as [j|] eqn:Ek.
    + destruct (reorder_conns g r) as [[g2 l2]|] eqn:Er; cbn [bind fst snd] in H; [|discriminate].
      inversion H; subst g' l; clear H.
      destruct (IH _ _ _ I Er) as (I2 & Eb & Ec & Hl).
      split; [exact I2|]. split; [exact Eb|]. split; [exact Ec|].
      intros x [<-|Hx]; [apply (inv_cget g k j I Ek)|apply Hl; exact Hx].
    + cbv zeta in H. destruct (cget g (snd k, fst k)) as [j|] eqn:Eo; [|discriminate].
      destruct (reverse_connection g j (snd k, fst k) k) as [g1|] eqn:Erev; cbn [bind] in H; [|discriminate].
      destruct (reorder_conns g1 r) as [[g2 l2]|] eqn:Er; cbn [bind fst snd] in H; [|discriminate].
      inversion H; subst g' l; clear H.
      assert (Ekk : k = (snd (snd k, fst k), fst (snd k, fst k))) by (destruct k; reflexivity).
      destruct (reverse_connection_inv g j _ k g1 I Eo Ek Ekk Erev) as (I1 & B1 & C1 & _).
      destruct (IH _ _ _ I1 Er) as (I2 & Eb & Ec & Hl).
      split; [exact I2|]. split; [congruence|]. split; [congruence|].
      intros x [<-|Hx]; [apply (inv_cget g _ j I Eo)|rewrite <- C1; apply Hl; exact Hx].
Qed.

(** the block list is not touched by the connection loop (no invariant needed) *)
Lemma reorder_conns_blist ks : forall g g' l, reorder_conns g ks = Ok (g', l) -> blist g' = blist g.
Proof.
  induction ks as [|k r IH]; cbn [reorder_conns]; intros g g' l H.
  - inversion H; subst. reflexivity.
  - destruct (cget g k) as [j|].
    + destruct (reorder_conns g r) as [[g2 l2]|] eqn:Er; cbn [bind fst snd] in H; [|discriminate].
      inversion H; subst g' l; clear H. exact (IH _ _ _ Er).
    + cbv zeta in H. destruct (cget g (snd k, fst k)) as [j|]; [|discriminate].
      destruct (reverse_connection g j (snd k, fst k) k) as [g1|] eqn:Erev; cbn [bind] in H; [|discriminate].
      destruct (reorder_conns g1 r) as [[g2 l2]|] eqn:Er; cbn [bind fst snd] in H; [|discriminate].
      inversion H; subst g' l; clear H. rewrite (IH _ _ _ Er).
      destruct (reverse_connection_shape _ _ _ _ _ Erev) as [v [-> _]]. reflexivity.
Qed.

(** ** the whole call *)
(** the two [Permutation] premises say that the call is a true reordering: every block and
    every connection is named exactly once *)
Theorem reorder_inv g bns cns g' : Inv g -> reorder g bns cns = Ok g' ->
  Permutation (blist g) (blist g') -> Permutation (clist g) (clist g') -> Inv g'.
Proof.
  intros I H Pb Pc. unfold reorder in H.
  destruct bns as [|n bns]; cbn [bind] in H.
  - destruct cns as [|c cns].
    + inversion H; subst; exact I.
    + destruct (reorder_conns g (c :: cns)) as [[g2 l2]|] eqn:Er; cbn [bind fst snd] in H; [|discriminate].
      inversion H; subst g'; clear H.
      destruct (reorder_conns_inv _ _ _ _ I Er) as (I2 & Eb & Ec & _).
      apply inv_perm_clist; [exact I2|]. rewrite Ec. exact Pc.
  - destruct (lookup_blocks g (n :: bns)) as [l|] eqn:El; cbn [bind] in H; [|discriminate].
    destruct cns as [|c cns].
    + inversion H; subst g'; clear H. apply inv_perm_blist; [exact I|exact Pb].
    + destruct (reorder_conns (set_blist g l) (c :: cns)) as [[g2 l2]|] eqn:Er; cbn [bind fst snd] in H; [|discriminate].
      inversion H; subst g'; clear H.
      assert (I1 : Inv (set_blist g l)).
      { apply inv_perm_blist; [exact I|]. change (Permutation (blist g) (blist g2)) in Pb.
        rewrite (reorder_conns_blist _ _ _ _ Er) in Pb. exact Pb. }
      destruct (reorder_conns_inv _ _ _ _ I1 Er) as (I2 & Eb & Ec & _).
      apply inv_perm_clist; [exact I2|]. rewrite Ec. exact Pc.
Qed.

(** ** input-side form of the block premise: the given names are a permutation of the current block names *)
Lemma NoDup_map_inj_in {A B} (f : A -> B) l :
  (forall x y, In x l -> In y l -> f x = f y -> x = y) -> NoDup l -> NoDup (map f l).
Proof.
  induction l as [|a r IH]; cbn [map]; intros Inj ND; [constructor|].
  inversion ND as [|? ? Ha NDr]; subst. constructor.
  - intro H. apply in_map_iff in H. destruct H as [y [E Hy]]. apply Ha.
    rewrite (Inj a y); [exact Hy|left; reflexivity|right; exact Hy|symmetry; exact E].
  - apply IH; [|exact NDr]. intros x y Hx Hy. apply Inj; right; assumption.
Qed.

Lemma lookup_blocks_spec g : forall bns l, Inv g -> lookup_blocks g bns = Ok l ->
  map (bn g) l = bns /\ forall i, In i l -> In i (blist g).
Proof.
  induction bns as [|n r IH]; cbn [lookup_blocks]; intros l I H.
  - inversion H; subst. split; [reflexivity|intros i []].
  - destruct (bget g n) as [i|] eqn:E; [|discriminate].
    destruct (lookup_blocks g r) as [l'|] eqn:El; cbn [bind] in H; [|discriminate].
    inversion H; subst l; clear H. destruct (IH _ I eq_refl) as [Em Hin].
    destruct (inv_bget _ _ _ I E) as [Hi Hn]. split.
    + cbn [map]. rewrite Hn, Em. reflexivity.
    + intros x [<-|Hx]; [exact Hi|apply Hin; exact Hx].
Qed.

Lemma lookup_blocks_perm g bns l : Inv g -> Permutation bns (map (bn g) (blist g)) ->
  lookup_blocks g bns = Ok l -> Permutation (blist g) l.
Proof.
  intros I P H. destruct (lookup_blocks_spec g bns l I H) as [Em Hin]. rewrite <- Em in P.
  assert (NDb : NoDup (blist g)) by apply (dl_nodup _ _ _ (i_b g I)).
  assert (NDm : NoDup (map (bn g) (blist g))).
  { apply NoDup_map_inj_in; [|exact NDb]. intros x y Hx Hy. apply (inv_bn_inj g x y I Hx Hy). }
  assert (NDl : NoDup l).
  { apply (NoDup_map_inv (bn g)). eapply Permutation_NoDup; [apply Permutation_sym; exact P|exact NDm]. }
  apply NoDup_Permutation; [exact NDb|exact NDl|]. intro x. split; [|apply Hin].
  intro Hx. assert (Hm : In (bn g x) (map (bn g) l)).
  { eapply Permutation_in; [apply Permutation_sym; exact P|]. apply List.in_map. exact Hx. }
  apply in_map_iff in Hm. destruct Hm as [y [E Hy]].
  rewrite <- (inv_bn_inj g y x I (Hin y Hy) Hx E). exact Hy.
Qed.

Corollary reorder_blocks_inv g bns g' : Inv g -> Permutation bns (map (bn g) (blist g)) ->
  reorder g bns [] = Ok g' -> Inv g'.
Proof.
  intros I P H. unfold reorder in H. destruct bns as [|n bns]; cbn [bind] in H.
  - inversion H; subst; exact I.
  - destruct (lookup_blocks g (n :: bns)) as [l|] eqn:El; cbn [bind] in H; [|discriminate].
    inversion H; subst g'; clear H. apply inv_perm_blist; [exact I|].
    apply (lookup_blocks_perm g (n :: bns)); assumption.
Qed.

(** ** a closed example: the connection (a, b) is requested as (b, a) *)
Example reorder_reversal :
  let r := s2l "r" in let a := s2l "a" in let b := s2l "b" in
  (do g' <- run empty [AddRock r; AddBlock a r; AddBlock b r; AddConn a b; Reorder [b; a] [(b, a)]];
   Ok (map fst (cdict g'), map (bn g') (blist g'), map (ckey g') (clist g'),
       map (cn g') (blist g'), cget g' (a, b)))
  = Ok ([(b, a)], [b; a], [(b, a)], [[(b, a)]; [(b, a)]], None).
Proof. vm_compute. reflexivity. Qed.
