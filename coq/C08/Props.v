(** C08 -- property theorems only.  Each is closed by [exact] of a lemma proved in the other
    files of this directory and followed by Print Assumptions.
    Model: GridEdit.v (t2grid edit state machine).  Invariant: Inv.v. *)
From Coq Require Import Ascii String List Bool PArith NArith FMapPositive Permutation.
From PTBase Require Import Exn PyStr.
From Gen Require Import GenFlags.
From P Require Import Assoc GridEdit GridLemmas Inv InvRock InvBlock InvConn InvRename InvReorder InvMinc InvAdd InvEmbed InvDec Reach Witness.
Import ListNotations.
Open Scope list_scope.

(** the empty grid is consistent *)
Theorem grid_inv_init : Inv empty.
Proof. exact inv_init. Qed.
Print Assumptions grid_inv_init.

(** one preservation theorem per edit, under the weakest precondition the faithful model needs *)
Theorem add_rocktype_preserves : forall g n g', Inv g -> add_rocktype g n = Ok g' -> Inv g'.
Proof. exact add_rocktype_inv. Qed.
Print Assumptions add_rocktype_preserves.
Theorem delete_rocktype_preserves : forall g n g', Inv g -> rock_not_used g n -> delete_rocktype g n = Ok g' -> Inv g'.
Proof. exact delete_rocktype_inv. Qed.
Print Assumptions delete_rocktype_preserves.
Theorem clean_rocktypes_preserves : forall g g', Inv g -> clean_rocktypes g = Ok g' -> Inv g'.
Proof. exact clean_rocktypes_inv. Qed.
Print Assumptions clean_rocktypes_preserves.
Theorem rename_rocktype_preserves : forall g a b g', Inv g -> no_stale_rock g a -> rename_rocktype g a b = Ok g' -> Inv g'.
Proof. exact rename_rocktype_inv. Qed.
Print Assumptions rename_rocktype_preserves.
Theorem add_block_preserves : forall g n rk g', Inv g -> replaced_unconnected g n -> add_block g n rk = Ok g' -> Inv g'.
Proof. exact add_block_inv. Qed.
Print Assumptions add_block_preserves.
Theorem delete_block_preserves : forall g n g', Inv g -> delete_block g n = Ok g' -> Inv g'.
Proof. exact delete_block_inv. Qed.
Print Assumptions delete_block_preserves.
Theorem demote_block_preserves : forall ns g g', Inv g -> demote_block g ns = Ok g' -> Inv g'.
Proof. exact demote_block_inv. Qed.
Print Assumptions demote_block_preserves.
Theorem add_connection_preserves : forall g n0 n1 g', Inv g -> add_connection g n0 n1 = Ok g' -> Inv g'.
Proof. exact add_connection_inv. Qed.
Print Assumptions add_connection_preserves.
Theorem delete_connection_preserves : forall g k g', Inv g -> delete_connection g k = Ok g' -> Inv g'.
Proof. exact delete_connection_inv. Qed.
Print Assumptions delete_connection_preserves.
Theorem rename_blocks_preserves : forall g m g', Inv g -> inj_on_blocks g m -> rename_blocks g m = Ok g' -> Inv g'.
Proof. exact rename_blocks_inv. Qed.
Print Assumptions rename_blocks_preserves.
Theorem reorder_preserves : forall g bns cns g', Inv g -> reorder g bns cns = Ok g' ->
  Permutation (blist g) (blist g') -> Permutation (clist g) (clist g') -> Inv g'.
Proof. exact reorder_inv. Qed.
Print Assumptions reorder_preserves.
(** input-side form for the block half: the names given are a permutation of the current block names *)
Theorem reorder_blocks_preserves : forall g bns g', Inv g -> Permutation bns (map (bn g) (blist g)) ->
  reorder g bns [] = Ok g' -> Inv g'.
Proof. exact reorder_blocks_inv. Qed.
Print Assumptions reorder_blocks_preserves.

(** any edit, then any sequence of edits: induction over the op list, no length bound *)
Theorem grid_inv_step : forall g o g', Inv g -> pre g o -> step g o = Ok g' -> Inv g'.
Proof. exact step_inv. Qed.
Print Assumptions grid_inv_step.
Theorem grid_inv_reachable : forall ops g g', Inv g -> pre_all g ops -> run g ops = Ok g' -> Inv g'.
Proof. exact inv_reachable. Qed.
Print Assumptions grid_inv_reachable.
Theorem grid_inv_reachable_fold : forall ops g g', Inv g -> pre_all g ops ->
  fold_left (fun r o => bind r (fun g1 => step g1 o)) ops (Ok g) = Ok g' -> Inv g'.
Proof. exact inv_reachable_fold. Qed.
Print Assumptions grid_inv_reachable_fold.

(** renaming with any one-to-one name map, swaps and cycles included, loses no block *)
Theorem rename_bijective_loses_no_block : forall g m, Inv g -> inj_on_blocks g m ->
  exists g', rename_blocks g m = Ok g' /\ Inv g' /\ blist g' = blist g /\
             forall i, In i (blist g) -> bn g' i = mapname m (bn g i) /\ bget g' (mapname m (bn g i)) = Some i.
Proof. exact rename_bijective_total. Qed.
Print Assumptions rename_bijective_loses_no_block.
Theorem rename_never_raises : forall g m, Inv g -> exists g', rename_blocks g m = Ok g'.
Proof. exact rename_blocks_total. Qed.
Print Assumptions rename_never_raises.
