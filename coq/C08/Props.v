(** C08 -- property theorems only (placeholder while the proofs are being written) *)
From Coq Require Import Ascii String List Bool PArith.
From PTBase Require Import Exn PyStr.
From P Require Import Assoc GridEdit.
Import ListNotations.
Theorem run_nil : run empty [] = Ok empty.
Proof. exact eq_refl. Qed.
Print Assumptions run_nil.
