(** C08 -- delete_connection and delete_block preserve the invariant (add_connection: InvConnAdd.v, re-exported). *)
From Coq Require Import Ascii String List Bool PArith NArith FMapPositive Permutation Lia.
From PTBase Require Import Exn PyStr.
From P Require Import Assoc GridEdit GridLemmas Inv.
Import ListNotations.
Open Scope list_scope.
From P Require Export InvConnAdd.

(** ** delete_connection *)
Lemma cn_remove_ok g i k g' : cn_remove g i k = Ok g' ->
  g' = set_bcn g (fset (bcn g) i (set_del (cn g i) k)).
Proof. unfold cn_remove. destruct (set_mem k (cn g i)); [|discriminate]. intro H; inversion H; reflexivity. Qed.

(** what [delete_connection] leaves untouched *)
Record frame_dc (g g' : grid) : Prop := {
  f_rname : rname g' = rname g; f_bname : bname g' = bname g; f_brock : brock g' = brock g;
  f_cb0 : cb0 g' = cb0 g; f_cb1 : cb1 g' = cb1 g;
  f_rlist : rlist g' = rlist g; f_rdict : rdict g' = rdict g;
  f_blist : blist g' = blist g; f_bdict : bdict g' = bdict g; f_next : next g' = next g;
  f_clist : forall x, In x (clist g') -> In x (clist g);
  f_ckeys : forall k, In k (map fst (cdict g')) -> In k (map fst (cdict g)) }.
Lemma frame_dc_refl g : frame_dc g g.
Proof. constructor; auto. Qed.
Lemma frame_dc_trans g1 g2 g3 : frame_dc g1 g2 -> frame_dc g2 g3 -> frame_dc g1 g3.
Proof.
  intros A B. constructor; try (etransitivity; [apply B|apply A]).
  - intros x H. apply A, B. exact H.
  - intros k H. apply A, B. exact H.
Qed.
Lemma frame_dc_acc g g' : frame_dc g g' -> bn g' = bn g /\ br g' = br g /\ c0 g' = c0 g /\ c1 g' = c1 g /\ rn g' = rn g /\ ckey g' = ckey g.
Proof.
  intros F. unfold bn, br, c0, c1, rn, ckey, bn, c0, c1.
  rewrite (f_rname _ _ F), (f_bname _ _ F), (f_brock _ _ F), (f_cb0 _ _ F), (f_cb1 _ _ F). auto 10.
Qed.

Theorem delete_connection_spec g k g' : Inv g -> delete_connection g k = Ok g' ->
  Inv g' /\ frame_dc g g' /\ ~ In k (map fst (cdict g')).
Proof.
  intros I H. unfold delete_connection in H.
  destruct (cget g k) as [j|] eqn:E.
  2:{ inversion H; subst g'. split; [exact I|]. split; [apply frame_dc_refl|].
      apply (aget_None_notin key2_eqb key2_spec). exact E. }
  destruct (inv_cget g k j I E) as [Hj Hk].
  destruct (cn_remove g (c0 g j) k) as [g1|] eqn:R1; cbn [bind] in H; [|discriminate].
  apply cn_remove_ok in R1. subst g1.
  set (a := c0 g j) in *. set (b := c1 g j) in *.
  (* one removal per distinct end: the records after the loop *)
  assert (V : exists v, (if Pos.eqb b a then Ok (set_bcn g (fset (bcn g) a (set_del (cn g a) k)))
                         else cn_remove (set_bcn g (fset (bcn g) a (set_del (cn g a) k))) b k) = Ok (set_bcn g v) /\
                        forall i x, In x (fget [] v i) <-> In x (cn g i) /\ ((i = a \/ i = b) -> x <> k)).
  { destruct (Pos.eqb_spec b a) as [Eba|Nba].
    - exists (fset (bcn g) a (set_del (cn g a) k)). split; [reflexivity|]. intros i x. rewrite fget_fset.
      destruct (Pos.eqb_spec i a) as [->|Na]; [rewrite In_set_del; rewrite Eba; intuition|fold (cn g i); rewrite Eba; intuition].
    - match type of H with context [cn_remove ?G b k] => destruct (cn_remove G b k) as [g2|] eqn:R2 end.
      2:{ destruct (Pos.eqb_spec b a); [contradiction|]. discriminate. }
      apply cn_remove_ok in R2. subst g2. eexists. split; [gs; reflexivity|]. intros i x. gs.
      rewrite fget_fset. destruct (Pos.eqb_spec i b) as [->|Nb].
      + rewrite In_set_del, fget_fset. destruct (Pos.eqb_spec b a); [contradiction|]. fold (cn g b). intuition.
      + rewrite fget_fset. destruct (Pos.eqb_spec i a) as [->|Na]; [rewrite In_set_del; intuition|fold (cn g i); intuition]. }
  destruct V as [v [Ev C]]. rewrite Ev in H. cbn [bind] in H. revert H. gs. intro H.
  destruct (mem j (clist g)) eqn:M; [|discriminate]. inversion H; subst g'; clear H M Ev.
  unfold cget in E.
  split; [|split].
  - constructor; try apply I; gs.
    + apply (DL_del key2_eqb key2_spec); [apply I|exact E].
    + intros x Hx. apply lremove_incl in Hx. apply (i_ends g I). exact Hx.
    + intros i Hi x. rewrite C. rewrite (i_back g I i Hi x). split.
      * intros [[y [Hy [Ky My]]] N]. exists y. split; [|auto].
        apply In_lremove; [apply I|]. split; [exact Hy|]. intros ->. apply N; [|congruence].
        fold a b in My. destruct My; auto.
      * intros [y [Hy [Ky My]]]. apply In_lremove in Hy; [|apply I]. destruct Hy as [Hy Ny]. split; [exists y; auto|].
        intros _ ->. apply Ny. apply (inv_ckey_inj g); auto. congruence.
    + intros x Hx. apply lremove_incl in Hx. apply (i_cfresh g I). exact Hx.
  - constructor; try reflexivity; gs; auto.
    + intros x Hx. apply lremove_incl in Hx. exact Hx.
    + intros x Hx. apply (keys_adel_incl key2_eqb) in Hx. exact Hx.
  - gs. apply (notin_keys_adel key2_eqb key2_spec). apply I.
Qed.

Theorem delete_connection_inv g k g' : Inv g -> delete_connection g k = Ok g' -> Inv g'.
Proof. intros I H. exact (proj1 (delete_connection_spec g k g' I H)). Qed.

(** ** delete_block *)
Lemma delete_connections_spec ks : forall g g', Inv g -> delete_connections g ks = Ok g' ->
  Inv g' /\ frame_dc g g' /\ forall k, In k ks -> ~ In k (map fst (cdict g')).
Proof.
  induction ks as [|k r IH]; cbn [delete_connections]; intros g g' I H.
  - inversion H; subst. split; [exact I|]. split; [apply frame_dc_refl|]. intros k [].
  - destruct (delete_connection g k) as [g1|] eqn:E; cbn [bind] in H; [|discriminate].
    destruct (delete_connection_spec g k g1 I E) as [I1 [F1 N1]].
    destruct (IH g1 g' I1 H) as [I' [F' N']].
    split; [exact I'|]. split; [eapply frame_dc_trans; eauto|].
    intros k' [<-|Hk']; [|apply N'; exact Hk']. intro X. apply N1. apply (f_ckeys _ _ F'). exact X.
Qed.

(** [delete_block(n)]: no precondition *)
Theorem delete_block_inv g n g' : Inv g -> delete_block g n = Ok g' -> Inv g'.
Proof.
  intros I H. unfold delete_block in H.
  destruct (bget g n) as [i|] eqn:E; [|inversion H; subst; exact I].
  destruct (inv_bget g n i I E) as [Hi Hn].
  destruct (delete_connections g (cn g i)) as [g1|] eqn:D; cbn [bind] in H; [|discriminate].
  destruct (delete_connections_spec _ g g1 I D) as [I1 [F N]].
  destruct (frame_dc_acc g g1 F) as [Ebn [Ebr [Ec0 [Ec1 [Ern Eck]]]]].
  inversion H; subst g'; clear H.
  assert (Hi1 : In i (blist g1)) by (rewrite (f_blist _ _ F); exact Hi).
  assert (Hno : forall j, In j (clist g1) -> c0 g1 j <> i /\ c1 g1 j <> i).
  { intros j Hj.
    assert (X : (c0 g1 j = i \/ c1 g1 j = i) -> False).
    { intro M. apply (N (ckey g j)).
      - apply (i_back g I i Hi). exists j. split; [apply (f_clist _ _ F); exact Hj|]. split; [reflexivity|].
        rewrite <- Ec0, <- Ec1. exact M.
      - rewrite <- Eck. apply (List.in_map fst) with (x := (ckey g1 j, j)). apply (dl_compl _ _ _ (i_c g1 I1)). exact Hj. }
    split; intro Y; apply X; auto. }
  assert (E1 : aget str_eqb (bdict g1) n = Some i) by (rewrite (f_bdict _ _ F); exact E).
  constructor; try apply I1; gs.
  - apply (DL_del str_eqb str_spec); [apply I1|exact E1].
  - intros j Hj. destruct (i_ends g1 I1 j Hj) as [A B]. destruct (Hno j Hj) as [NA NB].
    split; (apply In_lremove; [apply I1|]); split; assumption.
  - intros x Hx. apply lremove_incl in Hx. apply (i_back g1 I1). exact Hx.
  - intros x Hx. apply lremove_incl in Hx. apply (i_rock g1 I1). exact Hx.
  - intros x Hx. apply lremove_incl in Hx. apply (i_brfresh g1 I1). exact Hx.
  - intros x Hx. apply lremove_incl in Hx. apply (i_bfresh g1 I1). exact Hx.
Qed.
