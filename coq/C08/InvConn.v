(** C08 -- add_connection, delete_connection and delete_block preserve the invariant. *)
From Coq Require Import Ascii String List Bool PArith NArith FMapPositive Permutation Lia.
From PTBase Require Import Exn PyStr.
From P Require Import Assoc GridEdit GridLemmas Inv.
Import ListNotations.
Open Scope list_scope.

(** a fresh [t2connection] object does not disturb the grid *)
Lemma inv_new_conn g i0 i1 : Inv g -> Inv (new_conn g i0 i1).
Proof.
  intro I.
  assert (E0 : forall j, (j < next g)%positive -> c0 (new_conn g i0 i1) j = c0 g j).
  { intros j H. rewrite c0_new_conn. destruct (Pos.eqb_spec j (next g)); [lia|reflexivity]. }
  assert (E1 : forall j, (j < next g)%positive -> c1 (new_conn g i0 i1) j = c1 g j).
  { intros j H. rewrite c1_new_conn. destruct (Pos.eqb_spec j (next g)); [lia|reflexivity]. }
  assert (Ek : forall j, In j (clist g) -> ckey (new_conn g i0 i1) j = ckey g j).
  { intros j H. apply (i_cfresh g I) in H. unfold ckey. rewrite (E0 j H), (E1 j H). gs. reflexivity. }
  constructor; try apply I; gs.
  - apply DL_ext with (name := ckey g); [|apply I]. exact Ek.
  - intros j H. pose proof (i_cfresh g I j H) as L. rewrite (E0 j L), (E1 j L). apply (i_ends g I). exact H.
  - intros i H k. rewrite (i_back g I i H k).
    split; intros [j [Hj [Hk Hm]]]; exists j; pose proof (i_cfresh g I j Hj) as L; (split; [exact Hj|split]).
    + rewrite Ek; assumption.
    + rewrite (E0 j L), (E1 j L). exact Hm.
    + rewrite <- Ek; assumption.
    + rewrite (E0 j L), (E1 j L) in Hm. exact Hm.
  - intros i H. apply (i_brfresh g I) in H. lia.
  - intros i H. apply (i_rfresh g I) in H. lia.
  - intros i H. apply (i_bfresh g I) in H. lia.
  - intros i H. apply (i_cfresh g I) in H. lia.
Qed.

Lemma cn_add2 g a b k i x :
  In x (cn (cn_add (cn_add g a k) b k) i) <-> In x (cn g i) \/ (x = k /\ (i = a \/ i = b)).
Proof.
  rewrite cn_cn_add. destruct (Pos.eqb_spec i b) as [->|Nb].
  - rewrite In_set_add, cn_cn_add. destruct (Pos.eqb_spec b a) as [->|Na].
    + rewrite In_set_add. intuition.
    + intuition.
  - rewrite cn_cn_add. destruct (Pos.eqb_spec i a) as [->|Na].
    + rewrite In_set_add. intuition.
    + intuition.
Qed.

(** [add_connection(con)] for an object [j] not in the list whose two blocks are in the grid: no
    further precondition (a connection with the same key is replaced; it joined the same blocks) *)
Lemma add_connection_obj_inv g j g' : Inv g -> ~ In j (clist g) -> (j < next g)%positive ->
  In (c0 g j) (blist g) -> In (c1 g j) (blist g) -> add_connection_obj g j = Ok g' -> Inv g'.
Proof.
  intros I Hj Hlt H0 H1 H. unfold add_connection_obj in H.
  destruct (cget g (ckey g j)) as [old|] eqn:E.
  - destruct (mem old (clist g)) eqn:M; cbn [bind] in H; [|discriminate]. apply mem_In in M.
    inversion H; subst g'; clear H.
    destruct (inv_cget g _ old I E) as [_ Ko].
    assert (O0 : c0 g old = c0 g j).
    { destruct (i_ends g I old M) as [A _]. apply (inv_bn_inj g); auto. unfold ckey in Ko. congruence. }
    assert (O1 : c1 g old = c1 g j).
    { destruct (i_ends g I old M) as [_ A]. apply (inv_bn_inj g); auto. unfold ckey in Ko. congruence. }
    assert (Q : forall x, In x (lreplace (clist g) old j) <-> x = j \/ (In x (clist g) /\ x <> old)).
    { intro x. apply In_lreplace; [apply I|exact M]. }
    unfold cget in E.
    constructor; try apply I; gs.
    + apply (DL_add_replace key2_eqb key2_spec); auto. apply I.
    + intros x Hx. apply Q in Hx. destruct Hx as [->|[Hx _]]; [auto|apply (i_ends g I); exact Hx].
    + intros i Hi k. rewrite cn_add2. gs. rewrite (i_back g I i Hi k). split.
      * intros [[x [Hx [Hk Hm]]]|[-> Hm]].
        -- destruct (Pos.eq_dec x old) as [->|Nx].
           ++ exists j. split; [apply Q; left; reflexivity|]. split; [congruence|]. rewrite <- O0, <- O1. exact Hm.
           ++ exists x. split; [apply Q; right; split; assumption|]. auto.
        -- exists j. split; [apply Q; left; reflexivity|]. split; [reflexivity|]. destruct Hm; auto.
      * intros [x [Hx [Hk Hm]]]. apply Q in Hx. destruct Hx as [->|[Hx Nx]].
        -- right. split; [auto|]. destruct Hm; auto.
        -- left. exists x. auto.
    + intros x Hx. apply Q in Hx. destruct Hx as [->|[Hx _]]; [exact Hlt|apply (i_cfresh g I); exact Hx].
  - cbn [bind] in H. inversion H; subst g'; clear H. unfold cget in E.
    assert (Q : forall x, In x (clist g ++ [j]) <-> In x (clist g) \/ x = j).
    { intro x. rewrite in_app_iff. cbn. intuition. }
    constructor; try apply I; gs.
    + apply (DL_add_new key2_eqb key2_spec); auto. apply I.
    + intros x Hx. apply Q in Hx. destruct Hx as [Hx| ->]; [apply (i_ends g I); exact Hx|auto].
    + intros i Hi k. rewrite cn_add2. gs. rewrite (i_back g I i Hi k). split.
      * intros [[x [Hx [Hk Hm]]]|[-> Hm]].
        -- exists x. split; [apply Q; left; exact Hx|auto].
        -- exists j. split; [apply Q; right; reflexivity|]. split; [reflexivity|]. destruct Hm; auto.
      * intros [x [Hx [Hk Hm]]]. apply Q in Hx. destruct Hx as [Hx| ->].
        -- left. exists x. auto.
        -- right. split; [auto|]. destruct Hm; auto.
    + intros x Hx. apply Q in Hx. destruct Hx as [Hx| ->]; [apply (i_cfresh g I); exact Hx|exact Hlt].
Qed.

(** [add_connection(t2connection([grid.block[n0], grid.block[n1]]))]: no precondition *)
Theorem add_connection_inv g n0 n1 g' : Inv g -> add_connection g n0 n1 = Ok g' -> Inv g'.
Proof.
  intros I H. unfold add_connection in H.
  destruct (bget g n0) as [i0|] eqn:E0; [|discriminate]. destruct (bget g n1) as [i1|] eqn:E1; [|discriminate].
  destruct (inv_bget g n0 i0 I E0) as [B0 _]. destruct (inv_bget g n1 i1 I E1) as [B1 _].
  apply (add_connection_obj_inv (new_conn g i0 i1) (next g)); [apply inv_new_conn; exact I| | | | |exact H]; gs.
  - apply inv_next_notin_c. exact I.
  - lia.
  - rewrite Pos.eqb_refl. exact B0.
  - rewrite Pos.eqb_refl. exact B1.
Qed.

(** ** delete_connection *)
Lemma cn_remove_ok g i k g' : cn_remove g i k = Ok g' ->
  g' = set_bcn g (fset (bcn g) i (set_del (cn g i) k)).
Proof. unfold cn_remove. destruct (set_mem k (cn g i)); [|discriminate]. intro H; inversion H; reflexivity. Qed.

(** what [delete_connection] leaves untouched *)
Record frame_dc (g g' : grid) : Prop := {
  f_rname : rname g' = rname g; f_bname : bname g' = bname g; f_brock : brock g' = brock g;
  f_cb0 : cb0 g' = cb0 g; f_cb1 : cb1 g' = cb1 g;
  f_rlist : rlist g' = rlist g; f_rdict : rdict g' = rdict g;
  f_blist : blist g' = blist g; f_bdict : bdict g' = bdict g; f_next : next g' = next g;
  f_clist : forall x, In x (clist g') -> In x (clist g);
  f_ckeys : forall k, In k (map fst (cdict g')) -> In k (map fst (cdict g)) }.
Lemma frame_dc_refl g : frame_dc g g.
Proof. constructor; auto. Qed.
Lemma frame_dc_trans g1 g2 g3 : frame_dc g1 g2 -> frame_dc g2 g3 -> frame_dc g1 g3.
Proof.
  intros A B. constructor; try (etransitivity; [apply B|apply A]).
  - intros x H. apply A, B. exact H.
  - intros k H. apply A, B. exact H.
Qed.
Lemma frame_dc_acc g g' : frame_dc g g' -> bn g' = bn g /\ br g' = br g /\ c0 g' = c0 g /\ c1 g' = c1 g /\ rn g' = rn g /\ ckey g' = ckey g.
Proof.
  intros F. unfold bn, br, c0, c1, rn, ckey, bn, c0, c1.
  rewrite (f_rname _ _ F), (f_bname _ _ F), (f_brock _ _ F), (f_cb0 _ _ F), (f_cb1 _ _ F). auto 10.
Qed.

Theorem delete_connection_spec g k g' : Inv g -> delete_connection g k = Ok g' ->
  Inv g' /\ frame_dc g g' /\ ~ In k (map fst (cdict g')).
Proof.
  intros I H. unfold delete_connection in H.
  destruct (cget g k) as [j|] eqn:E.
  2:{ inversion H; subst g'. split; [exact I|]. split; [apply frame_dc_refl|].
      apply (aget_None_notin key2_eqb key2_spec). exact E. }
  destruct (inv_cget g k j I E) as [Hj Hk].
  destruct (cn_remove g (c0 g j) k) as [g1|] eqn:R1; cbn [bind] in H; [|discriminate].
  apply cn_remove_ok in R1. subst g1.
  match type of H with context [cn_remove ?G ?i ?kk] => destruct (cn_remove G i kk) as [g2|] eqn:R2 end; cbn [bind] in H; [|discriminate].
  apply cn_remove_ok in R2. subst g2. revert H. gs. intro H.
  destruct (mem j (clist g)) eqn:M; [|discriminate]. inversion H; subst g'; clear H M.
  set (a := c0 g j) in *. set (b := c1 g j) in *.
  assert (C : forall i x, In x (fget [] (fset (fset (bcn g) a (set_del (cn g a) k)) b
                                  (set_del (fget [] (fset (bcn g) a (set_del (cn g a) k)) b) k)) i)
                      <-> In x (cn g i) /\ ((i = a \/ i = b) -> x <> k)).
  { intros i x. rewrite fget_fset. destruct (Pos.eqb_spec i b) as [->|Nb].
    - rewrite In_set_del, fget_fset. destruct (Pos.eqb_spec b a) as [->|Na].
      + rewrite In_set_del. unfold cn. intuition.
      + fold (cn g b). intuition.
    - rewrite fget_fset. destruct (Pos.eqb_spec i a) as [->|Na].
      + rewrite In_set_del. intuition.
      + fold (cn g i). intuition. }
  unfold cget in E.
  split; [|split].
  - constructor; try apply I; gs.
    + apply (DL_del key2_eqb key2_spec); [apply I|exact E].
    + intros x Hx. apply lremove_incl in Hx. apply (i_ends g I). exact Hx.
    + intros i Hi x. rewrite C. rewrite (i_back g I i Hi x). split.
      * intros [[y [Hy [Ky My]]] N]. exists y. split; [|auto].
        apply In_lremove; [apply I|]. split; [exact Hy|]. intros ->. apply N; [|congruence].
        fold a b in My. destruct My; auto.
      * intros [y [Hy [Ky My]]]. apply In_lremove in Hy; [|apply I]. destruct Hy as [Hy Ny]. split; [exists y; auto|].
        intros _ ->. apply Ny. apply (inv_ckey_inj g); auto. congruence.
    + intros x Hx. apply lremove_incl in Hx. apply (i_cfresh g I). exact Hx.
  - constructor; gs; auto.
    + intros x Hx. apply lremove_incl in Hx. exact Hx.
    + intros x Hx. apply (keys_adel_incl key2_eqb) in Hx. exact Hx.
  - gs. apply (notin_keys_adel key2_eqb key2_spec). apply I.
Qed.

Theorem delete_connection_inv g k g' : Inv g -> delete_connection g k = Ok g' -> Inv g'.
Proof. intros I H. exact (proj1 (delete_connection_spec g k g' I H)). Qed.

(** ** delete_block *)
Lemma delete_connections_spec ks : forall g g', Inv g -> delete_connections g ks = Ok g' ->
  Inv g' /\ frame_dc g g' /\ forall k, In k ks -> ~ In k (map fst (cdict g')).
Proof.
  induction ks as [|k r IH]; cbn [delete_connections]; intros g g' I H.
  - inversion H; subst. split; [exact I|]. split; [apply frame_dc_refl|]. intros k [].
  - destruct (delete_connection g k) as [g1|] eqn:E; cbn [bind] in H; [|discriminate].
    destruct (delete_connection_spec g k g1 I E) as [I1 [F1 N1]].
    destruct (IH g1 g' I1 H) as [I' [F' N']].
    split; [exact I'|]. split; [eapply frame_dc_trans; eauto|].
    intros k' [<-|Hk']; [|apply N'; exact Hk']. intro X. apply N1. apply (f_ckeys _ _ F'). exact X.
Qed.

(** [delete_block(n)]: no precondition *)
Theorem delete_block_inv g n g' : Inv g -> delete_block g n = Ok g' -> Inv g'.
Proof.
  intros I H. unfold delete_block in H.
  destruct (bget g n) as [i|] eqn:E; [|inversion H; subst; exact I].
  destruct (inv_bget g n i I E) as [Hi Hn].
  destruct (delete_connections g (cn g i)) as [g1|] eqn:D; cbn [bind] in H; [|discriminate].
  destruct (delete_connections_spec _ g g1 I D) as [I1 [F N]].
  destruct (frame_dc_acc g g1 F) as [Ebn [Ebr [Ec0 [Ec1 [Ern Eck]]]]].
  inversion H; subst g'; clear H.
  assert (Hi1 : In i (blist g1)) by (rewrite (f_blist _ _ F); exact Hi).
  assert (Hno : forall j, In j (clist g1) -> c0 g1 j <> i /\ c1 g1 j <> i).
  { intros j Hj.
    assert (X : (c0 g1 j = i \/ c1 g1 j = i) -> False).
    { intro M. apply (N (ckey g j)).
      - apply (i_back g I i Hi). exists j. split; [apply (f_clist _ _ F); exact Hj|]. split; [reflexivity|].
        rewrite <- Ec0, <- Ec1. exact M.
      - rewrite <- Eck. apply (List.in_map fst) with (x := (ckey g1 j, j)). apply (dl_compl _ _ _ (i_c g1 I1)). exact Hj. }
    split; intro Y; apply X; auto. }
  assert (E1 : aget str_eqb (bdict g1) n = Some i) by (rewrite (f_bdict _ _ F); exact E).
  constructor; try apply I1; gs.
  - apply (DL_del str_eqb str_spec); [apply I1|exact E1].
  - intros j Hj. destruct (i_ends g1 I1 j Hj) as [A B]. destruct (Hno j Hj) as [NA NB].
    split; (apply In_lremove; [apply I1|]); split; assumption.
  - intros x Hx. apply lremove_incl in Hx. apply (i_back g1 I1). exact Hx.
  - intros x Hx. apply lremove_incl in Hx. apply (i_rock g1 I1). exact Hx.
  - intros x Hx. apply lremove_incl in Hx. apply (i_brfresh g1 I1). exact Hx.
  - intros x Hx. apply lremove_incl in Hx. apply (i_bfresh g1 I1). exact Hx.
Qed.
