(** C08 -- extraction of the executable grid-edit model for the correspondence run.

    One case per line, fields separated by TAB:
      field 0      [F<k>] (full canonical dump) or [H<k>] (Adler-32 of the dump), where the
                   first [k] steps (the construction of the initial grid) are not printed;
      field i>0    one edit: [ar,N] [dr,N] [cr] [rr,A,B] [ab,N,R] [db,N] [dm,N,...] [ac,A,B]
                   [dc,A,B] [rn,K1,V1,K2,V2,...] [ro,N,...;A1,B1,A2,B2,...]  (names hex-encoded).
    Result: the observations after each printed step joined by [|]; a step that raises
    prints [E:<exception>] and ends the case. *)
From Coq Require Import Ascii String List Bool PArith NArith FMapPositive.
From PTBase Require Import Exn PyStr PyNum PyVal Wire.
From P Require Import Assoc GridEdit.
Import ListNotations.
Open Scope list_scope.

(** ** canonical observation *)
Definition index_map (l : list id) : fmap N :=
  fst (fold_left (fun (acc : fmap N * N) i =>
                    (match PositiveMap.find i (fst acc) with Some _ => fst acc | None => fset (fst acc) i (snd acc) end,
                     N.succ (snd acc))) l (fempty, 0%N)).
Definition show_idx (m : fmap N) (i : id) : str :=
  match PositiveMap.find i m with Some n => show_n n | None => s2l "-" end.

Fixpoint str_cmp (a b : str) : comparison :=
  match a, b with
  | [], [] => Eq
  | [], _ :: _ => Lt
  | _ :: _, [] => Gt
  | x :: a', y :: b' => match N.compare (N_of_ascii x) (N_of_ascii y) with Eq => str_cmp a' b' | c => c end
  end.
Definition key2_le (a b : key2) : bool :=
  match str_cmp (fst a) (fst b) with
  | Lt => true | Gt => false
  | Eq => match str_cmp (snd a) (snd b) with Gt => false | _ => true end
  end.
Fixpoint insert_key (k : key2) (l : list key2) : list key2 :=
  match l with [] => [k] | x :: r => if key2_le k x then k :: l else x :: insert_key k r end.
Definition sort_keys (l : list key2) : list key2 := fold_right insert_key [] l.

Fixpoint joinw (sep : str) (l : list str) : str :=
  match l with [] => [] | [a] => a | a :: r => a ++ sep ++ joinw sep r end.
Definition show_key (k : key2) : str := fst k ++ s2l "~" ++ snd k.

Definition observe (g : grid) : str :=
  let rm := index_map (rlist g) in
  let bm := index_map (blist g) in
  let cm := index_map (clist g) in
  let comma := s2l "," in let sl := s2l "/" in let eq := s2l "=" in
  s2l "R:" ++ joinw comma (map (rn g) (rlist g)) ++
  s2l ";RD:" ++ joinw comma (map (fun kv => fst kv ++ eq ++ show_idx rm (snd kv) ++ eq ++ rn g (snd kv)) (rdict g)) ++
  s2l ";B:" ++ joinw comma (map (fun i => bn g i ++ sl ++ rn g (br g i) ++ sl ++ show_idx rm (br g i) ++ sl ++
                                          joinw (s2l "+") (map show_key (sort_keys (cn g i)))) (blist g)) ++
  s2l ";BD:" ++ joinw comma (map (fun kv => fst kv ++ eq ++ show_idx bm (snd kv) ++ eq ++ bn g (snd kv)) (bdict g)) ++
  s2l ";C:" ++ joinw comma (map (fun j => show_key (ckey g j) ++ sl ++ show_idx bm (c0 g j) ++ sl ++ show_idx bm (c1 g j)) (clist g)) ++
  s2l ";CD:" ++ joinw comma (map (fun kv => show_key (fst kv) ++ eq ++ show_idx cm (snd kv) ++ eq ++ show_key (ckey g (snd kv))) (cdict g)).

(** Adler-32 of a string: the pair (a, b) with result b * 65536 + a *)
Definition adler (s : str) : N * N :=
  fold_left (fun (ab : N * N) c =>
               let a := (fst ab + N_of_ascii c)%N in
               let a := if (65521 <=? a)%N then (a - 65521)%N else a in
               let b := (snd ab + a)%N in
               let b := if (65521 <=? b)%N then (b - 65521)%N else b in (a, b)) s (1%N, 0%N).
Definition show_adler (s : str) : str := let ab := adler s in show_n (fst ab) ++ s2l "." ++ show_n (snd ab).

(** ** parsing *)
Fixpoint pairs (l : list str) : list (str * str) :=
  match l with a :: b :: r => (a, b) :: pairs r | _ => [] end.
Definition comma_c : ascii := ",".
Definition semi_c : ascii := ";".
Definition names_of (l : list str) : list str :=
  match l with [[]] => [] | _ => map unhex l end.
Definition parse_op (f : str) : option op :=
  match split_c semi_c f with
  | [p0; p1] =>
      match split_c comma_c p0 with
      | k :: bns => if str_eqb k (s2l "ro")
                    then Some (Reorder (names_of bns) (pairs (names_of (split_c comma_c p1))))
                    else None
      | [] => None
      end
  | [p0] =>
      match split_c comma_c p0 with
      | k :: args =>
          let a := names_of args in
          if str_eqb k (s2l "ar") then match a with [n] => Some (AddRock n) | _ => None end
          else if str_eqb k (s2l "dr") then match a with [n] => Some (DelRock n) | _ => None end
          else if str_eqb k (s2l "cr") then match a with [] => Some CleanRocks | _ => None end
          else if str_eqb k (s2l "rr") then match a with [x; y] => Some (RenRock x y) | _ => None end
          else if str_eqb k (s2l "ab") then match a with [n; r] => Some (AddBlock n r) | _ => None end
          else if str_eqb k (s2l "db") then match a with [n] => Some (DelBlock n) | _ => None end
          else if str_eqb k (s2l "dm") then Some (Demote a)
          else if str_eqb k (s2l "ac") then match a with [x; y] => Some (AddConn x y) | _ => None end
          else if str_eqb k (s2l "dc") then match a with [x; y] => Some (DelConn x y) | _ => None end
          else if str_eqb k (s2l "rn") then Some (Rename (pairs a))
          else None
      | [] => None
      end
  | _ => None
  end.
Fixpoint parse_ops (fs : list str) : option (list op) :=
  match fs with
  | [] => Some []
  | f :: r => match parse_op f, parse_ops r with Some o, Some l => Some (o :: l) | _, _ => None end
  end.

Fixpoint exec (hash : bool) (g : grid) (ops : list op) (skip : nat) : list str :=
  match ops with
  | [] => []
  | o :: r =>
      match step g o with
      | Raise e => [s2l "E:" ++ show_exn e]
      | Ok g1 =>
          match skip with
          | S k => exec hash g1 r k
          | O => (if hash then show_adler (observe g1) else observe g1) :: exec hash g1 r O
          end
      end
  end.

Definition run_case (line : str) : str :=
  match fields line with
  | (m :: kdigits) :: fs =>
      match parse_ops fs with
      | Some ops =>
          if ceqb m "F" then joinw (s2l "|") (exec false empty ops (nat_of_str kdigits))
          else if ceqb m "H" then joinw (s2l "|") (exec true empty ops (nat_of_str kdigits))
          else s2l "BADCASE"
      | None => s2l "BADCASE"
      end
  | _ => s2l "BADCASE"
  end.

Require Extraction.
Require Import ExtrOcamlBasic ExtrOcamlString.
Extraction "Drv.ml" run_case.
