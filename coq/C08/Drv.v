(** C08 -- extraction of the executable grid-edit model for the correspondence run.

    One case per line, fields separated by TAB:
      field 0      [F<k>] (full canonical dump) or [H<k>] (Adler-32 of the dump), where the
                   first [k] steps (the construction of the initial grid) are not printed;
      field i>0    one edit: [ar,N] [dr,N] [cr] [rr,A,B] [ab,N,R] [db,N] [dm,N,...] [ac,A,B]
                   [dc,A,B] [rn,K1,V1,K2,V2,...] [rf,K1,V1,...] (rename_blocks with fix_blocknames = True)
                   [ro,N,...;A1,B1,A2,B2,...]  (names hex-encoded).
                   [mi,BR,LEVELS,N,...;N,...]  minc: B = matrix block naming (d default, z, k), R = rock naming (d default,
                   i identity, m per level), the selection (empty: all blocks), the names failing the volume test;
    Two-grid cases, modes [D<k>] (full dumps) / [E<k>] (Adler-32): a second grid lives on the same objects;
                   [x:<edit>] applies an edit to it; [ad,0] main = main + other, [ad,1] main = other + main;
                   [em,o,NA,NB,F] main = main.embed(other, t2connection([main.block[NA], other.block[NB]])),
                   [em,f,NA,NB,F] the same with two NEW block objects that only carry those names; F = 1 iff the sub-grid fits.
                   Both grids are printed after every step, joined by [#].
    Result: the observations after each printed step joined by [|]; a step that raises prints [E:<exception>]; if
    the grid it was applied to was consistent ([inv_b]) the caller "catches the exception": [@] and the observation of
    the grid as the refused edit left it ([GridEdit.after]) follow, and the case goes on from there; else the case ends.  In the full-dump modes [F]/[D] an observation ends in [!] when the
    (main) grid is NOT consistent: the verdict of [inv_b], which decides the invariant [Inv] (InvDec.v). *)
From Coq Require Import Ascii String List Bool PArith NArith FMapPositive.
From PTBase Require Import Exn PyStr PyNum PyVal Wire.
From Gen Require Import GenFlags.
From P Require Import Assoc GridEdit InvDec.
Import ListNotations.
Open Scope list_scope.

(** ** canonical observation *)
Definition index_map (l : list id) : fmap N :=
  fst (fold_left (fun (acc : fmap N * N) i =>
                    (match PositiveMap.find i (fst acc) with Some _ => fst acc | None => fset (fst acc) i (snd acc) end,
                     N.succ (snd acc))) l (fempty, 0%N)).
Definition show_idx (m : fmap N) (i : id) : str :=
  match PositiveMap.find i m with Some n => show_n n | None => s2l "-" end.

Fixpoint str_cmp (a b : str) : comparison :=
  match a, b with
  | [], [] => Eq
  | [], _ :: _ => Lt
  | _ :: _, [] => Gt
  | x :: a', y :: b' => match N.compare (N_of_ascii x) (N_of_ascii y) with Eq => str_cmp a' b' | c => c end
  end.
Definition key2_le (a b : key2) : bool :=
  match str_cmp (fst a) (fst b) with
  | Lt => true | Gt => false
  | Eq => match str_cmp (snd a) (snd b) with Gt => false | _ => true end
  end.
Fixpoint insert_key (k : key2) (l : list key2) : list key2 :=
  match l with [] => [k] | x :: r => if key2_le k x then k :: l else x :: insert_key k r end.
Definition sort_keys (l : list key2) : list key2 := fold_right insert_key [] l.

Fixpoint joinw (sep : str) (l : list str) : str :=
  match l with [] => [] | [a] => a | a :: r => a ++ sep ++ joinw sep r end.
Definition show_key (k : key2) : str := fst k ++ s2l "~" ++ snd k.

Definition observe (g : grid) : str :=
  let rm := index_map (rlist g) in
  let bm := index_map (blist g) in
  let cm := index_map (clist g) in
  let comma := s2l "," in let sl := s2l "/" in let eq := s2l "=" in
  s2l "R:" ++ joinw comma (map (rn g) (rlist g)) ++
  s2l ";RD:" ++ joinw comma (map (fun kv => fst kv ++ eq ++ show_idx rm (snd kv) ++ eq ++ rn g (snd kv)) (rdict g)) ++
  s2l ";B:" ++ joinw comma (map (fun i => bn g i ++ sl ++ rn g (br g i) ++ sl ++ show_idx rm (br g i) ++ sl ++
                                          joinw (s2l "+") (map show_key (sort_keys (cn g i)))) (blist g)) ++
  s2l ";BD:" ++ joinw comma (map (fun kv => fst kv ++ eq ++ show_idx bm (snd kv) ++ eq ++ bn g (snd kv)) (bdict g)) ++
  s2l ";C:" ++ joinw comma (map (fun j => show_key (ckey g j) ++ sl ++ show_idx bm (c0 g j) ++ sl ++ show_idx bm (c1 g j)) (clist g)) ++
  s2l ";CD:" ++ joinw comma (map (fun kv => show_key (fst kv) ++ eq ++ show_idx cm (snd kv) ++ eq ++ show_key (ckey g (snd kv))) (cdict g)).

(** Adler-32 of a string: the pair (a, b) with result b * 65536 + a *)
Definition adler (s : str) : N * N :=
  fold_left (fun (ab : N * N) c =>
               let a := (fst ab + N_of_ascii c)%N in
               let a := if (65521 <=? a)%N then (a - 65521)%N else a in
               let b := (snd ab + a)%N in
               let b := if (65521 <=? b)%N then (b - 65521)%N else b in (a, b)) s (1%N, 0%N).
Definition show_adler (s : str) : str := let ab := adler s in show_n (fst ab) ++ s2l "." ++ show_n (snd ab).

(** ** parsing *)
(** (PTBase.Wire.unhex works on unary numbers and PyStr.split_c reverses with the quadratic [List.rev]: on the lines of
    the 200-block cases that dominated the run of the driver; same functions, binary numbers and [rev_append]) *)
Definition hexval_n (c : ascii) : N :=
  let n := N_of_ascii c in
  if (48 <=? n)%N && (n <=? 57)%N then (n - 48)%N
  else if (97 <=? n)%N && (n <=? 102)%N then (n - 87)%N
  else if (65 <=? n)%N && (n <=? 70)%N then (n - 55)%N else 0%N.
Fixpoint unhexn (s : str) : str :=
  match s with
  | a :: b :: r => ascii_of_N (16 * hexval_n a + hexval_n b) :: unhexn r
  | _ => []
  end.
Fixpoint split_acc (ch : ascii) (cur : str) (s : str) : list str :=
  match s with
  | [] => [rev_append cur []]
  | c :: r => if ceqb c ch then rev_append cur [] :: split_acc ch [] r else split_acc ch (c :: cur) r
  end.
Definition splitc (ch : ascii) (s : str) : list str := split_acc ch [] s.
Definition tab_c : ascii := "009".
Fixpoint pairs (l : list str) : list (str * str) :=
  match l with a :: b :: r => (a, b) :: pairs r | _ => [] end.
Definition comma_c : ascii := ",".
Definition semi_c : ascii := ";".
Definition names_of (l : list str) : list str :=
  match l with [[]] => [] | _ => map unhexn l end.
(** naming functions of minc: the defaults of t2grids.py and the variants the harness passes *)
Definition mb_default (n : str) (m : nat) : str := let l := show_nat m in l ++ skipn (length l) n.
Definition mb_z (n : str) (m : nat) : str := firstn 5 (show_nat m ++ s2l "zz" ++ skipn 3 n).       (* ('%dzz%s' % (level, name[3:]))[:5] *)
Definition mb_k (n : str) (m : nat) : str := show_nat (m + 4) ++ skipn 1 n.                        (* str(level + 4) + name[1:] *)
Definition mr_default (n : str) (m : nat) : str := match m with O => n | _ => s2l "X" ++ skipn 1 n end.
Definition mr_id (n : str) (m : nat) : str := n.
Definition mr_level (n : str) (m : nat) : str := s2l "M" ++ show_nat m ++ skipn 2 n.                (* 'M%d' % level + name[2:] *)
Definition parse_naming (c : str) : option ((str -> nat -> str) * (str -> nat -> str)) :=
  match c with
  | [b; r] =>
      match (if ceqb b "d" then Some mb_default else if ceqb b "z" then Some mb_z else if ceqb b "k" then Some mb_k else None),
            (if ceqb r "d" then Some mr_default else if ceqb r "i" then Some mr_id else if ceqb r "m" then Some mr_level else None) with
      | Some fb, Some fr => Some (fb, fr)
      | _, _ => None
      end
  | _ => None
  end.

Definition parse_op (f : str) : option op :=
  match splitc semi_c f with
  | [p0; p1] =>
      match splitc comma_c p0 with
      | k :: bns => if str_eqb k (s2l "ro")
                    then Some (Reorder (names_of bns) (pairs (names_of (splitc comma_c p1))))
                    else if str_eqb k (s2l "mi")
                    then match bns with
                         | nm :: lv :: sel =>
                             match parse_naming nm with
                             | Some (fb, fr) => Some (Minc fb fr (nat_of_str lv) (names_of sel) (names_of (splitc comma_c p1)))
                             | None => None
                             end
                         | _ => None
                         end
                    else None
      | [] => None
      end
  | [p0] =>
      match splitc comma_c p0 with
      | k :: args =>
          let a := names_of args in
          if str_eqb k (s2l "ar") then match a with [n] => Some (AddRock n) | _ => None end
          else if str_eqb k (s2l "dr") then match a with [n] => Some (DelRock n) | _ => None end
          else if str_eqb k (s2l "cr") then match a with [] => Some CleanRocks | _ => None end
          else if str_eqb k (s2l "rr") then match a with [x; y] => Some (RenRock x y) | _ => None end
          else if str_eqb k (s2l "ab") then match a with [n; r] => Some (AddBlock n r) | _ => None end
          else if str_eqb k (s2l "db") then match a with [n] => Some (DelBlock n) | _ => None end
          else if str_eqb k (s2l "dm") then Some (Demote a)
          else if str_eqb k (s2l "ac") then match a with [x; y] => Some (AddConn x y) | _ => None end
          else if str_eqb k (s2l "dc") then match a with [x; y] => Some (DelConn x y) | _ => None end
          else if str_eqb k (s2l "rn") then Some (Rename (pairs a))
          else if str_eqb k (s2l "rf") then Some (RenameFix (pairs a))
          else None
      | [] => None
      end
  | _ => None
  end.
Fixpoint parse_ops (fs : list str) : option (list op) :=
  match fs with
  | [] => Some []
  | f :: r => match parse_op f, parse_ops r with Some o, Some l => Some (o :: l) | _, _ => None end
  end.

(** ** commands of the two-grid machine: the main grid [g] and a second grid [o] on the same objects *)
Inductive cmd :=
  | OnMain (e : op) | OnOther (e : op) | Sum (other_first : bool) | Emb (fresh : bool) (na nb : str) (fits : bool).
Definition colon_c : ascii := ":".
Definition parse_cmd (f : str) : option cmd :=
  match f with
  | c1 :: c2 :: rest =>
      if ceqb c1 "x" && ceqb c2 ":" then option_map OnOther (parse_op rest)
      else match splitc comma_c f with
           | [k; a] => if str_eqb k (s2l "ad") then Some (Sum (str_eqb a (s2l "1"))) else option_map OnMain (parse_op f)
           | [k; md; na; nb; ft] =>
               if str_eqb k (s2l "em") then Some (Emb (str_eqb md (s2l "f")) (unhexn na) (unhexn nb) (str_eqb ft (s2l "1")))
               else option_map OnMain (parse_op f)
           | _ => option_map OnMain (parse_op f)
           end
  | _ => option_map OnMain (parse_op f)
  end.
Fixpoint parse_cmds (fs : list str) : option (list cmd) :=
  match fs with
  | [] => Some []
  | f :: r => match parse_cmd f, parse_cmds r with Some o, Some l => Some (o :: l) | _, _ => None end
  end.

Definition exec_cmd (g : grid) (o : view) (c : cmd) : res (grid * view) :=
  match c with
  | OnMain e => do g' <- step g e; Ok (g', o)
  | OnOther e => do g' <- step (with_view g o) e; Ok (with_view g' (view_of g), view_of g')
  | Sum sw => do g' <- step g (AddGrid o sw); Ok (g', o)
  | Emb false na nb fits =>
      match bget g na, aget str_eqb (v_bdict o) nb with      (* main.block[NA], other.block[NB] *)
      | Some i0, Some i1 => do g' <- step g (Embed o i0 i1 fits); Ok (g', o)
      | _, _ => Raise KeyError
      end
  | Emb true na nb fits =>                                   (* t2block(NA, ...), t2block(NB, ...): objects of neither grid *)
      let g1 := new_block (new_block g na 1%positive) nb 1%positive in
      do g' <- step g1 (Embed o (next g) (Pos.succ (next g)) fits); Ok (g', o)
  end.

(** the state to go on with when the command raises; [None]: the grid it was applied to was not consistent, the case ends *)
Definition after_cmd (g : grid) (o : view) (c : cmd) : option (grid * view) :=
  match c with
  | OnMain e => if inv_b g then Some (after g e, o) else None
  | OnOther e =>
      let go := with_view g o in
      if inv_b go then let g' := after go e in Some (with_view g' (view_of g), view_of g') else None
  | Sum _ => None
  | Emb false na nb fits =>
      (* (relinking add_rocktype: the discarded sum has given operand blocks other rock type objects; not modelled: the case ends) *)
      if negb add_rocktype_relinks && inv_b g && inv_b (with_view g o) then
        match bget g na, aget str_eqb (v_bdict o) nb with
        | Some i0, Some i1 => Some (after g (Embed o i0 i1 fits), o)
        | _, _ => Some (g, o)                                 (* KeyError in the caller's expression *)
        end
      else None
  | Emb true na nb fits =>
      (* (relinking add_rocktype: the discarded sum has given operand blocks other rock type objects; not modelled: the case ends) *)
      if negb add_rocktype_relinks && inv_b g && inv_b (with_view g o) then
        let g1 := new_block (new_block g na 1%positive) nb 1%positive in
        Some (after g1 (Embed o (next g) (Pos.succ (next g)) fits), o)
      else None
  end.

Definition obs_of (dual hash : bool) (g : grid) (o : view) : str :=
  let d := if dual then observe g ++ s2l "#" ++ observe (with_view g o) else observe g in
  if hash then show_adler d else if inv_b g then d else d ++ s2l "!".

Fixpoint exec (dual hash : bool) (g : grid) (o : view) (cs : list cmd) (skip : nat) : list str :=
  match cs with
  | [] => []
  | c :: r =>
      match exec_cmd g o c with
      | Raise e =>
          match after_cmd g o c with
          | None => [s2l "E:" ++ show_exn e]
          | Some (g1, o1) =>
              match skip with
              | S k => exec dual hash g1 o1 r k
              | O => (s2l "E:" ++ show_exn e ++ s2l "@" ++ obs_of dual hash g1 o1) :: exec dual hash g1 o1 r O
              end
          end
      | Ok (g1, o1) =>
          match skip with
          | S k => exec dual hash g1 o1 r k
          | O => obs_of dual hash g1 o1 :: exec dual hash g1 o1 r O
          end
      end
  end.

Definition run_case (line : str) : str :=
  match splitc tab_c line with
  | (m :: kdigits) :: fs =>
      match parse_cmds fs with
      | Some cs =>
          let k := nat_of_str kdigits in
          if ceqb m "F" then joinw (s2l "|") (exec false false empty view0 cs k)
          else if ceqb m "H" then joinw (s2l "|") (exec false true empty view0 cs k)
          else if ceqb m "D" then joinw (s2l "|") (exec true false empty view0 cs k)
          else if ceqb m "E" then joinw (s2l "|") (exec true true empty view0 cs k)
          else s2l "BADCASE"
      | None => s2l "BADCASE"
      end
  | _ => s2l "BADCASE"
  end.

Require Extraction.
Require Import ExtrOcamlBasic ExtrOcamlString.
Extraction "Drv.ml" run_case.
