(** C08 -- a REFUSED edit leaves a consistent grid: [after g o] (the state in which [step g o] raises) is consistent
    whenever [g] is.  Most methods refuse before their first assignment ([after g o = g]); the three loops that
    can stop half way (demote_block over several names, the connection loop of reorder, minc) stop between two
    self-contained steps.  delete_connection and delete_block never raise on a consistent grid (since repair 3ad8118
    the connection's name is removed once per DISTINCT end; before it, a connection of a block with itself made them
    raise KeyError half way and leave the records wrong). *)
From Coq Require Import Ascii String List Bool PArith NArith FMapPositive Permutation Lia.
From PTBase Require Import Exn PyStr.
From P Require Import Assoc GridEdit GridLemmas Inv InvRock InvBlock InvConn InvReorder InvMinc.
Import ListNotations.
Open Scope list_scope.

Lemma demote_partial_inv ns : forall g, Inv g -> Inv (demote_partial g ns).
Proof.
  induction ns as [|n r IH]; cbn [demote_partial]; intros g I; [exact I|].
  destruct (bget g n) as [i|]; [|exact I]. destruct (mem i (blist g)) eqn:M; [|exact I].
  apply mem_In in M. apply IH. apply inv_perm_blist; [exact I|]. apply Permutation_lremove_snoc. exact M.
Qed.

Lemma reorder_conns_partial_inv ks : forall g, Inv g -> Inv (reorder_conns_partial g ks).
Proof.
  induction ks as [|k r IH]; cbn [reorder_conns_partial]; intros g I; [exact I|].
  destruct (cget g k) as [j|] eqn:Ek; [apply IH; exact I|].
  destruct (cget g (snd k, fst k)) as [j|] eqn:Eo; [|exact I].
  destruct (reverse_connection g j (snd k, fst k) k) as [g1|] eqn:R; [|exact I].
  apply IH. destruct k as [k0 k1].
  exact (proj1 (reverse_connection_inv g j (k1, k0) (k0, k1) g1 I Eo Ek eq_refl R)).
Qed.

(** the block list of the call is a true reordering (the statement's own restriction on reorder) *)
Definition reorder_blocks_ok (g : grid) (bns : list str) : Prop :=
  forall l, bns <> [] -> lookup_blocks g bns = Ok l -> Permutation (blist g) l.

Lemma reorder_partial_inv g bns cns : Inv g -> reorder_blocks_ok g bns -> Inv (reorder_partial g bns cns).
Proof.
  intros I P. unfold reorder_partial. destruct bns as [|n bns].
  - destruct cns; [exact I|apply reorder_conns_partial_inv; exact I].
  - destruct (lookup_blocks g (n :: bns)) as [l|] eqn:El; cbn [bind]; [|exact I].
    assert (I1 : Inv (set_blist g l)) by (apply inv_perm_blist; [exact I|apply P; [discriminate|exact El]]).
    destruct cns; [exact I1|apply reorder_conns_partial_inv; exact I1].
Qed.

Section MincPartialInv.
  Variable mb : str -> nat -> str.
  Variable mr : str -> nat -> str.

  Lemma minc_level_partial_inv orock g m : Inv g -> Inv (minc_level_partial mr orock g m) /\ blist (minc_level_partial mr orock g m) = blist g.
  Proof.
    intro I. unfold minc_level_partial. destruct (duplicate_rock g (mr (rn g orock) m)) as [g1|] eqn:D; [|auto].
    exact (duplicate_rock_inv _ _ _ I D).
  Qed.

  Lemma minc_levels_partial_inv blkname orock n : forall g last m, Inv g -> In last (blist g) ->
    Inv (minc_levels_partial mb mr blkname orock g last m n).
  Proof.
    induction n as [|n IH]; cbn [minc_levels_partial]; intros g last m I L; [exact I|].
    destruct (minc_level mb mr blkname orock g last (S m)) as [[g1 i]|] eqn:E; cbn [fst snd].
    - destruct (minc_level_inv mb mr _ _ _ _ _ _ _ I L E) as [I1 [Hi _]]. apply IH; assumption.
    - apply minc_level_partial_inv. exact I.
  Qed.

  Lemma minc_block_partial_inv levels inel names0 g blkname : Inv g -> Inv (minc_block_partial mb mr levels inel names0 g blkname).
  Proof.
    intro I. unfold minc_block_partial. destruct (bget g blkname) as [blk|] eqn:E; [|exact I].
    destruct (smem blkname inel); [exact I|]. destruct (negb (smem blkname names0)); [exact I|].
    apply minc_levels_partial_inv; [exact I|]. exact (proj1 (inv_bget g _ _ I E)).
  Qed.

  Lemma minc_blocks_partial_inv levels inel names0 blocks : forall g, Inv g -> Inv (minc_blocks_partial mb mr levels inel names0 g blocks).
  Proof.
    induction blocks as [|n r IH]; cbn [minc_blocks_partial]; intros g I; [exact I|].
    destruct (minc_block mb mr levels inel names0 g n) as [g1|] eqn:E.
    - apply IH. eapply minc_block_inv; eauto.
    - apply minc_block_partial_inv. exact I.
  Qed.

  Lemma minc_partial_inv levels sel inel g : Inv g -> Inv (minc_partial mb mr levels sel inel g).
  Proof. intro I. unfold minc_partial. destruct levels; [exact I|]. apply minc_blocks_partial_inv. exact I. Qed.
End MincPartialInv.

(** ** delete_connection and delete_block never raise on a consistent grid *)
Lemma delete_connection_total g k : Inv g -> exists g', delete_connection g k = Ok g'.
Proof.
  intros I. unfold delete_connection. destruct (cget g k) as [j|] eqn:E; [|eauto].
  destruct (inv_cget g k j I E) as [Hj Hk]. destruct (i_ends g I j Hj) as [B0 B1].
  assert (K0 : In k (cn g (c0 g j))) by (apply (i_back g I _ B0); exists j; auto).
  assert (K1 : In k (cn g (c1 g j))) by (apply (i_back g I _ B1); exists j; auto).
  unfold cn_remove at 1. rewrite (proj2 (set_mem_In k _) K0). cbn [bind].
  destruct (Pos.eqb_spec (c1 g j) (c0 g j)) as [Eq|Ne]; cbn [bind].
  - gs. rewrite (proj2 (mem_In j _) Hj). eauto.
  - unfold cn_remove. gs. rewrite fget_fset_neq by exact Ne.
    fold (cn g (c1 g j)). rewrite (proj2 (set_mem_In k _) K1). cbn [bind]. gs.
    rewrite (proj2 (mem_In j _) Hj). eauto.
Qed.

Lemma delete_connections_total ks : forall g, Inv g -> exists g', delete_connections g ks = Ok g'.
Proof.
  induction ks as [|k r IH]; cbn [delete_connections]; intros g I; [eauto|].
  destruct (delete_connection_total g k I) as [g1 E].
  rewrite E. cbn [bind]. apply IH. exact (proj1 (delete_connection_spec g k g1 I E)).
Qed.
Lemma delete_block_total g n : Inv g -> exists g', delete_block g n = Ok g'.
Proof.
  intro I. unfold delete_block. destruct (bget g n) as [i|]; [|eauto].
  destruct (delete_connections_total (cn g i) g I) as [g1 E]. rewrite E. cbn [bind]. eauto.
Qed.

(** what the statement asks of the arguments of a call that is going to be refused: a reorder names every block once *)
Definition pre_after (g : grid) (o : op) : Prop :=
  match o with Reorder bns _ => reorder_blocks_ok g bns | _ => True end.

Theorem after_inv g o e : Inv g -> pre_after g o -> step g o = Raise e -> Inv (after g o).
Proof.
  intros I P H. destruct o; cbn [after pre_after step] in *; try exact I.
  - apply demote_partial_inv. exact I.
  - apply reorder_partial_inv; assumption.
  - apply minc_partial_inv. exact I.
  - apply inv_new_conn. exact I.
Qed.
