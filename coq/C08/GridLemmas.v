(** C08 -- rewriting lemmas: attribute reads and container projections after a field update.
    (Mechanical: one lemma per accessor/setter pair, all by [reflexivity]; generated once by a
    script and kept as a source file.)  Tactic [gs] normalises a goal with them. *)
From Coq Require Import Ascii String List Bool PArith NArith FMapPositive Lia.
From PTBase Require Import Exn PyStr.
From P Require Import Assoc GridEdit.
Import ListNotations.
Open Scope list_scope.

Lemma rn_set_rname g v : rn (set_rname g v) = fget [] v. Proof. reflexivity. Qed.
Lemma rn_set_bname g v : rn (set_bname g v) = rn g. Proof. reflexivity. Qed.
Lemma rn_set_brock g v : rn (set_brock g v) = rn g. Proof. reflexivity. Qed.
Lemma rn_set_bcn g v : rn (set_bcn g v) = rn g. Proof. reflexivity. Qed.
Lemma rn_set_cb0 g v : rn (set_cb0 g v) = rn g. Proof. reflexivity. Qed.
Lemma rn_set_cb1 g v : rn (set_cb1 g v) = rn g. Proof. reflexivity. Qed.
Lemma rn_set_rlist g v : rn (set_rlist g v) = rn g. Proof. reflexivity. Qed.
Lemma rn_set_rdict g v : rn (set_rdict g v) = rn g. Proof. reflexivity. Qed.
Lemma rn_set_blist g v : rn (set_blist g v) = rn g. Proof. reflexivity. Qed.
Lemma rn_set_bdict g v : rn (set_bdict g v) = rn g. Proof. reflexivity. Qed.
Lemma rn_set_clist g v : rn (set_clist g v) = rn g. Proof. reflexivity. Qed.
Lemma rn_set_cdict g v : rn (set_cdict g v) = rn g. Proof. reflexivity. Qed.
Lemma rn_set_next g v : rn (set_next g v) = rn g. Proof. reflexivity. Qed.
Lemma bn_set_rname g v : bn (set_rname g v) = bn g. Proof. reflexivity. Qed.
Lemma bn_set_bname g v : bn (set_bname g v) = fget [] v. Proof. reflexivity. Qed.
Lemma bn_set_brock g v : bn (set_brock g v) = bn g. Proof. reflexivity. Qed.
Lemma bn_set_bcn g v : bn (set_bcn g v) = bn g. Proof. reflexivity. Qed.
Lemma bn_set_cb0 g v : bn (set_cb0 g v) = bn g. Proof. reflexivity. Qed.
Lemma bn_set_cb1 g v : bn (set_cb1 g v) = bn g. Proof. reflexivity. Qed.
Lemma bn_set_rlist g v : bn (set_rlist g v) = bn g. Proof. reflexivity. Qed.
Lemma bn_set_rdict g v : bn (set_rdict g v) = bn g. Proof. reflexivity. Qed.
Lemma bn_set_blist g v : bn (set_blist g v) = bn g. Proof. reflexivity. Qed.
Lemma bn_set_bdict g v : bn (set_bdict g v) = bn g. Proof. reflexivity. Qed.
Lemma bn_set_clist g v : bn (set_clist g v) = bn g. Proof. reflexivity. Qed.
Lemma bn_set_cdict g v : bn (set_cdict g v) = bn g. Proof. reflexivity. Qed.
Lemma bn_set_next g v : bn (set_next g v) = bn g. Proof. reflexivity. Qed.
Lemma br_set_rname g v : br (set_rname g v) = br g. Proof. reflexivity. Qed.
Lemma br_set_bname g v : br (set_bname g v) = br g. Proof. reflexivity. Qed.
Lemma br_set_brock g v : br (set_brock g v) = fget 1%positive v. Proof. reflexivity. Qed.
Lemma br_set_bcn g v : br (set_bcn g v) = br g. Proof. reflexivity. Qed.
Lemma br_set_cb0 g v : br (set_cb0 g v) = br g. Proof. reflexivity. Qed.
Lemma br_set_cb1 g v : br (set_cb1 g v) = br g. Proof. reflexivity. Qed.
Lemma br_set_rlist g v : br (set_rlist g v) = br g. Proof. reflexivity. Qed.
Lemma br_set_rdict g v : br (set_rdict g v) = br g. Proof. reflexivity. Qed.
Lemma br_set_blist g v : br (set_blist g v) = br g. Proof. reflexivity. Qed.
Lemma br_set_bdict g v : br (set_bdict g v) = br g. Proof. reflexivity. Qed.
Lemma br_set_clist g v : br (set_clist g v) = br g. Proof. reflexivity. Qed.
Lemma br_set_cdict g v : br (set_cdict g v) = br g. Proof. reflexivity. Qed.
Lemma br_set_next g v : br (set_next g v) = br g. Proof. reflexivity. Qed.
Lemma cn_set_rname g v : cn (set_rname g v) = cn g. Proof. reflexivity. Qed.
Lemma cn_set_bname g v : cn (set_bname g v) = cn g. Proof. reflexivity. Qed.
Lemma cn_set_brock g v : cn (set_brock g v) = cn g. Proof. reflexivity. Qed.
Lemma cn_set_bcn g v : cn (set_bcn g v) = fget [] v. Proof. reflexivity. Qed.
Lemma cn_set_cb0 g v : cn (set_cb0 g v) = cn g. Proof. reflexivity. Qed.
Lemma cn_set_cb1 g v : cn (set_cb1 g v) = cn g. Proof. reflexivity. Qed.
Lemma cn_set_rlist g v : cn (set_rlist g v) = cn g. Proof. reflexivity. Qed.
Lemma cn_set_rdict g v : cn (set_rdict g v) = cn g. Proof. reflexivity. Qed.
Lemma cn_set_blist g v : cn (set_blist g v) = cn g. Proof. reflexivity. Qed.
Lemma cn_set_bdict g v : cn (set_bdict g v) = cn g. Proof. reflexivity. Qed.
Lemma cn_set_clist g v : cn (set_clist g v) = cn g. Proof. reflexivity. Qed.
Lemma cn_set_cdict g v : cn (set_cdict g v) = cn g. Proof. reflexivity. Qed.
Lemma cn_set_next g v : cn (set_next g v) = cn g. Proof. reflexivity. Qed.
Lemma c0_set_rname g v : c0 (set_rname g v) = c0 g. Proof. reflexivity. Qed.
Lemma c0_set_bname g v : c0 (set_bname g v) = c0 g. Proof. reflexivity. Qed.
Lemma c0_set_brock g v : c0 (set_brock g v) = c0 g. Proof. reflexivity. Qed.
Lemma c0_set_bcn g v : c0 (set_bcn g v) = c0 g. Proof. reflexivity. Qed.
Lemma c0_set_cb0 g v : c0 (set_cb0 g v) = fget 1%positive v. Proof. reflexivity. Qed.
Lemma c0_set_cb1 g v : c0 (set_cb1 g v) = c0 g. Proof. reflexivity. Qed.
Lemma c0_set_rlist g v : c0 (set_rlist g v) = c0 g. Proof. reflexivity. Qed.
Lemma c0_set_rdict g v : c0 (set_rdict g v) = c0 g. Proof. reflexivity. Qed.
Lemma c0_set_blist g v : c0 (set_blist g v) = c0 g. Proof. reflexivity. Qed.
Lemma c0_set_bdict g v : c0 (set_bdict g v) = c0 g. Proof. reflexivity. Qed.
Lemma c0_set_clist g v : c0 (set_clist g v) = c0 g. Proof. reflexivity. Qed.
Lemma c0_set_cdict g v : c0 (set_cdict g v) = c0 g. Proof. reflexivity. Qed.
Lemma c0_set_next g v : c0 (set_next g v) = c0 g. Proof. reflexivity. Qed.
Lemma c1_set_rname g v : c1 (set_rname g v) = c1 g. Proof. reflexivity. Qed.
Lemma c1_set_bname g v : c1 (set_bname g v) = c1 g. Proof. reflexivity. Qed.
Lemma c1_set_brock g v : c1 (set_brock g v) = c1 g. Proof. reflexivity. Qed.
Lemma c1_set_bcn g v : c1 (set_bcn g v) = c1 g. Proof. reflexivity. Qed.
Lemma c1_set_cb0 g v : c1 (set_cb0 g v) = c1 g. Proof. reflexivity. Qed.
Lemma c1_set_cb1 g v : c1 (set_cb1 g v) = fget 1%positive v. Proof. reflexivity. Qed.
Lemma c1_set_rlist g v : c1 (set_rlist g v) = c1 g. Proof. reflexivity. Qed.
Lemma c1_set_rdict g v : c1 (set_rdict g v) = c1 g. Proof. reflexivity. Qed.
Lemma c1_set_blist g v : c1 (set_blist g v) = c1 g. Proof. reflexivity. Qed.
Lemma c1_set_bdict g v : c1 (set_bdict g v) = c1 g. Proof. reflexivity. Qed.
Lemma c1_set_clist g v : c1 (set_clist g v) = c1 g. Proof. reflexivity. Qed.
Lemma c1_set_cdict g v : c1 (set_cdict g v) = c1 g. Proof. reflexivity. Qed.
Lemma c1_set_next g v : c1 (set_next g v) = c1 g. Proof. reflexivity. Qed.
Lemma ckey_set_rname g v : ckey (set_rname g v) = ckey g. Proof. reflexivity. Qed.
Lemma ckey_set_brock g v : ckey (set_brock g v) = ckey g. Proof. reflexivity. Qed.
Lemma ckey_set_bcn g v : ckey (set_bcn g v) = ckey g. Proof. reflexivity. Qed.
Lemma ckey_set_rlist g v : ckey (set_rlist g v) = ckey g. Proof. reflexivity. Qed.
Lemma ckey_set_rdict g v : ckey (set_rdict g v) = ckey g. Proof. reflexivity. Qed.
Lemma ckey_set_blist g v : ckey (set_blist g v) = ckey g. Proof. reflexivity. Qed.
Lemma ckey_set_bdict g v : ckey (set_bdict g v) = ckey g. Proof. reflexivity. Qed.
Lemma ckey_set_clist g v : ckey (set_clist g v) = ckey g. Proof. reflexivity. Qed.
Lemma ckey_set_cdict g v : ckey (set_cdict g v) = ckey g. Proof. reflexivity. Qed.
Lemma ckey_set_next g v : ckey (set_next g v) = ckey g. Proof. reflexivity. Qed.
Lemma ckey_set_bname g v j : ckey (set_bname g v) j = (fget [] v (c0 g j), fget [] v (c1 g j)). Proof. reflexivity. Qed.
Lemma ckey_set_cb0 g v j : ckey (set_cb0 g v) j = (bn g (fget 1%positive v j), bn g (c1 g j)). Proof. reflexivity. Qed.
Lemma ckey_set_cb1 g v j : ckey (set_cb1 g v) j = (bn g (c0 g j), bn g (fget 1%positive v j)). Proof. reflexivity. Qed.
Lemma rname_set_rname g v : rname (set_rname g v) = v. Proof. reflexivity. Qed.
Lemma rname_set_bname g v : rname (set_bname g v) = rname g. Proof. reflexivity. Qed.
Lemma rname_set_brock g v : rname (set_brock g v) = rname g. Proof. reflexivity. Qed.
Lemma rname_set_bcn g v : rname (set_bcn g v) = rname g. Proof. reflexivity. Qed.
Lemma rname_set_cb0 g v : rname (set_cb0 g v) = rname g. Proof. reflexivity. Qed.
Lemma rname_set_cb1 g v : rname (set_cb1 g v) = rname g. Proof. reflexivity. Qed.
Lemma rname_set_rlist g v : rname (set_rlist g v) = rname g. Proof. reflexivity. Qed.
Lemma rname_set_rdict g v : rname (set_rdict g v) = rname g. Proof. reflexivity. Qed.
Lemma rname_set_blist g v : rname (set_blist g v) = rname g. Proof. reflexivity. Qed.
Lemma rname_set_bdict g v : rname (set_bdict g v) = rname g. Proof. reflexivity. Qed.
Lemma rname_set_clist g v : rname (set_clist g v) = rname g. Proof. reflexivity. Qed.
Lemma rname_set_cdict g v : rname (set_cdict g v) = rname g. Proof. reflexivity. Qed.
Lemma rname_set_next g v : rname (set_next g v) = rname g. Proof. reflexivity. Qed.
Lemma bname_set_rname g v : bname (set_rname g v) = bname g. Proof. reflexivity. Qed.
Lemma bname_set_bname g v : bname (set_bname g v) = v. Proof. reflexivity. Qed.
Lemma bname_set_brock g v : bname (set_brock g v) = bname g. Proof. reflexivity. Qed.
Lemma bname_set_bcn g v : bname (set_bcn g v) = bname g. Proof. reflexivity. Qed.
Lemma bname_set_cb0 g v : bname (set_cb0 g v) = bname g. Proof. reflexivity. Qed.
Lemma bname_set_cb1 g v : bname (set_cb1 g v) = bname g. Proof. reflexivity. Qed.
Lemma bname_set_rlist g v : bname (set_rlist g v) = bname g. Proof. reflexivity. Qed.
Lemma bname_set_rdict g v : bname (set_rdict g v) = bname g. Proof. reflexivity. Qed.
Lemma bname_set_blist g v : bname (set_blist g v) = bname g. Proof. reflexivity. Qed.
Lemma bname_set_bdict g v : bname (set_bdict g v) = bname g. Proof. reflexivity. Qed.
Lemma bname_set_clist g v : bname (set_clist g v) = bname g. Proof. reflexivity. Qed.
Lemma bname_set_cdict g v : bname (set_cdict g v) = bname g. Proof. reflexivity. Qed.
Lemma bname_set_next g v : bname (set_next g v) = bname g. Proof. reflexivity. Qed.
Lemma brock_set_rname g v : brock (set_rname g v) = brock g. Proof. reflexivity. Qed.
Lemma brock_set_bname g v : brock (set_bname g v) = brock g. Proof. reflexivity. Qed.
Lemma brock_set_brock g v : brock (set_brock g v) = v. Proof. reflexivity. Qed.
Lemma brock_set_bcn g v : brock (set_bcn g v) = brock g. Proof. reflexivity. Qed.
Lemma brock_set_cb0 g v : brock (set_cb0 g v) = brock g. Proof. reflexivity. Qed.
Lemma brock_set_cb1 g v : brock (set_cb1 g v) = brock g. Proof. reflexivity. Qed.
Lemma brock_set_rlist g v : brock (set_rlist g v) = brock g. Proof. reflexivity. Qed.
Lemma brock_set_rdict g v : brock (set_rdict g v) = brock g. Proof. reflexivity. Qed.
Lemma brock_set_blist g v : brock (set_blist g v) = brock g. Proof. reflexivity. Qed.
Lemma brock_set_bdict g v : brock (set_bdict g v) = brock g. Proof. reflexivity. Qed.
Lemma brock_set_clist g v : brock (set_clist g v) = brock g. Proof. reflexivity. Qed.
Lemma brock_set_cdict g v : brock (set_cdict g v) = brock g. Proof. reflexivity. Qed.
Lemma brock_set_next g v : brock (set_next g v) = brock g. Proof. reflexivity. Qed.
Lemma bcn_set_rname g v : bcn (set_rname g v) = bcn g. Proof. reflexivity. Qed.
Lemma bcn_set_bname g v : bcn (set_bname g v) = bcn g. Proof. reflexivity. Qed.
Lemma bcn_set_brock g v : bcn (set_brock g v) = bcn g. Proof. reflexivity. Qed.
Lemma bcn_set_bcn g v : bcn (set_bcn g v) = v. Proof. reflexivity. Qed.
Lemma bcn_set_cb0 g v : bcn (set_cb0 g v) = bcn g. Proof. reflexivity. Qed.
Lemma bcn_set_cb1 g v : bcn (set_cb1 g v) = bcn g. Proof. reflexivity. Qed.
Lemma bcn_set_rlist g v : bcn (set_rlist g v) = bcn g. Proof. reflexivity. Qed.
Lemma bcn_set_rdict g v : bcn (set_rdict g v) = bcn g. Proof. reflexivity. Qed.
Lemma bcn_set_blist g v : bcn (set_blist g v) = bcn g. Proof. reflexivity. Qed.
Lemma bcn_set_bdict g v : bcn (set_bdict g v) = bcn g. Proof. reflexivity. Qed.
Lemma bcn_set_clist g v : bcn (set_clist g v) = bcn g. Proof. reflexivity. Qed.
Lemma bcn_set_cdict g v : bcn (set_cdict g v) = bcn g. Proof. reflexivity. Qed.
Lemma bcn_set_next g v : bcn (set_next g v) = bcn g. Proof. reflexivity. Qed.
Lemma cb0_set_rname g v : cb0 (set_rname g v) = cb0 g. Proof. reflexivity. Qed.
Lemma cb0_set_bname g v : cb0 (set_bname g v) = cb0 g. Proof. reflexivity. Qed.
Lemma cb0_set_brock g v : cb0 (set_brock g v) = cb0 g. Proof. reflexivity. Qed.
Lemma cb0_set_bcn g v : cb0 (set_bcn g v) = cb0 g. Proof. reflexivity. Qed.
Lemma cb0_set_cb0 g v : cb0 (set_cb0 g v) = v. Proof. reflexivity. Qed.
Lemma cb0_set_cb1 g v : cb0 (set_cb1 g v) = cb0 g. Proof. reflexivity. Qed.
Lemma cb0_set_rlist g v : cb0 (set_rlist g v) = cb0 g. Proof. reflexivity. Qed.
Lemma cb0_set_rdict g v : cb0 (set_rdict g v) = cb0 g. Proof. reflexivity. Qed.
Lemma cb0_set_blist g v : cb0 (set_blist g v) = cb0 g. Proof. reflexivity. Qed.
Lemma cb0_set_bdict g v : cb0 (set_bdict g v) = cb0 g. Proof. reflexivity. Qed.
Lemma cb0_set_clist g v : cb0 (set_clist g v) = cb0 g. Proof. reflexivity. Qed.
Lemma cb0_set_cdict g v : cb0 (set_cdict g v) = cb0 g. Proof. reflexivity. Qed.
Lemma cb0_set_next g v : cb0 (set_next g v) = cb0 g. Proof. reflexivity. Qed.
Lemma cb1_set_rname g v : cb1 (set_rname g v) = cb1 g. Proof. reflexivity. Qed.
Lemma cb1_set_bname g v : cb1 (set_bname g v) = cb1 g. Proof. reflexivity. Qed.
Lemma cb1_set_brock g v : cb1 (set_brock g v) = cb1 g. Proof. reflexivity. Qed.
Lemma cb1_set_bcn g v : cb1 (set_bcn g v) = cb1 g. Proof. reflexivity. Qed.
Lemma cb1_set_cb0 g v : cb1 (set_cb0 g v) = cb1 g. Proof. reflexivity. Qed.
Lemma cb1_set_cb1 g v : cb1 (set_cb1 g v) = v. Proof. reflexivity. Qed.
Lemma cb1_set_rlist g v : cb1 (set_rlist g v) = cb1 g. Proof. reflexivity. Qed.
Lemma cb1_set_rdict g v : cb1 (set_rdict g v) = cb1 g. Proof. reflexivity. Qed.
Lemma cb1_set_blist g v : cb1 (set_blist g v) = cb1 g. Proof. reflexivity. Qed.
Lemma cb1_set_bdict g v : cb1 (set_bdict g v) = cb1 g. Proof. reflexivity. Qed.
Lemma cb1_set_clist g v : cb1 (set_clist g v) = cb1 g. Proof. reflexivity. Qed.
Lemma cb1_set_cdict g v : cb1 (set_cdict g v) = cb1 g. Proof. reflexivity. Qed.
Lemma cb1_set_next g v : cb1 (set_next g v) = cb1 g. Proof. reflexivity. Qed.
Lemma rlist_set_rname g v : rlist (set_rname g v) = rlist g. Proof. reflexivity. Qed.
Lemma rlist_set_bname g v : rlist (set_bname g v) = rlist g. Proof. reflexivity. Qed.
Lemma rlist_set_brock g v : rlist (set_brock g v) = rlist g. Proof. reflexivity. Qed.
Lemma rlist_set_bcn g v : rlist (set_bcn g v) = rlist g. Proof. reflexivity. Qed.
Lemma rlist_set_cb0 g v : rlist (set_cb0 g v) = rlist g. Proof. reflexivity. Qed.
Lemma rlist_set_cb1 g v : rlist (set_cb1 g v) = rlist g. Proof. reflexivity. Qed.
Lemma rlist_set_rlist g v : rlist (set_rlist g v) = v. Proof. reflexivity. Qed.
Lemma rlist_set_rdict g v : rlist (set_rdict g v) = rlist g. Proof. reflexivity. Qed.
Lemma rlist_set_blist g v : rlist (set_blist g v) = rlist g. Proof. reflexivity. Qed.
Lemma rlist_set_bdict g v : rlist (set_bdict g v) = rlist g. Proof. reflexivity. Qed.
Lemma rlist_set_clist g v : rlist (set_clist g v) = rlist g. Proof. reflexivity. Qed.
Lemma rlist_set_cdict g v : rlist (set_cdict g v) = rlist g. Proof. reflexivity. Qed.
Lemma rlist_set_next g v : rlist (set_next g v) = rlist g. Proof. reflexivity. Qed.
Lemma rdict_set_rname g v : rdict (set_rname g v) = rdict g. Proof. reflexivity. Qed.
Lemma rdict_set_bname g v : rdict (set_bname g v) = rdict g. Proof. reflexivity. Qed.
Lemma rdict_set_brock g v : rdict (set_brock g v) = rdict g. Proof. reflexivity. Qed.
Lemma rdict_set_bcn g v : rdict (set_bcn g v) = rdict g. Proof. reflexivity. Qed.
Lemma rdict_set_cb0 g v : rdict (set_cb0 g v) = rdict g. Proof. reflexivity. Qed.
Lemma rdict_set_cb1 g v : rdict (set_cb1 g v) = rdict g. Proof. reflexivity. Qed.
Lemma rdict_set_rlist g v : rdict (set_rlist g v) = rdict g. Proof. reflexivity. Qed.
Lemma rdict_set_rdict g v : rdict (set_rdict g v) = v. Proof. reflexivity. Qed.
Lemma rdict_set_blist g v : rdict (set_blist g v) = rdict g. Proof. reflexivity. Qed.
Lemma rdict_set_bdict g v : rdict (set_bdict g v) = rdict g. Proof. reflexivity. Qed.
Lemma rdict_set_clist g v : rdict (set_clist g v) = rdict g. Proof. reflexivity. Qed.
Lemma rdict_set_cdict g v : rdict (set_cdict g v) = rdict g. Proof. reflexivity. Qed.
Lemma rdict_set_next g v : rdict (set_next g v) = rdict g. Proof. reflexivity. Qed.
Lemma blist_set_rname g v : blist (set_rname g v) = blist g. Proof. reflexivity. Qed.
Lemma blist_set_bname g v : blist (set_bname g v) = blist g. Proof. reflexivity. Qed.
Lemma blist_set_brock g v : blist (set_brock g v) = blist g. Proof. reflexivity. Qed.
Lemma blist_set_bcn g v : blist (set_bcn g v) = blist g. Proof. reflexivity. Qed.
Lemma blist_set_cb0 g v : blist (set_cb0 g v) = blist g. Proof. reflexivity. Qed.
Lemma blist_set_cb1 g v : blist (set_cb1 g v) = blist g. Proof. reflexivity. Qed.
Lemma blist_set_rlist g v : blist (set_rlist g v) = blist g. Proof. reflexivity. Qed.
Lemma blist_set_rdict g v : blist (set_rdict g v) = blist g. Proof. reflexivity. Qed.
Lemma blist_set_blist g v : blist (set_blist g v) = v. Proof. reflexivity. Qed.
Lemma blist_set_bdict g v : blist (set_bdict g v) = blist g. Proof. reflexivity. Qed.
Lemma blist_set_clist g v : blist (set_clist g v) = blist g. Proof. reflexivity. Qed.
Lemma blist_set_cdict g v : blist (set_cdict g v) = blist g. Proof. reflexivity. Qed.
Lemma blist_set_next g v : blist (set_next g v) = blist g. Proof. reflexivity. Qed.
Lemma bdict_set_rname g v : bdict (set_rname g v) = bdict g. Proof. reflexivity. Qed.
Lemma bdict_set_bname g v : bdict (set_bname g v) = bdict g. Proof. reflexivity. Qed.
Lemma bdict_set_brock g v : bdict (set_brock g v) = bdict g. Proof. reflexivity. Qed.
Lemma bdict_set_bcn g v : bdict (set_bcn g v) = bdict g. Proof. reflexivity. Qed.
Lemma bdict_set_cb0 g v : bdict (set_cb0 g v) = bdict g. Proof. reflexivity. Qed.
Lemma bdict_set_cb1 g v : bdict (set_cb1 g v) = bdict g. Proof. reflexivity. Qed.
Lemma bdict_set_rlist g v : bdict (set_rlist g v) = bdict g. Proof. reflexivity. Qed.
Lemma bdict_set_rdict g v : bdict (set_rdict g v) = bdict g. Proof. reflexivity. Qed.
Lemma bdict_set_blist g v : bdict (set_blist g v) = bdict g. Proof. reflexivity. Qed.
Lemma bdict_set_bdict g v : bdict (set_bdict g v) = v. Proof. reflexivity. Qed.
Lemma bdict_set_clist g v : bdict (set_clist g v) = bdict g. Proof. reflexivity. Qed.
Lemma bdict_set_cdict g v : bdict (set_cdict g v) = bdict g. Proof. reflexivity. Qed.
Lemma bdict_set_next g v : bdict (set_next g v) = bdict g. Proof. reflexivity. Qed.
Lemma clist_set_rname g v : clist (set_rname g v) = clist g. Proof. reflexivity. Qed.
Lemma clist_set_bname g v : clist (set_bname g v) = clist g. Proof. reflexivity. Qed.
Lemma clist_set_brock g v : clist (set_brock g v) = clist g. Proof. reflexivity. Qed.
Lemma clist_set_bcn g v : clist (set_bcn g v) = clist g. Proof. reflexivity. Qed.
Lemma clist_set_cb0 g v : clist (set_cb0 g v) = clist g. Proof. reflexivity. Qed.
Lemma clist_set_cb1 g v : clist (set_cb1 g v) = clist g. Proof. reflexivity. Qed.
Lemma clist_set_rlist g v : clist (set_rlist g v) = clist g. Proof. reflexivity. Qed.
Lemma clist_set_rdict g v : clist (set_rdict g v) = clist g. Proof. reflexivity. Qed.
Lemma clist_set_blist g v : clist (set_blist g v) = clist g. Proof. reflexivity. Qed.
Lemma clist_set_bdict g v : clist (set_bdict g v) = clist g. Proof. reflexivity. Qed.
Lemma clist_set_clist g v : clist (set_clist g v) = v. Proof. reflexivity. Qed.
Lemma clist_set_cdict g v : clist (set_cdict g v) = clist g. Proof. reflexivity. Qed.
Lemma clist_set_next g v : clist (set_next g v) = clist g. Proof. reflexivity. Qed.
Lemma cdict_set_rname g v : cdict (set_rname g v) = cdict g. Proof. reflexivity. Qed.
Lemma cdict_set_bname g v : cdict (set_bname g v) = cdict g. Proof. reflexivity. Qed.
Lemma cdict_set_brock g v : cdict (set_brock g v) = cdict g. Proof. reflexivity. Qed.
Lemma cdict_set_bcn g v : cdict (set_bcn g v) = cdict g. Proof. reflexivity. Qed.
Lemma cdict_set_cb0 g v : cdict (set_cb0 g v) = cdict g. Proof. reflexivity. Qed.
Lemma cdict_set_cb1 g v : cdict (set_cb1 g v) = cdict g. Proof. reflexivity. Qed.
Lemma cdict_set_rlist g v : cdict (set_rlist g v) = cdict g. Proof. reflexivity. Qed.
Lemma cdict_set_rdict g v : cdict (set_rdict g v) = cdict g. Proof. reflexivity. Qed.
Lemma cdict_set_blist g v : cdict (set_blist g v) = cdict g. Proof. reflexivity. Qed.
Lemma cdict_set_bdict g v : cdict (set_bdict g v) = cdict g. Proof. reflexivity. Qed.
Lemma cdict_set_clist g v : cdict (set_clist g v) = cdict g. Proof. reflexivity. Qed.
Lemma cdict_set_cdict g v : cdict (set_cdict g v) = v. Proof. reflexivity. Qed.
Lemma cdict_set_next g v : cdict (set_next g v) = cdict g. Proof. reflexivity. Qed.
Lemma next_set_rname g v : next (set_rname g v) = next g. Proof. reflexivity. Qed.
Lemma next_set_bname g v : next (set_bname g v) = next g. Proof. reflexivity. Qed.
Lemma next_set_brock g v : next (set_brock g v) = next g. Proof. reflexivity. Qed.
Lemma next_set_bcn g v : next (set_bcn g v) = next g. Proof. reflexivity. Qed.
Lemma next_set_cb0 g v : next (set_cb0 g v) = next g. Proof. reflexivity. Qed.
Lemma next_set_cb1 g v : next (set_cb1 g v) = next g. Proof. reflexivity. Qed.
Lemma next_set_rlist g v : next (set_rlist g v) = next g. Proof. reflexivity. Qed.
Lemma next_set_rdict g v : next (set_rdict g v) = next g. Proof. reflexivity. Qed.
Lemma next_set_blist g v : next (set_blist g v) = next g. Proof. reflexivity. Qed.
Lemma next_set_bdict g v : next (set_bdict g v) = next g. Proof. reflexivity. Qed.
Lemma next_set_clist g v : next (set_clist g v) = next g. Proof. reflexivity. Qed.
Lemma next_set_cdict g v : next (set_cdict g v) = next g. Proof. reflexivity. Qed.
Lemma next_set_next g v : next (set_next g v) = v. Proof. reflexivity. Qed.
#[export] Hint Rewrite rn_set_rname rn_set_bname rn_set_brock rn_set_bcn rn_set_cb0 rn_set_cb1 rn_set_rlist rn_set_rdict rn_set_blist rn_set_bdict rn_set_clist rn_set_cdict : gs.
#[export] Hint Rewrite rn_set_next bn_set_rname bn_set_bname bn_set_brock bn_set_bcn bn_set_cb0 bn_set_cb1 bn_set_rlist bn_set_rdict bn_set_blist bn_set_bdict bn_set_clist : gs.
#[export] Hint Rewrite bn_set_cdict bn_set_next br_set_rname br_set_bname br_set_brock br_set_bcn br_set_cb0 br_set_cb1 br_set_rlist br_set_rdict br_set_blist br_set_bdict : gs.
#[export] Hint Rewrite br_set_clist br_set_cdict br_set_next cn_set_rname cn_set_bname cn_set_brock cn_set_bcn cn_set_cb0 cn_set_cb1 cn_set_rlist cn_set_rdict cn_set_blist : gs.
#[export] Hint Rewrite cn_set_bdict cn_set_clist cn_set_cdict cn_set_next c0_set_rname c0_set_bname c0_set_brock c0_set_bcn c0_set_cb0 c0_set_cb1 c0_set_rlist c0_set_rdict : gs.
#[export] Hint Rewrite c0_set_blist c0_set_bdict c0_set_clist c0_set_cdict c0_set_next c1_set_rname c1_set_bname c1_set_brock c1_set_bcn c1_set_cb0 c1_set_cb1 c1_set_rlist : gs.
#[export] Hint Rewrite c1_set_rdict c1_set_blist c1_set_bdict c1_set_clist c1_set_cdict c1_set_next ckey_set_rname ckey_set_brock ckey_set_bcn ckey_set_rlist ckey_set_rdict ckey_set_blist : gs.
#[export] Hint Rewrite ckey_set_bdict ckey_set_clist ckey_set_cdict ckey_set_next ckey_set_bname ckey_set_cb0 ckey_set_cb1 rname_set_rname rname_set_bname rname_set_brock rname_set_bcn rname_set_cb0 : gs.
#[export] Hint Rewrite rname_set_cb1 rname_set_rlist rname_set_rdict rname_set_blist rname_set_bdict rname_set_clist rname_set_cdict rname_set_next bname_set_rname bname_set_bname bname_set_brock bname_set_bcn : gs.
#[export] Hint Rewrite bname_set_cb0 bname_set_cb1 bname_set_rlist bname_set_rdict bname_set_blist bname_set_bdict bname_set_clist bname_set_cdict bname_set_next brock_set_rname brock_set_bname brock_set_brock : gs.
#[export] Hint Rewrite brock_set_bcn brock_set_cb0 brock_set_cb1 brock_set_rlist brock_set_rdict brock_set_blist brock_set_bdict brock_set_clist brock_set_cdict brock_set_next bcn_set_rname bcn_set_bname : gs.
#[export] Hint Rewrite bcn_set_brock bcn_set_bcn bcn_set_cb0 bcn_set_cb1 bcn_set_rlist bcn_set_rdict bcn_set_blist bcn_set_bdict bcn_set_clist bcn_set_cdict bcn_set_next cb0_set_rname : gs.
#[export] Hint Rewrite cb0_set_bname cb0_set_brock cb0_set_bcn cb0_set_cb0 cb0_set_cb1 cb0_set_rlist cb0_set_rdict cb0_set_blist cb0_set_bdict cb0_set_clist cb0_set_cdict cb0_set_next : gs.
#[export] Hint Rewrite cb1_set_rname cb1_set_bname cb1_set_brock cb1_set_bcn cb1_set_cb0 cb1_set_cb1 cb1_set_rlist cb1_set_rdict cb1_set_blist cb1_set_bdict cb1_set_clist cb1_set_cdict : gs.
#[export] Hint Rewrite cb1_set_next rlist_set_rname rlist_set_bname rlist_set_brock rlist_set_bcn rlist_set_cb0 rlist_set_cb1 rlist_set_rlist rlist_set_rdict rlist_set_blist rlist_set_bdict rlist_set_clist : gs.
#[export] Hint Rewrite rlist_set_cdict rlist_set_next rdict_set_rname rdict_set_bname rdict_set_brock rdict_set_bcn rdict_set_cb0 rdict_set_cb1 rdict_set_rlist rdict_set_rdict rdict_set_blist rdict_set_bdict : gs.
#[export] Hint Rewrite rdict_set_clist rdict_set_cdict rdict_set_next blist_set_rname blist_set_bname blist_set_brock blist_set_bcn blist_set_cb0 blist_set_cb1 blist_set_rlist blist_set_rdict blist_set_blist : gs.
#[export] Hint Rewrite blist_set_bdict blist_set_clist blist_set_cdict blist_set_next bdict_set_rname bdict_set_bname bdict_set_brock bdict_set_bcn bdict_set_cb0 bdict_set_cb1 bdict_set_rlist bdict_set_rdict : gs.
#[export] Hint Rewrite bdict_set_blist bdict_set_bdict bdict_set_clist bdict_set_cdict bdict_set_next clist_set_rname clist_set_bname clist_set_brock clist_set_bcn clist_set_cb0 clist_set_cb1 clist_set_rlist : gs.
#[export] Hint Rewrite clist_set_rdict clist_set_blist clist_set_bdict clist_set_clist clist_set_cdict clist_set_next cdict_set_rname cdict_set_bname cdict_set_brock cdict_set_bcn cdict_set_cb0 cdict_set_cb1 : gs.
#[export] Hint Rewrite cdict_set_rlist cdict_set_rdict cdict_set_blist cdict_set_bdict cdict_set_clist cdict_set_cdict cdict_set_next next_set_rname next_set_bname next_set_brock next_set_bcn next_set_cb0 : gs.
#[export] Hint Rewrite next_set_cb1 next_set_rlist next_set_rdict next_set_blist next_set_bdict next_set_clist next_set_cdict next_set_next : gs.

Lemma bn_new_rock g n : bn (new_rock g n) = bn g. Proof. reflexivity. Qed.
Lemma br_new_rock g n : br (new_rock g n) = br g. Proof. reflexivity. Qed.
Lemma cn_new_rock g n : cn (new_rock g n) = cn g. Proof. reflexivity. Qed.
Lemma c0_new_rock g n : c0 (new_rock g n) = c0 g. Proof. reflexivity. Qed.
Lemma c1_new_rock g n : c1 (new_rock g n) = c1 g. Proof. reflexivity. Qed.
Lemma ckey_new_rock g n : ckey (new_rock g n) = ckey g. Proof. reflexivity. Qed.
Lemma bname_new_rock g n : bname (new_rock g n) = bname g. Proof. reflexivity. Qed.
Lemma brock_new_rock g n : brock (new_rock g n) = brock g. Proof. reflexivity. Qed.
Lemma bcn_new_rock g n : bcn (new_rock g n) = bcn g. Proof. reflexivity. Qed.
Lemma cb0_new_rock g n : cb0 (new_rock g n) = cb0 g. Proof. reflexivity. Qed.
Lemma cb1_new_rock g n : cb1 (new_rock g n) = cb1 g. Proof. reflexivity. Qed.
Lemma rlist_new_rock g n : rlist (new_rock g n) = rlist g. Proof. reflexivity. Qed.
Lemma rdict_new_rock g n : rdict (new_rock g n) = rdict g. Proof. reflexivity. Qed.
Lemma blist_new_rock g n : blist (new_rock g n) = blist g. Proof. reflexivity. Qed.
Lemma bdict_new_rock g n : bdict (new_rock g n) = bdict g. Proof. reflexivity. Qed.
Lemma clist_new_rock g n : clist (new_rock g n) = clist g. Proof. reflexivity. Qed.
Lemma cdict_new_rock g n : cdict (new_rock g n) = cdict g. Proof. reflexivity. Qed.
Lemma rn_new_block g n r : rn (new_block g n r) = rn g. Proof. reflexivity. Qed.
Lemma c0_new_block g n r : c0 (new_block g n r) = c0 g. Proof. reflexivity. Qed.
Lemma c1_new_block g n r : c1 (new_block g n r) = c1 g. Proof. reflexivity. Qed.
Lemma rname_new_block g n r : rname (new_block g n r) = rname g. Proof. reflexivity. Qed.
Lemma cb0_new_block g n r : cb0 (new_block g n r) = cb0 g. Proof. reflexivity. Qed.
Lemma cb1_new_block g n r : cb1 (new_block g n r) = cb1 g. Proof. reflexivity. Qed.
Lemma rlist_new_block g n r : rlist (new_block g n r) = rlist g. Proof. reflexivity. Qed.
Lemma rdict_new_block g n r : rdict (new_block g n r) = rdict g. Proof. reflexivity. Qed.
Lemma blist_new_block g n r : blist (new_block g n r) = blist g. Proof. reflexivity. Qed.
Lemma bdict_new_block g n r : bdict (new_block g n r) = bdict g. Proof. reflexivity. Qed.
Lemma clist_new_block g n r : clist (new_block g n r) = clist g. Proof. reflexivity. Qed.
Lemma cdict_new_block g n r : cdict (new_block g n r) = cdict g. Proof. reflexivity. Qed.
Lemma rn_new_conn g i0 i1 : rn (new_conn g i0 i1) = rn g. Proof. reflexivity. Qed.
Lemma bn_new_conn g i0 i1 : bn (new_conn g i0 i1) = bn g. Proof. reflexivity. Qed.
Lemma br_new_conn g i0 i1 : br (new_conn g i0 i1) = br g. Proof. reflexivity. Qed.
Lemma cn_new_conn g i0 i1 : cn (new_conn g i0 i1) = cn g. Proof. reflexivity. Qed.
Lemma rname_new_conn g i0 i1 : rname (new_conn g i0 i1) = rname g. Proof. reflexivity. Qed.
Lemma bname_new_conn g i0 i1 : bname (new_conn g i0 i1) = bname g. Proof. reflexivity. Qed.
Lemma brock_new_conn g i0 i1 : brock (new_conn g i0 i1) = brock g. Proof. reflexivity. Qed.
Lemma bcn_new_conn g i0 i1 : bcn (new_conn g i0 i1) = bcn g. Proof. reflexivity. Qed.
Lemma rlist_new_conn g i0 i1 : rlist (new_conn g i0 i1) = rlist g. Proof. reflexivity. Qed.
Lemma rdict_new_conn g i0 i1 : rdict (new_conn g i0 i1) = rdict g. Proof. reflexivity. Qed.
Lemma blist_new_conn g i0 i1 : blist (new_conn g i0 i1) = blist g. Proof. reflexivity. Qed.
Lemma bdict_new_conn g i0 i1 : bdict (new_conn g i0 i1) = bdict g. Proof. reflexivity. Qed.
Lemma clist_new_conn g i0 i1 : clist (new_conn g i0 i1) = clist g. Proof. reflexivity. Qed.
Lemma cdict_new_conn g i0 i1 : cdict (new_conn g i0 i1) = cdict g. Proof. reflexivity. Qed.
Lemma rn_cn_add g i k : rn (cn_add g i k) = rn g. Proof. reflexivity. Qed.
Lemma bn_cn_add g i k : bn (cn_add g i k) = bn g. Proof. reflexivity. Qed.
Lemma br_cn_add g i k : br (cn_add g i k) = br g. Proof. reflexivity. Qed.
Lemma c0_cn_add g i k : c0 (cn_add g i k) = c0 g. Proof. reflexivity. Qed.
Lemma c1_cn_add g i k : c1 (cn_add g i k) = c1 g. Proof. reflexivity. Qed.
Lemma ckey_cn_add g i k : ckey (cn_add g i k) = ckey g. Proof. reflexivity. Qed.
Lemma rname_cn_add g i k : rname (cn_add g i k) = rname g. Proof. reflexivity. Qed.
Lemma bname_cn_add g i k : bname (cn_add g i k) = bname g. Proof. reflexivity. Qed.
Lemma brock_cn_add g i k : brock (cn_add g i k) = brock g. Proof. reflexivity. Qed.
Lemma cb0_cn_add g i k : cb0 (cn_add g i k) = cb0 g. Proof. reflexivity. Qed.
Lemma cb1_cn_add g i k : cb1 (cn_add g i k) = cb1 g. Proof. reflexivity. Qed.
Lemma rlist_cn_add g i k : rlist (cn_add g i k) = rlist g. Proof. reflexivity. Qed.
Lemma rdict_cn_add g i k : rdict (cn_add g i k) = rdict g. Proof. reflexivity. Qed.
Lemma blist_cn_add g i k : blist (cn_add g i k) = blist g. Proof. reflexivity. Qed.
Lemma bdict_cn_add g i k : bdict (cn_add g i k) = bdict g. Proof. reflexivity. Qed.
Lemma clist_cn_add g i k : clist (cn_add g i k) = clist g. Proof. reflexivity. Qed.
Lemma cdict_cn_add g i k : cdict (cn_add g i k) = cdict g. Proof. reflexivity. Qed.
Lemma next_cn_add g i k : next (cn_add g i k) = next g. Proof. reflexivity. Qed.
Lemma rn_file_block g i : rn (file_block g i) = rn g. Proof. reflexivity. Qed.
Lemma bn_file_block g i : bn (file_block g i) = bn g. Proof. reflexivity. Qed.
Lemma br_file_block g i : br (file_block g i) = br g. Proof. reflexivity. Qed.
Lemma cn_file_block g i : cn (file_block g i) = cn g. Proof. reflexivity. Qed.
Lemma c0_file_block g i : c0 (file_block g i) = c0 g. Proof. reflexivity. Qed.
Lemma c1_file_block g i : c1 (file_block g i) = c1 g. Proof. reflexivity. Qed.
Lemma ckey_file_block g i : ckey (file_block g i) = ckey g. Proof. reflexivity. Qed.
Lemma rname_file_block g i : rname (file_block g i) = rname g. Proof. reflexivity. Qed.
Lemma bname_file_block g i : bname (file_block g i) = bname g. Proof. reflexivity. Qed.
Lemma brock_file_block g i : brock (file_block g i) = brock g. Proof. reflexivity. Qed.
Lemma bcn_file_block g i : bcn (file_block g i) = bcn g. Proof. reflexivity. Qed.
Lemma cb0_file_block g i : cb0 (file_block g i) = cb0 g. Proof. reflexivity. Qed.
Lemma cb1_file_block g i : cb1 (file_block g i) = cb1 g. Proof. reflexivity. Qed.
Lemma rlist_file_block g i : rlist (file_block g i) = rlist g. Proof. reflexivity. Qed.
Lemma rdict_file_block g i : rdict (file_block g i) = rdict g. Proof. reflexivity. Qed.
Lemma blist_file_block g i : blist (file_block g i) = blist g. Proof. reflexivity. Qed.
Lemma clist_file_block g i : clist (file_block g i) = clist g. Proof. reflexivity. Qed.
Lemma cdict_file_block g i : cdict (file_block g i) = cdict g. Proof. reflexivity. Qed.
Lemma next_file_block g i : next (file_block g i) = next g. Proof. reflexivity. Qed.
Lemma rn_rebuild_cdict g : rn (rebuild_cdict g) = rn g. Proof. reflexivity. Qed.
Lemma bn_rebuild_cdict g : bn (rebuild_cdict g) = bn g. Proof. reflexivity. Qed.
Lemma br_rebuild_cdict g : br (rebuild_cdict g) = br g. Proof. reflexivity. Qed.
Lemma cn_rebuild_cdict g : cn (rebuild_cdict g) = cn g. Proof. reflexivity. Qed.
Lemma c0_rebuild_cdict g : c0 (rebuild_cdict g) = c0 g. Proof. reflexivity. Qed.
Lemma c1_rebuild_cdict g : c1 (rebuild_cdict g) = c1 g. Proof. reflexivity. Qed.
Lemma ckey_rebuild_cdict g : ckey (rebuild_cdict g) = ckey g. Proof. reflexivity. Qed.
Lemma rname_rebuild_cdict g : rname (rebuild_cdict g) = rname g. Proof. reflexivity. Qed.
Lemma bname_rebuild_cdict g : bname (rebuild_cdict g) = bname g. Proof. reflexivity. Qed.
Lemma brock_rebuild_cdict g : brock (rebuild_cdict g) = brock g. Proof. reflexivity. Qed.
Lemma bcn_rebuild_cdict g : bcn (rebuild_cdict g) = bcn g. Proof. reflexivity. Qed.
Lemma cb0_rebuild_cdict g : cb0 (rebuild_cdict g) = cb0 g. Proof. reflexivity. Qed.
Lemma cb1_rebuild_cdict g : cb1 (rebuild_cdict g) = cb1 g. Proof. reflexivity. Qed.
Lemma rlist_rebuild_cdict g : rlist (rebuild_cdict g) = rlist g. Proof. reflexivity. Qed.
Lemma rdict_rebuild_cdict g : rdict (rebuild_cdict g) = rdict g. Proof. reflexivity. Qed.
Lemma blist_rebuild_cdict g : blist (rebuild_cdict g) = blist g. Proof. reflexivity. Qed.
Lemma bdict_rebuild_cdict g : bdict (rebuild_cdict g) = bdict g. Proof. reflexivity. Qed.
Lemma clist_rebuild_cdict g : clist (rebuild_cdict g) = clist g. Proof. reflexivity. Qed.
Lemma next_rebuild_cdict g : next (rebuild_cdict g) = next g. Proof. reflexivity. Qed.
Lemma rn_new_rock g n j : rn (new_rock g n) j = if Pos.eqb j (next g) then n else rn g j.
Proof. apply fget_fset. Qed.
Lemma next_new_rock g n : next (new_rock g n) = Pos.succ (next g). Proof. reflexivity. Qed.
Lemma bn_new_block g n r i : bn (new_block g n r) i = if Pos.eqb i (next g) then n else bn g i.
Proof. apply fget_fset. Qed.
Lemma br_new_block g n r i : br (new_block g n r) i = if Pos.eqb i (next g) then r else br g i.
Proof. apply fget_fset. Qed.
Lemma cn_new_block g n r i : cn (new_block g n r) i = if Pos.eqb i (next g) then [] else cn g i.
Proof. apply fget_fset. Qed.
Lemma next_new_block g n r : next (new_block g n r) = Pos.succ (next g). Proof. reflexivity. Qed.
Lemma c0_new_conn g i0 i1 j : c0 (new_conn g i0 i1) j = if Pos.eqb j (next g) then i0 else c0 g j.
Proof. apply fget_fset. Qed.
Lemma c1_new_conn g i0 i1 j : c1 (new_conn g i0 i1) j = if Pos.eqb j (next g) then i1 else c1 g j.
Proof. apply fget_fset. Qed.
Lemma next_new_conn g i0 i1 : next (new_conn g i0 i1) = Pos.succ (next g). Proof. reflexivity. Qed.
Lemma cn_cn_add g i k i' : cn (cn_add g i k) i' = if Pos.eqb i' i then set_add (cn g i) k else cn g i'.
Proof. apply fget_fset. Qed.
Lemma bdict_file_block g i : bdict (file_block g i) = aset str_eqb (bdict g) (bn g i) i. Proof. reflexivity. Qed.
Lemma cdict_rebuild_cdict g : cdict (rebuild_cdict g) = fold_left (fun acc j => aset key2_eqb acc (ckey g j) j) (clist g) []. Proof. reflexivity. Qed.
#[export] Hint Rewrite bn_new_rock br_new_rock cn_new_rock c0_new_rock c1_new_rock ckey_new_rock bname_new_rock brock_new_rock bcn_new_rock cb0_new_rock cb1_new_rock rlist_new_rock : gs.
#[export] Hint Rewrite rdict_new_rock blist_new_rock bdict_new_rock clist_new_rock cdict_new_rock rn_new_block cn_new_block c0_new_block c1_new_block rname_new_block cb0_new_block : gs.
#[export] Hint Rewrite cb1_new_block rlist_new_block rdict_new_block blist_new_block bdict_new_block clist_new_block cdict_new_block rn_new_conn bn_new_conn br_new_conn cn_new_conn rname_new_conn : gs.
#[export] Hint Rewrite bname_new_conn brock_new_conn bcn_new_conn rlist_new_conn rdict_new_conn blist_new_conn bdict_new_conn clist_new_conn cdict_new_conn rn_cn_add bn_cn_add br_cn_add : gs.
#[export] Hint Rewrite c0_cn_add c1_cn_add ckey_cn_add rname_cn_add bname_cn_add brock_cn_add cb0_cn_add cb1_cn_add rlist_cn_add rdict_cn_add blist_cn_add bdict_cn_add : gs.
#[export] Hint Rewrite clist_cn_add cdict_cn_add next_cn_add rn_file_block bn_file_block br_file_block cn_file_block c0_file_block c1_file_block ckey_file_block rname_file_block bname_file_block : gs.
#[export] Hint Rewrite brock_file_block bcn_file_block cb0_file_block cb1_file_block rlist_file_block rdict_file_block blist_file_block clist_file_block cdict_file_block next_file_block rn_rebuild_cdict bn_rebuild_cdict : gs.
#[export] Hint Rewrite br_rebuild_cdict cn_rebuild_cdict c0_rebuild_cdict c1_rebuild_cdict ckey_rebuild_cdict rname_rebuild_cdict bname_rebuild_cdict brock_rebuild_cdict bcn_rebuild_cdict cb0_rebuild_cdict cb1_rebuild_cdict rlist_rebuild_cdict : gs.
#[export] Hint Rewrite rdict_rebuild_cdict blist_rebuild_cdict bdict_rebuild_cdict clist_rebuild_cdict next_rebuild_cdict rn_new_rock next_new_rock bn_new_block br_new_block next_new_block c0_new_conn c1_new_conn : gs.
#[export] Hint Rewrite next_new_conn cn_cn_add bdict_file_block cdict_rebuild_cdict : gs.

(** ** the connection_name sets *)
Lemma set_mem_In k s : set_mem k s = true <-> In k s.
Proof.
  unfold set_mem. rewrite existsb_exists. split.
  - intros [y [H E]]. destruct (key2_spec k y); [subst; exact H|discriminate].
  - intro H. exists k. split; [exact H|]. destruct (key2_spec k k); congruence.
Qed.
Lemma In_set_add s k x : In x (set_add s k) <-> In x s \/ x = k.
Proof.
  unfold set_add. destruct (set_mem k s) eqn:E.
  - apply set_mem_In in E. split; [auto|]. intros [H| ->]; assumption.
  - rewrite in_app_iff. cbn. intuition.
Qed.
Lemma In_set_del s k x : In x (set_del s k) <-> In x s /\ x <> k.
Proof.
  unfold set_del. rewrite filter_In. split; intros [H1 H2]; (split; [exact H1|]).
  - intros ->. destruct (key2_spec k k); [discriminate|congruence].
  - destruct (key2_spec k x); [congruence|reflexivity].
Qed.
Lemma In_set_of_list l x : In x (set_of_list l) <-> In x l.
Proof.
  unfold set_of_list. assert (G : forall acc, In x (fold_left set_add l acc) <-> In x acc \/ In x l).
  { induction l as [|a r IH]; cbn; intro acc; [tauto|]. rewrite IH, In_set_add. intuition. }
  rewrite G. cbn. tauto.
Qed.


(** the same lemmas once more, one rewriting base per setter: [gs] only tries the lemmas of the setters that occur in the goal *)
#[export] Hint Rewrite rn_set_rname bn_set_rname br_set_rname cn_set_rname c0_set_rname c1_set_rname ckey_set_rname rname_set_rname bname_set_rname brock_set_rname bcn_set_rname cb0_set_rname cb1_set_rname rlist_set_rname rdict_set_rname blist_set_rname bdict_set_rname clist_set_rname cdict_set_rname next_set_rname : gs_set_rname.
#[export] Hint Rewrite rn_set_bname bn_set_bname br_set_bname cn_set_bname c0_set_bname c1_set_bname ckey_set_bname rname_set_bname bname_set_bname brock_set_bname bcn_set_bname cb0_set_bname cb1_set_bname rlist_set_bname rdict_set_bname blist_set_bname bdict_set_bname clist_set_bname cdict_set_bname next_set_bname : gs_set_bname.
#[export] Hint Rewrite rn_set_brock bn_set_brock br_set_brock cn_set_brock c0_set_brock c1_set_brock ckey_set_brock rname_set_brock bname_set_brock brock_set_brock bcn_set_brock cb0_set_brock cb1_set_brock rlist_set_brock rdict_set_brock blist_set_brock bdict_set_brock clist_set_brock cdict_set_brock next_set_brock : gs_set_brock.
#[export] Hint Rewrite rn_set_bcn bn_set_bcn br_set_bcn cn_set_bcn c0_set_bcn c1_set_bcn ckey_set_bcn rname_set_bcn bname_set_bcn brock_set_bcn bcn_set_bcn cb0_set_bcn cb1_set_bcn rlist_set_bcn rdict_set_bcn blist_set_bcn bdict_set_bcn clist_set_bcn cdict_set_bcn next_set_bcn : gs_set_bcn.
#[export] Hint Rewrite rn_set_cb0 bn_set_cb0 br_set_cb0 cn_set_cb0 c0_set_cb0 c1_set_cb0 ckey_set_cb0 rname_set_cb0 bname_set_cb0 brock_set_cb0 bcn_set_cb0 cb0_set_cb0 cb1_set_cb0 rlist_set_cb0 rdict_set_cb0 blist_set_cb0 bdict_set_cb0 clist_set_cb0 cdict_set_cb0 next_set_cb0 : gs_set_cb0.
#[export] Hint Rewrite rn_set_cb1 bn_set_cb1 br_set_cb1 cn_set_cb1 c0_set_cb1 c1_set_cb1 ckey_set_cb1 rname_set_cb1 bname_set_cb1 brock_set_cb1 bcn_set_cb1 cb0_set_cb1 cb1_set_cb1 rlist_set_cb1 rdict_set_cb1 blist_set_cb1 bdict_set_cb1 clist_set_cb1 cdict_set_cb1 next_set_cb1 : gs_set_cb1.
#[export] Hint Rewrite rn_set_rlist bn_set_rlist br_set_rlist cn_set_rlist c0_set_rlist c1_set_rlist ckey_set_rlist rname_set_rlist bname_set_rlist brock_set_rlist bcn_set_rlist cb0_set_rlist cb1_set_rlist rlist_set_rlist rdict_set_rlist blist_set_rlist bdict_set_rlist clist_set_rlist cdict_set_rlist next_set_rlist : gs_set_rlist.
#[export] Hint Rewrite rn_set_rdict bn_set_rdict br_set_rdict cn_set_rdict c0_set_rdict c1_set_rdict ckey_set_rdict rname_set_rdict bname_set_rdict brock_set_rdict bcn_set_rdict cb0_set_rdict cb1_set_rdict rlist_set_rdict rdict_set_rdict blist_set_rdict bdict_set_rdict clist_set_rdict cdict_set_rdict next_set_rdict : gs_set_rdict.
#[export] Hint Rewrite rn_set_blist bn_set_blist br_set_blist cn_set_blist c0_set_blist c1_set_blist ckey_set_blist rname_set_blist bname_set_blist brock_set_blist bcn_set_blist cb0_set_blist cb1_set_blist rlist_set_blist rdict_set_blist blist_set_blist bdict_set_blist clist_set_blist cdict_set_blist next_set_blist : gs_set_blist.
#[export] Hint Rewrite rn_set_bdict bn_set_bdict br_set_bdict cn_set_bdict c0_set_bdict c1_set_bdict ckey_set_bdict rname_set_bdict bname_set_bdict brock_set_bdict bcn_set_bdict cb0_set_bdict cb1_set_bdict rlist_set_bdict rdict_set_bdict blist_set_bdict bdict_set_bdict clist_set_bdict cdict_set_bdict next_set_bdict : gs_set_bdict.
#[export] Hint Rewrite rn_set_clist bn_set_clist br_set_clist cn_set_clist c0_set_clist c1_set_clist ckey_set_clist rname_set_clist bname_set_clist brock_set_clist bcn_set_clist cb0_set_clist cb1_set_clist rlist_set_clist rdict_set_clist blist_set_clist bdict_set_clist clist_set_clist cdict_set_clist next_set_clist : gs_set_clist.
#[export] Hint Rewrite rn_set_cdict bn_set_cdict br_set_cdict cn_set_cdict c0_set_cdict c1_set_cdict ckey_set_cdict rname_set_cdict bname_set_cdict brock_set_cdict bcn_set_cdict cb0_set_cdict cb1_set_cdict rlist_set_cdict rdict_set_cdict blist_set_cdict bdict_set_cdict clist_set_cdict cdict_set_cdict next_set_cdict : gs_set_cdict.
#[export] Hint Rewrite rn_set_next bn_set_next br_set_next cn_set_next c0_set_next c1_set_next ckey_set_next rname_set_next bname_set_next brock_set_next bcn_set_next cb0_set_next cb1_set_next rlist_set_next rdict_set_next blist_set_next bdict_set_next clist_set_next cdict_set_next next_set_next : gs_set_next.
#[export] Hint Rewrite bn_new_rock br_new_rock cn_new_rock c0_new_rock c1_new_rock ckey_new_rock bname_new_rock brock_new_rock bcn_new_rock cb0_new_rock cb1_new_rock rlist_new_rock rdict_new_rock blist_new_rock bdict_new_rock clist_new_rock cdict_new_rock rn_new_rock next_new_rock : gs_new_rock.
#[export] Hint Rewrite rn_new_block cn_new_block c0_new_block c1_new_block rname_new_block cb0_new_block cb1_new_block rlist_new_block rdict_new_block blist_new_block bdict_new_block clist_new_block cdict_new_block bn_new_block br_new_block next_new_block : gs_new_block.
#[export] Hint Rewrite rn_new_conn bn_new_conn br_new_conn cn_new_conn rname_new_conn bname_new_conn brock_new_conn bcn_new_conn rlist_new_conn rdict_new_conn blist_new_conn bdict_new_conn clist_new_conn cdict_new_conn c0_new_conn c1_new_conn next_new_conn : gs_new_conn.
#[export] Hint Rewrite rn_cn_add bn_cn_add br_cn_add c0_cn_add c1_cn_add ckey_cn_add rname_cn_add bname_cn_add brock_cn_add cb0_cn_add cb1_cn_add rlist_cn_add rdict_cn_add blist_cn_add bdict_cn_add clist_cn_add cdict_cn_add next_cn_add cn_cn_add : gs_cn_add.
#[export] Hint Rewrite rn_file_block bn_file_block br_file_block cn_file_block c0_file_block c1_file_block ckey_file_block rname_file_block bname_file_block brock_file_block bcn_file_block cb0_file_block cb1_file_block rlist_file_block rdict_file_block blist_file_block clist_file_block cdict_file_block next_file_block bdict_file_block : gs_file_block.
#[export] Hint Rewrite rn_rebuild_cdict bn_rebuild_cdict br_rebuild_cdict cn_rebuild_cdict c0_rebuild_cdict c1_rebuild_cdict ckey_rebuild_cdict rname_rebuild_cdict bname_rebuild_cdict brock_rebuild_cdict bcn_rebuild_cdict cb0_rebuild_cdict cb1_rebuild_cdict rlist_rebuild_cdict rdict_rebuild_cdict blist_rebuild_cdict bdict_rebuild_cdict clist_rebuild_cdict next_rebuild_cdict cdict_rebuild_cdict : gs_rebuild_cdict.

(** ** relink (repaired add_rocktype): only [brock] changes, and only at listed blocks that held [old] *)
Lemma br_relink g old j i : br (relink g old j) i = if mem i (blist g) && Pos.eqb (br g i) old then j else br g i.
Proof.
  unfold relink, br. cbn [brock set_brock].
  assert (G : forall l m, fget 1%positive (fold_left (fun m i => if Pos.eqb (fget 1%positive (brock g) i) old then fset m i j else m) l m) i
                          = if mem i l && Pos.eqb (fget 1%positive (brock g) i) old then j else fget 1%positive m i).
  { induction l as [|a r IH]; intro m; cbn [fold_left mem existsb]; [reflexivity|]. rewrite IH. fold (mem i r).
    destruct (Pos.eqb_spec i a) as [->|N]; cbn [orb].
    - destruct (Pos.eqb (fget 1%positive (brock g) a) old) eqn:E; cbn [andb].
      + destruct (mem a r); cbn [andb]; [reflexivity|apply fget_fset_eq].
      + rewrite andb_false_r. reflexivity.
    - destruct (Pos.eqb (fget 1%positive (brock g) a) old); [rewrite fget_fset_neq by exact N|]; reflexivity. }
  apply G.
Qed.
Lemma relink_frame g old j :
  rn (relink g old j) = rn g /\ bn (relink g old j) = bn g /\ cn (relink g old j) = cn g /\ c0 (relink g old j) = c0 g /\
  c1 (relink g old j) = c1 g /\ ckey (relink g old j) = ckey g /\ rlist (relink g old j) = rlist g /\ rdict (relink g old j) = rdict g /\
  blist (relink g old j) = blist g /\ bdict (relink g old j) = bdict g /\ clist (relink g old j) = clist g /\
  cdict (relink g old j) = cdict g /\ next (relink g old j) = next g.
Proof. repeat split; reflexivity. Qed.

(** the repaired variants of delete_rocktype / add_block refuse some calls: a call that returned took the other branch *)
Ltac norefuse H :=
  match type of H with context [if ?c then Raise PlainException else _] => let R := fresh "Refused" in destruct c eqn:R; [discriminate H|] end.
Ltac gs_pass :=
  try (lazymatch goal with |- context [set_rname _ _] => autorewrite with gs_set_rname end);
  try (lazymatch goal with |- context [set_bname _ _] => autorewrite with gs_set_bname end);
  try (lazymatch goal with |- context [set_brock _ _] => autorewrite with gs_set_brock end);
  try (lazymatch goal with |- context [set_bcn _ _] => autorewrite with gs_set_bcn end);
  try (lazymatch goal with |- context [set_cb0 _ _] => autorewrite with gs_set_cb0 end);
  try (lazymatch goal with |- context [set_cb1 _ _] => autorewrite with gs_set_cb1 end);
  try (lazymatch goal with |- context [set_rlist _ _] => autorewrite with gs_set_rlist end);
  try (lazymatch goal with |- context [set_rdict _ _] => autorewrite with gs_set_rdict end);
  try (lazymatch goal with |- context [set_blist _ _] => autorewrite with gs_set_blist end);
  try (lazymatch goal with |- context [set_bdict _ _] => autorewrite with gs_set_bdict end);
  try (lazymatch goal with |- context [set_clist _ _] => autorewrite with gs_set_clist end);
  try (lazymatch goal with |- context [set_cdict _ _] => autorewrite with gs_set_cdict end);
  try (lazymatch goal with |- context [set_next _ _] => autorewrite with gs_set_next end);
  try (lazymatch goal with |- context [new_rock _ _] => autorewrite with gs_new_rock end);
  try (lazymatch goal with |- context [new_block _ _ _] => autorewrite with gs_new_block end);
  try (lazymatch goal with |- context [new_conn _ _ _] => autorewrite with gs_new_conn end);
  try (lazymatch goal with |- context [cn_add _ _ _] => autorewrite with gs_cn_add end);
  try (lazymatch goal with |- context [file_block _ _] => autorewrite with gs_file_block end);
  try (lazymatch goal with |- context [rebuild_cdict _] => autorewrite with gs_rebuild_cdict end).
Ltac gs := repeat (progress gs_pass).
Ltac gs_pass_in H :=
  try (lazymatch type of H with context [set_rname _ _] => autorewrite with gs_set_rname in H end);
  try (lazymatch type of H with context [set_bname _ _] => autorewrite with gs_set_bname in H end);
  try (lazymatch type of H with context [set_brock _ _] => autorewrite with gs_set_brock in H end);
  try (lazymatch type of H with context [set_bcn _ _] => autorewrite with gs_set_bcn in H end);
  try (lazymatch type of H with context [set_cb0 _ _] => autorewrite with gs_set_cb0 in H end);
  try (lazymatch type of H with context [set_cb1 _ _] => autorewrite with gs_set_cb1 in H end);
  try (lazymatch type of H with context [set_rlist _ _] => autorewrite with gs_set_rlist in H end);
  try (lazymatch type of H with context [set_rdict _ _] => autorewrite with gs_set_rdict in H end);
  try (lazymatch type of H with context [set_blist _ _] => autorewrite with gs_set_blist in H end);
  try (lazymatch type of H with context [set_bdict _ _] => autorewrite with gs_set_bdict in H end);
  try (lazymatch type of H with context [set_clist _ _] => autorewrite with gs_set_clist in H end);
  try (lazymatch type of H with context [set_cdict _ _] => autorewrite with gs_set_cdict in H end);
  try (lazymatch type of H with context [set_next _ _] => autorewrite with gs_set_next in H end);
  try (lazymatch type of H with context [new_rock _ _] => autorewrite with gs_new_rock in H end);
  try (lazymatch type of H with context [new_block _ _ _] => autorewrite with gs_new_block in H end);
  try (lazymatch type of H with context [new_conn _ _ _] => autorewrite with gs_new_conn in H end);
  try (lazymatch type of H with context [cn_add _ _ _] => autorewrite with gs_cn_add in H end);
  try (lazymatch type of H with context [file_block _ _] => autorewrite with gs_file_block in H end);
  try (lazymatch type of H with context [rebuild_cdict _] => autorewrite with gs_rebuild_cdict in H end).
Ltac gs_in H := repeat (progress gs_pass_in H).
Tactic Notation "gs" "in" hyp(H) := gs_in H.
Tactic Notation "gs" "in" "*" := autorewrite with gs in *.


