(** C08 -- add_block and demote_block preserve the invariant. *)
From Coq Require Import Ascii String List Bool PArith NArith FMapPositive Permutation Lia.
From PTBase Require Import Exn PyStr.
From Gen Require Import GenFlags.
From P Require Import Assoc GridEdit GridLemmas Inv.
Import ListNotations.
Open Scope list_scope.

(** a fresh [t2block] object does not disturb the grid *)
Lemma inv_new_block g n r : Inv g -> Inv (new_block g n r).
Proof.
  intro I.
  assert (Eb : forall i, (i < next g)%positive -> bn (new_block g n r) i = bn g i).
  { intros i H. rewrite bn_new_block. destruct (Pos.eqb_spec i (next g)); [lia|reflexivity]. }
  assert (Er : forall i, (i < next g)%positive -> br (new_block g n r) i = br g i).
  { intros i H. rewrite br_new_block. destruct (Pos.eqb_spec i (next g)); [lia|reflexivity]. }
  assert (Ec : forall i, (i < next g)%positive -> cn (new_block g n r) i = cn g i).
  { intros i H. rewrite cn_new_block. destruct (Pos.eqb_spec i (next g)); [lia|reflexivity]. }
  assert (Ek : forall j, In j (clist g) -> ckey (new_block g n r) j = ckey g j).
  { intros j H. unfold ckey. gs. destruct (i_ends g I j H) as [H0 H1].
    apply (i_bfresh g I) in H0. apply (i_bfresh g I) in H1.
    destruct (Pos.eqb_spec (c0 g j) (next g)); [lia|]. destruct (Pos.eqb_spec (c1 g j) (next g)); [lia|]. reflexivity. }
  constructor; try apply I; gs.
  - apply DL_ext with (name := bn g); [|apply I]. intros i H. apply Eb. apply (i_bfresh g I). exact H.
  - apply DL_ext with (name := ckey g); [|apply I]. exact Ek.
  - intros i H k. pose proof (i_bfresh g I i H) as L. rewrite (Ec i L). rewrite (i_back g I i H k).
    split; intros [j [Hj [Hk Hm]]]; exists j; (split; [exact Hj|split; [|exact Hm]]).
    + rewrite Ek; assumption.
    + rewrite <- Ek; assumption.
  - intros i H. pose proof (i_bfresh g I i H) as L. rewrite (Er i L). apply (i_rock g I). exact H.
  - intros i H. pose proof (i_bfresh g I i H) as L. rewrite (Er i L). apply (i_brfresh g I) in H. lia.
  - intros i H. apply (i_rfresh g I) in H. lia.
  - intros i H. apply (i_bfresh g I) in H. lia.
  - intros i H. apply (i_cfresh g I) in H. lia.
Qed.

(** [add_block(blk)] for an object [i] that is not in the list, has no connections, is not an end of
    any connection and carries a registered rock type.  If a block of the same name exists (it is
    replaced), that block must have no connections. *)
Lemma add_block_obj_inv g i g' : Inv g -> ~ In i (blist g) -> (i < next g)%positive ->
  (br g i < next g)%positive -> In (rn g (br g i)) (map fst (rdict g)) -> cn g i = [] ->
  (forall old, bget g (bn g i) = Some old -> cn g old = []) ->
  add_block_obj g i = Ok g' -> Inv g'.
Proof.
  intros I Hi Hlt Hbr Hrk Hcn Hold H. unfold add_block_obj in H.
  assert (Hm : forall j, In j (clist g) -> c0 g j <> i /\ c1 g j <> i).
  { intros j Hj. destruct (i_ends g I j Hj) as [H0 H1]. split; intros E; [rewrite E in H0|rewrite E in H1]; contradiction. }
  destruct (bget g (bn g i)) as [old|] eqn:E.
  - norefuse H. destruct (mem old (blist g)) eqn:M; [|discriminate]. inversion H; subst g'; clear H. apply mem_In in M.
    specialize (Hold old eq_refl).
    assert (Hno : forall j, In j (clist g) -> c0 g j <> old /\ c1 g j <> old).
    { intros j Hj. split; intro X.
      - assert (K : In (ckey g j) (cn g old)) by (apply (i_back g I old M); exists j; auto). rewrite Hold in K. exact K.
      - assert (K : In (ckey g j) (cn g old)) by (apply (i_back g I old M); exists j; auto). rewrite Hold in K. exact K. }
    assert (Q : forall x, In x (lreplace (blist g) old i) <-> x = i \/ (In x (blist g) /\ x <> old)).
    { intro x. apply In_lreplace; [apply I|exact M]. }
    unfold bget in E.
    constructor; try apply I; gs.
    + apply (DL_add_replace str_eqb str_spec); auto. apply I.
    + intros j Hj. destruct (i_ends g I j Hj) as [H0 H1]. destruct (Hno j Hj) as [N0 N1]. rewrite !Q. split; right; split; assumption.
    + intros x Hx k. apply Q in Hx. destruct Hx as [->|[Hx Nx]]; [|apply (i_back g I x Hx k)].
      rewrite Hcn. split; [intros []|]. intros [j [Hj [_ [X|X]]]]; destruct (Hm j Hj); contradiction.
    + intros x Hx. apply Q in Hx. destruct Hx as [->|[Hx Nx]]; [exact Hrk|apply (i_rock g I); exact Hx].
    + intros x Hx. apply Q in Hx. destruct Hx as [->|[Hx Nx]]; [exact Hbr|apply (i_brfresh g I); exact Hx].
    + intros x Hx. apply Q in Hx. destruct Hx as [->|[Hx Nx]]; [exact Hlt|apply (i_bfresh g I); exact Hx].
  - inversion H; subst g'; clear H. unfold bget in E.
    assert (Q : forall x, In x (blist g ++ [i]) <-> In x (blist g) \/ x = i).
    { intro x. rewrite in_app_iff. cbn. intuition. }
    constructor; try apply I; gs.
    + apply (DL_add_new str_eqb str_spec); auto. apply I.
    + intros j Hj. destruct (i_ends g I j Hj) as [H0 H1]. rewrite !Q. split; left; assumption.
    + intros x Hx k. apply Q in Hx. destruct Hx as [Hx| ->]; [apply (i_back g I x Hx k)|].
      rewrite Hcn. split; [intros []|]. intros [j [Hj [_ [X|X]]]]; destruct (Hm j Hj); contradiction.
    + intros x Hx. apply Q in Hx. destruct Hx as [Hx| ->]; [apply (i_rock g I); exact Hx|exact Hrk].
    + intros x Hx. apply Q in Hx. destruct Hx as [Hx| ->]; [apply (i_brfresh g I); exact Hx|exact Hbr].
    + intros x Hx. apply Q in Hx. destruct Hx as [Hx| ->]; [apply (i_bfresh g I); exact Hx|exact Hlt].
Qed.

(** [add_block(t2block(n, vol, grid.rocktype[rk]))]: a block that is replaced must be unconnected *)
Definition replaced_unconnected (g : grid) (n : str) : Prop := forall old, bget g n = Some old -> cn g old = [].

Theorem add_block_inv g n rk g' : Inv g -> replaced_unconnected g n -> add_block g n rk = Ok g' -> Inv g'.
Proof.
  intros I P H. unfold add_block in H. destruct (rget g rk) as [r|] eqn:E; [|discriminate].
  destruct (inv_rget g rk r I E) as [Hr Hn].
  pose proof (i_rfresh g I r Hr) as Lr.
  apply (add_block_obj_inv (new_block g n r) (next g)); [apply inv_new_block; exact I| | | | | | |exact H]; gs.
  - apply inv_next_notin_b. exact I.
  - lia.
  - rewrite Pos.eqb_refl. lia.
  - rewrite Pos.eqb_refl. rewrite Hn. apply (aget_Some_in str_eqb str_spec) in E. exact E.
  - rewrite Pos.eqb_refl. reflexivity.
  - rewrite Pos.eqb_refl. intros old Ho. unfold bget in Ho. gs in Ho.
    pose proof (inv_bget g n old I Ho) as [Hb _]. apply (i_bfresh g I) in Hb.
    rewrite cn_new_block. destruct (Pos.eqb_spec old (next g)); [lia|]. apply P. exact Ho.
Qed.

(** the repaired variant refuses to replace a connected block: then no precondition is needed *)
Theorem add_block_refusing_inv g n rk g' : add_block_refuses = true ->
  Inv g -> add_block g n rk = Ok g' -> Inv g'.
Proof.
  intros F I H. apply (add_block_inv g n rk g' I); [|exact H].
  intros old Ho. unfold add_block in H. destruct (rget g rk) as [r|]; [|discriminate].
  unfold add_block_obj in H. rewrite bn_new_block, Pos.eqb_refl in H. unfold bget in *. gs in H. rewrite Ho in H.
  rewrite F in H. cbn [andb] in H.
  pose proof (proj1 (inv_bget g n old I Ho)) as Hb. apply (i_bfresh g I) in Hb.
  destruct (Pos.eqb_spec old (next g)) as [E|_]; [lia|]. cbn [negb andb] in H.
  rewrite cn_new_block in H. destruct (Pos.eqb_spec old (next g)); [lia|].
  destruct (cn g old); [reflexivity|discriminate H].
Qed.

(** [demote_block(names)]: no precondition *)
Theorem demote_block_inv ns : forall g g', Inv g -> demote_block g ns = Ok g' -> Inv g'.
Proof.
  induction ns as [|n r IH]; cbn [demote_block]; intros g g' I H; [inversion H; subst; exact I|].
  destruct (bget g n) as [i|]; [|discriminate]. destruct (mem i (blist g)) eqn:M; [|discriminate].
  apply mem_In in M. eapply IH; [|exact H].
  apply inv_perm_blist; [exact I|]. apply Permutation_lremove_snoc. exact M.
Qed.
