(** C08 -- rock-type edits preserve the invariant. *)
From Coq Require Import Ascii String List Bool PArith NArith FMapPositive Permutation Lia.
From PTBase Require Import Exn PyStr.
From Gen Require Import GenFlags.
From P Require Import Assoc GridEdit GridLemmas Inv.
Import ListNotations.
Open Scope list_scope.

Lemma inv_new_rock g n : Inv g -> Inv (new_rock g n).
Proof.
  intro I.
  assert (E : forall j, (j < next g)%positive -> rn (new_rock g n) j = rn g j).
  { intros j H. rewrite rn_new_rock. destruct (Pos.eqb_spec j (next g)); [lia|reflexivity]. }
  constructor; try apply I; gs.
  - apply DL_ext with (name := rn g); [|apply I]. intros j H. apply E. apply (i_rfresh g I). exact H.
  - intros i H. fold (rn (new_rock g n) (br g i)). rewrite E; [apply (i_rock g I); exact H|apply (i_brfresh g I); exact H].
  - intros i H. apply (i_brfresh g I) in H. lia.
  - intros i H. apply (i_rfresh g I) in H. lia.
  - intros i H. apply (i_bfresh g I) in H. lia.
  - intros i H. apply (i_cfresh g I) in H. lia.
Qed.

(** the repaired add_rocktype hands the blocks of the replaced rock type to the new one, which carries the same, registered name *)
Lemma inv_relink g old j : Inv g -> rn g j = rn g old -> In (rn g j) (map fst (rdict g)) -> (j < next g)%positive ->
  Inv (relink g old j).
Proof.
  intros I En Hr Hlt. constructor; try apply I.
  - intros i Hi. change (In (rn g (br (relink g old j) i)) (map fst (rdict g))). rewrite br_relink.
    destruct (mem i (blist g) && Pos.eqb (br g i) old); [exact Hr|apply (i_rock g I); exact Hi].
  - intros i Hi. change (br (relink g old j) i < next g)%positive. rewrite br_relink.
    destruct (mem i (blist g) && Pos.eqb (br g i) old); [exact Hlt|apply (i_brfresh g I); exact Hi].
Qed.
Lemma inv_relink_if g old j : Inv g -> rn g j = rn g old -> In (rn g j) (map fst (rdict g)) -> (j < next g)%positive ->
  Inv (relink_if g old j).
Proof. intros. unfold relink_if. destruct (add_rocktype_relinks && negb (Pos.eqb old j)); [apply inv_relink; assumption|assumption]. Qed.

(** [add_rocktype(rt)] for an object that is not yet in the list: no precondition *)
Lemma add_rocktype_obj_inv g j g' : Inv g -> ~ In j (rlist g) -> (j < next g)%positive ->
  add_rocktype_obj g j = Ok g' -> Inv g'.
Proof.
  intros I Hj Hlt H. unfold add_rocktype_obj, rget in H.
  destruct (aget str_eqb (rdict g) (rn g j)) as [old|] eqn:E.
  - destruct (mem old (rlist g)); [|discriminate]. inversion H; subst g'; clear H.
    apply inv_relink_if; [|symmetry; exact (proj2 (DL_aget str_eqb str_spec _ _ _ _ _ (i_r g I) E))
                          |gs; apply (in_keys_aset str_eqb str_spec); left; reflexivity|exact Hlt].
    constructor; try apply I; gs.
    + apply (DL_add_replace str_eqb str_spec); auto. apply I.
    + intros i Hi. apply (in_keys_aset str_eqb str_spec). right. apply (i_rock g I). exact Hi.
    + intros x Hx. apply lreplace_incl in Hx. destruct Hx as [->|Hx]; [exact Hlt|apply I; exact Hx].
  - inversion H; subst g'; clear H.
    constructor; try apply I; gs.
    + apply (DL_add_new str_eqb str_spec); auto. apply I.
    + intros i Hi. apply (in_keys_aset str_eqb str_spec). right. apply (i_rock g I). exact Hi.
    + intros x Hx. rewrite in_app_iff in Hx. cbn in Hx. destruct Hx as [Hx|[<-|[]]]; [apply I; exact Hx|exact Hlt].
Qed.

Theorem add_rocktype_inv g n g' : Inv g -> add_rocktype g n = Ok g' -> Inv g'.
Proof.
  intros I H. unfold add_rocktype in H.
  apply (add_rocktype_obj_inv (new_rock g n) (next g)); [apply inv_new_rock; exact I| | |exact H].
  - gs. apply inv_next_notin_r. exact I.
  - gs. lia.
Qed.

(** [delete_rocktype(n)]: the rock type must not be in use (by name) *)
Definition rock_not_used (g : grid) (n : str) : Prop := forall i, In i (blist g) -> rn g (br g i) <> n.

Theorem delete_rocktype_inv g n g' : Inv g -> rock_not_used g n -> delete_rocktype g n = Ok g' -> Inv g'.
Proof.
  intros I U H. unfold delete_rocktype, rget in H.
  destruct (aget str_eqb (rdict g) n) as [j|] eqn:E; [|inversion H; subst; exact I].
  norefuse H. destruct (mem j (rlist g)); [|discriminate]. inversion H; subst g'; clear H.
  constructor; try apply I; gs.
  - apply (DL_del str_eqb str_spec); [apply I|exact E].
  - intros i Hi. apply (in_keys_adel str_eqb str_spec); [apply I|]. split; [apply U; exact Hi|apply (i_rock g I); exact Hi].
  - intros x Hx. apply lremove_incl in Hx. apply I. exact Hx.
Qed.

(** the repaired variant refuses to delete a rock type in use: then no precondition is needed *)
Theorem delete_rocktype_refusing_inv g n g' : delete_rocktype_refuses = true ->
  Inv g -> delete_rocktype g n = Ok g' -> Inv g'.
Proof.
  intros F I H. apply (delete_rocktype_inv g n g' I); [|exact H].
  unfold delete_rocktype in H. destruct (rget g n) as [j|] eqn:E.
  - rewrite F in H. cbn [andb] in H. destruct (rock_unused g n) eqn:U; [|discriminate H].
    unfold rock_unused in U. apply negb_true_iff in U. intros i Hi En.
    assert (X : existsb (fun i => str_eqb (rn g (br g i)) n) (blist g) = true).
    { apply existsb_exists. exists i. split; [exact Hi|]. apply str_eqb_eq. exact En. }
    congruence.
  - intros i Hi En. pose proof (i_rock g I i Hi) as K. rewrite En in K.
    apply (in_keys_aget str_eqb str_spec) in K. destruct K as [v K]. unfold rget in E. congruence.
Qed.

Lemma delete_rocktype_frame g n g' : delete_rocktype g n = Ok g' ->
  blist g' = blist g /\ rn g' = rn g /\ br g' = br g.
Proof.
  unfold delete_rocktype. destruct (rget g n) as [j|]; [|intro H; inversion H; auto].
  intro H. norefuse H. destruct (mem j (rlist g)); [|discriminate]. inversion H; subst; gs. auto.
Qed.

Lemma delete_rocktypes_inv ns : forall g g', Inv g -> (forall n, In n ns -> rock_not_used g n) ->
  delete_rocktypes g ns = Ok g' -> Inv g'.
Proof.
  induction ns as [|n r IH]; cbn [delete_rocktypes]; intros g g' I U H; [inversion H; subst; exact I|].
  destruct (delete_rocktype g n) as [g1|e] eqn:E; cbn [bind] in H; [|discriminate].
  apply (IH g1 g'); [| |exact H].
  - apply (delete_rocktype_inv g n); auto. apply U. left; reflexivity.
  - destruct (delete_rocktype_frame _ _ _ E) as [Eb [Er Ebr]].
    intros n' Hn' i Hi. rewrite Eb in Hi. rewrite Er, Ebr. apply (U n'); [right; exact Hn'|exact Hi].
Qed.

Lemma rock_unused_spec g n : rock_unused g n = true -> rock_not_used g n.
Proof.
  unfold rock_unused, rock_not_used. intros H i Hi E.
  apply negb_true_iff in H. assert (X : existsb (fun i => str_eqb (rn g (br g i)) n) (blist g) = true).
  { apply existsb_exists. exists i. split; [exact Hi|]. apply str_eqb_eq. exact E. }
  congruence.
Qed.

(** [clean_rocktypes()]: no precondition *)
Theorem clean_rocktypes_inv g g' : Inv g -> clean_rocktypes g = Ok g' -> Inv g'.
Proof.
  intros I H. unfold clean_rocktypes in H. eapply delete_rocktypes_inv; [exact I| |exact H].
  intros n Hn. apply in_map_iff in Hn. destruct Hn as [j [<- Hj]]. apply filter_In in Hj. destruct Hj as [_ Hj].
  apply rock_unused_spec. exact Hj.
Qed.

(** [rename_rocktype(a, b)]: no block may hold a rock type object named [a] other than the registered one *)
Definition no_stale_rock (g : grid) (a : str) : Prop :=
  forall i, In i (blist g) -> rn g (br g i) = a -> rget g a = Some (br g i).

Theorem rename_rocktype_inv g a b g' : Inv g -> no_stale_rock g a -> rename_rocktype g a b = Ok g' -> Inv g'.
Proof.
  intros I S H. unfold rename_rocktype in H.
  destruct (rget g a) as [j|] eqn:Ea; [|discriminate]. destruct (rget g b) eqn:Eb; [discriminate|].
  inversion H; subst g'; clear H. unfold rget in *.
  assert (Hb : ~ In b (map fst (adel str_eqb (rdict g) a))).
  { intro X. apply keys_adel_incl in X. apply (aget_None_notin str_eqb str_spec) in Eb. contradiction. }
  constructor; try apply I; gs.
  - apply (DL_rename str_eqb str_spec (rn g)); auto; [apply I|apply fget_fset_eq|].
    intros i Ni. unfold rn. apply fget_fset_neq. exact Ni.
  - intros i Hi. apply (in_keys_aset str_eqb str_spec). rewrite fget_fset.
    destruct (Pos.eqb_spec (br g i) j) as [Ej|Nj]; [left; reflexivity|right].
    apply (in_keys_adel str_eqb str_spec); [apply I|]. split; [|apply (i_rock g I); exact Hi].
    intro En. apply Nj. specialize (S i Hi En). unfold rget in S. congruence.
Qed.
