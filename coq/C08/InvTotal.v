(** C08 -- WHEN an edit of a consistent grid is refused, exactly.  The preservation theorems speak of calls that
    return; these say which calls do: on a consistent grid add_rocktype and clean_rocktypes always return,
    delete_rocktype / add_block / add_connection / rename_rocktype raise exactly the exception, and exactly in the
    situation, that the Python text shows -- the internal [list.index] / [list.remove] / [set.remove] /
    dictionary look-ups of the methods can not fail, for that is what the consistency of the grid gives.
    Every statement holds for each setting of the three variant flags (Gen/GenFlags.v). *)
From Coq Require Import Ascii String List Bool PArith NArith FMapPositive Permutation Lia.
From PTBase Require Import Exn PyStr.
From Gen Require Import GenFlags.
From P Require Import Assoc GridEdit GridLemmas Inv InvRock InvBlock InvConnAdd InvRename.
Import ListNotations.
Open Scope list_scope.

(** ** rock types *)
Lemma add_rocktype_total g n : Inv g -> exists g', add_rocktype g n = Ok g'.
Proof.
  intro I. pose proof (inv_new_rock g n I) as I'.
  unfold add_rocktype, add_rocktype_obj.
  destruct (rget (new_rock g n) (rn (new_rock g n) (next g))) as [old|] eqn:E; [|eauto].
  destruct (inv_rget _ _ _ I' E) as [Hin _].
  rewrite (proj2 (mem_In _ _) Hin). eauto.
Qed.

Definition rock_in_use (g : grid) (n : str) : Prop := exists i, In i (blist g) /\ rn g (br g i) = n.

Lemma rock_unused_false g n : rock_unused g n = false -> rock_in_use g n.
Proof.
  unfold rock_unused. intro H. apply negb_false_iff in H. apply existsb_exists in H.
  destruct H as [i [Hi E]]. exists i. split; [exact Hi|]. apply str_eqb_eq. exact E.
Qed.
Lemma rock_unused_true g n : rock_unused g n = true -> ~ rock_in_use g n.
Proof. intros H [i [Hi E]]. exact (rock_unused_spec g n H i Hi E). Qed.

Lemma delete_rocktype_raises_iff g n e : Inv g ->
  (delete_rocktype g n = Raise e <-> delete_rocktype_refuses = true /\ e = PlainException /\ rock_in_use g n).
Proof.
  intro I. unfold delete_rocktype. destruct (rget g n) as [j|] eqn:E.
  - destruct (inv_rget g n j I E) as [Hj _]. rewrite (proj2 (mem_In _ _) Hj).
    destruct delete_rocktype_refuses; cbn [andb].
    + destruct (rock_unused g n) eqn:U; cbn [negb].
      * split; [discriminate|]. intros [_ [_ K]]. exfalso. exact (rock_unused_true g n U K).
      * split.
        -- intro H. inversion H. split; [reflexivity|]. split; [reflexivity|]. apply rock_unused_false. exact U.
        -- intros [_ [-> _]]. reflexivity.
    + split; [discriminate|]. intros [K _]. discriminate K.
  - split; [discriminate|]. intros [_ [_ [i [Hi En]]]]. exfalso.
    pose proof (i_rock g I i Hi) as K. rewrite En in K.
    apply (in_keys_aget str_eqb str_spec) in K. destruct K as [v K]. unfold rget in E. congruence.
Qed.

Lemma rock_unused_frame g g' n : blist g' = blist g -> rn g' = rn g -> br g' = br g -> rock_unused g' n = rock_unused g n.
Proof. intros Eb Er Ebr. unfold rock_unused. rewrite Eb, Er, Ebr. reflexivity. Qed.

Lemma delete_rocktypes_total ns : forall g, Inv g -> (forall n, In n ns -> rock_unused g n = true) ->
  exists g', delete_rocktypes g ns = Ok g'.
Proof.
  induction ns as [|n r IH]; cbn [delete_rocktypes]; intros g I U; [eauto|].
  assert (Un : rock_unused g n = true) by (apply U; left; reflexivity).
  destruct (delete_rocktype g n) as [g1|e] eqn:E; cbn [bind].
  - destruct (delete_rocktype_frame _ _ _ E) as [Eb [Er Ebr]].
    apply IH.
    + apply (delete_rocktype_inv g n g1 I); [apply rock_unused_spec; exact Un|exact E].
    + intros n' Hn'. rewrite (rock_unused_frame g g1 n' Eb Er Ebr). apply U. right. exact Hn'.
  - exfalso. apply (delete_rocktype_raises_iff g n e I) in E. destruct E as [_ [_ K]].
    exact (rock_unused_true g n Un K).
Qed.

Lemma clean_rocktypes_total g : Inv g -> exists g', clean_rocktypes g = Ok g'.
Proof.
  intro I. unfold clean_rocktypes. apply delete_rocktypes_total; [exact I|].
  intros n Hn. apply in_map_iff in Hn. destruct Hn as [j [<- Hj]]. apply filter_In in Hj. exact (proj2 Hj).
Qed.

(** rename_rocktype(a, b): refused exactly when [a] is not registered or [b] is (no consistency needed) *)
Lemma rename_rocktype_raises_iff g a b e :
  rename_rocktype g a b = Raise e <-> e = PlainException /\ (rget g a = None \/ rget g b <> None).
Proof.
  unfold rename_rocktype. destruct (rget g a) as [j|]; [destruct (rget g b) as [j'|]|].
  - split; [intro H; inversion H; split; [reflexivity|right; discriminate]|intros [-> _]; reflexivity].
  - split; [discriminate|]. intros [_ [K|K]]; [discriminate K|exfalso; apply K; reflexivity].
  - split; [intro H; inversion H; split; [reflexivity|left; reflexivity]|intros [-> _]; reflexivity].
Qed.

(** ** add_connection(n0, n1): refused exactly when one of the two names is not a block of the grid (KeyError) *)
Lemma add_connection_obj_total g j : Inv g -> exists g', add_connection_obj g j = Ok g'.
Proof.
  intro I. unfold add_connection_obj. destruct (cget g (ckey g j)) as [old|] eqn:E; cbn [bind]; [|eauto].
  destruct (inv_cget _ _ _ I E) as [Hin _]. rewrite (proj2 (mem_In _ _) Hin). cbn [bind]. eauto.
Qed.
Lemma add_connection_raises_iff g n0 n1 e : Inv g ->
  (add_connection g n0 n1 = Raise e <-> e = KeyError /\ (bget g n0 = None \/ bget g n1 = None)).
Proof.
  intro I. unfold add_connection. destruct (bget g n0) as [i0|]; [destruct (bget g n1) as [i1|]|].
  - destruct (add_connection_obj_total (new_conn g i0 i1) (next g) (inv_new_conn g i0 i1 I)) as [g' ->].
    split; [discriminate|]. intros [_ [K|K]]; discriminate K.
  - split; [intro H; inversion H; auto|intros [-> _]; reflexivity].
  - split; [intro H; inversion H; auto|intros [-> _]; reflexivity].
Qed.

(** ** add_block(n, rk): KeyError exactly when the rock type name is not registered; the repaired variant
    ([add_block_refuses]) also refuses, with a plain Exception, exactly the replacement of a block that has connections *)
Definition replaces_connected (g : grid) (n : str) : Prop := exists old, bget g n = Some old /\ cn g old <> [].
Lemma add_block_raises_iff g n rk e : Inv g ->
  (add_block g n rk = Raise e <->
   (e = KeyError /\ rget g rk = None) \/
   (e = PlainException /\ add_block_refuses = true /\ rget g rk <> None /\ replaces_connected g n)).
Proof.
  intro I. unfold add_block. destruct (rget g rk) as [r|] eqn:Er.
  2:{ split; [intro H; inversion H; left; auto|]. intros [[-> _]|[_ [_ [K _]]]]; [reflexivity|exfalso; apply K; reflexivity]. }
  pose proof (inv_new_block g n r I) as I'.
  assert (Ebn : bn (new_block g n r) (next g) = n) by (unfold new_block, bn; gs; apply fget_fset_eq).
  assert (Ebg : bget (new_block g n r) = bget g) by (unfold new_block, bget; gs; reflexivity).
  assert (Ebl : blist (new_block g n r) = blist g) by (unfold new_block; gs; reflexivity).
  unfold add_block_obj. rewrite Ebn, Ebg. unfold replaces_connected.
  destruct (bget g n) as [old|] eqn:Eb.
  2:{ split; [discriminate|]. intros [[_ K]|[_ [_ [_ [o [K _]]]]]]; discriminate K. }
  destruct (inv_bget g n old I Eb) as [Hold _].
  assert (Ne : Pos.eqb old (next g) = false).
  { apply Pos.eqb_neq. intros ->. exact (inv_next_notin_b g I Hold). }
  assert (Ecn : cn (new_block g n r) old = cn g old).
  { unfold new_block, cn. gs. apply fget_fset_neq. apply Pos.eqb_neq. exact Ne. }
  rewrite Ne, Ecn, Ebl, (proj2 (mem_In _ _) Hold). cbn [negb andb].
  destruct add_block_refuses; cbn [andb].
  - destruct (cn g old) as [|k ks] eqn:Ec; cbn [negb].
    + split; [discriminate|]. intros [[_ K]|[_ [_ [_ [o [Ho K]]]]]]; [discriminate K|].
      inversion Ho; subst o. exfalso. apply K. exact Ec.
    + split.
      * intro H. inversion H. right. split; [reflexivity|]. split; [reflexivity|]. split; [discriminate|].
        exists old. split; [reflexivity|]. rewrite Ec. discriminate.
      * intros [[_ K]|[-> _]]; [discriminate K|reflexivity].
  - split; [discriminate|]. intros [[_ K]|[_ [K _]]]; discriminate K.
Qed.

(** ** demote_block(names): refused exactly when one of the names is not a block of the grid ([pop(None)]: TypeError);
    a call that returns moved blocks to the end of the list and did nothing else: no block is lost, the lookup is untouched *)
Lemma demote_block_raises_iff ns : forall g e, Inv g ->
  (demote_block g ns = Raise e <-> e = TypeError /\ exists n, In n ns /\ bget g n = None).
Proof.
  induction ns as [|n r IH]; cbn [demote_block]; intros g e I.
  - split; [discriminate|]. intros [_ [n [[] _]]].
  - destruct (bget g n) as [i|] eqn:E.
    + destruct (inv_bget g n i I E) as [Hi _]. rewrite (proj2 (mem_In _ _) Hi).
      assert (I1 : Inv (set_blist g (lremove (blist g) i ++ [i]))).
      { apply inv_perm_blist; [exact I|]. apply Permutation_lremove_snoc. exact Hi. }
      rewrite (IH _ e I1).
      assert (Eg : bget (set_blist g (lremove (blist g) i ++ [i])) = bget g) by (unfold bget; gs; reflexivity).
      rewrite Eg. split; intros [He [n' [Hn' K]]]; (split; [exact He|]).
      * exists n'. split; [right; exact Hn'|exact K].
      * destruct Hn' as [<-|Hn']; [congruence|]. exists n'. split; [exact Hn'|exact K].
    + split.
      * intro H. inversion H. split; [reflexivity|]. exists n. split; [left; reflexivity|exact E].
      * intros [-> _]. reflexivity.
Qed.

Lemma demote_block_keeps_blocks ns : forall g g', demote_block g ns = Ok g' ->
  Permutation (blist g) (blist g') /\ bdict g' = bdict g /\ bn g' = bn g.
Proof.
  induction ns as [|n r IH]; cbn [demote_block]; intros g g' H.
  - inversion H; subst. auto.
  - destruct (bget g n) as [i|]; [|discriminate]. destruct (mem i (blist g)) eqn:M; [|discriminate].
    apply IH in H. gs in H. destruct H as [P [Ed En]]. split; [|split; [exact Ed|exact En]].
    eapply Permutation_trans; [|exact P]. apply Permutation_lremove_snoc. apply mem_In. exact M.
Qed.

(** ** rename_blocks(blockmap) in the default call form: refused exactly when [fix_block_mapping] is (a name too short
    for [name[2]] / [name[4]]: IndexError; a key fixed twice: KeyError), with the same exception; the renaming itself
    never raises on a consistent grid *)
Lemma rename_blocks_fix_raises_iff g m e : Inv g ->
  (rename_blocks_fix g m = Raise e <-> fix_block_mapping m = Raise e).
Proof.
  intro I. unfold rename_blocks_fix. destruct (fix_block_mapping m) as [m'|e']; cbn [bind]; [|split; intro H; inversion H; reflexivity].
  destruct (rename_blocks_total g m' I) as [g' ->]. split; discriminate.
Qed.
(** deleting a name that is not there is not an error and changes nothing *)
Lemma delete_absent_noop g : (forall n, rget g n = None -> delete_rocktype g n = Ok g) /\
  (forall n, bget g n = None -> delete_block g n = Ok g) /\ (forall k, cget g k = None -> delete_connection g k = Ok g).
Proof.
  split; [|split]; intros x H; [unfold delete_rocktype|unfold delete_block|unfold delete_connection]; rewrite H; reflexivity.
Qed.
