(** C08 -- a boolean test of the invariant, sound for [Inv]: concrete grids are shown consistent by
    computation ([inv_b g = true] by [vm_compute]) instead of by a hand proof of the ten clauses. *)
From Coq Require Import Ascii String List Bool PArith NArith FMapPositive Permutation Lia.
From PTBase Require Import Exn PyStr.
From P Require Import Assoc GridEdit GridLemmas Inv.
Import ListNotations.
Open Scope list_scope.

Section Dec.
  Context {K : Type} (eqb : K -> K -> bool).
  Hypothesis eqb_spec : forall a b, reflect (a = b) (eqb a b).
  Fixpoint nodup_b (l : list K) : bool :=
    match l with [] => true | a :: r => negb (existsb (eqb a) r) && nodup_b r end.
  Lemma nodup_b_sound l : nodup_b l = true -> NoDup l.
  Proof.
    induction l as [|a r IH]; cbn; intro H; [constructor|]. apply andb_true_iff in H. destruct H as [H1 H2].
    constructor; [|apply IH; exact H2]. intro X. apply negb_true_iff in H1.
    assert (Y : existsb (eqb a) r = true).
    { apply existsb_exists. exists a. split; [exact X|]. destruct (eqb_spec a a); congruence. }
    congruence.
  Qed.
  Lemma eqb_refl_true a : eqb a a = true.
  Proof. destruct (eqb_spec a a); congruence. Qed.
  Lemma nodup_b_complete l : NoDup l -> nodup_b l = true.
  Proof.
    induction 1 as [|a r Ha ND IH]; cbn; [reflexivity|]. rewrite IH, andb_true_r. apply negb_true_iff.
    destruct (existsb (eqb a) r) eqn:E; [|reflexivity]. exfalso. apply existsb_exists in E. destruct E as [y [Hy Ey]].
    destruct (eqb_spec a y); [subst; contradiction|discriminate].
  Qed.
End Dec.

Lemma pos_spec a b : reflect (a = b) (Pos.eqb a b).
Proof. apply Pos.eqb_spec. Qed.

Section DecDL.
  Context {K : Type} (eqb : K -> K -> bool).
  Hypothesis eqb_spec : forall a b, reflect (a = b) (eqb a b).
  Definition dl_b (name : id -> K) (l : list id) (d : list (K * id)) : bool :=
    nodup_b Pos.eqb l && nodup_b eqb (map fst d)
    && forallb (fun kv => mem (snd kv) l && eqb (name (snd kv)) (fst kv)) d
    && forallb (fun i => existsb (fun kv => eqb (fst kv) (name i) && Pos.eqb (snd kv) i) d) l.
  Lemma dl_b_sound name l d : dl_b name l d = true -> DL name l d.
  Proof.
    unfold dl_b. rewrite !andb_true_iff. intros [[[H1 H2] H3] H4]. constructor.
    - apply (nodup_b_sound Pos.eqb pos_spec). exact H1.
    - apply (nodup_b_sound eqb eqb_spec). exact H2.
    - intros k i Hin. rewrite forallb_forall in H3. specialize (H3 _ Hin). cbn in H3.
      apply andb_true_iff in H3. destruct H3 as [A B]. split; [apply mem_In; exact A|].
      destruct (eqb_spec (name i) k); congruence.
    - intros i Hin. rewrite forallb_forall in H4. specialize (H4 _ Hin). apply existsb_exists in H4.
      destruct H4 as [[k v] [Hkv E]]. cbn in E. apply andb_true_iff in E. destruct E as [A B].
      destruct (eqb_spec k (name i)); [|discriminate]. apply Pos.eqb_eq in B. subst. exact Hkv.
  Qed.
  Lemma dl_b_complete name l d : DL name l d -> dl_b name l d = true.
  Proof.
    intro D. unfold dl_b. rewrite !andb_true_iff. repeat split.
    - apply (nodup_b_complete Pos.eqb pos_spec). apply D.
    - apply (nodup_b_complete eqb eqb_spec). apply D.
    - apply forallb_forall. intros [k i] Hin. cbn. destruct (dl_sound _ _ _ D k i Hin) as [A B].
      apply andb_true_iff. split; [apply mem_In; exact A|]. rewrite B. apply (eqb_refl_true eqb eqb_spec).
    - apply forallb_forall. intros i Hin. apply existsb_exists. exists (name i, i). split; [apply D; exact Hin|]. cbn.
      rewrite (eqb_refl_true eqb eqb_spec), Pos.eqb_refl. reflexivity.
  Qed.
End DecDL.

Definition mentions (g : grid) (j i : id) : bool := Pos.eqb (c0 g j) i || Pos.eqb (c1 g j) i.
Definition inv_b (g : grid) : bool :=
  dl_b str_eqb (rn g) (rlist g) (rdict g) && dl_b str_eqb (bn g) (blist g) (bdict g) && dl_b key2_eqb (ckey g) (clist g) (cdict g)
  && forallb (fun j => mem (c0 g j) (blist g) && mem (c1 g j) (blist g)) (clist g)
  && forallb (fun i => forallb (fun k => existsb (fun j => key2_eqb (ckey g j) k && mentions g j i) (clist g)) (cn g i)
                       && forallb (fun j => negb (mentions g j i) || set_mem (ckey g j) (cn g i)) (clist g)) (blist g)
  && forallb (fun i => smem (rn g (br g i)) (map fst (rdict g))) (blist g)
  && forallb (fun i => Pos.ltb (br g i) (next g)) (blist g)
  && forallb (fun j => Pos.ltb j (next g)) (rlist g)
  && forallb (fun i => Pos.ltb i (next g)) (blist g)
  && forallb (fun j => Pos.ltb j (next g)) (clist g).

Lemma mentions_spec g j i : mentions g j i = true <-> (c0 g j = i \/ c1 g j = i).
Proof. unfold mentions. rewrite orb_true_iff, !Pos.eqb_eq. tauto. Qed.
Lemma smem_In n l : smem n l = true <-> In n l.
Proof.
  unfold smem. rewrite existsb_exists. split.
  - intros [y [H E]]. apply str_eqb_eq in E. subst. exact H.
  - intro H. exists n. split; [exact H|]. apply str_eqb_eq. reflexivity.
Qed.

Theorem inv_b_sound g : inv_b g = true -> Inv g.
Proof.
  unfold inv_b. rewrite !andb_true_iff. intros [[[[[[[[[H1 H2] H3] H4] H5] H6] H7] H8] H9] H10].
  rewrite forallb_forall in H4, H5, H6, H7, H8, H9, H10.
  constructor.
  - apply (dl_b_sound str_eqb str_spec). exact H1.
  - apply (dl_b_sound str_eqb str_spec). exact H2.
  - apply (dl_b_sound key2_eqb key2_spec). exact H3.
  - intros j Hj. specialize (H4 j Hj). apply andb_true_iff in H4. rewrite !mem_In in H4. exact H4.
  - intros i Hi k. specialize (H5 i Hi). apply andb_true_iff in H5. destruct H5 as [A B].
    rewrite forallb_forall in A, B. split.
    + intro Hk. specialize (A k Hk). apply existsb_exists in A. destruct A as [j [Hj E]].
      apply andb_true_iff in E. destruct E as [E1 E2]. exists j. split; [exact Hj|].
      split; [destruct (key2_spec (ckey g j) k); congruence|apply mentions_spec; exact E2].
    + intros [j [Hj [Kj Mj]]]. specialize (B j Hj). apply mentions_spec in Mj. rewrite Mj in B. cbn in B.
      apply set_mem_In in B. rewrite <- Kj. exact B.
  - intros i Hi. apply smem_In. apply H6. exact Hi.
  - intros i Hi. apply Pos.ltb_lt. apply H7. exact Hi.
  - intros j Hj. apply Pos.ltb_lt. apply H8. exact Hj.
  - intros i Hi. apply Pos.ltb_lt. apply H9. exact Hi.
  - intros j Hj. apply Pos.ltb_lt. apply H10. exact Hj.
Qed.

(** ... and complete: the test decides the invariant *)
Theorem inv_b_complete g : Inv g -> inv_b g = true.
Proof.
  intro I. unfold inv_b. rewrite !andb_true_iff. repeat split.
  - apply (dl_b_complete str_eqb str_spec). apply I.
  - apply (dl_b_complete str_eqb str_spec). apply I.
  - apply (dl_b_complete key2_eqb key2_spec). apply I.
  - apply forallb_forall. intros j Hj. destruct (i_ends g I j Hj) as [A B]. apply andb_true_iff. rewrite !mem_In. auto.
  - apply forallb_forall. intros i Hi. apply andb_true_iff. split; apply forallb_forall.
    + intros k Hk. destruct (proj1 (i_back g I i Hi k) Hk) as [j [Hj [Kj Mj]]]. apply existsb_exists. exists j. split; [exact Hj|].
      apply andb_true_iff. split; [destruct (key2_spec (ckey g j) k); congruence|apply mentions_spec; exact Mj].
    + intros j Hj. destruct (mentions g j i) eqn:M; [|reflexivity]. cbn. apply set_mem_In. apply (i_back g I i Hi).
      exists j. split; [exact Hj|]. split; [reflexivity|apply mentions_spec; exact M].
  - apply forallb_forall. intros i Hi. apply smem_In. apply (i_rock g I). exact Hi.
  - apply forallb_forall. intros i Hi. apply Pos.ltb_lt. apply (i_brfresh g I). exact Hi.
  - apply forallb_forall. intros j Hj. apply Pos.ltb_lt. apply (i_rfresh g I). exact Hj.
  - apply forallb_forall. intros i Hi. apply Pos.ltb_lt. apply (i_bfresh g I). exact Hi.
  - apply forallb_forall. intros j Hj. apply Pos.ltb_lt. apply (i_cfresh g I). exact Hj.
Qed.
Corollary inv_b_iff g : inv_b g = true <-> Inv g.
Proof. split; [apply inv_b_sound|apply inv_b_complete]. Qed.
