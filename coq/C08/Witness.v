(** C08 -- concrete states: the preconditions of [step_inv] cannot be dropped (the faithful model
    carries the three listed findings of t2grids.py), and the hypotheses of the theorems are met
    by non-trivial grids. *)
From Coq Require Import Ascii String List Bool PArith NArith FMapPositive Permutation Lia.
From PTBase Require Import Exn PyStr.
From P Require Import Assoc GridEdit GridLemmas Inv InvRock InvBlock InvConn InvRename InvReorder Reach.
Import ListNotations.
Open Scope list_scope.

Definition r1 : str := s2l "rock1".
Definition r3 : str := s2l "rock3".
Definition a1 : str := s2l "  a 1".
Definition b1 : str := s2l "  b 1".
Definition c1n : str := s2l "  c 1".
Definition result (r : res grid) : grid := match r with Ok g => g | Raise _ => empty end.

(** one step of a concrete run inside a [pre_all] goal *)
Ltac one_step :=
  match goal with
  | |- _ /\ _ => split
  | |- forall g, step _ _ = Ok g -> _ =>
      let g := fresh "g" in let H := fresh "H" in
      intros g H; vm_compute in H; inversion H; subst g; clear H
  | |- True => exact I
  | |- replaced_unconnected _ _ => let o := fresh in let H := fresh in intros o H; vm_compute in H; try discriminate H
  end.

(** two connected blocks *)
Definition ops_pair : list op := [AddRock r1; AddBlock a1 r1; AddBlock b1 r1; AddConn a1 b1].
Definition g_pair : grid := result (run empty ops_pair).
Lemma g_pair_run : run empty ops_pair = Ok g_pair.
Proof. vm_compute. reflexivity. Qed.
Lemma g_pair_inv : Inv g_pair.
Proof.
  apply (inv_reachable_init ops_pair); [|exact g_pair_run].
  cbn [pre_all ops_pair pre]. repeat one_step.
Qed.

(** finding add_block:replaces-connected-block *)
Theorem add_block_replace_refuted :
  exists g n rk g', Inv g /\ add_block g n rk = Ok g' /\ ~ Inv g'.
Proof.
  exists g_pair, a1, r1, (result (add_block g_pair a1 r1)).
  split; [exact g_pair_inv|]. split; [vm_compute; reflexivity|].
  intro X. pose proof (i_ends _ X 4%positive) as K. vm_compute in K.
  destruct (K (or_introl eq_refl)) as [[E|[E|[]]] _]; discriminate E.
Qed.

(** finding delete_rocktype:rocktype-in-use *)
Theorem delete_rocktype_in_use_refuted :
  exists g n g', Inv g /\ delete_rocktype g n = Ok g' /\ ~ Inv g'.
Proof.
  exists g_pair, r1, (result (delete_rocktype g_pair r1)).
  split; [exact g_pair_inv|]. split; [vm_compute; reflexivity|].
  intro X. pose proof (i_rock _ X 2%positive) as K. vm_compute in K.
  destruct (K (or_introl eq_refl)).
Qed.

(** finding rename_rocktype:stale-rocktype-object: add_rocktype replaced the rock type of block a *)
Definition ops_stale : list op := [AddRock r1; AddBlock a1 r1; AddRock r1].
Definition g_stale : grid := result (run empty ops_stale).
Lemma g_stale_inv : Inv g_stale.
Proof.
  apply (inv_reachable_init ops_stale); [|vm_compute; reflexivity].
  cbn [pre_all ops_stale pre]. repeat one_step.
Qed.
Theorem rename_rocktype_stale_refuted :
  exists g a b g', Inv g /\ rename_rocktype g a b = Ok g' /\ ~ Inv g'.
Proof.
  exists g_stale, r1, r3, (result (rename_rocktype g_stale r1 r3)).
  split; [exact g_stale_inv|]. split; [vm_compute; reflexivity|].
  intro X. pose proof (i_rock _ X 2%positive) as K. vm_compute in K.
  destruct (K (or_introl eq_refl)) as [E|[]]. discriminate E.
Qed.

(** the repaired rename_blocks: a swap on the connected pair keeps both blocks (it used to drop one) *)
Example rename_swap_keeps_blocks :
  exists g', rename_blocks g_pair [(a1, b1); (b1, a1)] = Ok g' /\
             bget g' a1 = Some 3%positive /\ bget g' b1 = Some 2%positive /\ map fst (cdict g') = [(b1, a1)].
Proof. eexists. split; [vm_compute; reflexivity|]. vm_compute. auto. Qed.

(** the hypotheses of [rename_bijective_total] are met by the swap on [g_pair] *)
Example swap_is_injective : inj_on_blocks g_pair [(a1, b1); (b1, a1)].
Proof.
  intros i i' Hi Hi' E. vm_compute in Hi, Hi'.
  destruct Hi as [<-|[<-|[]]]; destruct Hi' as [<-|[<-|[]]]; try reflexivity; vm_compute in E; discriminate E.
Qed.
