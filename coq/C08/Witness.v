(** C08 -- concrete states: the preconditions of [step_inv] cannot be dropped (the faithful model
    carries the three listed findings of t2grids.py), and the hypotheses of the theorems are met
    by non-trivial grids. *)
From Coq Require Import Ascii String List Bool PArith NArith FMapPositive Permutation Lia.
From PTBase Require Import Exn PyStr.
From Gen Require Import GenFlags.
From P Require Import Assoc GridEdit GridLemmas Inv InvRock InvBlock InvConn InvRename InvReorder InvMinc InvAdd InvEmbed InvDec InvAfter Reach.
Import ListNotations.
Open Scope list_scope.

Definition r1 : str := s2l "rock1".
Definition r3 : str := s2l "rock3".
Definition a1 : str := s2l "  a 1".
Definition b1 : str := s2l "  b 1".
Definition c1n : str := s2l "  c 1".
Definition result (r : res grid) : grid := match r with Ok g => g | Raise _ => empty end.

(** one step of a concrete run inside a [pre_all] goal *)
Ltac one_step :=
  match goal with
  | |- _ /\ _ => split
  | |- forall g, step _ _ = Ok g -> _ =>
      let g := fresh "g" in let H := fresh "H" in
      intros g H; vm_compute in H; inversion H; subst g; clear H
  | |- True => exact I
  | |- replaced_unconnected _ _ => let o := fresh in let H := fresh in intros o H; vm_compute in H; try discriminate H
  end.

(** two connected blocks *)
Definition ops_pair : list op := [AddRock r1; AddBlock a1 r1; AddBlock b1 r1; AddConn a1 b1].
Definition g_pair : grid := result (run empty ops_pair).
Lemma g_pair_run : run empty ops_pair = Ok g_pair.
Proof. vm_compute. reflexivity. Qed.
Lemma g_pair_inv : Inv g_pair.
Proof.
  apply (inv_reachable_init ops_pair); [|exact g_pair_run].
  cbn [pre_all ops_pair pre]. repeat one_step.
Qed.

(** finding add_block:replaces-connected-block *)
Theorem add_block_replace_refuted : add_block_refuses = false ->
  exists g n rk g', Inv g /\ add_block g n rk = Ok g' /\ ~ Inv g'.
Proof.
  intro Hf. exists g_pair, a1, r1. eexists.
  split; [exact g_pair_inv|]. split; [lazy - [add_block_refuses]; rewrite Hf; reflexivity|].
  intro X. pose proof (i_ends _ X 4%positive) as K. vm_compute in K.
  destruct (K (or_introl eq_refl)) as [[E|[E|[]]] _]; discriminate E.
Qed.

(** finding delete_rocktype:rocktype-in-use *)
Theorem delete_rocktype_in_use_refuted : delete_rocktype_refuses = false ->
  exists g n g', Inv g /\ delete_rocktype g n = Ok g' /\ ~ Inv g'.
Proof.
  intro Hf. exists g_pair, r1. eexists.
  split; [exact g_pair_inv|]. split; [lazy - [delete_rocktype_refuses]; rewrite Hf; reflexivity|].
  intro X. pose proof (i_rock _ X 2%positive) as K. vm_compute in K.
  destruct (K (or_introl eq_refl)).
Qed.

(** finding rename_rocktype:stale-rocktype-object: add_rocktype replaced the rock type of block a *)
Definition ops_stale : list op := [AddRock r1; AddBlock a1 r1; AddRock r1].
Definition g_stale : grid := result (run empty ops_stale).
Lemma g_stale_inv : Inv g_stale.
Proof.
  apply (inv_reachable_init ops_stale); [|vm_compute; reflexivity].
  cbn [pre_all ops_stale pre]. repeat one_step.
Qed.
Theorem rename_rocktype_stale_refuted : add_rocktype_relinks = false ->
  exists g a b g', Inv g /\ rename_rocktype g a b = Ok g' /\ ~ Inv g'.
Proof.
  intro Hf.
  assert (E : exists g, run empty ops_stale = Ok g /\ inv_b g = true /\ exists g', rename_rocktype g r1 r3 = Ok g' /\ inv_b g' = false).
  { eexists. split; [lazy - [add_rocktype_relinks]; rewrite Hf; reflexivity|]. split; [vm_compute; reflexivity|].
    eexists. split; vm_compute; reflexivity. }
  destruct E as [g [_ [Ig [g' [Hr Ng]]]]]. exists g, r1, r3, g'. split; [apply inv_b_sound; exact Ig|]. split; [exact Hr|].
  intro X. apply inv_b_complete in X. congruence.
Qed.

(** the repaired rename_blocks: a swap on the connected pair keeps both blocks (it used to drop one) *)
Example rename_swap_keeps_blocks :
  exists g', rename_blocks g_pair [(a1, b1); (b1, a1)] = Ok g' /\
             bget g' a1 = Some 3%positive /\ bget g' b1 = Some 2%positive /\ map fst (cdict g') = [(b1, a1)].
Proof. eexists. split; [vm_compute; reflexivity|]. vm_compute. auto. Qed.

(** the hypotheses of [rename_bijective_total] are met by the swap on [g_pair] *)
Example swap_is_injective : inj_on_blocks g_pair [(a1, b1); (b1, a1)].
Proof.
  intros i i' Hi Hi' E. vm_compute in Hi, Hi'.
  destruct Hi as [<-|[<-|[]]]; destruct Hi' as [<-|[<-|[]]]; try reflexivity; vm_compute in E; discriminate E.
Qed.

(** ** grids that share a heap: minc, __add__, embed *)
Definition d1n : str := s2l "  d 1".
Definition a3n : str := s2l "3 a 1".
(** naming functions in the style of the defaults: matrix block ['1' + name[1:]], rock type ['X' + name[1:]] *)
Definition mb1 (n : str) (m : nat) : str := match m with O => n | _ => "1"%char :: tl n end.
Definition mr1 (n : str) (m : nat) : str := match m with O => n | _ => "X"%char :: tl n end.

(** a second grid (blocks c and d, connected) built next to [g_pair], from an empty [t2grid()] *)
Definition g_cd : grid := result (run (with_view g_pair view0) [AddRock r1; AddBlock c1n r1; AddBlock d1n r1; AddConn c1n d1n]).
Definition h_cd : view := view_of g_cd.
(** the first grid, seen after the second one was built *)
Definition g_ab : grid := with_view g_cd (view_of g_pair).
Lemma g_ab_inv : Inv g_ab.
Proof. apply inv_b_sound. vm_compute. reflexivity. Qed.
Lemma h_cd_inv : Inv (with_view g_ab h_cd).
Proof. apply inv_b_sound. vm_compute. reflexivity. Qed.

(** the hypotheses of [grid_add_inv] / [pre _ (AddGrid _ _)] are met by two disjoint connected pairs;
    the sum holds all four blocks and both connections *)
Example add_disjoint_pre : pre g_ab (AddGrid h_cd false).
Proof. split; [exact h_cd_inv|]. apply same_name_replaced, common_name_false. vm_compute. reflexivity. Qed.
Example add_disjoint_result :
  exists r, step g_ab (AddGrid h_cd false) = Ok r /\ map (bn r) (blist r) = [a1; b1; c1n; d1n] /\ length (clist r) = 2%nat.
Proof. eexists. split; [vm_compute; reflexivity|]. vm_compute. auto. Qed.
(** ... and by a grid added to itself (every block name is common, every block is shared) *)
Example add_self_pre : pre g_pair (AddGrid (view_of g_pair) false).
Proof. split; [rewrite with_view_of; exact g_pair_inv|apply same_name_replaced, same_name_self; exact g_pair_inv]. Qed.

(** finding add_block:replaces-connected-block through [__add__]: the other grid has a block named like
    a connected block of this one; the sum keeps the connection but not the block it joins *)
Definition g_a2 : grid := result (run (with_view g_pair view0) [AddRock r1; AddBlock a1 r1]).
Theorem grid_add_overlap_refuted : add_block_refuses = false ->
  exists g h r, Inv g /\ Inv (with_view g h) /\ grid_add g (view_of g) h = Ok r /\ ~ Inv r.
Proof.
  intro Hf. exists (with_view g_a2 (view_of g_pair)), (view_of g_a2). eexists.
  split; [apply inv_b_sound; vm_compute; reflexivity|]. split; [apply inv_b_sound; vm_compute; reflexivity|].
  split; [lazy - [add_block_refuses]; rewrite Hf; reflexivity|].
  intro X. pose proof (i_ends _ X 4%positive) as K. vm_compute in K.
  destruct (K (or_introl eq_refl)) as [[E|[E|[]]] _]; discriminate E.
Qed.

(** the same two grids added the other way round: now the block that is replaced (the lone block a of the other grid)
    has no connections; the precondition holds and the sum is the pair *)
Example add_replacing_unconnected_pre : pre (with_view g_a2 (view_of g_pair)) (AddGrid (view_of g_a2) true).
Proof.
  split; [apply inv_b_sound; vm_compute; reflexivity|].
  intros i i' Hi Hi' E. vm_compute in Hi. destruct Hi as [<-|[]]. right. vm_compute. reflexivity.
Qed.
Example add_replacing_unconnected_result :
  exists r, step (with_view g_a2 (view_of g_pair)) (AddGrid (view_of g_a2) true) = Ok r /\ blist r = [2; 3]%positive /\ inv_b r = true.
Proof. eexists. split; [vm_compute; reflexivity|]. vm_compute. auto. Qed.

(** minc refuses two fracture blocks that generate the same matrix block name (and a name already in the grid) *)
Example minc_colliding_matrix_names_refused :
  exists g, run empty [AddRock r1; AddBlock a1 r1; AddBlock a3n r1] = Ok g /\
            minc mb1 mr1 1 [] [] g = Raise PlainException /\ minc mb1 mr1 1 [a1] [] g <> Raise PlainException.
Proof. eexists. split; [vm_compute; reflexivity|]. split; [vm_compute; reflexivity|]. vm_compute. discriminate. Qed.

(** a sequence that mixes the three with ordinary edits meets [pre_all]: MINC on the pair, the other pair
    added, a swap rename across the two, a block deleted, then the result embedded ... into nothing new
    (an empty sub-grid), with a connection between two of its own blocks *)
Ltac grid_step :=
  match goal with
  | |- _ /\ _ => split
  | |- forall g, step _ _ = Ok g -> _ =>
      let g := fresh "g" in let H := fresh "H" in
      intros g H; vm_compute in H; inversion H; subst g; clear H
  | |- True => exact I
  | |- Inv _ => apply inv_b_sound; vm_compute; reflexivity
  | |- replaced_blocks_unconnected _ _ _ => apply same_name_replaced, common_name_false; vm_compute; reflexivity
  | |- inj_on_blocks _ _ => let i := fresh in let i' := fresh in let Hi := fresh in let Hi' := fresh in let E := fresh in
      intros i i' Hi Hi' E; vm_compute in Hi, Hi';
      repeat (destruct Hi as [<-|Hi]; [|]); try contradiction;
      repeat (destruct Hi' as [<-|Hi']; [|]); try contradiction; try reflexivity; vm_compute in E; discriminate E
  end.
Definition ops_mix : list op :=
  [Minc mb1 mr1 1 [] []; AddGrid h_cd false; Rename [(a1, c1n); (c1n, a1)]; DelBlock b1; Embed view0 2%positive 7%positive true].
Example mixed_sequence_pre : pre_all g_ab ops_mix.
Proof. cbn [pre_all ops_mix pre]. repeat grid_step. Qed.
Example mixed_sequence_runs : exists g', run g_ab ops_mix = Ok g' /\ length (blist g') = 5%nat /\ length (clist g') = 3%nat.
Proof. eexists. split; [vm_compute; reflexivity|]. vm_compute. auto. Qed.

(** ** rename_blocks with the default fix_blocknames: a map written in the (a3, i2) spelling of TOUGH2 *)
Definition ab101 : str := s2l "ab101".
Definition ab102 : str := s2l "ab102".
Definition g_fix : grid := result (run empty [AddRock r1; AddBlock ab101 r1; AddBlock ab102 r1; AddConn ab101 ab102]).
Example fix_mapping_example :
  fix_block_mapping [(s2l "ab1 1", s2l "cd1 1"); (ab102, s2l "ab1 1")] = Ok [(ab102, ab101); (ab101, s2l "cd101")].
Proof. vm_compute. reflexivity. Qed.
(** 'ab1 1' -> 'cd1 1' renames block ab101 to cd101, ab102 takes the name ab101; every record follows *)
Example rename_fix_example :
  exists g', step g_fix (RenameFix [(s2l "ab1 1", s2l "cd1 1"); (ab102, s2l "ab1 1")]) = Ok g' /\
             map (bn g') (blist g') = [s2l "cd101"; ab101] /\ map fst (cdict g') = [(s2l "cd101", ab101)] /\
             cn g' 2%positive = [(s2l "cd101", ab101)] /\ inv_b g' = true.
Proof. eexists. split; [vm_compute; reflexivity|]. vm_compute. auto. Qed.

(** ** refused edits: the caller catches the exception and goes on *)
Definition nope : str := s2l "nope1".
Definition ops_refused : list op :=
  [RenRock r1 r1;                       (* Exception: the target name exists *)
   Demote [b1; nope; a1];               (* TypeError at the unknown name, after b was demoted *)
   AddBlock c1n r3;                     (* KeyError: no such rock type *)
   Minc mb1 mr1 1 [a1; a1] [];          (* Exception: the second pass meets the matrix block of the first *)
   Reorder [] [(b1, a1); (nope, a1)];   (* Exception at the unknown pair, after the first connection was reversed *)
   AddConn a1 (s2l "1 a 1")].
Example refused_sequence_pre : pre_on g_pair ops_refused.
Proof.
  cbn [pre_on ops_refused pre pre_after]. repeat split; try exact I;
    try (match goal with H : reorder _ _ _ = Ok _ |- _ => vm_compute in H; discriminate H end).
  - intros i Hi En. vm_compute in Hi. destruct Hi as [<-|[<-|[]]]; vm_compute; reflexivity.
  - intros old Ho. vm_compute in Ho. discriminate Ho.
  - intros l N. exfalso. apply N. reflexivity.
Qed.
(** five of the six edits are refused; the grid ends with 3 blocks (a, b and a's matrix block) and 2 connections, a-b reversed *)
Example refused_sequence_runs :
  map (fun o => match step g_pair o with Ok _ => true | Raise _ => false end) [RenRock r1 r1; AddBlock c1n r3] = [false; false] /\
  map (bn (run_on g_pair ops_refused)) (blist (run_on g_pair ops_refused)) = [a1; b1; s2l "1 a 1"] /\
  map fst (cdict (run_on g_pair ops_refused)) = [(a1, s2l "1 a 1"); (b1, a1)] /\
  inv_b (run_on g_pair ops_refused) = true.
Proof. vm_compute. auto. Qed.

(** a block connected with itself (repaired in /repo, 3ad8118: it used to make delete_connection / delete_block raise KeyError
    half way): the name is recorded once and removed once; both deletions succeed and leave a consistent grid *)
Definition g_self : grid := result (run empty [AddRock r1; AddBlock a1 r1; AddConn a1 a1]).
Example delete_self_connection_ok :
  inv_b g_self = true /\
  (exists g', step g_self (DelConn a1 a1) = Ok g' /\ clist g' = [] /\ cn g' 2%positive = [] /\ inv_b g' = true) /\
  (exists g', step g_self (DelBlock a1) = Ok g' /\ blist g' = [] /\ clist g' = [] /\ inv_b g' = true).
Proof. split; [vm_compute; reflexivity|]. split; eexists; (split; [vm_compute; reflexivity|]); vm_compute; auto. Qed.
