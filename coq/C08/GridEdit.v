(** C08 -- executable model of the t2grid edit state machine (t2grids.py).

    Objects (rocktype, t2block, t2connection) are ids; their attributes are field maps
    (rocktype.name, t2block.name/.rocktype/.connection_name, t2connection.block[0]/[1]).
    The grid holds the three list/dict pairs.  Every operation follows the statement
    order of the Python method and returns [Raise e] where Python raises [e]; a sequence
    of edits stops at the first exception.  Ids are never reused, like live Python objects. *)
From Coq Require Import Ascii String List Bool PArith NArith FMapPositive Lia.
From PTBase Require Import Exn PyStr.
From P Require Import Assoc.
(** which variant of three methods the code under test has: generated on every run from the AST of t2grids.py
    (tools/props/C08.py): [delete_rocktype_refuses] -- delete_rocktype raises when a block still uses the rock type;
    [add_block_refuses] -- add_block raises when it would replace a different block that has connections;
    [add_rocktype_relinks] -- add_rocktype gives the blocks that used the replaced rock type the new one *)
From Gen Require Import GenFlags.
Import ListNotations.
Open Scope list_scope.

Definition key2 := (str * str)%type.
Definition key2_eqb (a b : key2) : bool := str_eqb (fst a) (fst b) && str_eqb (snd a) (snd b).
Lemma key2_spec a b : reflect (a = b) (key2_eqb a b).
Proof.
  destruct a as [a1 a2], b as [b1 b2]. unfold key2_eqb; cbn.
  destruct (str_eqb_spec a1 b1), (str_eqb_spec a2 b2); constructor; congruence.
Qed.
Lemma str_spec a b : reflect (a = b) (str_eqb a b).
Proof. apply str_eqb_spec. Qed.

(** Python [set] of connection names: membership-guarded add, [remove] raises KeyError *)
Definition set_mem (k : key2) (s : list key2) : bool := existsb (key2_eqb k) s.
Definition set_add (s : list key2) (k : key2) : list key2 := if set_mem k s then s else s ++ [k].
Definition set_del (s : list key2) (k : key2) : list key2 := filter (fun k' => negb (key2_eqb k k')) s.

Record grid := {
  rname : fmap str;                 (* rocktype.name *)
  bname : fmap str;                 (* t2block.name *)
  brock : fmap id;                  (* t2block.rocktype (an object) *)
  bcn : fmap (list key2);           (* t2block.connection_name (a set) *)
  cb0 : fmap id; cb1 : fmap id;     (* t2connection.block[0], [1] (objects) *)
  rlist : list id; rdict : list (str * id);     (* rocktypelist, rocktype *)
  blist : list id; bdict : list (str * id);     (* blocklist, block *)
  clist : list id; cdict : list (key2 * id);    (* connectionlist, connection *)
  next : id }.

Definition set_rname (g : grid) v : grid :=
  {| rname := v; bname := bname g; brock := brock g; bcn := bcn g; cb0 := cb0 g; cb1 := cb1 g; rlist := rlist g; rdict := rdict g; blist := blist g; bdict := bdict g; clist := clist g; cdict := cdict g; next := next g |}.
Definition set_bname (g : grid) v : grid :=
  {| rname := rname g; bname := v; brock := brock g; bcn := bcn g; cb0 := cb0 g; cb1 := cb1 g; rlist := rlist g; rdict := rdict g; blist := blist g; bdict := bdict g; clist := clist g; cdict := cdict g; next := next g |}.
Definition set_brock (g : grid) v : grid :=
  {| rname := rname g; bname := bname g; brock := v; bcn := bcn g; cb0 := cb0 g; cb1 := cb1 g; rlist := rlist g; rdict := rdict g; blist := blist g; bdict := bdict g; clist := clist g; cdict := cdict g; next := next g |}.
Definition set_bcn (g : grid) v : grid :=
  {| rname := rname g; bname := bname g; brock := brock g; bcn := v; cb0 := cb0 g; cb1 := cb1 g; rlist := rlist g; rdict := rdict g; blist := blist g; bdict := bdict g; clist := clist g; cdict := cdict g; next := next g |}.
Definition set_cb0 (g : grid) v : grid :=
  {| rname := rname g; bname := bname g; brock := brock g; bcn := bcn g; cb0 := v; cb1 := cb1 g; rlist := rlist g; rdict := rdict g; blist := blist g; bdict := bdict g; clist := clist g; cdict := cdict g; next := next g |}.
Definition set_cb1 (g : grid) v : grid :=
  {| rname := rname g; bname := bname g; brock := brock g; bcn := bcn g; cb0 := cb0 g; cb1 := v; rlist := rlist g; rdict := rdict g; blist := blist g; bdict := bdict g; clist := clist g; cdict := cdict g; next := next g |}.
Definition set_rlist (g : grid) v : grid :=
  {| rname := rname g; bname := bname g; brock := brock g; bcn := bcn g; cb0 := cb0 g; cb1 := cb1 g; rlist := v; rdict := rdict g; blist := blist g; bdict := bdict g; clist := clist g; cdict := cdict g; next := next g |}.
Definition set_rdict (g : grid) v : grid :=
  {| rname := rname g; bname := bname g; brock := brock g; bcn := bcn g; cb0 := cb0 g; cb1 := cb1 g; rlist := rlist g; rdict := v; blist := blist g; bdict := bdict g; clist := clist g; cdict := cdict g; next := next g |}.
Definition set_blist (g : grid) v : grid :=
  {| rname := rname g; bname := bname g; brock := brock g; bcn := bcn g; cb0 := cb0 g; cb1 := cb1 g; rlist := rlist g; rdict := rdict g; blist := v; bdict := bdict g; clist := clist g; cdict := cdict g; next := next g |}.
Definition set_bdict (g : grid) v : grid :=
  {| rname := rname g; bname := bname g; brock := brock g; bcn := bcn g; cb0 := cb0 g; cb1 := cb1 g; rlist := rlist g; rdict := rdict g; blist := blist g; bdict := v; clist := clist g; cdict := cdict g; next := next g |}.
Definition set_clist (g : grid) v : grid :=
  {| rname := rname g; bname := bname g; brock := brock g; bcn := bcn g; cb0 := cb0 g; cb1 := cb1 g; rlist := rlist g; rdict := rdict g; blist := blist g; bdict := bdict g; clist := v; cdict := cdict g; next := next g |}.
Definition set_cdict (g : grid) v : grid :=
  {| rname := rname g; bname := bname g; brock := brock g; bcn := bcn g; cb0 := cb0 g; cb1 := cb1 g; rlist := rlist g; rdict := rdict g; blist := blist g; bdict := bdict g; clist := clist g; cdict := v; next := next g |}.
Definition set_next (g : grid) v : grid :=
  {| rname := rname g; bname := bname g; brock := brock g; bcn := bcn g; cb0 := cb0 g; cb1 := cb1 g; rlist := rlist g; rdict := rdict g; blist := blist g; bdict := bdict g; clist := clist g; cdict := cdict g; next := v |}.

(** [t2grid()] / [empty()] *)
Definition empty : grid :=
  {| rname := fempty; bname := fempty; brock := fempty; bcn := fempty; cb0 := fempty; cb1 := fempty;
     rlist := []; rdict := []; blist := []; bdict := []; clist := []; cdict := []; next := 1%positive |}.

(** attribute reads *)
Definition rn (g : grid) (j : id) : str := fget [] (rname g) j.
Definition bn (g : grid) (i : id) : str := fget [] (bname g) i.
Definition br (g : grid) (i : id) : id := fget 1%positive (brock g) i.
Definition cn (g : grid) (i : id) : list key2 := fget [] (bcn g) i.
Definition c0 (g : grid) (j : id) : id := fget 1%positive (cb0 g) j.
Definition c1 (g : grid) (j : id) : id := fget 1%positive (cb1 g) j.
(** [tuple([blk.name for blk in con.block])] *)
Definition ckey (g : grid) (j : id) : key2 := (bn g (c0 g j), bn g (c1 g j)).

Definition rget (g : grid) (n : str) : option id := aget str_eqb (rdict g) n.
Definition bget (g : grid) (n : str) : option id := aget str_eqb (bdict g) n.
Definition cget (g : grid) (k : key2) : option id := aget key2_eqb (cdict g) k.

(** ** rock types *)
(** [add_rocktype(rt)] for an existing object [j] *)
(** repaired variant of add_rocktype ([add_rocktype_relinks]): [for blk in self.blocklist: if blk.rocktype is old: blk.rocktype = new] *)
Definition relink (g : grid) (old j : id) : grid :=
  set_brock g (fold_left (fun m i => if Pos.eqb (fget 1%positive (brock g) i) old then fset m i j else m) (blist g) (brock g)).
Definition relink_if (g : grid) (old j : id) : grid :=
  if add_rocktype_relinks && negb (Pos.eqb old j) then relink g old j else g.
Definition add_rocktype_obj (g : grid) (j : id) : res grid :=
  let n := rn g j in
  match rget g n with
  | Some old =>
      if mem old (rlist g)
      then Ok (relink_if (set_rdict (set_rlist g (lreplace (rlist g) old j)) (aset str_eqb (rdict g) n j)) old j)
      else Raise ValueError                                   (* rocktypelist.index *)
  | None => Ok (set_rdict (set_rlist g (rlist g ++ [j])) (aset str_eqb (rdict g) n j))
  end.
(** [add_rocktype(rocktype(n))]: a fresh object *)
Definition new_rock (g : grid) (n : str) : grid :=
  set_next (set_rname g (fset (rname g) (next g) n)) (Pos.succ (next g)).
Definition add_rocktype (g : grid) (n : str) : res grid := add_rocktype_obj (new_rock g n) (next g).

(** [rocktype_frequency(name) == 0] *)
Definition rock_unused (g : grid) (n : str) : bool :=
  negb (existsb (fun i => str_eqb (rn g (br g i)) n) (blist g)).
Definition delete_rocktype (g : grid) (n : str) : res grid :=
  match rget g n with
  | None => Ok g
  | Some j =>
      if delete_rocktype_refuses && negb (rock_unused g n) then Raise PlainException    (* repaired variant: "... is used by blocks" *)
      else if mem j (rlist g)
      then Ok (set_rlist (set_rdict g (adel str_eqb (rdict g) n)) (lremove (rlist g) j))
      else Raise ValueError                                   (* rocktypelist.remove *)
  end.
Fixpoint delete_rocktypes (g : grid) (ns : list str) : res grid :=
  match ns with [] => Ok g | n :: r => do g1 <- delete_rocktype g n; delete_rocktypes g1 r end.
Definition clean_rocktypes (g : grid) : res grid :=
  delete_rocktypes g (map (rn g) (filter (fun j => rock_unused g (rn g j)) (rlist g))).

Definition rename_rocktype (g : grid) (a b : str) : res grid :=
  match rget g a with
  | Some j =>
      match rget g b with
      | Some _ => Raise PlainException
      | None => Ok (set_rdict (set_rname g (fset (rname g) j b)) (aset str_eqb (adel str_eqb (rdict g) a) b j))
      end
  | None => Raise PlainException
  end.

(** ** blocks *)
Definition add_block_obj (g : grid) (i : id) : res grid :=
  let n := bn g i in
  match bget g n with
  | Some old =>
      if add_block_refuses && negb (Pos.eqb old i) && negb (match cn g old with [] => true | _ => false end)
      then Raise PlainException                             (* repaired variant: "... is connected to other blocks and cannot be replaced" *)
      else if mem old (blist g)
      then Ok (set_bdict (set_blist g (lreplace (blist g) old i)) (aset str_eqb (bdict g) n i))
      else Raise ValueError
  | None => Ok (set_bdict (set_blist g (blist g ++ [i])) (aset str_eqb (bdict g) n i))
  end.
(** [t2block(n, vol, r)]: a fresh object with an empty connection_name set *)
Definition new_block (g : grid) (n : str) (r : id) : grid :=
  set_next (set_bcn (set_brock (set_bname g (fset (bname g) (next g) n)) (fset (brock g) (next g) r))
                    (fset (bcn g) (next g) [])) (Pos.succ (next g)).
(** [grid.add_block(t2block(n, vol, grid.rocktype[rk]))] *)
Definition add_block (g : grid) (n rk : str) : res grid :=
  match rget g rk with
  | None => Raise KeyError
  | Some r => add_block_obj (new_block g n r) (next g)
  end.

Definition cn_add (g : grid) (i : id) (k : key2) : grid := set_bcn g (fset (bcn g) i (set_add (cn g i) k)).
Definition cn_remove (g : grid) (i : id) (k : key2) : res grid :=
  if set_mem k (cn g i) then Ok (set_bcn g (fset (bcn g) i (set_del (cn g i) k))) else Raise KeyError.

(** ** connections *)
Definition add_connection_obj (g : grid) (j : id) : res grid :=
  let k := ckey g j in
  do g1 <- match cget g k with
           | Some old => if mem old (clist g) then Ok (set_clist g (lreplace (clist g) old j)) else Raise ValueError
           | None => Ok (set_clist g (clist g ++ [j]))
           end;
  let g2 := set_cdict g1 (aset key2_eqb (cdict g1) k j) in
  Ok (cn_add (cn_add g2 (c0 g2 j) k) (c1 g2 j) k).
Definition new_conn (g : grid) (i0 i1 : id) : grid :=
  set_next (set_cb1 (set_cb0 g (fset (cb0 g) (next g) i0)) (fset (cb1 g) (next g) i1)) (Pos.succ (next g)).
(** [grid.add_connection(t2connection([grid.block[n0], grid.block[n1]]))] *)
Definition add_connection (g : grid) (n0 n1 : str) : res grid :=
  match bget g n0, bget g n1 with
  | Some i0, Some i1 => add_connection_obj (new_conn g i0 i1) (next g)
  | _, _ => Raise KeyError
  end.

Definition delete_connection (g : grid) (k : key2) : res grid :=
  match cget g k with
  | None => Ok g
  | Some j =>
      do g1 <- cn_remove g (c0 g j) k;                      (* for block in set(con.block): one removal per DISTINCT end *)
      do g2 <- (if Pos.eqb (c1 g j) (c0 g j) then Ok g1 else cn_remove g1 (c1 g j) k);
      let g3 := set_cdict g2 (adel key2_eqb (cdict g2) k) in
      if mem j (clist g3) then Ok (set_clist g3 (lremove (clist g3) j)) else Raise ValueError
  end.
Fixpoint delete_connections (g : grid) (ks : list key2) : res grid :=
  match ks with [] => Ok g | k :: r => do g1 <- delete_connection g k; delete_connections g1 r end.

Definition delete_block (g : grid) (n : str) : res grid :=
  match bget g n with
  | None => Ok g
  | Some i =>
      do g1 <- delete_connections g (cn g i);          (* copy(blk.connection_name) *)
      let g2 := set_bdict g1 (adel str_eqb (bdict g1) n) in
      Ok (set_blist g2 (lremove (blist g2) i))          (* if blk in blocklist: remove *)
  end.

(** [demote_block(names)]: [blocklist.append(blocklist.pop(block_index(name)))] *)
Fixpoint demote_block (g : grid) (ns : list str) : res grid :=
  match ns with
  | [] => Ok g
  | n :: r =>
      match bget g n with
      | None => Raise TypeError                          (* pop(None) *)
      | Some i => if mem i (blist g) then demote_block (set_blist g (lremove (blist g) i ++ [i])) r
                  else Raise ValueError
      end
  end.

(** ** rename_blocks(blockmap, fix_blocknames = False) *)
Definition mapname (m : list (str * str)) (n : str) : str :=
  match aget str_eqb m n with Some v => v | None => n end.
Definition map_key (m : list (str * str)) (k : key2) : key2 := (mapname m (fst k), mapname m (snd k)).
Definition set_of_list (l : list key2) : list key2 := fold_left set_add l [].
(** [for blk in renamed: del self.block[blk.name]] *)
Fixpoint del_names (g : grid) (ids : list id) : res grid :=
  match ids with
  | [] => Ok g
  | i :: r =>
      match bget g (bn g i) with
      | None => Raise KeyError
      | Some _ => del_names (set_bdict g (adel str_eqb (bdict g) (bn g i))) r
      end
  end.
(** body of [for blk in self.blocklist]: new name, then the connection_name set rebuilt through the map *)
Definition rename_one (m : list (str * str)) (g : grid) (i : id) : grid :=
  let g1 := match aget str_eqb m (bn g i) with
            | Some nn => set_bname g (fset (bname g) i nn)
            | None => g
            end in
  set_bcn g1 (fset (bcn g1) i (set_of_list (map (map_key m) (cn g1 i)))).
(** [for blk in renamed: self.block[blk.name] = blk] *)
Definition file_block (g : grid) (i : id) : grid := set_bdict g (aset str_eqb (bdict g) (bn g i) i).
(** [self.connection = {}; for con in connectionlist: self.connection[names of its blocks] = con] *)
Definition rebuild_cdict (g : grid) : grid :=
  set_cdict g (fold_left (fun acc j => aset key2_eqb acc (ckey g j) j) (clist g) []).
Definition in_map (m : list (str * str)) (n : str) : bool :=
  match aget str_eqb m n with Some _ => true | None => false end.
Definition rename_blocks (g : grid) (m : list (str * str)) : res grid :=
  let renamed := filter (fun i => in_map m (bn g i)) (blist g) in
  do g1 <- del_names g renamed;
  let g2 := fold_left (rename_one m) (blist g1) g1 in
  let g3 := fold_left file_block renamed g2 in
  Ok (rebuild_cdict g3).

(** ** rename_blocks(blockmap, fix_blocknames = True): [mulgrids.fix_block_mapping] rewrites the map first *)
(** [fix_blockname(name)]: TOUGH2 reads names as (a3, i2), so ['AB1 1'] stands for ['AB101'] *)
Definition fix_blockname (n : str) : res str :=
  match nth_error n 2 with
  | None => Raise IndexError                                   (* name[2] *)
  | Some c2 =>
      if is_digit c2 then
        match nth_error n 4, nth_error n 3 with
        | Some c4, Some c3 =>
            if is_digit c4 && ceqb c3 " " then Ok (firstn 3 n ++ "0"%char :: firstn 1 (skipn 4 n))   (* '0'.join((name[0:3], name[4:5])) *)
            else Ok n
        | _, _ => Raise IndexError                             (* name[4] *)
        end
      else Ok n
  end.
(** first loop: every value fixed in place; the keys that need fixing are collected *)
Fixpoint fix_values (m : list (str * str)) : res (list (str * str) * list (str * str)) :=
  match m with
  | [] => Ok ([], [])
  | (k, v) :: r =>
      do fk <- fix_blockname k; do fv <- fix_blockname v; do rest <- fix_values r;
      Ok ((k, fv) :: fst rest, if str_eqb k fk then snd rest else (k, fk) :: snd rest)
  end.
(** second loop: [item = blockmap[k]; del blockmap[k]; blockmap[v] = item] *)
Fixpoint move_keys (m : list (str * str)) (ks : list (str * str)) : res (list (str * str)) :=
  match ks with
  | [] => Ok m
  | (k, fk) :: r =>
      match aget str_eqb m k with
      | None => Raise KeyError
      | Some item => move_keys (aset str_eqb (adel str_eqb m k) fk item) r
      end
  end.
Definition fix_block_mapping (m : list (str * str)) : res (list (str * str)) :=
  do vk <- fix_values m; move_keys (fst vk) (snd vk).
Definition rename_blocks_fix (g : grid) (m : list (str * str)) : res grid :=
  do m' <- fix_block_mapping m; rename_blocks g m'.

(** ** reorder(block_names, connection_names) *)
Fixpoint lookup_blocks (g : grid) (ns : list str) : res (list id) :=
  match ns with
  | [] => Ok []
  | n :: r => match bget g n with
              | None => Raise KeyError
              | Some i => do l <- lookup_blocks g r; Ok (i :: l)
              end
  end.
(** one reversed connection: [con.block = con.block[::-1]; for blk in con.block: remove, add;
    del self.connection[orig]; self.connection[names] = con] *)
Definition reverse_connection (g : grid) (j : id) (orig names : key2) : res grid :=
  let g1 := set_cb1 (set_cb0 g (fset (cb0 g) j (c1 g j))) (fset (cb1 g) j (c0 g j)) in
  do g2 <- cn_remove g1 (c0 g1 j) orig;
  let g3 := cn_add g2 (c0 g1 j) names in
  do g4 <- cn_remove g3 (c1 g1 j) orig;
  let g5 := cn_add g4 (c1 g1 j) names in
  Ok (set_cdict g5 (aset key2_eqb (adel key2_eqb (cdict g5) orig) names j)).
Fixpoint reorder_conns (g : grid) (ks : list key2) : res (grid * list id) :=
  match ks with
  | [] => Ok (g, [])
  | k :: r =>
      match cget g k with
      | Some j => do gl <- reorder_conns g r; Ok (fst gl, j :: snd gl)
      | None =>
          let orig := (snd k, fst k) in
          match cget g orig with
          | None => Raise PlainException
          | Some j => do g1 <- reverse_connection g j orig k;
                      do gl <- reorder_conns g1 r; Ok (fst gl, j :: snd gl)
          end
      end
  end.
Definition reorder (g : grid) (bns : list str) (cns : list key2) : res grid :=
  do g1 <- match bns with
           | [] => Ok g
           | _ => do l <- lookup_blocks g bns; Ok (set_blist g l)
           end;
  match cns with
  | [] => Ok g1
  | _ => do gl <- reorder_conns g1 cns; Ok (set_clist (fst gl) (snd gl))
  end.

(** ** minc(volume_fractions, ..., blocks, matrix_blockname, minc_rockname, ..., atmos_volume): bookkeeping
    What is abstract: the MINC geometry (it is computed before the loop over the blocks and only
    sets volumes, distances and areas) and the volume test [0 < blk.volume < atmos_volume], which
    enters as the list [inel] of the names of the blocks that FAIL it (the caller of the model
    evaluates the inequality).  [mb] = matrix_blockname(blkname, level), [mr] = minc_rockname(
    rockname, level); [levels] = len(volume_fractions) - 1 = the number of matrix levels. *)
Definition smem (n : str) (l : list str) : bool := existsb (str_eqb n) l.
(** [duplicate_rock(newrockname, r)]: a fresh rock type of that name unless the name is registered *)
Definition duplicate_rock (g : grid) (newname : str) : res grid :=
  match rget g newname with Some _ => Ok g | None => add_rocktype g newname end.
Section Minc.
  Variable mb : str -> nat -> str.
  Variable mr : str -> nat -> str.
  (** one pass of [for vf in volume_fractions[1:]] ([m] already incremented); returns the new [lastblk] *)
  Definition minc_level (blkname : str) (orock : id) (g : grid) (last : id) (m : nat) : res (grid * id) :=
    let mrockname := mr (rn g orock) m in
    do g1 <- duplicate_rock g mrockname;
    let mblockname := mb blkname m in
    match bget g1 mblockname with
    | Some _ => Raise PlainException                       (* "Duplicate MINC matrix block name" *)
    | None =>
        let i := next g1 in                                (* mincblk = t2block(mblockname, ..., self.rocktype[mrockname]) *)
        do g2 <- add_block g1 mblockname mrockname;        (* self.add_block(mincblk) *)
        let j := next g2 in                                (* con = t2connection([lastblk, mincblk], ...) *)
        do g3 <- add_connection_obj (new_conn g2 last i) j;
        Ok (g3, i)
    end.
  Fixpoint minc_levels (blkname : str) (orock : id) (g : grid) (last : id) (m n : nat) : res grid :=
    match n with
    | O => Ok g
    | S n' => do s <- minc_level blkname orock g last (S m); minc_levels blkname orock (fst s) (snd s) (S m) n'
    end.
  (** the body of [for blk_index, blkname in enumerate(blocks)]; [names0] are the keys of [blkidict] *)
  Definition minc_block (levels : nat) (inel names0 : list str) (g : grid) (blkname : str) : res grid :=
    match bget g blkname with
    | None => Raise KeyError                               (* self.block[blkname] *)
    | Some blk =>
        if smem blkname inel then Ok g                     (* not 0 < original_vol < atmos_volume *)
        else if negb (smem blkname names0) then Raise KeyError       (* blkidict[blkname] *)
        else
          let orock := br g blk in                         (* original_rock = blk.rocktype *)
          do g1 <- minc_levels blkname orock g blk 0 levels;
          let frn := mr (rn g1 orock) 0 in
          do g2 <- duplicate_rock g1 frn;
          match rget g2 frn with
          | None => Raise KeyError
          | Some rj => Ok (set_brock g2 (fset (brock g2) blk rj))     (* blk.rocktype = self.rocktype[fract_rockname] *)
          end
    end.
  Fixpoint minc_blocks (levels : nat) (inel names0 : list str) (g : grid) (blocks : list str) : res grid :=
    match blocks with
    | [] => Ok g
    | n :: r => do g1 <- minc_block levels inel names0 g n; minc_blocks levels inel names0 g1 r
    end.
  Definition minc (levels : nat) (sel inel : list str) (g : grid) : res grid :=
    match levels with
    | O => Raise PlainException                            (* "Need at least two volume fractions" *)
    | _ =>
        let names0 := map (bn g) (blist g) in
        match (match sel with [] => names0 | _ => sel end) with      (* blocks is None or blocks == [] *)
        | [] => Raise IndexError                           (* blocks[0] *)
        | blocks => minc_blocks levels inel names0 g blocks
        end
    end.
End Minc.

(** ** a second grid over the same objects: its six containers.  [g1 + g2] and [g1.embed(g2, con)]
    return a NEW grid that holds the operands' own objects (nothing is copied). *)
Record view := { v_rlist : list id; v_rdict : list (str * id); v_blist : list id; v_bdict : list (str * id);
                 v_clist : list id; v_cdict : list (key2 * id) }.
Definition view0 : view := {| v_rlist := []; v_rdict := []; v_blist := []; v_bdict := []; v_clist := []; v_cdict := [] |}.
Definition view_of (g : grid) : view :=
  {| v_rlist := rlist g; v_rdict := rdict g; v_blist := blist g; v_bdict := bdict g; v_clist := clist g; v_cdict := cdict g |}.
Definition with_view (g : grid) (v : view) : grid :=
  {| rname := rname g; bname := bname g; brock := brock g; bcn := bcn g; cb0 := cb0 g; cb1 := cb1 g;
     rlist := v_rlist v; rdict := v_rdict v; blist := v_blist v; bdict := v_bdict v; clist := v_clist v; cdict := v_cdict v;
     next := next g |}.

Fixpoint add_rocktype_objs (g : grid) (l : list id) : res grid :=
  match l with [] => Ok g | j :: r => do g1 <- add_rocktype_obj g j; add_rocktype_objs g1 r end.
Fixpoint add_block_objs (g : grid) (l : list id) : res grid :=
  match l with [] => Ok g | i :: r => do g1 <- add_block_obj g i; add_block_objs g1 r end.
Fixpoint add_connection_objs (g : grid) (l : list id) : res grid :=
  match l with [] => Ok g | j :: r => do g1 <- add_connection_obj g j; add_connection_objs g1 r end.
(** one pass of [for grid in [self, other]]: the operand's objects go into [result] *)
Definition add_grid (result : grid) (v : view) : res grid :=
  do g1 <- add_rocktype_objs result (v_rlist v);
  do g2 <- add_block_objs g1 (v_blist v);
  add_connection_objs g2 (v_clist v).
(** [a + b] for two grids over the objects of [g] *)
Definition grid_add (g : grid) (a b : view) : res grid :=
  do r1 <- add_grid (with_view g view0) a; add_grid r1 b.

(** [set(names of self.blocklist) & set(names of subgrid.blocklist)] is not empty *)
Definition common_name (g : grid) (a b : view) : bool :=
  existsb (fun i => existsb (fun i' => str_eqb (bn g i) (bn g i')) (v_blist b)) (v_blist a).
(** [a.embed(b, con)] for the connection object [j]; [fits] = [subvol < connection.block[0].volume].
    [None]: one of the two refusals (a message is printed, nothing is built). *)
Definition embed (g : grid) (a b : view) (j : id) (fits : bool) : res (option grid) :=
  if fits then
    if common_name g a b then Ok None
    else
      do r <- grid_add g a b;
      (* connection.block = [result.block[blk.name] for blk in connection.block] *)
      match bget r (bn r (c0 r j)), bget r (bn r (c1 r j)) with
      | Some i0, Some i1 =>
          let r1 := set_cb1 (set_cb0 r (fset (cb0 r) j i0)) (fset (cb1 r) j i1) in
          do r2 <- add_connection_obj r1 j;
          Ok (Some r2)           (* result.block[hostblock.name].volume -= subvol: no bookkeeping *)
      | _, _ => Raise KeyError
      end
  else Ok None.

(** ** the edit alphabet *)
Inductive op :=
  | AddRock (n : str) | DelRock (n : str) | CleanRocks | RenRock (a b : str)
  | AddBlock (n rk : str) | DelBlock (n : str) | Demote (ns : list str)
  | AddConn (a b : str) | DelConn (a b : str)
  | Rename (m : list (str * str)) | Reorder (bns : list str) (cns : list key2)
  (** [rename_blocks(blockmap)] with the default [fix_blocknames = True] *)
  | RenameFix (m : list (str * str))
  (** [g.minc(...)] with the naming functions, the number of matrix levels, the selection and the names failing the volume test *)
  | Minc (mb mr : str -> nat -> str) (levels : nat) (sel inel : list str)
  (** [g = g + h] ([other_first]: [g = h + g]) for a second grid [h] over the same objects *)
  | AddGrid (h : view) (other_first : bool)
  (** [g = g.embed(h, t2connection([obj i0, obj i1]))] (a new connection object joining two existing block
      objects, in the grids or not); a refused embedding leaves [g] as it is *)
  | Embed (h : view) (i0 i1 : id) (fits : bool).

Definition step (g : grid) (o : op) : res grid :=
  match o with
  | AddRock n => add_rocktype g n
  | DelRock n => delete_rocktype g n
  | CleanRocks => clean_rocktypes g
  | RenRock a b => rename_rocktype g a b
  | AddBlock n rk => add_block g n rk
  | DelBlock n => delete_block g n
  | Demote ns => demote_block g ns
  | AddConn a b => add_connection g a b
  | DelConn a b => delete_connection g (a, b)
  | Rename m => rename_blocks g m
  | Reorder bns cns => reorder g bns cns
  | RenameFix m => rename_blocks_fix g m
  | Minc mb mr levels sel inel => minc mb mr levels sel inel g
  | AddGrid h other_first => if other_first then grid_add g h (view_of g) else grid_add g (view_of g) h
  | Embed h i0 i1 fits =>
      let g0 := new_conn g i0 i1 in
      do r <- embed g0 (view_of g0) h (next g) fits;
      Ok (match r with Some g' => g' | None => g0 end)
  end.

Fixpoint run (g : grid) (ops : list op) : res grid :=
  match ops with [] => Ok g | o :: r => do g1 <- step g o; run g1 r end.

(** ** what a REFUSED edit leaves behind.  A caller may catch the exception and go on using the grid: [after g o] is
    the state of the grid when [step g o] raises, for a consistent [g] (the only raises that a consistent grid
    allows are listed with each case).  Most refusals come before the first assignment of the method; the loops
    (demote_block over several names, the connection loop of reorder, minc) stop half way. *)
(** demote_block: the names before the unknown one have been demoted *)
Fixpoint demote_partial (g : grid) (ns : list str) : grid :=
  match ns with
  | [] => g
  | n :: r =>
      match bget g n with
      | None => g
      | Some i => if mem i (blist g) then demote_partial (set_blist g (lremove (blist g) i ++ [i])) r else g
      end
  end.
(** reorder: the block list is assigned at once (KeyError before it: nothing happened); the connection loop has
    reversed the connections named in reverse before it meets an unknown pair, and has not assigned the list *)
Fixpoint reorder_conns_partial (g : grid) (ks : list key2) : grid :=
  match ks with
  | [] => g
  | k :: r =>
      match cget g k with
      | Some _ => reorder_conns_partial g r
      | None =>
          let orig := (snd k, fst k) in
          match cget g orig with
          | None => g
          | Some j => match reverse_connection g j orig k with Ok g1 => reorder_conns_partial g1 r | Raise _ => g end
          end
      end
  end.
Definition reorder_partial (g : grid) (bns : list str) (cns : list key2) : grid :=
  match (match bns with [] => Ok g | _ => do l <- lookup_blocks g bns; Ok (set_blist g l) end) with
  | Raise _ => g
  | Ok g1 => match cns with [] => g1 | _ => reorder_conns_partial g1 cns end
  end.
(** minc: the blocks before the failing one are done; of the failing one, the levels before the failing level,
    and the rock type of the failing level (duplicate_rock comes before the test of the matrix block name) *)
Section MincPartial.
  Variable mb : str -> nat -> str.
  Variable mr : str -> nat -> str.
  Definition minc_level_partial (orock : id) (g : grid) (m : nat) : grid :=
    match duplicate_rock g (mr (rn g orock) m) with Ok g1 => g1 | Raise _ => g end.
  Fixpoint minc_levels_partial (blkname : str) (orock : id) (g : grid) (last : id) (m n : nat) : grid :=
    match n with
    | O => g
    | S n' =>
        match minc_level mb mr blkname orock g last (S m) with
        | Ok s => minc_levels_partial blkname orock (fst s) (snd s) (S m) n'
        | Raise _ => minc_level_partial orock g (S m)
        end
    end.
  Definition minc_block_partial (levels : nat) (inel names0 : list str) (g : grid) (blkname : str) : grid :=
    match bget g blkname with
    | None => g
    | Some blk =>
        if smem blkname inel then g else if negb (smem blkname names0) then g
        else minc_levels_partial blkname (br g blk) g blk 0 levels
    end.
  Fixpoint minc_blocks_partial (levels : nat) (inel names0 : list str) (g : grid) (blocks : list str) : grid :=
    match blocks with
    | [] => g
    | n :: r =>
        match minc_block mb mr levels inel names0 g n with
        | Ok g1 => minc_blocks_partial levels inel names0 g1 r
        | Raise _ => minc_block_partial levels inel names0 g n
        end
    end.
  Definition minc_partial (levels : nat) (sel inel : list str) (g : grid) : grid :=
    match levels with
    | O => g
    | _ => let names0 := map (bn g) (blist g) in
           minc_blocks_partial levels inel names0 g (match sel with [] => names0 | _ => sel end)
    end.
End MincPartial.

Definition after (g : grid) (o : op) : grid :=
  match o with
  | Demote ns => demote_partial g ns                       (* TypeError: pop(None) at an unknown name *)
  | Reorder bns cns => reorder_partial g bns cns           (* KeyError (block), Exception (connection) *)
  | Minc mb mr levels sel inel => minc_partial mb mr levels sel inel g
  | Embed h i0 i1 _ => new_conn g i0 i1                    (* KeyError when the connection's block names are not in the sum;
                                                              the sum was a local object and only re-added recorded names *)
  | _ => g                                                 (* rename_rocktype (Exception), add_block / add_connection with an
                                                              unknown name (KeyError in the caller's expression), rename_blocks
                                                              with a short name (IndexError in fix_block_mapping): nothing assigned yet;
                                                              the other edits never raise on a consistent grid *)
  end.

(** a run in which the caller catches every exception and carries on with the grid as the refused edit left it *)
Fixpoint run_on (g : grid) (ops : list op) : grid :=
  match ops with
  | [] => g
  | o :: r => match step g o with Ok g1 => run_on g1 r | Raise _ => run_on (after g o) r end
  end.
