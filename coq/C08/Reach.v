(** C08 -- the invariant holds after every sequence of edits (induction over the sequence). *)
From Coq Require Import Ascii String List Bool PArith NArith FMapPositive Permutation Lia.
From PTBase Require Import Exn PyStr.
From P Require Import Assoc GridEdit GridLemmas Inv InvRock InvBlock InvConn InvRename InvReorder InvMinc InvAdd InvEmbed InvAfter.
Import ListNotations.
Open Scope list_scope.

(** the weakest precondition of each edit that the faithful model needs.  [True] for add_rocktype,
    clean_rocktypes, delete_block, demote_block, add_connection, delete_connection and minc. *)
Definition pre (g : grid) (o : op) : Prop :=
  match o with
  | AddRock _ | CleanRocks | DelBlock _ | Demote _ | AddConn _ _ | DelConn _ _ | Minc _ _ _ _ _ => True
  | DelRock n => rock_not_used g n                 (* no block uses a rock type of that name *)
  | RenRock a _ => no_stale_rock g a               (* blocks using the name hold the registered object *)
  | AddBlock n _ => replaced_unconnected g n       (* a block replaced under its name has no connections *)
  | Rename m => inj_on_blocks g m                  (* one-to-one on the grid's blocks, unrenamed ones included *)
  | Reorder bns cns =>                             (* the call names every block / connection exactly once *)
      forall g', reorder g bns cns = Ok g' ->
                 Permutation (blist g) (blist g') /\ Permutation (clist g) (clist g')
  | RenameFix m =>                                 (* the same, of the map as fix_block_mapping rewrites it *)
      forall m', fix_block_mapping m = Ok m' -> inj_on_blocks g m'
  | AddGrid h other_first =>                       (* the other grid is consistent; a block that the sum replaces is unconnected *)
      Inv (with_view g h) /\
      (if other_first then replaced_blocks_unconnected g h (view_of g) else replaced_blocks_unconnected g (view_of g) h)
  | Embed h _ _ _ => Inv (with_view g h)           (* the other grid is consistent *)
  end.

Theorem step_inv g o g' : Inv g -> pre g o -> step g o = Ok g' -> Inv g'.
Proof.
  intros I P H. destruct o; cbn [step pre] in *.
  - eapply add_rocktype_inv; eauto.
  - eapply delete_rocktype_inv; eauto.
  - eapply clean_rocktypes_inv; eauto.
  - eapply rename_rocktype_inv; eauto.
  - eapply add_block_inv; eauto.
  - eapply delete_block_inv; eauto.
  - eapply demote_block_inv; eauto.
  - eapply add_connection_inv; eauto.
  - eapply delete_connection_inv; eauto.
  - eapply rename_blocks_inv; eauto.
  - destruct (P g' H) as [Pb Pc]. eapply reorder_inv; eauto.
  - unfold rename_blocks_fix in H. destruct (fix_block_mapping m) as [m'|] eqn:F; cbn [bind] in H; [|discriminate].
    eapply rename_blocks_inv; eauto.
  - eapply minc_inv; eauto.
  - destruct P as [Ih S]. destruct other_first.
    + apply (grid_add_inv g h (view_of g) g'); [exact Ih|rewrite with_view_of; exact I|exact S|exact H].
    + apply (grid_add_inv g (view_of g) h g'); [rewrite with_view_of; exact I|exact Ih|exact S|exact H].
  - pose proof (inv_new_conn g i0 i1 I) as I0.
    destruct (embed (new_conn g i0 i1) (view_of (new_conn g i0 i1)) h (next g) fits) as [[r|]|] eqn:E; cbn [bind] in H; [| |discriminate];
      inversion H; subst g'; [|exact I0].
    apply (embed_inv _ _ _ _ _ _ (eq_ind_r Inv I0 (with_view_of _)) (inv_new_conn (with_view g h) i0 i1 P)) in E; [exact E| | |].
    + apply inv_next_notin_c. exact I.
    + intro X. apply (i_cfresh _ P) in X. cbn in X. lia.
    + gs. lia.
Qed.

(** every edit of the sequence meets its precondition in the state it is applied to *)
Fixpoint pre_all (g : grid) (ops : list op) : Prop :=
  match ops with
  | [] => True
  | o :: r => pre g o /\ forall g1, step g o = Ok g1 -> pre_all g1 r
  end.

Theorem inv_reachable ops : forall g g', Inv g -> pre_all g ops -> run g ops = Ok g' -> Inv g'.
Proof.
  induction ops as [|o r IH]; cbn [run pre_all]; intros g g' I P H.
  - inversion H; subst; exact I.
  - destruct P as [P0 P1]. destruct (step g o) as [g1|e] eqn:E; cbn [bind] in H; [|discriminate].
    apply (IH g1 g'); [eapply step_inv; eauto|apply P1; reflexivity|exact H].
Qed.

Corollary inv_reachable_init ops g' : pre_all empty ops -> run empty ops = Ok g' -> Inv g'.
Proof. apply inv_reachable. exact inv_init. Qed.

(** ** the caller catches the exceptions: a refused edit leaves the grid as [after] says, and the sequence goes on.
    Every edit of the sequence meets [pre] (and a reorder that will be refused still names every block once). *)
Fixpoint pre_on (g : grid) (ops : list op) : Prop :=
  match ops with
  | [] => True
  | o :: r => pre g o /\ pre_after g o /\ pre_on (match step g o with Ok g1 => g1 | Raise _ => after g o end) r
  end.
Theorem inv_reachable_on ops : forall g, Inv g -> pre_on g ops -> Inv (run_on g ops).
Proof.
  induction ops as [|o r IH]; cbn [run_on pre_on]; intros g I P; [exact I|].
  destruct P as [P0 [Pa P1]]. destruct (step g o) as [g1|e] eqn:E.
  - apply IH; [eapply step_inv; eauto|exact P1].
  - apply IH; [eapply after_inv; eassumption|exact P1].
Qed.

(** the same with the run written as a left fold over the op list *)
Definition run_fold (g : grid) (ops : list op) : res grid :=
  fold_left (fun r o => bind r (fun g1 => step g1 o)) ops (Ok g).
Lemma fold_raise ops e : fold_left (fun r o => bind r (fun g1 => step g1 o)) ops (Raise e) = Raise e.
Proof. induction ops as [|o r IH]; cbn; [reflexivity|exact IH]. Qed.
Lemma run_fold_eq ops : forall g, run_fold g ops = run g ops.
Proof.
  unfold run_fold. induction ops as [|o r IH]; intro g; cbn [fold_left run]; [reflexivity|].
  cbn [bind]. destruct (step g o) as [g1|e]; cbn [bind]; [apply IH|apply fold_raise].
Qed.
Corollary inv_reachable_fold ops g g' : Inv g -> pre_all g ops -> run_fold g ops = Ok g' -> Inv g'.
Proof. rewrite run_fold_eq. apply inv_reachable. Qed.

(** ** renaming with a one-to-one map loses no block (swaps and cycles included) *)
Theorem rename_bijective_total g m : Inv g -> inj_on_blocks g m ->
  exists g', rename_blocks g m = Ok g' /\ Inv g' /\ blist g' = blist g /\
             forall i, In i (blist g) -> bn g' i = mapname m (bn g i) /\ bget g' (mapname m (bn g i)) = Some i.
Proof.
  intros I J. destruct (rename_blocks_total g m I) as [g' H]. exists g'. split; [exact H|].
  split; [eapply rename_blocks_inv; eauto|]. eapply rename_blocks_names; eauto.
Qed.
