(** What [float()] and the [fortran_float] cascade return on the canonical texts of
    Fortran-printed reals (C16): sign? digits? . digits? followed by nothing, by an
    exponent with letter e and optional sign, or by a bare signed exponent without letter
    (Fortran drops the letter for three-digit exponents).  Together with the normal-form
    theorem this gives the value read from EVERY rendering that normalises to such a
    text: any case, D or E, blanks anywhere. *)
From Coq Require Import Ascii String List Bool Arith ZArith NArith Lia.
From PTBase Require Import Exn PyStr PyNum PyVal.
From PTModel Require Import Fortran FortranNF.
Import ListNotations.
Open Scope char_scope.

Definition all_digits (ds : str) : bool := forallb is_digit ds.
Fixpoint dvalue (acc : N) (ds : str) : N :=
  match ds with [] => acc | c :: r => dvalue (acc * 10 + ndval c) r end.
Definition stops (rest : str) : bool := match rest with [] => true | c :: _ => negb (dus c) end.

Lemma dvalue_app ds1 : forall acc ds2, dvalue acc (ds1 ++ ds2) = dvalue (dvalue acc ds1) ds2.
Proof. induction ds1 as [|c r IH]; intros acc ds2; [reflexivity|]. cbn. apply IH. Qed.
Lemma digits_tail_digits ds : forall acc cnt rest, all_digits ds = true -> stops rest = true ->
  digits_tail acc cnt (ds ++ rest) = (dvalue acc ds, (cnt + length ds)%nat, rest).
Proof.
  induction ds as [|c r IH]; intros acc cnt rest A S.
  - cbn [app dvalue length]. rewrite Nat.add_0_r. destruct rest as [|x rest]; [reflexivity|].
    cbn in S. unfold dus in S. apply negb_true_iff in S. apply orb_false_elim in S as [D U].
    cbn [digits_tail]. rewrite D, U. reflexivity.
  - cbn in A. apply andb_prop in A as [D A]. cbn [app digits_tail dvalue length]. rewrite D.
    rewrite IH by assumption. f_equal. f_equal. lia.
Qed.
Lemma digitpart_digits ds acc rest : ds <> [] -> all_digits ds = true -> stops rest = true ->
  digitpart acc (ds ++ rest) = Some (dvalue acc ds, length ds, rest).
Proof.
  intros NE A S. destruct ds as [|c r]; [congruence|]. cbn in A. apply andb_prop in A as [D A].
  cbn [app digitpart]. rewrite D. rewrite digits_tail_digits by assumption. reflexivity.
Qed.
Lemma digitpart_stop acc rest : stops rest = true -> digitpart acc rest = None.
Proof.
  destruct rest as [|x rest]; [reflexivity|]. cbn. unfold dus. intro S. apply negb_true_iff in S.
  apply orb_false_elim in S as [D _]. rewrite D. reflexivity.
Qed.

(** ** pieces of a canonical text *)
Definition sgstr (sg : option bool) : str := match sg with None => [] | Some true => ["-"] | Some false => ["+"] end.
Definition isneg (sg : option bool) : bool := match sg with Some true => true | _ => false end.
Definition mant (ip fp : str) : str := ip ++ "." :: fp.
Definition signed (ng : bool) (v : N) : Z := if ng then (- Z.of_N v)%Z else Z.of_N v.

Lemma digit_facts c : is_digit c = true ->
  ceqb c "-" = false /\ ceqb c "+" = false /\ is_cspace c = false /\ ceqb (lower_c c) "i" = false /\ ceqb (lower_c c) "n" = false /\ dus c = true.
Proof. unfold dus. brute c. Qed.
Lemma all_digits_nocspace ds : all_digits ds = true -> forallb (fun c => negb (is_cspace c)) ds = true.
Proof. apply forallb_impl. intros x H. destruct (digit_facts x H) as (_ & _ & -> & _). reflexivity. Qed.

(** first character of a mantissa: a digit or the point *)
Definition mhead (c : ascii) : bool := is_digit c || ceqb c ".".
Lemma mant_head ip fp : all_digits ip = true -> exists c r, mant ip fp = c :: r /\ mhead c = true.
Proof.
  unfold mant, mhead. intro A. destruct ip as [|c r]; [exists ".", fp; split; reflexivity|].
  cbn in A. apply andb_prop in A as [D _]. exists c, (r ++ "." :: fp). rewrite D. split; reflexivity.
Qed.
Lemma mhead_facts c : mhead c = true ->
  ceqb c "-" = false /\ ceqb c "+" = false /\ ceqb (lower_c c) "i" = false /\ ceqb (lower_c c) "n" = false.
Proof. unfold mhead. brute c. Qed.

Lemma sign_sgstr sg body c r : body = c :: r -> mhead c = true -> sign (sgstr sg ++ body) = (isneg sg, body).
Proof.
  intros -> H. destruct (mhead_facts c H) as (M & P & _).
  destruct sg as [[|]|]; cbn [sgstr app sign isneg]; try reflexivity. rewrite M, P. reflexivity.
Qed.
Lemma not_special c r : mhead c = true ->
  str_eqb (lower (c :: r)) (s2l "inf") || str_eqb (lower (c :: r)) (s2l "infinity") = false /\ str_eqb (lower (c :: r)) (s2l "nan") = false.
Proof.
  intro H. destruct (mhead_facts c H) as (_ & _ & I & N).
  cbn [lower map s2l list_ascii_of_string str_eqb]. unfold ceqb in *. rewrite I, N. split; reflexivity.
Qed.

Lemma dot_stops r : stops ("." :: r) = true. Proof. reflexivity. Qed.

(** the body of float() on  digits? . digits? tail *)
Lemma float_body_mant ng ip fp tail :
  all_digits ip = true -> all_digits fp = true -> (ip <> [] \/ fp <> []) -> stops tail = true ->
  float_body ng (mant ip fp ++ tail) = finish_exp ng (dvalue 0 (ip ++ fp)) (length fp) tail.
Proof.
  intros Ai Af NE St. destruct (mant_head ip fp Ai) as (c & r & Em & Hc).
  unfold float_body. rewrite Em. cbn [app]. destruct (not_special c (r ++ tail) Hc) as [S1 S2]. rewrite S1, S2.
  change (c :: r ++ tail) with ((c :: r) ++ tail). rewrite <- Em. unfold mant. rewrite <- app_assoc. cbn [app].
  destruct ip as [|i0 ip'].
  - (* no integer part *)
    cbn [app]. rewrite (digitpart_stop 0 ("." :: fp ++ tail)) by reflexivity.
    cbn [float_tail]. change (ceqb "." ".") with true. cbv iota.
    destruct NE as [NE|NE]; [congruence|]. rewrite digitpart_digits by assumption. reflexivity.
  - rewrite (digitpart_digits (i0 :: ip') 0 ("." :: fp ++ tail)) by (try assumption; try discriminate; reflexivity).
    cbn [float_tail]. change (ceqb "." ".") with true. cbv iota. rewrite dvalue_app.
    destruct fp as [|f0 fp'].
    + cbn [app dvalue length]. rewrite (digitpart_stop _ tail St). reflexivity.
    + rewrite digitpart_digits by (try assumption; discriminate). reflexivity.
Qed.

(** float() on a whole canonical text whose tail has no C whitespace *)
Lemma py_float_mant sg ip fp tail :
  all_digits ip = true -> all_digits fp = true -> (ip <> [] \/ fp <> []) -> stops tail = true ->
  forallb (fun c => negb (is_cspace c)) tail = true ->
  py_float_opt (sgstr sg ++ mant ip fp ++ tail) = finish_exp (isneg sg) (dvalue 0 (ip ++ fp)) (length fp) tail.
Proof.
  intros Ai Af NE St Nc. unfold py_float_opt. unfold cstrip. rewrite strip_by_nochar.
  - destruct (mant_head ip fp Ai) as (c & r & Em & Hc).
    rewrite (sign_sgstr sg (mant ip fp ++ tail) c (r ++ tail)); [|rewrite Em; reflexivity|exact Hc].
    cbn [fst snd]. apply float_body_mant; assumption.
  - rewrite !forallb_app. unfold mant. rewrite forallb_app. cbn [forallb].
    rewrite (all_digits_nocspace _ Ai), (all_digits_nocspace _ Af), Nc.
    destruct sg as [[|]|]; reflexivity.
Qed.

(** ** exponent parts *)
Lemma exponent_letter es ed : ed <> [] -> all_digits ed = true ->
  exponent ("e" :: sgstr es ++ ed) = Some (signed (isneg es) (dvalue 0 ed)).
Proof.
  intros NE A. cbn [exponent]. change (ceqb (lower_c "e") "e") with true. cbv iota.
  assert (S : sign (sgstr es ++ ed) = (isneg es, ed)).
  { destruct ed as [|d r]; [congruence|]. cbn in A. apply andb_prop in A as [D _].
    apply (sign_sgstr es (d :: r) d r eq_refl). unfold mhead. rewrite D. reflexivity. }
  rewrite S. rewrite <- (app_nil_r ed) at 1. rewrite digitpart_digits by (try assumption; reflexivity).
  unfold signed. destruct (isneg es); reflexivity.
Qed.
Lemma exponent_bare (ng : bool) ed : exponent ((if ng then "-" else "+") :: ed) = None.
Proof. destruct ng; reflexivity. Qed.

(** ** the three canonical shapes *)
Definition wf_mant (ip fp : str) : Prop := all_digits ip = true /\ all_digits fp = true /\ (ip <> [] \/ fp <> []).
Definition wf_exp (ed : str) : Prop := ed <> [] /\ all_digits ed = true.

(** no exponent:  -12.5 *)
Theorem float_plain sg ip fp : wf_mant ip fp ->
  py_float_opt (sgstr sg ++ mant ip fp) = Some (Fin (isneg sg) (dvalue 0 (ip ++ fp)) (0 - Z.of_nat (length fp))).
Proof.
  intros (Ai & Af & NE). rewrite <- (app_nil_r (mant ip fp)). rewrite py_float_mant by (try assumption; reflexivity). reflexivity.
Qed.
(** exponent with letter:  -1.25e-03, .5e7 *)
Theorem float_letter sg ip fp es ed : wf_mant ip fp -> wf_exp ed ->
  py_float_opt (sgstr sg ++ mant ip fp ++ "e" :: sgstr es ++ ed)
  = Some (Fin (isneg sg) (dvalue 0 (ip ++ fp)) (signed (isneg es) (dvalue 0 ed) - Z.of_nat (length fp))).
Proof.
  intros (Ai & Af & NE) (NEe & Ae). rewrite py_float_mant; try assumption; try reflexivity.
  - unfold finish_exp. rewrite exponent_letter by assumption. reflexivity.
  - cbn [forallb]. rewrite forallb_app, (all_digits_nocspace _ Ae). destruct es as [[|]|]; reflexivity.
Qed.
(** bare signed exponent: float() itself rejects it ... *)
Lemma float_bare_rejected sg ip fp (ng : bool) ed : wf_mant ip fp -> wf_exp ed ->
  py_float_opt (sgstr sg ++ mant ip fp ++ (if ng then "-" else "+") :: ed) = None.
Proof.
  intros (Ai & Af & NE) (NEe & Ae). rewrite py_float_mant; try assumption.
  - unfold finish_exp. rewrite exponent_bare. reflexivity.
  - destruct ng; reflexivity.
  - cbn [forallb]. rewrite (all_digits_nocspace _ Ae). destruct ng; reflexivity.
Qed.

Lemma replace1_app c new a b : replace1 c new (a ++ b) = replace1 c new a ++ replace1 c new b.
Proof. unfold replace1. apply flat_map_app. Qed.
Lemma replace1_digits c new ds : is_digit c = false -> all_digits ds = true -> replace1 c new ds = ds.
Proof.
  intros Hc A. apply replace1_absent. eapply forallb_impl; [|exact A]. intros x Hx. cbn.
  destruct (ceqb x c) eqn:E; [|reflexivity]. apply Ascii.eqb_eq in E. subst. congruence.
Qed.
Lemma replace1_mant c new ip fp : is_digit c = false -> ceqb "." c = false -> wf_mant ip fp -> replace1 c new (mant ip fp) = mant ip fp.
Proof.
  intros Hc Hd (Ai & Af & _). unfold mant. rewrite replace1_app. rewrite (replace1_digits c new ip Hc Ai).
  change ("." :: fp) with (["."] ++ fp). rewrite replace1_app, (replace1_digits c new fp Hc Af).
  unfold replace1 at 1. cbn [flat_map]. rewrite Hd. reflexivity.
Qed.

(** the text seen by the later stages: first character kept, the rest rewritten *)
Definition tail_of (s : str) : str := match s with [] => [] | _ :: r => r end.
Lemma split_first sg ip fp rest : all_digits ip = true ->
  exists c0 r0, sgstr sg ++ mant ip fp ++ rest = c0 :: r0 ++ rest /\ c0 :: r0 = sgstr sg ++ mant ip fp.
Proof.
  intro Ai. destruct (mant_head ip fp Ai) as (c & r & Em & _).
  destruct sg as [[|]|]; cbn [sgstr app].
  - exists "-", (mant ip fp). split; reflexivity.
  - exists "+", (mant ip fp). split; reflexivity.
  - exists c, r. rewrite Em. split; reflexivity.
Qed.
Lemma replace_rest c new sg ip fp : is_digit c = false -> ceqb "." c = false -> wf_mant ip fp ->
  forall c0 r0, c0 :: r0 = sgstr sg ++ mant ip fp -> c0 :: replace1 c new r0 = sgstr sg ++ mant ip fp.
Proof.
  intros Hc Hd W c0 r0 E. pose proof W as (Ai & Af & NE).
  destruct sg as [[|]|]; cbn [sgstr app] in E |- *.
  - inversion E; subst. rewrite replace1_mant by assumption. reflexivity.
  - inversion E; subst. rewrite replace1_mant by assumption. reflexivity.
  - assert (R : replace1 c new (c0 :: r0) = c0 :: r0) by (rewrite E; apply replace1_mant; assumption).
    assert (H0 : ceqb c0 c = false).
    { destruct (mant_head ip fp Ai) as (c' & r' & Em & Hc'). rewrite Em in E. inversion E; subst c' r'.
      unfold mhead in Hc'. destruct (ceqb c0 c) eqn:Q; [|reflexivity]. apply Ascii.eqb_eq in Q. subst c0.
      rewrite Hc in Hc'. cbn [orb] in Hc'. unfold ceqb in *. rewrite Ascii.eqb_sym in Hc'. congruence. }
    unfold replace1 in R. cbn [flat_map] in R. rewrite H0 in R. cbn [app] in R. injection R as R'.
    unfold replace1. rewrite R'. exact E.
Qed.

(** ... but the cascade reads  1.5-100  as 1.5e-100 and  1.5+100  as 1.5e+100 *)
Theorem cascade_plain sg ip fp : wf_mant ip fp ->
  cascade (sgstr sg ++ mant ip fp) = Fin (isneg sg) (dvalue 0 (ip ++ fp)) (0 - Z.of_nat (length fp)).
Proof. intro W. unfold cascade. rewrite float_plain by assumption. reflexivity. Qed.
Theorem cascade_letter sg ip fp es ed : wf_mant ip fp -> wf_exp ed ->
  cascade (sgstr sg ++ mant ip fp ++ "e" :: sgstr es ++ ed)
  = Fin (isneg sg) (dvalue 0 (ip ++ fp)) (signed (isneg es) (dvalue 0 ed) - Z.of_nat (length fp)).
Proof. intros W We. unfold cascade. rewrite float_letter by assumption. reflexivity. Qed.
Theorem cascade_bare_minus sg ip fp ed : wf_mant ip fp -> wf_exp ed ->
  cascade (sgstr sg ++ mant ip fp ++ "-" :: ed)
  = Fin (isneg sg) (dvalue 0 (ip ++ fp)) (signed true (dvalue 0 ed) - Z.of_nat (length fp)).
Proof.
  intros W We. pose proof W as (Ai & Af & NE). pose proof We as (NEe & Ae). unfold cascade.
  rewrite (float_bare_rejected sg ip fp true ed W We).
  destruct (split_first sg ip fp ("-" :: ed) Ai) as (c0 & r0 & E1 & E2). rewrite E1. unfold stage3.
  rewrite replace1_app. change ("-" :: ed) with (["-"] ++ ed). rewrite replace1_app.
  rewrite (replace1_digits "-" (s2l "e-") ed eq_refl Ae).
  change (replace1 "-" (s2l "e-") ["-"]) with (s2l "e-").
  assert (R := replace_rest "-" (s2l "e-") sg ip fp eq_refl eq_refl W c0 r0 E2).
  change (c0 :: replace1 "-" (s2l "e-") r0 ++ s2l "e-" ++ ed) with ((c0 :: replace1 "-" (s2l "e-") r0) ++ "e" :: sgstr (Some true) ++ ed).
  rewrite R. rewrite <- app_assoc. rewrite float_letter by assumption. reflexivity.
Qed.
Theorem cascade_bare_plus sg ip fp ed : wf_mant ip fp -> wf_exp ed ->
  cascade (sgstr sg ++ mant ip fp ++ "+" :: ed)
  = Fin (isneg sg) (dvalue 0 (ip ++ fp)) (signed false (dvalue 0 ed) - Z.of_nat (length fp)).
Proof.
  intros W We. pose proof W as (Ai & Af & NE). pose proof We as (NEe & Ae). unfold cascade.
  rewrite (float_bare_rejected sg ip fp false ed W We).
  destruct (split_first sg ip fp ("+" :: ed) Ai) as (c0 & r0 & E1 & E2). rewrite E1. unfold stage3, stage4.
  (* stage 3: no '-' after the first character: same text, rejected again *)
  rewrite replace1_app. change ("+" :: ed) with (["+"] ++ ed). rewrite replace1_app.
  rewrite (replace1_digits "-" (s2l "e-") ed eq_refl Ae).
  change (replace1 "-" (s2l "e-") ["+"]) with ["+"].
  assert (R3 := replace_rest "-" (s2l "e-") sg ip fp eq_refl eq_refl W c0 r0 E2).
  change (c0 :: replace1 "-" (s2l "e-") r0 ++ ["+"] ++ ed) with ((c0 :: replace1 "-" (s2l "e-") r0) ++ "+" :: ed).
  rewrite R3. rewrite <- app_assoc. rewrite (float_bare_rejected sg ip fp false ed W We).
  (* stage 4 *)
  rewrite replace1_app. rewrite replace1_app.
  rewrite (replace1_digits "+" (s2l "e") ed eq_refl Ae).
  change (replace1 "+" (s2l "e") ["+"]) with (s2l "e").
  assert (R4 := replace_rest "+" (s2l "e") sg ip fp eq_refl eq_refl W c0 r0 E2).
  change (c0 :: replace1 "+" (s2l "e") r0 ++ s2l "e" ++ ed) with ((c0 :: replace1 "+" (s2l "e") r0) ++ "e" :: sgstr None ++ ed).
  rewrite R4. rewrite <- app_assoc. rewrite float_letter by assumption. reflexivity.
Qed.

(** ** every rendering that normalises to a canonical text is read with Fortran's meaning *)
Inductive expo := XNone | XLetter (es : option bool) (ed : str) | XBare (ng : bool) (ed : str).
Definition exp_text (x : expo) : str :=
  match x with XNone => [] | XLetter es ed => "e" :: sgstr es ++ ed | XBare ng ed => (if ng then "-" else "+") :: ed end.
Definition exp_value (x : expo) : Z :=
  match x with XNone => 0%Z | XLetter es ed => signed (isneg es) (dvalue 0 ed) | XBare ng ed => signed ng (dvalue 0 ed) end.
Definition wf_expo (x : expo) : Prop := match x with XNone => True | XLetter _ ed | XBare _ ed => wf_exp ed end.
Definition canon (sg : option bool) (ip fp : str) (x : expo) : str := sgstr sg ++ mant ip fp ++ exp_text x.
Definition canon_value (sg : option bool) (ip fp : str) (x : expo) : fval :=
  Fin (isneg sg) (dvalue 0 (ip ++ fp)) (exp_value x - Z.of_nat (length fp)).

Theorem cascade_canon sg ip fp x : wf_mant ip fp -> wf_expo x -> cascade (canon sg ip fp x) = canon_value sg ip fp x.
Proof.
  intros W Wx. unfold canon, canon_value. destruct x as [|es ed|ng ed]; cbn [exp_text exp_value].
  - rewrite app_nil_r. apply cascade_plain; assumption.
  - apply cascade_letter; assumption.
  - destruct ng; [apply cascade_bare_minus|apply cascade_bare_plus]; assumption.
Qed.
(** THE rendering theorem: any text (any case, D or E, blanks anywhere, padding) whose
    normal form is a canonical Fortran real is read as that real *)
Theorem ff_reads_fortran_reals s bv sg ip fp x : wf_mant ip fp -> wf_expo x ->
  strip s <> [] -> norm (strip s) = canon sg ip fp x -> fortran_float s bv = VFloat (canon_value sg ip fp x).
Proof. intros W Wx NE E. rewrite ff_normal_form by exact NE. rewrite E. rewrite cascade_canon by assumption. reflexivity. Qed.

(** non-vacuity: typical Fortran renderings and their normal forms *)
Example ex_D : norm (strip (s2l "  -0.1234D+05 ")) = canon (Some true) (s2l "0") (s2l "1234") (XLetter (Some false) (s2l "05")).
Proof. vm_compute. reflexivity. Qed.
Example ex_noletter : norm (strip (s2l " 1.5-100")) = canon None (s2l "1") (s2l "5") (XBare true (s2l "100")).
Proof. vm_compute. reflexivity. Qed.
Example ex_blankplus : norm (strip (s2l ".25E 07")) = canon None [] (s2l "25") (XLetter None (s2l "07")).
Proof. vm_compute. reflexivity. Qed.
Example ex_embedded : norm (strip (s2l "- 1. 5 e+ 3")) = canon (Some true) (s2l "1") (s2l "5") (XLetter (Some false) (s2l "3")).
Proof. vm_compute. reflexivity. Qed.
Example ex_value : fortran_float (s2l "  -0.1234D+05 ") VNone = VFloat (Fin true 1234 1).
Proof. vm_compute. reflexivity. Qed.
