(** Reference model of [fixed_format_file.fortran_float / fortran_int] and the lemmas
    about CPython's [float()]/[int()] grammar the C16 theorems rest on. *)
From Coq Require Import Ascii String List Bool Arith ZArith NArith Lia.
From PTBase Require Import Exn PyStr PyNum PyVal.
Import ListNotations.
Open Scope char_scope.

(** ** the reference model (typed; bridged to the generated code in coq/C16/Spec.v) *)
Definition norm (t : str) : str := replace1 " " [] (replace1 "d" (s2l "e") (lower t)).
Definition stage3 (n : str) : option fval :=
  match n with [] => None | c0 :: r => py_float_opt (c0 :: replace1 "-" (s2l "e-") r) end.
Definition stage4 (n : str) : option fval :=
  match n with [] => None | c0 :: r => py_float_opt (c0 :: replace1 "+" (s2l "e") r) end.
Definition cascade (n : str) : fval :=
  match py_float_opt n with Some v => v | None =>
  match stage3 n with Some v => v | None =>
  match stage4 n with Some v => v | None => NaN end end end.
Definition fortran_float (s : str) (bv : pyval) : pyval :=
  match py_float_opt s with
  | Some v => VFloat v
  | None => match strip s with [] => bv | t => VFloat (cascade (norm t)) end
  end.
Definition fortran_int (s : str) (bv : pyval) : pyval :=
  match py_int_opt s with
  | Some z => VInt z
  | None => match strip s with
            | [] => bv
            | t => match py_int_opt (replace1 " " [] t) with Some z => VInt z | None => VNone end
            end
  end.

(** ** character facts, each by exhaustive case analysis on the 256 characters *)
Ltac brute c := destruct c as [[] [] [] [] [] [] [] []]; vm_compute; try reflexivity; try discriminate; try tauto; auto.

Lemma nonspace_lower_not_blank c : is_space c = false -> ceqb (lower_c c) " " = false.
Proof. brute c. Qed.
Lemma nonspace_lower_nonspace c : is_space c = false -> is_space (lower_c c) = false.
Proof. brute c. Qed.
Lemma blank_is_space c : ceqb c " " = true -> is_space c = true.
Proof. brute c. Qed.

(** characters that can occur in some string [float()] accepts *)
Definition in_str (c : ascii) (s : string) : bool := has_c c (s2l s).
Definition numeric_char (c : ascii) : bool :=
  is_digit c || is_space c || in_str c "+-._" || in_str (lower_c c) "edinfty a".
(** characters that can occur in some string [int()] accepts *)
Definition int_char (c : ascii) : bool := is_digit c || is_space c || in_str c "+-_".

Lemma numeric_lower c : numeric_char (lower_c c) = numeric_char c.
Proof. brute c. Qed.
Lemma star_not_numeric : numeric_char "*" = false.
Proof. reflexivity. Qed.
Lemma digit_numeric c : is_digit c = true -> numeric_char c = true.
Proof. brute c. Qed.
Lemma space_numeric c : is_space c = true -> numeric_char c = true.
Proof. unfold numeric_char. intros ->. rewrite orb_true_r. reflexivity. Qed.
Lemma nonnumeric_facts c : numeric_char c = false ->
  is_space c = false /\ ceqb (lower_c c) "d" = false /\ ceqb (lower_c c) " " = false /\
  ceqb (lower_c c) "-" = false /\ ceqb (lower_c c) "+" = false /\ ceqb c " " = false.
Proof. brute c. Qed.
Lemma nonint_facts c : int_char c = false -> is_space c = false /\ ceqb c " " = false.
Proof. brute c. Qed.
Lemma e_numeric c : ceqb (lower_c c) "e" = true -> numeric_char c = true.
Proof. brute c. Qed.
Lemma sign_numeric c : ceqb c "-" = true \/ ceqb c "+" = true -> numeric_char c = true.
Proof. brute c. Qed.
Lemma sign_intchar c : ceqb c "-" = true \/ ceqb c "+" = true -> int_char c = true.
Proof. brute c. Qed.
Lemma digit_us_numeric c : is_digit c || ceqb c "_" = true -> numeric_char c = true.
Proof. brute c. Qed.
Lemma digit_us_intchar c : is_digit c || ceqb c "_" = true -> int_char c = true.
Proof. brute c. Qed.
Lemma space_intchar c : is_space c = true -> int_char c = true.
Proof. unfold int_char. intros ->. rewrite orb_true_r. reflexivity. Qed.

Lemma forallb_impl {A} (p q : A -> bool) l : (forall x, p x = true -> q x = true) -> forallb p l = true -> forallb q l = true.
Proof. intro H. induction l as [|a l IH]; cbn; [auto|]. intro E. apply andb_prop in E as [E1 E2]. rewrite (H _ E1), (IH E2). reflexivity. Qed.

(** ** strip *)
Lemma cspace_space c : is_cspace c = true -> is_space c = true.
Proof. brute c. Qed.
Lemma space_not_start c : is_space c = true ->
  is_digit c = false /\ ceqb c "." = false /\ ceqb c "-" = false /\ ceqb c "+" = false /\
  ceqb (lower_c c) "i" = false /\ ceqb (lower_c c) "n" = false.
Proof. brute c. Qed.
Lemma strip_split s : exists a b, s = a ++ strip s ++ b /\ forallb is_space a = true /\ forallb is_space b = true.
Proof. apply strip_by_split. Qed.
Lemma cstrip_split s : exists a b, s = a ++ cstrip s ++ b /\ forallb is_space a = true /\ forallb is_space b = true.
Proof.
  destruct (strip_by_split is_cspace s) as [a [b [E [Fa Fb]]]]. exists a, b. split; [exact E|].
  split; [exact (forallb_impl _ _ _ cspace_space Fa)|exact (forallb_impl _ _ _ cspace_space Fb)].
Qed.
Lemma strip_head s c r : strip s = c :: r -> is_space c = false.
Proof. apply strip_by_head. Qed.
(** a string of whitespace only is rejected by float() and int() *)
Lemma all_space_cstrip s : forallb is_space s = true -> forallb is_space (cstrip s) = true.
Proof.
  intro H. destruct (strip_by_split is_cspace s) as [a [b [E _]]]. fold (cstrip s) in E.
  rewrite E, !forallb_app in H. apply andb_prop in H as [_ H]. apply andb_prop in H as [H _]. exact H.
Qed.
Lemma float_body_space_head ng c r : is_space c = true -> float_body ng (c :: r) = None.
Proof.
  intro S. destruct (space_not_start c S) as [D [Dt [_ [_ [I N]]]]].
  unfold float_body. cbn [lower map str_eqb s2l list_ascii_of_string]. unfold ceqb in *. rewrite I, N. cbn [andb orb].
  unfold digitpart. rewrite D. unfold float_tail. unfold ceqb. rewrite Dt. reflexivity.
Qed.
Lemma strip_nil_float s : strip s = [] -> py_float_opt s = None.
Proof.
  intro H. apply strip_by_nil_all in H. apply all_space_cstrip in H. unfold py_float_opt.
  destruct (cstrip s) as [|c r]; [reflexivity|]. cbn in H. apply andb_prop in H as [S _].
  destruct (space_not_start c S) as [_ [_ [M [P _]]]]. cbn [sign]. rewrite M, P. cbn [fst snd].
  apply float_body_space_head. exact S.
Qed.
Lemma strip_nil_int s : strip s = [] -> py_int_opt s = None.
Proof.
  intro H. apply strip_by_nil_all in H. apply all_space_cstrip in H. unfold py_int_opt.
  destruct (cstrip s) as [|c r]; [reflexivity|]. cbn in H. apply andb_prop in H as [S _].
  destruct (space_not_start c S) as [D [_ [M [P _]]]]. cbn [sign]. rewrite M, P. cbn [fst snd].
  unfold int_body, digitpart. rewrite D. reflexivity.
Qed.

Lemma norm_cons_nonempty c r : is_space c = false -> norm (c :: r) <> [].
Proof.
  intro S. unfold norm, lower. cbn [map replace1 flat_map].
  pose proof (nonspace_lower_not_blank c S) as B.
  destruct (ceqb (lower_c c) "d") eqn:D; cbn; [discriminate|]. rewrite B. cbn. discriminate.
Qed.
Lemma norm_strip_nonempty s : strip s <> [] -> norm (strip s) <> [].
Proof.
  destruct (strip s) as [|c r] eqn:E; [congruence|]. intros _. apply norm_cons_nonempty. eapply strip_head; eauto.
Qed.

(** ** what [digits_tail] consumes *)
Definition dus (c : ascii) : bool := is_digit c || ceqb c "_".
Lemma digits_tail_split_n n : forall acc cnt s, (length s <= n)%nat ->
  exists p, s = p ++ snd (digits_tail acc cnt s) /\ forallb dus p = true.
Proof.
  induction n as [|n IH]; intros acc cnt s L.
  - destruct s; [|cbn in L; lia]. exists []. auto.
  - destruct s as [|c r]; [exists []; auto|]. cbn [digits_tail].
    destruct (is_digit c) eqn:D.
    + destruct (IH (acc * 10 + ndval c)%N (S cnt) r) as [p [E F]]; [cbn in L; lia|].
      exists (c :: p). cbn. unfold dus at 1. rewrite D, F. cbn. split; [f_equal; exact E|reflexivity].
    + destruct (ceqb c "_") eqn:U; [|exists []; auto].
      destruct r as [|c2 r2]; [exists []; auto|].
      destruct (is_digit c2) eqn:D2; [|exists []; auto].
      destruct (IH (acc * 10 + ndval c2)%N (S cnt) r2) as [p [E F]]; [cbn in L; lia|].
      exists (c :: c2 :: p). cbn. unfold dus at 1 2. rewrite U, D2, F, orb_true_r. cbn.
      split; [do 2 f_equal; exact E|reflexivity].
Qed.
Lemma digits_tail_split acc cnt s :
  exists p, s = p ++ snd (digits_tail acc cnt s) /\ forallb dus p = true.
Proof. apply (digits_tail_split_n (length s)). lia. Qed.
Lemma digitpart_split acc s v n r : digitpart acc s = Some (v, n, r) ->
  exists p, s = p ++ r /\ forallb dus p = true.
Proof.
  unfold digitpart. destruct s as [|c s']; [discriminate|]. destruct (is_digit c) eqn:D; [|discriminate].
  intro H. inversion H as [H1]. destruct (digits_tail_split (acc * 10 + ndval c) 1 s') as [p [E F]].
  rewrite H1 in E. cbn in E. exists (c :: p). cbn. unfold dus at 1. rewrite D, F. split; [f_equal; exact E|reflexivity].
Qed.


Lemma sign_split s : exists p, s = p ++ snd (sign s) /\ forallb (fun c => ceqb c "-" || ceqb c "+") p = true.
Proof.
  destruct s as [|c r]; [exists []; auto|]. cbn [sign].
  destruct (ceqb c "-") eqn:M; [exists [c]; cbn; rewrite M; auto|].
  destruct (ceqb c "+") eqn:P; [exists [c]; cbn; rewrite M, P; auto|]. exists []; auto.
Qed.
Lemma sign_chars_numeric p : forallb (fun c => ceqb c "-" || ceqb c "+") p = true -> forallb numeric_char p = true.
Proof. apply forallb_impl. intros x H. apply sign_numeric. apply orb_prop in H. exact H. Qed.
Lemma sign_chars_int p : forallb (fun c => ceqb c "-" || ceqb c "+") p = true -> forallb int_char p = true.
Proof. apply forallb_impl. intros x H. apply sign_intchar. apply orb_prop in H. exact H. Qed.
Lemma dus_numeric p : forallb dus p = true -> forallb numeric_char p = true.
Proof. apply forallb_impl. intros x H. apply digit_us_numeric. exact H. Qed.
Lemma dus_int p : forallb dus p = true -> forallb int_char p = true.
Proof. apply forallb_impl. intros x H. apply digit_us_intchar. exact H. Qed.

Lemma exponent_chars s e : exponent s = Some e -> forallb numeric_char s = true.
Proof.
  destruct s as [|c r]; [reflexivity|]. cbn [exponent].
  destruct (ceqb (lower_c c) "e") eqn:E; [|discriminate].
  destruct (sign r) as [ng r1] eqn:S. destruct (digitpart 0 r1) as [[[v n] r2]|] eqn:D; [|discriminate].
  destruct r2; [|discriminate]. intros _.
  destruct (sign_split r) as [p [Ep Fp]]. rewrite S in Ep. cbn in Ep.
  destruct (digitpart_split _ _ _ _ _ D) as [q [Eq Fq]]. rewrite app_nil_r in Eq. subst r1. subst r.
  cbn. rewrite (e_numeric _ E). rewrite forallb_app, (sign_chars_numeric _ Fp), (dus_numeric _ Fq). reflexivity.
Qed.

Lemma lower_numeric r l : lower r = l -> forallb numeric_char l = true -> forallb numeric_char r = true.
Proof.
  revert l; induction r as [|c r IH]; intros l E F; [reflexivity|]. destruct l as [|x l]; [discriminate|].
  cbn in E. inversion E; subst. cbn in F. apply andb_prop in F as [F1 F2].
  rewrite numeric_lower in F1. cbn. rewrite F1. cbn. apply (IH _ eq_refl F2).
Qed.
Lemma lower_lit_numeric r (lit : string) : str_eqb (lower r) (s2l lit) = true ->
  forallb numeric_char (s2l lit) = true -> forallb numeric_char r = true.
Proof. intros E F. apply str_eqb_eq in E. eapply lower_numeric; eauto. Qed.

Lemma finish_exp_chars ng m nd r v : finish_exp ng m nd r = Some v -> forallb numeric_char r = true.
Proof. unfold finish_exp. destruct (exponent r) eqn:X; [|discriminate]. intros _. eapply exponent_chars; eauto. Qed.
Lemma dot_numeric c : ceqb c "." = true -> numeric_char c = true.
Proof. brute c. Qed.
Lemma float_tail_chars ng h ip r v : float_tail ng h ip r = Some v -> forallb numeric_char r = true.
Proof.
  unfold float_tail. destruct r as [|c r2].
  - reflexivity.
  - destruct (ceqb c ".") eqn:Dt.
    + destruct (digitpart ip r2) as [[[m nd] r3]|] eqn:D2.
      * intro H. apply finish_exp_chars in H. destruct (digitpart_split _ _ _ _ _ D2) as [q [Eq Fq]]. subst r2.
        cbn. rewrite (dot_numeric _ Dt), forallb_app, (dus_numeric _ Fq), H. reflexivity.
      * destruct h; [|discriminate]. intro H. apply finish_exp_chars in H. cbn. rewrite (dot_numeric _ Dt), H. reflexivity.
    + destruct h; [|discriminate]. intro H. apply finish_exp_chars in H. exact H.
Qed.
Lemma float_body_chars ng r v : float_body ng r = Some v -> forallb numeric_char r = true.
Proof.
  unfold float_body.
  destruct (str_eqb (lower r) (s2l "inf")) eqn:I1; [intros _; eapply lower_lit_numeric; eauto|].
  destruct (str_eqb (lower r) (s2l "infinity")) eqn:I2; [intros _; eapply lower_lit_numeric; eauto|].
  cbn [orb].
  destruct (str_eqb (lower r) (s2l "nan")) eqn:I3; [intros _; eapply lower_lit_numeric; eauto|].
  destruct (digitpart 0 r) as [[[ip n0] r1]|] eqn:D.
  - intro H. apply float_tail_chars in H. destruct (digitpart_split _ _ _ _ _ D) as [p [Ep Fp]]. subst r.
    rewrite forallb_app, (dus_numeric _ Fp), H. reflexivity.
  - apply float_tail_chars.
Qed.

(** every string [float()] accepts consists of numeric characters only *)
Theorem float_accepts_numeric s v : py_float_opt s = Some v -> forallb numeric_char s = true.
Proof.
  unfold py_float_opt. intro H. apply float_body_chars in H.
  destruct (cstrip_split s) as [a [b [E [Fa Fb]]]].
  destruct (sign_split (cstrip s)) as [p [Ep Fp]].
  rewrite E, !forallb_app, Ep, forallb_app, (sign_chars_numeric _ Fp), H.
  rewrite (forallb_impl _ _ _ space_numeric Fa), (forallb_impl _ _ _ space_numeric Fb). reflexivity.
Qed.
Theorem int_accepts_intchars s v : py_int_opt s = Some v -> forallb int_char s = true.
Proof.
  unfold py_int_opt, int_body. intro H.
  destruct (digitpart 0 (snd (sign (cstrip s)))) as [[[x n] r]|] eqn:D; [|discriminate].
  destruct r; [|discriminate]. destruct (digitpart_split _ _ _ _ _ D) as [q [Eq Fq]]. rewrite app_nil_r in Eq.
  destruct (cstrip_split s) as [a [b [E [Fa Fb]]]].
  destruct (sign_split (cstrip s)) as [p [Ep Fp]].
  rewrite E, !forallb_app, Ep, forallb_app, (sign_chars_int _ Fp), Eq, (dus_int _ Fq).
  rewrite (forallb_impl _ _ _ space_intchar Fa), (forallb_impl _ _ _ space_intchar Fb). reflexivity.
Qed.

(** ** theorems about the reference model, for every string *)
Theorem ff_py_compatible s v bv : py_float_opt s = Some v -> fortran_float s bv = VFloat v.
Proof. unfold fortran_float. intros ->. reflexivity. Qed.
Theorem ff_blank s bv : strip s = [] -> fortran_float s bv = bv.
Proof. intro H. unfold fortran_float. rewrite (strip_nil_float _ H), H. reflexivity. Qed.
Theorem fi_py_compatible s v bv : py_int_opt s = Some v -> fortran_int s bv = VInt v.
Proof. unfold fortran_int. intros ->. reflexivity. Qed.
Theorem fi_blank s bv : strip s = [] -> fortran_int s bv = bv.
Proof. intro H. unfold fortran_int. rewrite (strip_nil_int _ H), H. reflexivity. Qed.

Lemma forallb_false_In {A} (p : A -> bool) l x : In x l -> p x = false -> forallb p l = false.
Proof.
  induction l as [|a l IH]; cbn; [tauto|]. intros [->|H] F; [rewrite F; reflexivity|]. rewrite (IH H F). apply andb_false_r.
Qed.
Lemma float_rejects s c : In c s -> numeric_char c = false -> py_float_opt s = None.
Proof.
  intros I F. destruct (py_float_opt s) eqn:E; [|reflexivity].
  apply float_accepts_numeric in E. rewrite (forallb_false_In _ _ _ I F) in E. discriminate.
Qed.
Lemma int_rejects s c : In c s -> int_char c = false -> py_int_opt s = None.
Proof.
  intros I F. destruct (py_int_opt s) eqn:E; [|reflexivity].
  apply int_accepts_intchars in E. rewrite (forallb_false_In _ _ _ I F) in E. discriminate.
Qed.
Lemma In_strip s c : In c s -> is_space c = false -> In c (strip s).
Proof.
  intros I S. destruct (strip_split s) as [a [b [E [Fa Fb]]]]. rewrite E in I.
  rewrite !in_app_iff in I. destruct I as [I|[I|I]]; [|exact I|].
  - rewrite forallb_forall in Fa. rewrite (Fa _ I) in S. discriminate.
  - rewrite forallb_forall in Fb. rewrite (Fb _ I) in S. discriminate.
Qed.
Lemma In_replace1_other x c new s : In x s -> ceqb x c = false -> In x (replace1 c new s).
Proof.
  intros I F. unfold replace1. apply in_flat_map. exists x. split; [exact I|]. rewrite F. left. reflexivity.
Qed.
Lemma In_norm c t : In c t -> numeric_char c = false -> In (lower_c c) (norm t) /\ numeric_char (lower_c c) = false.
Proof.
  intros I F. destruct (nonnumeric_facts c F) as [S [D [B _]]]. split; [|rewrite numeric_lower; exact F].
  unfold norm. apply In_replace1_other; [|exact B]. apply In_replace1_other; [|exact D].
  unfold lower. apply in_map. exact I.
Qed.

(** text containing a character that cannot occur in a number reads as NaN *)
Theorem ff_bad_char s c bv : In c s -> numeric_char c = false -> fortran_float s bv = VFloat NaN.
Proof.
  intros I F. unfold fortran_float. rewrite (float_rejects _ _ I F).
  destruct (nonnumeric_facts c F) as [S _]. pose proof (In_strip _ _ I S) as It.
  destruct (strip s) as [|t0 t] eqn:Et; [contradiction|].
  destruct (In_norm _ _ It F) as [In' F']. remember (norm (t0 :: t)) as n.
  unfold cascade. rewrite (float_rejects _ _ In' F').
  destruct (nonnumeric_facts _ F') as [_ [_ [_ [M [P _]]]]].
  assert (L : lower_c (lower_c c) = lower_c c) by (clear; brute c). rewrite L in M, P.
  destruct n as [|c0 r]; [reflexivity|]. unfold stage3, stage4.
  assert (I3 : In (lower_c c) (c0 :: replace1 "-" (s2l "e-") r)).
  { destruct In' as [->|Ir]; [left; reflexivity|right; apply In_replace1_other; assumption]. }
  assert (I4 : In (lower_c c) (c0 :: replace1 "+" (s2l "e") r)).
  { destruct In' as [->|Ir]; [left; reflexivity|right; apply In_replace1_other; assumption]. }
  rewrite (float_rejects _ _ I3 F'), (float_rejects _ _ I4 F'). reflexivity.
Qed.
Theorem fi_bad_char s c bv : In c s -> int_char c = false -> fortran_int s bv = VNone.
Proof.
  intros I F. unfold fortran_int. rewrite (int_rejects _ _ I F).
  destruct (nonint_facts c F) as [S B]. pose proof (In_strip _ _ I S) as It.
  destruct (strip s) as [|t0 t] eqn:Et; [contradiction|].
  rewrite (int_rejects (replace1 " " [] (t0 :: t)) c); [reflexivity| |exact F].
  apply In_replace1_other; assumption.
Qed.
(** overflow asterisks *)
Corollary ff_asterisks s bv : In "*" s -> fortran_float s bv = VFloat NaN.
Proof. intro I. apply (ff_bad_char s "*"); [exact I|reflexivity]. Qed.
Corollary fi_asterisks s bv : In "*" s -> fortran_int s bv = VNone.
Proof. intro I. apply (fi_bad_char s "*"); [exact I|reflexivity]. Qed.
