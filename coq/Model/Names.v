(** Reference models and laws of the PyTOUGH naming functions (C17):
    [fix_blockname]/[unfix_blockname] on five-character names, [int_to_chars]. *)
From Coq Require Import Ascii String List Bool Arith ZArith NArith Lia.
From PTBase Require Import Exn PyStr PyNum PyVal.
Import ListNotations.
Open Scope char_scope.

(** ** fix / unfix on five-character names *)
Definition fmt2 (v : nat) : str := if (v <? 10)%nat then [" "; dchar v] else [dchar (v / 10); dchar (v mod 10)].
Definition fix_blockname (n : str) : str :=
  match n with
  | [c0; c1; c2; c3; c4] => if is_digit c2 && is_digit c4 && ceqb c3 " " then [c0; c1; c2; "0"; c4] else n
  | _ => n end.
Definition unfix_blockname (n : str) : str :=
  match n with
  | [c0; c1; c2; c3; c4] => if is_digit c3 && is_digit c4 then [c0; c1; c2] ++ fmt2 (10 * dval c3 + dval c4) else n
  | _ => n end.

Lemma space_not_digit : is_digit " " = false. Proof. reflexivity. Qed.
Lemma zero_digit : is_digit "0" = true. Proof. reflexivity. Qed.
Ltac digits H := apply is_digit_cases in H; cbn in H;
  repeat match type of H with _ \/ _ => destruct H as [H | H] end; try contradiction; subst.

Theorem fix_idem n : fix_blockname (fix_blockname n) = fix_blockname n.
Proof.
  destruct n as [|c0 [|c1 [|c2 [|c3 [|c4 [|c5 r]]]]]]; try reflexivity.
  cbn [fix_blockname].
  destruct (is_digit c2 && is_digit c4 && ceqb c3 " ") eqn:E.
  - apply andb_prop in E as [E E3]. apply andb_prop in E as [E2 E4].
    cbn [fix_blockname]. rewrite E2, E4. cbn. reflexivity.
  - cbn [fix_blockname]. rewrite E. reflexivity.
Qed.

(** names as the simulator prints them, (A3,I2): characters 3-4 are " d" or "dd" with a non-zero first digit *)
Definition printed_A3I2 (n : str) : bool :=
  match n with
  | [_; _; _; c3; c4] => is_digit c4 && (ceqb c3 " " || (is_digit c3 && negb (ceqb c3 "0")))
  | _ => false end.

Theorem unfix_fix_printed n : printed_A3I2 n = true -> unfix_blockname (fix_blockname n) = n.
Proof.
  destruct n as [|c0 [|c1 [|c2 [|c3 [|c4 [|c5 r]]]]]]; try discriminate.
  cbn [printed_A3I2]. intro P. apply andb_prop in P as [D4 P].
  cbn [fix_blockname]. rewrite D4.
  destruct (ceqb c3 " ") eqn:S3.
  - apply Ascii.eqb_eq in S3. subst c3.
    destruct (is_digit c2) eqn:D2; cbn [andb].
    + cbn [unfix_blockname]. rewrite zero_digit, D4. cbn [andb app].
      digits D4; reflexivity.
    + cbn [unfix_blockname]. rewrite space_not_digit. reflexivity.
  - cbn [orb] in P. apply andb_prop in P as [D3 NZ].
    rewrite andb_false_r. cbn [unfix_blockname]. rewrite D3, D4. cbn [andb app].
    digits D3; try discriminate NZ; digits D4; reflexivity.
Qed.

Lemma unfix_dd c0 c1 c2 c3 c4 : is_digit c3 = true -> is_digit c4 = true ->
  unfix_blockname [c0; c1; c2; c3; c4] = [c0; c1; c2; (if ceqb c3 "0" then " " else c3); c4].
Proof.
  intros D3 D4. cbn [unfix_blockname]. rewrite D3, D4. cbn [andb app].
  digits D3; digits D4; vm_compute; reflexivity.
Qed.
Lemma digit_not_space c : is_digit c = true -> ceqb c " " = false.
Proof. intro D. digits D; reflexivity. Qed.

Definition cycle n := fix_blockname (unfix_blockname n).
Theorem cycle_stabilises n : cycle (cycle n) = cycle n.
Proof.
  destruct n as [|c0 [|c1 [|c2 [|c3 [|c4 [|c5 r]]]]]]; try reflexivity.
  unfold cycle.
  destruct (is_digit c3) eqn:D3; destruct (is_digit c4) eqn:D4.
  - rewrite (unfix_dd _ _ _ _ _ D3 D4).
    destruct (ceqb c3 "0") eqn:Z3.
    + cbn [fix_blockname]. rewrite D4.
      destruct (is_digit c2) eqn:D2; cbn [andb].
      * change (ceqb " " " ") with true. cbn [andb].
        rewrite (unfix_dd _ _ _ _ _ zero_digit D4). change (ceqb "0" "0") with true.
        cbn [fix_blockname]. rewrite D2, D4. reflexivity.
      * cbn [unfix_blockname]. rewrite space_not_digit. cbn [andb]. cbn [fix_blockname]. rewrite D2. reflexivity.
    + cbn [fix_blockname]. rewrite (digit_not_space _ D3), andb_false_r.
      rewrite (unfix_dd _ _ _ _ _ D3 D4), Z3. cbn [fix_blockname]. rewrite (digit_not_space _ D3), andb_false_r. reflexivity.
  - cbn [unfix_blockname]. rewrite D3, D4. cbn [andb]. cbn [fix_blockname]. rewrite D4, andb_false_r. cbn [andb].
    cbn [unfix_blockname]. rewrite D3, D4. cbn [andb]. cbn [fix_blockname]. rewrite D4, andb_false_r. reflexivity.
  - cbn [unfix_blockname]. rewrite D3. cbn [andb]. cbn [fix_blockname].
    destruct (is_digit c2 && is_digit c4 && ceqb c3 " ") eqn:E.
    + apply andb_prop in E as [E E3]. apply andb_prop in E as [E2 _].
      rewrite (unfix_dd _ _ _ _ _ zero_digit D4). change (ceqb "0" "0") with true.
      cbn [fix_blockname]. rewrite E2, D4. reflexivity.
    + cbn [unfix_blockname]. rewrite D3. cbn [andb]. cbn [fix_blockname]. rewrite E. reflexivity.
  - cbn [unfix_blockname]. rewrite D3. cbn [andb]. cbn [fix_blockname]. rewrite D4, andb_false_r. cbn [andb].
    cbn [unfix_blockname]. rewrite D3. cbn [andb]. cbn [fix_blockname]. rewrite D4, andb_false_r. reflexivity.
Qed.

(** fix_blockname changes nothing unless the name is digit-blank-digit at 2-3-4 *)
Lemma fix_id_nondigit2 c0 c1 c2 c3 c4 : is_digit c2 = false -> fix_blockname [c0; c1; c2; c3; c4] = [c0; c1; c2; c3; c4].
Proof. intro D. cbn [fix_blockname]. rewrite D. reflexivity. Qed.
Lemma fix_id_nonblank3 c0 c1 c2 c3 c4 : ceqb c3 " " = false -> fix_blockname [c0; c1; c2; c3; c4] = [c0; c1; c2; c3; c4].
Proof. intro D. cbn [fix_blockname]. rewrite D, andb_false_r. reflexivity. Qed.
Lemma fix_length n : length (fix_blockname n) = length n.
Proof.
  destruct n as [|c0 [|c1 [|c2 [|c3 [|c4 [|c5 r]]]]]]; try reflexivity.
  cbn [fix_blockname]. destruct (is_digit c2 && is_digit c4 && ceqb c3 " "); reflexivity.
Qed.

(** ** int_to_chars, spaces = True: bijective base-n numeration *)
Open Scope N_scope.
Section I2C.
Variable chars : str.
Let n := N.of_nat (length chars).
Definition ch (k : N) : ascii := nth (N.to_nat k) chars "?"%char.

Fixpoint i2c (fuel : nat) (i : N) (st : str) : str :=
  match fuel with
  | O => st
  | S f => if 0 <? i then let ci := i - 1 in i2c f (ci / n) (ch (ci mod n) :: st) else st
  end.
Definition name (i : N) : str := i2c (S (N.to_nat i)) i [].

Hypothesis n_pos : 0 < n.

Lemma i2c_app fuel : forall i st, i2c fuel i st = (i2c fuel i [] ++ st)%list.
Proof.
  induction fuel as [|f IH]; intros i st; cbn [i2c]; [reflexivity|].
  destruct (0 <? i); [|reflexivity].
  rewrite IH. rewrite (IH _ [ch _]). rewrite <- app_assoc. reflexivity.
Qed.
Lemma i2c_fuel : forall fuel i st, (N.to_nat i < fuel)%nat -> forall fuel', (N.to_nat i < fuel')%nat -> i2c fuel i st = i2c fuel' i st.
Proof.
  induction fuel as [|f IH]; intros i st Hf fuel' Hf'; [lia|].
  destruct fuel' as [|f']; [lia|]. cbn [i2c].
  destruct (0 <? i) eqn:E; [|reflexivity]. apply N.ltb_lt in E.
  assert ((i - 1) / n <= i - 1) by (apply N.div_le_upper_bound; nia).
  apply IH; lia.
Qed.
Lemma name_0 : name 0 = []. Proof. reflexivity. Qed.
Lemma name_pos i : 0 < i -> name i = (name ((i - 1) / n) ++ [ch ((i - 1) mod n)])%list.
Proof.
  intro H. unfold name at 1. cbn [i2c]. apply N.ltb_lt in H as H'. rewrite H'.
  rewrite i2c_app. f_equal. unfold name.
  assert ((i - 1) / n <= i - 1) by (apply N.div_le_upper_bound; nia).
  apply i2c_fuel; lia.
Qed.

Hypothesis chars_nodup : NoDup chars.
Lemma ch_inj a b : a < n -> b < n -> ch a = ch b -> a = b.
Proof.
  unfold ch, n. intros Ha Hb E.
  apply N2Nat.inj. eapply (proj1 (NoDup_nth chars "?"%char)); eauto; lia.
Qed.
Theorem name_inj : forall i j, name i = name j -> i = j.
Proof.
  intro i. induction i as [i IH] using (well_founded_induction N.lt_wf_0). intros j E.
  destruct (N.eq_dec i 0) as [->|Hi]; destruct (N.eq_dec j 0) as [->|Hj]; try reflexivity.
  - rewrite name_0, (name_pos j) in E by lia. destruct (name ((j - 1) / n)); discriminate.
  - rewrite name_0, (name_pos i) in E by lia. destruct (name ((i - 1) / n)); discriminate.
  - rewrite (name_pos i), (name_pos j) in E by lia.
    apply app_inj_tail in E as [E1 E2].
    assert (Hq : (i - 1) / n <= i - 1) by (apply N.div_le_upper_bound; nia).
    apply IH in E1; [|lia].
    apply ch_inj in E2; try (apply N.mod_lt; lia).
    assert (i - 1 = j - 1).
    { rewrite (N.div_mod (i - 1) n), (N.div_mod (j - 1) n) by lia. rewrite E1, E2. reflexivity. }
    lia.
Qed.
Lemma name_chars i : Forall (fun c => In c chars) (name i).
Proof.
  induction i as [i IH] using (well_founded_induction N.lt_wf_0).
  destruct (N.eq_dec i 0) as [->|Hi]; [constructor|].
  rewrite name_pos by lia. apply Forall_app. split.
  - apply IH. assert ((i - 1) / n <= i - 1) by (apply N.div_le_upper_bound; nia). lia.
  - constructor; [|constructor]. unfold ch. apply nth_In.
    assert ((i - 1) mod n < n) by (apply N.mod_lt; lia). unfold n in *. lia.
Qed.
Lemma name_length_pos i : 0 < i -> length (name i) = S (length (name ((i - 1) / n))).
Proof. intro H. rewrite name_pos by assumption. rewrite app_length. cbn. lia. Qed.
End I2C.

(** ** capacity: names of length <= L are exactly the numbers 1 .. n + n^2 + ... + n^L *)
Section Capacity.
Variable chars : str.
Let n := N.of_nat (length chars).
Hypothesis n_pos : 0 < n.
Fixpoint cap (L : nat) : N := match L with O => 0 | S L' => n * (cap L' + 1) end.
Theorem name_length_cap : forall L i, (length (name chars i) <= L)%nat <-> i <= cap L.
Proof.
  induction L as [|L IH]; intro i.
  - cbn [cap]. split.
    + intro H. destruct (N.eq_dec i 0) as [->|Hi]; [lia|].
      rewrite (name_length_pos chars n_pos i) in H by lia. lia.
    + intro H. assert (i = 0) by lia. subst. cbn. lia.
  - cbn [cap]. destruct (N.eq_dec i 0) as [->|Hi].
    + split; intro; [lia|cbn; lia].
    + rewrite (name_length_pos chars n_pos i) by lia.
      specialize (IH ((i - 1) / n)). fold n in IH |- *. split.
      * intro H. assert (H' : (length (name chars ((i - 1) / n)) <= L)%nat) by lia.
        apply IH in H'. assert ((i - 1) < n * (cap L + 1)).
        { pose proof (N.div_mod (i - 1) n ltac:(lia)) as DM. pose proof (N.mod_lt (i - 1) n ltac:(lia)) as ML. nia. } lia.
      * intro H. assert (H' : (i - 1) / n <= cap L).
        { assert ((i - 1) / n < cap L + 1); [|lia]. apply N.div_lt_upper_bound; lia. }
        apply IH in H'. lia.
Qed.
End Capacity.
Example cap26 : cap (s2l "abcdefghijklmnopqrstuvwxyz") 3 = 18278 /\ cap (s2l "abcdefghijklmnopqrstuvwxyz") 2 = 702.
Proof. vm_compute. auto. Qed.

(** justification keeps names without blanks apart *)
Lemma rjust_inj w (a b : str) : ~ In " "%char a -> ~ In " "%char b -> rjust w a = rjust w b -> a = b.
Proof.
  unfold rjust. intros Ha Hb E.
  assert (L : forall (x y : str) (p q : nat), ~ In " "%char x -> ~ In " "%char y -> (p <= q)%nat -> (spaces p ++ x = spaces q ++ y)%list -> x = y).
  { intros x y p q Hx Hy. revert q. induction p as [|p IHp]; intros q Hpq E0.
    - cbn in E0. destruct q as [|q]; [exact E0|]. cbn in E0. subst x. exfalso. apply Hx. left. reflexivity.
    - destruct q as [|q]; [lia|]. cbn in E0. inversion E0. apply (IHp q); [lia|assumption]. }
  destruct (le_lt_dec (w - length a) (w - length b)) as [H|H].
  - exact (L a b _ _ Ha Hb H E).
  - symmetry. apply (L b a (w - length b)%nat (w - length a)%nat Hb Ha); [lia|]. symmetry. exact E.
Qed.
Lemma ljust_inj (a : str) : forall w (b : str), ~ In " "%char a -> ~ In " "%char b -> ljust w a = ljust w b -> a = b.
Proof.
  unfold ljust. induction a as [|x a IH]; intros w b Ha Hb E.
  - destruct b as [|y b]; [reflexivity|]. cbn in E. destruct (w - 0)%nat; [discriminate|]. cbn in E. inversion E. subst y. exfalso. apply Hb. left. reflexivity.
  - destruct b as [|y b].
    + cbn in E. destruct (w - 0)%nat; [discriminate|]. cbn in E. inversion E. subst x. exfalso. apply Ha. left. reflexivity.
    + cbn [app length] in E. inversion E. subst y. f_equal. apply (IH (w - 1)%nat); [intro; apply Ha; right; assumption|intro; apply Hb; right; assumption|].
      replace (w - 1 - length a)%nat with (w - S (length a))%nat by lia.
      replace (w - 1 - length b)%nat with (w - S (length b))%nat by lia. assumption.
Qed.
