(** Normal-form theorem for [fortran_float] (C16): for EVERY non-blank string the result
    depends only on the normalised text [norm (strip s)] (lower case, d -> e, blanks
    removed): blanks inside a field are ignored, D means E, case does not matter.
    The heart is that CPython's [float()] is case-insensitive and accepts no blank and no
    letter d inside the stripped text. *)
From Coq Require Import Ascii String List Bool Arith ZArith NArith Lia.
From PTBase Require Import Exn PyStr PyNum PyVal.
From PTModel Require Import Fortran.
Import ListNotations.
Open Scope char_scope.

(** ** characters of an accepted (stripped) text: no whitespace, no letter d *)
Definition core_char (c : ascii) : bool := negb (is_space c) && negb (ceqb (lower_c c) "d").

Lemma core_lower c : core_char (lower_c c) = core_char c. Proof. brute c. Qed.
Lemma core_dus c : dus c = true -> core_char c = true. Proof. unfold dus. brute c. Qed.
Lemma core_sign c : ceqb c "-" || ceqb c "+" = true -> core_char c = true. Proof. brute c. Qed.
Lemma core_e c : ceqb (lower_c c) "e" = true -> core_char c = true. Proof. brute c. Qed.
Lemma core_dot c : ceqb c "." = true -> core_char c = true. Proof. brute c. Qed.
Lemma core_facts c : core_char c = true ->
  is_space c = false /\ is_cspace c = false /\ ceqb (lower_c c) "d" = false /\ ceqb (lower_c c) " " = false /\
  is_cspace (lower_c c) = false.
Proof. brute c. Qed.

Lemma core_of_lower r l : lower r = l -> forallb core_char l = true -> forallb core_char r = true.
Proof.
  revert l; induction r as [|c r IH]; intros l E F; [reflexivity|]. destruct l as [|x l]; [discriminate|].
  cbn in E. inversion E; subst. cbn in F. apply andb_prop in F as [F1 F2].
  rewrite core_lower in F1. cbn. rewrite F1. cbn. apply (IH _ eq_refl F2).
Qed.
Lemma core_lit r (lit : string) : str_eqb (lower r) (s2l lit) = true -> forallb core_char (s2l lit) = true -> forallb core_char r = true.
Proof. intros E F. apply str_eqb_eq in E. eapply core_of_lower; eauto. Qed.
Lemma dus_core p : forallb dus p = true -> forallb core_char p = true.
Proof. apply forallb_impl. exact core_dus. Qed.
Lemma signs_core p : forallb (fun c => ceqb c "-" || ceqb c "+") p = true -> forallb core_char p = true.
Proof. apply forallb_impl. exact core_sign. Qed.

Lemma exponent_core s e : exponent s = Some e -> forallb core_char s = true.
Proof.
  destruct s as [|c r]; [reflexivity|]. cbn [exponent].
  destruct (ceqb (lower_c c) "e") eqn:E; [|discriminate].
  destruct (sign r) as [ng r1] eqn:S. destruct (digitpart 0 r1) as [[[v n] r2]|] eqn:D; [|discriminate].
  destruct r2; [|discriminate]. intros _.
  destruct (sign_split r) as [p [Ep Fp]]. rewrite S in Ep. cbn in Ep.
  destruct (digitpart_split _ _ _ _ _ D) as [q [Eq Fq]]. rewrite app_nil_r in Eq. subst r1. subst r.
  cbn. rewrite (core_e _ E). rewrite forallb_app, (signs_core _ Fp), (dus_core _ Fq). reflexivity.
Qed.
Lemma finish_exp_core ng m nd r v : finish_exp ng m nd r = Some v -> forallb core_char r = true.
Proof. unfold finish_exp. destruct (exponent r) eqn:X; [|discriminate]. intros _. eapply exponent_core; eauto. Qed.
Lemma float_tail_core ng h ip r v : float_tail ng h ip r = Some v -> forallb core_char r = true.
Proof.
  unfold float_tail. destruct r as [|c r2]; [reflexivity|].
  destruct (ceqb c ".") eqn:Dt.
  - destruct (digitpart ip r2) as [[[m nd] r3]|] eqn:D2.
    + intro H. apply finish_exp_core in H. destruct (digitpart_split _ _ _ _ _ D2) as [q [Eq Fq]]. subst r2.
      cbn. rewrite (core_dot _ Dt), forallb_app, (dus_core _ Fq), H. reflexivity.
    + destruct h; [|discriminate]. intro H. apply finish_exp_core in H. cbn. rewrite (core_dot _ Dt), H. reflexivity.
  - destruct h; [|discriminate]. intro H. apply finish_exp_core in H. exact H.
Qed.
Lemma float_body_core ng r v : float_body ng r = Some v -> forallb core_char r = true.
Proof.
  unfold float_body.
  destruct (str_eqb (lower r) (s2l "inf")) eqn:I1; [intros _; eapply core_lit; eauto|].
  destruct (str_eqb (lower r) (s2l "infinity")) eqn:I2; [intros _; eapply core_lit; eauto|].
  cbn [orb].
  destruct (str_eqb (lower r) (s2l "nan")) eqn:I3; [intros _; eapply core_lit; eauto|].
  destruct (digitpart 0 r) as [[[ip n0] r1]|] eqn:D.
  - intro H. apply float_tail_core in H. destruct (digitpart_split _ _ _ _ _ D) as [p [Ep Fp]]. subst r.
    rewrite forallb_app, (dus_core _ Fp), H. reflexivity.
  - apply float_tail_core.
Qed.
(** the stripped text of an accepted string has no whitespace and no d *)
Lemma accepted_core s v : py_float_opt s = Some v -> forallb core_char (cstrip s) = true.
Proof.
  unfold py_float_opt. intro H. apply float_body_core in H.
  destruct (sign_split (cstrip s)) as [p [Ep Fp]]. rewrite Ep, forallb_app, (signs_core _ Fp), H. reflexivity.
Qed.

(** ** float() is case-insensitive *)
Lemma lower_idem c : lower_c (lower_c c) = lower_c c. Proof. brute c. Qed.
Lemma lower_lower r : lower (lower r) = lower r.
Proof. unfold lower. rewrite map_map. apply map_ext. exact lower_idem. Qed.
Lemma digit_lower c : is_digit (lower_c c) = is_digit c. Proof. brute c. Qed.
Lemma us_lower c : ceqb (lower_c c) "_" = ceqb c "_". Proof. brute c. Qed.
Lemma ndval_lower c : is_digit c = true -> ndval (lower_c c) = ndval c. Proof. brute c. Qed.
Lemma dot_lower c : ceqb (lower_c c) "." = ceqb c ".". Proof. brute c. Qed.
Lemma minus_lower c : ceqb (lower_c c) "-" = ceqb c "-". Proof. brute c. Qed.
Lemma plus_lower c : ceqb (lower_c c) "+" = ceqb c "+". Proof. brute c. Qed.

Lemma digits_tail_lower_n n : forall acc cnt s, (length s <= n)%nat ->
  digits_tail acc cnt (lower s) = (fst (fst (digits_tail acc cnt s)), snd (fst (digits_tail acc cnt s)), lower (snd (digits_tail acc cnt s))).
Proof.
  induction n as [|n IH]; intros acc cnt s L.
  - destruct s; [reflexivity|cbn in L; lia].
  - destruct s as [|c r]; [reflexivity|]. cbn [lower map digits_tail]. fold (lower r).
    rewrite digit_lower. destruct (is_digit c) eqn:D.
    + rewrite (ndval_lower _ D). apply IH. cbn in L; lia.
    + rewrite us_lower. destruct (ceqb c "_") eqn:U; [|reflexivity].
      destruct r as [|c2 r2]; [reflexivity|]. cbn [lower map]. fold (lower r2).
      rewrite digit_lower. destruct (is_digit c2) eqn:D2; [|reflexivity].
      rewrite (ndval_lower _ D2). apply IH. cbn in L; lia.
Qed.
Lemma digitpart_lower acc s :
  digitpart acc (lower s) = match digitpart acc s with Some (v, n, r) => Some (v, n, lower r) | None => None end.
Proof.
  destruct s as [|c r]; [reflexivity|]. cbn [lower map digitpart]. fold (lower r). rewrite digit_lower.
  destruct (is_digit c) eqn:D; [|reflexivity]. rewrite (ndval_lower _ D).
  rewrite (digits_tail_lower_n (length r)) by lia.
  destruct (digits_tail (acc * 10 + ndval c) 1 r) as [[v n] rest]. reflexivity.
Qed.
Lemma sign_lower s : sign (lower s) = (fst (sign s), lower (snd (sign s))).
Proof.
  destruct s as [|c r]; [reflexivity|]. cbn [lower map sign]. fold (lower r). rewrite minus_lower, plus_lower.
  destruct (ceqb c "-"); [reflexivity|]. destruct (ceqb c "+"); reflexivity.
Qed.
Lemma lower_nil r : lower r = [] <-> r = [].
Proof. destruct r; cbn; split; intro H; try reflexivity; discriminate. Qed.
Lemma exponent_lower s : exponent (lower s) = exponent s.
Proof.
  destruct s as [|c r]; [reflexivity|]. cbn [lower map exponent]. fold (lower r). rewrite lower_idem.
  destruct (ceqb (lower_c c) "e"); [|reflexivity].
  rewrite sign_lower. destruct (sign r) as [ng r1]. cbn [fst snd]. rewrite digitpart_lower.
  destruct (digitpart 0 r1) as [[[v n] r2]|]; [|reflexivity]. destruct r2; reflexivity.
Qed.
Lemma finish_exp_lower ng m nd r : finish_exp ng m nd (lower r) = finish_exp ng m nd r.
Proof. unfold finish_exp. rewrite exponent_lower. reflexivity. Qed.
Lemma float_tail_lower ng h ip r : float_tail ng h ip (lower r) = float_tail ng h ip r.
Proof.
  destruct r as [|c r2]; [reflexivity|]. cbn [lower map float_tail]. fold (lower r2). rewrite dot_lower.
  destruct (ceqb c ".").
  - rewrite digitpart_lower. destruct (digitpart ip r2) as [[[m nd] r3]|]; [apply finish_exp_lower|].
    destruct h; [apply finish_exp_lower|reflexivity].
  - destruct h; [|reflexivity]. change (lower_c c :: lower r2) with (lower (c :: r2)). apply finish_exp_lower.
Qed.
Lemma float_body_lower ng r : float_body ng (lower r) = float_body ng r.
Proof.
  unfold float_body. rewrite lower_lower.
  destruct (str_eqb (lower r) (s2l "inf") || str_eqb (lower r) (s2l "infinity")); [reflexivity|].
  destruct (str_eqb (lower r) (s2l "nan")); [reflexivity|].
  rewrite digitpart_lower. destruct (digitpart 0 r) as [[[ip n0] r1]|]; apply float_tail_lower.
Qed.

(** ** strip of an accepted string *)
Lemma lstrip_by_id p s : match s with [] => True | c :: _ => p c = false end -> lstrip_by p s = s.
Proof. destruct s as [|c r]; [reflexivity|]. cbn. intros ->. reflexivity. Qed.
Lemma strip_by_nochar p s : forallb (fun c => negb (p c)) s = true -> strip_by p s = s.
Proof.
  intro H. unfold strip_by, rstrip_by. rewrite (lstrip_by_id p s).
  2:{ destruct s as [|c r]; [exact I|]. cbn in H. apply andb_prop in H as [H _]. destruct (p c); [discriminate|reflexivity]. }
  rewrite (lstrip_by_id p (rev s)); [apply rev_involutive|].
  rewrite <- forallb_rev in H. destruct (rev s) as [|c r]; [exact I|]. cbn in H. apply andb_prop in H as [H _].
  destruct (p c); [discriminate|reflexivity].
Qed.
Lemma lstrip_by_app p a s : forallb p a = true -> lstrip_by p (a ++ s) = lstrip_by p s.
Proof. induction a as [|x a IH]; [reflexivity|]. cbn. intro H. apply andb_prop in H as [H1 H2]. rewrite H1. exact (IH H2). Qed.
(** wrapping a space-free core in whitespace and stripping gives the core back *)
Lemma strip_by_wrap p a core b :
  forallb p a = true -> forallb p b = true -> forallb (fun c => negb (p c)) core = true ->
  strip_by p (a ++ core ++ b) = core.
Proof.
  intros Ha Hb Hc. destruct core as [|c0 core'].
  - cbn [app]. unfold strip_by, rstrip_by. rewrite (lstrip_by_all p (a ++ b)); [reflexivity|]. rewrite forallb_app, Ha, Hb. reflexivity.
  - unfold strip_by, rstrip_by. rewrite lstrip_by_app by exact Ha.
    rewrite (lstrip_by_id p ((c0 :: core') ++ b)).
    2:{ cbn. cbn in Hc. apply andb_prop in Hc as [H _]. destruct (p c0); [discriminate|reflexivity]. }
    rewrite rev_app_distr. rewrite lstrip_by_app by (rewrite forallb_rev; exact Hb).
    rewrite (lstrip_by_id p (rev (c0 :: core'))); [apply rev_involutive|].
    rewrite <- forallb_rev in Hc. destruct (rev (c0 :: core')) as [|c r]; [exact I|]. cbn in Hc. apply andb_prop in Hc as [H _].
    destruct (p c); [discriminate|reflexivity].
Qed.

Lemma replace1_absent c new s : forallb (fun x => negb (ceqb x c)) s = true -> replace1 c new s = s.
Proof.
  unfold replace1. induction s as [|x s IH]; [reflexivity|]. cbn. intro H. apply andb_prop in H as [H1 H2].
  destruct (ceqb x c); [discriminate|]. cbn. f_equal. exact (IH H2).
Qed.

(** THE key lemma: if float() accepts [s], it accepts the normalised text with the same value *)
Theorem float_accepts_norm s v : py_float_opt s = Some v -> py_float_opt (norm (strip s)) = Some v.
Proof.
  intro H. pose proof (accepted_core s v H) as C. set (core := cstrip s) in *.
  destruct (strip_by_split is_cspace s) as [a [b [E [Fa Fb]]]]. fold (cstrip s) in E. fold core in E.
  assert (Cs : forallb (fun c => negb (is_space c)) core = true).
  { eapply forallb_impl; [|exact C]. intros x Hx. destruct (core_facts x Hx) as [-> _]. reflexivity. }
  assert (St : strip s = core).
  { rewrite E. apply strip_by_wrap; [exact (forallb_impl _ _ _ cspace_space Fa)|exact (forallb_impl _ _ _ cspace_space Fb)|exact Cs]. }
  rewrite St. unfold norm.
  assert (L : forallb core_char (lower core) = true).
  { unfold lower. rewrite forallb_forall. intros x Hx. apply in_map_iff in Hx as [y [<- Hy]]. rewrite core_lower.
    rewrite forallb_forall in C. exact (C y Hy). }
  rewrite (replace1_absent "d" (s2l "e") (lower core)).
  2:{ rewrite forallb_forall. intros x Hx. apply in_map_iff in Hx as [y [<- Hy]]. rewrite forallb_forall in C.
      destruct (core_facts y (C y Hy)) as (_ & _ & D & _). rewrite D. reflexivity. }
  rewrite (replace1_absent " " [] (lower core)).
  2:{ rewrite forallb_forall. intros x Hx. apply in_map_iff in Hx as [y [<- Hy]]. rewrite forallb_forall in C.
      destruct (core_facts y (C y Hy)) as (_ & _ & _ & B & _). rewrite B. reflexivity. }
  unfold py_float_opt. unfold cstrip at 1 2. rewrite (strip_by_nochar is_cspace (lower core)).
  2:{ rewrite forallb_forall. intros x Hx. apply in_map_iff in Hx as [y [<- Hy]]. rewrite forallb_forall in C.
      destruct (core_facts y (C y Hy)) as (_ & _ & _ & _ & B). rewrite B. reflexivity. }
  rewrite sign_lower. cbn [fst snd]. rewrite float_body_lower. exact H.
Qed.

(** for every non-blank string, [fortran_float] is the cascade on the normalised text *)
Theorem ff_normal_form s bv : strip s <> [] -> fortran_float s bv = VFloat (cascade (norm (strip s))).
Proof.
  intro NE. unfold fortran_float. destruct (py_float_opt s) as [v|] eqn:E.
  - unfold cascade. rewrite (float_accepts_norm s v E). reflexivity.
  - destruct (strip s) as [|t0 t] eqn:Et; [congruence|]. reflexivity.
Qed.
(** blanks inside the field, the case of letters and D-for-E do not matter *)
Corollary ff_depends_on_norm_only s s' bv : strip s <> [] -> strip s' <> [] ->
  norm (strip s) = norm (strip s') -> fortran_float s bv = fortran_float s' bv.
Proof. intros H H' E. rewrite !ff_normal_form by assumption. rewrite E. reflexivity. Qed.
