(** C12 -- in_polygon and vertices with a straight angle (columns with three collinear vertices):
    a vertex lying strictly between its two neighbours on their segment can be removed without
    changing the crossing count, so [in_polygon_convex] extends to convex polygons with straight
    angles through their strictly convex hull polygon. *)
From Coq Require Import List Bool Arith ZArith PArith QArith Qabs Lia Lqa.
From Gen Require Import GenGeom.
From P Require Import Locate LocBasics LocPolygon LocConvex.
Import ListNotations.
Open Scope Q_scope.

(** m = a + s (b - a), 0 < s < 1 *)
Definition between (a m b : pt) : Prop :=
  exists s, 0 < s /\ s < 1 /\ px m == px a + s * (px b - px a) /\ py m == py a + s * (py b - py a).

Lemma between_shift r a m b : between a m b -> between (psub a r) (psub m r) (psub b r).
Proof.
  intros [s [S0 [S1 [Ex Ey]]]]. exists s. unfold psub, px, py in *. cbn [fst snd]. repeat split; try assumption.
  - rewrite Ex. ring.
  - rewrite Ey. ring.
Qed.

Definition cnum (v a b : pt) : nat := if crossing v a b then 1%nat else 0%nat.

(** the two halves of a split edge cross the ray exactly when the whole edge does *)
Lemma crossing_split v a m b : between a m b -> (cnum v a m + cnum v m b = cnum v a b)%nat.
Proof.
  intros [s [S0 [S1 [Ex Ey]]]]. unfold cnum. rewrite !crossing_eq, !straddles_xor.
  unfold below.
  destruct (qle (py a) (py v)) eqn:Ba; destruct (qle (py b) (py v)) eqn:Bb;
    destruct (qle (py m) (py v)) eqn:Bm; cbn [xorb];
    try (apply qle_spec in Ba); try (apply qle_false in Ba);
    try (apply qle_spec in Bb); try (apply qle_false in Bb);
    try (apply qle_spec in Bm); try (apply qle_false in Bm);
    try reflexivity; try (exfalso; nra).
  all: unfold xcross, psub, px, py in *; cbn [fst snd].
  all: set (xa := fst a) in *; set (ya := snd a) in *; set (xb := fst b) in *; set (yb := snd b) in *;
       set (xm := fst m) in *; set (ym := snd m) in *; set (t := snd v) in *; set (xv := fst v) in *.
  - (* a below, b above, m below: the upper half carries the crossing *)
    assert (E : xm + (t - ym) * (xb - xm) / (yb - ym) == xa + (t - ya) * (xb - xa) / (yb - ya)).
    { rewrite Ex, Ey. field. split; nra. }
    rewrite (qlt_compat xv _ _ E). destruct (qlt xv _); reflexivity.
  - assert (E : xa + (t - ya) * (xm - xa) / (ym - ya) == xa + (t - ya) * (xb - xa) / (yb - ya)).
    { rewrite Ex, Ey. field. split; nra. }
    rewrite (qlt_compat xv _ _ E). destruct (qlt xv _); reflexivity.
  - assert (E : xa + (t - ya) * (xm - xa) / (ym - ya) == xa + (t - ya) * (xb - xa) / (yb - ya)).
    { rewrite Ex, Ey. field. split; nra. }
    rewrite (qlt_compat xv _ _ E). destruct (qlt xv _); reflexivity.
  - assert (E : xm + (t - ym) * (xb - xm) / (yb - ym) == xa + (t - ya) * (xb - xa) / (yb - ya)).
    { rewrite Ex, Ey. field. split; nra. }
    rewrite (qlt_compat xv _ _ E). destruct (qlt xv _); reflexivity.
Qed.

(** crossings along a chain of points *)
Fixpoint csum (v : pt) (c : list pt) : nat :=
  match c with
  | a :: ((b :: _) as r) => (cnum v a b + csum v r)%nat
  | _ => 0%nat
  end.
Lemma csum_cons2 v a b r : csum v (a :: b :: r) = (cnum v a b + csum v (b :: r))%nat.
Proof. reflexivity. Qed.
Lemma count_csum v c : count_crossings v (pairs c) = csum v c.
Proof.
  rewrite count_crossings_filter. induction c as [|a r IH]; [reflexivity|]. destruct r as [|b r']; [reflexivity|].
  rewrite pairs_cons2, csum_cons2. cbn [filter fst snd]. unfold cnum at 1.
  destruct (crossing v a b); cbn [length]; rewrite IH; reflexivity.
Qed.

Lemma csum_remove v X a m b Y : between a m b -> csum v (X ++ a :: m :: b :: Y) = csum v (X ++ a :: b :: Y).
Proof.
  intro H. induction X as [|x X' IH]; cbn [app].
  - rewrite !csum_cons2. rewrite <- (crossing_split v a m b H). lia.
  - destruct X' as [|x' X'']; cbn [app] in *.
    + rewrite (csum_cons2 v x a (m :: b :: Y)), (csum_cons2 v x a (b :: Y)), IH. reflexivity.
    + rewrite (csum_cons2 v x x' (X'' ++ a :: m :: b :: Y)), (csum_cons2 v x x' (X'' ++ a :: b :: Y)), IH. reflexivity.
Qed.

Lemma in_polygon_csum pos l :
  in_polygon pos l = match l with
                     | [] => false
                     | r :: _ => Nat.odd (csum (psub pos r) (map (fun p => psub p r) (l ++ [r])))
                     end.
Proof.
  rewrite in_polygon_count. destruct l as [|r t]; [reflexivity|].
  unfold edges. cbn [map]. rewrite count_csum. rewrite map_app. reflexivity.
Qed.

(** a straight-angle vertex that is not the first vertex of the list can be dropped *)
Lemma in_polygon_drop_mid pos X a m b Y : between a m b ->
  in_polygon pos (X ++ a :: m :: b :: Y) = in_polygon pos (X ++ a :: b :: Y).
Proof.
  intro H. rewrite !in_polygon_csum. destruct X as [|r X']; cbn [app].
  - cbn [map]. apply f_equal.
    apply (csum_remove _ [] _ _ _ (map (fun p => psub p a) (Y ++ [a])) (between_shift a a m b H)).
  - rewrite <- !app_assoc. cbn [app map]. rewrite !map_app. cbn [map]. apply f_equal.
    apply (csum_remove _ (psub r r :: map (fun p => psub p r) X') _ _ _ _ (between_shift r a m b H)).
Qed.
(** ... also when it is the last vertex, between its predecessor and the first vertex *)
Lemma in_polygon_drop_last pos p0 mid a m : between a m p0 ->
  in_polygon pos (p0 :: mid ++ [a; m]) = in_polygon pos (p0 :: mid ++ [a]).
Proof.
  intro H. rewrite !in_polygon_csum.
  replace ((p0 :: mid ++ [a; m]) ++ [p0]) with ((p0 :: mid) ++ a :: m :: p0 :: []) by (cbn [app]; rewrite <- app_assoc; reflexivity).
  replace ((p0 :: mid ++ [a]) ++ [p0]) with ((p0 :: mid) ++ a :: p0 :: []) by (cbn [app]; rewrite <- app_assoc; reflexivity).
  rewrite !map_app. cbn [map]. apply f_equal.
  apply (csum_remove _ _ _ _ _ _ (between_shift p0 a m p0 H)).
Qed.

(** polygons related by dropping straight-angle vertices (never the first one) *)
Inductive straightens : list pt -> list pt -> Prop :=
| st_refl l : straightens l l
| st_mid X a m b Y l' : between a m b -> straightens (X ++ a :: b :: Y) l' -> straightens (X ++ a :: m :: b :: Y) l'
| st_last p0 mid a m l' : between a m p0 -> straightens (p0 :: mid ++ [a]) l' -> straightens (p0 :: mid ++ [a; m]) l'.
Lemma straightens_in_polygon pos l l' : straightens l l' -> in_polygon pos l = in_polygon pos l'.
Proof.
  induction 1 as [l|X a m b Y l' H _ IH|p0 mid a m l' H _ IH]; [reflexivity| |].
  - rewrite (in_polygon_drop_mid pos X a m b Y H). exact IH.
  - rewrite (in_polygon_drop_last pos p0 mid a m H). exact IH.
Qed.

(** in_polygon is correct for a convex polygon with straight angles: it agrees with strict
    insideness of the strictly convex polygon obtained by dropping the straight-angle vertices *)
Lemma in_polygon_convex_straight l l' pos :
  straightens l l' -> (3 <= length l')%nat -> convex_ccw l' -> off_edge_lines l' pos ->
  (in_polygon pos l = true <-> strictly_inside l' pos).
Proof.
  intros Hs Hn Hc Ho. rewrite (straightens_in_polygon pos l l' Hs). apply in_polygon_convex_l; assumption.
Qed.

(** example: the unit square with a mid-side vertex on its top side *)
Lemma ex_straight : straightens [(2, 0); (2, 2); (1, 2); (0, 2); (0, 0)] [(2, 0); (2, 2); (0, 2); (0, 0)] /\
                    convex_ccw [(2, 0); (2, 2); (0, 2); (0, 0)] /\
                    ~ convex_ccw [(2, 0); (2, 2); (1, 2); (0, 2); (0, 0)].
Proof.
  split; [|split].
  - apply (st_mid [(2, 0)] (2, 2) (1, 2) (0, 2) [(0, 0)]); [|apply st_refl].
    exists (1 # 2). unfold px, py; cbn [fst snd]. repeat split; try reflexivity; lra.
  - apply rectangle_convex; reflexivity.
  - intro H. assert (S : sublist [(2, 2); (1, 2); (0, 2)] [(2, 0); (2, 2); (1, 2); (0, 2); (0, 0)]).
    { apply sl_skip, sl_take, sl_take, sl_take. constructor. }
    specialize (H _ _ _ S). vm_compute in H. discriminate.
Qed.
