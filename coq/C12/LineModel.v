(** C12 -- executable model (exact rationals) of geometry.line_polygon_intersections and
    geometry.line_intersects_rectangle.

    [line_polygon_intersections(polygon, line)] (bound_line = (True, True)): for every edge
    p1 -> p2 the 2 x 2 system  p1 + xi0 (p2 - p1) = l1 + xi1 (l2 - l1)  is solved
    ([np.linalg.solve] = Cramer's rule in exact arithmetic; a singular matrix raises
    LinAlgError and the edge is skipped); the point is kept when both parameters lie in
    [-tol, 1 + tol] ([lpi_tol] = 1e-9 is read from the source).  The code works relative to
    polygon[0]; in exact arithmetic that shift cancels.

    STATED ABSTRACTION.  The implementation then removes duplicates: identical points (dict keys)
    and points whose distances from line[0], divided by the polygon's longest side and rounded to
    three decimals, coincide ([np.unique]); the survivors are sorted by that rounded distance.
    Distances need a square root, so the model stops at the hits sorted by the line parameter xi1
    ([lpi_sorted]).  Order by xi1 = order by distance from line[0]; the rounding merges only hits
    less than 1e-3 x longest side apart, and [column_track] uses only the first and the last
    point and drops the column when they are at most 1e-3 x longest side apart, so for a
    convex column (at most two distinct boundary points on a line) the merge cannot change the
    track.  The harness applies the same merge (in doubles) to the model's hits before comparing
    them with the implementation's list. *)
From Coq Require Import List Bool Arith ZArith PArith QArith Qabs Qreduction Lia.
From Gen Require Import GenGeom.
From P Require Import Locate.
Import ListNotations.
Open Scope Q_scope.

Definition in_unit (x : Q) : bool := qle (- lpi_tol) x && qle x (1 + lpi_tol).

Record hit := mkHit { h_xi0 : Q; h_xi1 : Q; h_pt : pt }.

Definition lpi_edge (l1 l2 p1 p2 : pt) : option hit :=
  let dp := psub p2 p1 in
  let dl := psub l1 l2 in
  let b := psub l1 p1 in
  let det := px dp * py dl - py dp * px dl in
  if Qeq_bool det 0 then None
  else
    let xi0 := (px b * py dl - py b * px dl) / det in
    let xi1 := (px dp * py b - py dp * px b) / det in
    if in_unit xi0 && in_unit xi1
    then Some (mkHit xi0 xi1 (px p1 + xi0 * px dp, py p1 + xi0 * py dp))
    else None.

(** the hits in edge order *)
Definition lpi_hits (poly : list pt) (l1 l2 : pt) : list hit :=
  flat_map (fun e => match lpi_edge l1 l2 (fst e) (snd e) with Some h => [h] | None => [] end) (edges poly).

(** sorted by the parameter along the line (= by distance from line[0]) *)
Definition lpi_sorted (poly : list pt) (l1 l2 : pt) : list hit := sort_by h_xi1 (lpi_hits poly l1 l2).
Definition lpi_points (poly : list pt) (l1 l2 : pt) : list pt := map h_pt (lpi_sorted poly l1 l2).

(** [line_intersects_rectangle(rect, line)]: simplified Cohen-Sutherland.  Codes are
    (left, right, lower, upper); [elif] makes left/right and lower/upper exclusive. *)
Record code := mkCode { c_left : bool; c_right : bool; c_lower : bool; c_upper : bool }.
Definition cs_code (r : rect) (x y : Q) : code :=
  let l := qlt x (px (fst r)) in
  let lo := qlt y (py (fst r)) in
  mkCode l (negb l && qlt (px (snd r)) x) lo (negb lo && qlt (py (snd r)) y).
Definition code_zero (k : code) : bool := negb (c_left k || c_right k || c_lower k || c_upper k).
Definition code_and (k1 k2 : code) : bool :=
  (c_left k1 && c_left k2) || (c_right k1 && c_right k2) || (c_lower k1 && c_lower k2) || (c_upper k1 && c_upper k2).

(** the new end point for the code [opt] (first applicable of UPPER, LOWER, RIGHT, LEFT) *)
Definition cs_clip (r : rect) (opt : code) (x1 y1 x2 y2 : Q) : Q * Q :=
  if c_upper opt then (x1 + (x2 - x1) * (py (snd r) - y1) / (y2 - y1), py (snd r))
  else if c_lower opt then (x1 + (x2 - x1) * (py (fst r) - y1) / (y2 - y1), py (fst r))
  else if c_right opt then (px (snd r), y1 + (y2 - y1) * (px (snd r) - x1) / (x2 - x1))
  else (px (fst r), y1 + (y2 - y1) * (px (fst r) - x1) / (x2 - x1)).

(** the [while (k1 | k2) != 0] loop; it ends within four rounds, [fuel] only makes the
    recursion structural (an exhausted fuel answers true, which no theorem relies on) *)
Fixpoint lir_loop (fuel : nat) (r : rect) (x1 y1 x2 y2 : Q) : bool :=
  let k1 := cs_code r x1 y1 in
  let k2 := cs_code r x2 y2 in
  if code_zero k1 && code_zero k2 then true
  else if code_and k1 k2 then false
  else match fuel with
       | O => true
       | S f =>
           if negb (code_zero k1)
           then let '(x, y) := cs_clip r k1 x1 y1 x2 y2 in lir_loop f r x y x2 y2
           else let '(x, y) := cs_clip r k2 x1 y1 x2 y2 in lir_loop f r x1 y1 x y
       end.
Definition line_intersects_rectangle (r : rect) (l1 l2 : pt) : bool :=
  lir_loop 8 r (px l1) (py l1) (px l2) (py l2).
(** rounds used (for the driver: the fuel bound must not be reached) *)
Fixpoint lir_rounds (fuel : nat) (r : rect) (x1 y1 x2 y2 : Q) : nat :=
  let k1 := cs_code r x1 y1 in
  let k2 := cs_code r x2 y2 in
  if code_zero k1 && code_zero k2 then O
  else if code_and k1 k2 then O
  else match fuel with
       | O => 1%nat
       | S f =>
           S (if negb (code_zero k1)
              then let '(x, y) := cs_clip r k1 x1 y1 x2 y2 in lir_rounds f r x y x2 y2
              else let '(x, y) := cs_clip r k2 x1 y1 x2 y2 in lir_rounds f r x1 y1 x y)
       end.
