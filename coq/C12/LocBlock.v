(** C12 -- layers and blocks: [layer_containing_elevation], [block_containing_point]
    ([mulgrid.block_name_containing_point]) against [block_contains_point]. *)
From Coq Require Import List Bool Arith ZArith PArith QArith Lia.
From Gen Require Import GenGeom.
From P Require Import Locate LocBasics LocSearch.
Import ListNotations.
Open Scope Q_scope.

Lemma contains_elevation_spec l z : contains_elevation l z = true <-> lbottom l <= z /\ z <= ltop l.
Proof. unfold contains_elevation. rewrite andb_true_iff, !qle_spec. reflexivity. Qed.

Lemma find_layer_some i0 ls z i :
  find_layer i0 ls z = Some i ->
  (i0 <= i)%nat /\ exists l, nth_error ls (i - i0) = Some l /\ contains_elevation l z = true.
Proof.
  revert i0. induction ls as [|l r IH]; intros i0 H; cbn [find_layer] in H; [discriminate|].
  destruct (contains_elevation l z) eqn:E.
  - inversion H; subst. split; [lia|]. exists l. rewrite Nat.sub_diag. split; [reflexivity|exact E].
  - apply IH in H. destruct H as [H1 [l' [H2 H3]]]. split; [lia|]. exists l'.
    replace (i - i0)%nat with (S (i - S i0)) by lia. split; assumption.
Qed.
Lemma find_layer_complete i0 ls z k l :
  nth_error ls k = Some l -> contains_elevation l z = true -> exists i, find_layer i0 ls z = Some i.
Proof.
  revert i0 k. induction ls as [|l0 r IH]; intros i0 k Hn Hc; [destruct k; discriminate|].
  cbn [find_layer]. destruct (contains_elevation l0 z) eqn:E; [eauto|].
  destruct k as [|k]; cbn [nth_error] in Hn; [inversion Hn; subst; congruence|].
  eapply IH; eauto.
Qed.

Lemma nth_error_tl {A} (l : list A) i : nth_error (tl l) i = nth_error l (S i).
Proof. destruct l; [destruct i; reflexivity|reflexivity]. Qed.

Lemma layer_containing_elevation_some layerlist z i :
  layer_containing_elevation layerlist z = Some i ->
  (1 <= i)%nat /\ exists l, nth_error layerlist i = Some l /\ contains_elevation l z = true.
Proof.
  unfold layer_containing_elevation. intro H. apply find_layer_some in H.
  destruct H as [H1 [l [H2 H3]]]. split; [exact H1|]. exists l. split; [|exact H3].
  rewrite nth_error_tl in H2. replace (S (i - 1)) with i in H2 by lia. exact H2.
Qed.

(** layers are stacked: a layer lower in the list lies (weakly) below every earlier one *)
Definition stacked (ls : list layer) : Prop :=
  forall i j li lj, (i < j)%nat -> nth_error ls i = Some li -> nth_error ls j = Some lj ->
                    ltop lj <= lbottom li.
(** the elevation is not on a layer boundary *)
Definition off_boundaries (ls : list layer) (z : Q) : Prop :=
  forall l, In l ls -> ~ z == lbottom l /\ ~ z == ltop l.

(** layers partition the elevations: off the boundaries at most one layer contains z *)
Lemma layer_unique ls z i j li lj :
  stacked ls -> off_boundaries ls z ->
  nth_error ls i = Some li -> nth_error ls j = Some lj ->
  contains_elevation li z = true -> contains_elevation lj z = true -> i = j.
Proof.
  intros Hs Ho Hi Hj Ci Cj.
  apply contains_elevation_spec in Ci. apply contains_elevation_spec in Cj.
  destruct (Nat.lt_trichotomy i j) as [L|[E|L]]; [|exact E|]; exfalso.
  - pose proof (Hs i j li lj L Hi Hj) as H.
    destruct (Ho li (nth_error_In _ _ Hi)) as [Hb _]. apply Hb.
    apply Qle_antisym; [|tauto]. eapply Qle_trans; [|exact H]. tauto.
  - pose proof (Hs j i lj li L Hj Hi) as H.
    destruct (Ho lj (nth_error_In _ _ Hj)) as [Hb _]. apply Hb.
    apply Qle_antisym; [|tauto]. eapply Qle_trans; [|exact H]. tauto.
Qed.

Lemma layer_containing_elevation_complete layerlist z k l :
  stacked layerlist -> off_boundaries layerlist z ->
  (1 <= k)%nat -> nth_error layerlist k = Some l -> contains_elevation l z = true ->
  layer_containing_elevation layerlist z = Some k.
Proof.
  intros Hs Ho Hk Hn Hc. unfold layer_containing_elevation.
  destruct (find_layer_complete 1 (tl layerlist) z (k - 1) l) as [i Hi]; auto.
  { rewrite nth_error_tl. replace (S (k - 1)) with k by lia. exact Hn. }
  rewrite Hi. f_equal.
  pose proof (layer_containing_elevation_some layerlist z i Hi) as [_ [l' [H2 H3]]].
  eapply layer_unique; eauto.
Qed.

Section BlockFacts.
  Variable polygon : positive -> list pt.
  Variable centre : positive -> pt.
  Variable nbrs : positive -> list positive.
  Variable bbox : positive -> rect.
  Variable surface : positive -> Q.
  Variable columnlist : list positive.
  Variable layerlist : list layer.

  Notation contains c pos := (contains_point polygon c pos).
  Notation ccp := (column_containing_point polygon centre nbrs bbox columnlist).
  Notation bcp := (block_containing_point polygon centre nbrs bbox surface columnlist layerlist).
  Notation blk_contains := (block_contains_point polygon surface columnlist layerlist).

  (** the case "above the top of layer 1 but below the column's surface" of block_name_containing_point *)
  Definition surface_case (z : Q) (col : positive) : bool :=
    qlt (atm_bottom layerlist) z && qle z (surface col).

  (** what a reported block satisfies *)
  Lemma bcp_sound pos z qt li col :
    bcp pos z qt = Some (li, col) ->
    ccp pos None None None qt = Some col /\ contains col pos = true /\
    exists l, nth_error layerlist li = Some l /\ lbottom l < surface col /\
              ((surface_case z col = true /\ li = 1%nat) \/
               (surface_case z col = false /\ (1 <= li)%nat /\ contains_elevation l z = true)).
  Proof.
    unfold Locate.block_containing_point.
    destruct (ccp pos None None None qt) as [c|] eqn:Ec; [|discriminate].
    fold (surface_case z c).
    destruct (surface_case z c) eqn:Es.
    - destruct (nth_error layerlist 1) as [l1|] eqn:E1; [|discriminate].
      rewrite E1. destruct (qlt (lbottom l1) (surface c)) eqn:Eq; [|discriminate].
      intro H; inversion H; subst li col. split; [reflexivity|].
      split; [eapply ccp_sound; exact Ec|].
      exists l1. split; [exact E1|]. split; [apply qlt_spec; exact Eq|]. left; split; [exact Es|reflexivity].
    - destruct (layer_containing_elevation layerlist z) as [k|] eqn:Ek; [|discriminate].
      destruct (nth_error layerlist k) as [l|] eqn:En; [|discriminate].
      destruct (qlt (lbottom l) (surface c)) eqn:Eq; [|discriminate].
      intro H; inversion H; subst li col. split; [reflexivity|].
      split; [eapply ccp_sound; exact Ec|].
      apply layer_containing_elevation_some in Ek. destruct Ek as [K1 [l' [K2 K3]]].
      rewrite En in K2; inversion K2; subst l'.
      exists l. split; [exact En|]. split; [apply qlt_spec; exact Eq|]. right. auto.
  Qed.

  (** outside every column there is no block *)
  Lemma bcp_outside pos z qt : (forall c, contains c pos = false) -> bcp pos z qt = None.
  Proof.
    intro H. unfold Locate.block_containing_point. rewrite (ccp_outside _ _ _ _ _ _ _ _ _ _ H). reflexivity.
  Qed.

  (** at most one block contains a 3-D point (tiling columns, stacked layers, z off the boundaries) *)
  Lemma blk_contains_unique pos z li col li' col' :
    tiling polygon pos -> stacked layerlist -> off_boundaries layerlist z ->
    blk_contains li col pos z = true -> blk_contains li' col' pos z = true ->
    li' = li /\ col' = col.
  Proof.
    intros Ht Hs Ho H1 H2. unfold Locate.block_contains_point in *.
    apply andb_true_iff in H1. destruct H1 as [_ H1]. apply andb_true_iff in H2. destruct H2 as [_ H2].
    destruct (nth_error layerlist li) as [l|] eqn:E1; [|discriminate].
    destruct (nth_error layerlist li') as [l'|] eqn:E2; [|discriminate].
    apply andb_true_iff in H1. destruct H1 as [H1 C1]. apply andb_true_iff in H1. destruct H1 as [_ Z1].
    apply andb_true_iff in H2. destruct H2 as [H2 C2]. apply andb_true_iff in H2. destruct H2 as [_ Z2].
    split; [eapply layer_unique; eauto|apply Ht; assumption].
  Qed.

  (** the reported block contains the point (outside the surface case), and it is the unique such block *)
  Lemma bcp_unique pos z qt li col :
    tiling polygon pos -> stacked layerlist -> off_boundaries layerlist z ->
    bcp pos z qt = Some (li, col) -> In col columnlist -> surface_case z col = false ->
    blk_contains li col pos z = true /\
    forall li' col', blk_contains li' col' pos z = true -> li' = li /\ col' = col.
  Proof.
    intros Ht Hs Ho H Hin Hsc.
    apply bcp_sound in H. destruct H as [_ [Hc [l [Hn [Hlt Hcase]]]]].
    destruct Hcase as [[Hsc' _]|[_ [Hli Hz]]]; [congruence|].
    assert (B : blk_contains li col pos z = true).
    { unfold Locate.block_contains_point. rewrite Hn.
      apply andb_true_iff. split; [apply pmem_spec; exact Hin|].
      rewrite Hz, Hc. apply qlt_spec in Hlt. rewrite Hlt. reflexivity. }
    split; [exact B|]. intros li' col' B'. eapply blk_contains_unique; eauto.
  Qed.

  (** completeness: a block (of a layer below the atmosphere layer) that contains the point is the one reported *)
  Lemma bcp_complete pos z qt li col :
    tiling polygon pos -> stacked layerlist -> off_boundaries layerlist z ->
    (1 <= li)%nat -> blk_contains li col pos z = true ->
    near_point bbox col pos = true ->
    (forall t, qt = Some t -> qtree_finds nbrs bbox t pos col) ->
    bcp pos z qt = Some (li, col).
  Proof.
    intros Ht Hs Ho Hli B Hn Hq. unfold Locate.block_contains_point in B.
    apply andb_true_iff in B. destruct B as [Hin B]. apply pmem_spec in Hin.
    destruct (nth_error layerlist li) as [l|] eqn:E1; [|discriminate].
    apply andb_true_iff in B. destruct B as [B C]. apply andb_true_iff in B. destruct B as [Hlt Z].
    destruct (ccp_aids_agree polygon centre nbrs bbox columnlist pos None None None qt col) as [A _]; auto.
    unfold Locate.block_containing_point. rewrite A.
    assert (Hsc : qlt (atm_bottom layerlist) z && qle z (surface col) = false).
    { apply andb_false_iff. left. apply qlt_false.
      unfold atm_bottom. destruct layerlist as [|l0 r] eqn:El; [destruct li; discriminate|].
      apply contains_elevation_spec in Z. eapply Qle_trans; [apply Z|].
      apply (Hs 0%nat li l0 l); [lia|reflexivity|exact E1]. }
    rewrite Hsc.
    rewrite (layer_containing_elevation_complete layerlist z li l Hs Ho Hli E1 Z).
    rewrite E1, Hlt. reflexivity.
  Qed.
End BlockFacts.
