(** C12 -- [in_polygon]: the crossing count.  The number of edges of a closed polygon that
    straddle the horizontal line through the point is even (each such edge switches sides);
    hence a point with an odd number of crossings to its right also has an edge crossing at
    or to its left, and lies in the polygon's bounding box: the bounding-box pre-filter
    ([near_point]) of the searches never discards the containing column. *)
From Coq Require Import List Bool Arith ZArith PArith QArith Qabs Lia Lqa.
From Gen Require Import GenGeom.
From P Require Import Locate LocBasics.
Import ListNotations.
Open Scope Q_scope.

(** ** parity of the straddling edges of a chain *)
Section Parity.
  Variable v : pt.
  Definition below (p : pt) : bool := qle (py p) (py v).

  Lemma straddles_xor p1 p2 : straddles v p1 p2 = xorb (below p1) (below p2).
  Proof.
    unfold straddles, qlt, below.
    destruct (qle (py p1) (py v)), (qle (py p2) (py v)); reflexivity.
  Qed.

  Definition nstr (es : list (pt * pt)) : nat :=
    length (filter (fun e => straddles v (fst e) (snd e)) es).

  Lemma odd_S n : Nat.odd (S n) = negb (Nat.odd n).
  Proof. rewrite Nat.odd_succ, <- Nat.negb_odd. reflexivity. Qed.

  Lemma chain_parity l d :
    Nat.odd (nstr (pairs l)) = xorb (below (hd d l)) (below (last l d)).
  Proof.
    revert d. induction l as [|q0 r IH]; intro d.
    - cbn. destruct (below d); reflexivity.
    - destruct r as [|q1 r'].
      + cbn. destruct (below q0); reflexivity.
      + change (pairs (q0 :: q1 :: r')) with ((q0, q1) :: pairs (q1 :: r')).
        unfold nstr in *. cbn [filter fst snd].
        change (last (q0 :: q1 :: r') d) with (last (q1 :: r') d).
        specialize (IH d). cbn [hd] in *.
        destruct (straddles v q0 q1) eqn:Es; rewrite straddles_xor in Es.
        * cbn [length]. rewrite odd_S, IH.
          destruct (below q0), (below q1), (below (last (q1 :: r') d)); cbn in *; congruence.
        * rewrite IH.
          destruct (below q0), (below q1), (below (last (q1 :: r') d)); cbn in *; congruence.
  Qed.

  (** a closed chain has an even number of straddling edges *)
  Lemma closed_chain_even p0 r : Nat.odd (nstr (pairs ((p0 :: r) ++ [p0]))) = false.
  Proof.
    rewrite (chain_parity _ p0). cbn [app hd].
    assert (E : last (p0 :: r ++ [p0]) p0 = p0).
    { change (p0 :: r ++ [p0]) with ((p0 :: r) ++ [p0]). apply last_last. }
    rewrite E. apply xorb_nilpotent.
  Qed.
End Parity.

(** ** counting *)
Lemma count_crossings_filter v es :
  count_crossings v es = length (filter (fun e => crossing v (fst e) (snd e)) es).
Proof.
  unfold count_crossings.
  assert (G : forall n, fold_left (fun n e => if crossing v (fst e) (snd e) then S n else n) es n
                        = (length (filter (fun e => crossing v (fst e) (snd e)) es) + n)%nat).
  { induction es as [|e r IH]; intro n; [reflexivity|]. cbn [fold_left filter].
    destruct (crossing v (fst e) (snd e)); rewrite IH; cbn [length]; lia. }
  rewrite G. lia.
Qed.

Lemma crossing_straddles v p1 p2 : crossing v p1 p2 = true -> straddles v p1 p2 = true.
Proof. unfold crossing. destruct (straddles v p1 p2); [reflexivity|discriminate]. Qed.

(** straddling edges = crossing ones + straddling non-crossing ones *)
Lemma nstr_split v es :
  nstr v es = (length (filter (fun e => crossing v (fst e) (snd e)) es) +
               length (filter (fun e => straddles v (fst e) (snd e) && negb (crossing v (fst e) (snd e))) es))%nat.
Proof.
  unfold nstr. induction es as [|e r IH]; [reflexivity|]. cbn [filter].
  destruct (crossing v (fst e) (snd e)) eqn:Ec.
  - rewrite (crossing_straddles _ _ _ Ec). cbn [andb negb length]. rewrite IH. lia.
  - destruct (straddles v (fst e) (snd e)); cbn [andb negb length]; rewrite IH; lia.
Qed.

Lemma filter_nonempty {A} (f : A -> bool) l : (0 < length (filter f l))%nat -> exists x, In x l /\ f x = true.
Proof.
  destruct (filter f l) as [|x r] eqn:E; cbn [length]; [lia|]. intros _.
  exists x. apply filter_In. rewrite E. left; reflexivity.
Qed.

(** ** the abscissa of the intersection of a straddling edge with the horizontal line *)
Definition xcross (v p1 p2 : pt) : Q :=
  px p1 + (py v - py p1) * px (psub p2 p1) / py (psub p2 p1).

Lemma crossing_eq v p1 p2 : crossing v p1 p2 = if straddles v p1 p2 then qlt (px v) (xcross v p1 p2) else false.
Proof. reflexivity. Qed.

Lemma xcross_between v p1 p2 :
  straddles v p1 p2 = true ->
  (xcross v p1 p2 <= px p1 \/ xcross v p1 p2 <= px p2) /\
  (px p1 <= xcross v p1 p2 \/ px p2 <= xcross v p1 p2).
Proof.
  intro H. unfold straddles in H. unfold xcross, psub, px, py in *. cbn [fst snd].
  destruct p1 as [x1 y1], p2 as [x2 y2], v as [xv yv]. cbn [fst snd] in *.
  set (dy := y2 - y1). set (n := yv - y1).
  assert (Hcase : (0 <= n /\ n < dy) \/ (dy <= n /\ n <= 0 /\ dy < 0)).
  { apply orb_true_iff in H. destruct H as [H|H]; apply andb_true_iff in H; destruct H as [A B];
      apply qle_spec in A; apply qlt_spec in B; unfold dy, n; [left|right]; repeat split; lra. }
  assert (Hdy : ~ dy == 0) by (destruct Hcase as [[? ?]|[? [? ?]]]; lra).
  set (t := n / dy).
  assert (Ht : t * dy == n) by (unfold t; field; exact Hdy).
  assert (Hx : x1 + n * (x2 - x1) / dy == x1 + t * (x2 - x1)) by (unfold t; field; exact Hdy).
  rewrite Hx.
  assert (T01 : 0 <= t /\ t <= 1).
  { destruct Hcase as [[A B]|[A [B C]]]; split; nra. }
  destruct T01 as [T0 T1].
  destruct (Qlt_le_dec x2 x1) as [L|L]; split; [left|right|right|left]; nra.
Qed.

(** ** a point inside has polygon vertices on all four sides *)
Lemma pairs_cons2 {A} (a b : A) r : pairs (a :: b :: r) = (a, b) :: pairs (b :: r).
Proof. reflexivity. Qed.
Lemma pairs_map {A B} (f : A -> B) (l : list A) : pairs (map f l) = map (fun e => (f (fst e), f (snd e))) (pairs l).
Proof.
  induction l as [|a r IH]; [reflexivity|]. destruct r as [|b r']; [reflexivity|].
  rewrite pairs_cons2. cbn [map fst snd]. rewrite pairs_cons2. f_equal. exact IH.
Qed.
Lemma pairs_in {A} (l : list A) a b : In (a, b) (pairs l) -> In a l /\ In b l.
Proof.
  induction l as [|x r IH]; [intros []|]. destruct r as [|y r']; [intros []|].
  change (pairs (x :: y :: r')) with ((x, y) :: pairs (y :: r')).
  intros [E|H].
  - inversion E; subst. split; [left; reflexivity|right; left; reflexivity].
  - apply IH in H. destruct H as [H1 H2]. split; right; assumption.
Qed.

Lemma in_polygon_vertices pos poly :
  in_polygon pos poly = true ->
  (exists p, In p poly /\ px pos <= px p) /\ (exists p, In p poly /\ px p <= px pos) /\
  (exists p, In p poly /\ py pos <= py p) /\ (exists p, In p poly /\ py p <= py pos).
Proof.
  destruct poly as [|ref rest]; [discriminate|].
  unfold in_polygon. set (v := psub pos ref). set (sh := fun p : pt => psub p ref).
  assert (Eedges : map (fun e => (psub (fst e) ref, psub (snd e) ref)) (edges (ref :: rest))
                   = pairs ((sh ref :: map sh rest) ++ [sh ref])).
  { unfold edges. rewrite <- (pairs_map sh). rewrite map_app. reflexivity. }
  rewrite Eedges. set (es := pairs ((sh ref :: map sh rest) ++ [sh ref])).
  intro Hodd. rewrite count_crossings_filter in Hodd.
  assert (Heven := closed_chain_even v (sh ref) (map sh rest)). fold es in Heven.
  rewrite nstr_split in Heven.
  set (nc := length (filter (fun e => crossing v (fst e) (snd e)) es)) in *.
  set (ns := length (filter (fun e => straddles v (fst e) (snd e) && negb (crossing v (fst e) (snd e))) es)) in *.
  assert (Hnc : (0 < nc)%nat) by (destruct nc; [discriminate|lia]).
  assert (Hns : (0 < ns)%nat).
  { destruct ns; [|lia]. rewrite Nat.add_0_r in Heven. congruence. }
  apply filter_nonempty in Hnc. destruct Hnc as [[a b] [Hin1 Hc1]]. cbn [fst snd] in Hc1.
  apply filter_nonempty in Hns. destruct Hns as [[c d] [Hin2 Hc2]]. cbn [fst snd] in Hc2.
  (* vertices of the shifted chain are shifted vertices of the polygon *)
  assert (Hv : forall q, In q ((sh ref :: map sh rest) ++ [sh ref]) -> exists p, In p (ref :: rest) /\ q = sh p).
  { intros q Hq. apply in_app_or in Hq. destruct Hq as [Hq|[Hq|[]]].
    - change (sh ref :: map sh rest) with (map sh (ref :: rest)) in Hq. apply in_map_iff in Hq.
      destruct Hq as [p [E Hp]]. exists p. split; [exact Hp|symmetry; exact E].
    - exists ref. split; [left; reflexivity|symmetry; exact Hq]. }
  apply pairs_in in Hin1. destruct Hin1 as [Ha Hb]. apply Hv in Ha. apply Hv in Hb.
  apply pairs_in in Hin2. destruct Hin2 as [Hc Hd]. apply Hv in Hc. apply Hv in Hd.
  destruct Ha as [pa [Ia Ea]], Hb as [pb [Ib Eb]], Hc as [pc [Ic Ec]], Hd as [pd [Id Ed]].
  (* facts about the two edges *)
  pose proof (crossing_straddles _ _ _ Hc1) as Hs1.
  rewrite crossing_eq, Hs1 in Hc1. apply qlt_spec in Hc1.
  apply andb_true_iff in Hc2. destruct Hc2 as [Hs2 Hn2]. apply negb_true_iff in Hn2.
  rewrite crossing_eq, Hs2 in Hn2. apply qlt_false in Hn2.
  destruct (xcross_between _ _ _ Hs1) as [Hup _].
  destruct (xcross_between _ _ _ Hs2) as [_ Hlo].
  (* y: the straddled edge has a vertex at or below and one above *)
  assert (Hy : (py a <= py v /\ py v < py b) \/ (py b <= py v /\ py v < py a)).
  { unfold straddles in Hs1. apply orb_true_iff in Hs1.
    destruct Hs1 as [H|H]; apply andb_true_iff in H; destruct H as [A B];
      apply qle_spec in A; apply qlt_spec in B; [left|right]; split; assumption. }
  assert (Sx : forall p, px (sh p) == px p - px ref) by (intro p; reflexivity).
  assert (Sy : forall p, py (sh p) == py p - py ref) by (intro p; reflexivity).
  assert (Vx : px v == px pos - px ref) by reflexivity.
  assert (Vy : py v == py pos - py ref) by reflexivity.
  subst a b c d. rewrite !Sx in *. rewrite !Sy in *. rewrite Vx in *. rewrite Vy in *.
  repeat split.
  - destruct Hup as [H|H]; [exists pa|exists pb]; split; auto; lra.
  - destruct Hlo as [H|H]; [exists pc|exists pd]; split; auto; lra.
  - destruct Hy as [[A B]|[A B]]; [exists pb|exists pa]; split; auto; lra.
  - destruct Hy as [[A B]|[A B]]; [exists pa|exists pb]; split; auto; lra.
Qed.

(** ** bounding box *)
Lemma fold_qmin_le l : forall init x, (x = init \/ In x l) -> fold_left qmin l init <= x.
Proof.
  induction l as [|a r IH]; intros init x H; cbn [fold_left].
  - destruct H as [->|[]]. apply Qle_refl.
  - destruct H as [E|[E|H]]; [subst x|subst x|].
    + eapply Qle_trans; [apply IH; left; reflexivity|apply (proj1 (qmin_spec init a))].
    + eapply Qle_trans; [apply IH; left; reflexivity|apply (proj2 (qmin_spec init a))].
    + apply IH. right; exact H.
Qed.
Lemma fold_qmax_ge l : forall init x, (x = init \/ In x l) -> x <= fold_left qmax l init.
Proof.
  induction l as [|a r IH]; intros init x H; cbn [fold_left].
  - destruct H as [->|[]]. apply Qle_refl.
  - destruct H as [E|[E|H]]; [subst x|subst x|].
    + eapply Qle_trans; [apply (proj1 (qmax_spec init a))|apply IH; left; reflexivity].
    + eapply Qle_trans; [apply (proj2 (qmax_spec init a))|apply IH; left; reflexivity].
    + apply IH. right; exact H.
Qed.

Lemma bounds_of_points_spec pts p :
  In p pts -> In_rect p (bounds_of_points pts).
Proof.
  destruct pts as [|p0 r]; [intros []|]. intro H. unfold bounds_of_points, In_rect, px, py; cbn [fst snd].
  assert (Hx : fst p = fst p0 \/ In (fst p) (map fst r)).
  { destruct H as [->|H]; [left; reflexivity|right; apply in_map; exact H]. }
  assert (Hy : snd p = snd p0 \/ In (snd p) (map snd r)).
  { destruct H as [->|H]; [left; reflexivity|right; apply in_map; exact H]. }
  repeat split; [apply fold_qmin_le|apply fold_qmax_ge|apply fold_qmin_le|apply fold_qmax_ge]; assumption.
Qed.

(** a point inside a polygon (by the crossing count) lies in the polygon's bounding box *)
Lemma in_polygon_in_bounds pos poly :
  in_polygon pos poly = true -> in_rectangle pos (bounds_of_points poly) = true.
Proof.
  intro H. apply in_polygon_vertices in H.
  destruct H as [[p1 [I1 H1]] [[p2 [I2 H2]] [[p3 [I3 H3]] [p4 [I4 H4]]]]].
  apply in_rectangle_spec_l.
  destruct (bounds_of_points_spec _ _ I1) as [[_ B1] _].
  destruct (bounds_of_points_spec _ _ I2) as [[B2 _] _].
  destruct (bounds_of_points_spec _ _ I3) as [_ [_ B3]].
  destruct (bounds_of_points_spec _ _ I4) as [_ [B4 _]].
  repeat split; eapply Qle_trans; eauto.
Qed.

(** ** the exact meaning of [in_polygon] for the columns of a rectangular geometry: the
    axis-aligned rectangle with PyTOUGH's vertex order is the half-open box
    [x0, x1) x [y0, y1) -- such columns tile the plane without overlap *)
Lemma qlt_compat a b b' : b == b' -> qlt a b = qlt a b'.
Proof.
  intro E. destruct (qlt a b') eqn:H.
  - apply qlt_spec. apply qlt_spec in H. rewrite E. exact H.
  - apply qlt_false. apply qlt_false in H. rewrite E. exact H.
Qed.

Lemma crossing_vertical v p1 p2 :
  px p1 == px p2 -> crossing v p1 p2 = straddles v p1 p2 && qlt (px v) (px p1).
Proof.
  intro E. rewrite crossing_eq. destruct (straddles v p1 p2); [|reflexivity]. cbn [andb].
  apply qlt_compat. unfold xcross.
  assert (E0 : px (psub p2 p1) == 0) by (unfold psub, px in *; cbn [fst]; lra).
  rewrite E0. unfold Qdiv. ring.
Qed.
Lemma crossing_horizontal v p1 p2 : py p1 == py p2 -> crossing v p1 p2 = false.
Proof.
  intro E. rewrite crossing_eq. destruct (straddles v p1 p2) eqn:H; [|reflexivity]. exfalso.
  unfold straddles in H. apply orb_true_iff in H.
  destruct H as [H|H]; apply andb_true_iff in H; destruct H as [A B];
    apply qle_spec in A; apply qlt_spec in B; lra.
Qed.

Lemma odd_count_xor {A} (f : A -> bool) l :
  Nat.odd (length (filter f l)) = fold_right (fun e acc => xorb (f e) acc) false l.
Proof.
  induction l as [|a r IH]; [reflexivity|]. cbn [filter fold_right].
  destruct (f a); cbn [length xorb]; [rewrite odd_S, IH; destruct (fold_right _ _ _); reflexivity|rewrite IH; destruct (fold_right _ _ _); reflexivity].
Qed.

Lemma in_polygon_rectangle x0 y0 x1 y1 pos :
  x0 < x1 -> y0 < y1 ->
  in_polygon pos [(x1, y0); (x1, y1); (x0, y1); (x0, y0)] =
  (qle x0 (px pos) && qlt (px pos) x1) && (qle y0 (py pos) && qlt (py pos) y1).
Proof.
  intros Hx Hy. unfold in_polygon. rewrite count_crossings_filter, odd_count_xor.
  cbn [edges app pairs map fold_right fst snd].
  set (A := (x1, y0)). set (v := psub pos A).
  rewrite (crossing_horizontal v (psub (x1, y1) A) (psub (x0, y1) A)) by (unfold psub, A, px, py; cbn [fst snd]; lra).
  rewrite (crossing_horizontal v (psub (x0, y0) A) (psub A A)) by (unfold psub, A, px, py; cbn [fst snd]; lra).
  rewrite (crossing_vertical v (psub A A) (psub (x1, y1) A)) by (unfold psub, A, px, py; cbn [fst snd]; lra).
  rewrite (crossing_vertical v (psub (x0, y1) A) (psub (x0, y0) A)) by (unfold psub, A, px, py; cbn [fst snd]; lra).
  rewrite !xorb_false_r, xorb_false_l.
  set (S := qle y0 (py pos) && qlt (py pos) y1).
  assert (S1 : straddles v (psub A A) (psub (x1, y1) A) = S).
  { apply eq_iff_eq_true. unfold S, straddles, v, psub, A, px, py. cbn [fst snd].
    rewrite orb_true_iff, !andb_true_iff, !qle_spec, !qlt_spec. split; [intros [H|H]|intro H; left]; lra. }
  assert (S3 : straddles v (psub (x0, y1) A) (psub (x0, y0) A) = S).
  { apply eq_iff_eq_true. unfold S, straddles, v, psub, A, px, py. cbn [fst snd].
    rewrite orb_true_iff, !andb_true_iff, !qle_spec, !qlt_spec. split; [intros [H|H]|intro H; right]; lra. }
  rewrite S1, S3.
  assert (Q1 : qlt (px v) (px (psub A A)) = qlt (px pos) x1).
  { apply eq_iff_eq_true. unfold v, psub, A, px. cbn [fst]. rewrite !qlt_spec. split; intro; lra. }
  assert (Q3 : qlt (px v) (px (psub (x0, y1) A)) = qlt (px pos) x0).
  { apply eq_iff_eq_true. unfold v, psub, A, px. cbn [fst]. rewrite !qlt_spec. split; intro; lra. }
  rewrite Q1, Q3. clear S1 S3 Q1 Q3.
  destruct S; cbn [andb xorb]; [|rewrite andb_false_r; reflexivity]. rewrite andb_true_r.
  destruct (qlt (px pos) x1) eqn:E1, (qlt (px pos) x0) eqn:E0, (qle x0 (px pos)) eqn:E2; try reflexivity; exfalso;
    try (apply qlt_spec in E1); try (apply qlt_false in E1); try (apply qlt_spec in E0); try (apply qlt_false in E0);
    try (apply qle_spec in E2); try (apply qle_false in E2); lra.
Qed.

(** rectangular columns do not overlap: two half-open boxes of a grid whose corner
    coordinates are ordered contain no common point unless they are the same box *)
Lemma rectangle_columns_disjoint xa0 ya0 xa1 ya1 xb0 yb0 xb1 yb1 pos :
  xa0 < xa1 -> ya0 < ya1 -> xb0 < xb1 -> yb0 < yb1 ->
  (xa1 <= xb0 \/ xb1 <= xa0 \/ ya1 <= yb0 \/ yb1 <= ya0) ->
  in_polygon pos [(xa1, ya0); (xa1, ya1); (xa0, ya1); (xa0, ya0)] = true ->
  in_polygon pos [(xb1, yb0); (xb1, yb1); (xb0, yb1); (xb0, yb0)] = true -> False.
Proof.
  intros A1 A2 B1 B2 Hsep Ha Hb.
  rewrite in_polygon_rectangle in Ha by assumption. rewrite in_polygon_rectangle in Hb by assumption.
  rewrite !andb_true_iff, !qle_spec, !qlt_spec in Ha, Hb. lra.
Qed.
