(** C12 -- the statements of Props.v that combine the parts: with the bounding boxes the
    implementation uses ([bounds_of_points] of the column polygon) the pre-filter never loses
    the containing column, so plain search is exhaustive search and every search aid whose
    premise holds agrees with it. *)
From Coq Require Import List Bool Arith ZArith PArith QArith Qreduction Lia Lqa.
From Gen Require Import GenGeom.
From P Require Import Locate LocBasics LocSearch LocPolygon LocConvex LocBlock LocTrack LocRefuted LineModel LocRect LocLine LocEnd.
Import ListNotations.
Open Scope Q_scope.

Section Main.
  Variable polygon : positive -> list pt.
  Variable centre : positive -> pt.
  Variable nbrs : positive -> list positive.
  Variable bbox : positive -> rect.
  Variable columnlist : list positive.
  (** [column.bounding_box] is [bounds_of_points] of the column's polygon *)
  Hypothesis bbox_ok : forall c, bbox c = bounds_of_points (polygon c).

  Notation contains c pos := (contains_point polygon c pos).
  Notation ccp := (column_containing_point polygon centre nbrs bbox columnlist).

  Lemma near_of_contains c pos : contains c pos = true -> near_point bbox c pos = true.
  Proof. unfold near_point, contains_point. rewrite bbox_ok. apply in_polygon_in_bounds. Qed.

  (** plain search = exhaustive search over the column list *)
  Lemma plain_none_iff pos :
    ccp pos None None None None = None <-> forall c, In c columnlist -> contains c pos = false.
  Proof.
    split.
    - intros H c Hc. destruct (contains c pos) eqn:E; [|reflexivity]. exfalso.
      destruct (ccp_complete polygon centre nbrs bbox columnlist pos None None None None c) as [c' [H1 _]]; auto.
      + apply near_of_contains; exact E.
      + discriminate.
      + congruence.
    - intro H. destruct (ccp pos None None None None) as [c|] eqn:E; [|reflexivity]. exfalso.
      pose proof (ccp_plain_in _ _ _ _ _ _ _ _ _ E) as Hi. cbn in Hi.
      apply ccp_sound in E. destruct E as [E _]. rewrite (H c Hi) in E. discriminate.
  Qed.
  Lemma plain_some pos c :
    ccp pos None None None None = Some c -> In c columnlist /\ contains c pos = true.
  Proof.
    intro E. split; [exact (ccp_plain_in _ _ _ _ _ _ _ _ _ E)|]. apply ccp_sound in E. tauto.
  Qed.

  Lemma aids_agree pos columns guess bounds qt T :
    tiling polygon pos ->
    In T columnlist -> contains T pos = true ->
    inbounds pos bounds = true ->
    In T (match columns with None => columnlist | Some cs => cs end) ->
    (forall t, qt = Some t -> qtree_finds nbrs bbox t pos T) ->
    ccp pos columns guess bounds qt = Some T /\ ccp pos None None None None = Some T.
  Proof.
    intros. apply ccp_aids_agree; auto. apply near_of_contains; assumption.
  Qed.
End Main.

(** ** the hypotheses of the agreement theorem are satisfiable: point (60, 140) of the M-grid *)
Lemma m_contains_only_4 c : contains_point m_polygon c (60, 140) = true -> c = 4%positive.
Proof.
  intro H.
  destruct c as [[[[c|c|]|[c|c|]|]|[[c|c|]|[c|c|]|]|]|[[[c|c|]|[c|c|]|]|[[c|c|]|[c|c|]|]|]|];
    try reflexivity; vm_compute in H; discriminate.
Qed.
Lemma m_example_hyps :
  tiling m_polygon (60, 140) /\ In 4%positive m_columns /\
  contains_point m_polygon 4%positive (60, 140) = true /\
  (forall c, m_bbox c = bounds_of_points (m_polygon c)) /\
  connected_near m_nbrs m_bbox m_tree (60, 140) 4%positive.
Proof.
  split; [intros c c' H1 H2; rewrite (m_contains_only_4 c H1), (m_contains_only_4 c' H2); reflexivity|].
  split; [vm_compute; tauto|]. split; [vm_compute; reflexivity|]. split; [reflexivity|exact m_connected_example].
Qed.

(** the hypotheses of the block theorems are satisfiable *)
Definition ex_layers : list layer := [mkLayer 0 0; mkLayer (-10) 0; mkLayer (-30) (-10)].
Lemma ex_layers_ok : stacked ex_layers /\ off_boundaries ex_layers (-15).
Proof.
  split.
  - intros i j li lj Hij Hi Hj.
    destruct i as [|[|[|i]]]; destruct j as [|[|[|j]]]; cbn [nth_error ex_layers] in Hi, Hj; try lia;
      try (destruct i; discriminate); try (destruct j; discriminate);
      injection Hi as <-; injection Hj as <-; cbn [ltop lbottom]; unfold Qle; cbn; lia.
  - intros l [<-|[<-|[<-|[]]]]; cbn; split; intro H; vm_compute in H; discriminate.
Qed.

(** a reported block on the M-grid with three layers: the hypotheses of the block theorems hold together *)
Definition ex_surface (c : positive) : Q := 0.
Lemma ex_block :
  block_containing_point m_polygon m_centre m_nbrs m_bbox ex_surface m_columns ex_layers (60, 140) (-15) None
    = Some (2%nat, 4%positive) /\
  surface_case ex_surface ex_layers (-15) 4%positive = false /\ In 4%positive m_columns /\
  tiling m_polygon (60, 140) /\ stacked ex_layers /\ off_boundaries ex_layers (-15).
Proof.
  split; [vm_compute; reflexivity|]. split; [vm_compute; reflexivity|]. split; [vm_compute; tauto|].
  split; [exact (proj1 m_example_hyps)|exact ex_layers_ok].
Qed.

(** a small track: a line along y = 50 through columns 1 and 2 of a row, columns given out of order *)
Definition ex_inters (c : positive) : list pt :=
  match c with
  | 1%positive => [(0, 50); (100, 50)]
  | 2%positive => [(200, 50); (300, 50)]
  | _ => []
  end.
Definition ex_tdist (p : pt) : Q := px p + 10.
Lemma ex_track :
  column_track m_polygon (fun _ => true) ex_inters ex_tdist (fun _ => 100) track_tol (-10, 50) (600, 50)
               [2; 3; 1]%positive
  = [(1%positive, (0, 50), (100, 50)); (2%positive, (200, 50), (300, 50))].
Proof. vm_compute. reflexivity. Qed.

(** the quadtree search of a built tree answers with one of the tree's own elements *)
Lemma search_in_elements (polygon : positive -> list pt) (centre : positive -> pt)
      (nbrs : positive -> list positive) (bbox : positive -> rect) fuel b es pos e :
  search polygon nbrs bbox (build centre fuel b es) pos = Some e -> In e es.
Proof.
  unfold search. destruct (leaf (build centre fuel b es) pos) as [l|] eqn:El; [|discriminate].
  destruct (wave _ _ _ _ _ _ _ _ _) as [e'|] eqn:W.
  - intro H; inversion H; subst e'. apply wave_from in W. rewrite build_elements in W.
    destruct W as [H'|H']; [|exact H'].
    apply leaf_spec in El. destruct El as [S _].
    exact (build_subtree_elements centre fuel b es l S e H').
  - destruct quadtree_search_has_fallback; [|discriminate].
    intro H. apply find_some in H. rewrite build_elements in H. tauto.
Qed.

(** ** [column_track] with the line primitives of LineModel.v plugged in: the bounding-box test is
    [line_intersects_rectangle] on the column's bounding box, the intersection list is
    [line_polygon_intersections] of the column's polygon (before the de-duplication, see LineModel.v) *)
Definition track_model (polygon : positive -> list pt) (tdist : pt -> Q) (maxside : positive -> Q)
           (l1 l2 : pt) (columnlist : list positive) : list seg :=
  column_track polygon (fun c => line_intersects_rectangle (bounds_of_points (polygon c)) l1 l2)
               (fun c => lpi_points (polygon c) l1 l2) tdist maxside track_tol l1 l2 columnlist.

(** entry and exit points of every listed segment lie on the line: they are the line's own end
    points or hits of the line with an edge of the listed column *)
Definition on_line_and_column (poly : list pt) (l1 l2 p : pt) : Prop :=
  p = l1 \/ p = l2 \/
  exists h a b, In (a, b) (edges poly) /\ p = h_pt h /\ in_unit (h_xi0 h) = true /\ in_unit (h_xi1 h) = true /\
                pt_eq p (lpoint a b (h_xi0 h)) /\ pt_eq p (lpoint l1 l2 (h_xi1 h)).
Lemma track_model_points polygon tdist maxside l1 l2 cols s :
  In s (track_model polygon tdist maxside l1 l2 cols) ->
  In (seg_col s) cols /\
  line_intersects_rectangle (bounds_of_points (polygon (seg_col s))) l1 l2 = true /\
  on_line_and_column (polygon (seg_col s)) l1 l2 (seg_in s) /\
  on_line_and_column (polygon (seg_col s)) l1 l2 (seg_out s).
Proof.
  unfold track_model. intro H. apply track_entries in H. destruct H as [d [_ H]].
  destruct H as [Hc [Hl Hcase]]. cbn [fst snd] in *.
  split; [exact Hc|]. split; [exact Hl|].
  destruct Hcase as [[_ [Ei [Eo _]]]|[_ [_ [p0 [prest [Ei [Hin Hout]]]]]]].
  - split; [left; exact Ei|right; left; exact Eo].
  - split.
    + destruct Hin as [[E _]|E]; [left; exact E|right; right].
      apply lpi_points_on_line. rewrite Ei, E. left; reflexivity.
    + destruct Hout as [[E _]|E]; [right; left; exact E|right; right].
      apply lpi_points_on_line. rewrite Ei, E.
      destruct prest as [|q r]; [left; reflexivity|]. right. clear. revert q. induction r as [|q' r' IH]; intro q; [left; reflexivity|]. right. apply (IH q').
Qed.

(** the hexagon crossed by the line (-1, 2) -> (5, 2): hypotheses of the crossing theorems hold, and the model computes the two hits *)
Lemma ex_crossed :
  strictly_inside ex_hexagon (lpoint (-1, 2) (5, 2) (1 # 2)) /\ ~ closed_inside ex_hexagon (lpoint (-1, 2) (5, 2) 1) /\
  map (fun p => (Qred (px p), Qred (py p))) (lpi_points ex_hexagon (-1, 2) (5, 2)) = [(0, 2); (4, 2)] /\
  line_intersects_rectangle (bounds_of_points ex_hexagon) (-1, 2) (5, 2) = true.
Proof.
  split; [|split; [|split; vm_compute; reflexivity]].
  - intros a b H. cbn in H.
    repeat (destruct H as [H|H]; [inversion H; subst; vm_compute; reflexivity|]). destruct H.
  - intro H. assert (I : In ((4, 1), (4, 3)) (edges ex_hexagon)) by (cbn; tauto).
    specialize (H _ _ I). vm_compute in H. apply H. reflexivity.
Qed.

(** ** the hypotheses of the end-to-end track theorem hold together: columns 1 and 4 of the M-grid
    ([0,100]x[0,100] and [0,100]x[100,200]) crossed by the vertical line x = 50 from y = -10 to y = 250 *)
Definition ex_tdist2 (p : pt) : Q := py p + 10.
Lemma ex_end_to_end_hyps :
  let l1 := (50, -10) in let l2 := (50, 250) in let cols := [1; 4]%positive in
  0 < 260 /\
  (forall p t, pt_eq p (lpoint l1 l2 t) -> ex_tdist2 p == 260 * t) /\
  NoDup cols /\
  (forall c, In c cols -> (3 <= length (m_polygon c))%nat /\ convex_ccw (m_polygon c)) /\
  (forall c, In c cols -> off_edge_lines (m_polygon c) l1) /\
  (forall c, In c cols -> off_edge_lines (m_polygon c) l2) /\
  (forall c, In c cols -> forall h, In h (lpi_hits (m_polygon c) l1 l2) ->
     0 <= h_xi0 h /\ h_xi0 h <= 1 /\ 0 < h_xi1 h /\ h_xi1 h < 1) /\
  (forall c, In c cols -> dedup_ok (lpi_points (m_polygon c) l1 l2) (lpi_points (m_polygon c) l1 l2)) /\
  (forall t, 0 <= t -> t <= 1 -> forall c c', In c cols -> In c' cols ->
     strictly_inside (m_polygon c) (lpoint l1 l2 t) -> strictly_inside (m_polygon c') (lpoint l1 l2 t) -> c = c') /\
  map seg_col (column_track m_polygon (lirf m_polygon l1 l2) (fun c => lpi_points (m_polygon c) l1 l2)
                 ex_tdist2 (fun _ => 100) track_tol l1 l2 cols) = [1; 4]%positive.
Proof.
  cbn zeta. split; [reflexivity|]. split.
  { intros p t [_ Ey]. unfold ex_tdist2. rewrite Ey. unfold lpoint, py. cbn [fst snd]. ring. }
  split; [repeat constructor; cbn; intuition discriminate|]. split.
  { intros c [<-|[<-|[]]]; (split; [cbn; lia|]); apply rectangle_convex; reflexivity. }
  split.
  { intros c [<-|[<-|[]]] a b H; cbn in H;
      repeat (destruct H as [H|H]; [inversion H; subst; vm_compute; discriminate|]); destruct H. }
  split.
  { intros c [<-|[<-|[]]] a b H; cbn in H;
      repeat (destruct H as [H|H]; [inversion H; subst; vm_compute; discriminate|]); destruct H. }
  split.
  { intros c [<-|[<-|[]]] h H; vm_compute in H;
      repeat (destruct H as [H|H]; [subst h; cbn [h_xi0 h_xi1]; unfold Qle, Qlt; cbn; lia|]); destruct H. }
  split; [intros; apply dedup_ok_refl|]. split.
  { intros t T0 T1 c c' [<-|[<-|[]]] [<-|[<-|[]]] H H'; try reflexivity; exfalso.
    - assert (E1 : In ((100, 100), (0, 100)) (edges (m_polygon 1))) by (cbn; tauto).
      assert (E2 : In ((0, 100), (100, 100)) (edges (m_polygon 4))) by (cbn; tauto).
      pose proof (H _ _ E1) as A. pose proof (H' _ _ E2) as B.
      unfold orient, lpoint, px, py in A, B. cbn [fst snd] in A, B. lra.
    - assert (E1 : In ((100, 100), (0, 100)) (edges (m_polygon 1))) by (cbn; tauto).
      assert (E2 : In ((0, 100), (100, 100)) (edges (m_polygon 4))) by (cbn; tauto).
      pose proof (H' _ _ E1) as A. pose proof (H _ _ E2) as B.
      unfold orient, lpoint, px, py in A, B. cbn [fst snd] in A, B. lra. }
  vm_compute. reflexivity.
Qed.

(** ** no hidden state: in the model an answer is a function of the CURRENT geometry and the query only.
    A session is a list of queries put to one geometry; what was asked before -- or on which other
    geometry -- cannot matter, by the very type of [answer].  (The implementation side of this, where a
    cache or a remembered column could leak between calls, is TESTED by the sequence oracle.) *)
Record geom := mkGeom { g_polygon : positive -> list pt; g_centre : positive -> pt; g_nbrs : positive -> list positive;
                        g_bbox : positive -> rect; g_surface : positive -> Q; g_cols : list positive; g_layers : list layer }.
Inductive query :=
| Q2 (pos : pt) (columns : option (list positive)) (guess : option positive) (bounds : option bounds_arg) (qt : option qtree)
| Q3 (pos : pt) (z : Q) (qt : option qtree).
Inductive result := R2 (c : option positive) | R3 (b : option (nat * positive)).
Definition answer (g : geom) (q : query) : result :=
  match q with
  | Q2 pos columns guess bounds qt =>
      R2 (column_containing_point (g_polygon g) (g_centre g) (g_nbrs g) (g_bbox g) (g_cols g) pos columns guess bounds qt)
  | Q3 pos z qt =>
      R3 (block_containing_point (g_polygon g) (g_centre g) (g_nbrs g) (g_bbox g) (g_surface g) (g_cols g) (g_layers g) pos z qt)
  end.
(** a session with edits: each step either asks or replaces the geometry *)
Inductive step := Ask (q : query) | Edit (g' : geom).
Fixpoint run (g : geom) (steps : list step) : list result :=
  match steps with
  | [] => []
  | Ask q :: r => answer g q :: run g r
  | Edit g' :: r => run g' r
  end.
Fixpoint current (g : geom) (steps : list step) : geom :=
  match steps with [] => g | Ask _ :: r => current g r | Edit g' :: r => current g' r end.
Lemma run_app g s1 s2 : run g (s1 ++ s2) = run g s1 ++ run (current g s1) s2.
Proof.
  revert g. induction s1 as [|[q|g'] r IH]; intro g; cbn [app run current]; [reflexivity| |apply IH].
  rewrite IH. reflexivity.
Qed.
(** the answer to a query after any history of queries and edits is the answer of the current geometry alone *)
Lemma history_independent g history q : run g (history ++ [Ask q]) = run g history ++ [answer (current g history) q].
Proof. rewrite run_app. reflexivity. Qed.
Lemma queries_do_not_change_geometry g qs : current g (map Ask qs) = g.
Proof. induction qs as [|q r IH]; [reflexivity|exact IH]. Qed.
