(** C12 -- listed segments of the track do not overlap: end-to-end theorem + non-overlap of chords. *)
From Coq Require Import List Bool Arith ZArith PArith QArith Qabs Lia Lqa Sorted Permutation.
From Gen Require Import GenGeom.
From P Require Import Locate LocBasics LocPolygon LocConvex LineModel LocRect LocLine LocTrack LocRefuted LocEnd LocMain LocOverlap.
Import ListNotations.
Open Scope Q_scope.

Lemma listed_segments_disjoint
  (polygon inters : positive -> list pt) (tdist : pt -> Q) (maxside : positive -> Q) (len : Q) (l1 l2 : pt)
  (cols : list positive) :
  0 < len ->
  (forall p t, pt_eq p (lpoint l1 l2 t) -> tdist p == len * t) ->
  (forall c, In c cols -> 0 <= maxside c) ->
  NoDup cols ->
  (forall c, In c cols -> (3 <= length (polygon c))%nat /\ convex_ccw (polygon c)) ->
  (forall c, In c cols -> off_edge_lines (polygon c) l1) ->
  (forall c, In c cols -> off_edge_lines (polygon c) l2) ->
  (forall c, In c cols -> forall h, In h (lpi_hits (polygon c) l1 l2) ->
     0 <= h_xi0 h /\ h_xi0 h <= 1 /\ 0 < h_xi1 h /\ h_xi1 h < 1) ->
  (forall c, In c cols -> dedup_ok (lpi_points (polygon c) l1 l2) (inters c)) ->
  (forall t, 0 <= t -> t <= 1 -> forall c c', In c cols -> In c' cols ->
     strictly_inside (polygon c) (lpoint l1 l2 t) -> strictly_inside (polygon c') (lpoint l1 l2 t) -> c = c') ->
  forall d s d' s',
  In (d, s) (keyed polygon inters tdist maxside l1 l2 cols) ->
  In (d', s') (keyed polygon inters tdist maxside l1 l2 cols) ->
  seg_col s <> seg_col s' -> d <= d' ->
  tdist (seg_out s) <= tdist (seg_in s') /\ tdist (seg_in s) < tdist (seg_out s).
Proof.
  intros Hlen Htd Hms Hnd Hcv Ho1 Ho2 Hh Hdd Htile d s d' s' I I' Hne Hle.
  pose proof (end_to_end polygon inters tdist maxside len l1 l2 cols Hlen Htd Hms Hnd Hcv Ho1 Ho2 Hh Hdd Htile) as E.
  cbv zeta in E. destruct E as [_ [_ [S _]]].
  destruct (S d s I) as [a [b [Ic [C [Pi [Po [Ed _]]]]]]].
  destruct (S d' s' I') as [a' [b' [Ic' [C' [Pi' [Po' [Ed' _]]]]]]].
  assert (La : a <= a') by nra.
  pose proof (chords_in_entry_order polygon l1 l2 cols _ _ a b a' b' Htile Ic Ic' Hne C C' La) as Lb.
  rewrite (Htd _ _ Po), (Htd _ _ Pi'), (Htd _ _ Pi).
  destruct C as [_ [Lt _]]. split; nra.
Qed.

(** the extra hypotheses are satisfiable on the example of the end-to-end theorem (ex_end_to_end_hyps):
    two listed entries, distinct columns, keys in order *)
Lemma ex_listed_two :
  map (fun e : Q * seg => (Qred (fst e), seg_col (snd e)))
      (keyed m_polygon (fun c => lpi_points (m_polygon c) (50, -10) (50, 250)) ex_tdist2 (fun _ => 100)
             (50, -10) (50, 250) [1; 4]%positive) = [(10, 1%positive); (110, 4%positive)].
Proof. vm_compute. reflexivity. Qed.
