(** C12 -- executable model (over exact rationals) of point and line location in a
    PyTOUGH geometry.

    Transcribed from geometry.py ([in_polygon], [in_rectangle], [rectangles_intersect],
    [sub_rectangles], [bounds_of_points]) and mulgrids.py ([quadtree], [column.near_point],
    [column.contains_point], [mulgrid.column_containing_point],
    [mulgrid.layer_containing_elevation], [mulgrid.block_name_containing_point],
    [mulgrid.block_contains_point], [mulgrid.column_track]).

    Columns are identified by [positive] numbers; a geometry is given by functions
    (section variables, instantiated by the extracted driver from real [mulgrid]
    objects): [polygon], [centre], [nbrs], [bbox], [surface].

    Deviations from Python that the theorems do not depend on:
    - arithmetic is exact (the implementation computes in doubles);
    - [polygon[0]] / [min([])] of an empty point list raise in Python; here the
      results are [false] / a zero rectangle (columns always have nodes);
    - sets of columns are lists; where Python iterates over a [set] the model
      iterates in list order; [np.argsort] is a stable insertion sort on the exact
      squared distance.  These orders only matter when a point lies in two columns. *)
From Coq Require Import List Bool Arith ZArith PArith QArith Qabs Qminmax Qreduction Lia.
From Gen Require Import GenGeom.
Import ListNotations.
Open Scope Q_scope.

Definition pt := (Q * Q)%type.
Definition rect := (pt * pt)%type.      (* [bottom left, top right] *)
Definition px (p : pt) : Q := fst p.
Definition py (p : pt) : Q := snd p.

(** comparisons: [Qle_bool] with the products written denominator-first (linear time on
    dyadic rationals with Coq's binary [positive]) *)
Definition qle (a b : Q) : bool := (Zpos (Qden b) * Qnum a <=? Zpos (Qden a) * Qnum b)%Z.
Definition qlt (a b : Q) : bool := negb (qle b a).

Definition psub (a b : pt) : pt := (px a - px b, py a - py b).

(** ** geometry.py *)

(** [all([rect[0][i] <= pos[i] <= rect[1][i] for i in range(2)])] *)
Definition in_rectangle (pos : pt) (r : rect) : bool :=
  (qle (px (fst r)) (px pos) && qle (px pos) (px (snd r))) &&
  (qle (py (fst r)) (py pos) && qle (py pos) (py (snd r))).

(** [all([(rect1[1][i] >= rect2[0][i]) and (rect2[1][i] >= rect1[0][i]) for i in range(2)])] *)
Definition rectangles_intersect (r1 r2 : rect) : bool :=
  (qle (px (fst r2)) (px (snd r1)) && qle (px (fst r1)) (px (snd r2))) &&
  (qle (py (fst r2)) (py (snd r1)) && qle (py (fst r1)) (py (snd r2))).

(** the literal factor of [centre = 0.5 * (rect[0] + rect[1])] is read from the source on every run *)
Definition qhalf (a b : Q) : Q := Qred (sub_rect_factor * (a + b)).
Lemma sub_rect_factor_is_half : sub_rect_factor = 1 # 2.
Proof. reflexivity. Qed.
(** [in_polygon] has no tolerance guard (repaired in cb92a48); a guard coming back breaks this lemma *)
Lemma in_polygon_guard_absent : in_polygon_has_guard = false.
Proof. reflexivity. Qed.

(** [centre = 0.5 * (rect[0] + rect[1])]; [r0, r1, r2, r3] *)
Definition sub_rectangles (r : rect) : list rect :=
  let c : pt := (qhalf (px (fst r)) (px (snd r)), qhalf (py (fst r)) (py (snd r))) in
  [ (fst r, c);
    ((px c, py (fst r)), (px (snd r), py c));
    ((px (fst r), py c), (px c, py (snd r)));
    (c, snd r) ].

Definition qmin (a b : Q) : Q := if qle a b then a else b.
Definition qmax (a b : Q) : Q := if qle a b then b else a.

(** [bounds_of_points] *)
Definition bounds_of_points (pts : list pt) : rect :=
  match pts with
  | [] => ((0, 0), (0, 0))
  | p :: r =>
      ((fold_left qmin (map px r) (px p), fold_left qmin (map py r) (py p)),
       (fold_left qmax (map px r) (px p), fold_left qmax (map py r) (py p)))
  end.

(** consecutive pairs of a list *)
Fixpoint pairs {A} (l : list A) : list (A * A) :=
  match l with
  | a :: ((b :: _) as r) => (a, b) :: pairs r
  | _ => []
  end.

(** the edges [(polygon[i], polygon[(i+1) % n])], i = 0 .. n-1 *)
Definition edges (poly : list pt) : list (pt * pt) :=
  match poly with
  | [] => []
  | p0 :: _ => pairs (poly ++ [p0])
  end.

(** [p1[1] <= v[1] < p2[1] or p2[1] <= v[1] < p1[1]] *)
Definition straddles (v p1 p2 : pt) : bool :=
  (qle (py p1) (py v) && qlt (py v) (py p2)) || (qle (py p2) (py v) && qlt (py v) (py p1)).

(** one pass of the loop body of [in_polygon]: does the edge add a crossing?
    [d = p2 - p1; x = p1[0] + (v[1] - p1[1]) * d[0] / d[1]; if v[0] < x: numcrossings += 1] *)
Definition crossing (v p1 p2 : pt) : bool :=
  if straddles v p1 p2 then
    let d := psub p2 p1 in
    let x := px p1 + (py v - py p1) * px d / py d in
    qlt (px v) x
  else false.

Definition count_crossings (v : pt) (es : list (pt * pt)) : nat :=
  fold_left (fun n e => if crossing v (fst e) (snd e) then S n else n) es O.

(** [in_polygon(pos, polygon)]: [numcrossings % 2] *)
Definition in_polygon (pos : pt) (poly : list pt) : bool :=
  match poly with
  | [] => false
  | ref :: _ =>
      let v := psub pos ref in
      Nat.odd (count_crossings v (map (fun e => (psub (fst e) ref, psub (snd e) ref)) (edges poly)))
  end.

(** ** layers *)
Record layer := mkLayer { lbottom : Q; ltop : Q }.
(** [layer.contains_elevation]: [self.bottom <= z <= self.top] *)
Definition contains_elevation (l : layer) (z : Q) : bool := qle (lbottom l) z && qle z (ltop l).

(** first index [>= i0] of a layer containing z *)
Fixpoint find_layer (i0 : nat) (ls : list layer) (z : Q) : option nat :=
  match ls with
  | [] => None
  | l :: r => if contains_elevation l z then Some i0 else find_layer (S i0) r z
  end.
(** [layer_containing_elevation]: [for layer in self.layerlist[1:]: if layer.contains_elevation(z): ... break];
    the result is the index of the layer in [layerlist] *)
Definition layer_containing_elevation (layerlist : list layer) (z : Q) : option nat :=
  find_layer 1 (tl layerlist) z.

(** ** quadtree *)
Inductive qtree := QNode (b : rect) (es : list positive) (ch : list qtree).
Definition qbounds (t : qtree) : rect := match t with QNode b _ _ => b end.
Definition qelements (t : qtree) : list positive := match t with QNode _ es _ => es end.
Definition qchildren (t : qtree) : list qtree := match t with QNode _ _ ch => ch end.

Fixpoint qdepth (t : qtree) : nat :=
  match t with
  | QNode _ _ ch => S (fold_right (fun c m => Nat.max (qdepth c) m) O ch)
  end.

Definition pmem (x : positive) (l : list positive) : bool := existsb (Pos.eqb x) l.

(** index of the first rectangle containing the point
    ([for irect, rect in enumerate(rects): if in_rectangle(elt.centre, rect): ...; break]) *)
Fixpoint first_rect (i0 : nat) (c : pt) (rects : list rect) : option nat :=
  match rects with
  | [] => None
  | r :: rs => if in_rectangle c r then Some i0 else first_rect (S i0) c rs
  end.

(** [quadtree.leaf] *)
Fixpoint leaf (t : qtree) (pos : pt) : option qtree :=
  match t with
  | QNode b es ch =>
      if in_rectangle pos b then
        match (fix go (l : list qtree) : option qtree :=
                 match l with
                 | [] => None
                 | c :: r => match leaf c pos with Some x => Some x | None => go r end
                 end) ch with
        | Some x => Some x
        | None => Some t
        end
      else None
  end.

(** insertion sort by a rational key (stable) *)
Section Sort.
  Context {A : Type} (key : A -> Q).
  Fixpoint insert_by (x : A) (l : list A) : list A :=
    match l with
    | [] => [x]
    | y :: r => if qle (key x) (key y) then x :: l else y :: insert_by x r
    end.
  Definition sort_by (l : list A) : list A := fold_right insert_by [] l.
End Sort.

Definition dist2 (a b : pt) : Q :=
  (px a - px b) * (px a - px b) + (py a - py b) * (py a - py b).

Inductive bounds_arg := BRect (r : rect) | BPoly (p : list pt).

Section Geo.
  Variable polygon : positive -> list pt.
  Variable centre : positive -> pt.
  Variable nbrs : positive -> list positive.
  (** [column.bounding_box] (the property recomputes [bounds_of_points] of the column's
      node positions on every access; the driver tabulates it once) *)
  Variable bbox : positive -> rect.
  Variable surface : positive -> Q.

  (** [column.contains_point], [column.near_point] *)
  Definition contains_point (c : positive) (pos : pt) : bool := in_polygon pos (polygon c).
  Definition near_point (c : positive) (pos : pt) : bool := in_rectangle pos (bbox c).

  (** [quadtree.__init__]: elements go to the FIRST sub-rectangle containing their centre;
      children exist only for non-empty sub-rectangles.  Python recurses until a node
      has at most one element (for ever when two elements share a centre); here
      [fuel] bounds the depth and an exhausted node stays a leaf ([qdepth t < fuel]
      certifies that the bound was not hit).  [quadtree_split_threshold] (= 1) is read from
      [if self.num_elements > 1] on every run. *)
  Definition group (rects : list rect) (elts : list positive) (i : nat) : list positive :=
    filter (fun e => match first_rect 0 (centre e) rects with
                     | Some j => Nat.eqb i j
                     | None => false
                     end) elts.

  Fixpoint build (fuel : nat) (b : rect) (elts : list positive) : qtree :=
    match fuel with
    | O => QNode b elts []
    | S f =>
        if (quadtree_split_threshold <? length elts)%nat then
          let rects := sub_rectangles b in
          QNode b elts
            (flat_map (fun ir : nat * rect =>
                         match group rects elts (fst ir) with
                         | [] => []
                         | es => [build f (snd ir) es]
                         end)
                      (combine (seq 0 (length rects)) rects))
        else QNode b elts []
    end.

  (** [quadtree.search_wave] run on the node with bounds [bnds]; [allE] is the root's
      [all_elements]. *)
  Section Wave.
    Variables (allE : list positive) (bnds : rect) (pos : pt).
    (** [if rectangles_intersect(nbr.bounding_box, self.bounds) and not ((nbr in done) or (nbr in todo)): todo.append(nbr)] *)
    Definition wave_push (done todo : list positive) (nbr : positive) : list positive :=
      if rectangles_intersect (bbox nbr) bnds && negb (pmem nbr done || pmem nbr todo)
      then todo ++ [nbr] else todo.
    Fixpoint wave (fuel : nat) (todo done : list positive) : option positive :=
      match fuel with
      | O => None
      | S f =>
          match todo with
          | [] => None
          | e :: rest =>
              if contains_point e pos then Some e
              else
                let done' := e :: done in
                wave f (fold_left (wave_push done') (filter (fun n => pmem n allE) (nbrs e)) rest) done'
          end
      end.
  End Wave.

  (** [quadtree.search] on a root node.  [quadtree_search_has_fallback] is read from the source on
      every run: the pinned code returns the result of the wave; the repaired code (proposed fix
      C12-quadtree-search-fallback) falls back, when the wave finds nothing, on the first of the
      root's elements whose bounding box and polygon contain the point. *)
  Definition search (t : qtree) (pos : pt) : option positive :=
    match leaf t pos with
    | Some l =>
        match wave (qelements t) (qbounds l) pos
                   (length (qelements l) + length (qelements t)) (qelements l) [] with
        | Some e => Some e
        | None =>
            if quadtree_search_has_fallback
            then find (fun e => near_point e pos && contains_point e pos) (qelements t)
            else None
        end
    | None => None
    end.

  (** [mulgrid.column_containing_point(pos, columns, guess, bounds, qtree)] *)
  Section CCP.
    Variable columnlist : list positive.

    Definition first_containing (pos : pt) (cols : list positive) : option positive :=
      find (fun c => contains_point c pos) (sort_by (fun c => dist2 (centre c) pos) cols).

    Definition inbounds (pos : pt) (bounds : option bounds_arg) : bool :=
      match bounds with
      | None => true
      | Some (BRect r) => in_rectangle pos r
      | Some (BPoly p) => in_polygon pos p
      end.

    Definition full_search (pos : pt) (searchcols donecols : list positive) (qt : option qtree)
      : option positive :=
      match qt with
      | Some t => search t pos
      | None =>
          first_containing pos
            (filter (fun c => negb (pmem c donecols))
                    (nodup Pos.eq_dec (filter (fun c => near_point c pos) searchcols)))
      end.

    Definition column_containing_point (pos : pt) (columns : option (list positive))
               (guess : option positive) (bounds : option bounds_arg) (qt : option qtree)
      : option positive :=
      if inbounds pos bounds then
        let searchcols := match columns with None => columnlist | Some cs => cs end in
        match guess with
        | None => full_search pos searchcols [] qt
        | Some g =>
            if contains_point g pos then Some g
            else
              let nearnbrcols :=
                  filter (fun c => near_point c pos && pmem c searchcols) (nbrs g) in
              match first_containing pos nearnbrcols with
              | Some c => Some c
              | None => full_search pos searchcols (g :: nearnbrcols) qt
              end
        end
      else None.

    (** [mulgrid.block_name_containing_point]: the block is the pair (layer index, column);
        [block_name] is a naming function of that pair (C17). *)
    Variable layerlist : list layer.
    Definition atm_bottom : Q := match layerlist with l :: _ => lbottom l | [] => 0 end.

    Definition block_containing_point (pos : pt) (z : Q) (qt : option qtree)
      : option (nat * positive) :=
      match column_containing_point pos None None None qt with
      | None => None
      | Some col =>
          let lay :=
              if qlt atm_bottom z && qle z (surface col)
              then (match nth_error layerlist 1 with Some _ => Some 1%nat | None => None end)
              else layer_containing_elevation layerlist z in
          match lay with
          | None => None
          | Some li =>
              match nth_error layerlist li with
              | Some l => if qlt (lbottom l) (surface col) then Some (li, col) else None
              | None => None
              end
          end
      end.

    (** [mulgrid.block_contains_point] for the block (layer index, column) *)
    Definition block_contains_point (li : nat) (col : positive) (pos : pt) (z : Q) : bool :=
      pmem col columnlist &&
      match nth_error layerlist li with
      | Some l => qlt (lbottom l) (surface col) && contains_elevation l z && contains_point col pos
      | None => false
      end.
  End CCP.

  (** ** [mulgrid.column_track(line)] -- the assembly, over abstract per-column data:
      [lir c] = [line_intersects_rectangle(col.bounding_box, line)],
      [inters c] = [line_polygon_intersections(col.polygon, line)],
      [tdist p] = [norm(p - line[0])], [maxside c] = [max(col.side_lengths)]. *)
  Section Track.
    Variable lir : positive -> bool.
    Variable inters : positive -> list pt.
    Variable tdist : pt -> Q.
    Variable maxside : positive -> Q.
    Variable tol : Q.
    Variables l0 l1 : pt.

    Definition seg := (positive * pt * pt)%type.
    Definition seg_col (s : seg) : positive := fst (fst s).
    Definition seg_in (s : seg) : pt := snd (fst s).
    Definition seg_out (s : seg) : pt := snd s.

    Record tstate := mkT { t_start : option positive; t_end : option positive;
                           t_track : list (Q * seg); t_stop : bool }.

    Definition opt_is (c : positive) (o : option positive) : bool :=
      match o with Some d => Pos.eqb c d | None => false end.
    Definition opt_eq (a b : option positive) : bool :=
      match a, b with
      | Some x, Some y => Pos.eqb x y
      | None, None => true
      | _, _ => false
      end.

    Definition track_step (st : tstate) (col : positive) : tstate :=
      if t_stop st then st
      else if lir col then
        let s := match t_start st with
                 | None => if contains_point col l0 then Some col else None
                 | Some x => Some x end in
        let e := match t_end st with
                 | None => if contains_point col l1 then Some col else None
                 | Some x => Some x end in
        (* [if col == start_col == end_col] *)
        if opt_is col s && opt_eq s e then
          mkT s e (t_track st ++ [(0, (col, l0, l1))]) true
        else
          match inters col with
          | [] => mkT s e (t_track st) false
          | p0 :: prest =>
              let plast := last prest p0 in
              let '(pin, pout) :=
                  if opt_is col s then (l0, plast)
                  else if opt_is col e then (p0, l1)
                  else (p0, plast) in
              let din := tdist pin in
              let dout := tdist pout in
              if qlt (maxside col * tol) (Qabs (dout - din))
              then mkT s e (t_track st ++ [(din, (col, pin, pout))]) false
              else mkT s e (t_track st) false
          end
      else st.

    Definition track_keyed (columnlist : list positive) : list (Q * seg) :=
      sort_by fst (t_track (fold_left track_step columnlist (mkT None None [] false))).
    Definition column_track (columnlist : list positive) : list seg :=
      map snd (track_keyed columnlist).
  End Track.
End Geo.
