(** C12 -- [line_intersects_rectangle] (Cohen-Sutherland) never rejects a segment that has a
    point in the rectangle: the bounding-box pre-filter of [column_track] loses no crossed column. *)
From Coq Require Import List Bool Arith ZArith PArith QArith Qabs Lia Lqa.
From Gen Require Import GenGeom.
From P Require Import Locate LocBasics LineModel.
Import ListNotations.
Open Scope Q_scope.

(** P is a point of the segment (x1,y1)-(x2,y2): homogeneous weights, no division *)
Definition seg_has (x1 y1 x2 y2 : Q) (p : pt) : Prop :=
  exists la mu, 0 <= la /\ 0 <= mu /\ 0 < la + mu /\
                (la + mu) * px p == la * x1 + mu * x2 /\ (la + mu) * py p == la * y1 + mu * y2.

Lemma seg_has_sym x1 y1 x2 y2 p : seg_has x1 y1 x2 y2 p -> seg_has x2 y2 x1 y1 p.
Proof. intros [la [mu [A [B [C [D E]]]]]]. exists mu, la. repeat split; try assumption; lra. Qed.

(** clipping at a half-plane h <= 0 (h = hx x + hy y + h0): the end point A with h(A) > 0 is
    replaced by the point A' of the segment with h(A') = 0, given by
    (al + be) A' = al A + be B, be = h(A), al = - h(B) >= 0 *)
Lemma clip_keeps hx hy h0 x1 y1 x2 y2 x' y' p :
  let h := fun x y => hx * x + hy * y + h0 in
  0 < h x1 y1 -> h x2 y2 <= 0 ->
  (h x1 y1 - h x2 y2) * x' == (- h x2 y2) * x1 + h x1 y1 * x2 ->
  (h x1 y1 - h x2 y2) * y' == (- h x2 y2) * y1 + h x1 y1 * y2 ->
  h (px p) (py p) <= 0 -> seg_has x1 y1 x2 y2 p -> seg_has x' y' x2 y2 p.
Proof.
  intros h HA HB Ex Ey HP [la [mu [L0 [M0 [W [Px Py]]]]]].
  set (be := h x1 y1) in *. set (al := - h x2 y2).
  assert (Hal : 0 <= al) by (unfold al; lra).
  assert (Hw : (la + mu) * h (px p) (py p) == la * be - mu * al).
  { unfold h, be, al. unfold h in *.
    transitivity (hx * ((la + mu) * px p) + hy * ((la + mu) * py p) + (la + mu) * h0); [ring|].
    rewrite Px, Py. ring. }
  assert (Hbe : 0 < be) by exact HA.
  assert (Ex' : (al + be) * x' == al * x1 + be * x2) by (unfold al, be in *; lra).
  assert (Ey' : (al + be) * y' == al * y1 + be * y2) by (unfold al, be in *; lra).
  assert (Hineq : la * be - mu * al <= 0).
  { rewrite <- Hw. assert (0 <= la + mu) by lra. clear - HP H. set (hp := h (px p) (py p)) in *. clearbody hp. nra. }
  clear Hw HP HA HB Ex Ey. clearbody al be. clear h.
  destruct (Qlt_le_dec 0 al) as [Lp|Lz].
  - exists (la * (al + be)), (al * mu - be * la).
    split; [nra|]. split; [lra|]. split; [nra|]. split.
    + transitivity (al * ((la + mu) * px p)); [ring|]. rewrite Px.
      transitivity (la * ((al + be) * x') + (al * mu - be * la) * x2); [|ring]. rewrite Ex'. ring.
    + transitivity (al * ((la + mu) * py p)); [ring|]. rewrite Py.
      transitivity (la * ((al + be) * y') + (al * mu - be * la) * y2); [|ring]. rewrite Ey'. ring.
  - (* h(B) = 0: the clipped end point is B, and P = B *)
    assert (Za : al == 0) by lra.
    assert (Zl : la == 0) by nra.
    rewrite Za in Ex', Ey'.
    assert (X' : x' == x2) by (apply Qmult_inj_l with (z := be); lra).
    assert (Y' : y' == y2) by (apply Qmult_inj_l with (z := be); lra).
    exists 0, mu. split; [lra|]. split; [exact M0|]. split; [lra|].
    rewrite Zl in Px, Py. split; lra.
Qed.

(** the four sides, for either end point (the code computes the new point from (x1, y1) in both cases) *)
(** the four sides, for either end point (the code computes the new point from (x1, y1) in both cases) *)
Lemma clip_y x1 y1 x2 y2 c sgn p :
  (sgn == 1 \/ sgn == -1) ->
  0 < sgn * (y1 - c) -> sgn * (y2 - c) <= 0 -> sgn * (py p - c) <= 0 ->
  seg_has x1 y1 x2 y2 p -> seg_has (x1 + (x2 - x1) * (c - y1) / (y2 - y1)) c x2 y2 p.
Proof.
  intros Hs HA HB HP S.
  assert (Hd : ~ y2 - y1 == 0) by (destruct Hs as [E|E]; rewrite E in *; lra).
  apply (clip_keeps 0 sgn (- sgn * c) x1 y1 x2 y2 _ _ p); cbn beta; try lra; try exact S.
  transitivity (sgn * ((y1 - y2) * (x1 + (x2 - x1) * (c - y1) / (y2 - y1)))); [ring|].
  transitivity (sgn * ((c - y2) * x1 + (y1 - c) * x2)); [|ring].
  apply Qmult_comp; [reflexivity|]. field. exact Hd.
Qed.
Lemma clip_x x1 y1 x2 y2 c sgn p :
  (sgn == 1 \/ sgn == -1) ->
  0 < sgn * (x1 - c) -> sgn * (x2 - c) <= 0 -> sgn * (px p - c) <= 0 ->
  seg_has x1 y1 x2 y2 p -> seg_has c (y1 + (y2 - y1) * (c - x1) / (x2 - x1)) x2 y2 p.
Proof.
  intros Hs HA HB HP S.
  assert (Hd : ~ x2 - x1 == 0) by (destruct Hs as [E|E]; rewrite E in *; lra).
  apply (clip_keeps sgn 0 (- sgn * c) x1 y1 x2 y2 _ _ p); cbn beta; try lra; try exact S.
  transitivity (sgn * ((x1 - x2) * (y1 + (y2 - y1) * (c - x1) / (x2 - x1)))); [ring|].
  transitivity (sgn * ((c - x2) * y1 + (x1 - c) * y2)); [|ring].
  apply Qmult_comp; [reflexivity|]. field. exact Hd.
Qed.
(** the same when (x2, y2) is the end point outside *)
Lemma clip_y2 x1 y1 x2 y2 c sgn p :
  (sgn == 1 \/ sgn == -1) ->
  0 < sgn * (y2 - c) -> sgn * (y1 - c) <= 0 -> sgn * (py p - c) <= 0 ->
  seg_has x1 y1 x2 y2 p -> seg_has x1 y1 (x1 + (x2 - x1) * (c - y1) / (y2 - y1)) c p.
Proof.
  intros Hs HA HB HP S. apply seg_has_sym.
  assert (Hd : ~ y2 - y1 == 0) by (destruct Hs as [E|E]; rewrite E in *; lra).
  apply (clip_keeps 0 sgn (- sgn * c) x2 y2 x1 y1 _ _ p); cbn beta; try lra; try (apply seg_has_sym; exact S).
  transitivity (sgn * ((y2 - y1) * (x1 + (x2 - x1) * (c - y1) / (y2 - y1)))); [ring|].
  transitivity (sgn * ((c - y1) * x2 + (y2 - c) * x1)); [|ring].
  apply Qmult_comp; [reflexivity|]. field. exact Hd.
Qed.
Lemma clip_x2 x1 y1 x2 y2 c sgn p :
  (sgn == 1 \/ sgn == -1) ->
  0 < sgn * (x2 - c) -> sgn * (x1 - c) <= 0 -> sgn * (px p - c) <= 0 ->
  seg_has x1 y1 x2 y2 p -> seg_has x1 y1 c (y1 + (y2 - y1) * (c - x1) / (x2 - x1)) p.
Proof.
  intros Hs HA HB HP S. apply seg_has_sym.
  assert (Hd : ~ x2 - x1 == 0) by (destruct Hs as [E|E]; rewrite E in *; lra).
  apply (clip_keeps sgn 0 (- sgn * c) x2 y2 x1 y1 _ _ p); cbn beta; try lra; try (apply seg_has_sym; exact S).
  transitivity (sgn * ((x2 - x1) * (y1 + (y2 - y1) * (c - x1) / (x2 - x1)))); [ring|].
  transitivity (sgn * ((c - x1) * y2 + (x2 - c) * y1)); [|ring].
  apply Qmult_comp; [reflexivity|]. field. exact Hd.
Qed.

(** ** the loop *)
Lemma weighted_lt la mu a b c w : 0 <= la -> 0 <= mu -> 0 < la + mu -> a < c -> b < c ->
  (la + mu) * w == la * a + mu * b -> w < c.
Proof.
  intros L M W A B E.
  assert (H : (la + mu) * w < (la + mu) * c).
  { rewrite E. destruct (Qlt_le_dec 0 la) as [P|P].
    - assert (la * a < la * c) by nra. assert (mu * b <= mu * c) by nra. lra.
    - assert (la == 0) by lra. assert (0 < mu) by lra. assert (mu * b < mu * c) by nra. nra. }
  nra.
Qed.
Lemma weighted_gt la mu a b c w : 0 <= la -> 0 <= mu -> 0 < la + mu -> c < a -> c < b ->
  (la + mu) * w == la * a + mu * b -> c < w.
Proof.
  intros L M W A B E.
  assert (H : (la + mu) * c < (la + mu) * w).
  { rewrite E. destruct (Qlt_le_dec 0 la) as [P|P].
    - assert (la * c < la * a) by nra. assert (mu * c <= mu * b) by nra. lra.
    - assert (la == 0) by lra. assert (0 < mu) by lra. assert (mu * c < mu * b) by nra. nra. }
  nra.
Qed.

Section Codes.
  Variable r : rect.
  Hypothesis Wx : px (fst r) <= px (snd r).
  Hypothesis Wy : py (fst r) <= py (snd r).
  Lemma le_true x y : c_left (cs_code r x y) = true -> x < px (fst r).
  Proof. cbn. apply qlt_spec. Qed.
  Lemma le_false x y : c_left (cs_code r x y) = false -> px (fst r) <= x.
  Proof. cbn. apply qlt_false. Qed.
  Lemma lo_true x y : c_lower (cs_code r x y) = true -> y < py (fst r).
  Proof. cbn. apply qlt_spec. Qed.
  Lemma lo_false x y : c_lower (cs_code r x y) = false -> py (fst r) <= y.
  Proof. cbn. apply qlt_false. Qed.
  Lemma ri_true x y : c_right (cs_code r x y) = true -> px (snd r) < x.
  Proof. cbn. intro H. apply andb_true_iff in H. apply qlt_spec. tauto. Qed.
  Lemma ri_false x y : c_right (cs_code r x y) = false -> x <= px (snd r).
  Proof.
    cbn. intro H. apply andb_false_iff in H. destruct H as [H|H].
    - apply negb_false_iff, qlt_spec in H. lra.
    - apply qlt_false in H. exact H.
  Qed.
  Lemma up_true x y : c_upper (cs_code r x y) = true -> py (snd r) < y.
  Proof. cbn. intro H. apply andb_true_iff in H. apply qlt_spec. tauto. Qed.
  Lemma up_false x y : c_upper (cs_code r x y) = false -> y <= py (snd r).
  Proof.
    cbn. intro H. apply andb_false_iff in H. destruct H as [H|H].
    - apply negb_false_iff, qlt_spec in H. lra.
    - apply qlt_false in H. exact H.
  Qed.
End Codes.

Lemma no_common_side r x1 y1 x2 y2 p :
  In_rect p r -> seg_has x1 y1 x2 y2 p -> code_and (cs_code r x1 y1) (cs_code r x2 y2) = false.
Proof.
  intros [[Rx0 Rx1] [Ry0 Ry1]] [la [mu [L0 [M0 [W [Px Py]]]]]].
  destruct (code_and _ _) eqn:E; [exfalso|reflexivity].
  unfold code_and in E.
  repeat (apply orb_true_iff in E; destruct E as [E|E]); apply andb_true_iff in E; destruct E as [E1 E2].
  - apply le_true in E1. apply le_true in E2. pose proof (weighted_lt _ _ _ _ _ _ L0 M0 W E1 E2 Px). lra.
  - apply ri_true in E1. apply ri_true in E2. pose proof (weighted_gt _ _ _ _ _ _ L0 M0 W E1 E2 Px). lra.
  - apply lo_true in E1. apply lo_true in E2. pose proof (weighted_lt _ _ _ _ _ _ L0 M0 W E1 E2 Py). lra.
  - apply up_true in E1. apply up_true in E2. pose proof (weighted_gt _ _ _ _ _ _ L0 M0 W E1 E2 Py). lra.
Qed.

Lemma code_and_false k1 k2 : code_and k1 k2 = false ->
  (c_left k1 = true -> c_left k2 = false) /\ (c_right k1 = true -> c_right k2 = false) /\
  (c_lower k1 = true -> c_lower k2 = false) /\ (c_upper k1 = true -> c_upper k2 = false).
Proof.
  unfold code_and. destruct (c_left k1), (c_left k2), (c_right k1), (c_right k2),
    (c_lower k1), (c_lower k2), (c_upper k1), (c_upper k2); cbn; intro H; try discriminate; repeat split; congruence.
Qed.
Lemma code_zero_true k : code_zero k = true ->
  c_left k = false /\ c_right k = false /\ c_lower k = false /\ c_upper k = false.
Proof. unfold code_zero. destruct (c_left k), (c_right k), (c_lower k), (c_upper k); cbn; intro H; try discriminate; auto. Qed.

(** one round keeps every point of the segment that lies in the rectangle *)
Lemma clip1_keeps r x1 y1 x2 y2 p :
  In_rect p r -> seg_has x1 y1 x2 y2 p ->
  code_zero (cs_code r x1 y1) = false ->
  seg_has (fst (cs_clip r (cs_code r x1 y1) x1 y1 x2 y2)) (snd (cs_clip r (cs_code r x1 y1) x1 y1 x2 y2)) x2 y2 p.
Proof.
  intros Hr Hs K1. pose proof (no_common_side r x1 y1 x2 y2 p Hr Hs) as NC.
  apply code_and_false in NC. destruct NC as [Nle [Nri [Nlo Nup]]].
  pose proof Hr as [[Rx0 Rx1] [Ry0 Ry1]].
  assert (Wx : px (fst r) <= px (snd r)) by lra. assert (Wy : py (fst r) <= py (snd r)) by lra.
  unfold cs_clip.
  destruct (c_upper (cs_code r x1 y1)) eqn:U.
  { cbn [fst snd]. pose proof (up_true r _ _ U). pose proof (up_false r Wy _ _ (Nup eq_refl)).
    apply (clip_y x1 y1 x2 y2 (py (snd r)) 1 p); try lra; try exact Hs; try (left; reflexivity). }
  destruct (c_lower (cs_code r x1 y1)) eqn:Lo.
  { cbn [fst snd]. pose proof (lo_true r _ _ Lo). pose proof (lo_false r _ _ (Nlo eq_refl)).
    apply (clip_y x1 y1 x2 y2 (py (fst r)) (-1) p); try lra; try exact Hs; try (right; reflexivity). }
  destruct (c_right (cs_code r x1 y1)) eqn:Ri.
  { cbn [fst snd]. pose proof (ri_true r _ _ Ri). pose proof (ri_false r Wx _ _ (Nri eq_refl)).
    apply (clip_x x1 y1 x2 y2 (px (snd r)) 1 p); try lra; try exact Hs; try (left; reflexivity). }
  destruct (c_left (cs_code r x1 y1)) eqn:Le.
  { cbn [fst snd]. pose proof (le_true r _ _ Le). pose proof (le_false r _ _ (Nle eq_refl)).
    apply (clip_x x1 y1 x2 y2 (px (fst r)) (-1) p); try lra; try exact Hs; try (right; reflexivity). }
  exfalso. unfold code_zero in K1. rewrite U, Lo, Ri, Le in K1. discriminate.
Qed.
Lemma clip2_keeps r x1 y1 x2 y2 p :
  In_rect p r -> seg_has x1 y1 x2 y2 p ->
  code_zero (cs_code r x1 y1) = true -> code_zero (cs_code r x2 y2) = false ->
  seg_has x1 y1 (fst (cs_clip r (cs_code r x2 y2) x1 y1 x2 y2)) (snd (cs_clip r (cs_code r x2 y2) x1 y1 x2 y2)) p.
Proof.
  intros Hr Hs K1 K2. apply code_zero_true in K1. destruct K1 as [Zle [Zri [Zlo Zup]]].
  pose proof Hr as [[Rx0 Rx1] [Ry0 Ry1]].
  assert (Wx : px (fst r) <= px (snd r)) by lra. assert (Wy : py (fst r) <= py (snd r)) by lra.
  pose proof (le_false r _ _ Zle). pose proof (ri_false r Wx _ _ Zri).
  pose proof (lo_false r _ _ Zlo). pose proof (up_false r Wy _ _ Zup).
  unfold cs_clip.
  destruct (c_upper (cs_code r x2 y2)) eqn:U.
  { cbn [fst snd]. pose proof (up_true r _ _ U).
    apply (clip_y2 x1 y1 x2 y2 (py (snd r)) 1 p); try lra; try exact Hs; try (left; reflexivity). }
  destruct (c_lower (cs_code r x2 y2)) eqn:Lo.
  { cbn [fst snd]. pose proof (lo_true r _ _ Lo).
    apply (clip_y2 x1 y1 x2 y2 (py (fst r)) (-1) p); try lra; try exact Hs; try (right; reflexivity). }
  destruct (c_right (cs_code r x2 y2)) eqn:Ri.
  { cbn [fst snd]. pose proof (ri_true r _ _ Ri).
    apply (clip_x2 x1 y1 x2 y2 (px (snd r)) 1 p); try lra; try exact Hs; try (left; reflexivity). }
  destruct (c_left (cs_code r x2 y2)) eqn:Le.
  { cbn [fst snd]. pose proof (le_true r _ _ Le).
    apply (clip_x2 x1 y1 x2 y2 (px (fst r)) (-1) p); try lra; try exact Hs; try (right; reflexivity). }
  exfalso. unfold code_zero in K2. rewrite U, Lo, Ri, Le in K2. discriminate.
Qed.

Lemma lir_loop_complete fuel : forall r x1 y1 x2 y2 p,
  In_rect p r -> seg_has x1 y1 x2 y2 p -> lir_loop fuel r x1 y1 x2 y2 = true.
Proof.
  induction fuel as [|f IH]; intros r x1 y1 x2 y2 p Hr Hs; cbn [lir_loop];
    destruct (code_zero (cs_code r x1 y1) && code_zero (cs_code r x2 y2)) eqn:Z; try reflexivity;
    rewrite (no_common_side r x1 y1 x2 y2 p Hr Hs); try reflexivity.
  destruct (code_zero (cs_code r x1 y1)) eqn:K1; cbn [negb].
  - cbn [andb] in Z.
    pose proof (clip2_keeps r x1 y1 x2 y2 p Hr Hs K1 Z) as S.
    destruct (cs_clip r (cs_code r x2 y2) x1 y1 x2 y2) as [x y]. cbn [fst snd] in S.
    apply (IH r x1 y1 x y p Hr S).
  - pose proof (clip1_keeps r x1 y1 x2 y2 p Hr Hs K1) as S.
    destruct (cs_clip r (cs_code r x1 y1) x1 y1 x2 y2) as [x y]. cbn [fst snd] in S.
    apply (IH r x y x2 y2 p Hr S).
Qed.

(** the pre-filter of [column_track]: a segment with a point in the rectangle is never rejected *)
Lemma lir_complete r l1 l2 p t :
  In_rect p r -> 0 <= t -> t <= 1 ->
  px p == px l1 + t * (px l2 - px l1) -> py p == py l1 + t * (py l2 - py l1) ->
  line_intersects_rectangle r l1 l2 = true.
Proof.
  intros Hr T0 T1 Ex Ey. unfold line_intersects_rectangle. apply (lir_loop_complete 8 r _ _ _ _ p Hr).
  exists (1 - t), t. split; [lra|]. split; [exact T0|]. split; [lra|]. split; lra.
Qed.
