(** C12 -- chords of different columns do not overlap (consequence of tiling): the statement left
    out of the end-to-end track theorem.  Pure interval reasoning on [crossing]. *)
From Coq Require Import List Bool Arith ZArith PArith QArith Qabs Lia Lqa.
From Gen Require Import GenGeom.
From P Require Import Locate LocBasics LocPolygon LocConvex LineModel LocRect LocLine LocTrack LocRefuted LocEnd LocMain.
Import ListNotations.
Open Scope Q_scope.

Lemma chords_disjoint (polygon : positive -> list pt) (l1 l2 : pt) (cols : list positive) c c' a b a' b' :
  (forall t, 0 <= t -> t <= 1 -> forall c c', In c cols -> In c' cols ->
     strictly_inside (polygon c) (lpoint l1 l2 t) -> strictly_inside (polygon c') (lpoint l1 l2 t) -> c = c') ->
  In c cols -> In c' cols -> c <> c' ->
  crossing (polygon c) l1 l2 a b -> crossing (polygon c') l1 l2 a' b' ->
  b <= a' \/ b' <= a.
Proof.
  intros T Ic Ic' Hne [A0 [A1 [A2 [Ai _]]]] [B0 [B1 [B2 [Bi _]]]].
  destruct (Qlt_le_dec a' b) as [L|L]; [|left; exact L].
  destruct (Qlt_le_dec a b') as [M|M]; [|right; exact M].
  exfalso. apply Hne.
  set (lo := if Qlt_le_dec a a' then a' else a).
  set (hi := if Qlt_le_dec b b' then b else b').
  assert (Hlo : a <= lo /\ a' <= lo /\ lo < b /\ lo < b').
  { unfold lo. destruct (Qlt_le_dec a a'); repeat split; lra. }
  assert (Hhi : hi <= b /\ hi <= b' /\ a < hi /\ a' < hi /\ lo < hi).
  { unfold hi, lo. destruct (Qlt_le_dec b b'); destruct (Qlt_le_dec a a'); repeat split; lra. }
  clearbody lo hi.
  apply (T ((lo + hi) * (1 # 2))); try assumption; try lra.
  - apply Ai; lra.
  - apply Bi; lra.
Qed.

(** in entry order: the column entered first is left before (or where) the other is entered, so
    the gap between the two segments is not negative *)
Lemma chords_in_entry_order (polygon : positive -> list pt) (l1 l2 : pt) (cols : list positive) c c' a b a' b' :
  (forall t, 0 <= t -> t <= 1 -> forall c c', In c cols -> In c' cols ->
     strictly_inside (polygon c) (lpoint l1 l2 t) -> strictly_inside (polygon c') (lpoint l1 l2 t) -> c = c') ->
  In c cols -> In c' cols -> c <> c' ->
  crossing (polygon c) l1 l2 a b -> crossing (polygon c') l1 l2 a' b' ->
  a <= a' -> b <= a'.
Proof.
  intros T Ic Ic' Hne C C' L.
  destruct (chords_disjoint polygon l1 l2 cols c c' a b a' b' T Ic Ic' Hne C C') as [H|H]; [exact H|].
  destruct C' as [_ [B1 _]]. lra.
Qed.

(** the hypotheses hold together: columns 1 and 4 of the M-grid and the line x = 50, y = -10 .. 250;
    the chords are (1/26, 11/26) and (11/26, 21/26): they abut *)
Lemma ex_m_square_crossing c y0 a b :
  m_polygon c = [(100, y0); (100, y0 + 100); (0, y0 + 100); (0, y0)] ->
  0 <= a -> a < b -> b <= 1 -> -10 + a * 260 == y0 -> -10 + b * 260 == y0 + 100 ->
  crossing (m_polygon c) (50, -10) (50, 250) a b.
Proof.
  intros E A0 A1 A2 Ea Eb. rewrite E. unfold crossing. repeat split; try assumption.
  - intros t T0 T1 u w H. cbn in H.
    repeat (destruct H as [H|H]; [inversion H; subst; unfold orient, lpoint, px, py; cbn [fst snd]; nra|]). destruct H.
  - intros t T0 T1 [L|L] Hc.
    + assert (I : In ((0, y0), (100, y0)) (edges [(100, y0); (100, y0 + 100); (0, y0 + 100); (0, y0)])) by (cbn; tauto).
      specialize (Hc _ _ I). unfold orient, lpoint, px, py in Hc; cbn [fst snd] in Hc. nra.
    + assert (I : In ((100, y0 + 100), (0, y0 + 100)) (edges [(100, y0); (100, y0 + 100); (0, y0 + 100); (0, y0)])) by (cbn; tauto).
      specialize (Hc _ _ I). unfold orient, lpoint, px, py in Hc; cbn [fst snd] in Hc. nra.
Qed.

Definition ex_tiling (polygon : positive -> list pt) (l1 l2 : pt) (cols : list positive) : Prop :=
  forall t, 0 <= t -> t <= 1 -> forall c c', In c cols -> In c' cols ->
     strictly_inside (polygon c) (lpoint l1 l2 t) -> strictly_inside (polygon c') (lpoint l1 l2 t) -> c = c'.
Lemma ex_chords_hyps :
  let l1 := (50, -10) in let l2 := (50, 250) in let cols := [1; 4]%positive in
  (1 # 26) <= (11 # 26) /\ ex_tiling m_polygon l1 l2 cols /\
  In 1%positive cols /\ In 4%positive cols /\ 1%positive <> 4%positive /\
  crossing (m_polygon 1) l1 l2 (1 # 26) (11 # 26) /\ crossing (m_polygon 4) l1 l2 (11 # 26) (21 # 26).
Proof.
  cbv zeta. pose proof ex_end_to_end_hyps as H. cbv zeta in H.
  destruct H as [_ [_ [_ [_ [_ [_ [_ [_ [T _]]]]]]]]].
  split; [unfold Qle; cbn; lia|]. split; [exact T|]. split; [cbn; tauto|]. split; [cbn; tauto|]. split; [discriminate|].
  split.
  - apply (ex_m_square_crossing 1%positive 0); try reflexivity; try (unfold Qle, Qlt; cbn; lia).
  - apply (ex_m_square_crossing 4%positive 100); try reflexivity; try (unfold Qle, Qlt; cbn; lia).
Qed.
