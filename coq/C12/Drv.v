(** C12 -- extracted driver for the correspondence: one case per line.

    Numbers are exact rationals written as two decimal integers "num den"; a point is
    4 integers, a rectangle 8, a polygon 4k.  Column ids are 1..n in [columnlist] order.

    ir  <pos> <rect>            in_rectangle                  -> 0/1
    ri  <rect> <rect>           rectangles_intersect          -> 0/1
    sr  <rect>                  sub_rectangles                -> r;r;r;r
    ip  <pos> <poly>            in_polygon                    -> 0/1
    lpi <line> <poly>           line_polygon_intersections    -> hits "xi0 xi1 x y" in edge order, joined by ;
    lir <rect> <line>           line_intersects_rectangle     -> 0/1 and the rounds used
    bp  <points>                bounds_of_points              -> rect
    geo <columns> <layers> <qtree> <queries>                  -> results joined by |
    trk <columns> <line> <percolumn> <disttable>              -> track
*)
From Coq Require Import Ascii String List Bool Arith ZArith PArith QArith Qreduction FMapPositive.
From PTBase Require Import Exn PyStr PyNum PyVal Wire.
From Gen Require Import GenGeom.
From P Require Import Locate LineModel.
Import ListNotations.
Open Scope char_scope.

Definition nonempty (s : str) : bool := match s with [] => false | _ => true end.

(** splitting in linear time ([PyStr.split_c] reverses every field with the standard-library
    [rev], which is quadratic once extracted: a 300 kB column table took minutes) *)
Fixpoint split_tr (ch : ascii) (cur : str) (acc : list str) (s : str) : list str :=
  match s with
  | [] => rev_append (rev_append cur [] :: acc) []
  | c :: r => if Ascii.eqb c ch then split_tr ch [] (rev_append cur [] :: acc) r
              else split_tr ch (c :: cur) acc r
  end.
Definition split_c (ch : ascii) (s : str) : list str := split_tr ch [] [] s.
Definition fields (s : str) : list str := split_c "009" s.
Definition ints (s : str) : list Z := map z_of_str (filter nonempty (split_c " " s)).
Fixpoint qs (l : list Z) : list Q :=
  match l with n :: d :: r => (n # Z.to_pos d) :: qs r | _ => [] end.
Fixpoint pts (l : list Q) : list pt :=
  match l with x :: y :: r => (x, y) :: pts r | _ => [] end.
Definition parse_pts (s : str) : list pt := pts (qs (ints s)).
Definition zero_pt : pt := (0%Q, 0%Q).
Definition parse_pt (s : str) : pt := hd zero_pt (parse_pts s).
Definition parse_rect (s : str) : rect :=
  match parse_pts s with a :: b :: _ => (a, b) | _ => (zero_pt, zero_pt) end.
Definition parse_q (s : str) : Q := hd 0%Q (qs (ints s)).
Definition parse_ids (s : str) : list positive := map Z.to_pos (ints s).

Definition show_q (q : Q) : str :=
  let r := Qred q in show_z (Qnum r) ++ s2l "/" ++ show_z (Zpos (Qden r)).
Definition show_pt (p : pt) : str := show_q (fst p) ++ sp ++ show_q (snd p).
Definition show_rect (r : rect) : str := show_pt (fst r) ++ sp ++ show_pt (snd r).
Definition show_pos (p : positive) : str := show_z (Zpos p).
Definition show_ids (l : list positive) : str := join_sp (map show_pos l).
Definition show_optpos (o : option positive) : str :=
  match o with Some p => show_pos p | None => s2l "N" end.
Fixpoint join_with (sep : str) (l : list str) : str :=
  match l with [] => [] | [a] => a | a :: r => a ++ sep ++ join_with sep r end.

(** Exact rescaling.  The doubles of one case are dyadic rationals with different
    denominators; [Q] arithmetic on Coq's unary-recursive [positive] then spends its time
    multiplying denominators.  The driver multiplies every coordinate, elevation and distance
    of a [geo]/[trk] case by the largest denominator [D] of the geometry (exact; all become
    integers when the denominators are powers of two) and divides printed coordinates by [D]
    again.  Every modelled function is homogeneous in the lengths (comparisons, differences,
    the factor 1/2, the relative tolerance of [column_track]), so this is the same computation
    on the same mesh measured in units of 1/D. *)
Definition scaleq (D : positive) (q : Q) : Q := Qred (Qmult q (Zpos D # 1)).
Definition unscaleq (D : positive) (q : Q) : Q := Qred (Qmult q (1 # D)).
Definition scale_pt D (p : pt) : pt := (scaleq D (fst p), scaleq D (snd p)).
Definition unscale_pt D (p : pt) : pt := (unscaleq D (fst p), unscaleq D (snd p)).
Definition scale_rect D (r : rect) : rect := (scale_pt D (fst r), scale_pt D (snd r)).
Definition unscale_rect D (r : rect) : rect := (unscale_pt D (fst r), unscale_pt D (snd r)).
Definition maxden_pts (l : list pt) (d : positive) : positive :=
  fold_left (fun d p => Pos.max (Pos.max d (Qden (fst p))) (Qden (snd p))) l d.

Record coldata := mkCol { cd_centre : pt; cd_surface : Q; cd_nbrs : list positive;
                          cd_poly : list pt; cd_bbox : rect }.
Definition parse_col (s : str) : coldata :=
  match split_c ";" s with
  | [c; sf; nb; po] =>
      let poly := parse_pts po in
      mkCol (parse_pt c) (parse_q sf) (parse_ids nb) poly (bounds_of_points poly)
  | _ => mkCol zero_pt 0%Q [] [] (zero_pt, zero_pt)
  end.

Definition scale_col D (c : coldata) : coldata :=
  mkCol (scale_pt D (cd_centre c)) (scaleq D (cd_surface c)) (cd_nbrs c)
        (map (scale_pt D) (cd_poly c)) (scale_rect D (cd_bbox c)).
Definition maxden_col (d : positive) (c : coldata) : positive :=
  maxden_pts (cd_centre c :: cd_poly c) (Pos.max d (Qden (cd_surface c))).

Definition colmap := PositiveMap.t coldata.
Fixpoint mk_map (i : positive) (l : list coldata) (m : colmap) : colmap :=
  match l with [] => m | c :: r => mk_map (Pos.succ i) r (PositiveMap.add i c m) end.
Fixpoint ids_from (i : positive) (l : list coldata) : list positive :=
  match l with [] => [] | _ :: r => i :: ids_from (Pos.succ i) r end.
Definition dflt_col : coldata := mkCol zero_pt 0%Q [] [] (zero_pt, zero_pt).
Definition getc (m : colmap) (c : positive) : coldata :=
  match PositiveMap.find c m with Some d => d | None => dflt_col end.

Definition parse_layers (s : str) : list layer :=
  map (fun f => match qs (ints f) with b :: t :: _ => mkLayer b t | _ => mkLayer 0%Q 0%Q end)
      (filter nonempty (split_c "|" s)).

Definition parse_optids (s : str) : option (list positive) :=
  if str_eqb s (s2l "-") then None else Some (parse_ids s).
Definition parse_optid (s : str) : option positive :=
  if str_eqb s (s2l "-") then None else Some (Z.to_pos (z_of_str s)).
Definition parse_bounds (s : str) : option bounds_arg :=
  match s with
  | "-" :: _ => None
  | "R" :: r => Some (BRect (parse_rect r))
  | "P" :: r => Some (BPoly (parse_pts r))
  | _ => None
  end.

Definition show_leaf (D : positive) (o : option qtree) : str :=
  match o with
  | None => s2l "N"
  | Some t => show_rect (unscale_rect D (qbounds t)) ++ s2l ":" ++ show_ids (qelements t)
  end.
Definition scale_bounds D (b : option bounds_arg) : option bounds_arg :=
  match b with
  | None => None
  | Some (BRect r) => Some (BRect (scale_rect D r))
  | Some (BPoly p) => Some (BPoly (map (scale_pt D) p))
  end.

Section Run.
  Variable D : positive.
  Variable m : colmap.
  Variable columnlist : list positive.
  Variable layers : list layer.
  Variable qt : qtree.
  Let polygon c := cd_poly (getc m c).
  Let centre c := cd_centre (getc m c).
  Let nbrs c := cd_nbrs (getc m c).
  Let bbox c := cd_bbox (getc m c).
  Let surface c := cd_surface (getc m c).
  Let ppt (s : str) : pt := scale_pt D (parse_pt s).
  Let pq (s : str) : Q := scaleq D (parse_q s).

  Definition run_query (s : str) : str :=
    match split_c ";" s with
    | [k; p] =>
        if str_eqb k (s2l "L") then show_leaf D (leaf qt (ppt p))
        else if str_eqb k (s2l "E") then
               let pp := ppt p in
               join_sp (map show_pos (filter (fun c => contains_point polygon c pp) columnlist))
        else s2l "BADQ"
    | [k; p; g; cs; bd; q] =>
        if str_eqb k (s2l "C") then
          show_optpos (column_containing_point polygon centre nbrs bbox columnlist (ppt p)
                         (parse_optids cs) (parse_optid g) (scale_bounds D (parse_bounds bd))
                         (if str_eqb q (s2l "1") then Some qt else None))
        else s2l "BADQ"
    | [k; p; z; q] =>
        if str_eqb k (s2l "B") then
          match block_containing_point polygon centre nbrs bbox surface columnlist layers (ppt p)
                  (pq z) (if str_eqb q (s2l "1") then Some qt else None) with
          | Some (li, c) => show_nat li ++ sp ++ show_pos c
          | None => s2l "N"
          end
        else s2l "BADQ"
    | [k; li; c; p; z] =>
        if str_eqb k (s2l "X") then
          show_bool (block_contains_point polygon surface columnlist layers (nat_of_str li)
                       (Z.to_pos (z_of_str c)) (ppt p) (pq z))
        else s2l "BADQ"
    | _ => s2l "BADQ"
    end.
End Run.

Definition run_geo (cols lays qspec queries : str) : str :=
  let cl0 := map parse_col (filter nonempty (split_c "|" cols)) in
  let layers0 := parse_layers lays in
  match split_c ";" qspec with
  | [rb; es; fu] =>
      let rb0 := parse_rect rb in
      let D := fold_left maxden_col cl0
                 (fold_left (fun d l => Pos.max (Pos.max d (Qden (lbottom l))) (Qden (ltop l))) layers0
                            (maxden_pts [fst rb0; snd rb0] 1%positive)) in
      let cl := map (scale_col D) cl0 in
      let layers := map (fun l => mkLayer (scaleq D (lbottom l)) (scaleq D (ltop l))) layers0 in
      let m := mk_map 1%positive cl (PositiveMap.empty _) in
      let columnlist := ids_from 1%positive cl in
      let fuel := nat_of_str fu in
      let qt := build (fun c => cd_centre (getc m c)) fuel (scale_rect D rb0) (parse_ids es) in
      s2l "D " ++ show_nat (qdepth qt) ++ sp ++ show_bool (qdepth qt <? fuel)%nat ++ s2l "|" ++
      join_with (s2l "|") (map (run_query D m columnlist layers qt) (filter nonempty (split_c "|" queries)))
  | _ => s2l "BADCASE"
  end.

(** track: per-column field "lir;inters;maxside"; distance table "pt dist|pt dist..." *)
Definition qeqb (a b : Q) : bool := Qeq_bool a b.
Definition pt_eqb (a b : pt) : bool := qeqb (fst a) (fst b) && qeqb (snd a) (snd b).
Definition parse_dist (s : str) : list (pt * Q) :=
  map (fun f => match qs (ints f) with x :: y :: d :: _ => ((x, y), d) | _ => (zero_pt, 0%Q) end)
      (filter nonempty (split_c "|" s)).
Definition lookup_dist (tbl : list (pt * Q)) (p : pt) : Q :=
  match find (fun e => pt_eqb (fst e) p) tbl with Some e => snd e | None => 0%Q end.

Record trkdata := mkTrk { td_lir : bool; td_inters : list pt; td_maxside : Q }.
Definition parse_trk (s : str) : trkdata :=
  match split_c ";" s with
  | [a; b; c] => mkTrk (str_eqb a (s2l "1")) (parse_pts b) (parse_q c)
  | _ => mkTrk false [] 0%Q
  end.
Fixpoint mk_tmap (i : positive) (l : list trkdata) (m : PositiveMap.t trkdata) :=
  match l with [] => m | c :: r => mk_tmap (Pos.succ i) r (PositiveMap.add i c m) end.
Definition gett (m : PositiveMap.t trkdata) (c : positive) : trkdata :=
  match PositiveMap.find c m with Some d => d | None => mkTrk false [] 0%Q end.

Definition show_seg (D : positive) (s : seg) : str :=
  show_pos (seg_col s) ++ s2l ":" ++ show_pt (unscale_pt D (seg_in s)) ++ s2l ":" ++ show_pt (unscale_pt D (seg_out s)).

Definition run_trk (cols line percol dtab : str) : str :=
  let cl0 := map parse_col (filter nonempty (split_c "|" cols)) in
  let D := fold_left maxden_col cl0 1%positive in
  let cl := map (scale_col D) cl0 in
  let m := mk_map 1%positive cl (PositiveMap.empty _) in
  let columnlist := ids_from 1%positive cl in
  let tm := mk_tmap 1%positive
              (map (fun t => mkTrk (td_lir t) (map (scale_pt D) (td_inters t)) (scaleq D (td_maxside t)))
                   (map parse_trk (filter nonempty (split_c "|" percol)))) (PositiveMap.empty _) in
  let tbl := map (fun e => (scale_pt D (fst e), scaleq D (snd e))) (parse_dist dtab) in
  let ln := scale_rect D (parse_rect line) in
  join_with (s2l "|")
    (map (show_seg D)
         (column_track (fun c => cd_poly (getc m c))
                       (fun c => td_lir (gett tm c)) (fun c => td_inters (gett tm c))
                       (lookup_dist tbl) (fun c => td_maxside (gett tm c)) track_tol
                       (fst ln) (snd ln) columnlist)).

Definition run_case (line : str) : str :=
  match fields line with
  | [k; a] =>
      if str_eqb k (s2l "sr") then join_with (s2l ";") (map show_rect (sub_rectangles (parse_rect a)))
      else if str_eqb k (s2l "bp") then show_rect (bounds_of_points (parse_pts a))
      else s2l "BADCASE"
  | [k; a; b] =>
      if str_eqb k (s2l "ir") then show_bool (in_rectangle (parse_pt a) (parse_rect b))
      else if str_eqb k (s2l "ri") then show_bool (rectangles_intersect (parse_rect a) (parse_rect b))
      else if str_eqb k (s2l "ip") then show_bool (in_polygon (parse_pt a) (parse_pts b))
      else if str_eqb k (s2l "lpi") then
             let ln := parse_rect a in
             join_with (s2l ";")
               (map (fun h => show_q (h_xi0 h) ++ sp ++ show_q (h_xi1 h) ++ sp ++ show_pt (h_pt h))
                    (lpi_hits (parse_pts b) (fst ln) (snd ln)))
      else if str_eqb k (s2l "lir") then
             let ln := parse_rect b in
             show_bool (line_intersects_rectangle (parse_rect a) (fst ln) (snd ln)) ++ sp ++
             show_nat (lir_rounds 8 (parse_rect a) (px (fst ln)) (py (fst ln)) (px (snd ln)) (py (snd ln)))
      else s2l "BADCASE"
  | [k; a; b; c; d] =>
      if str_eqb k (s2l "geo") then run_geo a b c d
      else if str_eqb k (s2l "trk") then run_trk a b c d
      else s2l "BADCASE"
  | _ => s2l "BADCASE"
  end.

Require Extraction.
Require Import ExtrOcamlBasic ExtrOcamlString.
Extraction "Drv.ml" run_case.
