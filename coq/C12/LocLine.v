(** C12 -- the line model: Cramer's rule is right, hits lie on the line and on the (tolerance-
    extended) edge; for a convex column the hits on the edges proper are boundary points, the
    open chord between the first and the last is strictly inside the column and the rest of
    the line is outside; a line that leaves a convex column hits its boundary. *)
From Coq Require Import List Bool Arith ZArith PArith QArith Qabs Lia Lqa.
From Gen Require Import GenGeom.
From P Require Import Locate LocBasics LocPolygon LocConvex LineModel LocRect.
Import ListNotations.
Open Scope Q_scope.

(** the point of the line with parameter t *)
Definition lpoint (l1 l2 : pt) (t : Q) : pt :=
  (px l1 + t * (px l2 - px l1), py l1 + t * (py l2 - py l1)).
Definition pt_eq (a b : pt) : Prop := px a == px b /\ py a == py b.

Lemma in_unit_spec x : in_unit x = true <-> - lpi_tol <= x /\ x <= 1 + lpi_tol.
Proof. unfold in_unit. rewrite andb_true_iff, !qle_spec. reflexivity. Qed.

Definition ldet (l1 l2 p1 p2 : pt) : Q :=
  (px p2 - px p1) * (py l1 - py l2) - (py p2 - py p1) * (px l1 - px l2).

(** a hit is a common point of the line and of the edge's supporting line, with both
    parameters within the tolerance of [0, 1] *)
Lemma lpi_edge_some l1 l2 p1 p2 h :
  lpi_edge l1 l2 p1 p2 = Some h ->
  ~ ldet l1 l2 p1 p2 == 0 /\
  in_unit (h_xi0 h) = true /\ in_unit (h_xi1 h) = true /\
  pt_eq (h_pt h) (lpoint p1 p2 (h_xi0 h)) /\ pt_eq (h_pt h) (lpoint l1 l2 (h_xi1 h)).
Proof.
  unfold lpi_edge, ldet, psub, px, py. cbn [fst snd].
  set (det := (fst p2 - fst p1) * (snd l1 - snd l2) - (snd p2 - snd p1) * (fst l1 - fst l2)).
  destruct (Qeq_bool det 0) eqn:Ed; [discriminate|].
  assert (Hd : ~ det == 0) by (intro E; apply Qeq_bool_iff in E; congruence).
  destruct (in_unit _ && in_unit _) eqn:Eu; [|discriminate].
  intro H; inversion H; subst h; clear H. cbn [h_xi0 h_xi1 h_pt].
  apply andb_true_iff in Eu. destruct Eu as [U0 U1].
  split; [exact Hd|]. split; [exact U0|]. split; [exact U1|].
  unfold pt_eq, lpoint, px, py; cbn [fst snd]. fold det.
  repeat split; try reflexivity; unfold det; field; exact Hd.
Qed.

(** conversely a common point of the edge and the segment (non-parallel) is a hit *)
Lemma lpi_edge_complete l1 l2 p1 p2 s t :
  ~ ldet l1 l2 p1 p2 == 0 ->
  pt_eq (lpoint p1 p2 s) (lpoint l1 l2 t) ->
  in_unit s = true -> in_unit t = true ->
  exists h, lpi_edge l1 l2 p1 p2 = Some h /\ h_xi0 h == s /\ h_xi1 h == t.
Proof.
  unfold lpi_edge, ldet, pt_eq, lpoint, psub, px, py. cbn [fst snd].
  set (det := (fst p2 - fst p1) * (snd l1 - snd l2) - (snd p2 - snd p1) * (fst l1 - fst l2)).
  intros Hd [Ex Ey] Us Ut.
  destruct (Qeq_bool det 0) eqn:Ed; [apply Qeq_bool_iff in Ed; contradiction|].
  set (xi0 := ((fst l1 - fst p1) * (snd l1 - snd l2) - (snd l1 - snd p1) * (fst l1 - fst l2)) / det).
  set (xi1 := ((fst p2 - fst p1) * (snd l1 - snd p1) - (snd p2 - snd p1) * (fst l1 - fst p1)) / det).
  assert (H1 : fst l1 - fst p1 == s * (fst p2 - fst p1) + t * (fst l1 - fst l2)) by lra.
  assert (H2 : snd l1 - snd p1 == s * (snd p2 - snd p1) + t * (snd l1 - snd l2)) by lra.
  assert (E0 : xi0 == s).
  { unfold xi0. apply Qmult_inj_r with (z := det); [exact Hd|].
    transitivity ((fst l1 - fst p1) * (snd l1 - snd l2) - (snd l1 - snd p1) * (fst l1 - fst l2)); [field; exact Hd|].
    unfold det. rewrite H1, H2. ring. }
  assert (E1 : xi1 == t).
  { unfold xi1. apply Qmult_inj_r with (z := det); [exact Hd|].
    transitivity ((fst p2 - fst p1) * (snd l1 - snd p1) - (snd p2 - snd p1) * (fst l1 - fst p1)); [field; exact Hd|].
    unfold det. rewrite H1, H2. ring. }
  assert (U0 : in_unit xi0 = true) by (apply in_unit_spec; rewrite E0; apply in_unit_spec; exact Us).
  assert (U1 : in_unit xi1 = true) by (apply in_unit_spec; rewrite E1; apply in_unit_spec; exact Ut).
  rewrite U0, U1. cbn [andb]. eexists. split; [reflexivity|]. cbn [h_xi0 h_xi1]. split; assumption.
Qed.

Lemma lpi_hits_in poly l1 l2 h :
  In h (lpi_hits poly l1 l2) <-> exists a b, In (a, b) (edges poly) /\ lpi_edge l1 l2 a b = Some h.
Proof.
  unfold lpi_hits. rewrite in_flat_map. split.
  - intros [[a b] [He Hh]]. cbn [fst snd] in Hh. exists a, b. split; [exact He|].
    destruct (lpi_edge l1 l2 a b) as [h'|]; [|destruct Hh]. destruct Hh as [->|[]]. reflexivity.
  - intros [a [b [He Hh]]]. exists (a, b). split; [exact He|]. cbn [fst snd]. rewrite Hh. left; reflexivity.
Qed.

(** every point [line_polygon_intersections] can return lies on the line, within the tolerance
    of the segment, and on an edge (extended by the tolerance); the list is ordered along the line *)
Lemma lpi_points_on_line poly l1 l2 p :
  In p (lpi_points poly l1 l2) ->
  exists h a b, In (a, b) (edges poly) /\ p = h_pt h /\
    in_unit (h_xi0 h) = true /\ in_unit (h_xi1 h) = true /\
    pt_eq p (lpoint a b (h_xi0 h)) /\ pt_eq p (lpoint l1 l2 (h_xi1 h)).
Proof.
  unfold lpi_points, lpi_sorted. intro H. apply in_map_iff in H. destruct H as [h [E H]].
  apply sort_by_in in H. apply lpi_hits_in in H. destruct H as [a [b [He Hh]]].
  apply lpi_edge_some in Hh. destruct Hh as [_ [U0 [U1 [P0 P1]]]].
  exists h, a, b. subst p. auto 10.
Qed.
Lemma lpi_sorted_sorted poly l1 l2 :
  Sorted.Sorted (fun a b => h_xi1 a <= h_xi1 b) (lpi_sorted poly l1 l2).
Proof. unfold lpi_sorted. apply (sort_by_sorted h_xi1). Qed.

(** ** orientation along a line *)
Lemma orient_pt_eq u w x y : pt_eq x y -> orient u w x == orient u w y.
Proof. intros [Ex Ey]. unfold orient. rewrite Ex, Ey. reflexivity. Qed.
Lemma orient_lpoint u w a b s : orient u w (lpoint a b s) == (1 - s) * orient u w a + s * orient u w b.
Proof. unfold orient, lpoint, px, py. cbn [fst snd]. ring. Qed.
Lemma lpoint_lpoint a b s t r : pt_eq (lpoint (lpoint a b s) (lpoint a b t) r) (lpoint a b (s + r * (t - s))).
Proof. unfold pt_eq, lpoint, px, py. cbn [fst snd]. split; ring. Qed.

Definition closed_inside (l : list pt) (p : pt) : Prop :=
  forall u w, In (u, w) (edges l) -> 0 <= orient u w p.

(** a point of an edge of a convex polygon lies in the closed polygon *)
Lemma edge_point_closed_inside l a b s x :
  convex_ccw l -> In (a, b) (edges l) -> 0 <= s -> s <= 1 -> pt_eq x (lpoint a b s) -> closed_inside l x.
Proof.
  intros Hc He S0 S1 Ex u w Huw. rewrite (orient_pt_eq _ _ _ _ Ex), orient_lpoint.
  destruct (edge_vertices _ _ _ He) as [Va Vb].
  pose proof (vertex_left_of_edge _ _ _ _ Hc Huw Va). pose proof (vertex_left_of_edge _ _ _ _ Hc Huw Vb). nra.
Qed.

(** the slope of an edge's orientation function along the line is the determinant of the 2 x 2 system *)
Lemma orient_slope a b l1 l2 : orient a b l2 - orient a b l1 == - ldet l1 l2 a b.
Proof. unfold orient, ldet. ring. Qed.

(** ** the chord of a convex column.
    X = line(tx) on edge e1 and Y = line(ty) on edge e2 (tx < ty, neither edge parallel to the
    line): between them the line is in the closed column -- strictly inside unless it runs along
    an edge -- and before X / after Y it is outside. *)
Section Chord.
  Variables (l : list pt) (l1 l2 : pt).
  Hypothesis Hc : convex_ccw l.
  Variables (a1 b1 a2 b2 : pt) (s1 s2 tx ty : Q).
  Hypothesis He1 : In (a1, b1) (edges l).
  Hypothesis He2 : In (a2, b2) (edges l).
  Hypothesis Hs1 : 0 <= s1 /\ s1 <= 1.
  Hypothesis Hs2 : 0 <= s2 /\ s2 <= 1.
  Hypothesis HX : pt_eq (lpoint l1 l2 tx) (lpoint a1 b1 s1).
  Hypothesis HY : pt_eq (lpoint l1 l2 ty) (lpoint a2 b2 s2).
  Hypothesis Hd1 : ~ ldet l1 l2 a1 b1 == 0.
  Hypothesis Hd2 : ~ ldet l1 l2 a2 b2 == 0.
  Hypothesis Hlt : tx < ty.

  Let X := lpoint l1 l2 tx.
  Let Y := lpoint l1 l2 ty.
  Lemma chord_X_closed : closed_inside l X.
  Proof. destruct Hs1 as [A B]. exact (edge_point_closed_inside l a1 b1 s1 X Hc He1 A B HX). Qed.
  Lemma chord_Y_closed : closed_inside l Y.
  Proof. destruct Hs2 as [A B]. exact (edge_point_closed_inside l a2 b2 s2 Y Hc He2 A B HY). Qed.

  Lemma chord_between_closed t : tx <= t -> t <= ty -> closed_inside l (lpoint l1 l2 t).
  Proof.
    intros T0 T1 u w Huw.
    pose proof (chord_X_closed u w Huw) as FX. pose proof (chord_Y_closed u w Huw) as FY.
    unfold X, Y in *. rewrite orient_lpoint in *.
    set (f0 := orient u w l1) in *. set (f1 := orient u w l2) in *.
    (* affine in t, non-negative at tx and ty *)
    assert (E : forall r, (1 - r) * f0 + r * f1 == f0 + r * (f1 - f0)) by (intro; ring).
    rewrite E in *. nra.
  Qed.

  Lemma chord_between_strict t : tx < t -> t < ty ->
    (forall u w, In (u, w) (edges l) -> ~ (orient u w X == 0 /\ orient u w Y == 0)) ->
    strictly_inside l (lpoint l1 l2 t).
  Proof.
    intros T0 T1 Hnd u w Huw.
    pose proof (chord_X_closed u w Huw) as FX. pose proof (chord_Y_closed u w Huw) as FY.
    pose proof (Hnd u w Huw) as N.
    unfold X, Y in *. rewrite !orient_lpoint in N. rewrite orient_lpoint in *.
    set (f0 := orient u w l1) in *. set (f1 := orient u w l2) in *.
    assert (E : forall r, (1 - r) * f0 + r * f1 == f0 + r * (f1 - f0)) by (intro; ring).
    rewrite E in *.
    assert (I : (ty - tx) * (f0 + t * (f1 - f0)) ==
                (ty - t) * (f0 + tx * (f1 - f0)) + (t - tx) * (f0 + ty * (f1 - f0))) by ring.
    assert (N' : ~ (f0 + tx * (f1 - f0) == 0 /\ f0 + ty * (f1 - f0) == 0)).
    { intros [A B]. apply N. split; lra. }
    clear N.
    set (gx := f0 + tx * (f1 - f0)) in *. set (gy := f0 + ty * (f1 - f0)) in *. set (g := f0 + t * (f1 - f0)) in *.
    clearbody gx gy g. clear E.
    destruct (Qlt_le_dec 0 gx) as [L|L].
    - assert (0 < (ty - t) * gx) by nra. assert (0 <= (t - tx) * gy) by nra. nra.
    - destruct (Qlt_le_dec 0 gy) as [L'|L'].
      + assert (0 <= (ty - t) * gx) by nra. assert (0 < (t - tx) * gy) by nra. nra.
      + exfalso. apply N'. split; lra.
  Qed.

  (** before the entry point the line is on the wrong side of the entry edge ... *)
  Lemma chord_before_outside t : t < tx -> orient a1 b1 (lpoint l1 l2 t) < 0.
  Proof.
    intro T. pose proof (chord_Y_closed a1 b1 He1) as FY. unfold Y in FY.
    assert (FX : orient a1 b1 (lpoint l1 l2 tx) == 0).
    { rewrite (orient_pt_eq _ _ _ _ HX), orient_lpoint, orient_aa, orient_ab. ring. }
    pose proof (orient_slope a1 b1 l1 l2) as Sl.
    rewrite orient_lpoint in *.
    set (f0 := orient a1 b1 l1) in *. set (f1 := orient a1 b1 l2) in *. set (d := ldet l1 l2 a1 b1) in *.
    assert (Hs : 0 < f1 - f0).
    { destruct (Qlt_le_dec 0 (f1 - f0)) as [L|L]; [exact L|]. exfalso.
      assert (f1 - f0 == 0) by nra. apply Hd1. lra. }
    nra.
  Qed.
  (** ... and after the exit point on the wrong side of the exit edge *)
  Lemma chord_after_outside t : ty < t -> orient a2 b2 (lpoint l1 l2 t) < 0.
  Proof.
    intro T. pose proof (chord_X_closed a2 b2 He2) as FX. unfold X in FX.
    assert (FY : orient a2 b2 (lpoint l1 l2 ty) == 0).
    { rewrite (orient_pt_eq _ _ _ _ HY), orient_lpoint, orient_aa, orient_ab. ring. }
    pose proof (orient_slope a2 b2 l1 l2) as Sl.
    rewrite orient_lpoint in *.
    set (f0 := orient a2 b2 l1) in *. set (f1 := orient a2 b2 l2) in *. set (d := ldet l1 l2 a2 b2) in *.
    assert (Hs : f1 - f0 < 0).
    { destruct (Qlt_le_dec (f1 - f0) 0) as [L|L]; [exact L|]. exfalso.
      assert (f1 - f0 == 0) by nra. apply Hd2. lra. }
    nra.
  Qed.
End Chord.

(** ** a line that leaves a convex column hits its boundary *)
Definition aff (f0 f1 t : Q) : Q := (1 - t) * f0 + t * f1.
Lemma aff_between f0 f1 t0 t1 r : t0 <= r -> r <= t1 -> 0 <= aff f0 f1 t0 -> 0 <= aff f0 f1 t1 -> 0 <= aff f0 f1 r.
Proof.
  unfold aff. intros R0 R1 A0 A1.
  destruct (Qlt_le_dec t0 t1) as [L|L].
  - assert (I : (t1 - t0) * ((1 - r) * f0 + r * f1) ==
                (t1 - r) * ((1 - t0) * f0 + t0 * f1) + (r - t0) * ((1 - t1) * f0 + t1 * f1)) by ring.
    set (g0 := (1 - t0) * f0 + t0 * f1) in *. set (g1 := (1 - t1) * f0 + t1 * f1) in *.
    set (g := (1 - r) * f0 + r * f1) in *. clearbody g0 g1 g.
    assert (0 <= (t1 - r) * g0) by nra. assert (0 <= (r - t0) * g1) by nra. nra.
  - assert (E : r == t0) by lra. rewrite E. exact A0.
Qed.
Lemma aff_root f0 f1 t0 t1 : t0 < t1 -> 0 < aff f0 f1 t0 -> aff f0 f1 t1 < 0 ->
  exists r, t0 < r /\ r < t1 /\ aff f0 f1 r == 0.
Proof.
  unfold aff. intros L A0 A1.
  set (g0 := (1 - t0) * f0 + t0 * f1) in *. set (g1 := (1 - t1) * f0 + t1 * f1) in *.
  assert (Hd : ~ g0 - g1 == 0) by lra.
  exists (t0 + (t1 - t0) * g0 / (g0 - g1)).
  set (q := g0 / (g0 - g1)).
  assert (Hq : q * (g0 - g1) == g0) by (unfold q; field; exact Hd).
  assert (Q0 : 0 < q) by nra. assert (Q1 : q < 1) by nra.
  assert (Er : t0 + (t1 - t0) * g0 / (g0 - g1) == t0 + (t1 - t0) * q) by (unfold q; field; exact Hd).
  rewrite Er. split; [nra|]. split; [nra|].
  (* the affine function at t0 + (t1 - t0) q is (1 - q) g0 + q g1 *)
  assert (E : (1 - (t0 + (t1 - t0) * q)) * f0 + (t0 + (t1 - t0) * q) * f1 == (1 - q) * g0 + q * g1)
    by (unfold g0, g1; ring).
  rewrite E. nra.
Qed.

Section FirstExit.
  Variables (l1 l2 : pt).
  Definition fe (e : pt * pt) (t : Q) : Q := orient (fst e) (snd e) (lpoint l1 l2 t).
  Lemma fe_aff e t : fe e t == aff (orient (fst e) (snd e) l1) (orient (fst e) (snd e) l2) t.
  Proof. unfold fe, aff. apply orient_lpoint. Qed.

  (** among finitely many affine functions positive at t0, either all are non-negative at t1 or
      there is a first one to vanish, at a point where all the others are still non-negative *)
  Lemma first_zero (es : list (pt * pt)) t0 t1 : t0 < t1 ->
    (forall e, In e es -> 0 < fe e t0) ->
    (forall e, In e es -> 0 <= fe e t1) \/
    (exists e r, In e es /\ t0 < r /\ r < t1 /\ fe e r == 0 /\ forall e', In e' es -> 0 <= fe e' r).
  Proof.
    intros L. induction es as [|e es IH]; intro H0; [left; intros e []|].
    assert (H0' : forall e', In e' es -> 0 < fe e' t0) by (intros e' He'; apply H0; right; exact He').
    assert (P0 : 0 < fe e t0) by (apply H0; left; reflexivity).
    destruct (IH H0') as [All|[e1 [r [I1 [R0 [R1 [Z NN]]]]]]].
    - destruct (Qlt_le_dec (fe e t1) 0) as [N|N].
      + right. rewrite fe_aff in P0, N. destruct (aff_root _ _ t0 t1 L P0 N) as [r [R0 [R1 Z]]].
        exists e, r. split; [left; reflexivity|]. split; [exact R0|]. split; [exact R1|].
        split; [rewrite fe_aff; exact Z|].
        intros e' [<-|He']; [rewrite fe_aff, Z; apply Qle_refl|].
        rewrite fe_aff. apply aff_between with (t0 := t0) (t1 := t1); try lra.
        * rewrite <- fe_aff. apply Qlt_le_weak. apply H0'. exact He'.
        * rewrite <- fe_aff. apply All. exact He'.
      + left. intros e' [<-|He']; [exact N|apply All; exact He'].
    - destruct (Qlt_le_dec (fe e r) 0) as [N|N].
      + right. rewrite fe_aff in P0, N. destruct (aff_root _ _ t0 r R0 P0 N) as [r' [R0' [R1' Z']]].
        exists e, r'. split; [left; reflexivity|]. split; [exact R0'|]. split; [lra|].
        split; [rewrite fe_aff; exact Z'|].
        intros e' [<-|He']; [rewrite fe_aff, Z'; apply Qle_refl|].
        rewrite fe_aff. apply aff_between with (t0 := t0) (t1 := r); try lra.
        * rewrite <- fe_aff. apply Qlt_le_weak. apply H0'. exact He'.
        * rewrite <- fe_aff. apply NN. exact He'.
      + right. exists e1, r. split; [right; exact I1|]. split; [exact R0|]. split; [exact R1|]. split; [exact Z|].
        intros e' [<-|He']; [exact N|apply NN; exact He'].
  Qed.
End FirstExit.

(** ** neighbours of an edge; a boundary-line point of the closed polygon lies on the edge *)
Lemma edge_pred l a b : (3 <= length l)%nat -> convex_ccw l -> In (a, b) (edges l) ->
  exists pv, In (pv, a) (edges l) /\ 0 < orient pv a b.
Proof.
  intros Hn Hc He. destruct (edges_cases l a b He) as [[x [y E]]|[[mid E]|[E _]]].
  - destruct (exists_last_or_nil x) as [->|[x' [p ->]]].
    + (* a is the first vertex: its predecessor is the last one *)
      cbn [app] in E. destruct (exists_last_or_nil y) as [->|[y' [p ->]]]; [subst l; cbn in Hn; lia|].
      exists p. split.
      * rewrite E. apply (edges_wrap (b :: y')).
      * rewrite orient_rot.
        apply Hc. rewrite E. apply sl_take, sl_take. apply sublist_app_l. apply sublist_refl.
    + exists p. split.
      * rewrite E, <- app_assoc. apply edges_mid.
      * apply Hc. rewrite E, <- app_assoc. apply sublist_app_l. apply sl_take, sl_take, sl_take. constructor.
  - destruct (exists_last_or_nil mid) as [->|[m' [p ->]]]; [subst l; cbn in Hn; lia|].
    exists p. split.
    + rewrite E. replace (b :: (m' ++ [p]) ++ [a]) with ((b :: m') ++ p :: a :: []).
      * apply edges_mid.
      * cbn [app]. rewrite <- app_assoc. reflexivity.
    + rewrite <- orient_rot. apply Hc. rewrite E. apply sl_take. rewrite <- app_assoc. apply sublist_app_l. apply sublist_refl.
  - subst l. cbn in Hn. lia.
Qed.
Lemma edge_succ l a b : (3 <= length l)%nat -> convex_ccw l -> In (a, b) (edges l) ->
  exists nx, In (b, nx) (edges l) /\ 0 < orient a b nx.
Proof.
  intros Hn Hc He. destruct (edges_cases l a b He) as [[x [y E]]|[[mid E]|[E _]]].
  - destruct y as [|n y'].
    + (* b is the last vertex: its successor is the first one *)
      destruct x as [|n x']; [subst l; cbn in Hn; lia|].
      exists n. split.
      * rewrite E. replace ((n :: x') ++ [a; b]) with (n :: (x' ++ [a]) ++ [b]).
        -- apply edges_wrap.
        -- cbn [app]. rewrite <- app_assoc. reflexivity.
      * rewrite <- orient_rot. apply Hc. rewrite E. cbn [app]. apply sl_take. apply sublist_app_l. apply sublist_refl.
    + exists n. split.
      * rewrite E. replace (x ++ a :: b :: n :: y') with ((x ++ [a]) ++ b :: n :: y').
        -- apply edges_mid.
        -- rewrite <- app_assoc. reflexivity.
      * apply Hc. rewrite E. apply sublist_app_l. apply sl_take, sl_take, sl_take. constructor.
  - destruct mid as [|n m']; [subst l; cbn in Hn; lia|].
    exists n. split.
    + rewrite E. apply (edges_mid [] (m' ++ [a])).
    + rewrite orient_rot. apply Hc. rewrite E. cbn [app]. apply sl_take, sl_take. apply sublist_app_l. apply sublist_refl.
  - subst l. cbn in Hn. lia.
Qed.

(** a point of the closed polygon on the supporting line of an edge lies on the edge *)
Lemma boundary_line_point_on_edge l a b z :
  (3 <= length l)%nat -> convex_ccw l -> In (a, b) (edges l) ->
  closed_inside l z -> orient a b z == 0 ->
  exists s, 0 <= s /\ s <= 1 /\ pt_eq z (lpoint a b s).
Proof.
  intros Hn Hc He Hz Ho.
  destruct (edge_pred l a b Hn Hc He) as [pv [Ep W1]].
  destruct (edge_succ l a b Hn Hc He) as [nx [En W2]].
  pose proof (Hz _ _ Ep) as Z1. pose proof (Hz _ _ En) as Z2.
  set (dx := px b - px a). set (dy := py b - py a).
  set (wx := px z - px a). set (wy := py z - py a).
  assert (Cr : dx * wy - dy * wx == 0) by (unfold orient in Ho; unfold dx, dy, wx, wy; lra).
  assert (N2 : 0 < dx * dx + dy * dy).
  { destruct (Qlt_le_dec 0 (dx * dx + dy * dy)) as [L|L]; [exact L|exfalso].
    assert (Ex : dx == 0) by nra. assert (Ey : dy == 0) by nra.
    unfold orient in W1. unfold dx, dy in *.
    assert (Bx : px b == px a) by lra. assert (By : py b == py a) by lra.
    rewrite Bx, By in W1. lra. }
  set (n2 := dx * dx + dy * dy) in *.
  set (s := (wx * dx + wy * dy) / n2).
  assert (Hs : s * n2 == wx * dx + wy * dy) by (unfold s; field; lra).
  assert (Cy : dy * (dx * wy - dy * wx) == 0) by (rewrite Cr; ring).
  assert (Cx : dx * (dx * wy - dy * wx) == 0) by (rewrite Cr; ring).
  assert (Ex : wx == s * dx).
  { apply Qmult_inj_r with (z := n2); [lra|]. transitivity (s * n2 * dx); [|ring]. rewrite Hs. unfold n2. lra. }
  assert (Ey : wy == s * dy).
  { apply Qmult_inj_r with (z := n2); [lra|]. transitivity (s * n2 * dy); [|ring]. rewrite Hs. unfold n2. lra. }
  assert (P : pt_eq z (lpoint a b s)).
  { unfold pt_eq, lpoint; cbn [px py fst snd]. unfold wx, wy, dx, dy, px, py in *. split; lra. }
  exists s.
  rewrite (orient_pt_eq _ _ _ _ P), orient_lpoint, orient_ab in Z1.
  rewrite (orient_pt_eq _ _ _ _ P), orient_lpoint, orient_aa in Z2.
  rewrite <- (orient_rot a b nx) in Z2.
  split; [nra|]. split; [nra|exact P].
Qed.

(** going along the line from a point strictly inside a convex column to a point that is not in
    the closed column one meets an edge of the column: a hit of [line_polygon_intersections] *)
Lemma leaving_meets_edge l l1 l2 t0 t1 :
  (3 <= length l)%nat -> convex_ccw l -> t0 < t1 ->
  strictly_inside l (lpoint l1 l2 t0) -> ~ closed_inside l (lpoint l1 l2 t1) ->
  exists a b r s, In (a, b) (edges l) /\ t0 < r /\ r < t1 /\ 0 <= s /\ s <= 1 /\
                  pt_eq (lpoint a b s) (lpoint l1 l2 r) /\ closed_inside l (lpoint l1 l2 r).
Proof.
  intros Hn Hc L Hin Hout.
  destruct (first_zero l1 l2 (edges l) t0 t1 L) as [All|[[a b] [r [He [R0 [R1 [Z NN]]]]]]].
  - intros [a b] He. apply Hin. exact He.
  - exfalso. apply Hout. intros u w Huw. apply (All (u, w) Huw).
  - assert (Cl : closed_inside l (lpoint l1 l2 r)) by (intros u w Huw; apply (NN (u, w) Huw)).
    unfold fe in Z. cbn [fst snd] in Z.
    destruct (boundary_line_point_on_edge l a b _ Hn Hc He Cl Z) as [s [S0 [S1 P]]].
    exists a, b, r, s. repeat split; auto; destruct P; symmetry; assumption.
Qed.

(** ** the tolerance is non-negative (read from the source): parameters in [0, 1] are accepted *)
Lemma lpi_tol_nonneg : 0 <= lpi_tol.
Proof. unfold Qle. vm_compute. discriminate. Qed.
Lemma in_unit_01 s : 0 <= s -> s <= 1 -> in_unit s = true.
Proof. intros A B. apply in_unit_spec. pose proof lpi_tol_nonneg. split; lra. Qed.

(** a column the line really crosses is never skipped by [column_track]: if the line is strictly
    inside the convex column at parameter t0 and not in the closed column at t1 (t0 < t1 in [0, 1]),
    the bounding-box test accepts the line and [line_polygon_intersections] has a hit strictly
    between t0 and t1, on an edge of the column *)
Lemma crossed_column_has_hit l l1 l2 t0 t1 :
  (3 <= length l)%nat -> convex_ccw l -> 0 <= t0 -> t0 < t1 -> t1 <= 1 ->
  strictly_inside l (lpoint l1 l2 t0) -> ~ closed_inside l (lpoint l1 l2 t1) ->
  line_intersects_rectangle (bounds_of_points l) l1 l2 = true /\
  exists h, In h (lpi_hits l l1 l2) /\ t0 < h_xi1 h /\ h_xi1 h < t1 /\ 0 <= h_xi0 h /\ h_xi0 h <= 1 /\
            closed_inside l (h_pt h).
Proof.
  intros Hn Hc T0 L T1 Hin Hout. split.
  - (* the inside point lies in the bounding box *)
    assert (Hoff : off_edge_lines l (lpoint l1 l2 t0)).
    { intros a b He E. pose proof (Hin a b He). lra. }
    pose proof (proj2 (in_polygon_convex_l l _ Hn Hc Hoff) Hin) as Hp.
    apply in_polygon_in_bounds in Hp. apply in_rectangle_spec_l in Hp.
    apply (lir_complete _ l1 l2 (lpoint l1 l2 t0) t0 Hp); try lra; reflexivity.
  - destruct (leaving_meets_edge l l1 l2 t0 t1 Hn Hc L Hin Hout) as [a [b [r [s [He [R0 [R1 [S0 [S1 [P Cl]]]]]]]]]].
    (* the edge is not parallel to the line: its orientation function is positive at t0 and zero at r *)
    assert (Hd : ~ ldet l1 l2 a b == 0).
    { intro D. pose proof (orient_slope a b l1 l2) as Sl. rewrite D in Sl.
      pose proof (Hin a b He) as F0. rewrite orient_lpoint in F0.
      assert (Fr : orient a b (lpoint l1 l2 r) == 0).
      { destruct P as [Px Py]. rewrite (orient_pt_eq a b (lpoint l1 l2 r) (lpoint a b s)); [|split; symmetry; assumption].
        rewrite orient_lpoint, orient_aa, orient_ab. ring. }
      rewrite orient_lpoint in Fr. nra. }
    assert (Ur : in_unit r = true) by (apply in_unit_01; lra).
    destruct (lpi_edge_complete l1 l2 a b s r Hd P (in_unit_01 s S0 S1) Ur) as [h [Hh [E0 E1]]].
    exists h. split; [apply lpi_hits_in; exists a, b; split; assumption|].
    rewrite E0, E1. repeat split; try assumption.
    apply lpi_edge_some in Hh. destruct Hh as [_ [_ [_ [_ P1]]]].
    intros u w Huw. rewrite (orient_pt_eq u w (h_pt h) (lpoint l1 l2 r)).
    + apply Cl. exact Huw.
    + destruct P1 as [Px Py]. split; [rewrite Px|rewrite Py]; unfold lpoint, px, py; cbn [fst snd]; rewrite E1; reflexivity.
Qed.

(** the chord is exactly where the column contains the points of the line (the model's own
    [in_polygon]), for points off the supporting lines of the edges *)
Lemma chord_is_containment l l1 l2 a1 b1 a2 b2 s1 s2 tx ty t :
  (3 <= length l)%nat -> convex_ccw l ->
  In (a1, b1) (edges l) -> In (a2, b2) (edges l) -> 0 <= s1 <= 1 -> 0 <= s2 <= 1 ->
  pt_eq (lpoint l1 l2 tx) (lpoint a1 b1 s1) -> pt_eq (lpoint l1 l2 ty) (lpoint a2 b2 s2) ->
  ~ ldet l1 l2 a1 b1 == 0 -> ~ ldet l1 l2 a2 b2 == 0 -> tx < ty ->
  (forall u w, In (u, w) (edges l) -> ~ (orient u w (lpoint l1 l2 tx) == 0 /\ orient u w (lpoint l1 l2 ty) == 0)) ->
  off_edge_lines l (lpoint l1 l2 t) ->
  (in_polygon (lpoint l1 l2 t) l = true <-> tx < t /\ t < ty).
Proof.
  intros Hn Hc He1 He2 Hs1 Hs2 HX HY Hd1 Hd2 Hlt Hnd Hoff.
  rewrite (in_polygon_convex_l l _ Hn Hc Hoff). split.
  - intro Hin. split.
    + destruct (Qlt_le_dec tx t) as [L|L]; [exact L|exfalso].
      pose proof (Hin a1 b1 He1) as P.
      destruct (Qlt_le_dec t tx) as [L'|L'].
      * pose proof (chord_before_outside l l1 l2 Hc a1 b1 a2 b2 s1 s2 tx ty He1 He2 Hs2 HX HY Hd1 Hlt t L'). lra.
      * assert (E : t == tx) by lra.
        assert (Z : orient a1 b1 (lpoint l1 l2 t) == 0).
        { rewrite orient_lpoint, E, <- orient_lpoint, (orient_pt_eq _ _ _ _ HX), orient_lpoint, orient_aa, orient_ab. ring. }
        lra.
    + destruct (Qlt_le_dec t ty) as [L|L]; [exact L|exfalso].
      pose proof (Hin a2 b2 He2) as P.
      destruct (Qlt_le_dec ty t) as [L'|L'].
      * pose proof (chord_after_outside l l1 l2 Hc a1 b1 a2 b2 s1 s2 tx ty He1 He2 Hs1 HX HY Hd2 Hlt t L'). lra.
      * assert (E : t == ty) by lra.
        assert (Z : orient a2 b2 (lpoint l1 l2 t) == 0).
        { rewrite orient_lpoint, E, <- orient_lpoint, (orient_pt_eq _ _ _ _ HY), orient_lpoint, orient_aa, orient_ab. ring. }
        lra.
  - intros [T0 T1]. exact (chord_between_strict l l1 l2 Hc a1 b1 a2 b2 s1 s2 tx ty He1 He2 Hs1 Hs2 HX HY t T0 T1 Hnd).
Qed.
