(** C12 -- the known finding [quadtree.search:container-unreachable-from-leaf], reproduced on
    the model: the "M-grid" of tests/test_mulgrid.py (rectangular 5 x 3 columns of 100 x 100
    with columns 1, 3, 6, 8 deleted), in exact coordinates, columns numbered in [columnlist]
    order (a c e f h j k l m n o = 1 .. 11).  The data below were printed from the real
    [mulgrid] object (polygons, centres, neighbours); the same point is replayed on the
    implementation by the oracle (findings/C12-quadtree-gap.json). *)
From Coq Require Import List Bool Arith ZArith PArith QArith Lia.
From Gen Require Import GenGeom.
From P Require Import Locate LocBasics LocSearch.
Import ListNotations.
Open Scope Q_scope.

Definition m_polygon (c : positive) : list pt :=
  match c with
  | 1%positive => [(100, 0); (100, 100); (0, 100); (0, 0)]
  | 2%positive => [(300, 0); (300, 100); (200, 100); (200, 0)]
  | 3%positive => [(500, 0); (500, 100); (400, 100); (400, 0)]
  | 4%positive => [(100, 100); (100, 200); (0, 200); (0, 100)]
  | 5%positive => [(300, 100); (300, 200); (200, 200); (200, 100)]
  | 6%positive => [(500, 100); (500, 200); (400, 200); (400, 100)]
  | 7%positive => [(100, 200); (100, 300); (0, 300); (0, 200)]
  | 8%positive => [(200, 200); (200, 300); (100, 300); (100, 200)]
  | 9%positive => [(300, 200); (300, 300); (200, 300); (200, 200)]
  | 10%positive => [(400, 200); (400, 300); (300, 300); (300, 200)]
  | 11%positive => [(500, 200); (500, 300); (400, 300); (400, 200)]
  | _ => []
  end.
Definition m_centre (c : positive) : pt :=
  match c with
  | 1%positive => (50, 50)
  | 2%positive => (250, 50)
  | 3%positive => (450, 50)
  | 4%positive => (50, 150)
  | 5%positive => (250, 150)
  | 6%positive => (450, 150)
  | 7%positive => (50, 250)
  | 8%positive => (150, 250)
  | 9%positive => (250, 250)
  | 10%positive => (350, 250)
  | 11%positive => (450, 250)
  | _ => (0, 0)
  end.
Definition m_nbrs (c : positive) : list positive :=
  match c with
  | 1%positive => [4]%positive
  | 2%positive => [5]%positive
  | 3%positive => [6]%positive
  | 4%positive => [1; 7]%positive
  | 5%positive => [2; 9]%positive
  | 6%positive => [3; 11]%positive
  | 7%positive => [4; 8]%positive
  | 8%positive => [7; 9]%positive
  | 9%positive => [5; 8; 10]%positive
  | 10%positive => [9; 11]%positive
  | 11%positive => [6; 10]%positive
  | _ => []%positive
  end.
Definition m_bbox (c : positive) : rect := bounds_of_points (m_polygon c).
Definition m_columns : list positive := [1; 2; 3; 4; 5; 6; 7; 8; 9; 10; 11]%positive.
Definition m_bounds : rect := ((0, 0), (500, 300)).
(** [geo.column_quadtree()] *)
Definition m_tree : qtree := build m_centre 64 m_bounds m_columns.
Definition m_pos : pt := (260, 118).

Notation m_ccp := (column_containing_point m_polygon m_centre m_nbrs m_bbox m_columns).

(** the fuel bound of [build] was not hit: the tree is the one Python builds *)
Lemma m_tree_depth : (qdepth m_tree <? 64)%nat = true.
Proof. vm_compute. reflexivity. Qed.

(** plain search finds column 5 (h), the only column containing the point ... *)
Lemma m_plain : m_ccp m_pos None None None None = Some 5%positive.
Proof. vm_compute. reflexivity. Qed.
Lemma m_exhaustive : filter (fun c => contains_point m_polygon c m_pos) m_columns = [5%positive].
Proof. vm_compute. reflexivity. Qed.
(** ... the quadtree search of the pinned code (no fallback) finds nothing *)
Lemma m_qtree : quadtree_search_has_fallback = false -> m_ccp m_pos None None None (Some m_tree) = None.
Proof. intro H. vm_compute in H. first [discriminate H | vm_compute; reflexivity]. Qed.
(** the leaf for the point is the node [250,500]x[0,150] holding e and j *)
Lemma m_leaf : option_map (fun l => (qbounds l, qelements l)) (leaf m_tree m_pos)
               = Some (((250, 0), (500, 150)), [3; 6]%positive).
Proof. vm_compute. reflexivity. Qed.

(** so "the same column whichever search aid is used" fails for the quadtree on the model *)
Lemma qtree_incomplete_refuted_l :
  quadtree_search_has_fallback = false ->
  exists polygon centre nbrs bbox columnlist fuel bounds pos T,
    let t := build centre fuel bounds columnlist in
    (qdepth t < fuel)%nat /\
    In T columnlist /\ contains_point polygon T pos = true /\
    (forall c, In c columnlist -> contains_point polygon c pos = true -> c = T) /\
    column_containing_point polygon centre nbrs bbox columnlist pos None None None None = Some T /\
    column_containing_point polygon centre nbrs bbox columnlist pos None None None (Some t) = None.
Proof.
  intro Hflag.
  exists m_polygon, m_centre, m_nbrs, m_bbox, m_columns, 64%nat, m_bounds, m_pos, 5%positive.
  cbn zeta. fold m_tree.
  split; [apply Nat.ltb_lt; exact m_tree_depth|].
  split; [vm_compute; tauto|].
  split; [vm_compute; reflexivity|].
  split.
  - intros c Hc Hp.
    assert (H : In c (filter (fun c => contains_point m_polygon c m_pos) m_columns)) by (apply filter_In; auto).
    rewrite m_exhaustive in H. destruct H as [H|[]]. symmetry; exact H.
  - split; [exact m_plain|exact (m_qtree Hflag)].
Qed.

(** and the hypothesis [connected_near] of the agreement theorem is what fails there *)
Lemma m_not_connected_near : ~ connected_near m_nbrs m_bbox m_tree m_pos 5%positive.
Proof.
  intros [l [Hl Hr]].
  assert (C : contains_point m_polygon 5%positive m_pos = true) by (vm_compute; reflexivity).
  destruct (wave_complete m_polygon m_nbrs m_bbox (qelements m_tree) (qbounds l) m_pos
              (length (qelements l) + length (qelements m_tree)) (qelements l) 5%positive (Nat.le_refl _) Hr C)
    as [e [W _]].
  vm_compute in Hl. injection Hl as <-. vm_compute in W. discriminate W.
Qed.

(** a point for which the hypotheses hold on the same grid (non-vacuity of the agreement theorem):
    (50, 150) lies in column 4 (f), which is an element of the leaf found for it *)
Lemma m_connected_example : connected_near m_nbrs m_bbox m_tree (60, 140) 4%positive.
Proof.
  unfold connected_near.
  destruct (leaf m_tree (60, 140)) as [l|] eqn:E; [|vm_compute in E; discriminate].
  exists l. split; [reflexivity|]. apply reach_init.
  assert (El : option_map qelements (leaf m_tree (60, 140)) = Some [4%positive]) by (vm_compute; reflexivity).
  rewrite E in El. cbn [option_map] in El. injection El as El'. rewrite El'. left; reflexivity.
Qed.
