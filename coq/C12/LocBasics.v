(** C12 -- basic facts about the model of Locate.v: the boolean comparisons against
    [Qle]/[Qlt], rectangles, sub-rectangles, list helpers (membership, insertion sort, find). *)
From Coq Require Import List Bool Arith ZArith PArith QArith Qabs Qreduction Lia Lqa Sorted Permutation.
From Gen Require Import GenGeom.
From P Require Import Locate.
Import ListNotations.
Open Scope Q_scope.

(** ** comparisons *)
Lemma qle_spec a b : qle a b = true <-> a <= b.
Proof.
  unfold qle, Qle. rewrite Z.leb_le.
  rewrite (Z.mul_comm (Zpos (Qden b))), (Z.mul_comm (Zpos (Qden a))). reflexivity.
Qed.
Lemma qle_false a b : qle a b = false <-> b < a.
Proof.
  split; intro H.
  - apply Qnot_le_lt. intro Hc. apply qle_spec in Hc. congruence.
  - destruct (qle a b) eqn:E; [|reflexivity]. apply qle_spec in E. exfalso. apply (Qlt_not_le _ _ H E).
Qed.
Lemma qlt_spec a b : qlt a b = true <-> a < b.
Proof. unfold qlt. rewrite negb_true_iff. apply qle_false. Qed.
Lemma qlt_false a b : qlt a b = false <-> b <= a.
Proof. unfold qlt. rewrite negb_false_iff. apply qle_spec. Qed.
Lemma qle_total a b : qle a b = true \/ qle b a = true.
Proof. destruct (Qlt_le_dec b a) as [H|H]; [right; apply qle_spec; apply Qlt_le_weak; exact H | left; apply qle_spec; exact H]. Qed.

Lemma qmin_spec a b : qmin a b <= a /\ qmin a b <= b.
Proof.
  unfold qmin. destruct (qle a b) eqn:E.
  - apply qle_spec in E. split; [apply Qle_refl | exact E].
  - apply qle_false in E. split; [apply Qlt_le_weak; exact E | apply Qle_refl].
Qed.
Lemma qmax_spec a b : a <= qmax a b /\ b <= qmax a b.
Proof.
  unfold qmax. destruct (qle a b) eqn:E.
  - apply qle_spec in E. split; [exact E | apply Qle_refl].
  - apply qle_false in E. split; [apply Qle_refl | apply Qlt_le_weak; exact E].
Qed.

(** ** [in_rectangle], [rectangles_intersect] *)
Definition In_rect (p : pt) (r : rect) : Prop :=
  (px (fst r) <= px p /\ px p <= px (snd r)) /\ (py (fst r) <= py p /\ py p <= py (snd r)).
Definition wf_rect (r : rect) : Prop := px (fst r) <= px (snd r) /\ py (fst r) <= py (snd r).

Lemma in_rectangle_spec_l pos r : in_rectangle pos r = true <-> In_rect pos r.
Proof.
  unfold in_rectangle, In_rect. rewrite !andb_true_iff, !qle_spec. reflexivity.
Qed.

Lemma in_rect_wf p r : In_rect p r -> wf_rect r.
Proof. intros [[A B] [C D]]. split; eapply Qle_trans; eauto. Qed.

Lemma rectangles_intersect_spec_l r1 r2 :
  rectangles_intersect r1 r2 = true <->
  (px (fst r2) <= px (snd r1) /\ px (fst r1) <= px (snd r2)) /\
  (py (fst r2) <= py (snd r1) /\ py (fst r1) <= py (snd r2)).
Proof. unfold rectangles_intersect. rewrite !andb_true_iff, !qle_spec. reflexivity. Qed.

Lemma rectangles_intersect_sym r1 r2 : rectangles_intersect r1 r2 = rectangles_intersect r2 r1.
Proof.
  unfold rectangles_intersect.
  destruct (qle (px (fst r2)) (px (snd r1))), (qle (px (fst r1)) (px (snd r2))),
           (qle (py (fst r2)) (py (snd r1))), (qle (py (fst r1)) (py (snd r2))); reflexivity.
Qed.

(** two well-formed rectangles "intersect" exactly when they have a common point *)
Lemma rectangles_intersect_common_point r1 r2 :
  wf_rect r1 -> wf_rect r2 ->
  (rectangles_intersect r1 r2 = true <-> exists p, In_rect p r1 /\ In_rect p r2).
Proof.
  intros [W1x W1y] [W2x W2y]. rewrite rectangles_intersect_spec_l. split.
  - intros [[A B] [C D]].
    exists (qmax (px (fst r1)) (px (fst r2)), qmax (py (fst r1)) (py (fst r2))).
    unfold In_rect, px, py; cbn [fst snd].
    pose proof (qmax_spec (fst (fst r1)) (fst (fst r2))) as [M1 M2].
    pose proof (qmax_spec (snd (fst r1)) (snd (fst r2))) as [N1 N2].
    unfold px, py in *.
    assert (Hx : forall c, fst (fst r1) <= c -> fst (fst r2) <= c -> qmax (fst (fst r1)) (fst (fst r2)) <= c).
    { intros c H1 H2. unfold qmax. destruct (qle _ _); assumption. }
    assert (Hy : forall c, snd (fst r1) <= c -> snd (fst r2) <= c -> qmax (snd (fst r1)) (snd (fst r2)) <= c).
    { intros c H1 H2. unfold qmax. destruct (qle _ _); assumption. }
    repeat split; auto.
  - intros [p [[[A B] [C D]] [[E F] [G H]]]].
    repeat split; eapply Qle_trans; eauto.
Qed.

(** ** [sub_rectangles] *)
Lemma qhalf_eq a b : qhalf a b == (1 # 2) * (a + b).
Proof. unfold qhalf. rewrite Qred_correct, sub_rect_factor_is_half. reflexivity. Qed.
Lemma qhalf_between a b : a <= b -> a <= qhalf a b /\ qhalf a b <= b.
Proof. intro H. rewrite qhalf_eq. split; lra. Qed.

Lemma sub_rectangles_length r : length (sub_rectangles r) = 4%nat.
Proof. reflexivity. Qed.

(** every point of a (well-formed) rectangle lies in one of its four children ... *)
Lemma sub_rectangles_cover_l r p :
  In_rect p r -> exists r', In r' (sub_rectangles r) /\ In_rect p r'.
Proof.
  intros H. pose proof (in_rect_wf _ _ H) as [Wx Wy].
  destruct H as [[A B] [C D]].
  pose proof (qhalf_between _ _ Wx) as [Hx1 Hx2].
  pose proof (qhalf_between _ _ Wy) as [Hy1 Hy2].
  set (cx := qhalf (px (fst r)) (px (snd r))) in *.
  set (cy := qhalf (py (fst r)) (py (snd r))) in *.
  unfold sub_rectangles. fold cx cy.
  destruct (Qlt_le_dec cx (px p)) as [Lx|Lx]; destruct (Qlt_le_dec cy (py p)) as [Ly|Ly].
  - exists ((cx, cy), snd r). split; [cbn; tauto|].
    unfold In_rect, px, py in *; cbn [fst snd]. repeat split; auto using Qlt_le_weak.
  - exists ((px (cx, cy), py (fst r)), (px (snd r), py (cx, cy))). split; [cbn; tauto|].
    unfold In_rect, px, py in *; cbn [fst snd]. repeat split; auto using Qlt_le_weak.
  - exists ((px (fst r), py (cx, cy)), (px (cx, cy), py (snd r))). split; [cbn; tauto|].
    unfold In_rect, px, py in *; cbn [fst snd]. repeat split; auto using Qlt_le_weak.
  - exists (fst r, (cx, cy)). split; [cbn; tauto|].
    unfold In_rect, px, py in *; cbn [fst snd]. repeat split; auto using Qlt_le_weak.
Qed.

(** ... and the children lie inside the parent *)
Lemma sub_rectangles_inside r r' p :
  wf_rect r -> In r' (sub_rectangles r) -> In_rect p r' -> In_rect p r.
Proof.
  intros [Wx Wy] Hin H.
  pose proof (qhalf_between _ _ Wx) as [Hx1 Hx2].
  pose proof (qhalf_between _ _ Wy) as [Hy1 Hy2].
  unfold sub_rectangles in Hin.
  set (cx := qhalf (px (fst r)) (px (snd r))) in *.
  set (cy := qhalf (py (fst r)) (py (snd r))) in *.
  cbn [In] in Hin.
  destruct Hin as [E|[E|[E|[E|[]]]]]; subst r';
    unfold In_rect, px, py in *; cbn [fst snd] in *;
    destruct H as [[A B] [C D]]; repeat split; lra.
Qed.

Lemma sub_rectangles_wf r r' : wf_rect r -> In r' (sub_rectangles r) -> wf_rect r'.
Proof.
  intros [Wx Wy] Hin.
  pose proof (qhalf_between _ _ Wx) as [Hx1 Hx2].
  pose proof (qhalf_between _ _ Wy) as [Hy1 Hy2].
  unfold sub_rectangles in Hin. cbn [In] in Hin.
  destruct Hin as [E|[E|[E|[E|[]]]]]; subst r'; unfold wf_rect, px, py in *; cbn [fst snd]; split; assumption.
Qed.

(** [first_rect]: the index of the FIRST rectangle containing the point *)
Lemma first_rect_some i0 c rects i :
  first_rect i0 c rects = Some i ->
  exists r, nth_error rects (i - i0) = Some r /\ in_rectangle c r = true /\ (i0 <= i)%nat /\
            forall j r', (j < i - i0)%nat -> nth_error rects j = Some r' -> in_rectangle c r' = false.
Proof.
  revert i0. induction rects as [|r rs IH]; intros i0 H; cbn [first_rect] in H; [discriminate|].
  destruct (in_rectangle c r) eqn:E.
  - inversion H; subst. exists r. rewrite Nat.sub_diag. repeat split; auto. intros j r' Hj. lia.
  - apply IH in H. destruct H as [r0 [H1 [H2 [H3 H4]]]].
    exists r0. replace (i - i0)%nat with (S (i - S i0)) by lia. cbn [nth_error]. repeat split; auto; [lia|].
    intros [|j] r' Hj Hn; cbn [nth_error] in Hn.
    + inversion Hn; subst; exact E.
    + eapply H4; [|exact Hn]. lia.
Qed.
Lemma first_rect_none i0 c rects :
  first_rect i0 c rects = None <-> forall r, In r rects -> in_rectangle c r = false.
Proof.
  revert i0. induction rects as [|r rs IH]; intros i0; cbn [first_rect].
  - split; [intros _ r []|reflexivity].
  - destruct (in_rectangle c r) eqn:E.
    + split; [discriminate|]. intro H. specialize (H r (or_introl eq_refl)). congruence.
    + rewrite IH. split; intros H r'; [intros [->|Hi]; auto|intro Hi; apply H; right; exact Hi].
Qed.

(** ** membership *)
Lemma pmem_spec x l : pmem x l = true <-> In x l.
Proof.
  unfold pmem. rewrite existsb_exists. split.
  - intros [y [Hy E]]. apply Pos.eqb_eq in E. subst; exact Hy.
  - intro H. exists x. split; [exact H|apply Pos.eqb_refl].
Qed.
Lemma pmem_false x l : pmem x l = false <-> ~ In x l.
Proof. rewrite <- pmem_spec. destruct (pmem x l); split; congruence. Qed.

(** ** insertion sort *)
Section SortFacts.
  Context {A : Type} (key : A -> Q).
  Lemma insert_by_perm x l : Permutation (x :: l) (insert_by key x l).
  Proof.
    induction l as [|y r IH]; cbn [insert_by]; [apply Permutation_refl|].
    destruct (qle (key x) (key y)); [apply Permutation_refl|].
    eapply Permutation_trans; [apply perm_swap|]. apply perm_skip. exact IH.
  Qed.
  Lemma sort_by_perm l : Permutation l (sort_by key l).
  Proof.
    induction l as [|x r IH]; cbn; [apply Permutation_refl|].
    eapply Permutation_trans; [apply perm_skip; exact IH|]. apply insert_by_perm.
  Qed.
  Lemma sort_by_in x l : In x (sort_by key l) <-> In x l.
  Proof.
    split; intro H.
    - eapply Permutation_in; [apply Permutation_sym; apply sort_by_perm|exact H].
    - eapply Permutation_in; [apply sort_by_perm|exact H].
  Qed.
  Definition key_le (a b : A) : Prop := key a <= key b.
  Lemma insert_by_sorted x l : Sorted key_le l -> Sorted key_le (insert_by key x l).
  Proof.
    induction l as [|y r IH]; intro S; cbn [insert_by].
    - constructor; constructor.
    - destruct (qle (key x) (key y)) eqn:E.
      + constructor; [exact S|]. constructor. apply qle_spec; exact E.
      + inversion S as [|? ? S' Hd]; subst. constructor; [apply IH; exact S'|].
        apply qle_false in E.
        destruct r as [|z r']; cbn [insert_by].
        * constructor. apply Qlt_le_weak; exact E.
        * destruct (qle (key x) (key z)); constructor.
          -- apply Qlt_le_weak; exact E.
          -- inversion Hd; subst; assumption.
  Qed.
  Lemma sort_by_sorted l : Sorted key_le (sort_by key l).
  Proof. induction l as [|x r IH]; cbn; [constructor|apply insert_by_sorted; exact IH]. Qed.
  Lemma sort_by_length l : length (sort_by key l) = length l.
  Proof. apply Permutation_length, Permutation_sym, sort_by_perm. Qed.
End SortFacts.

(** ** [find] *)
Lemma find_some_iff {A} (f : A -> bool) l :
  (exists x, find f l = Some x) <-> exists x, In x l /\ f x = true.
Proof.
  split.
  - intros [x H]. exists x. apply find_some in H. exact H.
  - intros [x [Hi Hf]]. destruct (find f l) eqn:E; [eauto|].
    exfalso. pose proof (find_none _ _ E _ Hi). congruence.
Qed.
