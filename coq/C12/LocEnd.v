(** C12 -- end to end: for a mesh of convex columns that tile the line, [column_track] (exact
    model, with the line primitives of LineModel.v) lists exactly the columns whose chord is
    longer than the tolerance.  Part 1: what a convex column's sorted hits say about the line. *)
From Coq Require Import List Bool Arith ZArith PArith QArith Qabs Lia Lqa Sorted Permutation.
From Gen Require Import GenGeom.
From P Require Import Locate LocBasics LocPolygon LocConvex LineModel LocRect LocLine LocTrack.
Import ListNotations.
Open Scope Q_scope.

Section Column.
  Variables (l : list pt) (l1 l2 : pt).
  Hypothesis Hn : (3 <= length l)%nat.
  Hypothesis Hc : convex_ccw l.
  (** general position: the end points of the line are off the supporting lines of the edges, and
      every hit lies on an edge proper and strictly between the end points (none in the 1e-9 zones) *)
  Hypothesis Hoff1 : off_edge_lines l l1.
  Hypothesis Hoff2 : off_edge_lines l l2.
  Hypothesis Hhits : forall h, In h (lpi_hits l l1 l2) -> 0 <= h_xi0 h /\ h_xi0 h <= 1 /\ 0 < h_xi1 h /\ h_xi1 h < 1.

  Notation P t := (lpoint l1 l2 t).
  Notation inside t := (strictly_inside l (P t)).

  Lemma P0 : pt_eq (P 0) l1.
  Proof. unfold pt_eq, lpoint, px, py. cbn [fst snd]. split; ring. Qed.
  Lemma P1 : pt_eq (P 1) l2.
  Proof. unfold pt_eq, lpoint, px, py. cbn [fst snd]. split; ring. Qed.

  (** for points off the edge lines, the model's containment test is strict insideness *)
  Lemma contains_l1 : in_polygon l1 l = true <-> strictly_inside l l1.
  Proof. apply in_polygon_convex_l; assumption. Qed.
  Lemma contains_l2 : in_polygon l2 l = true <-> strictly_inside l l2.
  Proof. apply in_polygon_convex_l; assumption. Qed.
  Lemma si_pt_eq x y : pt_eq x y -> strictly_inside l x -> strictly_inside l y.
  Proof. intros E H a b He. rewrite <- (orient_pt_eq a b x y E). apply H. exact He. Qed.
  Lemma ci_pt_eq x y : pt_eq x y -> closed_inside l x -> closed_inside l y.
  Proof. intros E H a b He. rewrite <- (orient_pt_eq a b x y E). apply H. exact He. Qed.
  Lemma pt_eq_sym x y : pt_eq x y -> pt_eq y x.
  Proof. intros [A B]. split; symmetry; assumption. Qed.

  (** not containing an end point means being strictly outside some edge there *)
  Lemma not_contains_out p : off_edge_lines l p -> ~ strictly_inside l p -> ~ closed_inside l p.
  Proof.
    intros Ho Hs Hcl. apply Hs. intros a b He. pose proof (Hcl a b He). pose proof (Ho a b He).
    destruct (Qlt_le_dec 0 (orient a b p)); [assumption|]. exfalso. apply H0. lra.
  Qed.

  (** the orientation functions are affine along the line *)
  Lemma orient_P a b t : orient a b (P t) == (1 - t) * orient a b l1 + t * orient a b l2.
  Proof. apply orient_lpoint. Qed.

  (** a point strictly inside joined to a point of the closed column: strictly inside in between *)
  Lemma mix_strict t0 t1 t : strictly_inside l (P t0) -> closed_inside l (P t1) ->
    (t0 <= t /\ t < t1 \/ t1 < t /\ t <= t0) -> inside t.
  Proof.
    intros H0 H1 Ht a b He. pose proof (H0 a b He) as A. pose proof (H1 a b He) as B.
    rewrite orient_P in *. set (f0 := orient a b l1) in *. set (f1 := orient a b l2) in *. clearbody f0 f1.
    assert (I : (t1 - t0) * ((1 - t) * f0 + t * f1) ==
                (t1 - t) * ((1 - t0) * f0 + t0 * f1) + (t - t0) * ((1 - t1) * f0 + t1 * f1)) by ring.
    set (g0 := (1 - t0) * f0 + t0 * f1) in *. set (g1 := (1 - t1) * f0 + t1 * f1) in *.
    set (g := (1 - t) * f0 + t * f1) in *. clearbody g0 g1 g.
    destruct Ht as [[T0 T1]|[T1 T0]].
    - assert (0 < (t1 - t) * g0) by nra. assert (0 <= (t - t0) * g1) by nra. nra.
    - assert (0 < (t - t1) * g0) by nra. assert (0 <= (t0 - t) * g1) by nra. nra.
  Qed.

  (** a hit: on an edge proper, in the closed column, with a non-parallel edge *)
  Lemma hit_facts h : In h (lpi_hits l l1 l2) ->
    exists a b, In (a, b) (edges l) /\ ~ ldet l1 l2 a b == 0 /\
                pt_eq (P (h_xi1 h)) (lpoint a b (h_xi0 h)) /\ closed_inside l (P (h_xi1 h)) /\
                orient a b (P (h_xi1 h)) == 0.
  Proof.
    intro Hh. pose proof (Hhits h Hh) as [X0 [X1 _]].
    apply lpi_hits_in in Hh. destruct Hh as [a [b [He Hl]]].
    apply lpi_edge_some in Hl. destruct Hl as [Hd [_ [_ [Pe Pl]]]].
    assert (E : pt_eq (P (h_xi1 h)) (lpoint a b (h_xi0 h))).
    { destruct Pe, Pl. split; [rewrite <- H1, H|rewrite <- H2, H0]; reflexivity. }
    exists a, b. split; [exact He|]. split; [exact Hd|]. split; [exact E|]. split.
    - eapply edge_point_closed_inside; eauto.
    - rewrite (orient_pt_eq _ _ _ _ E), orient_lpoint, orient_aa, orient_ab. ring.
  Qed.

  (** past a hit, on the far side from a point where the hit edge's orientation is positive, the line is outside *)
  Lemma beyond_hit_outside h tp t : In h (lpi_hits l l1 l2) -> strictly_inside l (P tp) ->
    (tp < h_xi1 h /\ h_xi1 h < t \/ t < h_xi1 h /\ h_xi1 h < tp) -> ~ closed_inside l (P t).
  Proof.
    intros Hh Hp Ht Hcl. destruct (hit_facts h Hh) as [a [b [He [_ [_ [_ Z]]]]]].
    pose proof (Hp a b He) as A. pose proof (Hcl a b He) as B.
    rewrite orient_P in *. set (f0 := orient a b l1) in *. set (f1 := orient a b l2) in *. clearbody f0 f1.
    set (r := h_xi1 h) in *. clearbody r.
    assert (I : (r - tp) * ((1 - t) * f0 + t * f1) ==
                (r - t) * ((1 - tp) * f0 + tp * f1) + (t - tp) * ((1 - r) * f0 + r * f1)) by ring.
    set (gp := (1 - tp) * f0 + tp * f1) in *. set (gr := (1 - r) * f0 + r * f1) in *.
    set (g := (1 - t) * f0 + t * f1) in *. clearbody gp gr g.
    destruct Ht as [[T0 T1]|[T1 T0]].
    - assert ((r - t) * gp < 0) by nra. assert (0 <= (r - tp) * g) by nra. nra.
    - assert ((r - t) * gp > 0) by nra. assert ((r - tp) * g <= 0) by nra. nra.
  Qed.

  Lemma lpoint_rev t : pt_eq (lpoint l2 l1 (1 - t)) (P t).
  Proof. unfold pt_eq, lpoint, px, py. cbn [fst snd]. split; ring. Qed.

  (** an edge point on the line, with the edge's orientation non-zero somewhere on the line, is a hit *)
  Lemma edge_point_is_hit a b s r t0 :
    In (a, b) (edges l) -> 0 <= s -> s <= 1 -> 0 <= r -> r <= 1 ->
    pt_eq (lpoint a b s) (P r) -> ~ orient a b (P t0) == 0 ->
    exists h, In h (lpi_hits l l1 l2) /\ h_xi1 h == r.
  Proof.
    intros He S0 S1 R0 R1 E N0.
    assert (Z : orient a b (P r) == 0).
    { rewrite <- (orient_pt_eq a b _ _ E), orient_lpoint, orient_aa, orient_ab. ring. }
    assert (Hd : ~ ldet l1 l2 a b == 0).
    { intro D. pose proof (orient_slope a b l1 l2) as Sl. rewrite D in Sl.
      apply N0. rewrite orient_P in *. nra. }
    destruct (lpi_edge_complete l1 l2 a b s r Hd E (in_unit_01 s S0 S1) (in_unit_01 r R0 R1)) as [h [Hh [_ E1]]].
    exists h. split; [apply lpi_hits_in; exists a, b; split; assumption|exact E1].
  Qed.

  Lemma hit_after t0 t1 : 0 <= t0 -> t0 < t1 -> t1 <= 1 -> inside t0 -> ~ closed_inside l (P t1) ->
    exists h, In h (lpi_hits l l1 l2) /\ t0 < h_xi1 h /\ h_xi1 h < t1.
  Proof.
    intros A B C Hi Ho.
    destruct (crossed_column_has_hit l l1 l2 t0 t1 Hn Hc A B C Hi Ho) as [_ [h [Hh [X0 [X1 _]]]]].
    exists h. auto.
  Qed.
  Lemma hit_before t0 t1 : 0 <= t1 -> t1 < t0 -> t0 <= 1 -> inside t0 -> ~ closed_inside l (P t1) ->
    exists h, In h (lpi_hits l l1 l2) /\ t1 < h_xi1 h /\ h_xi1 h < t0.
  Proof.
    intros A B C Hi Ho.
    assert (Hi' : strictly_inside l (lpoint l2 l1 (1 - t0))) by (apply (si_pt_eq (P t0)); [apply pt_eq_sym, lpoint_rev|exact Hi]).
    assert (Ho' : ~ closed_inside l (lpoint l2 l1 (1 - t1))).
    { intro Hcl. apply Ho. apply (ci_pt_eq (lpoint l2 l1 (1 - t1))); [apply lpoint_rev|exact Hcl]. }
    destruct (leaving_meets_edge l l2 l1 (1 - t0) (1 - t1) Hn Hc) as [a [b [r [s [He [R0 [R1 [S0 [S1 [E _]]]]]]]]]]; try assumption; [lra|].
    destruct (edge_point_is_hit a b s (1 - r) t0 He S0 S1) as [h [Hh E1]]; try lra.
    - destruct E as [Ex Ey]. split; [rewrite Ex|rewrite Ey]; unfold lpoint, px, py; cbn [fst snd]; ring.
    - pose proof (Hi a b He). lra.
    - exists h. split; [exact Hh|]. rewrite E1. lra.
  Qed.

  (** what the line does in the column *)
  Definition crossing (a b : Q) : Prop :=
    0 <= a /\ a < b /\ b <= 1 /\ (forall t, a < t -> t < b -> inside t) /\
    (forall t, 0 < t -> t < 1 -> t < a \/ b < t -> ~ closed_inside l (P t)).
  Definition misses : Prop := forall t, 0 < t -> t < 1 -> ~ inside t.

  Lemma inside0 : strictly_inside l l1 -> inside 0.
  Proof. apply si_pt_eq. apply pt_eq_sym, P0. Qed.
  Lemma inside1 : strictly_inside l l2 -> inside 1.
  Proof. apply si_pt_eq. apply pt_eq_sym, P1. Qed.
  Lemma out0 : ~ strictly_inside l l1 -> ~ closed_inside l (P 0).
  Proof. intros H Hcl. apply (not_contains_out l1 Hoff1 H). apply (ci_pt_eq (P 0)); [apply P0|exact Hcl]. Qed.
  Lemma out1 : ~ strictly_inside l l2 -> ~ closed_inside l (P 1).
  Proof. intros H Hcl. apply (not_contains_out l2 Hoff2 H). apply (ci_pt_eq (P 1)); [apply P1|exact Hcl]. Qed.
  Lemma si_closed p : strictly_inside l p -> closed_inside l p.
  Proof. intros H a b He. apply Qlt_le_weak. apply H. exact He. Qed.

  Lemma whole_crossing : strictly_inside l l1 -> strictly_inside l l2 -> crossing 0 1.
  Proof.
    intros I J. repeat split; try lra.
    - intros t T0 T1. apply (mix_strict 0 1 t (inside0 I) (si_closed _ (inside1 J))). left. lra.
    - intros t T0 T1 [T|T]; lra.
  Qed.

  (** no hit: the line stays on one side of the column boundary *)
  Lemma nohit_misses : lpi_hits l l1 l2 = [] -> ~ (strictly_inside l l1 /\ strictly_inside l l2) ->
    ~ strictly_inside l l1 /\ ~ strictly_inside l l2 /\ misses.
  Proof.
    intros E N.
    assert (A : forall t0, 0 <= t0 -> t0 < 1 -> inside t0 -> ~ strictly_inside l l2 -> False).
    { intros t0 T0 T1 Hi J. destruct (hit_after t0 1 T0 T1 (Qle_refl 1) Hi (out1 J)) as [h [Hh _]]. rewrite E in Hh. destruct Hh. }
    assert (B : forall t0, 0 < t0 -> t0 <= 1 -> inside t0 -> ~ strictly_inside l l1 -> False).
    { intros t0 T0 T1 Hi I. destruct (hit_before t0 0 (Qle_refl 0) T0 T1 Hi (out0 I)) as [h [Hh _]]. rewrite E in Hh. destruct Hh. }
    assert (NI : ~ strictly_inside l l1).
    { intro I. apply N. split; [exact I|]. destruct (in_polygon l2 l) eqn:C; [apply contains_l2; exact C|].
      exfalso. apply (A 0); try lra; [apply inside0; exact I|]. intro J. apply contains_l2 in J. congruence. }
    assert (NJ : ~ strictly_inside l l2).
    { intro J. apply (B 1); try lra; [apply inside1; exact J|exact NI]. }
    split; [exact NI|]. split; [exact NJ|]. intros t T0 T1 Hi. apply (A t); try lra; assumption.
  Qed.

  Section WithHits.
    Variables (hlo hhi : hit).
    Hypothesis Ilo : In hlo (lpi_hits l l1 l2).
    Hypothesis Ihi : In hhi (lpi_hits l l1 l2).
    Hypothesis Blo : forall h, In h (lpi_hits l l1 l2) -> h_xi1 hlo <= h_xi1 h.
    Hypothesis Bhi : forall h, In h (lpi_hits l l1 l2) -> h_xi1 h <= h_xi1 hhi.
    Let lo := h_xi1 hlo.
    Let hi := h_xi1 hhi.

    Lemma start_crossing : strictly_inside l l1 -> ~ strictly_inside l l2 -> crossing 0 hi.
    Proof.
      intros I J. destruct (Hhits hhi Ihi) as [_ [_ [H0 H1]]]. fold hi in H0, H1.
      destruct (hit_facts hhi Ihi) as [a [b [_ [_ [_ [Cl _]]]]]]. fold hi in Cl.
      repeat split; try lra.
      - intros t T0 T1. apply (mix_strict 0 hi t (inside0 I) Cl). left. lra.
      - intros t T0 T1 [T|T]; [lra|]. apply (beyond_hit_outside hhi 0 t Ihi (inside0 I)). left. fold hi. lra.
    Qed.
    Lemma end_crossing : ~ strictly_inside l l1 -> strictly_inside l l2 -> crossing lo 1.
    Proof.
      intros I J. destruct (Hhits hlo Ilo) as [_ [_ [H0 H1]]]. fold lo in H0, H1.
      destruct (hit_facts hlo Ilo) as [a [b [_ [_ [_ [Cl _]]]]]]. fold lo in Cl.
      repeat split; try lra.
      - intros t T0 T1. apply (mix_strict 1 lo t (inside1 J) Cl). right. lra.
      - intros t T0 T1 [T|T]; [|lra]. apply (beyond_hit_outside hlo 1 t Ilo (inside1 J)). right. fold lo. lra.
    Qed.
    (** neither end point inside: the hits are the two ends of the chord, or the line only touches *)
    Lemma through_misses : ~ strictly_inside l l1 -> ~ strictly_inside l l2 -> lo == hi -> misses.
    Proof.
      intros I J E t T0 T1 Hi.
      destruct (hit_after t 1 (Qlt_le_weak _ _ T0) T1 (Qle_refl 1) Hi (out1 J)) as [h [Hh [A _]]].
      destruct (hit_before t 0 (Qle_refl 0) T0 (Qlt_le_weak _ _ T1) Hi (out0 I)) as [h' [Hh' [_ B]]].
      pose proof (Bhi h Hh). pose proof (Blo h' Hh'). unfold lo, hi in E. lra.
    Qed.
    Lemma through_crossing : ~ strictly_inside l l1 -> ~ strictly_inside l l2 -> lo < hi -> crossing lo hi.
    Proof.
      intros I J L. destruct (Hhits hlo Ilo) as [X0 [X1 [H0 _]]]. destruct (Hhits hhi Ihi) as [Y0 [Y1 [_ H1]]].
      fold lo in H0. fold hi in H1.
      destruct (hit_facts hlo Ilo) as [a1 [b1 [E1 [D1 [P1' [Cl1 _]]]]]].
      destruct (hit_facts hhi Ihi) as [a2 [b2 [E2 [D2 [P2' [Cl2 _]]]]]].
      fold lo in P1', Cl1. fold hi in P2', Cl2.
      assert (Hnd : forall u w, In (u, w) (edges l) -> ~ (orient u w (P lo) == 0 /\ orient u w (P hi) == 0)).
      { intros u w Huw [Z1 Z2]. apply (Hoff1 u w Huw). rewrite orient_P in Z1, Z2.
        set (f0 := orient u w l1) in *. set (f1 := orient u w l2) in *. clearbody f0 f1. nra. }
      repeat split; try lra.
      - intros t T0 T1.
        exact (chord_between_strict l l1 l2 Hc a1 b1 a2 b2 (h_xi0 hlo) (h_xi0 hhi) lo hi E1 E2 (conj X0 X1) (conj Y0 Y1) P1' P2' t T0 T1 Hnd).
      - intros t T0 T1 [T|T]; intro Hcl.
        + pose proof (chord_before_outside l l1 l2 Hc a1 b1 a2 b2 (h_xi0 hlo) (h_xi0 hhi) lo hi E1 E2 (conj Y0 Y1) P1' P2' D1 L t T).
          pose proof (Hcl a1 b1 E1). lra.
        + pose proof (chord_after_outside l l1 l2 Hc a1 b1 a2 b2 (h_xi0 hlo) (h_xi0 hhi) lo hi E1 E2 (conj X0 X1) P1' P2' D2 L t T).
          pose proof (Hcl a2 b2 E2). lra.
    Qed.
  End WithHits.

  (** the chord is unique *)
  Lemma crossing_unique a b a' b' : crossing a b -> crossing a' b' -> a == a' /\ b == b'.
  Proof.
    intros [A0 [A1 [A2 [Ai Ao]]]] [B0 [B1 [B2 [Bi Bo]]]].
    assert (G : forall a b a' b', 0 <= a -> a < b -> b <= 1 -> 0 <= a' -> a' < b' -> b' <= 1 ->
                (forall t, a < t -> t < b -> inside t) ->
                (forall t, 0 < t -> t < 1 -> t < a' \/ b' < t -> ~ closed_inside l (P t)) -> a' <= a /\ b <= b').
    { clear. intros a b a' b' A0 A1 A2 B0 B1 B2 Ai Bo. split.
      - destruct (Qlt_le_dec a a') as [L|L]; [exfalso|exact L].
        destruct (Qlt_le_dec a' b) as [M|M].
        + apply (Bo ((a + a') * (1 # 2))); [lra|lra|left; lra|]. apply si_closed. apply Ai; lra.
        + apply (Bo ((a + b) * (1 # 2))); [lra|lra|left; lra|]. apply si_closed. apply Ai; lra.
      - destruct (Qlt_le_dec b' b) as [L|L]; [exfalso|exact L].
        destruct (Qlt_le_dec a b') as [M|M].
        + apply (Bo ((b + b') * (1 # 2))); [lra|lra|right; lra|]. apply si_closed. apply Ai; lra.
        + apply (Bo ((a + b) * (1 # 2))); [lra|lra|right; lra|]. apply si_closed. apply Ai; lra. }
    destruct (G a b a' b') as [G1 G2]; auto. destruct (G a' b' a b) as [G3 G4]; auto. split; lra.
  Qed.
  Lemma crossing_not_misses a b : crossing a b -> ~ misses.
  Proof. intros [A0 [A1 [A2 [Ai _]]]] M. apply (M ((a + b) * (1 # 2))); [lra|lra|apply Ai; lra]. Qed.
End Column.

(** ** first and last of the sorted hits *)
Lemma sorted_hd_min (S : list hit) h0 r : Sorted (fun a b => h_xi1 a <= h_xi1 b) (h0 :: r) ->
  forall h, In h (h0 :: r) -> h_xi1 h0 <= h_xi1 h.
Proof.
  intros HS h [<-|Hin]; [apply Qle_refl|].
  apply Sorted_StronglySorted in HS; [|intros x y z; apply Qle_trans].
  inversion HS as [|? ? _ Hall]; subst. rewrite Forall_forall in Hall. apply Hall. exact Hin.
Qed.
Lemma sorted_last_max r : forall h0, Sorted (fun a b => h_xi1 a <= h_xi1 b) (h0 :: r) ->
  forall h, In h (h0 :: r) -> h_xi1 h <= h_xi1 (last r h0).
Proof.
  induction r as [|h1 r' IH]; intros h0 HS h Hin.
  - destruct Hin as [<-|[]]. apply Qle_refl.
  - change (last (h1 :: r') h0) with (last (h1 :: r') h0). rewrite (last_cons_nd r' h1 h0).
    inversion HS as [|? ? HS' Hd]; subst. destruct Hin as [<-|Hin].
    + inversion Hd; subst. eapply Qle_trans; [eassumption|]. apply (IH h1 HS'). left; reflexivity.
    + apply (IH h1 HS'). exact Hin.
Qed.
Lemma last_map {A B} (f : A -> B) r : forall a, last (map f r) (f a) = f (last r a).
Proof. induction r as [|b r' IH]; intro a; [reflexivity|]. cbn [map]. rewrite !last_cons_nd. apply IH. Qed.
Lemma last_in {A} (r : list A) : forall a, In (last r a) (a :: r).
Proof.
  induction r as [|b r' IH]; intro a; [left; reflexivity|]. rewrite last_cons_nd. right. apply IH.
Qed.

(** the stated abstraction of line_polygon_intersections' de-duplication: when distinct crossings of a
    column are farther apart than the merge tolerance (1e-3 x the column's longest side) only copies of
    the same point are merged, so the list keeps the first and the last point of the sorted hits *)
Definition dedup_ok (full out : list pt) : Prop :=
  match full, out with
  | [], [] => True
  | f0 :: fr, o0 :: orest => pt_eq o0 f0 /\ pt_eq (last orest o0) (last fr f0)
  | _, _ => False
  end.
Lemma dedup_ok_refl full : dedup_ok full full.
Proof. destruct full as [|f0 fr]; [exact I|]. split; split; reflexivity. Qed.

(** ** Part 2: the loop of column_track over a column list, column by column *)
Section Loop.
  Variable polygon : positive -> list pt.
  Variable lirf : positive -> bool.
  Variable inters : positive -> list pt.
  Variable tdist : pt -> Q.
  Variable maxside : positive -> Q.
  Variable tol : Q.
  Variables l1 l2 : pt.
  Variable cols : list positive.

  Notation step := (track_step polygon lirf inters tdist maxside tol l1 l2).
  Notation Ic c := (contains_point polygon c l1).
  Notation Jc c := (contains_point polygon c l2).

  (** at most one column contains each end point *)
  Hypothesis tile1 : forall c c', In c cols -> In c' cols -> Ic c = true -> Ic c' = true -> c = c'.
  Hypothesis tile2 : forall c c', In c cols -> In c' cols -> Jc c = true -> Jc c' = true -> c = c'.

  Definition whole (c : positive) : bool := lirf c && (Ic c && Jc c).
  (** what a column contributes when its turn comes (the loop not yet stopped) *)
  Definition outcome (c : positive) : list (Q * seg) :=
    if negb (lirf c) then []
    else if Ic c && Jc c then [(0, (c, l1, l2))]
    else match inters c with
         | [] => []
         | p0 :: prest =>
             let pin := if Ic c then l1 else p0 in
             let pout := if Ic c then last prest p0 else if Jc c then l2 else last prest p0 in
             if qlt (maxside c * tol) (Qabs (tdist pout - tdist pin)) then [(tdist pin, (c, pin, pout))] else []
         end.

  (** state invariant after the columns [done] *)
  Definition sinv (st : tstate) (done : list positive) : Prop :=
    (forall x, t_start st = Some x -> In x done /\ Ic x = true) /\
    (t_start st = None -> forall x, In x done -> lirf x = true -> Ic x = false) /\
    (forall x, t_end st = Some x -> In x done /\ Jc x = true) /\
    (t_end st = None -> forall x, In x done -> lirf x = true -> Jc x = false).

  Lemma step_fresh st done c :
    t_stop st = false -> sinv st done -> incl (c :: done) cols -> ~ In c done ->
    t_track (step st c) = t_track st ++ outcome c /\ t_stop (step st c) = whole c /\ sinv (step st c) (c :: done).
  Proof.
    intros Hs [S1 [S2 [E1 E2]]] Hincl Hfresh.
    assert (Hc : In c cols) by (apply Hincl; left; reflexivity).
    unfold Locate.track_step, outcome, whole. rewrite Hs.
    destruct (lirf c) eqn:Hl; cbn [negb andb].
    2:{ split; [rewrite app_nil_r; reflexivity|]. split; [exact Hs|].
        split; [|split; [|split]].
        - intros x Hx. destruct (S1 x Hx). split; [right|]; assumption.
        - intros Hx x [<-|Hin] Hlx; [congruence|apply S2; assumption].
        - intros x Hx. destruct (E1 x Hx). split; [right|]; assumption.
        - intros Hx x [<-|Hin] Hlx; [congruence|apply E2; assumption]. }
    (* start_col / end_col after the two tests *)
    set (s := match t_start st with None => if Ic c then Some c else None | Some x => Some x end).
    set (e := match t_end st with None => if Jc c then Some c else None | Some x => Some x end).
    assert (Os : opt_is c s = Ic c).
    { unfold s. destruct (t_start st) as [x|] eqn:Ts.
      - destruct (S1 x eq_refl) as [Hx Ix]. cbn [opt_is].
        destruct (Pos.eqb c x) eqn:Ecx; [apply Pos.eqb_eq in Ecx; subst; contradiction|].
        destruct (Ic c) eqn:Icc; [|reflexivity]. exfalso.
        assert (c = x) by (apply tile1; auto; apply Hincl; right; exact Hx). subst. contradiction.
      - destruct (Ic c); cbn [opt_is]; [apply Pos.eqb_refl|reflexivity]. }
    assert (Oe : opt_is c e = Jc c).
    { unfold e. destruct (t_end st) as [x|] eqn:Te.
      - destruct (E1 x eq_refl) as [Hx Jx]. cbn [opt_is].
        destruct (Pos.eqb c x) eqn:Ecx; [apply Pos.eqb_eq in Ecx; subst; contradiction|].
        destruct (Jc c) eqn:Jcc; [|reflexivity]. exfalso.
        assert (c = x) by (apply tile2; auto; apply Hincl; right; exact Hx). subst. contradiction.
      - destruct (Jc c); cbn [opt_is]; [apply Pos.eqb_refl|reflexivity]. }
    assert (Oeq : opt_is c s = true -> opt_eq s e = Jc c).
    { intro H. apply opt_is_true in H. rewrite H. rewrite <- Oe. destruct e as [y|]; reflexivity. }
    assert (Inv' : forall tr stp, sinv (mkT s e tr stp) (c :: done)).
    { intros tr stp. unfold sinv. cbn [t_start t_end]. split; [|split; [|split]].
      - intros x H. unfold s in H. destruct (t_start st) as [y|] eqn:Ts.
        + inversion H; subst. destruct (S1 x eq_refl). split; [right|]; assumption.
        + destruct (Ic c) eqn:Icc; inversion H; subst. split; [left; reflexivity|exact Icc].
      - intros Hn x [<-|Hin] Hlx.
        + unfold s in Hn. destruct (t_start st); [discriminate|]. destruct (Ic c); [discriminate|reflexivity].
        + unfold s in Hn. destruct (t_start st) eqn:Ts; [discriminate|]. apply S2; auto.
      - intros x H. unfold e in H. destruct (t_end st) as [y|] eqn:Te.
        + inversion H; subst. destruct (E1 x eq_refl). split; [right|]; assumption.
        + destruct (Jc c) eqn:Jcc; inversion H; subst. split; [left; reflexivity|exact Jcc].
      - intros Hn x [<-|Hin] Hlx.
        + unfold e in Hn. destruct (t_end st); [discriminate|]. destruct (Jc c); [discriminate|reflexivity].
        + unfold e in Hn. destruct (t_end st) eqn:Te; [discriminate|]. apply E2; auto. }
    fold s e. rewrite Os.
    destruct (Ic c) eqn:Icc; cbn [andb].
    - rewrite (Oeq Os). destruct (Jc c) eqn:Jcc.
      + cbn [t_track t_stop]. split; [reflexivity|]. split; [reflexivity|apply Inv'].
      + destruct (inters c) as [|p0 prest].
        * cbn [t_track t_stop]. split; [rewrite app_nil_r; reflexivity|]. split; [reflexivity|apply Inv'].
        * destruct (qlt _ _); cbn [t_track t_stop]; (split; [try rewrite app_nil_r; reflexivity|]); (split; [reflexivity|apply Inv']).
    - destruct (inters c) as [|p0 prest].
      + cbn [t_track t_stop]. split; [rewrite app_nil_r; reflexivity|]. split; [reflexivity|apply Inv'].
      + rewrite Oe. destruct (Jc c) eqn:Jcc;
          destruct (qlt _ _); cbn [t_track t_stop]; (split; [try rewrite app_nil_r; reflexivity|]); (split; [reflexivity|apply Inv']).
  Qed.

  Fixpoint upto (l : list positive) : list positive :=
    match l with [] => [] | x :: r => if whole x then [x] else x :: upto r end.
  Lemma upto_incl l : incl (upto l) l.
  Proof.
    induction l as [|x r IH]; [intros y []|]. cbn [upto]. destruct (whole x).
    - intros y [<-|[]]. left; reflexivity.
    - intros y [<-|Hy]; [left; reflexivity|right; apply IH; exact Hy].
  Qed.
  (** a column that is not reached comes after a column holding the whole line *)
  Lemma upto_missing l c : In c l -> ~ In c (upto l) -> exists c0, In c0 l /\ whole c0 = true /\ c0 <> c.
  Proof.
    induction l as [|x r IH]; [intros []|]. cbn [upto]. intros Hin Hn. destruct (whole x) eqn:W.
    - exists x. split; [left; reflexivity|]. split; [exact W|]. intro E. apply Hn. left. exact E.
    - destruct Hin as [<-|Hin]; [exfalso; apply Hn; left; reflexivity|].
      destruct (IH Hin) as [c0 [H0 [W0 N0]]]; [intro H; apply Hn; right; exact H|].
      exists c0. split; [right; exact H0|]. split; assumption.
  Qed.

  Lemma fold_stopped r : forall st, t_stop st = true -> fold_left step r st = st.
  Proof.
    induction r as [|x r IH]; intros st H; [reflexivity|]. cbn [fold_left].
    assert (E : step st x = st) by (unfold Locate.track_step; rewrite H; reflexivity).
    rewrite E. apply IH. exact H.
  Qed.

  Lemma fold_char rest : forall done st,
    t_stop st = false -> sinv st done -> NoDup rest -> (forall x, In x rest -> ~ In x done) ->
    incl (done ++ rest) cols ->
    t_track (fold_left step rest st) = t_track st ++ flat_map outcome (upto rest).
  Proof.
    induction rest as [|x r IH]; intros done st Hs Hi Hnd Hfr Hincl; cbn [fold_left upto flat_map].
    - rewrite app_nil_r. reflexivity.
    - assert (Hincl' : incl (x :: done) cols).
      { intros y [<-|Hy]; apply Hincl; apply in_or_app; [right; left; reflexivity|left; exact Hy]. }
      destruct (step_fresh st done x Hs Hi Hincl' (Hfr x (or_introl eq_refl))) as [Tr [St Iv]].
      destruct (whole x) eqn:W.
      + rewrite (fold_stopped r _ St). rewrite Tr. cbn [flat_map]. rewrite app_nil_r. reflexivity.
      + inversion Hnd as [|? ? Hnx Hnd']; subst.
        rewrite (IH (x :: done) (step st x) St Iv Hnd').
        * rewrite Tr, <- app_assoc. reflexivity.
        * intros y Hy [<-|Hd]; [contradiction|]. apply (Hfr y (or_intror Hy)). exact Hd.
        * intros y Hy. apply Hincl. apply in_app_or in Hy. apply in_or_app.
          destruct Hy as [[<-|Hy]|Hy]; [right; left; reflexivity|left; exact Hy|right; right; exact Hy].
  Qed.

  (** the track is the sorted list of what the columns contribute, up to a column holding the whole line *)
  Lemma column_track_char : NoDup cols ->
    column_track polygon lirf inters tdist maxside tol l1 l2 cols
    = map snd (sort_by fst (flat_map outcome (upto cols))).
  Proof.
    intro Hnd. unfold Locate.column_track, Locate.track_keyed.
    rewrite (fold_char cols [] (mkT None None [] false)); try reflexivity; auto.
    - unfold sinv. cbn [t_start t_end]. split; [discriminate|]. split; [intros _ x []|]. split; [discriminate|intros _ x []].
    - apply incl_refl.
  Qed.
End Loop.

(** ** Part 3: the mesh *)
Lemma track_tol_pos : 0 < track_tol.
Proof. unfold Qlt. vm_compute. reflexivity. Qed.

Section Mesh.
  Variable polygon : positive -> list pt.
  Variable inters : positive -> list pt.
  Variable tdist : pt -> Q.
  Variable maxside : positive -> Q.
  Variable len : Q.
  Variables l1 l2 : pt.
  Variable cols : list positive.

  Notation P t := (lpoint l1 l2 t).
  Notation poly c := (polygon c).
  Definition lirf (c : positive) : bool := line_intersects_rectangle (bounds_of_points (poly c)) l1 l2.
  Notation Ic c := (contains_point polygon c l1).
  Notation Jc c := (contains_point polygon c l2).
  Notation oc := (outcome polygon lirf inters tdist maxside track_tol l1 l2).

  (** distances from the start of the line are proportional to the parameter (no square root needed) *)
  Hypothesis Hlen : 0 < len.
  Hypothesis Htd : forall p t, pt_eq p (P t) -> tdist p == len * t.
  Hypothesis Hms : forall c, In c cols -> 0 <= maxside c.
  Hypothesis Hnd : NoDup cols.
  (** convex columns, line in general position with respect to each *)
  Hypothesis Hconv : forall c, In c cols -> (3 <= length (poly c))%nat /\ convex_ccw (poly c).
  Hypothesis Hoff1 : forall c, In c cols -> off_edge_lines (poly c) l1.
  Hypothesis Hoff2 : forall c, In c cols -> off_edge_lines (poly c) l2.
  Hypothesis Hhits : forall c, In c cols -> forall h, In h (lpi_hits (poly c) l1 l2) ->
                     0 <= h_xi0 h /\ h_xi0 h <= 1 /\ 0 < h_xi1 h /\ h_xi1 h < 1.
  (** the de-duplication of line_polygon_intersections, as an abstraction *)
  Hypothesis Hded : forall c, In c cols -> dedup_ok (lpi_points (poly c) l1 l2) (inters c).
  (** tiling: no point of the line is strictly inside two columns *)
  Hypothesis Htile : forall t, 0 <= t -> t <= 1 -> forall c c', In c cols -> In c' cols ->
                     strictly_inside (poly c) (P t) -> strictly_inside (poly c') (P t) -> c = c'.

  Lemma Ic_inside c : In c cols -> (Ic c = true <-> strictly_inside (poly c) l1).
  Proof. intro H. destruct (Hconv c H). apply contains_l1; auto. Qed.
  Lemma Jc_inside c : In c cols -> (Jc c = true <-> strictly_inside (poly c) l2).
  Proof. intro H. destruct (Hconv c H). apply contains_l2; auto. Qed.

  Lemma tile1 c c' : In c cols -> In c' cols -> Ic c = true -> Ic c' = true -> c = c'.
  Proof.
    intros H H' A B. apply (Htile 0); auto; try lra.
    - apply inside0. apply Ic_inside; assumption.
    - apply inside0. apply Ic_inside; assumption.
  Qed.
  Lemma tile2 c c' : In c cols -> In c' cols -> Jc c = true -> Jc c' = true -> c = c'.
  Proof.
    intros H H' A B. apply (Htile 1); auto; try lra.
    - apply inside1. apply Jc_inside; assumption.
    - apply inside1. apply Jc_inside; assumption.
  Qed.

  (** a column with a point of the line strictly inside passes the bounding-box test *)
  Lemma lir_true c t : In c cols -> 0 <= t -> t <= 1 -> strictly_inside (poly c) (P t) -> lirf c = true.
  Proof.
    intros H T0 T1 Hi. destruct (Hconv c H) as [Hn Hc].
    assert (Hoff : off_edge_lines (poly c) (P t)).
    { intros a b He E. pose proof (Hi a b He). lra. }
    pose proof (proj2 (in_polygon_convex_l _ _ Hn Hc Hoff) Hi) as Hp.
    apply in_polygon_in_bounds, in_rectangle_spec_l in Hp.
    apply (lir_complete _ l1 l2 (P t) t Hp T0 T1); reflexivity.
  Qed.

  Lemma hit_pt c h : In h (lpi_hits (poly c) l1 l2) -> pt_eq (h_pt h) (P (h_xi1 h)).
  Proof.
    intro Hh. apply lpi_hits_in in Hh. destruct Hh as [a [b [_ Hl]]].
    apply lpi_edge_some in Hl. tauto.
  Qed.

  Lemma qlt_abs m x y : x == y -> 0 <= y -> qlt m (Qabs x) = qlt m y.
  Proof. intros E H. apply qlt_compat. rewrite E. apply Qabs_pos. exact H. Qed.

  (** the contribution of a column that does not hold the whole line, given its entry / exit points *)
  Lemma oc_two c p0 prest pin pout a b :
    In c cols -> lirf c = true -> Ic c && Jc c = false -> inters c = p0 :: prest ->
    pin = (if Ic c then l1 else p0) ->
    pout = (if Ic c then last prest p0 else if Jc c then l2 else last prest p0) ->
    pt_eq pin (P a) -> pt_eq pout (P b) -> a <= b ->
    (maxside c * track_tol < len * (b - a) -> oc c = [(tdist pin, (c, pin, pout))]) /\
    (len * (b - a) <= maxside c * track_tol -> oc c = []).
  Proof.
    intros Hin Hl Hw Hi Epin Epout Pa Pb Hab.
    assert (E : tdist pout - tdist pin == len * (b - a)) by (rewrite (Htd _ _ Pa), (Htd _ _ Pb); ring).
    assert (N : 0 <= len * (b - a)) by nra.
    unfold outcome. rewrite Hl, Hw, Hi. cbn [negb]. rewrite <- Epin, <- Epout.
    rewrite (qlt_abs _ _ _ E N). split; intro H.
    - apply qlt_spec in H. rewrite H. reflexivity.
    - apply qlt_false in H. rewrite H. reflexivity.
  Qed.

  Definition col_case (c : positive) : Prop :=
    (misses (poly c) l1 l2 /\ oc c = []) \/
    (exists a b pin pout, crossing (poly c) l1 l2 a b /\ pt_eq pin (P a) /\ pt_eq pout (P b) /\
       ((Ic c = true /\ Jc c = true /\ a == 0 /\ b == 1 /\ oc c = [(0, (c, l1, l2))] /\ pin = l1 /\ pout = l2) \/
        (Ic c && Jc c = false /\
         (maxside c * track_tol < len * (b - a) -> oc c = [(tdist pin, (c, pin, pout))]) /\
         (len * (b - a) <= maxside c * track_tol -> oc c = [])))).

  Lemma column_cases c : In c cols -> col_case c.
  Proof.
    intro Hin. destruct (Hconv c Hin) as [Hn Hc].
    pose proof (Hoff1 c Hin) as O1. pose proof (Hoff2 c Hin) as O2. pose proof (Hhits c Hin) as HH.
    pose proof (Hded c Hin) as D. unfold lpi_points in D.
    pose proof (lpi_sorted_sorted (poly c) l1 l2) as Srt.
    assert (Sin : forall h, In h (lpi_sorted (poly c) l1 l2) <-> In h (lpi_hits (poly c) l1 l2)).
    { intro h. unfold lpi_sorted. apply sort_by_in. }
    destruct (Ic c) eqn:EI; destruct (Jc c) eqn:EJ.
    - (* the whole line in the column *)
      right. apply Ic_inside in EI; [|exact Hin]. apply Jc_inside in EJ; [|exact Hin].
      exists 0, 1, l1, l2. split; [apply whole_crossing; assumption|].
      split; [apply pt_eq_sym, P0|]. split; [apply pt_eq_sym, P1|]. left.
      assert (Hl : lirf c = true) by (apply (lir_true c 0 Hin); try lra; apply inside0; exact EI).
      assert (A : Ic c = true) by (apply Ic_inside; assumption). assert (B : Jc c = true) by (apply Jc_inside; assumption).
      split; [exact A|]. split; [exact B|]. split; [reflexivity|]. split; [reflexivity|]. split; [|split; reflexivity].
      unfold outcome. rewrite Hl, A, B. reflexivity.
    - (* starts in the column *)
      assert (I : strictly_inside (poly c) l1) by (apply Ic_inside; assumption).
      assert (J : ~ strictly_inside (poly c) l2) by (intro J; apply Jc_inside in J; [congruence|exact Hin]).
      destruct (lpi_sorted (poly c) l1 l2) as [|h0 r] eqn:ES.
      + exfalso. assert (Eh : lpi_hits (poly c) l1 l2 = []).
        { destruct (lpi_hits (poly c) l1 l2) as [|h t] eqn:E; [reflexivity|]. exfalso. apply (proj2 (Sin h)). left; reflexivity. }
        assert (NM : ~ strictly_inside (poly c) l1 /\ ~ strictly_inside (poly c) l2 /\ misses (poly c) l1 l2) by (eapply nohit_misses; eauto; tauto). destruct NM as [NI _]. contradiction.
      + right. set (hhi := last r h0).
        assert (Ihi : In hhi (lpi_hits (poly c) l1 l2)) by (apply Sin; apply last_in).
        assert (Bhi : forall h, In h (lpi_hits (poly c) l1 l2) -> h_xi1 h <= h_xi1 hhi).
        { intros h Hh. apply sorted_last_max; [exact Srt|apply Sin; exact Hh]. }
        assert (Cr : crossing (poly c) l1 l2 0 (h_xi1 hhi)) by (eapply start_crossing; eauto).
        cbn [map] in D. destruct (inters c) as [|o0 orest] eqn:Ei; [destruct D|]. destruct D as [_ D2].
        rewrite last_map in D2. fold hhi in D2.
        assert (Hl : lirf c = true) by (apply (lir_true c 0 Hin); try lra; apply inside0; exact I).
        exists 0, (h_xi1 hhi), l1, (last orest o0). split; [exact Cr|].
        split; [apply pt_eq_sym, P0|].
        assert (Pb : pt_eq (last orest o0) (P (h_xi1 hhi))).
        { destruct D2 as [Dx Dy]. destruct (hit_pt c hhi Ihi) as [Hx Hy]. split; [rewrite Dx, Hx|rewrite Dy, Hy]; reflexivity. }
        split; [exact Pb|]. right. split; [rewrite EI, EJ; reflexivity|].
        destruct Cr as [_ [Lt _]].
        apply (oc_two c o0 orest l1 (last orest o0) 0 (h_xi1 hhi) Hin Hl); try rewrite EI; try rewrite EJ; auto.
        * apply pt_eq_sym, P0.
        * apply Qlt_le_weak; exact Lt.
    - (* ends in the column *)
      assert (I : ~ strictly_inside (poly c) l1) by (intro I; apply Ic_inside in I; [congruence|exact Hin]).
      assert (J : strictly_inside (poly c) l2) by (apply Jc_inside; assumption).
      destruct (lpi_sorted (poly c) l1 l2) as [|h0 r] eqn:ES.
      + exfalso. assert (Eh : lpi_hits (poly c) l1 l2 = []).
        { destruct (lpi_hits (poly c) l1 l2) as [|h t] eqn:E; [reflexivity|]. exfalso. apply (proj2 (Sin h)). left; reflexivity. }
        assert (NM : ~ strictly_inside (poly c) l1 /\ ~ strictly_inside (poly c) l2 /\ misses (poly c) l1 l2) by (eapply nohit_misses; eauto; tauto). destruct NM as [_ [NJ _]]. contradiction.
      + right.
        assert (Ilo : In h0 (lpi_hits (poly c) l1 l2)) by (apply Sin; left; reflexivity).
        assert (Blo : forall h, In h (lpi_hits (poly c) l1 l2) -> h_xi1 h0 <= h_xi1 h).
        { intros h Hh. apply (sorted_hd_min (h0 :: r) h0 r Srt). apply Sin; exact Hh. }
        assert (Cr : crossing (poly c) l1 l2 (h_xi1 h0) 1) by (eapply end_crossing; eauto).
        cbn [map] in D. destruct (inters c) as [|o0 orest] eqn:Ei; [destruct D|]. destruct D as [D1 _].
        assert (Hl : lirf c = true) by (apply (lir_true c 1 Hin); try lra; apply inside1; exact J).
        exists (h_xi1 h0), 1, o0, l2. split; [exact Cr|].
        assert (Pa : pt_eq o0 (P (h_xi1 h0))).
        { destruct D1 as [Dx Dy]. destruct (hit_pt c h0 Ilo) as [Hx Hy]. split; [rewrite Dx, Hx|rewrite Dy, Hy]; reflexivity. }
        split; [exact Pa|]. split; [apply pt_eq_sym, P1|]. right. split; [rewrite EI, EJ; reflexivity|].
        destruct Cr as [_ [Lt _]].
        apply (oc_two c o0 orest o0 l2 (h_xi1 h0) 1 Hin Hl); try rewrite EI; try rewrite EJ; auto.
        * apply pt_eq_sym, P1.
        * apply Qlt_le_weak; exact Lt.
    - (* neither end point in the column *)
      assert (I : ~ strictly_inside (poly c) l1) by (intro I; apply Ic_inside in I; [congruence|exact Hin]).
      assert (J : ~ strictly_inside (poly c) l2) by (intro J; apply Jc_inside in J; [congruence|exact Hin]).
      destruct (lpi_sorted (poly c) l1 l2) as [|h0 r] eqn:ES.
      + left. assert (Eh : lpi_hits (poly c) l1 l2 = []).
        { destruct (lpi_hits (poly c) l1 l2) as [|h t] eqn:E; [reflexivity|]. exfalso. apply (proj2 (Sin h)). left; reflexivity. }
        assert (NM : ~ strictly_inside (poly c) l1 /\ ~ strictly_inside (poly c) l2 /\ misses (poly c) l1 l2) by (eapply nohit_misses; eauto; tauto). destruct NM as [_ [_ M]]. split; [exact M|].
        cbn [map] in D. destruct (inters c) as [|o0 orest] eqn:Ei; [|destruct D].
        unfold outcome. rewrite EI, EJ, Ei. destruct (lirf c); reflexivity.
      + set (hhi := last r h0).
        assert (Ilo : In h0 (lpi_hits (poly c) l1 l2)) by (apply Sin; left; reflexivity).
        assert (Ihi : In hhi (lpi_hits (poly c) l1 l2)) by (apply Sin; apply last_in).
        assert (Blo : forall h, In h (lpi_hits (poly c) l1 l2) -> h_xi1 h0 <= h_xi1 h).
        { intros h Hh. apply (sorted_hd_min (h0 :: r) h0 r Srt). apply Sin; exact Hh. }
        assert (Bhi : forall h, In h (lpi_hits (poly c) l1 l2) -> h_xi1 h <= h_xi1 hhi).
        { intros h Hh. apply sorted_last_max; [exact Srt|apply Sin; exact Hh]. }
        cbn [map] in D. destruct (inters c) as [|o0 orest] eqn:Ei; [destruct D|]. destruct D as [D1 D2].
        rewrite last_map in D2. fold hhi in D2.
        assert (Pa : pt_eq o0 (P (h_xi1 h0))).
        { destruct D1 as [Dx Dy]. destruct (hit_pt c h0 Ilo) as [Hx Hy]. split; [rewrite Dx, Hx|rewrite Dy, Hy]; reflexivity. }
        assert (Pb : pt_eq (last orest o0) (P (h_xi1 hhi))).
        { destruct D2 as [Dx Dy]. destruct (hit_pt c hhi Ihi) as [Hx Hy]. split; [rewrite Dx, Hx|rewrite Dy, Hy]; reflexivity. }
        destruct (Qlt_le_dec (h_xi1 h0) (h_xi1 hhi)) as [L|L].
        * right. assert (Cr : crossing (poly c) l1 l2 (h_xi1 h0) (h_xi1 hhi)) by (eapply through_crossing; eauto).
          assert (Hl : lirf c = true).
          { destruct Cr as [A0 [_ [A2 [Ai _]]]].
            apply (lir_true c ((h_xi1 h0 + h_xi1 hhi) * (1 # 2)) Hin); try lra. apply Ai; lra. }
          exists (h_xi1 h0), (h_xi1 hhi), o0, (last orest o0). split; [exact Cr|]. split; [exact Pa|]. split; [exact Pb|].
          right. split; [rewrite EI, EJ; reflexivity|].
          apply (oc_two c o0 orest o0 (last orest o0) (h_xi1 h0) (h_xi1 hhi) Hin Hl); try rewrite EI; try rewrite EJ; auto.
        * left. assert (E : h_xi1 h0 == h_xi1 hhi) by (pose proof (Blo hhi Ihi); lra).
          split; [eapply through_misses; eauto|].
          destruct (lirf c) eqn:Hl; [|unfold outcome; rewrite Hl; reflexivity].
          assert (T := oc_two c o0 orest o0 (last orest o0) (h_xi1 h0) (h_xi1 hhi) Hin Hl).
          rewrite EI, EJ in T. cbn [andb] in T.
          assert (Le : h_xi1 h0 <= h_xi1 hhi) by lra.
          destruct (T eq_refl Ei eq_refl eq_refl Pa Pb Le) as [_ T'].
          apply T'. pose proof (Hms c Hin). pose proof track_tol_pos. rewrite E. nra.
  Qed.

  Notation track := (column_track polygon lirf inters tdist maxside track_tol l1 l2 cols).
  Notation reached := (upto polygon lirf l1 l2 cols).
  Definition keyed : list (Q * seg) := sort_by fst (flat_map oc reached).

  Lemma track_is_keyed : track = map snd keyed.
  Proof. unfold keyed. apply column_track_char; [exact tile1|exact tile2|exact Hnd]. Qed.

  Lemma lpoint_param a a' : a == a' -> pt_eq (P a) (P a').
  Proof. intro E. unfold pt_eq, lpoint, px, py. cbn [fst snd]. rewrite E. split; reflexivity. Qed.
  Lemma pt_eq_trans x y z : pt_eq x y -> pt_eq y z -> pt_eq x z.
  Proof. intros [A B] [C D]. split; [rewrite A|rewrite B]; assumption. Qed.

  Definition long (c : positive) (a b : Q) : Prop := maxside c * track_tol < len * (b - a).

  (** every listed segment is the chord of its column, longer than the tolerance (or the whole line) *)
  Lemma track_sound d s : In (d, s) keyed ->
    exists a b, In (seg_col s) cols /\ crossing (poly (seg_col s)) l1 l2 a b /\
                pt_eq (seg_in s) (P a) /\ pt_eq (seg_out s) (P b) /\ d == len * a /\
                (long (seg_col s) a b \/ (a == 0 /\ b == 1)).
  Proof.
    unfold keyed. intro H. apply sort_by_in in H. apply in_flat_map in H. destruct H as [c [Hr Ho]].
    assert (Hin : In c cols) by (apply (upto_incl polygon lirf l1 l2 cols); exact Hr).
    destruct (column_cases c Hin) as [[_ E]|[a [b [pin [pout [Cr [Pa [Pb [W|[NW [Lg Sh]]]]]]]]]]].
    - rewrite E in Ho. destruct Ho.
    - destruct W as [_ [_ [A0 [B1 [E [Ei Eo]]]]]]. rewrite E in Ho. destruct Ho as [Ho|[]]. inversion Ho; subst d s.
      exists a, b. cbn [seg_col seg_in seg_out fst snd]. split; [exact Hin|]. split; [exact Cr|].
      subst pin pout. split; [exact Pa|]. split; [exact Pb|]. split; [rewrite A0; ring|right; split; assumption].
    - destruct (Qlt_le_dec (maxside c * track_tol) (len * (b - a))) as [L|L].
      + rewrite (Lg L) in Ho. destruct Ho as [Ho|[]]. inversion Ho; subst d s.
        exists a, b. cbn [seg_col seg_in seg_out fst snd]. split; [exact Hin|]. split; [exact Cr|].
        split; [exact Pa|]. split; [exact Pb|]. split; [apply Htd; exact Pa|left; exact L].
      + rewrite (Sh L) in Ho. destruct Ho.
  Qed.

  (** every column whose chord is longer than the tolerance (or that holds the whole line) is listed *)
  Lemma track_complete c a b : In c cols -> crossing (poly c) l1 l2 a b ->
    long c a b \/ (Ic c = true /\ Jc c = true) ->
    exists d s, In (d, s) keyed /\ seg_col s = c /\ pt_eq (seg_in s) (P a) /\ pt_eq (seg_out s) (P b).
  Proof.
    intros Hin Cr HL.
    assert (Hr : In c reached).
    { destruct (in_dec Pos.eq_dec c reached) as [Y|N]; [exact Y|exfalso].
      destruct (upto_missing polygon lirf l1 l2 cols c Hin N) as [c0 [H0 [W0 Ne]]].
      unfold whole in W0. apply andb_true_iff in W0. destruct W0 as [_ W0]. apply andb_true_iff in W0. destruct W0 as [I0 J0].
      apply Ic_inside in I0; [|exact H0]. apply Jc_inside in J0; [|exact H0].
      destruct (whole_crossing (poly c0) l1 l2 I0 J0) as [_ [_ [_ [Ai0 _]]]].
      destruct Cr as [A0 [A1 [A2 [Ai _]]]].
      apply Ne. apply (Htile ((a + b) * (1 # 2))); try lra; auto; [apply Ai0; lra|apply Ai; lra]. }
    destruct (column_cases c Hin) as [[M _]|[a' [b' [pin [pout [Cr' [Pa [Pb Hc']]]]]]]].
    - exfalso. exact (crossing_not_misses _ _ _ _ _ Cr M).
    - destruct (crossing_unique _ _ _ _ _ _ _ Cr Cr') as [Ea Eb].
      assert (Pa' : pt_eq pin (P a)) by (eapply pt_eq_trans; [exact Pa|apply lpoint_param; symmetry; exact Ea]).
      assert (Pb' : pt_eq pout (P b)) by (eapply pt_eq_trans; [exact Pb|apply lpoint_param; symmetry; exact Eb]).
      destruct Hc' as [[_ [_ [_ [_ [E [Ei Eo]]]]]]|[NW [Lg _]]].
      + exists 0, (c, l1, l2). split; [unfold keyed; apply sort_by_in, in_flat_map; exists c; split; [exact Hr|rewrite E; left; reflexivity]|].
        cbn [seg_col seg_in seg_out fst snd]. subst pin pout. split; [reflexivity|]. split; [exact Pa'|exact Pb'].
      + destruct HL as [L|[I J]]; [|rewrite I, J in NW; discriminate].
        assert (L' : maxside c * track_tol < len * (b' - a')) by (unfold long in L; rewrite <- Ea, <- Eb; exact L).
        exists (tdist pin), (c, pin, pout).
        split; [unfold keyed; apply sort_by_in, in_flat_map; exists c; split; [exact Hr|rewrite (Lg L'); left; reflexivity]|].
        cbn [seg_col seg_in seg_out fst snd]. split; [reflexivity|]. split; assumption.
  Qed.

  Lemma keyed_sorted : Sorted (fun x y : Q * seg => fst x <= fst y) keyed.
  Proof. unfold keyed. apply (sort_by_sorted (@fst Q seg)). Qed.

  (** no column is listed twice *)
  Lemma oc_shape c : oc c = [] \/ exists d pin pout, oc c = [(d, (c, pin, pout))].
  Proof.
    unfold outcome. destruct (lirf c); cbn [negb]; [|left; reflexivity].
    destruct (Ic c && Jc c); [right; eauto|]. destruct (inters c) as [|p0 prest]; [left; reflexivity|].
    destruct (qlt _ _); [right; eauto|left; reflexivity].
  Qed.
  Lemma upto_nodup l : NoDup l -> NoDup (upto polygon lirf l1 l2 l).
  Proof.
    induction l as [|x r IH]; intro H; [constructor|]. cbn [upto]. inversion H as [|? ? Hx Hr]; subst.
    destruct (whole polygon lirf l1 l2 x); [constructor; [intros []|constructor]|].
    constructor; [|apply IH; exact Hr]. intro Hi. apply Hx. apply (upto_incl polygon lirf l1 l2 r). exact Hi.
  Qed.
  Lemma flat_cols l : NoDup l -> NoDup (map (fun e : Q * seg => seg_col (snd e)) (flat_map oc l)) /\
                      forall x, In x (map (fun e : Q * seg => seg_col (snd e)) (flat_map oc l)) -> In x l.
  Proof.
    induction l as [|c r IH]; intro H; [split; [constructor|intros x []]|]. inversion H as [|? ? Hc Hr]; subst.
    destruct (IH Hr) as [N I]. cbn [flat_map]. destruct (oc_shape c) as [E|[d [pin [pout E]]]]; rewrite E; cbn [app map].
    - split; [exact N|]. intros x Hx. right. apply I. exact Hx.
    - cbn [snd seg_col fst]. split.
      + constructor; [|exact N]. intro Hi. apply Hc. apply I. exact Hi.
      + intros x [<-|Hx]; [left; reflexivity|right; apply I; exact Hx].
  Qed.
  Lemma track_nodup : NoDup (map seg_col track).
  Proof.
    rewrite track_is_keyed, map_map. unfold keyed.
    eapply Permutation_NoDup; [apply Permutation_map; apply sort_by_perm|].
    apply flat_cols. apply upto_nodup. exact Hnd.
  Qed.

  Lemma end_to_end :
    track = map snd keyed /\
    Sorted (fun x y : Q * seg => fst x <= fst y) keyed /\
    (forall d s, In (d, s) keyed ->
       exists a b, In (seg_col s) cols /\ crossing (poly (seg_col s)) l1 l2 a b /\
                   pt_eq (seg_in s) (P a) /\ pt_eq (seg_out s) (P b) /\ d == len * a /\
                   (long (seg_col s) a b \/ (a == 0 /\ b == 1))) /\
    (forall c a b, In c cols -> crossing (poly c) l1 l2 a b -> long c a b \/ (Ic c = true /\ Jc c = true) ->
       exists d s, In (d, s) keyed /\ seg_col s = c /\ pt_eq (seg_in s) (P a) /\ pt_eq (seg_out s) (P b)) /\
    NoDup (map seg_col track) /\
    (forall s0 rest, track = s0 :: rest ->
       sum_len tdist (s0 :: rest) + sum_gaps tdist (s0 :: rest) == tdist (seg_out (last rest s0)) - tdist (seg_in s0)).
  Proof.
    split; [exact track_is_keyed|]. split; [exact keyed_sorted|]. split; [exact track_sound|].
    split; [exact track_complete|]. split; [exact track_nodup|]. intros s0 rest _. apply telescope_general.
  Qed.
End Mesh.
