(** C12 -- the quadtree ([leaf], [build]), the neighbour wave ([wave]) and
    [column_containing_point]: soundness for every combination of search aids, completeness
    (agreement of all aids with plain search) under the explicit hypotheses. *)
From Coq Require Import List Bool Arith ZArith PArith QArith Lia Permutation.
From Gen Require Import GenGeom.
From P Require Import Locate LocBasics.
Import ListNotations.
Open Scope Q_scope.

(** ** an induction principle for the nested type [qtree] *)
Fixpoint qtree_rect' (P : qtree -> Prop)
         (H : forall b es ch, Forall P ch -> P (QNode b es ch)) (t : qtree) : P t :=
  match t with
  | QNode b es ch =>
      H b es ch ((fix go (l : list qtree) : Forall P l :=
                    match l with
                    | [] => Forall_nil P
                    | c :: r => Forall_cons c (qtree_rect' P H c) (go r)
                    end) ch)
  end.

(** [l] is a node of [t] *)
Inductive subtree (l : qtree) : qtree -> Prop :=
| sub_here : subtree l l
| sub_child b es ch c : In c ch -> subtree l c -> subtree l (QNode b es ch).

(** the inner loop of [leaf] *)
Fixpoint leaf_first (pos : pt) (l : list qtree) : option qtree :=
  match l with
  | [] => None
  | c :: r => match leaf c pos with Some x => Some x | None => leaf_first pos r end
  end.
Lemma leaf_unfold b es ch pos :
  leaf (QNode b es ch) pos =
  if in_rectangle pos b then
    match leaf_first pos ch with Some x => Some x | None => Some (QNode b es ch) end
  else None.
Proof.
  cbn [leaf]. destruct (in_rectangle pos b); [|reflexivity].
  assert (E : forall l, (fix go (l : list qtree) : option qtree :=
                 match l with
                 | [] => None
                 | c :: r => match leaf c pos with Some x => Some x | None => go r end
                 end) l = leaf_first pos l).
  { induction l as [|c r IH]; [reflexivity|]. cbn [leaf_first]. rewrite <- IH. reflexivity. }
  rewrite E. reflexivity.
Qed.

(** [leaf] answers [None] exactly for the points outside the node's rectangle *)
Lemma leaf_none t pos : leaf t pos = None <-> in_rectangle pos (qbounds t) = false.
Proof.
  destruct t as [b es ch]. rewrite leaf_unfold. cbn [qbounds].
  destruct (in_rectangle pos b).
  - destruct (leaf_first pos ch); split; discriminate.
  - split; reflexivity.
Qed.

(** quadtree leaf containment: the node returned for a point is a node of the tree, its
    rectangle contains the point, and none of its children's rectangles does *)
Lemma leaf_spec t : forall pos l,
  leaf t pos = Some l ->
  subtree l t /\ in_rectangle pos (qbounds l) = true /\
  (forall c, In c (qchildren l) -> in_rectangle pos (qbounds c) = false).
Proof.
  induction t as [b es ch IH] using qtree_rect'. intros pos l H.
  rewrite leaf_unfold in H. destruct (in_rectangle pos b) eqn:Eb; [|discriminate].
  destruct (leaf_first pos ch) eqn:El.
  - inversion H; subst q. clear H.
    assert (G : exists c, In c ch /\ leaf c pos = Some l).
    { clear IH. induction ch as [|c r IHr]; cbn [leaf_first] in El; [discriminate|].
      destruct (leaf c pos) eqn:Ec.
      - inversion El; subst. exists c. split; [left; reflexivity|exact Ec].
      - destruct (IHr El) as [c' [Hi Hl]]. exists c'. split; [right; exact Hi|exact Hl]. }
    destruct G as [c [Hi Hl]].
    rewrite Forall_forall in IH. destruct (IH c Hi pos l Hl) as [S [B N]].
    split; [eapply sub_child; eauto|]. split; assumption.
  - inversion H; subst l. clear H. split; [constructor|]. cbn [qbounds qchildren]. split; [exact Eb|].
    intros c Hc. apply leaf_none.
    clear IH. induction ch as [|c' r IHr]; [destruct Hc|]. cbn [leaf_first] in El.
    destruct (leaf c' pos) eqn:Ec; [discriminate|].
    destruct Hc as [->|Hc]; [exact Ec|apply IHr; assumption].
Qed.

Lemma leaf_inside t pos : in_rectangle pos (qbounds t) = true -> exists l, leaf t pos = Some l.
Proof.
  intro H. destruct (leaf t pos) eqn:E; [eauto|]. apply leaf_none in E. congruence.
Qed.

(** ** [build] *)
Section BuildFacts.
  Variable centre : positive -> pt.

  Lemma build_bounds fuel b es : qbounds (build centre fuel b es) = b.
  Proof. destruct fuel; cbn [build]; [reflexivity|]. destruct (_ <? _)%nat; reflexivity. Qed.
  Lemma build_elements fuel b es : qelements (build centre fuel b es) = es.
  Proof. destruct fuel; cbn [build]; [reflexivity|]. destruct (_ <? _)%nat; reflexivity. Qed.

  Lemma group_incl rects elts i : incl (group centre rects elts i) elts.
  Proof. intros x H. unfold group in H. apply filter_In in H. tauto. Qed.
  Lemma group_centre rects elts i e r :
    In e (group centre rects elts i) -> nth_error rects i = Some r -> in_rectangle (centre e) r = true.
  Proof.
    intros H Hn. unfold group in H. apply filter_In in H. destruct H as [_ H].
    destruct (first_rect 0 (centre e) rects) as [j|] eqn:E; [|discriminate].
    apply Nat.eqb_eq in H. subst j.
    apply first_rect_some in E. destruct E as [r0 [H1 [H2 _]]].
    rewrite Nat.sub_0_r in H1. congruence.
  Qed.

  (** every node of a built tree holds a subset of its parent's elements, and (below the
      root) only elements whose centre lies in the node's rectangle *)
  Lemma build_children fuel b es c :
    In c (qchildren (build centre fuel b es)) ->
    exists f' i r, fuel = S f' /\ nth_error (sub_rectangles b) i = Some r /\
                   c = build centre f' r (group centre (sub_rectangles b) es i) /\
                   group centre (sub_rectangles b) es i <> [].
  Proof.
    destruct fuel as [|f]; cbn [build]; [intros []|].
    destruct (_ <? _)%nat; [|intros []]. cbn [qchildren].
    intro H. apply in_flat_map in H. destruct H as [[i r] [Hin Hc]].
    cbn [fst snd] in Hc.
    destruct (group centre (sub_rectangles b) es i) as [|g gs] eqn:Eg; [destruct Hc|].
    destruct Hc as [Hc|[]]. exists f, i, r.
    assert (Hnth : nth_error (sub_rectangles b) i = Some r).
    { clear - Hin. remember (sub_rectangles b) as rs. clear Heqrs.
      assert (G : forall k, In (i, r) (combine (seq k (length rs)) rs) -> nth_error rs (i - k) = Some r /\ (k <= i)%nat).
      { clear Hin. induction rs as [|r0 rs IH]; intros k H; [destruct H|]. cbn [length seq combine] in H.
        destruct H as [H|H].
        - inversion H; subst. rewrite Nat.sub_diag. split; [reflexivity|lia].
        - apply IH in H. destruct H as [H1 H2]. replace (i - k)%nat with (S (i - S k)) by lia. split; [exact H1|lia]. }
      apply G in Hin. rewrite Nat.sub_0_r in Hin. tauto. }
    split; [reflexivity|]. split; [exact Hnth|]. rewrite Eg. split; [symmetry; exact Hc|discriminate].
  Qed.

  Lemma build_subtree_elements fuel : forall b es n,
    subtree n (build centre fuel b es) -> incl (qelements n) es.
  Proof.
    induction fuel as [|f IH]; intros b es n H.
    - cbn [build] in H. inversion H; subst; [cbn; apply incl_refl|]. destruct H2.
    - remember (build centre (S f) b es) as t eqn:Et. destruct H as [|b' es' ch c Hc Hs].
      + subst. rewrite build_elements. apply incl_refl.
      + assert (Hc' : In c (qchildren (build centre (S f) b es))) by (rewrite <- Et; exact Hc).
        apply build_children in Hc'. destruct Hc' as [f' [i [r [Ef [Hn [Ec _]]]]]].
        inversion Ef; subst f'. subst c. apply IH in Hs.
        eapply incl_tran; [exact Hs|apply group_incl].
  Qed.

  Lemma build_subtree_centres fuel : forall b es n,
    (forall e, In e es -> in_rectangle (centre e) b = true) ->
    subtree n (build centre fuel b es) ->
    forall e, In e (qelements n) -> in_rectangle (centre e) (qbounds n) = true.
  Proof.
    induction fuel as [|f IH]; intros b es n Hall H.
    - cbn [build] in H. inversion H; subst; [cbn; exact Hall|]. destruct H2.
    - remember (build centre (S f) b es) as t eqn:Et. destruct H as [|b' es' ch c Hc Hs].
      + subst. rewrite build_elements, build_bounds. exact Hall.
      + assert (Hc' : In c (qchildren (build centre (S f) b es))) by (rewrite <- Et; exact Hc).
        apply build_children in Hc'. destruct Hc' as [f' [i [r [Ef [Hn [Ec _]]]]]].
        inversion Ef; subst f'. subst c. eapply IH; [|exact Hs].
        intros e He. eapply group_centre; eauto.
  Qed.
End BuildFacts.

(** ** the neighbour wave *)
Section WaveFacts.
  Variable polygon : positive -> list pt.
  Variable nbrs : positive -> list positive.
  Variable bbox : positive -> rect.
  Variables (allE : list positive) (bnds : rect) (pos : pt).

  Notation contains c := (contains_point polygon c pos).
  Notation wave_push := (wave_push bbox bnds).
  Notation wave := (wave polygon nbrs bbox allE bnds pos).

  (** the edges the wave follows *)
  Definition good (e n : positive) : Prop :=
    In n (nbrs e) /\ In n allE /\ rectangles_intersect (bbox n) bnds = true.
  Inductive reach (S : list positive) : positive -> Prop :=
  | reach_init x : In x S -> reach S x
  | reach_step x n : reach S x -> good x n -> reach S n.

  Definition cnt (done todo : list positive) : nat :=
    length (filter (fun x => negb (pmem x done) && negb (pmem x todo)) allE).

  Lemma filter_length_le {A} (p q : A -> bool) l :
    (forall x, In x l -> p x = true -> q x = true) -> (length (filter p l) <= length (filter q l))%nat.
  Proof.
    induction l as [|a l IH]; intro H; [apply Nat.le_refl|]. cbn [filter].
    assert (IH' := IH (fun x Hx => H x (or_intror Hx))).
    destruct (p a) eqn:Ep.
    - rewrite (H a (or_introl eq_refl) Ep). cbn [length]. lia.
    - destruct (q a); cbn [length]; lia.
  Qed.
  Lemma filter_length_lt {A} (p q : A -> bool) l n :
    (forall x, In x l -> p x = true -> q x = true) -> In n l -> p n = false -> q n = true ->
    (length (filter p l) < length (filter q l))%nat.
  Proof.
    induction l as [|a l IH]; intros H Hn Hp Hq; [destruct Hn|]. cbn [filter].
    assert (Hle := filter_length_le p q l (fun x Hx => H x (or_intror Hx))).
    destruct Hn as [->|Hn].
    - rewrite Hp, Hq. cbn [length]. lia.
    - assert (IH' := IH (fun x Hx => H x (or_intror Hx)) Hn Hp Hq).
      destruct (p a) eqn:Ep.
      + rewrite (H a (or_introl eq_refl) Ep). cbn [length]. lia.
      + destruct (q a); cbn [length]; lia.
  Qed.
  Lemma cnt_le_all done todo : (cnt done todo <= length allE)%nat.
  Proof.
    unfold cnt. etransitivity; [apply (filter_length_le _ (fun _ => true)); reflexivity|].
    clear. induction allE; cbn [filter length]; lia.
  Qed.

  (** one push *)
  Lemma wave_push_facts done todo n :
    In n allE ->
    let todo' := wave_push done todo n in
    incl todo todo' /\
    (rectangles_intersect (bbox n) bnds = true -> In n done \/ In n todo') /\
    (forall x, In x todo' -> In x todo \/ x = n) /\
    (length todo' + cnt done todo' <= length todo + cnt done todo)%nat.
  Proof.
    intros Hn. unfold Locate.wave_push.
    destruct (rectangles_intersect (bbox n) bnds) eqn:Er; cbn [andb].
    - destruct (pmem n done) eqn:Ed; cbn [orb negb].
      + apply pmem_spec in Ed. repeat split; auto using incl_refl.
      + destruct (pmem n todo) eqn:Et; cbn [negb].
        * apply pmem_spec in Et. repeat split; auto using incl_refl.
        * repeat split.
          -- apply incl_appl, incl_refl.
          -- intros _. right. apply in_or_app. right. left. reflexivity.
          -- intros x Hx. apply in_app_or in Hx. destruct Hx as [Hx|[Hx|[]]]; auto.
          -- rewrite app_length. cbn [length].
             assert (L : (cnt done (todo ++ [n]) < cnt done todo)%nat).
             { unfold cnt. apply filter_length_lt with (n := n); auto.
               - intros x _ Hx. apply andb_true_iff in Hx. destruct Hx as [H1 H2].
                 rewrite H1. cbn [andb]. apply negb_true_iff. apply negb_true_iff in H2.
                 apply pmem_false. apply pmem_false in H2. intro Hc. apply H2. apply in_or_app. left; exact Hc.
               - rewrite Ed. cbn [negb andb]. apply negb_false_iff. apply pmem_spec. apply in_or_app. right. left. reflexivity.
               - rewrite Ed, Et. reflexivity. }
             lia.
    - repeat split; auto using incl_refl. discriminate.
  Qed.

  Lemma wave_pushes_facts done ns : forall todo,
    incl ns allE ->
    let todo' := fold_left (wave_push done) ns todo in
    incl todo todo' /\
    (forall n, In n ns -> rectangles_intersect (bbox n) bnds = true -> In n done \/ In n todo') /\
    (forall x, In x todo' -> In x todo \/ In x ns) /\
    (length todo' + cnt done todo' <= length todo + cnt done todo)%nat.
  Proof.
    induction ns as [|n ns IH]; intros todo Hs; cbn [fold_left].
    - repeat split; auto using incl_refl. intros n [].
    - assert (Hn : In n allE) by (apply Hs; left; reflexivity).
      destruct (wave_push_facts done todo n Hn) as [A [B [C D]]].
      destruct (IH (wave_push done todo n) (fun x Hx => Hs x (or_intror Hx))) as [A' [B' [C' D']]].
      repeat split.
      + eapply incl_tran; eauto.
      + intros m [->|Hm] Hr; [|apply B'; assumption].
        destruct (B Hr) as [Hd|Ht]; [left; exact Hd|right; apply A'; exact Ht].
      + intros x Hx. destruct (C' x Hx) as [Hx'|Hx']; [|right; right; exact Hx'].
        destruct (C x Hx') as [H1| ->]; [left; exact H1|right; left; reflexivity].
      + lia.
  Qed.

  (** soundness: the wave only ever answers with a column that contains the point *)
  Lemma wave_sound fuel : forall todo done e,
    wave fuel todo done = Some e -> contains e = true.
  Proof.
    induction fuel as [|f IH]; intros todo done e H; cbn [Locate.wave] in H; [discriminate|].
    destruct todo as [|x rest]; [discriminate|].
    destruct (contains x) eqn:Ec.
    - inversion H; subst; exact Ec.
    - eapply IH; exact H.
  Qed.

  (** the answer comes from the initial list or from the tree's elements *)
  Lemma wave_from fuel : forall todo done e,
    wave fuel todo done = Some e -> In e todo \/ In e allE.
  Proof.
    induction fuel as [|f IH]; intros todo done e H; cbn [Locate.wave] in H; [discriminate|].
    destruct todo as [|x rest]; [discriminate|].
    destruct (contains x) eqn:Ec.
    - inversion H; subst. left; left; reflexivity.
    - apply IH in H. destruct H as [H|H]; [|right; exact H].
      set (ns := filter (fun n => pmem n allE) (nbrs x)) in *.
      assert (Hs : incl ns allE).
      { intros n Hn. apply filter_In in Hn. apply pmem_spec. tauto. }
      destruct (wave_pushes_facts (x :: done) ns rest Hs) as [_ [_ [C _]]].
      destruct (C e H) as [H1|H1]; [left; right; exact H1|right; apply Hs; exact H1].
  Qed.

  (** when the wave gives up with enough fuel, the visited set is closed under the edges it follows *)
  Lemma wave_none fuel : forall todo done,
    (length todo + cnt done todo <= fuel)%nat ->
    wave fuel todo done = None ->
    (forall d, In d done -> contains d = false) ->
    (forall d n, In d done -> good d n -> In n done \/ In n todo) ->
    exists done', incl done done' /\ incl todo done' /\
                  (forall d, In d done' -> contains d = false) /\
                  (forall d n, In d done' -> good d n -> In n done').
  Proof.
    induction fuel as [|f IH]; intros todo done Hf H Hc Hcl.
    - destruct todo as [|x r]; [|cbn [length] in Hf; lia].
      exists done. repeat split; auto using incl_refl.
      + intros x [].
      + intros d n Hd Hg. destruct (Hcl d n Hd Hg) as [H1|[]]; exact H1.
    - cbn [Locate.wave] in H. destruct todo as [|x rest].
      + exists done. repeat split; auto using incl_refl.
        * intros y [].
        * intros d n Hd Hg. destruct (Hcl d n Hd Hg) as [H1|[]]; exact H1.
      + destruct (contains x) eqn:Ec; [discriminate|].
        set (ns := filter (fun n => pmem n allE) (nbrs x)) in *.
        assert (Hs : incl ns allE).
        { intros n Hn. apply filter_In in Hn. apply pmem_spec. tauto. }
        destruct (wave_pushes_facts (x :: done) ns rest Hs) as [A [B [C D]]].
        set (todo' := fold_left (wave_push (x :: done)) ns rest) in *.
        assert (Hpot : (length todo' + cnt (x :: done) todo' <= f)%nat).
        { assert (L : (cnt (x :: done) rest <= cnt done (x :: rest))%nat).
          { unfold cnt. apply filter_length_le. intros y _ Hy.
            apply andb_true_iff in Hy. destruct Hy as [H1 H2].
            apply negb_true_iff, pmem_false in H1. apply negb_true_iff, pmem_false in H2.
            apply andb_true_iff. split; apply negb_true_iff, pmem_false; intro Hi.
            - apply H1. right; exact Hi.
            - destruct Hi as [->|Hi]; [apply H1; left; reflexivity|apply H2; exact Hi]. }
          cbn [length] in Hf. lia. }
        destruct (IH todo' (x :: done) Hpot H) as [done' [I1 [I2 [I3 I4]]]].
        * intros d [->|Hd]; [exact Ec|apply Hc; exact Hd].
        * intros d n [->|Hd] Hg.
          -- destruct Hg as [G1 [G2 G3]]. apply B; [|exact G3].
             apply filter_In. split; [exact G1|apply pmem_spec; exact G2].
          -- destruct (Hcl d n Hd Hg) as [H1|[->|H1]].
             ++ left; right; exact H1.
             ++ left; left; reflexivity.
             ++ right; apply A; exact H1.
        * exists done'. repeat split; auto.
          -- intros y Hy. apply I1. right; exact Hy.
          -- intros y [->|Hy]; [apply I1; left; reflexivity|apply I2, A; exact Hy].
  Qed.

  (** completeness: with the fuel [search] gives it, the wave finds a containing column
      whenever one is reachable from the start list along the edges it follows *)
  Lemma wave_complete fuel todo T :
    (length todo + length allE <= fuel)%nat ->
    reach todo T -> contains T = true ->
    exists e, wave fuel todo [] = Some e /\ contains e = true.
  Proof.
    intros Hf Hr Hc. destruct (wave fuel todo []) as [e|] eqn:E.
    - exists e. split; [reflexivity|eapply wave_sound; exact E].
    - exfalso.
      assert (P1 : (length todo + cnt [] todo <= fuel)%nat).
      { pose proof (cnt_le_all [] todo). lia. }
      assert (P2 : forall d, In d [] -> contains d = false) by (intros d []).
      assert (P3 : forall d n, In d [] -> good d n -> In n [] \/ In n todo) by (intros d n []).
      destruct (wave_none fuel todo [] P1 E P2 P3) as [done' [_ [I2 [I3 I4]]]].
      assert (HT : forall y, reach todo y -> In y done').
      { intros y Hy. induction Hy as [x Hx|x n _ IHr Hg]; [apply I2; exact Hx|exact (I4 x n IHr Hg)]. }
      rewrite (I3 T (HT T Hr)) in Hc. discriminate.
  Qed.
End WaveFacts.

(** ** [search] and [column_containing_point] *)
Section SearchFacts.
  Variable polygon : positive -> list pt.
  Variable centre : positive -> pt.
  Variable nbrs : positive -> list positive.
  Variable bbox : positive -> rect.
  Variable columnlist : list positive.

  Notation contains c pos := (contains_point polygon c pos).
  Notation search := (search polygon nbrs bbox).
  Notation ccp := (column_containing_point polygon centre nbrs bbox columnlist).
  Notation first_containing := (first_containing polygon centre).
  Notation full_search := (full_search polygon centre nbrs bbox).

  (** hypothesis [connected_near]: the column is reachable from the elements of the leaf
      found for the point, through neighbours that belong to the tree and whose bounding
      boxes meet the leaf's rectangle *)
  Definition connected_near (t : qtree) (pos : pt) (T : positive) : Prop :=
    exists l, leaf t pos = Some l /\ reach nbrs bbox (qelements t) (qbounds l) (qelements l) T.

  (** what makes the quadtree search find column [T]: [connected_near], or -- with the
      fallback of the repaired code -- merely that [T] is an element of the tree and the point
      lies in the tree's rectangle *)
  Definition qtree_finds (t : qtree) (pos : pt) (T : positive) : Prop :=
    connected_near t pos T \/
    (quadtree_search_has_fallback = true /\ in_rectangle pos (qbounds t) = true /\ In T (qelements t)).

  (** hypothesis [tiling]: at most one column contains the point *)
  Definition tiling (pos : pt) : Prop :=
    forall c c', contains c pos = true -> contains c' pos = true -> c = c'.

  Lemma search_sound_l t pos e : search t pos = Some e -> contains e pos = true.
  Proof.
    unfold Locate.search. destruct (leaf t pos) as [l|]; [|discriminate].
    destruct (wave _ _ _ _ _ _ _ _ _) as [e'|] eqn:W.
    - intro H; inversion H; subst. eapply wave_sound; exact W.
    - destruct quadtree_search_has_fallback; [|discriminate].
      intro H. apply find_some in H. destruct H as [_ H]. apply andb_true_iff in H. tauto.
  Qed.
  Lemma search_complete_l t pos T :
    connected_near t pos T -> contains T pos = true ->
    exists e, search t pos = Some e /\ contains e pos = true.
  Proof.
    intros [l [Hl Hr]] Hc. unfold Locate.search. rewrite Hl.
    destruct (wave_complete polygon nbrs bbox (qelements t) (qbounds l) pos
                (length (qelements l) + length (qelements t)) (qelements l) T (Nat.le_refl _) Hr Hc) as [e [W C]].
    rewrite W. exists e. split; [reflexivity|exact C].
  Qed.
  (** with the fallback of the repaired code no connectivity is needed: an element of the tree
      that contains the point is always found when the point lies in the tree's rectangle *)
  Lemma search_complete_fallback t pos T :
    quadtree_search_has_fallback = true ->
    in_rectangle pos (qbounds t) = true ->
    In T (qelements t) -> near_point bbox T pos = true -> contains T pos = true ->
    exists e, search t pos = Some e /\ contains e pos = true.
  Proof.
    intros Hf Hb Hi Hn Hc. unfold Locate.search.
    destruct (leaf_inside t pos Hb) as [l Hl]. rewrite Hl.
    destruct (wave _ _ _ _ _ _ _ _ _) as [e|] eqn:W.
    - exists e. split; [reflexivity|eapply wave_sound; exact W].
    - rewrite Hf.
      destruct (find (fun e => near_point bbox e pos && contains e pos) (qelements t)) as [e|] eqn:F.
      + exists e. split; [reflexivity|]. apply find_some in F. destruct F as [_ F]. apply andb_true_iff in F. tauto.
      + exfalso. pose proof (find_none _ _ F T Hi) as N. cbn beta in N. rewrite Hn, Hc in N. discriminate.
  Qed.

  Lemma search_finds t pos T :
    qtree_finds t pos T -> near_point bbox T pos = true -> contains T pos = true ->
    exists e, search t pos = Some e /\ contains e pos = true.
  Proof.
    intros [H|[Hf [Hb Hi]]] Hn Hc; [apply search_complete_l with (T := T); assumption|].
    apply search_complete_fallback with (T := T); assumption.
  Qed.

  Lemma first_containing_sound pos cols c :
    first_containing pos cols = Some c -> In c cols /\ contains c pos = true.
  Proof.
    unfold Locate.first_containing. intro H. apply find_some in H. destruct H as [H1 H2].
    apply sort_by_in in H1. split; assumption.
  Qed.
  Lemma first_containing_complete pos cols T :
    In T cols -> contains T pos = true -> exists c, first_containing pos cols = Some c.
  Proof.
    intros Hi Hc. unfold Locate.first_containing. apply find_some_iff.
    exists T. split; [apply sort_by_in; exact Hi|exact Hc].
  Qed.
  (** the first match is a nearest one (by centre distance) among the containing columns *)
  Lemma first_containing_nearest pos cols c :
    first_containing pos cols = Some c ->
    forall c', In c' cols -> contains c' pos = true -> dist2 (centre c) pos <= dist2 (centre c') pos.
  Proof.
    unfold Locate.first_containing. intros H c' Hi Hc.
    set (key := fun c0 : positive => dist2 (centre c0) pos) in *.
    assert (S := sort_by_sorted key cols).
    assert (Hi' : In c' (sort_by key cols)) by (apply sort_by_in; exact Hi).
    revert S H Hi'. generalize (sort_by key cols) as l.
    induction l as [|a l IH]; intros S H Hi'; [discriminate|].
    cbn [find] in H. destruct (contains a pos) eqn:Ea.
    - inversion H; subst a. destruct Hi' as [->|Hi']; [apply Qle_refl|].
      apply Sorted.Sorted_StronglySorted in S.
      + inversion S as [|? ? _ Hall]; subst. rewrite Forall_forall in Hall. apply (Hall c' Hi').
      + intros x y z. unfold key_le. apply Qle_trans.
    - destruct Hi' as [->|Hi']; [congruence|].
      inversion S; subst. apply IH; assumption.
  Qed.

  Lemma full_search_sound pos searchcols donecols qt c :
    full_search pos searchcols donecols qt = Some c -> contains c pos = true.
  Proof.
    unfold Locate.full_search. destruct qt as [t|].
    - apply search_sound_l.
    - intro H. apply first_containing_sound in H. tauto.
  Qed.

  (** *** soundness, for every combination of search aids *)
  Lemma ccp_sound pos columns guess bounds qt c :
    ccp pos columns guess bounds qt = Some c ->
    contains c pos = true /\ inbounds pos bounds = true.
  Proof.
    unfold Locate.column_containing_point. destruct (inbounds pos bounds); [|discriminate].
    intro H. split; [|reflexivity]. destruct guess as [g|].
    - destruct (contains g pos) eqn:Eg; [inversion H; subst; exact Eg|].
      destruct (first_containing pos _) eqn:Ef.
      + inversion H; subst. apply first_containing_sound in Ef. tauto.
      + eapply full_search_sound; exact H.
    - eapply full_search_sound; exact H.
  Qed.

  (** a point that no column contains yields nothing, whatever the aids *)
  Lemma ccp_outside pos columns guess bounds qt :
    (forall c, contains c pos = false) -> ccp pos columns guess bounds qt = None.
  Proof.
    intro H. destruct (ccp pos columns guess bounds qt) as [c|] eqn:E; [|reflexivity].
    apply ccp_sound in E. rewrite H in E. destruct E; discriminate.
  Qed.

  (** without guess and quadtree the answer is one of the columns searched *)
  Lemma ccp_plain_in pos columns bounds c :
    ccp pos columns None bounds None = Some c ->
    In c (match columns with None => columnlist | Some cs => cs end).
  Proof.
    unfold Locate.column_containing_point. destruct (inbounds pos bounds); [|discriminate].
    unfold Locate.full_search. intro H. apply first_containing_sound in H. destruct H as [H _].
    apply filter_In in H. destruct H as [H _]. apply nodup_In in H. apply filter_In in H. tauto.
  Qed.

  Lemma full_search_complete pos searchcols donecols qt T :
    contains T pos = true -> near_point bbox T pos = true ->
    In T searchcols -> ~ In T donecols ->
    (forall t, qt = Some t -> qtree_finds t pos T) ->
    exists c, full_search pos searchcols donecols qt = Some c /\ contains c pos = true.
  Proof.
    intros Hc Hn Hi Hd Hq. unfold Locate.full_search. destruct qt as [t|].
    - apply search_finds with (T := T); auto.
    - destruct (first_containing_complete pos
                  (filter (fun c => negb (pmem c donecols))
                          (nodup Pos.eq_dec (filter (fun c => near_point bbox c pos) searchcols))) T) as [c Hf]; auto.
      + apply filter_In. split.
        * apply nodup_In. apply filter_In. split; assumption.
        * apply negb_true_iff. apply pmem_false. exact Hd.
      + exists c. split; [exact Hf|]. apply first_containing_sound in Hf. tauto.
  Qed.

  (** *** completeness: every aid combination whose premises hold finds a containing column *)
  Lemma ccp_complete pos columns guess bounds qt T :
    contains T pos = true -> near_point bbox T pos = true ->
    inbounds pos bounds = true ->
    In T (match columns with None => columnlist | Some cs => cs end) ->
    (forall t, qt = Some t -> qtree_finds t pos T) ->
    exists c, ccp pos columns guess bounds qt = Some c /\ contains c pos = true.
  Proof.
    intros Hc Hn Hb Hi Hq. unfold Locate.column_containing_point. rewrite Hb.
    destruct guess as [g|].
    - destruct (contains g pos) eqn:Eg; [exists g; split; [reflexivity|exact Eg]|].
      destruct (first_containing pos _) as [c|] eqn:Ef.
      + exists c. split; [reflexivity|]. apply first_containing_sound in Ef. tauto.
      + apply full_search_complete with (T := T); auto.
        intros [->|Hd]; [congruence|].
        destruct (first_containing_complete pos _ T Hd Hc) as [c Hf]. congruence.
    - apply full_search_complete with (T := T); auto.
  Qed.

  (** *** agreement of the aids: on a tiling, every aid combination whose premises hold
      returns the same column as plain search, namely the column containing the point *)
  Lemma ccp_aids_agree pos columns guess bounds qt T :
    tiling pos ->
    contains T pos = true -> near_point bbox T pos = true ->
    In T columnlist ->
    inbounds pos bounds = true ->
    In T (match columns with None => columnlist | Some cs => cs end) ->
    (forall t, qt = Some t -> qtree_finds t pos T) ->
    ccp pos columns guess bounds qt = Some T /\ ccp pos None None None None = Some T.
  Proof.
    intros Ht Hc Hn Hl Hb Hi Hq. split.
    - destruct (ccp_complete pos columns guess bounds qt T) as [c [H1 H2]]; auto.
      rewrite H1. f_equal. apply Ht; assumption.
    - destruct (ccp_complete pos None None None None T) as [c [H1 H2]]; auto.
      + intros t Ht'. discriminate.
      + rewrite H1. f_equal. apply Ht; assumption.
  Qed.
End SearchFacts.
