(** C12 -- [in_polygon] is correct for every strictly convex counter-clockwise polygon, any
    number of vertices: for a point off the supporting lines of the edges the crossing count is
    odd exactly when the point is strictly to the left of every edge.

    Convexity is stated on the vertex list: every three vertices taken in list order make a
    left turn ([convex_ccw]).  Two facts about such lists carry the proof:
    - no four vertices in list order alternate around a horizontal line (a 4-point identity),
      so the closed boundary goes up through the line at most once;
    - at a highest / lowest vertex the interior wedge lies below / above it. *)
From Coq Require Import List Bool Arith ZArith PArith QArith Qabs Lia Lqa.
From Gen Require Import GenGeom.
From P Require Import Locate LocBasics LocPolygon.
Import ListNotations.
Open Scope Q_scope.

(** twice the signed area of the triangle a b p: positive when p is to the left of a -> b *)
Definition orient (a b p : pt) : Q :=
  (px b - px a) * (py p - py a) - (py b - py a) * (px p - px a).

Lemma orient_rot a b c : orient a b c == orient b c a.
Proof. unfold orient. ring. Qed.
Lemma orient_aa a b : orient a b a == 0.
Proof. unfold orient. ring. Qed.
Lemma orient_ab a b : orient a b b == 0.
Proof. unfold orient. ring. Qed.
Lemma orient_shift r a b p : orient (psub a r) (psub b r) (psub p r) == orient a b p.
Proof. unfold orient, psub, px, py. cbn [fst snd]. ring. Qed.

(** ** sublists (subsequences, order kept) *)
Inductive sublist {A} : list A -> list A -> Prop :=
| sl_nil l : sublist [] l
| sl_skip s x l : sublist s l -> sublist s (x :: l)
| sl_take s x l : sublist s l -> sublist (x :: s) (x :: l).

Lemma sublist_refl {A} (l : list A) : sublist l l.
Proof. induction l; constructor; assumption. Qed.
Lemma sublist_trans {A} (a b c : list A) : sublist a b -> sublist b c -> sublist a c.
Proof.
  intros H1 H2. revert a H1. induction H2 as [l|s x l H IH|s x l H IH]; intros a H1.
  - inversion H1; subst. constructor.
  - constructor. apply IH. exact H1.
  - inversion H1; subst.
    + constructor.
    + constructor. apply IH. assumption.
    + apply sl_take. apply IH. assumption.
Qed.
Lemma sublist_app_l {A} (x l : list A) s : sublist s l -> sublist s (x ++ l).
Proof. induction x; cbn [app]; [auto|intro H; constructor; auto]. Qed.
Lemma sublist_app_r {A} (l y : list A) s : sublist s l -> sublist s (l ++ y).
Proof. induction 1; cbn [app]; constructor; assumption. Qed.
Lemma sublist_app2 {A} (s1 l1 s2 l2 : list A) : sublist s1 l1 -> sublist s2 l2 -> sublist (s1 ++ s2) (l1 ++ l2).
Proof.
  induction 1; intro H2; cbn [app].
  - apply sublist_app_l. exact H2.
  - constructor. auto.
  - apply sl_take. auto.
Qed.
Lemma sublist_in {A} (s l : list A) x : sublist s l -> In x s -> In x l.
Proof.
  induction 1; intro Hx; [destruct Hx|right; auto|].
  destruct Hx as [->|Hx]; [left; reflexivity|right; auto].
Qed.
Lemma sublist_single {A} (x : A) l : In x l -> sublist [x] l.
Proof.
  induction l as [|a r IH]; [intros []|]. intros [->|H]; [apply sl_take; constructor|constructor; auto].
Qed.
(** a sublist of [l ++ [x]] either avoids the last element or ends with it *)
Lemma sublist_snoc_inv {A} (s l : list A) x :
  sublist s (l ++ [x]) -> sublist s l \/ exists s', s = s' ++ [x] /\ sublist s' l.
Proof.
  revert s. induction l as [|a r IH]; intros s H; cbn [app] in H.
  - inversion H; subst.
    + left. constructor.
    + inversion H2; subst. left. constructor.
    + inversion H2; subst. right. exists []. split; [reflexivity|constructor].
  - inversion H; subst.
    + left. constructor.
    + destruct (IH _ H2) as [H'|[s' [E H']]]; [left; constructor; exact H'|].
      right. exists s'. split; [exact E|constructor; exact H'].
    + destruct (IH _ H2) as [H'|[s' [E H']]]; [left; apply sl_take; exact H'|].
      right. exists (a :: s'). split; [rewrite E; reflexivity|apply sl_take; exact H'].
Qed.
Lemma sublist_map_inv {A B} (f : A -> B) (s : list B) (l : list A) :
  sublist s (map f l) -> exists s', sublist s' l /\ s = map f s'.
Proof.
  revert s. induction l as [|a r IH]; intros s H; cbn [map] in H.
  - inversion H; subst. exists []. split; [constructor|reflexivity].
  - inversion H; subst.
    + exists []. split; [constructor|reflexivity].
    + destruct (IH _ H2) as [s' [H1 E]]. exists s'. split; [constructor; exact H1|exact E].
    + destruct (IH _ H2) as [s' [H1 E]]. exists (a :: s'). split; [apply sl_take; exact H1|rewrite E; reflexivity].
Qed.
Lemma sublist_map {A B} (f : A -> B) (s l : list A) : sublist s l -> sublist (map f s) (map f l).
Proof. induction 1; cbn [map]; constructor; assumption. Qed.

(** ** boolean sequences: transitions true -> false *)
Fixpoint tf (bs : list bool) : nat :=
  match bs with
  | a :: ((b :: _) as r) => (if a && negb b then 1 else 0) + tf r
  | _ => 0
  end%nat.
Lemma tf_cons2 a b r : tf (a :: b :: r) = ((if a && negb b then 1 else 0) + tf (b :: r))%nat.
Proof. reflexivity. Qed.

Lemma tf_split bs : (1 <= tf bs)%nat ->
  exists x1 x2, bs = x1 ++ true :: false :: x2 /\ tf bs = (1 + tf (false :: x2))%nat.
Proof.
  induction bs as [|a r IH]; [cbn; lia|]. destruct r as [|b r']; [cbn; lia|].
  rewrite tf_cons2. destruct a, b; cbn [andb negb].
  - intro H. destruct (IH H) as [x1 [x2 [E T]]]. exists (true :: x1), x2. split; [rewrite E; reflexivity|cbn [plus]; lia].
  - intros _. exists [], r'. split; [reflexivity|lia].
  - intro H. destruct (IH H) as [x1 [x2 [E T]]]. exists (false :: x1), x2. split; [rewrite E; reflexivity|cbn [plus]; lia].
  - intro H. destruct (IH H) as [x1 [x2 [E T]]]. exists (false :: x1), x2. split; [rewrite E; reflexivity|cbn [plus]; lia].
Qed.

(** two transitions give an alternating subsequence of length four *)
Lemma tf2_alt bs : (2 <= tf bs)%nat -> sublist [true; false; true; false] bs.
Proof.
  intro H. destruct (tf_split bs) as [x1 [x2 [E T]]]; [lia|].
  destruct (tf_split (false :: x2)) as [y1 [y2 [E2 _]]]; [lia|].
  destruct y1 as [|y y1']; [discriminate|]. inversion E2; subst y x2. subst bs.
  apply sublist_app_l. apply sl_take. apply sl_take. apply sublist_app_l.
  apply sl_take. apply sl_take. constructor.
Qed.

Lemma tf_true_false r : In false r -> (1 <= tf (true :: r))%nat.
Proof.
  induction r as [|b r' IH]; [intros []|]. rewrite tf_cons2. destruct b; cbn [andb negb].
  - intros [H|H]; [discriminate|]. specialize (IH H). lia.
  - intros _. lia.
Qed.
Lemma tf_mono a r : (tf r <= tf (a :: r))%nat.
Proof. destruct r as [|b r']; [cbn; lia|]. rewrite tf_cons2. lia. Qed.
Lemma tf_sub bs : sublist [true; false] bs -> (1 <= tf bs)%nat.
Proof.
  induction bs as [|a r IH]; intro H; inversion H as [|s0 x0 l0 Hs|s0 x0 l0 Hs]; subst.
  - pose proof (tf_mono a r). specialize (IH Hs). lia.
  - apply tf_true_false. eapply sublist_in; [exact Hs|left; reflexivity].
Qed.
(** a closed sequence that takes both values has a transition *)
Lemma tf_closed_ge1 b0 br : In true (b0 :: br) -> In false (b0 :: br) -> (1 <= tf ((b0 :: br) ++ [b0]))%nat.
Proof.
  intros HT HF. apply tf_sub. destruct b0; cbn [app].
  - apply sl_take. apply sublist_single. apply in_or_app. left.
    destruct HF as [HF|HF]; [discriminate|exact HF].
  - constructor. destruct HT as [HT|HT]; [discriminate|].
    change [true; false] with ([true] ++ [false]). apply sublist_app2; [apply sublist_single; exact HT|apply sublist_refl].
Qed.
(** in a closed sequence two transitions give an alternating subsequence of the open one *)
Lemma tf_closed_alt b0 br : (2 <= tf ((b0 :: br) ++ [b0]))%nat ->
  sublist [true; false; true; false] (b0 :: br) \/ sublist [false; true; false; true] (b0 :: br).
Proof.
  intro H. apply tf2_alt in H. apply sublist_snoc_inv in H. destruct H as [H|[s' [E H]]]; [left; exact H|].
  right. assert (E' : s' = [true; false; true] /\ b0 = false).
  { destruct s' as [|a [|b [|c [|d s'']]]]; cbn in E; try discriminate.
    - inversion E; subst. split; reflexivity.
    - inversion E. destruct s''; discriminate. }
  destruct E' as [-> ->]. inversion H as [|s0 x0 l0 Hs|s0 x0 l0 Hs]; subst. apply sl_take. exact Hs.
Qed.

(** ** convex polygons *)
Definition convex_ccw (l : list pt) : Prop :=
  forall a b c, sublist [a; b; c] l -> 0 < orient a b c.

Lemma convex_ccw_shift r l : convex_ccw l -> convex_ccw (map (fun p => psub p r) l).
Proof.
  intros H a b c S. apply sublist_map_inv in S. destruct S as [s' [S E]].
  destruct s' as [|a' [|b' [|c' [|d' s'']]]]; try discriminate. inversion E; subst.
  rewrite orient_shift. apply H. exact S.
Qed.

(** the affine dependency of four points, applied to the height above a horizontal line *)
Lemma four_point_identity a b c d t :
  orient b c d * (py a - t) - orient a c d * (py b - t) + orient a b d * (py c - t) - orient a b c * (py d - t) == 0.
Proof. unfold orient. ring. Qed.

Lemma sub3_of4 {A} (a b c d : A) l : sublist [a; b; c; d] l ->
  sublist [a; b; c] l /\ sublist [a; b; d] l /\ sublist [a; c; d] l /\ sublist [b; c; d] l.
Proof.
  intro H. repeat split; (eapply sublist_trans; [|exact H]).
  - apply sl_take, sl_take, sl_take. constructor.
  - apply sl_take, sl_take, sl_skip, sl_take. constructor.
  - apply sl_take, sl_skip, sl_take, sl_take. constructor.
  - apply sl_skip, sl_take, sl_take, sl_take. constructor.
Qed.

(** no four vertices in list order alternate around a horizontal line *)
Lemma no_alternation l a b c d t : convex_ccw l -> sublist [a; b; c; d] l ->
  ~ (py a <= t /\ t < py b /\ py c <= t /\ t < py d) /\
  ~ (t < py a /\ py b <= t /\ t < py c /\ py d <= t).
Proof.
  intros H S. destruct (sub3_of4 _ _ _ _ _ S) as [S1 [S2 [S3 S4]]].
  pose proof (H _ _ _ S1) as O1. pose proof (H _ _ _ S2) as O2.
  pose proof (H _ _ _ S3) as O3. pose proof (H _ _ _ S4) as O4.
  pose proof (four_point_identity a b c d t) as I.
  set (o1 := orient a b c) in *. set (o2 := orient a b d) in *.
  set (o3 := orient a c d) in *. set (o4 := orient b c d) in *.
  split; intros [A [B [C D]]]; nra.
Qed.

Section Convex.
  Variable v : pt.
  Notation blw := (below v).

  Lemma below_true p : blw p = true <-> py p <= py v.
  Proof. unfold below. apply qle_spec. Qed.
  Lemma below_false p : blw p = false <-> py v < py p.
  Proof. unfold below. apply qle_false. Qed.

  (** edges going up through the line *)
  Definition up (e : pt * pt) : bool := blw (fst e) && negb (blw (snd e)).
  Lemma up_count c : length (filter up (pairs c)) = tf (map blw c).
  Proof.
    induction c as [|a r IH]; [reflexivity|]. destruct r as [|b r']; [reflexivity|].
    rewrite pairs_cons2. cbn [filter map]. change (map blw (b :: r')) with (blw b :: map blw r') in IH.
    rewrite tf_cons2. unfold up at 1. cbn [fst snd].
    destruct (blw a && negb (blw b)); cbn [length]; rewrite IH; reflexivity.
  Qed.

  Lemma alt_pattern l bs : sublist bs (map blw l) ->
    exists s, sublist s l /\ bs = map blw s.
  Proof. apply sublist_map_inv. Qed.

  (** the closed boundary of a convex polygon goes up through the line at most once *)
  Lemma convex_up_le1 p0 r : convex_ccw (p0 :: r) -> (tf (map blw ((p0 :: r) ++ [p0])) <= 1)%nat.
  Proof.
    intro H. destruct (le_lt_dec (tf (map blw ((p0 :: r) ++ [p0]))) 1) as [L|L]; [exact L|exfalso].
    rewrite map_app in L. cbn [map] in L.
    destruct (tf_closed_alt (blw p0) (map blw r) L) as [S|S];
      change (blw p0 :: map blw r) with (map blw (p0 :: r)) in S;
      apply sublist_map_inv in S; destruct S as [s [S E]];
      destruct s as [|a [|b [|c [|d [|e s']]]]]; try discriminate;
      inversion E as [[Ea Eb Ec Ed]];
      destruct (no_alternation _ _ _ _ _ (py v) H S) as [N1 N2].
    - apply N1. symmetry in Ea, Eb, Ec, Ed.
      apply below_true in Ea. apply below_false in Eb. apply below_true in Ec. apply below_false in Ed. tauto.
    - apply N2. symmetry in Ea, Eb, Ec, Ed.
      apply below_false in Ea. apply below_true in Eb. apply below_false in Ec. apply below_true in Ed. tauto.
  Qed.
End Convex.

(** ** the interior wedge at a vertex *)
Lemma wedge_identity pv m nx p :
  orient pv m nx * (py p - py m) == orient m nx p * (py pv - py m) + orient pv m p * (py nx - py m).
Proof. unfold orient. ring. Qed.

Lemma pairs_in_mid {A} (x y : list A) a b : In (a, b) (pairs (x ++ a :: b :: y)).
Proof.
  induction x as [|c x' IH]; cbn [app].
  - rewrite pairs_cons2. left; reflexivity.
  - destruct x' as [|d x'']; cbn [app] in *; rewrite pairs_cons2; right; exact IH.
Qed.

Lemma edges_mid (x y : list pt) a b : In (a, b) (edges (x ++ a :: b :: y)).
Proof.
  unfold edges. destruct x as [|h x'].
  - cbn [app]. rewrite pairs_cons2. left; reflexivity.
  - cbn [app]. replace (h :: (x' ++ a :: b :: y) ++ [h]) with ((h :: x') ++ a :: b :: (y ++ [h])).
    + apply pairs_in_mid.
    + cbn [app]. rewrite <- app_assoc. reflexivity.
Qed.
Lemma edges_wrap (mid : list pt) a b : In (b, a) (edges (a :: mid ++ [b])).
Proof.
  unfold edges. replace ((a :: mid ++ [b]) ++ [a]) with ((a :: mid) ++ b :: a :: []).
  - apply pairs_in_mid.
  - cbn [app]. rewrite <- app_assoc. reflexivity.
Qed.

(** every vertex of a convex polygon (at least 3 vertices) has a predecessor and a successor
    along the boundary, and the three make a left turn *)
Lemma cyclic_neighbours l m : (3 <= length l)%nat -> convex_ccw l -> In m l ->
  exists pv nx, In (pv, m) (edges l) /\ In (m, nx) (edges l) /\ 0 < orient pv m nx.
Proof.
  intros Hn Hc Hm. apply in_split in Hm. destruct Hm as [l1 [l2 E]].
  destruct l1 as [|f l1']; destruct l2 as [|nx l2'].
  - subst l. cbn in Hn. lia.
  - (* m first *)
    destruct l2' as [|g l2'']; [subst l; cbn in Hn; lia|].
    destruct (exists_last (l := g :: l2'')) as [l3 [pv E3]]; [discriminate|].
    assert (El : l = m :: (nx :: l3) ++ [pv]) by (rewrite E, E3; reflexivity).
    exists pv, nx. split; [rewrite El; apply edges_wrap|]. split.
    + rewrite El. apply (edges_mid [] (l3 ++ [pv])).
    + rewrite orient_rot. apply Hc. rewrite El. cbn [app]. apply sl_take, sl_take.
      apply sublist_app_l. apply sublist_refl.
  - (* m last *)
    destruct l1' as [|g l1'']; [subst l; cbn in Hn; lia|].
    destruct (exists_last (l := g :: l1'')) as [l3 [pv E3]]; [discriminate|].
    assert (El : l = f :: (l3 ++ [pv]) ++ [m]) by (rewrite E, E3; reflexivity).
    exists pv, f. split.
    + rewrite El. replace (f :: (l3 ++ [pv]) ++ [m]) with ((f :: l3) ++ pv :: m :: []).
      * apply edges_mid.
      * cbn [app]. rewrite <- app_assoc. reflexivity.
    + split; [rewrite El; apply edges_wrap|].
      rewrite <- orient_rot. apply Hc. rewrite El.
      apply sl_take. rewrite <- app_assoc. apply sublist_app_l. apply sublist_refl.
  - (* m in the middle *)
    destruct (exists_last (l := f :: l1')) as [l3 [pv E3]]; [discriminate|].
    assert (El : l = l3 ++ pv :: m :: nx :: l2') by (rewrite E, E3, <- app_assoc; reflexivity).
    exists pv, nx. split; [rewrite El; apply edges_mid|]. split.
    + rewrite El. replace (l3 ++ pv :: m :: nx :: l2') with ((l3 ++ [pv]) ++ m :: nx :: l2').
      * apply edges_mid.
      * rewrite <- app_assoc. reflexivity.
    + apply Hc. rewrite El. apply sublist_app_l. apply sl_take, sl_take, sl_take. constructor.
Qed.

(** highest and lowest vertices *)
Lemma argmax_y (l : list pt) : l <> [] -> exists m, In m l /\ forall c, In c l -> py c <= py m.
Proof.
  induction l as [|a r IH]; [congruence|]. intros _. destruct r as [|b r'].
  - exists a. split; [left; reflexivity|]. intros c [->|[]]. apply Qle_refl.
  - destruct IH as [m [Hm Hmax]]; [discriminate|].
    destruct (Qlt_le_dec (py m) (py a)) as [L|L].
    + exists a. split; [left; reflexivity|]. intros c [->|Hc]; [apply Qle_refl|].
      eapply Qle_trans; [apply Hmax; exact Hc|apply Qlt_le_weak; exact L].
    + exists m. split; [right; exact Hm|]. intros c [->|Hc]; [exact L|apply Hmax; exact Hc].
Qed.
Lemma argmin_y (l : list pt) : l <> [] -> exists m, In m l /\ forall c, In c l -> py m <= py c.
Proof.
  induction l as [|a r IH]; [congruence|]. intros _. destruct r as [|b r'].
  - exists a. split; [left; reflexivity|]. intros c [->|[]]. apply Qle_refl.
  - destruct IH as [m [Hm Hmin]]; [discriminate|].
    destruct (Qlt_le_dec (py a) (py m)) as [L|L].
    + exists a. split; [left; reflexivity|]. intros c [->|Hc]; [apply Qle_refl|].
      eapply Qle_trans; [apply Qlt_le_weak; exact L|apply Hmin; exact Hc].
    + exists m. split; [right; exact Hm|]. intros c [->|Hc]; [exact L|apply Hmin; exact Hc].
Qed.

Lemma edge_vertices (l : list pt) a b : In (a, b) (edges l) -> In a l /\ In b l.
Proof.
  unfold edges. destruct l as [|p0 r]; [intros []|]. intro H. apply pairs_in in H.
  destruct H as [Ha Hb]. split.
  - apply in_app_or in Ha. destruct Ha as [Ha|[<-|[]]]; [exact Ha|left; reflexivity].
  - apply in_app_or in Hb. destruct Hb as [Hb|[<-|[]]]; [exact Hb|left; reflexivity].
Qed.

Definition strictly_inside (l : list pt) (p : pt) : Prop :=
  forall a b, In (a, b) (edges l) -> 0 < orient a b p.

(** a point strictly inside a convex polygon has a vertex above it and a vertex at or below it *)
Lemma inside_between_vertices l p : (3 <= length l)%nat -> convex_ccw l -> strictly_inside l p ->
  (exists c, In c l /\ py p < py c) /\ (exists c, In c l /\ py c <= py p).
Proof.
  intros Hn Hc Hin. assert (Hne : l <> []) by (destruct l; [cbn in Hn; lia|discriminate]).
  split.
  - destruct (argmax_y l Hne) as [m [Hm Hmax]].
    destruct (Qlt_le_dec (py p) (py m)) as [L|L]; [exists m; split; assumption|exfalso].
    destruct (cyclic_neighbours l m Hn Hc Hm) as [pv [nx [E1 [E2 W]]]].
    pose proof (Hin _ _ E1) as A. pose proof (Hin _ _ E2) as B.
    pose proof (wedge_identity pv m nx p) as I.
    pose proof (Hmax pv (proj1 (edge_vertices _ _ _ E1))) as M1.
    pose proof (Hmax nx (proj2 (edge_vertices _ _ _ E2))) as M2.
    (* both sides of the identity vanish, so pv, m, nx are level: no left turn *)
    assert (Z1 : orient m nx p * (py pv - py m) <= 0) by nra.
    assert (Z2 : orient pv m p * (py nx - py m) <= 0) by nra.
    assert (Z0 : 0 <= orient pv m nx * (py p - py m)) by nra.
    assert (Y1 : py pv == py m) by nra.
    assert (Y2 : py nx == py m) by nra.
    assert (W0 : orient pv m nx == 0) by (unfold orient; rewrite Y1, Y2; ring).
    lra.
  - destruct (argmin_y l Hne) as [m [Hm Hmin]].
    destruct (Qlt_le_dec (py p) (py m)) as [L|L]; [exfalso|exists m; split; assumption].
    destruct (cyclic_neighbours l m Hn Hc Hm) as [pv [nx [E1 [E2 W]]]].
    pose proof (Hin _ _ E1) as A. pose proof (Hin _ _ E2) as B.
    pose proof (wedge_identity pv m nx p) as I.
    pose proof (Hmin pv (proj1 (edge_vertices _ _ _ E1))) as M1.
    pose proof (Hmin nx (proj2 (edge_vertices _ _ _ E2))) as M2.
    nra.
Qed.

(** ** every vertex is (weakly) to the left of every edge *)
Lemma pairs_in_split {A} (c : list A) a b : In (a, b) (pairs c) -> exists x y, c = x ++ a :: b :: y.
Proof.
  induction c as [|h r IH]; [intros []|]. destruct r as [|k r']; [intros []|].
  rewrite pairs_cons2. intros [E|H].
  - inversion E; subst. exists [], r'. reflexivity.
  - destruct (IH H) as [x [y E]]. exists (h :: x), y. rewrite E. reflexivity.
Qed.

Lemma exists_last_or_nil {A} (y : list A) : y = [] \/ exists y' z, y = y' ++ [z].
Proof.
  destruct y as [|h t]; [left; reflexivity|right].
  destruct (exists_last (l := h :: t)) as [y' [z E]]; [discriminate|]. exists y', z. exact E.
Qed.

Lemma edges_cases (l : list pt) a b : In (a, b) (edges l) ->
  (exists x y, l = x ++ a :: b :: y) \/ (exists mid, l = b :: mid ++ [a]) \/ (l = [a] /\ b = a).
Proof.
  unfold edges. destruct l as [|p0 r]; [intros []|]. intro H.
  apply pairs_in_split in H. destruct H as [x [y E]].
  destruct (exists_last_or_nil y) as [->|[y' [z ->]]].
  - (* the closing edge *)
    assert (E' : (p0 :: r) ++ [p0] = (x ++ [a]) ++ [b]) by (rewrite E, <- app_assoc; reflexivity).
    apply app_inj_tail in E'. destruct E' as [E1 E2]. subst b.
    destruct x as [|h x'].
    + cbn [app] in E1. inversion E1; subst. right; right. split; reflexivity.
    + cbn [app] in E1. inversion E1; subst. right; left. exists x'. reflexivity.
  - assert (E' : (p0 :: r) ++ [p0] = (x ++ a :: b :: y') ++ [z]).
    { rewrite E, <- app_assoc. reflexivity. }
    apply app_inj_tail in E'. destruct E' as [E1 _]. left. exists x, y'. exact E1.
Qed.

Lemma vertex_left_of_edge l a b c : convex_ccw l -> In (a, b) (edges l) -> In c l -> 0 <= orient a b c.
Proof.
  intros Hc He Hin. destruct (edges_cases l a b He) as [[x [y E]]|[[mid E]|[E Eb]]].
  - rewrite E in Hin. apply in_app_or in Hin. destruct Hin as [Hin|[<-|[<-|Hin]]].
    + apply Qlt_le_weak. rewrite <- orient_rot. apply Hc. rewrite E.
      change [c; a; b] with ([c] ++ [a; b]). apply sublist_app2; [apply sublist_single; exact Hin|].
      apply sl_take, sl_take. constructor.
    + rewrite orient_aa. apply Qle_refl.
    + rewrite orient_ab. apply Qle_refl.
    + apply Qlt_le_weak. apply Hc. rewrite E. apply sublist_app_l. apply sl_take, sl_take.
      apply sublist_single. exact Hin.
  - rewrite E in Hin. destruct Hin as [<-|Hin].
    + rewrite orient_ab. apply Qle_refl.
    + apply in_app_or in Hin. destruct Hin as [Hin|[<-|[]]].
      * apply Qlt_le_weak. rewrite orient_rot. apply Hc. rewrite E. apply sl_take.
        change [c; a] with ([c] ++ [a]). apply sublist_app2; [apply sublist_single; exact Hin|apply sublist_refl].
      * rewrite orient_aa. apply Qle_refl.
  - subst b. assert (Z : orient a a c == 0) by (unfold orient; ring). rewrite Z. apply Qle_refl.
Qed.

(** ** a straddling edge: parameter of the intersection point, and crossing by orientation *)
Lemma straddle_param v a b : straddles v a b = true ->
  exists t, 0 <= t /\ t <= 1 /\ t * (py b - py a) == py v - py a /\
            xcross v a b == px a + t * (px b - px a) /\ ~ py b - py a == 0.
Proof.
  intro H. unfold straddles in H.
  set (dy := py b - py a). set (n := py v - py a).
  assert (Hcase : (0 <= n /\ n < dy) \/ (dy <= n /\ n <= 0 /\ dy < 0)).
  { apply orb_true_iff in H. destruct H as [H|H]; apply andb_true_iff in H; destruct H as [A B];
      apply qle_spec in A; apply qlt_spec in B; unfold dy, n; [left|right]; repeat split; lra. }
  assert (Hdy : ~ dy == 0) by (destruct Hcase as [[? ?]|[? [? ?]]]; lra).
  exists (n / dy).
  assert (Ht : n / dy * dy == n) by (field; exact Hdy).
  split; [|split; [|split; [exact Ht|split; [|exact Hdy]]]].
  - destruct Hcase as [[A B]|[A [B C]]]; nra.
  - destruct Hcase as [[A B]|[A [B C]]]; nra.
  - unfold xcross, psub, px, py in *. cbn [fst snd]. fold dy n. unfold n, dy. field. exact Hdy.
Qed.

Lemma crossing_by_orientation v a b : straddles v a b = true ->
  (crossing v a b = true <->
   (below v a = true /\ 0 < orient a b v) \/ (below v a = false /\ orient a b v < 0)).
Proof.
  intro H. rewrite crossing_eq, H.
  destruct (straddle_param v a b H) as [t [T0 [T1 [Ht [Hx Hdy]]]]].
  rewrite qlt_spec, Hx.
  assert (E : orient a b v == (py b - py a) * (px a + t * (px b - px a) - px v)).
  { unfold orient. rewrite <- Ht. ring. }
  rewrite E. rewrite straddles_xor in H.
  destruct (below v a) eqn:Ba; destruct (below v b) eqn:Bb; try discriminate.
  - apply below_true in Ba. apply below_false in Bb.
    split; [intro L; left; split; [reflexivity|nra]|intros [[_ L]|[D _]]; [nra|discriminate]].
  - apply below_false in Ba. apply below_true in Bb.
    split; [intro L; right; split; [reflexivity|nra]|intros [[D _]|[_ L]]; [discriminate|nra]].
Qed.

(** ** strictly inside => odd crossing count *)
Lemma inside_crossing_is_up l v : strictly_inside l v ->
  forall e, In e (edges l) -> crossing v (fst e) (snd e) = up v e.
Proof.
  intros Hin [a b] He. cbn [fst snd]. unfold up. cbn [fst snd].
  pose proof (Hin a b He) as O.
  destruct (straddles v a b) eqn:S.
  - pose proof (crossing_by_orientation v a b S) as C. rewrite straddles_xor in S.
    destruct (below v a) eqn:Ba; destruct (below v b) eqn:Bb; try discriminate; cbn [andb negb].
    + apply C. left. split; [reflexivity|exact O].
    + destruct (crossing v a b) eqn:Cr; [|reflexivity].
      destruct (proj1 C eq_refl) as [[D _]|[_ L]]; [discriminate|lra].
  - rewrite crossing_eq, S. rewrite straddles_xor in S.
    destruct (below v a), (below v b); try discriminate; reflexivity.
Qed.

Lemma convex_inside_odd l v : (3 <= length l)%nat -> convex_ccw l -> strictly_inside l v ->
  Nat.odd (count_crossings v (edges l)) = true.
Proof.
  intros Hn Hc Hin. rewrite count_crossings_filter.
  rewrite (filter_ext_in _ _ _ (inside_crossing_is_up l v Hin)).
  destruct l as [|p0 r]; [cbn in Hn; lia|]. unfold edges. rewrite up_count.
  pose proof (convex_up_le1 v p0 r Hc) as U1.
  destruct (inside_between_vertices _ _ Hn Hc Hin) as [[c1 [I1 Y1]] [c2 [I2 Y2]]].
  assert (U0 : (1 <= tf (map (below v) ((p0 :: r) ++ [p0])))%nat).
  { rewrite map_app. cbn [map]. apply tf_closed_ge1.
    - change (below v p0 :: map (below v) r) with (map (below v) (p0 :: r)).
      apply in_map_iff. exists c2. split; [apply below_true; exact Y2|exact I2].
    - change (below v p0 :: map (below v) r) with (map (below v) (p0 :: r)).
      apply in_map_iff. exists c1. split; [apply below_false; exact Y1|exact I1]. }
  replace (tf (map (below v) ((p0 :: r) ++ [p0]))) with 1%nat by lia. reflexivity.
Qed.

(** ** odd crossing count => (weakly) inside *)
(** an odd count on a closed boundary yields an edge crossed to the right of the point and a
    straddling edge crossed at or to the left of it *)
Lemma odd_two_edges l v : Nat.odd (count_crossings v (edges l)) = true ->
  (exists a b, In (a, b) (edges l) /\ straddles v a b = true /\ px v < xcross v a b) /\
  (exists a b, In (a, b) (edges l) /\ straddles v a b = true /\ xcross v a b <= px v).
Proof.
  destruct l as [|p0 r]; [discriminate|]. unfold edges. set (es := pairs ((p0 :: r) ++ [p0])).
  intro Hodd. rewrite count_crossings_filter in Hodd.
  assert (Heven := closed_chain_even v p0 r). fold es in Heven. rewrite nstr_split in Heven.
  set (nc := length (filter (fun e => crossing v (fst e) (snd e)) es)) in *.
  set (ns := length (filter (fun e => straddles v (fst e) (snd e) && negb (crossing v (fst e) (snd e))) es)) in *.
  assert (Hnc : (0 < nc)%nat) by (destruct nc; [discriminate|lia]).
  assert (Hns : (0 < ns)%nat).
  { destruct ns; [|lia]. rewrite Nat.add_0_r in Heven. congruence. }
  apply filter_nonempty in Hnc. destruct Hnc as [[a b] [Hin1 Hc1]]. cbn [fst snd] in Hc1.
  apply filter_nonempty in Hns. destruct Hns as [[c d] [Hin2 Hc2]]. cbn [fst snd] in Hc2.
  split.
  - exists a, b. pose proof (crossing_straddles _ _ _ Hc1) as S.
    rewrite crossing_eq, S in Hc1. apply qlt_spec in Hc1. auto.
  - exists c, d. apply andb_true_iff in Hc2. destruct Hc2 as [S N]. apply negb_true_iff in N.
    rewrite crossing_eq, S in N. apply qlt_false in N. auto.
Qed.

(** an affine function that is non-negative at both ends of a straddling edge is non-negative
    where the edge meets the horizontal line *)
Lemma orient_at_crossing v a b u w : straddles v a b = true ->
  0 <= orient u w a -> 0 <= orient u w b -> 0 <= orient u w (xcross v a b, py v).
Proof.
  intros S Oa Ob. destruct (straddle_param v a b S) as [t [T0 [T1 [Ht [Hx _]]]]].
  assert (E : orient u w (xcross v a b, py v) == (1 - t) * orient u w a + t * orient u w b).
  { unfold orient. change (px (xcross v a b, py v)) with (xcross v a b).
    change (py (xcross v a b, py v)) with (py v). rewrite Hx.
    assert (Ey : py v == py a + t * (py b - py a)) by lra. rewrite Ey. ring. }
  rewrite E. nra.
Qed.

Lemma convex_odd_inside l v : convex_ccw l -> Nat.odd (count_crossings v (edges l)) = true ->
  forall u w, In (u, w) (edges l) -> 0 <= orient u w v.
Proof.
  intros Hc Hodd u w He.
  destruct (odd_two_edges l v Hodd) as [[a1 [b1 [I1 [S1 X1]]]] [a2 [b2 [I2 [S2 X2]]]]].
  destruct (edge_vertices _ _ _ I1) as [Va1 Vb1]. destruct (edge_vertices _ _ _ I2) as [Va2 Vb2].
  pose proof (orient_at_crossing v a1 b1 u w S1 (vertex_left_of_edge _ _ _ _ Hc He Va1)
                                 (vertex_left_of_edge _ _ _ _ Hc He Vb1)) as F1.
  pose proof (orient_at_crossing v a2 b2 u w S2 (vertex_left_of_edge _ _ _ _ Hc He Va2)
                                 (vertex_left_of_edge _ _ _ _ Hc He Vb2)) as F2.
  unfold orient in *.
  change (px (xcross v a1 b1, py v)) with (xcross v a1 b1) in F1. change (py (xcross v a1 b1, py v)) with (py v) in F1.
  change (px (xcross v a2 b2, py v)) with (xcross v a2 b2) in F2. change (py (xcross v a2 b2, py v)) with (py v) in F2.
  set (x1 := xcross v a1 b1) in *. set (x2 := xcross v a2 b2) in *.
  destruct (Qlt_le_dec (py w - py u) 0) as [L|L]; nra.
Qed.

(** ** the theorem *)
Definition off_edge_lines (l : list pt) (p : pt) : Prop :=
  forall a b, In (a, b) (edges l) -> ~ orient a b p == 0.

Lemma edges_map_shift r l :
  map (fun e => (psub (fst e) r, psub (snd e) r)) (edges l) = edges (map (fun p => psub p r) l).
Proof.
  unfold edges. destruct l as [|p0 t]; [reflexivity|]. cbn [map].
  rewrite <- (pairs_map (fun p => psub p r)). rewrite map_app. reflexivity.
Qed.

Lemma in_polygon_count pos l :
  in_polygon pos l = match l with
                     | [] => false
                     | r :: _ => Nat.odd (count_crossings (psub pos r) (edges (map (fun p => psub p r) l)))
                     end.
Proof. unfold in_polygon. destruct l as [|r t]; [reflexivity|]. rewrite edges_map_shift. reflexivity. Qed.

Lemma shifted_edge r l a b : In (a, b) (edges (map (fun p => psub p r) l)) ->
  exists a' b', In (a', b') (edges l) /\ a = psub a' r /\ b = psub b' r.
Proof.
  rewrite <- edges_map_shift. intro H. apply in_map_iff in H. destruct H as [[a' b'] [E H]].
  cbn [fst snd] in E. inversion E; subst. exists a', b'. auto.
Qed.

Lemma in_polygon_convex_l l pos :
  (3 <= length l)%nat -> convex_ccw l -> off_edge_lines l pos ->
  (in_polygon pos l = true <-> strictly_inside l pos).
Proof.
  intros Hn Hc Hoff. rewrite in_polygon_count. destruct l as [|r t]; [cbn in Hn; lia|].
  pose proof (convex_ccw_shift r _ Hc) as Hc'.
  split.
  - intros Hodd a b He.
    assert (He' : In (psub a r, psub b r) (edges (map (fun p => psub p r) (r :: t)))).
    { rewrite <- edges_map_shift. apply in_map_iff. exists (a, b). split; [reflexivity|exact He]. }
    pose proof (convex_odd_inside _ (psub pos r) Hc' Hodd _ _ He') as O.
    rewrite orient_shift in O.
    pose proof (Hoff a b He) as N. destruct (Qlt_le_dec 0 (orient a b pos)) as [L|L]; [exact L|].
    exfalso. apply N. apply Qle_antisym; assumption.
  - intro Hin. apply convex_inside_odd.
    + rewrite map_length. exact Hn.
    + exact Hc'.
    + intros a b He. apply shifted_edge in He. destruct He as [a' [b' [He [-> ->]]]].
      rewrite orient_shift. apply Hin. exact He.
Qed.

(** ** a decision procedure for [convex_ccw] (used for examples) *)
Fixpoint all_pairs_after (f : pt -> pt -> bool) (l : list pt) : bool :=
  match l with [] => true | b :: r => forallb (f b) r && all_pairs_after f r end.
Fixpoint ccw_check (l : list pt) : bool :=
  match l with
  | [] => true
  | a :: r => all_pairs_after (fun b c => qlt 0 (orient a b c)) r && ccw_check r
  end.
Lemma all_pairs_after_ok f l b c : all_pairs_after f l = true -> sublist [b; c] l -> f b c = true.
Proof.
  induction l as [|x r IH]; intros H S; inversion S as [|s0 x0 l0 Hs|s0 x0 l0 Hs]; subst;
    cbn [all_pairs_after] in H; apply andb_true_iff in H; destruct H as [H1 H2].
  - apply IH; assumption.
  - rewrite forallb_forall in H1. apply H1. eapply sublist_in; [exact Hs|left; reflexivity].
Qed.
Lemma ccw_check_ok l : ccw_check l = true -> convex_ccw l.
Proof.
  induction l as [|x r IH]; intros H a b c S; inversion S as [|s0 x0 l0 Hs|s0 x0 l0 Hs]; subst;
    cbn [ccw_check] in H; apply andb_true_iff in H; destruct H as [H1 H2].
  - apply IH; assumption.
  - apply qlt_spec. apply (all_pairs_after_ok _ _ _ _ H1 Hs).
Qed.

(** a hexagon, and a rectangle in PyTOUGH's vertex order *)
Definition ex_hexagon : list pt := [(2, 0); (4, 1); (4, 3); (2, 4); (0, 3); (0, 1)].
Lemma ex_hexagon_convex : (3 <= length ex_hexagon)%nat /\ convex_ccw ex_hexagon /\ off_edge_lines ex_hexagon (2, 2) /\
                          in_polygon (2, 2) ex_hexagon = true.
Proof.
  split; [cbn; lia|]. split; [apply ccw_check_ok; vm_compute; reflexivity|]. split; [|vm_compute; reflexivity].
  intros a b H. cbn in H.
  repeat (destruct H as [H|H]; [inversion H; subst; vm_compute; discriminate|]). destruct H.
Qed.
Lemma rectangle_convex x0 y0 x1 y1 : x0 < x1 -> y0 < y1 -> convex_ccw [(x1, y0); (x1, y1); (x0, y1); (x0, y0)].
Proof.
  intros Hx Hy. apply ccw_check_ok. cbn [ccw_check all_pairs_after forallb andb].
  unfold orient, px, py; cbn [fst snd].
  repeat (apply andb_true_iff; split); try reflexivity; apply qlt_spec; nra.
Qed.
