(** C12 -- [column_track]: the assembly of the track from per-column data (selection of the
    columns, pairing of entry and exit points, dropping of short clips, ordering), and the
    telescoping of segment lengths. *)
From Coq Require Import List Bool Arith ZArith PArith QArith Qabs Lia Lqa Sorted Permutation.
From Gen Require Import GenGeom.
From P Require Import Locate LocBasics.
Import ListNotations.
Open Scope Q_scope.

Section TrackFacts.
  Variable polygon : positive -> list pt.
  Variable lir : positive -> bool.
  Variable inters : positive -> list pt.
  Variable tdist : pt -> Q.
  Variable maxside : positive -> Q.
  Variable tol : Q.
  Variables l0 l1 : pt.

  Notation contains c p := (contains_point polygon c p).
  Notation step := (track_step polygon lir inters tdist maxside tol l0 l1).
  Notation keyed := (track_keyed polygon lir inters tdist maxside tol l0 l1).
  Notation track := (column_track polygon lir inters tdist maxside tol l0 l1).
  Notation init := (mkT None None [] false).

  (** what an entry of the track satisfies *)
  Definition entry_ok (all : list positive) (x : Q * seg) : Prop :=
    let d := fst x in let c := seg_col (snd x) in
    let pin := seg_in (snd x) in let pout := seg_out (snd x) in
    In c all /\ lir c = true /\
    ((d = 0 /\ pin = l0 /\ pout = l1 /\ contains c l0 = true /\ contains c l1 = true) \/
     (d = tdist pin /\ maxside c * tol < Qabs (tdist pout - tdist pin) /\
      exists p0 prest, inters c = p0 :: prest /\
        ((pin = l0 /\ contains c l0 = true) \/ pin = p0) /\
        ((pout = l1 /\ contains c l1 = true) \/ pout = last prest p0))).

  Definition st_inv (all : list positive) (st : tstate) : Prop :=
    (forall x, t_start st = Some x -> contains x l0 = true) /\
    (forall x, t_end st = Some x -> contains x l1 = true) /\
    (forall e, In e (t_track st) -> entry_ok all e).

  Lemma opt_is_true c o : opt_is c o = true -> o = Some c.
  Proof. destruct o as [d|]; cbn [opt_is]; [|discriminate]. intro H. apply Pos.eqb_eq in H. congruence. Qed.

  (** one column of the loop; [s], [e] are start_col / end_col after the two [contains_point] tests *)
  Definition new_start (st : tstate) (col : positive) : option positive :=
    match t_start st with None => if contains col l0 then Some col else None | Some x => Some x end.
  Definition new_end (st : tstate) (col : positive) : option positive :=
    match t_end st with None => if contains col l1 then Some col else None | Some x => Some x end.

  (** the entry / exit points used for a column with intersections *)
  Definition pin_of (st : tstate) (col : positive) (p0 : pt) : pt :=
    if opt_is col (new_start st col) then l0 else p0.
  Definition pout_of (st : tstate) (col : positive) (plast : pt) : pt :=
    if opt_is col (new_start st col) then plast
    else if opt_is col (new_end st col) then l1 else plast.

  (** complete case analysis of one step of the loop: a column whose bounding box the
      line meets and that has intersection points is left out only when its clip is at most
      [tol] x its longest side *)
  Lemma track_step_cases st col :
    t_stop st = false -> lir col = true ->
    let st' := step st col in
    t_start st' = new_start st col /\ t_end st' = new_end st col /\
    ((opt_is col (new_start st col) && opt_eq (new_start st col) (new_end st col) = true /\
      t_stop st' = true /\ t_track st' = t_track st ++ [(0, (col, l0, l1))]) \/
     (opt_is col (new_start st col) && opt_eq (new_start st col) (new_end st col) = false /\
      t_stop st' = false /\
      ((inters col = [] /\ t_track st' = t_track st) \/
       exists p0 prest, inters col = p0 :: prest /\
         let pin := pin_of st col p0 in let pout := pout_of st col (last prest p0) in
         ((maxside col * tol < Qabs (tdist pout - tdist pin) /\
           t_track st' = t_track st ++ [(tdist pin, (col, pin, pout))]) \/
          (Qabs (tdist pout - tdist pin) <= maxside col * tol /\ t_track st' = t_track st))))).
  Proof.
    intros Hs Hl. unfold Locate.track_step. rewrite Hs, Hl.
    fold (new_start st col) (new_end st col).
    destruct (opt_is col (new_start st col) && opt_eq (new_start st col) (new_end st col)) eqn:E1.
    - cbn [t_start t_end t_stop t_track]. split; [reflexivity|]. split; [reflexivity|]. left. repeat split.
    - destruct (inters col) as [|p0 prest] eqn:Ei.
      + cbn [t_start t_end t_stop t_track]. split; [reflexivity|]. split; [reflexivity|]. right.
        split; [reflexivity|]. split; [reflexivity|]. left. split; reflexivity.
      + unfold pin_of, pout_of.
        destruct (opt_is col (new_start st col)) eqn:Os.
        * destruct (qlt (maxside col * tol) (Qabs (tdist (last prest p0) - tdist l0))) eqn:Eq;
            cbn [t_start t_end t_stop t_track]; (split; [reflexivity|]); (split; [reflexivity|]); right;
            (split; [reflexivity|]); (split; [reflexivity|]); right; exists p0, prest; (split; [reflexivity|]); cbn zeta.
          -- left. split; [apply qlt_spec; exact Eq|reflexivity].
          -- right. split; [apply qlt_false; exact Eq|reflexivity].
        * destruct (opt_is col (new_end st col)) eqn:Oe.
          -- destruct (qlt (maxside col * tol) (Qabs (tdist l1 - tdist p0))) eqn:Eq;
               cbn [t_start t_end t_stop t_track]; (split; [reflexivity|]); (split; [reflexivity|]); right;
               (split; [reflexivity|]); (split; [reflexivity|]); right; exists p0, prest; (split; [reflexivity|]); cbn zeta.
             ++ left. split; [apply qlt_spec; exact Eq|reflexivity].
             ++ right. split; [apply qlt_false; exact Eq|reflexivity].
          -- destruct (qlt (maxside col * tol) (Qabs (tdist (last prest p0) - tdist p0))) eqn:Eq;
               cbn [t_start t_end t_stop t_track]; (split; [reflexivity|]); (split; [reflexivity|]); right;
               (split; [reflexivity|]); (split; [reflexivity|]); right; exists p0, prest; (split; [reflexivity|]); cbn zeta.
             ++ left. split; [apply qlt_spec; exact Eq|reflexivity].
             ++ right. split; [apply qlt_false; exact Eq|reflexivity].
  Qed.

  Lemma new_start_inv st col x :
    (forall y, t_start st = Some y -> contains y l0 = true) -> new_start st col = Some x -> contains x l0 = true.
  Proof.
    intros H. unfold new_start. destruct (t_start st) as [y|]; [intro E; apply H; exact E|].
    destruct (contains col l0) eqn:Ec; [intro E; inversion E; subst; exact Ec|discriminate].
  Qed.
  Lemma new_end_inv st col x :
    (forall y, t_end st = Some y -> contains y l1 = true) -> new_end st col = Some x -> contains x l1 = true.
  Proof.
    intros H. unfold new_end. destruct (t_end st) as [y|]; [intro E; apply H; exact E|].
    destruct (contains col l1) eqn:Ec; [intro E; inversion E; subst; exact Ec|discriminate].
  Qed.

  Lemma step_inv all st col : In col all -> st_inv all st -> st_inv all (step st col).
  Proof.
    intros Hin [I1 [I2 I3]].
    destruct (t_stop st) eqn:Hs.
    { unfold Locate.track_step. rewrite Hs. exact (conj I1 (conj I2 I3)). }
    destruct (lir col) eqn:Hl.
    2:{ unfold Locate.track_step. rewrite Hs, Hl. exact (conj I1 (conj I2 I3)). }
    destruct (track_step_cases st col Hs Hl) as [Es [Ee Hc]].
    split; [rewrite Es; intros x; apply new_start_inv; exact I1|].
    split; [rewrite Ee; intros x; apply new_end_inv; exact I2|].
    destruct Hc as [[Hc [_ Ht]]|[Hc [_ [[_ Ht]|[p0 [prest [Ei Hd]]]]]]].
    - rewrite Ht. intros e He. apply in_app_or in He. destruct He as [He|[<-|[]]]; [apply I3; exact He|].
      apply andb_true_iff in Hc. destruct Hc as [H1 H2]. apply opt_is_true in H1.
      assert (H3 : new_end st col = Some col).
      { rewrite H1 in H2. destruct (new_end st col) as [y|]; cbn [opt_eq] in H2; [|discriminate].
        apply Pos.eqb_eq in H2. congruence. }
      unfold entry_ok; cbn [fst snd seg_col seg_in seg_out]. repeat split; auto. left.
      repeat split; [eapply new_start_inv; eauto|eapply new_end_inv; eauto].
    - rewrite Ht. exact I3.
    - cbn zeta in Hd. destruct Hd as [[Hlt Ht]|[_ Ht]]; [|rewrite Ht; exact I3].
      rewrite Ht. intros e He. apply in_app_or in He. destruct He as [He|[<-|[]]]; [apply I3; exact He|].
      unfold entry_ok; cbn [fst snd seg_col seg_in seg_out]. repeat split; auto. right.
      split; [reflexivity|]. split; [exact Hlt|]. exists p0, prest. split; [exact Ei|].
      unfold pin_of, pout_of.
      destruct (opt_is col (new_start st col)) eqn:Os.
      + apply opt_is_true in Os. split; [left; split; [reflexivity|eapply new_start_inv; eauto]|right; reflexivity].
      + destruct (opt_is col (new_end st col)) eqn:Oe.
        * apply opt_is_true in Oe. split; [right; reflexivity|left; split; [reflexivity|eapply new_end_inv; eauto]].
        * split; right; reflexivity.
  Qed.

  Lemma fold_inv all cols : forall st, incl cols all -> st_inv all st -> st_inv all (fold_left step cols st).
  Proof.
    induction cols as [|c r IH]; intros st Hi Hv; cbn [fold_left]; [exact Hv|].
    apply IH; [intros x Hx; apply Hi; right; exact Hx|].
    apply step_inv; [apply Hi; left; reflexivity|exact Hv].
  Qed.

  (** every entry of the (keyed) track is a column of the list whose bounding box the line
      meets, with entry/exit points taken from the line's end points or the column's first/last
      intersection points, and longer than the relative tolerance (or the single column holding
      the whole line) *)
  Lemma track_keyed_entries cols e : In e (keyed cols) -> entry_ok cols e.
  Proof.
    unfold Locate.track_keyed. intro H. apply sort_by_in in H.
    destruct (fold_inv cols cols init (incl_refl _)) as [_ [_ I3]]; [|apply I3; exact H].
    split; [|split]; cbn [t_start t_end t_track]; [discriminate|discriminate|intros x []].
  Qed.

  (** the track is ordered by distance of the entry point from the start of the line *)
  Lemma track_keyed_sorted cols : Sorted (fun a b : Q * seg => fst a <= fst b) (keyed cols).
  Proof. unfold Locate.track_keyed. apply (sort_by_sorted (@fst Q seg)). Qed.

  (** sorting neither loses nor invents segments *)
  Lemma track_perm cols :
    Permutation (map snd (t_track (fold_left step cols init))) (track cols).
  Proof. unfold Locate.column_track, Locate.track_keyed. apply Permutation_map. apply sort_by_perm. Qed.

  Lemma track_entries cols s :
    In s (track cols) -> exists d, In (d, s) (keyed cols) /\ entry_ok cols (d, s).
  Proof.
    unfold Locate.column_track. intro H. apply in_map_iff in H. destruct H as [[d s'] [E H]].
    cbn [snd] in E. subst s'. exists d. split; [exact H|apply track_keyed_entries; exact H].
  Qed.

  (** ** telescoping of the segment lengths *)
  Definition seg_len (s : seg) : Q := tdist (seg_out s) - tdist (seg_in s).
  Fixpoint sum_len (l : list seg) : Q :=
    match l with [] => 0 | s :: r => seg_len s + sum_len r end.
  (** distance along the line between the exit of one segment and the entry of the next *)
  Fixpoint sum_gaps (l : list seg) : Q :=
    match l with
    | a :: ((b :: _) as r) => (tdist (seg_in b) - tdist (seg_out a)) + sum_gaps r
    | _ => 0
    end.
  Definition abut (l : list seg) : Prop :=
    forall a b, In (a, b) (pairs l) -> seg_out a = seg_in b.

  Lemma last_cons_nd {A} (r : list A) : forall b a, last (b :: r) a = last r b.
  Proof.
    induction r as [|c r' IH]; intros b a; [reflexivity|].
    change (last (b :: c :: r') a) with (last (c :: r') a).
    rewrite (IH c a), (IH c b). reflexivity.
  Qed.

  (** in general: lengths + gaps = distance from the first entry to the last exit *)
  Lemma telescope_general a l :
    sum_len (a :: l) + sum_gaps (a :: l) == tdist (seg_out (last l a)) - tdist (seg_in a).
  Proof.
    revert a. induction l as [|b r IH]; intro a.
    - cbn [sum_len sum_gaps last]. unfold seg_len. ring.
    - specialize (IH b).
      change (sum_len (a :: b :: r)) with (seg_len a + sum_len (b :: r)).
      change (sum_gaps (a :: b :: r)) with ((tdist (seg_in b) - tdist (seg_out a)) + sum_gaps (b :: r)).
      rewrite (last_cons_nd r b a).
      cbn [sum_len] in *. unfold seg_len in *.
      set (G := sum_gaps (b :: r)) in *. set (S := sum_len r) in *. lra.
  Qed.

  Lemma abut_gaps l : abut l -> sum_gaps l == 0.
  Proof.
    induction l as [|a r IH]; intro H; [reflexivity|].
    destruct r as [|b r']; [reflexivity|].
    change (sum_gaps (a :: b :: r')) with ((tdist (seg_in b) - tdist (seg_out a)) + sum_gaps (b :: r')).
    rewrite IH.
    - rewrite (H a b); [ring|left; reflexivity].
    - intros x y Hxy. apply H. right. exact Hxy.
  Qed.

  (** consecutive segments abut => the lengths add up to the distance between the first
      entry point and the last exit point *)
  Lemma telescope_abut a l :
    abut (a :: l) -> sum_len (a :: l) == tdist (seg_out (last l a)) - tdist (seg_in a).
  Proof.
    intro H. rewrite <- telescope_general. rewrite (abut_gaps _ H). ring.
  Qed.

  (** when the gaps (dropped clips) are each bounded, so is the missing length *)
  Fixpoint gap_list (l : list seg) : list Q :=
    match l with
    | a :: ((b :: _) as r) => (tdist (seg_in b) - tdist (seg_out a)) :: gap_list r
    | _ => []
    end.
  Lemma sum_gaps_bound l B :
    (forall g, In g (gap_list l) -> g <= B) -> sum_gaps l <= inject_Z (Z.of_nat (length (gap_list l))) * B.
  Proof.
    induction l as [|a r IH]; intro H.
    { cbn [sum_gaps gap_list length Z.of_nat]. change (inject_Z 0) with 0. lra. }
    destruct r as [|b r'].
    { cbn [sum_gaps gap_list length Z.of_nat]. change (inject_Z 0) with 0. lra. }
    change (sum_gaps (a :: b :: r')) with ((tdist (seg_in b) - tdist (seg_out a)) + sum_gaps (b :: r')).
    change (gap_list (a :: b :: r')) with ((tdist (seg_in b) - tdist (seg_out a)) :: gap_list (b :: r')) in *.
    cbn [length]. rewrite Nat2Z.inj_succ. unfold Z.succ. rewrite inject_Z_plus.
    assert (H1 : tdist (seg_in b) - tdist (seg_out a) <= B) by (apply H; left; reflexivity).
    assert (H2 := IH (fun g Hg => H g (or_intror Hg))).
    change (inject_Z 1) with 1. lra.
  Qed.
End TrackFacts.
