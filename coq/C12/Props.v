(** C12 -- property theorems only.  Each is closed by [exact] of a lemma proved in the other
    files of this directory and followed by Print Assumptions.

    Model: Locate.v (exact-rational transcription of geometry.py / mulgrids.py location code);
    the constants [track_tol], [sub_rect_factor], [quadtree_split_threshold] and the absence
    of the in_polygon tolerance guard come from Gen/GenGeom.v, regenerated from the source on
    every run.  "contains" below always means the model's own [contains_point]
    (= [in_polygon], the crossing count with the half-open rule). *)
From Coq Require Import List Bool Arith ZArith PArith QArith Qabs Sorted Permutation.
From Gen Require Import GenGeom.
From P Require Import Locate LocBasics LocSearch LocPolygon LocBlock LocTrack LocRefuted LocMain.
Import ListNotations.
Open Scope Q_scope.

Notation colfun A := (positive -> A) (only parsing).

(** ** constants read from the source *)
Theorem sub_rect_factor_half : GenGeom.sub_rect_factor = (1 # 2)%Q.
Proof. exact sub_rect_factor_is_half. Qed.
Print Assumptions sub_rect_factor_half.
Theorem in_polygon_has_no_tolerance_guard : GenGeom.in_polygon_has_guard = false.
Proof. exact in_polygon_guard_absent. Qed.
Print Assumptions in_polygon_has_no_tolerance_guard.

(** ** rectangles *)
Theorem in_rectangle_spec : forall pos r,
  in_rectangle pos r = true <->
  (px (fst r) <= px pos /\ px pos <= px (snd r)) /\ (py (fst r) <= py pos /\ py pos <= py (snd r)).
Proof. exact in_rectangle_spec_l. Qed.
Print Assumptions in_rectangle_spec.
Theorem rectangles_intersect_spec : forall r1 r2,
  wf_rect r1 -> wf_rect r2 ->
  (rectangles_intersect r1 r2 = true <-> exists p, In_rect p r1 /\ In_rect p r2).
Proof. exact rectangles_intersect_common_point. Qed.
Print Assumptions rectangles_intersect_spec.
Example rectangles_intersect_spec_ex : wf_rect ((0, 0), (1, 1)) /\ wf_rect ((1, 1), (2, 3)).
Proof. repeat split; vm_compute; discriminate. Qed.
(** every point of a rectangle lies in one of its four sub-rectangles (the quadtree takes the first) *)
Theorem sub_rectangles_cover : forall r p,
  In_rect p r -> exists r', In r' (sub_rectangles r) /\ In_rect p r'.
Proof. exact sub_rectangles_cover_l. Qed.
Print Assumptions sub_rectangles_cover.
Theorem sub_rectangles_within : forall r r' p,
  wf_rect r -> In r' (sub_rectangles r) -> In_rect p r' -> In_rect p r.
Proof. exact sub_rectangles_inside. Qed.
Print Assumptions sub_rectangles_within.

(** ** in_polygon *)
(** a point the crossing count puts inside lies in the polygon's bounding box: the
    [near_point] pre-filter of every search never discards the containing column *)
Theorem in_polygon_in_bounding_box : forall pos poly,
  in_polygon pos poly = true -> in_rectangle pos (bounds_of_points poly) = true.
Proof. exact in_polygon_in_bounds. Qed.
Print Assumptions in_polygon_in_bounding_box.
(** DESIGN's [in_polygon_convex], proved for the columns of rectangular geometries only:
    with PyTOUGH's vertex order the crossing count is the half-open box test *)
Theorem in_polygon_convex_partial : forall x0 y0 x1 y1 pos,
  x0 < x1 -> y0 < y1 ->
  in_polygon pos [(x1, y0); (x1, y1); (x0, y1); (x0, y0)] =
  (qle x0 (px pos) && qlt (px pos) x1) && (qle y0 (py pos) && qlt (py pos) y1).
Proof. exact in_polygon_rectangle. Qed.
Print Assumptions in_polygon_convex_partial.
Theorem rectangular_columns_tile : forall xa0 ya0 xa1 ya1 xb0 yb0 xb1 yb1 pos,
  xa0 < xa1 -> ya0 < ya1 -> xb0 < xb1 -> yb0 < yb1 ->
  (xa1 <= xb0 \/ xb1 <= xa0 \/ ya1 <= yb0 \/ yb1 <= ya0) ->
  in_polygon pos [(xa1, ya0); (xa1, ya1); (xa0, ya1); (xa0, ya0)] = true ->
  in_polygon pos [(xb1, yb0); (xb1, yb1); (xb0, yb1); (xb0, yb0)] = true -> False.
Proof. exact rectangle_columns_disjoint. Qed.
Print Assumptions rectangular_columns_tile.

(** ** quadtree *)
(** the node [leaf] returns is a node of the tree, its rectangle contains the point and
    none of its children's rectangles does *)
Theorem quadtree_leaf_contains : forall t pos l,
  leaf t pos = Some l ->
  subtree l t /\ in_rectangle pos (qbounds l) = true /\
  (forall c, In c (qchildren l) -> in_rectangle pos (qbounds c) = false).
Proof. exact leaf_spec. Qed.
Print Assumptions quadtree_leaf_contains.
Theorem quadtree_leaf_exists : forall t pos,
  in_rectangle pos (qbounds t) = true -> exists l, leaf t pos = Some l.
Proof. exact leaf_inside. Qed.
Print Assumptions quadtree_leaf_exists.
(** in a built tree every node holds some of the root's elements, each with its centre in the node's rectangle *)
Theorem quadtree_nodes_hold_their_elements : forall (centre : colfun pt) fuel b es n,
  (forall e, In e es -> in_rectangle (centre e) b = true) ->
  subtree n (build centre fuel b es) ->
  incl (qelements n) es /\ forall e, In e (qelements n) -> in_rectangle (centre e) (qbounds n) = true.
Proof.
  exact (fun centre fuel b es n H S =>
           conj (build_subtree_elements centre fuel b es n S) (build_subtree_centres centre fuel b es n H S)).
Qed.
Print Assumptions quadtree_nodes_hold_their_elements.

(** ** column_containing_point *)
(** whatever search aids are used, a returned column contains the point (and the point is
    inside the bounds given) *)
Theorem search_sound : forall (polygon : colfun (list pt)) (centre : colfun pt) (nbrs : colfun (list positive))
    (bbox : colfun rect) columnlist pos columns guess bounds qt c,
  column_containing_point polygon centre nbrs bbox columnlist pos columns guess bounds qt = Some c ->
  contains_point polygon c pos = true /\ inbounds pos bounds = true.
Proof. exact ccp_sound. Qed.
Print Assumptions search_sound.
(** a point outside every column yields nothing, whatever the aids *)
Theorem outside_gives_none : forall (polygon : colfun (list pt)) (centre : colfun pt) (nbrs : colfun (list positive))
    (bbox : colfun rect) columnlist pos columns guess bounds qt,
  (forall c, contains_point polygon c pos = false) ->
  column_containing_point polygon centre nbrs bbox columnlist pos columns guess bounds qt = None.
Proof. exact ccp_outside. Qed.
Print Assumptions outside_gives_none.
(** plain search is exhaustive search over the column list *)
Theorem plain_search_exhaustive : forall (polygon : colfun (list pt)) (centre : colfun pt) (nbrs : colfun (list positive))
    (bbox : colfun rect) columnlist,
  (forall c, bbox c = bounds_of_points (polygon c)) ->
  forall pos,
  (column_containing_point polygon centre nbrs bbox columnlist pos None None None None = None <->
   forall c, In c columnlist -> contains_point polygon c pos = false) /\
  (forall c, column_containing_point polygon centre nbrs bbox columnlist pos None None None None = Some c ->
             In c columnlist /\ contains_point polygon c pos = true).
Proof.
  exact (fun polygon centre nbrs bbox columnlist H pos =>
           conj (plain_none_iff polygon centre nbrs bbox columnlist H pos)
                (plain_some polygon centre nbrs bbox columnlist pos)).
Qed.
Print Assumptions plain_search_exhaustive.
(** the neighbour wave of the quadtree search: sound, and complete along the edges it follows *)
Theorem search_wave_complete : forall (polygon : colfun (list pt)) (nbrs : colfun (list positive)) (bbox : colfun rect)
    t pos T,
  connected_near nbrs bbox t pos T -> contains_point polygon T pos = true ->
  exists e, search polygon nbrs bbox t pos = Some e /\ contains_point polygon e pos = true.
Proof. exact search_complete_l. Qed.
Print Assumptions search_wave_complete.
Theorem quadtree_search_returns_tree_element : forall (polygon : colfun (list pt)) (centre : colfun pt)
    (nbrs : colfun (list positive)) (bbox : colfun rect) fuel b es pos e,
  search polygon nbrs bbox (build centre fuel b es) pos = Some e -> In e es.
Proof. exact search_in_elements. Qed.
Print Assumptions quadtree_search_returns_tree_element.
(** agreement of the search aids, under the explicit hypotheses [tiling] (at most one column
    contains the point) and [connected_near] (the containing column is reachable from the
    elements of the quadtree leaf through neighbours whose bounding boxes meet the leaf), and
    the premises of the aids themselves (the bounds contain the point, the column subset
    contains the answer): every combination returns the column plain search returns *)
Theorem search_aids_agree : forall (polygon : colfun (list pt)) (centre : colfun pt) (nbrs : colfun (list positive))
    (bbox : colfun rect) columnlist,
  (forall c, bbox c = bounds_of_points (polygon c)) ->
  forall pos columns guess bounds qt T,
  tiling polygon pos ->
  In T columnlist -> contains_point polygon T pos = true ->
  inbounds pos bounds = true ->
  In T (match columns with None => columnlist | Some cs => cs end) ->
  (forall t, qt = Some t -> connected_near nbrs bbox t pos T) ->
  column_containing_point polygon centre nbrs bbox columnlist pos columns guess bounds qt = Some T /\
  column_containing_point polygon centre nbrs bbox columnlist pos None None None None = Some T.
Proof. exact aids_agree. Qed.
Print Assumptions search_aids_agree.
Example search_aids_agree_ex :
  tiling m_polygon (60, 140) /\ In 4%positive m_columns /\
  contains_point m_polygon 4%positive (60, 140) = true /\
  (forall c, m_bbox c = bounds_of_points (m_polygon c)) /\
  connected_near m_nbrs m_bbox m_tree (60, 140) 4%positive.
Proof. exact m_example_hyps. Qed.
(** without [connected_near] the agreement fails for the quadtree (known finding
    quadtree.search:container-unreachable-from-leaf): the M-grid, point (260, 118) *)
Theorem qtree_incomplete_refuted :
  exists (polygon : colfun (list pt)) (centre : colfun pt) (nbrs : colfun (list positive)) (bbox : colfun rect)
         columnlist fuel bounds pos T,
    let t := build centre fuel bounds columnlist in
    (qdepth t < fuel)%nat /\
    In T columnlist /\ contains_point polygon T pos = true /\
    (forall c, In c columnlist -> contains_point polygon c pos = true -> c = T) /\
    column_containing_point polygon centre nbrs bbox columnlist pos None None None None = Some T /\
    column_containing_point polygon centre nbrs bbox columnlist pos None None None (Some t) = None.
Proof. exact qtree_incomplete_refuted_l. Qed.
Print Assumptions qtree_incomplete_refuted.
Theorem qtree_incomplete_hypothesis_fails : ~ connected_near m_nbrs m_bbox m_tree m_pos 5%positive.
Proof. exact m_not_connected_near. Qed.
Print Assumptions qtree_incomplete_hypothesis_fails.

(** ** blocks *)
(** layers partition the elevations *)
Theorem layers_partition_elevations : forall ls z i j li lj,
  stacked ls -> off_boundaries ls z ->
  nth_error ls i = Some li -> nth_error ls j = Some lj ->
  contains_elevation li z = true -> contains_elevation lj z = true -> i = j.
Proof. exact layer_unique. Qed.
Print Assumptions layers_partition_elevations.
Example layers_partition_elevations_ex : stacked ex_layers /\ off_boundaries ex_layers (-15).
Proof. exact ex_layers_ok. Qed.
(** the block reported for a 3-D point contains it and is the unique block that does
    (outside the case "above layer 1 but below the column surface", where the top block is reported) *)
Theorem block_for_point_unique : forall (polygon : colfun (list pt)) (centre : colfun pt) (nbrs : colfun (list positive))
    (bbox : colfun rect) (surface : colfun Q) columnlist layerlist pos z qt li col,
  tiling polygon pos -> stacked layerlist -> off_boundaries layerlist z ->
  block_containing_point polygon centre nbrs bbox surface columnlist layerlist pos z qt = Some (li, col) ->
  In col columnlist -> surface_case surface layerlist z col = false ->
  block_contains_point polygon surface columnlist layerlist li col pos z = true /\
  forall li' col', block_contains_point polygon surface columnlist layerlist li' col' pos z = true ->
                   li' = li /\ col' = col.
Proof. exact bcp_unique. Qed.
Print Assumptions block_for_point_unique.
Example block_for_point_unique_ex :
  block_containing_point m_polygon m_centre m_nbrs m_bbox ex_surface m_columns ex_layers (60, 140) (-15) None
    = Some (2%nat, 4%positive) /\
  surface_case ex_surface ex_layers (-15) 4%positive = false /\ In 4%positive m_columns /\
  tiling m_polygon (60, 140) /\ stacked ex_layers /\ off_boundaries ex_layers (-15).
Proof. exact ex_block. Qed.
Theorem block_reported_facts : forall (polygon : colfun (list pt)) (centre : colfun pt) (nbrs : colfun (list positive))
    (bbox : colfun rect) (surface : colfun Q) columnlist layerlist pos z qt li col,
  block_containing_point polygon centre nbrs bbox surface columnlist layerlist pos z qt = Some (li, col) ->
  column_containing_point polygon centre nbrs bbox columnlist pos None None None qt = Some col /\
  contains_point polygon col pos = true /\
  exists l, nth_error layerlist li = Some l /\ lbottom l < surface col /\
            ((surface_case surface layerlist z col = true /\ li = 1%nat) \/
             (surface_case surface layerlist z col = false /\ (1 <= li)%nat /\ contains_elevation l z = true)).
Proof. exact bcp_sound. Qed.
Print Assumptions block_reported_facts.
(** a block below the atmosphere layer that contains the point is the one reported *)
Theorem block_containing_is_reported : forall (polygon : colfun (list pt)) (centre : colfun pt)
    (nbrs : colfun (list positive)) (bbox : colfun rect) (surface : colfun Q) columnlist layerlist pos z qt li col,
  tiling polygon pos -> stacked layerlist -> off_boundaries layerlist z ->
  (1 <= li)%nat ->
  block_contains_point polygon surface columnlist layerlist li col pos z = true ->
  near_point bbox col pos = true ->
  (forall t, qt = Some t -> connected_near nbrs bbox t pos col) ->
  block_containing_point polygon centre nbrs bbox surface columnlist layerlist pos z qt = Some (li, col).
Proof. exact bcp_complete. Qed.
Print Assumptions block_containing_is_reported.
Theorem block_outside_gives_none : forall (polygon : colfun (list pt)) (centre : colfun pt) (nbrs : colfun (list positive))
    (bbox : colfun rect) (surface : colfun Q) columnlist layerlist pos z qt,
  (forall c, contains_point polygon c pos = false) ->
  block_containing_point polygon centre nbrs bbox surface columnlist layerlist pos z qt = None.
Proof. exact bcp_outside. Qed.
Print Assumptions block_outside_gives_none.

(** ** column_track (the assembly, over abstract per-column intersection data) *)
(** every listed segment belongs to a column of the list whose bounding box the line meets; its
    entry/exit points are the line's end points (in the column holding them) or the column's
    first/last intersection points; it is longer than tol x the column's longest side, or is the
    whole line inside one column *)
Theorem track_entries_ok : forall (polygon : colfun (list pt)) (lir : colfun bool) (inters : colfun (list pt))
    (tdist : pt -> Q) (maxside : colfun Q) tol l0 l1 cols s,
  In s (column_track polygon lir inters tdist maxside tol l0 l1 cols) ->
  exists d, In (d, s) (track_keyed polygon lir inters tdist maxside tol l0 l1 cols) /\
            entry_ok polygon lir inters tdist maxside tol l0 l1 cols (d, s).
Proof. exact track_entries. Qed.
Print Assumptions track_entries_ok.
Example track_entries_ok_ex :
  column_track m_polygon (fun _ => true) ex_inters ex_tdist (fun _ => 100) track_tol (-10, 50) (600, 50)
               [2; 3; 1]%positive
  = [(1%positive, (0, 50), (100, 50)); (2%positive, (200, 50), (300, 50))].
Proof. exact ex_track. Qed.
(** the track is ordered by the distance of the entry points from the start of the line ... *)
Theorem track_sorted : forall (polygon : colfun (list pt)) (lir : colfun bool) (inters : colfun (list pt))
    (tdist : pt -> Q) (maxside : colfun Q) tol l0 l1 cols,
  Sorted (fun a b : Q * seg => fst a <= fst b) (track_keyed polygon lir inters tdist maxside tol l0 l1 cols).
Proof. exact track_keyed_sorted. Qed.
Print Assumptions track_sorted.
(** ... and sorting neither loses nor invents segments *)
Theorem track_is_permutation_of_found : forall (polygon : colfun (list pt)) (lir : colfun bool) (inters : colfun (list pt))
    (tdist : pt -> Q) (maxside : colfun Q) tol l0 l1 cols,
  Permutation
    (map snd (t_track (fold_left (track_step polygon lir inters tdist maxside tol l0 l1) cols (mkT None None [] false))))
    (column_track polygon lir inters tdist maxside tol l0 l1 cols).
Proof. exact track_perm. Qed.
Print Assumptions track_is_permutation_of_found.
(** one column of the loop: a column with intersection points is left out only when its
    clip is at most tol x its longest side (the clips "dropped by design") *)
Theorem track_drops_only_short_clips : forall (polygon : colfun (list pt)) (lir : colfun bool) (inters : colfun (list pt))
    (tdist : pt -> Q) (maxside : colfun Q) tol l0 l1 st col,
  t_stop st = false -> lir col = true ->
  let st' := track_step polygon lir inters tdist maxside tol l0 l1 st col in
  t_start st' = new_start polygon l0 st col /\ t_end st' = new_end polygon l1 st col /\
  ((opt_is col (new_start polygon l0 st col) && opt_eq (new_start polygon l0 st col) (new_end polygon l1 st col) = true /\
    t_stop st' = true /\ t_track st' = t_track st ++ [(0, (col, l0, l1))]) \/
   (opt_is col (new_start polygon l0 st col) && opt_eq (new_start polygon l0 st col) (new_end polygon l1 st col) = false /\
    t_stop st' = false /\
    ((inters col = [] /\ t_track st' = t_track st) \/
     exists p0 prest, inters col = p0 :: prest /\
       let pin := pin_of polygon l0 st col p0 in let pout := pout_of polygon l0 l1 st col (last prest p0) in
       ((maxside col * tol < Qabs (tdist pout - tdist pin) /\
         t_track st' = t_track st ++ [(tdist pin, (col, pin, pout))]) \/
        (Qabs (tdist pout - tdist pin) <= maxside col * tol /\ t_track st' = t_track st))))).
Proof. exact track_step_cases. Qed.
Print Assumptions track_drops_only_short_clips.
(** consecutive segments abut => the lengths add up to the distance between the first entry
    point and the last exit point *)
Theorem track_segments_telescope : forall (tdist : pt -> Q) a l,
  abut (a :: l) -> sum_len tdist (a :: l) == tdist (seg_out (last l a)) - tdist (seg_in a).
Proof. exact telescope_abut. Qed.
Print Assumptions track_segments_telescope.
Example track_segments_telescope_ex :
  abut [(1%positive, (0, 0), (1, 0)); (2%positive, (1, 0), (3, 0))].
Proof. intros a b [H|[]]. inversion H; subst. reflexivity. Qed.
(** in general lengths + gaps = that distance, and gaps bounded one by one bound the missing length *)
Theorem track_lengths_and_gaps : forall (tdist : pt -> Q) a l,
  sum_len tdist (a :: l) + sum_gaps tdist (a :: l) == tdist (seg_out (last l a)) - tdist (seg_in a).
Proof. exact telescope_general. Qed.
Print Assumptions track_lengths_and_gaps.
Theorem track_gaps_bounded : forall (tdist : pt -> Q) l B,
  (forall g, In g (gap_list tdist l) -> g <= B) ->
  sum_gaps tdist l <= inject_Z (Z.of_nat (length (gap_list tdist l))) * B.
Proof. exact sum_gaps_bound. Qed.
Print Assumptions track_gaps_bounded.
