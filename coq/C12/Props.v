(** C12 -- property theorems only.  Each is closed by [exact] of a lemma proved in the other
    files of this directory and followed by Print Assumptions.

    Model: Locate.v (exact-rational transcription of geometry.py / mulgrids.py location code);
    the constants [track_tol], [sub_rect_factor], [quadtree_split_threshold] and the absence
    of the in_polygon tolerance guard come from Gen/GenGeom.v, regenerated from the source on
    every run.  "contains" below always means the model's own [contains_point]
    (= [in_polygon], the crossing count with the half-open rule). *)
From Coq Require Import List Bool Arith ZArith PArith QArith Qabs Qreduction Sorted Permutation.
From Gen Require Import GenGeom.
From P Require Import Locate LocBasics LocSearch LocPolygon LocConvex LocStraight LocBlock LocTrack LocRefuted LineModel LocRect LocLine LocEnd LocMain LocOverlap LocGaps.
Import ListNotations.
Open Scope Q_scope.

Notation colfun A := (positive -> A) (only parsing).

(** ** constants read from the source *)
Theorem sub_rect_factor_half : GenGeom.sub_rect_factor = (1 # 2)%Q.
Proof. exact sub_rect_factor_is_half. Qed.
Print Assumptions sub_rect_factor_half.
Theorem in_polygon_has_no_tolerance_guard : GenGeom.in_polygon_has_guard = false.
Proof. exact in_polygon_guard_absent. Qed.
Print Assumptions in_polygon_has_no_tolerance_guard.

(** ** rectangles *)
Theorem in_rectangle_spec : forall pos r,
  in_rectangle pos r = true <->
  (px (fst r) <= px pos /\ px pos <= px (snd r)) /\ (py (fst r) <= py pos /\ py pos <= py (snd r)).
Proof. exact in_rectangle_spec_l. Qed.
Print Assumptions in_rectangle_spec.
Theorem rectangles_intersect_spec : forall r1 r2,
  wf_rect r1 -> wf_rect r2 ->
  (rectangles_intersect r1 r2 = true <-> exists p, In_rect p r1 /\ In_rect p r2).
Proof. exact rectangles_intersect_common_point. Qed.
Print Assumptions rectangles_intersect_spec.
Example rectangles_intersect_spec_ex : wf_rect ((0, 0), (1, 1)) /\ wf_rect ((1, 1), (2, 3)).
Proof. repeat split; vm_compute; discriminate. Qed.
(** every point of a rectangle lies in one of its four sub-rectangles (the quadtree takes the first) *)
Theorem sub_rectangles_cover : forall r p,
  In_rect p r -> exists r', In r' (sub_rectangles r) /\ In_rect p r'.
Proof. exact sub_rectangles_cover_l. Qed.
Print Assumptions sub_rectangles_cover.
Theorem sub_rectangles_within : forall r r' p,
  wf_rect r -> In r' (sub_rectangles r) -> In_rect p r' -> In_rect p r.
Proof. exact sub_rectangles_inside. Qed.
Print Assumptions sub_rectangles_within.

(** ** in_polygon *)
(** a point the crossing count puts inside lies in the polygon's bounding box: the
    [near_point] pre-filter of every search never discards the containing column *)
Theorem in_polygon_in_bounding_box : forall pos poly,
  in_polygon pos poly = true -> in_rectangle pos (bounds_of_points poly) = true.
Proof. exact in_polygon_in_bounds. Qed.
Print Assumptions in_polygon_in_bounding_box.
(** the crossing-number test is correct for every strictly convex counter-clockwise polygon
    (every three vertices in list order make a left turn), any number of vertices: for a point
    off the supporting lines of the edges it answers true exactly for the points strictly to
    the left of every edge *)
Theorem in_polygon_convex : forall l pos,
  (3 <= length l)%nat -> convex_ccw l -> off_edge_lines l pos ->
  (in_polygon pos l = true <-> strictly_inside l pos).
Proof. exact in_polygon_convex_l. Qed.
Print Assumptions in_polygon_convex.
Example in_polygon_convex_ex :
  (3 <= length ex_hexagon)%nat /\ convex_ccw ex_hexagon /\ off_edge_lines ex_hexagon (2, 2) /\
  in_polygon (2, 2) ex_hexagon = true.
Proof. exact ex_hexagon_convex. Qed.
(** columns with straight angles (three collinear vertices): a vertex strictly between its neighbours on
    their segment contributes nothing -- the two halves of a split edge cross the ray exactly when the whole
    edge does -- so it can be dropped (if it is not the first vertex of the list, which is the reference
    point of in_polygon), and the test is correct through the strictly convex polygon that remains *)
Theorem in_polygon_straight_vertex_removable : forall pos X a m b Y,
  between a m b -> in_polygon pos (X ++ a :: m :: b :: Y) = in_polygon pos (X ++ a :: b :: Y).
Proof. exact in_polygon_drop_mid. Qed.
Print Assumptions in_polygon_straight_vertex_removable.
Theorem in_polygon_straight_last_vertex_removable : forall pos p0 mid a m,
  between a m p0 -> in_polygon pos (p0 :: mid ++ [a; m]) = in_polygon pos (p0 :: mid ++ [a]).
Proof. exact in_polygon_drop_last. Qed.
Print Assumptions in_polygon_straight_last_vertex_removable.
Theorem in_polygon_convex_with_straight_angles : forall l l' pos,
  straightens l l' -> (3 <= length l')%nat -> convex_ccw l' -> off_edge_lines l' pos ->
  (in_polygon pos l = true <-> strictly_inside l' pos).
Proof. exact in_polygon_convex_straight. Qed.
Print Assumptions in_polygon_convex_with_straight_angles.
Example in_polygon_convex_with_straight_angles_ex :
  straightens [(2, 0); (2, 2); (1, 2); (0, 2); (0, 0)] [(2, 0); (2, 2); (0, 2); (0, 0)] /\
  convex_ccw [(2, 0); (2, 2); (0, 2); (0, 0)] /\ ~ convex_ccw [(2, 0); (2, 2); (1, 2); (0, 2); (0, 0)].
Proof. exact ex_straight. Qed.
(** the columns of rectangular geometries (PyTOUGH's vertex order) are such polygons ... *)
Theorem rectangle_is_convex_ccw : forall x0 y0 x1 y1,
  x0 < x1 -> y0 < y1 -> convex_ccw [(x1, y0); (x1, y1); (x0, y1); (x0, y0)].
Proof. exact rectangle_convex. Qed.
Print Assumptions rectangle_is_convex_ccw.
(** ... for which the test is known on the edges too: it is the half-open box test *)
Theorem in_polygon_rectangle_spec : forall x0 y0 x1 y1 pos,
  x0 < x1 -> y0 < y1 ->
  in_polygon pos [(x1, y0); (x1, y1); (x0, y1); (x0, y0)] =
  (qle x0 (px pos) && qlt (px pos) x1) && (qle y0 (py pos) && qlt (py pos) y1).
Proof. exact in_polygon_rectangle. Qed.
Print Assumptions in_polygon_rectangle_spec.
Theorem rectangular_columns_tile : forall xa0 ya0 xa1 ya1 xb0 yb0 xb1 yb1 pos,
  xa0 < xa1 -> ya0 < ya1 -> xb0 < xb1 -> yb0 < yb1 ->
  (xa1 <= xb0 \/ xb1 <= xa0 \/ ya1 <= yb0 \/ yb1 <= ya0) ->
  in_polygon pos [(xa1, ya0); (xa1, ya1); (xa0, ya1); (xa0, ya0)] = true ->
  in_polygon pos [(xb1, yb0); (xb1, yb1); (xb0, yb1); (xb0, yb0)] = true -> False.
Proof. exact rectangle_columns_disjoint. Qed.
Print Assumptions rectangular_columns_tile.

(** ** quadtree *)
(** the node [leaf] returns is a node of the tree, its rectangle contains the point and
    none of its children's rectangles does *)
Theorem quadtree_leaf_contains : forall t pos l,
  leaf t pos = Some l ->
  subtree l t /\ in_rectangle pos (qbounds l) = true /\
  (forall c, In c (qchildren l) -> in_rectangle pos (qbounds c) = false).
Proof. exact leaf_spec. Qed.
Print Assumptions quadtree_leaf_contains.
Theorem quadtree_leaf_exists : forall t pos,
  in_rectangle pos (qbounds t) = true -> exists l, leaf t pos = Some l.
Proof. exact leaf_inside. Qed.
Print Assumptions quadtree_leaf_exists.
(** in a built tree every node holds some of the root's elements, each with its centre in the node's rectangle *)
Theorem quadtree_nodes_hold_their_elements : forall (centre : colfun pt) fuel b es n,
  (forall e, In e es -> in_rectangle (centre e) b = true) ->
  subtree n (build centre fuel b es) ->
  incl (qelements n) es /\ forall e, In e (qelements n) -> in_rectangle (centre e) (qbounds n) = true.
Proof.
  exact (fun centre fuel b es n H S =>
           conj (build_subtree_elements centre fuel b es n S) (build_subtree_centres centre fuel b es n H S)).
Qed.
Print Assumptions quadtree_nodes_hold_their_elements.

(** ** column_containing_point *)
(** whatever search aids are used, a returned column contains the point (and the point is
    inside the bounds given) *)
Theorem search_sound : forall (polygon : colfun (list pt)) (centre : colfun pt) (nbrs : colfun (list positive))
    (bbox : colfun rect) columnlist pos columns guess bounds qt c,
  column_containing_point polygon centre nbrs bbox columnlist pos columns guess bounds qt = Some c ->
  contains_point polygon c pos = true /\ inbounds pos bounds = true.
Proof. exact ccp_sound. Qed.
Print Assumptions search_sound.
(** a point outside every column yields nothing, whatever the aids *)
Theorem outside_gives_none : forall (polygon : colfun (list pt)) (centre : colfun pt) (nbrs : colfun (list positive))
    (bbox : colfun rect) columnlist pos columns guess bounds qt,
  (forall c, contains_point polygon c pos = false) ->
  column_containing_point polygon centre nbrs bbox columnlist pos columns guess bounds qt = None.
Proof. exact ccp_outside. Qed.
Print Assumptions outside_gives_none.
(** plain search is exhaustive search over the column list *)
Theorem plain_search_exhaustive : forall (polygon : colfun (list pt)) (centre : colfun pt) (nbrs : colfun (list positive))
    (bbox : colfun rect) columnlist,
  (forall c, bbox c = bounds_of_points (polygon c)) ->
  forall pos,
  (column_containing_point polygon centre nbrs bbox columnlist pos None None None None = None <->
   forall c, In c columnlist -> contains_point polygon c pos = false) /\
  (forall c, column_containing_point polygon centre nbrs bbox columnlist pos None None None None = Some c ->
             In c columnlist /\ contains_point polygon c pos = true).
Proof.
  exact (fun polygon centre nbrs bbox columnlist H pos =>
           conj (plain_none_iff polygon centre nbrs bbox columnlist H pos)
                (plain_some polygon centre nbrs bbox columnlist pos)).
Qed.
Print Assumptions plain_search_exhaustive.
(** the neighbour wave of the quadtree search: sound, and complete along the edges it follows *)
Theorem search_wave_complete : forall (polygon : colfun (list pt)) (nbrs : colfun (list positive)) (bbox : colfun rect)
    t pos T,
  connected_near nbrs bbox t pos T -> contains_point polygon T pos = true ->
  exists e, search polygon nbrs bbox t pos = Some e /\ contains_point polygon e pos = true.
Proof. exact search_complete_l. Qed.
Print Assumptions search_wave_complete.
Theorem quadtree_search_returns_tree_element : forall (polygon : colfun (list pt)) (centre : colfun pt)
    (nbrs : colfun (list positive)) (bbox : colfun rect) fuel b es pos e,
  search polygon nbrs bbox (build centre fuel b es) pos = Some e -> In e es.
Proof. exact search_in_elements. Qed.
Print Assumptions quadtree_search_returns_tree_element.
(** with the fallback of the repaired quadtree.search (proposed fix C12-quadtree-search-fallback;
    [quadtree_search_has_fallback] is read from the source) no connectivity is needed *)
Theorem search_complete_with_fallback : forall (polygon : colfun (list pt)) (nbrs : colfun (list positive))
    (bbox : colfun rect) t pos T,
  quadtree_search_has_fallback = true ->
  in_rectangle pos (qbounds t) = true ->
  In T (qelements t) -> near_point bbox T pos = true -> contains_point polygon T pos = true ->
  exists e, search polygon nbrs bbox t pos = Some e /\ contains_point polygon e pos = true.
Proof. exact (fun polygon nbrs bbox => search_complete_fallback polygon (fun _ => (0, 0)) nbrs bbox). Qed.
Print Assumptions search_complete_with_fallback.
(** agreement of the search aids, under the explicit hypotheses [tiling] (at most one column
    contains the point) and [connected_near] (the containing column is reachable from the
    elements of the quadtree leaf through neighbours whose bounding boxes meet the leaf;
    [qtree_finds] = [connected_near], or, once quadtree.search has its fallback, just "the column
    is an element of the tree and the point lies in the tree's rectangle"), and
    the premises of the aids themselves (the bounds contain the point, the column subset
    contains the answer): every combination returns the column plain search returns *)
Theorem search_aids_agree : forall (polygon : colfun (list pt)) (centre : colfun pt) (nbrs : colfun (list positive))
    (bbox : colfun rect) columnlist,
  (forall c, bbox c = bounds_of_points (polygon c)) ->
  forall pos columns guess bounds qt T,
  tiling polygon pos ->
  In T columnlist -> contains_point polygon T pos = true ->
  inbounds pos bounds = true ->
  In T (match columns with None => columnlist | Some cs => cs end) ->
  (forall t, qt = Some t -> qtree_finds nbrs bbox t pos T) ->
  column_containing_point polygon centre nbrs bbox columnlist pos columns guess bounds qt = Some T /\
  column_containing_point polygon centre nbrs bbox columnlist pos None None None None = Some T.
Proof. exact aids_agree. Qed.
Print Assumptions search_aids_agree.
Example search_aids_agree_ex :
  tiling m_polygon (60, 140) /\ In 4%positive m_columns /\
  contains_point m_polygon 4%positive (60, 140) = true /\
  (forall c, m_bbox c = bounds_of_points (m_polygon c)) /\
  connected_near m_nbrs m_bbox m_tree (60, 140) 4%positive.
Proof. exact m_example_hyps. Qed.
(** without [connected_near] the agreement fails for the quadtree of the pinned code, which has
    no fallback (known finding quadtree.search:container-unreachable-from-leaf): the M-grid,
    point (260, 118) *)
Theorem qtree_incomplete_refuted :
  quadtree_search_has_fallback = false ->
  exists (polygon : colfun (list pt)) (centre : colfun pt) (nbrs : colfun (list positive)) (bbox : colfun rect)
         columnlist fuel bounds pos T,
    let t := build centre fuel bounds columnlist in
    (qdepth t < fuel)%nat /\
    In T columnlist /\ contains_point polygon T pos = true /\
    (forall c, In c columnlist -> contains_point polygon c pos = true -> c = T) /\
    column_containing_point polygon centre nbrs bbox columnlist pos None None None None = Some T /\
    column_containing_point polygon centre nbrs bbox columnlist pos None None None (Some t) = None.
Proof. exact qtree_incomplete_refuted_l. Qed.
Print Assumptions qtree_incomplete_refuted.
Theorem qtree_incomplete_hypothesis_fails : ~ connected_near m_nbrs m_bbox m_tree m_pos 5%positive.
Proof. exact m_not_connected_near. Qed.
Print Assumptions qtree_incomplete_hypothesis_fails.

(** ** blocks *)
(** layers partition the elevations *)
Theorem layers_partition_elevations : forall ls z i j li lj,
  stacked ls -> off_boundaries ls z ->
  nth_error ls i = Some li -> nth_error ls j = Some lj ->
  contains_elevation li z = true -> contains_elevation lj z = true -> i = j.
Proof. exact layer_unique. Qed.
Print Assumptions layers_partition_elevations.
Example layers_partition_elevations_ex : stacked ex_layers /\ off_boundaries ex_layers (-15).
Proof. exact ex_layers_ok. Qed.
(** the block reported for a 3-D point contains it and is the unique block that does
    (outside the case "above layer 1 but below the column surface", where the top block is reported) *)
Theorem block_for_point_unique : forall (polygon : colfun (list pt)) (centre : colfun pt) (nbrs : colfun (list positive))
    (bbox : colfun rect) (surface : colfun Q) columnlist layerlist pos z qt li col,
  tiling polygon pos -> stacked layerlist -> off_boundaries layerlist z ->
  block_containing_point polygon centre nbrs bbox surface columnlist layerlist pos z qt = Some (li, col) ->
  In col columnlist -> surface_case surface layerlist z col = false ->
  block_contains_point polygon surface columnlist layerlist li col pos z = true /\
  forall li' col', block_contains_point polygon surface columnlist layerlist li' col' pos z = true ->
                   li' = li /\ col' = col.
Proof. exact bcp_unique. Qed.
Print Assumptions block_for_point_unique.
Example block_for_point_unique_ex :
  block_containing_point m_polygon m_centre m_nbrs m_bbox ex_surface m_columns ex_layers (60, 140) (-15) None
    = Some (2%nat, 4%positive) /\
  surface_case ex_surface ex_layers (-15) 4%positive = false /\ In 4%positive m_columns /\
  tiling m_polygon (60, 140) /\ stacked ex_layers /\ off_boundaries ex_layers (-15).
Proof. exact ex_block. Qed.
Theorem block_reported_facts : forall (polygon : colfun (list pt)) (centre : colfun pt) (nbrs : colfun (list positive))
    (bbox : colfun rect) (surface : colfun Q) columnlist layerlist pos z qt li col,
  block_containing_point polygon centre nbrs bbox surface columnlist layerlist pos z qt = Some (li, col) ->
  column_containing_point polygon centre nbrs bbox columnlist pos None None None qt = Some col /\
  contains_point polygon col pos = true /\
  exists l, nth_error layerlist li = Some l /\ lbottom l < surface col /\
            ((surface_case surface layerlist z col = true /\ li = 1%nat) \/
             (surface_case surface layerlist z col = false /\ (1 <= li)%nat /\ contains_elevation l z = true)).
Proof. exact bcp_sound. Qed.
Print Assumptions block_reported_facts.
(** a block below the atmosphere layer that contains the point is the one reported *)
Theorem block_containing_is_reported : forall (polygon : colfun (list pt)) (centre : colfun pt)
    (nbrs : colfun (list positive)) (bbox : colfun rect) (surface : colfun Q) columnlist layerlist pos z qt li col,
  tiling polygon pos -> stacked layerlist -> off_boundaries layerlist z ->
  (1 <= li)%nat ->
  block_contains_point polygon surface columnlist layerlist li col pos z = true ->
  near_point bbox col pos = true ->
  (forall t, qt = Some t -> qtree_finds nbrs bbox t pos col) ->
  block_containing_point polygon centre nbrs bbox surface columnlist layerlist pos z qt = Some (li, col).
Proof. exact bcp_complete. Qed.
Print Assumptions block_containing_is_reported.
Theorem block_outside_gives_none : forall (polygon : colfun (list pt)) (centre : colfun pt) (nbrs : colfun (list positive))
    (bbox : colfun rect) (surface : colfun Q) columnlist layerlist pos z qt,
  (forall c, contains_point polygon c pos = false) ->
  block_containing_point polygon centre nbrs bbox surface columnlist layerlist pos z qt = None.
Proof. exact bcp_outside. Qed.
Print Assumptions block_outside_gives_none.

(** ** column_track (the assembly, over abstract per-column intersection data) *)
(** every listed segment belongs to a column of the list whose bounding box the line meets; its
    entry/exit points are the line's end points (in the column holding them) or the column's
    first/last intersection points; it is longer than tol x the column's longest side, or is the
    whole line inside one column *)
Theorem track_entries_ok : forall (polygon : colfun (list pt)) (lir : colfun bool) (inters : colfun (list pt))
    (tdist : pt -> Q) (maxside : colfun Q) tol l0 l1 cols s,
  In s (column_track polygon lir inters tdist maxside tol l0 l1 cols) ->
  exists d, In (d, s) (track_keyed polygon lir inters tdist maxside tol l0 l1 cols) /\
            entry_ok polygon lir inters tdist maxside tol l0 l1 cols (d, s).
Proof. exact track_entries. Qed.
Print Assumptions track_entries_ok.
Example track_entries_ok_ex :
  column_track m_polygon (fun _ => true) ex_inters ex_tdist (fun _ => 100) track_tol (-10, 50) (600, 50)
               [2; 3; 1]%positive
  = [(1%positive, (0, 50), (100, 50)); (2%positive, (200, 50), (300, 50))].
Proof. exact ex_track. Qed.
(** the track is ordered by the distance of the entry points from the start of the line ... *)
Theorem track_sorted : forall (polygon : colfun (list pt)) (lir : colfun bool) (inters : colfun (list pt))
    (tdist : pt -> Q) (maxside : colfun Q) tol l0 l1 cols,
  Sorted (fun a b : Q * seg => fst a <= fst b) (track_keyed polygon lir inters tdist maxside tol l0 l1 cols).
Proof. exact track_keyed_sorted. Qed.
Print Assumptions track_sorted.
(** ... and sorting neither loses nor invents segments *)
Theorem track_is_permutation_of_found : forall (polygon : colfun (list pt)) (lir : colfun bool) (inters : colfun (list pt))
    (tdist : pt -> Q) (maxside : colfun Q) tol l0 l1 cols,
  Permutation
    (map snd (t_track (fold_left (track_step polygon lir inters tdist maxside tol l0 l1) cols (mkT None None [] false))))
    (column_track polygon lir inters tdist maxside tol l0 l1 cols).
Proof. exact track_perm. Qed.
Print Assumptions track_is_permutation_of_found.
(** one column of the loop: a column with intersection points is left out only when its
    clip is at most tol x its longest side (the clips "dropped by design") *)
Theorem track_drops_only_short_clips : forall (polygon : colfun (list pt)) (lir : colfun bool) (inters : colfun (list pt))
    (tdist : pt -> Q) (maxside : colfun Q) tol l0 l1 st col,
  t_stop st = false -> lir col = true ->
  let st' := track_step polygon lir inters tdist maxside tol l0 l1 st col in
  t_start st' = new_start polygon l0 st col /\ t_end st' = new_end polygon l1 st col /\
  ((opt_is col (new_start polygon l0 st col) && opt_eq (new_start polygon l0 st col) (new_end polygon l1 st col) = true /\
    t_stop st' = true /\ t_track st' = t_track st ++ [(0, (col, l0, l1))]) \/
   (opt_is col (new_start polygon l0 st col) && opt_eq (new_start polygon l0 st col) (new_end polygon l1 st col) = false /\
    t_stop st' = false /\
    ((inters col = [] /\ t_track st' = t_track st) \/
     exists p0 prest, inters col = p0 :: prest /\
       let pin := pin_of polygon l0 st col p0 in let pout := pout_of polygon l0 l1 st col (last prest p0) in
       ((maxside col * tol < Qabs (tdist pout - tdist pin) /\
         t_track st' = t_track st ++ [(tdist pin, (col, pin, pout))]) \/
        (Qabs (tdist pout - tdist pin) <= maxside col * tol /\ t_track st' = t_track st))))).
Proof. exact track_step_cases. Qed.
Print Assumptions track_drops_only_short_clips.
(** consecutive segments abut => the lengths add up to the distance between the first entry
    point and the last exit point *)
Theorem track_segments_telescope : forall (tdist : pt -> Q) a l,
  abut (a :: l) -> sum_len tdist (a :: l) == tdist (seg_out (last l a)) - tdist (seg_in a).
Proof. exact telescope_abut. Qed.
Print Assumptions track_segments_telescope.
Example track_segments_telescope_ex :
  abut [(1%positive, (0, 0), (1, 0)); (2%positive, (1, 0), (3, 0))].
Proof. intros a b [H|[]]. inversion H; subst. reflexivity. Qed.
(** in general lengths + gaps = that distance, and gaps bounded one by one bound the missing length *)
Theorem track_lengths_and_gaps : forall (tdist : pt -> Q) a l,
  sum_len tdist (a :: l) + sum_gaps tdist (a :: l) == tdist (seg_out (last l a)) - tdist (seg_in a).
Proof. exact telescope_general. Qed.
Print Assumptions track_lengths_and_gaps.
Theorem track_gaps_bounded : forall (tdist : pt -> Q) l B,
  (forall g, In g (gap_list tdist l) -> g <= B) ->
  sum_gaps tdist l <= inject_Z (Z.of_nat (length (gap_list tdist l))) * B.
Proof. exact sum_gaps_bound. Qed.
Print Assumptions track_gaps_bounded.

(** ** the line primitives (LineModel.v: exact model of line_polygon_intersections up to its
    de-duplication, and of line_intersects_rectangle) and convex columns *)
(** every point line_polygon_intersections can return lies on the line and on an edge of the
    polygon, both within the tolerance 1e-9 (in parameter) of the segment *)
Theorem intersections_on_line_and_edge : forall poly l1 l2 p,
  In p (lpi_points poly l1 l2) ->
  exists h a b, In (a, b) (edges poly) /\ p = h_pt h /\
    in_unit (h_xi0 h) = true /\ in_unit (h_xi1 h) = true /\
    pt_eq p (lpoint a b (h_xi0 h)) /\ pt_eq p (lpoint l1 l2 (h_xi1 h)).
Proof. exact lpi_points_on_line. Qed.
Print Assumptions intersections_on_line_and_edge.
(** ordered along the line *)
Theorem intersections_sorted_along_line : forall poly l1 l2,
  Sorted (fun a b => h_xi1 a <= h_xi1 b) (lpi_sorted poly l1 l2).
Proof. exact lpi_sorted_sorted. Qed.
Print Assumptions intersections_sorted_along_line.
(** and none is missed: a common point of an edge and of the line (not parallel) is a hit *)
Theorem intersections_complete : forall l1 l2 p1 p2 s t,
  ~ ldet l1 l2 p1 p2 == 0 -> pt_eq (lpoint p1 p2 s) (lpoint l1 l2 t) ->
  in_unit s = true -> in_unit t = true ->
  exists h, lpi_edge l1 l2 p1 p2 = Some h /\ h_xi0 h == s /\ h_xi1 h == t.
Proof. exact lpi_edge_complete. Qed.
Print Assumptions intersections_complete.
(** the bounding-box test of column_track (Cohen-Sutherland) never rejects a line that has a point in the box *)
Theorem line_intersects_rectangle_complete : forall r l1 l2 p t,
  In_rect p r -> 0 <= t -> t <= 1 ->
  px p == px l1 + t * (px l2 - px l1) -> py p == py l1 + t * (py l2 - py l1) ->
  line_intersects_rectangle r l1 l2 = true.
Proof. exact lir_complete. Qed.
Print Assumptions line_intersects_rectangle_complete.
(** the chord of a convex column: X = line(tx) on edge (a1,b1), Y = line(ty) on edge (a2,b2), tx < ty;
    between them the line is in the closed column ... *)
Theorem convex_chord_inside : forall l l1 l2, convex_ccw l ->
  forall a1 b1 a2 b2 s1 s2 tx ty,
  In (a1, b1) (edges l) -> In (a2, b2) (edges l) -> 0 <= s1 <= 1 -> 0 <= s2 <= 1 ->
  pt_eq (lpoint l1 l2 tx) (lpoint a1 b1 s1) -> pt_eq (lpoint l1 l2 ty) (lpoint a2 b2 s2) -> tx < ty ->
  forall t, tx <= t -> t <= ty -> closed_inside l (lpoint l1 l2 t).
Proof. exact chord_between_closed. Qed.
Print Assumptions convex_chord_inside.
(** ... strictly inside unless the line runs along an edge ... *)
Theorem convex_chord_strictly_inside : forall l l1 l2, convex_ccw l ->
  forall a1 b1 a2 b2 s1 s2 tx ty,
  In (a1, b1) (edges l) -> In (a2, b2) (edges l) -> 0 <= s1 <= 1 -> 0 <= s2 <= 1 ->
  pt_eq (lpoint l1 l2 tx) (lpoint a1 b1 s1) -> pt_eq (lpoint l1 l2 ty) (lpoint a2 b2 s2) ->
  forall t, tx < t -> t < ty ->
  (forall u w, In (u, w) (edges l) -> ~ (orient u w (lpoint l1 l2 tx) == 0 /\ orient u w (lpoint l1 l2 ty) == 0)) ->
  strictly_inside l (lpoint l1 l2 t).
Proof. exact chord_between_strict. Qed.
Print Assumptions convex_chord_strictly_inside.
(** ... and before the entry point / after the exit point the line is outside the column *)
Theorem convex_chord_outside_before : forall l l1 l2, convex_ccw l ->
  forall a1 b1 a2 b2 s1 s2 tx ty,
  In (a1, b1) (edges l) -> In (a2, b2) (edges l) -> 0 <= s2 <= 1 ->
  pt_eq (lpoint l1 l2 tx) (lpoint a1 b1 s1) -> pt_eq (lpoint l1 l2 ty) (lpoint a2 b2 s2) ->
  ~ ldet l1 l2 a1 b1 == 0 -> tx < ty -> forall t, t < tx -> orient a1 b1 (lpoint l1 l2 t) < 0.
Proof. exact chord_before_outside. Qed.
Print Assumptions convex_chord_outside_before.
Theorem convex_chord_outside_after : forall l l1 l2, convex_ccw l ->
  forall a1 b1 a2 b2 s1 s2 tx ty,
  In (a1, b1) (edges l) -> In (a2, b2) (edges l) -> 0 <= s1 <= 1 ->
  pt_eq (lpoint l1 l2 tx) (lpoint a1 b1 s1) -> pt_eq (lpoint l1 l2 ty) (lpoint a2 b2 s2) ->
  ~ ldet l1 l2 a2 b2 == 0 -> tx < ty -> forall t, ty < t -> orient a2 b2 (lpoint l1 l2 t) < 0.
Proof. exact chord_after_outside. Qed.
Print Assumptions convex_chord_outside_after.
(** so the chord is exactly where the column contains the line's points (the model's in_polygon) *)
Theorem convex_chord_is_containment : forall l l1 l2 a1 b1 a2 b2 s1 s2 tx ty t,
  (3 <= length l)%nat -> convex_ccw l ->
  In (a1, b1) (edges l) -> In (a2, b2) (edges l) -> 0 <= s1 <= 1 -> 0 <= s2 <= 1 ->
  pt_eq (lpoint l1 l2 tx) (lpoint a1 b1 s1) -> pt_eq (lpoint l1 l2 ty) (lpoint a2 b2 s2) ->
  ~ ldet l1 l2 a1 b1 == 0 -> ~ ldet l1 l2 a2 b2 == 0 -> tx < ty ->
  (forall u w, In (u, w) (edges l) -> ~ (orient u w (lpoint l1 l2 tx) == 0 /\ orient u w (lpoint l1 l2 ty) == 0)) ->
  off_edge_lines l (lpoint l1 l2 t) ->
  (in_polygon (lpoint l1 l2 t) l = true <-> tx < t /\ t < ty).
Proof. exact chord_is_containment. Qed.
Print Assumptions convex_chord_is_containment.
(** a column the line really crosses is never skipped: it passes the bounding-box test and has a hit,
    on an edge of the column, between a point strictly inside and a point not in the closed column *)
Theorem crossed_convex_column_not_skipped : forall l l1 l2 t0 t1,
  (3 <= length l)%nat -> convex_ccw l -> 0 <= t0 -> t0 < t1 -> t1 <= 1 ->
  strictly_inside l (lpoint l1 l2 t0) -> ~ closed_inside l (lpoint l1 l2 t1) ->
  line_intersects_rectangle (bounds_of_points l) l1 l2 = true /\
  exists h, In h (lpi_hits l l1 l2) /\ t0 < h_xi1 h /\ h_xi1 h < t1 /\ 0 <= h_xi0 h /\ h_xi0 h <= 1 /\
            closed_inside l (h_pt h).
Proof. exact crossed_column_has_hit. Qed.
Print Assumptions crossed_convex_column_not_skipped.
Example crossed_convex_column_not_skipped_ex :
  strictly_inside ex_hexagon (lpoint (-1, 2) (5, 2) (1 # 2)) /\ ~ closed_inside ex_hexagon (lpoint (-1, 2) (5, 2) 1) /\
  map (fun p => (Qred (px p), Qred (py p))) (lpi_points ex_hexagon (-1, 2) (5, 2)) = [(0, 2); (4, 2)] /\
  line_intersects_rectangle (bounds_of_points ex_hexagon) (-1, 2) (5, 2) = true.
Proof. exact ex_crossed. Qed.
(** column_track with these primitives plugged in: every listed segment belongs to a column whose
    bounding box the line meets, and its entry and exit points are end points of the line or hits
    of the line with an edge of that column *)
Theorem track_points_are_intersections : forall (polygon : colfun (list pt)) (tdist : pt -> Q) (maxside : colfun Q)
    l1 l2 cols s,
  In s (track_model polygon tdist maxside l1 l2 cols) ->
  In (seg_col s) cols /\
  line_intersects_rectangle (bounds_of_points (polygon (seg_col s))) l1 l2 = true /\
  on_line_and_column (polygon (seg_col s)) l1 l2 (seg_in s) /\
  on_line_and_column (polygon (seg_col s)) l1 l2 (seg_out s).
Proof. exact track_model_points. Qed.
Print Assumptions track_points_are_intersections.

(** ** END TO END: column_track lists exactly the crossed columns.
    Exact model ([column_track] with [line_intersects_rectangle] on the bounding boxes and the intersection
    lists [inters]); hypotheses:
    - distances from the start of the line are [len] x the (rational) parameter along the line: no square root;
    - [inters c] is line_polygon_intersections of column c AFTER its np.unique/round de-duplication, carried as
      the abstraction [dedup_ok]: it keeps (up to coordinates) the first and the last of the sorted hits -- true
      when distinct crossings of the column are farther apart than the merge tolerance, 1e-3 x the column's
      longest side since the repair 3317c5b, i.e. exactly when the chord is not a clip the property exempts;
    - columns: no repetition, strictly convex counter-clockwise, at least 3 vertices;
    - general position: the end points of the line are off the supporting lines of every column's edges, and
      every hit lies on an edge proper and strictly between the end points (no hit in the 1e-9 zones);
    - tiling: no point of the line is strictly inside two columns.
    [crossing poly l1 l2 a b]: the line is strictly inside the column exactly for parameters in (a, b)
    (and not even in the closed column outside [a, b]).  Conclusions: the track is the list [keyed] without
    its keys; [keyed] is sorted by entry distance (= len x a); every listed segment is the chord of its column,
    longer than tol x longest side or the whole line; every column with such a chord is listed; no column is
    listed twice; lengths plus gaps between consecutive segments telescope to the distance from the first
    entry to the last exit (consecutive segments abut exactly when the gap is zero, i.e. nothing was dropped
    or missing between them). *)
Theorem column_track_lists_exactly_the_crossed_columns :
  forall (polygon inters : colfun (list pt)) (tdist : pt -> Q) (maxside : colfun Q) (len : Q) (l1 l2 : pt)
         (cols : list positive),
  0 < len ->
  (forall p t, pt_eq p (lpoint l1 l2 t) -> tdist p == len * t) ->
  (forall c, In c cols -> 0 <= maxside c) ->
  NoDup cols ->
  (forall c, In c cols -> (3 <= length (polygon c))%nat /\ convex_ccw (polygon c)) ->
  (forall c, In c cols -> off_edge_lines (polygon c) l1) ->
  (forall c, In c cols -> off_edge_lines (polygon c) l2) ->
  (forall c, In c cols -> forall h, In h (lpi_hits (polygon c) l1 l2) ->
     0 <= h_xi0 h /\ h_xi0 h <= 1 /\ 0 < h_xi1 h /\ h_xi1 h < 1) ->
  (forall c, In c cols -> dedup_ok (lpi_points (polygon c) l1 l2) (inters c)) ->
  (forall t, 0 <= t -> t <= 1 -> forall c c', In c cols -> In c' cols ->
     strictly_inside (polygon c) (lpoint l1 l2 t) -> strictly_inside (polygon c') (lpoint l1 l2 t) -> c = c') ->
  let track := column_track polygon (lirf polygon l1 l2) inters tdist maxside track_tol l1 l2 cols in
  let keyed := keyed polygon inters tdist maxside l1 l2 cols in
  track = map snd keyed /\
  Sorted (fun x y : Q * seg => fst x <= fst y) keyed /\
  (forall d s, In (d, s) keyed ->
     exists a b, In (seg_col s) cols /\ crossing (polygon (seg_col s)) l1 l2 a b /\
                 pt_eq (seg_in s) (lpoint l1 l2 a) /\ pt_eq (seg_out s) (lpoint l1 l2 b) /\ d == len * a /\
                 (long maxside len (seg_col s) a b \/ (a == 0 /\ b == 1))) /\
  (forall c a b, In c cols -> crossing (polygon c) l1 l2 a b ->
     long maxside len c a b \/ (contains_point polygon c l1 = true /\ contains_point polygon c l2 = true) ->
     exists d s, In (d, s) keyed /\ seg_col s = c /\
                 pt_eq (seg_in s) (lpoint l1 l2 a) /\ pt_eq (seg_out s) (lpoint l1 l2 b)) /\
  NoDup (map seg_col track) /\
  (forall s0 rest, track = s0 :: rest ->
     sum_len tdist (s0 :: rest) + sum_gaps tdist (s0 :: rest) == tdist (seg_out (last rest s0)) - tdist (seg_in s0)).
Proof. exact end_to_end. Qed.
Print Assumptions column_track_lists_exactly_the_crossed_columns.
Example column_track_lists_exactly_the_crossed_columns_ex :
  let l1 := (50, -10) in let l2 := (50, 250) in let cols := [1; 4]%positive in
  0 < 260 /\
  (forall p t, pt_eq p (lpoint l1 l2 t) -> ex_tdist2 p == 260 * t) /\
  NoDup cols /\
  (forall c, In c cols -> (3 <= length (m_polygon c))%nat /\ convex_ccw (m_polygon c)) /\
  (forall c, In c cols -> off_edge_lines (m_polygon c) l1) /\
  (forall c, In c cols -> off_edge_lines (m_polygon c) l2) /\
  (forall c, In c cols -> forall h, In h (lpi_hits (m_polygon c) l1 l2) ->
     0 <= h_xi0 h /\ h_xi0 h <= 1 /\ 0 < h_xi1 h /\ h_xi1 h < 1) /\
  (forall c, In c cols -> dedup_ok (lpi_points (m_polygon c) l1 l2) (lpi_points (m_polygon c) l1 l2)) /\
  (forall t, 0 <= t -> t <= 1 -> forall c c', In c cols -> In c' cols ->
     strictly_inside (m_polygon c) (lpoint l1 l2 t) -> strictly_inside (m_polygon c') (lpoint l1 l2 t) -> c = c') /\
  map seg_col (column_track m_polygon (lirf m_polygon l1 l2) (fun c => lpi_points (m_polygon c) l1 l2)
                 ex_tdist2 (fun _ => 100) track_tol l1 l2 cols) = [1; 4]%positive.
Proof. exact ex_end_to_end_hyps. Qed.
(** the chord of a convex column is unique, and what the sorted hits say about it *)
Theorem chord_unique : forall l l1 l2 a b a' b', crossing l l1 l2 a b -> crossing l l1 l2 a' b' -> a == a' /\ b == b'.
Proof. exact crossing_unique. Qed.
Print Assumptions chord_unique.

(** chords of different columns do not overlap (the statement the end-to-end theorem left out): under
    its tiling hypothesis, two distinct columns' chords (a, b) and (a', b') are disjoint intervals of
    the line parameter, and in entry order the first column is left before (or exactly where) the
    second is entered - the gap between two listed segments is never negative *)
Theorem chords_of_distinct_columns_do_not_overlap :
  forall (polygon : colfun (list pt)) (l1 l2 : pt) (cols : list positive) c c' a b a' b',
  (forall t, 0 <= t -> t <= 1 -> forall c c', In c cols -> In c' cols ->
     strictly_inside (polygon c) (lpoint l1 l2 t) -> strictly_inside (polygon c') (lpoint l1 l2 t) -> c = c') ->
  In c cols -> In c' cols -> c <> c' ->
  crossing (polygon c) l1 l2 a b -> crossing (polygon c') l1 l2 a' b' ->
  b <= a' \/ b' <= a.
Proof. exact chords_disjoint. Qed.
Print Assumptions chords_of_distinct_columns_do_not_overlap.
Theorem chords_in_entry_order_do_not_overlap :
  forall (polygon : colfun (list pt)) (l1 l2 : pt) (cols : list positive) c c' a b a' b',
  (forall t, 0 <= t -> t <= 1 -> forall c c', In c cols -> In c' cols ->
     strictly_inside (polygon c) (lpoint l1 l2 t) -> strictly_inside (polygon c') (lpoint l1 l2 t) -> c = c') ->
  In c cols -> In c' cols -> c <> c' ->
  crossing (polygon c) l1 l2 a b -> crossing (polygon c') l1 l2 a' b' ->
  a <= a' -> b <= a'.
Proof. exact chords_in_entry_order. Qed.
Print Assumptions chords_in_entry_order_do_not_overlap.
(** hypotheses hold together: columns 1 and 4 of the M-grid on the line x = 50 (y = -10 .. 250); their chords abut at 11/26 *)
Example chords_do_not_overlap_ex :
  let l1 := (50, -10) in let l2 := (50, 250) in let cols := [1; 4]%positive in
  (1 # 26) <= (11 # 26) /\ ex_tiling m_polygon l1 l2 cols /\
  In 1%positive cols /\ In 4%positive cols /\ 1%positive <> 4%positive /\
  crossing (m_polygon 1) l1 l2 (1 # 26) (11 # 26) /\ crossing (m_polygon 4) l1 l2 (11 # 26) (21 # 26).
Proof. exact ex_chords_hyps. Qed.

(** the listed segments do not overlap: under the hypotheses of column_track_lists_exactly_the_crossed_columns,
    of two entries of the sorted track that belong to different columns, the one with the smaller entry
    distance ends (distance of its exit point) no later than the other begins, and it has positive length *)
Theorem track_segments_do_not_overlap :
  forall (polygon inters : colfun (list pt)) (tdist : pt -> Q) (maxside : colfun Q) (len : Q) (l1 l2 : pt)
         (cols : list positive),
  0 < len ->
  (forall p t, pt_eq p (lpoint l1 l2 t) -> tdist p == len * t) ->
  (forall c, In c cols -> 0 <= maxside c) ->
  NoDup cols ->
  (forall c, In c cols -> (3 <= length (polygon c))%nat /\ convex_ccw (polygon c)) ->
  (forall c, In c cols -> off_edge_lines (polygon c) l1) ->
  (forall c, In c cols -> off_edge_lines (polygon c) l2) ->
  (forall c, In c cols -> forall h, In h (lpi_hits (polygon c) l1 l2) ->
     0 <= h_xi0 h /\ h_xi0 h <= 1 /\ 0 < h_xi1 h /\ h_xi1 h < 1) ->
  (forall c, In c cols -> dedup_ok (lpi_points (polygon c) l1 l2) (inters c)) ->
  (forall t, 0 <= t -> t <= 1 -> forall c c', In c cols -> In c' cols ->
     strictly_inside (polygon c) (lpoint l1 l2 t) -> strictly_inside (polygon c') (lpoint l1 l2 t) -> c = c') ->
  forall d s d' s',
  In (d, s) (keyed polygon inters tdist maxside l1 l2 cols) ->
  In (d', s') (keyed polygon inters tdist maxside l1 l2 cols) ->
  seg_col s <> seg_col s' -> d <= d' ->
  tdist (seg_out s) <= tdist (seg_in s') /\ tdist (seg_in s) < tdist (seg_out s).
Proof. exact listed_segments_disjoint. Qed.
Print Assumptions track_segments_do_not_overlap.
(** on the example of column_track_lists_exactly_the_crossed_columns_ex (whose hypotheses are these): two
    listed entries, different columns, keys 10 <= 110 *)
Example track_segments_do_not_overlap_ex :
  map (fun e : Q * seg => (Qred (fst e), seg_col (snd e)))
      (keyed m_polygon (fun c => lpi_points (m_polygon c) (50, -10) (50, 250)) ex_tdist2 (fun _ => 100)
             (50, -10) (50, 250) [1; 4]%positive) = [(10, 1%positive); (110, 4%positive)].
Proof. exact ex_listed_two. Qed.

(** ** no hidden state (the model statement mirrored by the sequence oracle on the implementation):
    after any history of queries and edits the answer is that of the current geometry alone *)
Theorem answers_depend_on_current_geometry_only : forall g history q,
  run g (history ++ [Ask q]) = run g history ++ [answer (current g history) q].
Proof. exact history_independent. Qed.
Print Assumptions answers_depend_on_current_geometry_only.
Theorem queries_leave_the_geometry_unchanged : forall g qs, current g (map Ask qs) = g.
Proof. exact queries_do_not_change_geometry. Qed.
Print Assumptions queries_leave_the_geometry_unchanged.
