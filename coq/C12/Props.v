(** C12 -- property theorems (stub while the pipeline is brought up) *)
From Coq Require Import List Bool Arith ZArith PArith QArith.
From P Require Import Locate.
Theorem sub_rect_factor_half : GenGeom.sub_rect_factor = (1 # 2)%Q.
Proof. exact sub_rect_factor_is_half. Qed.
Print Assumptions sub_rect_factor_half.
