(** C10 -- the refreshing operations: setup_block_name_index, setup_block_connection_name_index,
    set_column_num_layers, surfaces, identify_layer_tops, identify_neighbours.  Each keeps the
    object graph; each re-establishes its derived clause from ANY consistent object graph. *)
From Coq Require Import Ascii String List Bool PArith NArith ZArith QArith FMapPositive Permutation Lia.
From PTBase Require Import Exn PyStr.
From P Require Import Assoc GeoState GeoEdit Inv InvNames InvSimple Sets InvCol InvConn InvDel.
Import ListNotations.
Open Scope list_scope.

(** ** the two name lists *)
Lemma setup_block_name_index_closed g g' : setup_block_name_index g = Ok g' -> exists l, fresh_bnl g = Ok l /\ g' = set_bnl g l.
Proof. unfold setup_block_name_index. destruct (fresh_bnl g) as [l|]; cbn [bind]; [|discriminate]. intro H; inversion H. eauto. Qed.
Lemma setup_block_connection_name_index_closed g g' : setup_block_connection_name_index g = Ok g' -> exists l, fresh_bcl g = Ok l /\ g' = set_bcl g l.
Proof. unfold setup_block_connection_name_index. destruct (fresh_bcl g) as [l|]; cbn [bind]; [|discriminate]. intro H; inversion H. eauto. Qed.

(** the clauses that do not read the name lists *)
Lemma invS_set_bnl g l : InvS g -> InvS (set_bnl g l).
Proof. intros [F P1 P1k P2 P3 P4 P5]. constructor; assumption. Qed.
Lemma invS_set_bcl g l : InvS g -> InvS (set_bcl g l).
Proof. intros [F P1 P1k P2 P3 P4 P5]. constructor; assumption. Qed.

Theorem setup_block_name_index_inv g g' : Inv g -> setup_block_name_index g = Ok g' -> Inv g'.
Proof.
  intros I H. destruct (setup_block_name_index_closed g g' H) as [l [E ->]].
  destruct I as [IS [D1 D2 [B K]]]. rewrite B in E. inversion E; subst l. exact (Build_Inv _ IS (Build_InvD _ D1 D2 (conj B K))).
Qed.
Theorem setup_block_connection_name_index_inv g g' : Inv g -> setup_block_connection_name_index g = Ok g' -> Inv g'.
Proof.
  intros I H. destruct (setup_block_connection_name_index_closed g g' H) as [l [E ->]].
  destruct I as [IS [D1 D2 [B K]]]. rewrite K in E. inversion E; subst l. exact (Build_Inv _ IS (Build_InvD _ D1 D2 (conj B K))).
Qed.
(** from any state: after the two set-ups the name lists are fresh *)
Theorem setup_names_establishes g g' : setup_names g = Ok g' ->
  S6 g' /\ exists b k, g' = set_bcl (set_bnl g b) k.
Proof.
  unfold setup_names. intro H. destruct (setup_block_name_index g) as [g1|] eqn:E1; cbn [bind] in H; [|discriminate].
  destruct (setup_block_name_index_closed g g1 E1) as [b [Eb ->]].
  destruct (setup_block_connection_name_index_closed _ g' H) as [k [Ek ->]].
  split; [|eauto]. split; [exact Eb|exact Ek].
Qed.
Lemma setup_names_invS g g' : InvS g -> setup_names g = Ok g' -> InvS g'.
Proof. intros I H. destruct (setup_names_establishes g g' H) as [_ [b [k ->]]]. apply invS_set_bcl, invS_set_bnl, I. Qed.
Lemma setup_names_inv g g' : InvS g -> S3b g -> S5n g -> setup_names g = Ok g' -> Inv g'.
Proof.
  intros I D1 D2 H. destruct (setup_names_establishes g g' H) as [D3 [b [k E]]]. subst g'.
  constructor; [apply invS_set_bcl, invS_set_bnl, I|]. constructor; [exact D1|exact D2|exact D3].
Qed.

(** ** layer counts *)
Lemma set_column_num_layers_closed g c g' : set_column_num_layers g c = Ok g' ->
  exists n, count_layers g (cs g c) = Ok n /\ g' = set_cnl g (fset (cnl g) c n).
Proof. unfold set_column_num_layers. destruct (count_layers g (cs g c)) as [n|]; cbn [bind]; [|discriminate]. intro H; inversion H. eauto. Qed.
Lemma invS_set_cnl g m : InvS g -> InvS (set_cnl g m).
Proof. intros [F P1 P1k P2 P3 P4 P5]. constructor; assumption. Qed.
Lemma invS_set_csurf g m : InvS g -> InvS (set_csurf g m).
Proof. intros [F P1 P1k P2 P3 P4 P5]. constructor; assumption. Qed.
(** [S5n] restricted to the columns other than [c] *)
Lemma set_column_num_layers_S5n g c g' :
  (forall c', In c' (clist g) -> c' <> c -> count_layers g (cs g c') = Ok (cl g c')) ->
  set_column_num_layers g c = Ok g' -> S5n g'.
Proof.
  intros P H. destruct (set_column_num_layers_closed g c g' H) as [n [E ->]].
  intros c' Hc'. change (count_layers g (cs g c') = Ok (fget 0%Z (fset (cnl g) c n) c')).
  rewrite fget_fset. destruct (Pos.eqb_spec c' c) as [->|N]; [exact E|]. exact (P c' Hc' N).
Qed.
Theorem set_num_layers_inv g name g' : Inv g -> set_num_layers g name = Ok g' -> Inv g'.
Proof.
  intros [IS [D1 D2 D3]] H. unfold set_num_layers in H. destruct (cget g name) as [c|]; [|discriminate].
  pose proof (set_column_num_layers_S5n g c g' (fun c' Hc' _ => D2 c' Hc') H) as D2'.
  destruct (set_column_num_layers_closed g c g' H) as [n [E ->]].
  constructor; [apply invS_set_cnl; exact IS|]. constructor; [exact D1|exact D2'|exact D3].
Qed.
(** [col.surface = z; set_column_num_layers(col)]: the layer counts stay right; the name lists stay
    right while there is no layer *)
Theorem set_surface_invS g name z g' : InvS g -> set_surface g name z = Ok g' -> InvS g'.
Proof.
  intros I H. unfold set_surface in H. destruct (cget g name) as [c|]; [|discriminate].
  destruct (set_column_num_layers_closed _ c g' H) as [n [E ->]]. apply invS_set_cnl, invS_set_csurf, I.
Qed.
Theorem set_surface_S5n g name z g' : S5n g -> set_surface g name z = Ok g' -> S5n g'.
Proof.
  intros D2 H. unfold set_surface in H. destruct (cget g name) as [c|]; [|discriminate].
  apply (set_column_num_layers_S5n (set_csurf g (fset (csurf g) c (Some z))) c g'); [|exact H].
  intros c' Hc' N. specialize (D2 c' Hc'). unfold cs, cl in *. gs. rewrite fget_fset_neq by exact N. exact D2.
Qed.
Theorem set_surface_inv g name z g' : Inv g -> llist g = [] -> set_surface g name z = Ok g' -> Inv g'.
Proof.
  intros [IS [D1 D2 D3]] Hlay H. constructor; [eapply set_surface_invS; eauto|].
  pose proof (set_surface_S5n g name z g' D2 H) as D2'.
  unfold set_surface in H. destruct (cget g name) as [c|]; [|discriminate].
  destruct (set_column_num_layers_closed _ c g' H) as [n [E ->]].
  constructor; [exact D1|exact D2'|]. apply (S6_no_layers g); auto. apply IS.
Qed.

(** ** set_default_surface, identify_layer_tops: trivial while nothing depends on the layers *)
Theorem set_default_surface_invS g g' : InvS g -> set_default_surface g = Ok g' -> InvS g'.
Proof.
  intros I H. unfold set_default_surface in H. destruct (llist g) as [|l0 r]; [discriminate|]. inversion H; subst g'; clear H.
  set (f := fun acc c => set_cnl (set_csurf acc (fset (csurf acc) c (Some (lb g l0)))) (fset (cnl acc) c (Z.of_nat (length (ldict g)) - 1)%Z)).
  change (InvS (fold_left f (clist g) g)). generalize (clist g). intro cs. revert g I f. induction cs as [|c r' IH]; intros g I f; [exact I|].
  cbn [fold_left].
  assert (X : forall l (G : geo), InvS G -> InvS (fold_left f l G)).
  { induction l as [|x l IHl]; intros G IG; [exact IG|]. cbn [fold_left]. apply IHl. unfold f. apply invS_set_cnl, invS_set_csurf, IG. }
  apply X. unfold f. apply invS_set_cnl, invS_set_csurf, I.
Qed.
Theorem set_default_surface_inv g g' : Inv g -> no_dependants g -> set_default_surface g = Ok g' -> Inv g'.
Proof.
  intros I [Hc Ha] H. unfold set_default_surface in H. destruct (llist g); [discriminate|]. rewrite Hc in H. cbn in H.
  inversion H; subst; exact I.
Qed.
Lemma tops_from_closed ls : forall g above, exists m, tops_from g above ls = set_ltop g m.
Proof.
  induction ls as [|l r IH]; intros g above; cbn [tops_from]; [exists (ltop g); reflexivity|].
  destruct (IH (set_ltop g (fset (ltop g) l (lb g above))) l) as [m E]. exists m. rewrite E. reflexivity.
Qed.
Lemma identify_layer_tops_closed g g' : identify_layer_tops g = Ok g' -> exists m, g' = set_ltop g m.
Proof.
  unfold identify_layer_tops. destruct (llist g) as [|l0 r]; [discriminate|]. intro H; inversion H; subst g'; clear H.
  destruct (tops_from_closed r (set_ltop g (fset (ltop g) l0 (lb g l0))) l0) as [m E]. exists m. rewrite E. reflexivity.
Qed.
Theorem identify_layer_tops_invS g g' : InvS g -> identify_layer_tops g = Ok g' -> InvS g'.
Proof.
  intros [F P1 P1k P2 P3 P4 P5] H. destruct (identify_layer_tops_closed g g' H) as [m ->]. constructor; assumption.
Qed.
Theorem identify_layer_tops_inv g g' : Inv g -> no_dependants g -> identify_layer_tops g = Ok g' -> Inv g'.
Proof.
  intros I N H. constructor; [eapply identify_layer_tops_invS; [apply I|exact H]|].
  destruct (identify_layer_tops_closed g g' H) as [m ->].
  destruct (no_dependants_lists g N (i_s6 g (i_d g I))) as [Hb Hk].
  apply invD_no_dependants; assumption.
Qed.

(** ** identify_neighbours *)
Definition nbr_step (acc : geo) (k : id) : geo := nbr_add (nbr_add acc (k0 acc k) (k1 acc k)) (k1 acc k) (k0 acc k).
Lemma idn_closed ks : forall g, exists m, fold_left nbr_step ks g = set_cnbr g m /\
  forall c d, In d (fget [] m c) <-> In d (cnb g c) \/ exists k, In k ks /\ ((k0 g k = c /\ k1 g k = d) \/ (k0 g k = d /\ k1 g k = c)).
Proof.
  induction ks as [|k r IH]; intro g; cbn [fold_left].
  - exists (cnbr g). split; [reflexivity|]. intros c d. unfold cnb. split; [auto|]. intros [H|[k [[] _]]]; exact H.
  - destruct (IH (nbr_step g k)) as [m [E M]]. exists m. split; [rewrite E; reflexivity|].
    intros c d. rewrite M. clear M E IH.
    assert (Ek0 : forall x, k0 (nbr_step g k) x = k0 g x) by reflexivity.
    assert (Ek1 : forall x, k1 (nbr_step g k) x = k1 g x) by reflexivity.
    assert (X : In d (cnb (nbr_step g k) c) <-> In d (cnb g c) \/ (k0 g k = c /\ k1 g k = d) \/ (k0 g k = d /\ k1 g k = c)).
    { unfold nbr_step, nbr_add, cnb. gs. fold (k0 g k) (k1 g k). rewrite fget_fset.
      destruct (Pos.eqb_spec c (k1 g k)) as [->|N1].
      - rewrite In_sadd, fget_fset. destruct (Pos.eqb_spec (k1 g k) (k0 g k)) as [E01|N01].
        + rewrite In_sadd. rewrite E01. intuition congruence.
        + intuition congruence.
      - rewrite fget_fset. destruct (Pos.eqb_spec c (k0 g k)) as [->|N0].
        + rewrite In_sadd. intuition congruence.
        + intuition congruence. }
    rewrite X. split.
    + intros [[H|H]|[k' [Hk' H]]]; [auto|right; exists k; split; [left; reflexivity|exact H]|].
      right. exists k'. split; [right; exact Hk'|]. rewrite !Ek0, !Ek1 in H. exact H.
    + intros [H|[k' [[<-|Hk'] H]]]; [auto|auto|]. right. exists k'. split; [exact Hk'|]. rewrite !Ek0, !Ek1. exact H.
Qed.
Lemma nbr_step_nodup g k c : NoDup (cnb g c) -> NoDup (cnb (nbr_step g k) c).
Proof.
  intro H. unfold nbr_step, nbr_add in *. gsu. rewrite fget_fset. destruct (Pos.eqb_spec c (fget 1%positive (kc1 g) k)) as [->|N1].
  - apply NoDup_sadd. rewrite fget_fset. match goal with |- context [Pos.eqb ?a ?b] => destruct (Pos.eqb_spec a b) as [E01|N01] end; [apply NoDup_sadd; rewrite <- E01|]; exact H.
  - rewrite fget_fset. destruct (Pos.eqb_spec c (fget 1%positive (kc0 g) k)) as [->|N0]; [apply NoDup_sadd|]; exact H.
Qed.
Lemma idn_nodup ks : forall g c, NoDup (cnb g c) -> NoDup (cnb (fold_left nbr_step ks g) c).
Proof.
  induction ks as [|k r IH]; intros g c H; cbn [fold_left]; [exact H|]. apply IH. apply nbr_step_nodup. exact H.
Qed.
Lemma identify_neighbours_eq g : identify_neighbours g = fold_left nbr_step (klist g) g.
Proof. reflexivity. Qed.
Theorem identify_neighbours_invS g : InvS g -> InvS (identify_neighbours g).
Proof.
  intros [F P1 P1k P2 P3 P4 P5]. rewrite identify_neighbours_eq. destruct (idn_closed (klist g) g) as [m [-> _]].
  constructor; assumption.
Qed.
(** from any consistent object graph whose neighbour sets hold no stale entry, identify_neighbours
    makes the neighbour sets exact *)
Definition nbrs_sound (g : geo) : Prop :=
  forall c, In c (clist g) -> NoDup (cnb g c) /\ forall d, In d (cnb g c) -> joined g c d.
Theorem identify_neighbours_establishes g : nbrs_sound g -> S3b (identify_neighbours g).
Proof.
  intros Snd. rewrite identify_neighbours_eq. destruct (idn_closed (klist g) g) as [m [E M]].
  split.
  - intros c Hc. rewrite E in Hc. apply idn_nodup. apply Snd. exact Hc.
  - intros c Hc d. rewrite E in *. change (clist (set_cnbr g m)) with (clist g) in Hc.
    change (cnb (set_cnbr g m) c) with (fget [] m c). rewrite M.
    change (joined (set_cnbr g m) c d) with (joined g c d). unfold joined. split.
    + intros [H|[k H]]; [apply (Snd c Hc); exact H|exists k; exact H].
    + intros [k H]. right. exists k. exact H.
Qed.
Theorem identify_neighbours_inv g : Inv g -> Inv (identify_neighbours g).
Proof.
  intros [IS [D1 D2 D3]]. constructor; [apply identify_neighbours_invS; exact IS|].
  assert (Snd : nbrs_sound g).
  { intros c Hc. split; [apply (s3b_nd g D1 c Hc)|]. intros d Hd. apply (s3b_ex g D1 c Hc d). exact Hd. }
  pose proof (identify_neighbours_establishes g Snd) as D1'.
  rewrite identify_neighbours_eq in *. destruct (idn_closed (klist g) g) as [m [E _]]. rewrite E in *.
  constructor; assumption.
Qed.
Theorem setup_block_name_index_invS g g' : InvS g -> setup_block_name_index g = Ok g' -> InvS g'.
Proof. intros I H. destruct (setup_block_name_index_closed g g' H) as [l [_ ->]]. apply invS_set_bnl, I. Qed.
Theorem setup_block_connection_name_index_invS g g' : InvS g -> setup_block_connection_name_index g = Ok g' -> InvS g'.
Proof. intros I H. destruct (setup_block_connection_name_index_closed g g' H) as [l [_ ->]]. apply invS_set_bcl, I. Qed.
Theorem set_num_layers_invS g name g' : InvS g -> set_num_layers g name = Ok g' -> InvS g'.
Proof.
  intros I H. unfold set_num_layers in H. destruct (cget g name) as [c|]; [|discriminate].
  destruct (set_column_num_layers_closed g c g' H) as [n [_ ->]]. apply invS_set_cnl, I.
Qed.
