(** C10 -- split_column in the repaired source ([fx_split = true]; proposed_fixes/C10-split-column.diff):
    closed forms of its loops. *)
From Coq Require Import Ascii String List Bool PArith NArith ZArith QArith FMapPositive Permutation Lia.
From PTBase Require Import Exn PyStr.
From P Require Import Assoc GeoState GeoEdit Inv InvNames InvSimple Sets InvCol InvConn InvDel InvRefresh InvRename.
Import ListNotations.
Open Scope list_scope.

(** ** the four corners of a quadrilateral, counted from the split corner *)
Lemma index_of_lt x l : forall i j, index_of x l i = Some j -> (i <= j < i + length l)%nat.
Proof.
  induction l as [|y r IH]; intros i j H; cbn [index_of] in H; [discriminate|].
  destruct (str_eqb x y); [inversion H; subst; cbn; lia|]. apply IH in H. cbn. lia.
Qed.
Definition corner (l : list id) (i0 j : nat) : id := nth ((i0 + j) mod 4) l 1%positive.
Lemma quad_facts m0 m1 m2 m3 i0 : let l := [m0; m1; m2; m3] in NoDup l -> (i0 < 4)%nat ->
    NoDup [corner l i0 0; corner l i0 1; corner l i0 2; corner l i0 3] /\
    (forall x, In x l <-> In x [corner l i0 0; corner l i0 1; corner l i0 2; corner l i0 3]) /\
    NoDup (remove_nth ((i0 + 3) mod 4) l) /\ length (remove_nth ((i0 + 3) mod 4) l) = 3%nat /\
    (forall x, In x (remove_nth ((i0 + 3) mod 4) l) <-> In x [corner l i0 0; corner l i0 1; corner l i0 2]) /\
    In (corner l i0 2, corner l i0 0) (cyc_pairs (remove_nth ((i0 + 3) mod 4) l)).
Proof.
  cbv zeta. intros ND Hi.
  assert (N : m0 <> m1 /\ m0 <> m2 /\ m0 <> m3 /\ m1 <> m2 /\ m1 <> m3 /\ m2 <> m3).
  { inversion ND as [|? ? A1 ND1]; subst. inversion ND1 as [|? ? A2 ND2]; subst. inversion ND2 as [|? ? A3 ND3]; subst.
    cbn in A1, A2, A3. intuition. }
  destruct N as [N01 [N02 [N03 [N12 [N13 N23]]]]].
  unfold corner.
  destruct i0 as [|[|[|[|i]]]]; [| | | |lia]; cbn.
  all: split; [repeat constructor; cbn; intuition congruence|].
  all: split; [intro x; cbn; tauto|].
  all: split; [repeat constructor; cbn; intuition congruence|].
  all: split; [reflexivity|].
  all: split; [intro x; cbn; tauto|]; cbn; auto 10.
Qed.

(** ** the loop over the connections of the split column *)
(** the ends of connection [k] once the loop has visited it *)
Definition swapped (g : geo) (n3cols : list id) (k : id) : bool := mem (k0 g k) n3cols || mem (k1 g k) n3cols.
Definition other_end (g : geo) (n3cols : list id) (k : id) : id := if mem (k0 g k) n3cols then k0 g k else k1 g k.
Definition new_k0 (g : geo) (n3cols : list id) (c2 k : id) : id :=
  if mem (k0 g k) n3cols then k0 g k else if mem (k1 g k) n3cols then c2 else k0 g k.
Definition new_k1 (g : geo) (n3cols : list id) (c2 k : id) : id :=
  if mem (k0 g k) n3cols then c2 else k1 g k.
Lemma swap_conns_spec ks : forall g n3cols c2 sc sn g' sc' sn', NoDup ks ->
  swap_conns g ks n3cols c2 sc sn = (g', sc', sn') ->
  sc' = sc ++ filter (swapped g n3cols) ks /\ sn' = sn ++ map (other_end g n3cols) (filter (swapped g n3cols) ks) /\
  exists K0 K1, g' = set_kc1 (set_kc0 g K0) K1 /\
    (forall k, fget 1%positive K0 k = if mem k ks then new_k0 g n3cols c2 k else k0 g k) /\
    (forall k, fget 1%positive K1 k = if mem k ks then new_k1 g n3cols c2 k else k1 g k).
Proof.
  induction ks as [|k r IH]; intros g n3cols c2 sc sn g' sc' sn' ND H; cbn [swap_conns] in H.
  - inversion H; subst. cbn. rewrite !app_nil_r. split; [reflexivity|]. split; [reflexivity|].
    exists (kc0 g'), (kc1 g'). split; [reflexivity|]. split; intro k; reflexivity.
  - inversion ND as [|? ? Hk NDr]; subst.
    assert (Fr_ : forall G, (forall x, x <> k -> k0 G x = k0 g x /\ k1 G x = k1 g x) ->
                  filter (swapped G n3cols) r = filter (swapped g n3cols) r /\
                  map (other_end G n3cols) (filter (swapped g n3cols) r) = map (other_end g n3cols) (filter (swapped g n3cols) r)).
    { intros G HG. split.
      - apply filter_ext_in. intros x Hx. unfold swapped. destruct (HG x) as [A B]; [intros ->; contradiction|]. rewrite A, B. reflexivity.
      - apply map_ext_in. intros x Hx. apply filter_In in Hx. destruct Hx as [Hx _]. unfold other_end.
        destruct (HG x) as [A B]; [intros ->; contradiction|]. rewrite A, B. reflexivity. }
    assert (Sk : swapped g n3cols k = mem (k0 g k) n3cols || mem (k1 g k) n3cols) by reflexivity.
    assert (Oe : other_end g n3cols k = if mem (k0 g k) n3cols then k0 g k else k1 g k) by reflexivity.
    cbn [filter]. rewrite Sk.
    destruct (mem (k0 g k) n3cols) eqn:M0; cbn [orb map]; try rewrite Oe.
    + destruct (IH _ _ _ _ _ _ _ _ NDr H) as [E1 [E2 [K0 [K1 [Eg [A B]]]]]].
      destruct (Fr_ (set_kc1 g (fset (kc1 g) k c2))) as [F1 F2].
      { intros x Nx. unfold k0, k1. gs. rewrite fget_fset_neq by exact Nx. auto. }
      rewrite F1 in E1, E2. rewrite F2 in E2. rewrite <- !app_assoc in E1, E2. cbn [app] in E1, E2.
      split; [exact E1|]. split; [exact E2|]. exists K0, K1. split; [rewrite Eg; reflexivity|]. split; intro x.
      * rewrite A, mem_cons. destruct (Pos.eqb_spec x k) as [->|Nx]; cbn [orb].
        -- rewrite (notIn_mem_false _ _ Hk). unfold new_k0. rewrite M0. reflexivity.
        -- destruct (mem x r); [|reflexivity]. unfold new_k0, k0, k1. gs. rewrite fget_fset_neq by exact Nx. reflexivity.
      * rewrite B, mem_cons. destruct (Pos.eqb_spec x k) as [->|Nx]; cbn [orb].
        -- rewrite (notIn_mem_false _ _ Hk). unfold new_k1, k1. gs. rewrite fget_fset_eq. fold (k0 g k). rewrite M0. reflexivity.
        -- destruct (mem x r); [|unfold k1; gs; apply fget_fset_neq; exact Nx]. unfold new_k1, k0, k1. gs. rewrite fget_fset_neq by exact Nx. reflexivity.
    + destruct (mem (k1 g k) n3cols) eqn:M1; cbn [map]; try rewrite Oe.
      * destruct (IH _ _ _ _ _ _ _ _ NDr H) as [E1 [E2 [K0 [K1 [Eg [A B]]]]]].
        destruct (Fr_ (set_kc0 g (fset (kc0 g) k c2))) as [F1 F2].
        { intros x Nx. unfold k0, k1. gs. rewrite fget_fset_neq by exact Nx. auto. }
        rewrite F1 in E1, E2. rewrite F2 in E2. rewrite <- !app_assoc in E1, E2. cbn [app] in E1, E2.
        split; [exact E1|]. split; [exact E2|]. exists K0, K1. split; [rewrite Eg; reflexivity|]. split; intro x.
        -- rewrite A, mem_cons. destruct (Pos.eqb_spec x k) as [->|Nx]; cbn [orb].
           ++ rewrite (notIn_mem_false _ _ Hk). unfold new_k0, k0. gs. rewrite fget_fset_eq. fold (k0 g k) (k1 g k). rewrite M0, M1. reflexivity.
           ++ destruct (mem x r); [|unfold k0; gs; apply fget_fset_neq; exact Nx]. unfold new_k0, k0, k1. gs. rewrite fget_fset_neq by exact Nx. reflexivity.
        -- rewrite B, mem_cons. destruct (Pos.eqb_spec x k) as [->|Nx]; cbn [orb].
           ++ rewrite (notIn_mem_false _ _ Hk). unfold new_k1. rewrite M0. reflexivity.
           ++ destruct (mem x r); [|reflexivity]. unfold new_k1, k0, k1. gs. rewrite fget_fset_neq by exact Nx. reflexivity.
      * destruct (IH _ _ _ _ _ _ _ _ NDr H) as [E1 [E2 [K0 [K1 [Eg [A B]]]]]].
        split; [exact E1|]. split; [exact E2|]. exists K0, K1. split; [exact Eg|]. split; intro x.
        -- rewrite A, mem_cons. destruct (Pos.eqb_spec x k) as [->|Nx]; cbn [orb]; [|reflexivity].
           rewrite (notIn_mem_false _ _ Hk). unfold new_k0. rewrite M0, M1. reflexivity.
        -- rewrite B, mem_cons. destruct (Pos.eqb_spec x k) as [->|Nx]; cbn [orb]; [|reflexivity].
           rewrite (notIn_mem_false _ _ Hk). unfold new_k1. rewrite M0. reflexivity.
Qed.

(** ** moving the swapped connections from the column to the new one *)
Lemma move_conns_spec sc : forall g c c2 g', c <> c2 -> NoDup sc -> move_conns g sc c c2 = Ok g' ->
  exists M, g' = set_ccon g M /\
    (forall k, In k sc -> In k (cks g c)) /\
    (NoDup (cks g c) -> NoDup (fget [] M c) /\ forall k, In k (fget [] M c) <-> In k (cks g c) /\ ~ In k sc) /\
    (NoDup (cks g c2) -> NoDup (fget [] M c2)) /\ (forall k, In k (fget [] M c2) <-> In k (cks g c2) \/ In k sc) /\
    (forall d, d <> c -> d <> c2 -> fget [] M d = cks g d).
Proof.
  induction sc as [|k r IH]; intros g c c2 g' Ncc ND H; cbn [move_conns] in H.
  - inversion H; subst g'. exists (ccon g). split; [reflexivity|]. split; [intros k []|].
    split; [intro N; split; [exact N|intro k; unfold cks; cbn; tauto]|]. split; [auto|]. split; [intro k; unfold cks; cbn; tauto|reflexivity].
  - inversion ND as [|? ? Hk NDr]; subst.
    destruct (ccon_remove g c k) as [g1|] eqn:E; cbn [bind] in H; [|discriminate].
    apply ccon_remove_ok in E. destruct E as [Hin ->].
    destruct (IH _ _ _ _ Ncc NDr H) as [M [Eg [A [B [C [D E]]]]]]. clear IH.
    assert (Xc : cks (ccon_add (set_ccon g (fset (ccon g) c (lremove (cks g c) k))) c2 k) c = lremove (cks g c) k).
    { unfold ccon_add, cks. gs. rewrite fget_fset_neq by exact Ncc. apply fget_fset_eq. }
    assert (Xc2 : cks (ccon_add (set_ccon g (fset (ccon g) c (lremove (cks g c) k))) c2 k) c2 = sadd (cks g c2) k).
    { unfold ccon_add, cks. gs. rewrite fget_fset_eq. rewrite fget_fset_neq by (intro X; apply Ncc; symmetry; exact X). reflexivity. }
    rewrite Xc in A, B. rewrite Xc2 in C, D.
    exists M. split; [rewrite Eg; reflexivity|]. split; [|split; [|split; [|split]]].
    + intros x [<-|Hx]; [exact Hin|]. exact (lremove_incl _ _ _ (A x Hx)).
    + intro N. destruct (B (NoDup_lremove _ _ N)) as [B1 B2]. split; [exact B1|]. intro x. rewrite B2, (In_lremove _ _ _ N). cbn. intuition.
    + intro N. apply C. apply NoDup_sadd. exact N.
    + intro x. rewrite D, In_sadd. cbn. intuition.
    + intros d Nd Nd2. rewrite (E d Nd Nd2). unfold ccon_add, cks. gs. rewrite !fget_fset_neq by assumption. reflexivity.
Qed.

(** ** moving the neighbours: one step, then the loop *)
Lemma nbr_remove_ok g c d g' : nbr_remove g c d = Ok g' -> In d (cnb g c) /\ g' = set_cnbr g (fset (cnbr g) c (lremove (cnb g c) d)).
Proof.
  unfold nbr_remove. destruct (sremove (cnb g c) d) as [s|] eqn:E; cbn [bind]; [|discriminate].
  apply sremove_ok in E. destruct E as [A ->]. intro H; inversion H. auto.
Qed.
Definition nbr_moved (g : geo) (c c2 d : id) : geo :=
  nbr_add (nbr_add (set_cnbr (set_cnbr g (fset (cnbr g) c (lremove (cnb g c) d)))
                             (fset (fset (cnbr g) c (lremove (cnb g c) d)) d (lremove (fget [] (fset (cnbr g) c (lremove (cnb g c) d)) d) c))) c2 d) d c2.
Lemma nbr_moved_cnb g c c2 d : c <> c2 -> d <> c -> d <> c2 ->
  cnb (nbr_moved g c c2 d) c = lremove (cnb g c) d /\
  cnb (nbr_moved g c c2 d) d = sadd (lremove (cnb g d) c) c2 /\
  cnb (nbr_moved g c c2 d) c2 = sadd (cnb g c2) d /\
  (forall e, e <> c -> e <> d -> e <> c2 -> cnb (nbr_moved g c c2 d) e = cnb g e) /\
  exists M, nbr_moved g c c2 d = set_cnbr g M.
Proof.
  intros Ncc Ndc Ndc2. unfold nbr_moved, nbr_add, cnb. gs.
  assert (Nc2c : c2 <> c) by (intro X; apply Ncc; symmetry; exact X).
  assert (Nc2d : c2 <> d) by (intro X; apply Ndc2; symmetry; exact X).
  assert (Ncd : c <> d) by (intro X; apply Ndc; symmetry; exact X).
  repeat split.
  - rewrite (fget_fset_neq _ _ d) by exact Ncd. rewrite (fget_fset_neq _ _ c2) by exact Ncc.
    rewrite (fget_fset_neq _ _ d) by exact Ncd. apply fget_fset_eq.
  - rewrite fget_fset_eq. rewrite (fget_fset_neq _ _ c2) by exact Ndc2. rewrite fget_fset_eq.
    rewrite (fget_fset_neq _ _ c) by exact Ndc. reflexivity.
  - rewrite (fget_fset_neq _ _ d) by exact Nc2d. rewrite fget_fset_eq.
    rewrite (fget_fset_neq _ _ d) by exact Nc2d. rewrite (fget_fset_neq _ _ c) by exact Nc2c. reflexivity.
  - intros e Nec Ned Nec2. rewrite !fget_fset_neq by assumption. reflexivity.
  - eexists. reflexivity.
Qed.
Lemma move_nbrs_step g d r c c2 g' : move_nbrs g (d :: r) c c2 = Ok g' ->
  In d (cnb g c) /\ (d <> c -> In c (cnb g d)) /\ move_nbrs (nbr_moved g c c2 d) r c c2 = Ok g'.
Proof.
  cbn [move_nbrs]. intro H.
  destruct (nbr_remove g c d) as [g1|] eqn:E1; cbn [bind] in H; [|discriminate].
  apply nbr_remove_ok in E1. destruct E1 as [A ->].
  match type of H with (do g2 <- nbr_remove ?G d c; _) = _ => destruct (nbr_remove G d c) as [g2|] eqn:E2 end; cbn [bind] in H; [|discriminate].
  apply nbr_remove_ok in E2. destruct E2 as [B ->]. split; [exact A|]. split.
  - intro N. unfold cnb in B. gs. rewrite fget_fset_neq in B by exact N. exact B.
  - exact H.
Qed.
Lemma move_nbrs_spec sn : forall g c c2 g', c <> c2 -> NoDup sn -> ~ In c sn -> ~ In c2 sn -> move_nbrs g sn c c2 = Ok g' ->
  (exists M, g' = set_cnbr g M) /\
  (forall d, In d sn -> In d (cnb g c) /\ In c (cnb g d)) /\
  (NoDup (cnb g c) -> NoDup (cnb g' c) /\ forall x, In x (cnb g' c) <-> In x (cnb g c) /\ ~ In x sn) /\
  (NoDup (cnb g c2) -> NoDup (cnb g' c2)) /\ (forall x, In x (cnb g' c2) <-> In x (cnb g c2) \/ In x sn) /\
  (forall d, In d sn -> NoDup (cnb g d) -> NoDup (cnb g' d) /\ forall x, In x (cnb g' d) <-> (In x (cnb g d) /\ x <> c) \/ x = c2) /\
  (forall e, e <> c -> e <> c2 -> ~ In e sn -> cnb g' e = cnb g e).
Proof.
  induction sn as [|d r IH]; intros g c c2 g' Ncc ND Hc Hc2 H.
  - cbn [move_nbrs] in H. inversion H; subst g'. split; [exists (cnbr g); reflexivity|]. split; [intros d []|].
    split; [intro N; split; [exact N|intro x; cbn; tauto]|]. split; [auto|]. split; [intro x; cbn; tauto|]. split; [intros d []|reflexivity].
  - inversion ND as [|? ? Hd NDr]; subst.
    assert (Ndc : d <> c) by (intro X; apply Hc; left; exact X).
    assert (Ndc2 : d <> c2) by (intro X; apply Hc2; left; exact X).
    destruct (move_nbrs_step _ _ _ _ _ _ H) as [A [B H']]. specialize (B Ndc).
    destruct (nbr_moved_cnb g c c2 d Ncc Ndc Ndc2) as [Xc [Xd [Xc2 [Xe [M1 EM1]]]]].
    destruct (IH _ _ _ _ Ncc NDr (fun X => Hc (or_intror X)) (fun X => Hc2 (or_intror X)) H') as [[M EM] [P1 [P2 [P3 [P4 [P5 P6]]]]]].
    rewrite Xc in P2. rewrite Xc2 in P3, P4.
    split; [exists M; rewrite EM, EM1; reflexivity|]. split; [|split; [|split; [|split; [|split]]]].
    + intros x [<-|Hx]; [auto|]. destruct (P1 x Hx) as [Q1 Q2]. rewrite Xc in Q1. split; [exact (lremove_incl _ _ _ Q1)|].
      rewrite Xe in Q2; [exact Q2| | |]; intros ->; [apply Hc|contradiction|apply Hc2]; right; exact Hx.
    + intro N. destruct (P2 (NoDup_lremove _ _ N)) as [Q1 Q2]. split; [exact Q1|]. intro x. rewrite Q2, (In_lremove _ _ _ N). cbn. intuition.
    + intro N. apply P3. apply NoDup_sadd. exact N.
    + intro x. rewrite P4, In_sadd. cbn. intuition.
    + intros x [<-|Hx] N.
      * rewrite (P6 d Ndc Ndc2 Hd), Xd. split; [apply NoDup_sadd, NoDup_lremove, N|].
        intro y. rewrite In_sadd, (In_lremove _ _ _ N). tauto.
      * assert (Nxd : x <> d) by (intros ->; contradiction).
        assert (Nxc : x <> c) by (intros ->; apply Hc; right; exact Hx).
        assert (Nxc2 : x <> c2) by (intros ->; apply Hc2; right; exact Hx).
        rewrite <- (Xe x Nxc Nxd Nxc2) in N. destruct (P5 x Hx N) as [Q1 Q2]. split; [exact Q1|].
        intro y. rewrite Q2, (Xe x Nxc Nxd Nxc2). reflexivity.
    + intros e Nec Nec2 He. rewrite (P6 e Nec Nec2 (fun X => He (or_intror X))). apply Xe; auto. intros ->. apply He. left. reflexivity.
Qed.

Lemma move_nbrs_nodup sn : forall g c c2 g', c <> c2 -> ~ In c sn -> ~ In c2 sn -> NoDup (cnb g c) -> move_nbrs g sn c c2 = Ok g' ->
  NoDup sn /\ forall d, In d sn -> In d (cnb g c).
Proof.
  induction sn as [|d r IH]; intros g c c2 g' Ncc Hc Hc2 N H; [split; [constructor|intros d []]|].
  assert (Ndc : d <> c) by (intro X; apply Hc; left; exact X).
  assert (Ndc2 : d <> c2) by (intro X; apply Hc2; left; exact X).
  destruct (move_nbrs_step _ _ _ _ _ _ H) as [A [_ H']].
  destruct (nbr_moved_cnb g c c2 d Ncc Ndc Ndc2) as [Xc _].
  assert (N' : NoDup (cnb (nbr_moved g c c2 d) c)) by (rewrite Xc; apply NoDup_lremove; exact N).
  destruct (IH _ _ _ _ Ncc (fun X => Hc (or_intror X)) (fun X => Hc2 (or_intror X)) N' H') as [NDr Mr].
  assert (Mr' : forall x, In x r -> In x (cnb g c) /\ x <> d).
  { intros x Hx. specialize (Mr x Hx). rewrite Xc in Mr. apply In_lremove in Mr; [exact Mr|exact N]. }
  split.
  - constructor; [|exact NDr]. intro Hd. destruct (Mr' d Hd) as [_ X]. apply X. reflexivity.
  - intros x [<-|Hx]; [exact A|]. apply (Mr' x Hx).
Qed.

(** ** add_connection of a new key: the part before the neighbour update (repaired source) *)
Definition add_connection_core (g : geo) (k : id) : geo :=
  let g1 := set_kdict (set_klist g (klist g ++ [k])) (aset key2_eqb (kdict g) (kkey g k) k) in
  let g2 := set_knode g1 (fset (knode g1) k (connection_nodes g1 (k0 g k) (k1 g k))) in
  ccon_add (ccon_add g2 (k0 g k) k) (k1 g k) k.
Lemma add_connection_obj_eq g k : kget g (kkey g k) = None ->
  add_connection_obj g k = if fx_nbr (fx g) then nbr_add (nbr_add (add_connection_core g k) (k0 g k) (k1 g k)) (k1 g k) (k0 g k)
                           else add_connection_core g k.
Proof. intro H. unfold add_connection_obj, add_connection_core. rewrite H. reflexivity. Qed.
(** adding two columns to each other's neighbour sets, as a map update; doing it twice changes nothing *)
Definition nbr2 (M : fmap (list id)) (c c2 : id) : fmap (list id) :=
  fset (fset M c (sadd (fget [] M c) c2)) c2 (sadd (fget [] (fset M c (sadd (fget [] M c) c2)) c2) c).
Lemma nbr2_idem M c c2 x : c <> c2 -> fget [] (nbr2 (nbr2 M c c2) c c2) x = fget [] (nbr2 M c c2) x.
Proof.
  intro N. assert (N' : c2 <> c) by (intro X; apply N; symmetry; exact X).
  assert (Ec : fget [] (nbr2 M c c2) c = sadd (fget [] M c) c2) by (unfold nbr2; rewrite fget_fset_neq by exact N; apply fget_fset_eq).
  assert (Ec2 : fget [] (nbr2 M c c2) c2 = sadd (fget [] M c2) c).
  { unfold nbr2. rewrite fget_fset_eq, fget_fset_neq by exact N'. reflexivity. }
  unfold nbr2 at 1. rewrite fget_fset. destruct (Pos.eqb_spec x c2) as [->|Nx2].
  - rewrite fget_fset_neq by exact N'. rewrite Ec2, sadd_idem. reflexivity.
  - rewrite fget_fset. destruct (Pos.eqb_spec x c) as [->|Nx]; [rewrite Ec, sadd_idem; reflexivity|reflexivity].
Qed.
Lemma nbr_add2_cnbr g c c2 : cnbr (nbr_add (nbr_add g c c2) c2 c) = nbr2 (cnbr g) c c2.
Proof. reflexivity. Qed.
