(** C10 -- compound operations: rotate (as a move of the nodes), translate, copy_layers_from,
    refine_layers, snap_columns_to_layers, snap_columns_to_nearest_layers, check(fix = True), reduce. *)
From Coq Require Import Ascii String List Bool PArith NArith ZArith QArith FMapPositive Permutation Lia.
From PTBase Require Import Exn PyStr.
From P Require Import Assoc GeoState GeoEdit GeoEdit2 Inv InvNames InvSimple Sets InvCol InvConn InvDel InvRefresh InvRename.
Import ListNotations.
Open Scope list_scope.

(** ** rotate / translate: positions, centres, elevations *)
Lemma invS_set_npos g m : InvS g -> InvS (set_npos g m).
Proof. intros [F P1 P1k P2 P3 P4 P5]. constructor; assumption. Qed.
Lemma invS_set_ccen g m : InvS g -> InvS (set_ccen g m).
Proof. intros [F P1 P1k P2 P3 P4 P5]. constructor; assumption. Qed.
Lemma invS_set_lbot g m : InvS g -> InvS (set_lbot g m).
Proof. intros [F P1 P1k P2 P3 P4 P5]. constructor; assumption. Qed.
Lemma invS_set_ltop g m : InvS g -> InvS (set_ltop g m).
Proof. intros [F P1 P1k P2 P3 P4 P5]. constructor; assumption. Qed.
Lemma invS_set_lcen g m : InvS g -> InvS (set_lcen g m).
Proof. intros [F P1 P1k P2 P3 P4 P5]. constructor; assumption. Qed.
Lemma invD_set_npos g m : InvD g -> InvD (set_npos g m).
Proof. intros [D1 D2 D3]. constructor; assumption. Qed.
Lemma invD_set_ccen g m : InvD g -> InvD (set_ccen g m).
Proof. intros [D1 D2 D3]. constructor; assumption. Qed.

Lemma fold_invS {A} (f : geo -> A -> geo) : (forall g a, InvS g -> InvS (f g a)) -> forall l g, InvS g -> InvS (fold_left f l g).
Proof. intros H l. induction l as [|a r IH]; intros g I; cbn [fold_left]; [exact I|]. apply IH, H, I. Qed.
Lemma fold_invD {A} (f : geo -> A -> geo) : (forall g a, InvD g -> InvD (f g a)) -> forall l g, InvD g -> InvD (fold_left f l g).
Proof. intros H l. induction l as [|a r IH]; intros g I; cbn [fold_left]; [exact I|]. apply IH, H, I. Qed.

(** [rotate]: whatever the new positions and centres *)
Theorem move_nodes_inv g ps cs_ g' : Inv g -> move_nodes g ps cs_ = Ok g' -> Inv g'.
Proof.
  intros [IS ID] H. unfold move_nodes in H. destruct (_ && _); [|discriminate]. inversion H; subst g'; clear H.
  constructor.
  - apply fold_invS; [intros; apply invS_set_ccen; assumption|]. apply fold_invS; [intros; apply invS_set_npos; assumption|exact IS].
  - apply fold_invD; [intros; apply invD_set_ccen; assumption|]. apply fold_invD; [intros; apply invD_set_npos; assumption|exact ID].
Qed.
Theorem move_nodes_invS g ps cs_ g' : InvS g -> move_nodes g ps cs_ = Ok g' -> InvS g'.
Proof.
  intros IS H. unfold move_nodes in H. destruct (_ && _); [|discriminate]. inversion H; subst g'; clear H.
  apply fold_invS; [intros; apply invS_set_ccen; assumption|]. apply fold_invS; [intros; apply invS_set_npos; assumption|exact IS].
Qed.
(** [translate]: the object graph and the neighbour sets (the elevations all move by the same amount) *)
Theorem translate_invS g dx dy dz : InvS g -> InvS (translate g dx dy dz).
Proof.
  intro IS. unfold translate.
  apply fold_invS; [intros; apply invS_set_lcen, invS_set_lbot, invS_set_ltop; assumption|].
  apply fold_invS; [intros; apply invS_set_csurf, invS_set_ccen; assumption|].
  apply fold_invS; [intros; apply invS_set_npos; assumption|exact IS].
Qed.

(** ** layers rebuilt: copy_layers_from, refine_layers *)
Lemma invS_clear_layers g : InvS g -> InvS (clear_layers g).
Proof.
  intros [F P1 P1k P2 P3 P4 P5]. unfold clear_layers. constructor; try assumption.
  - destruct F as [F1 [F2 [F3 [F4 F5]]]]. unfold Fr. gs. repeat split; try assumption. intros i [].
  - destruct P1 as [Dn [Dc [Dl Dw]]]. split; [|split; [|split]]; try assumption. apply DL_empty.
Qed.
Lemma S3b_frame_layers g g' : clist g' = clist g -> klist g' = klist g -> cnbr g' = cnbr g -> kc0 g' = kc0 g -> kc1 g' = kc1 g -> S3b g -> S3b g'.
Proof.
  intros E1 E2 E3 E4 E5 [Q1 Q2]. unfold S3b, joined in *. ua. rewrite E1, E2, E3, E4, E5. split; assumption.
Qed.
(** set_column_num_layers on every column makes the layer counts right *)
Lemma set_all_num_layers_spec l : forall g g', set_all_num_layers g l = Ok g' ->
  exists m, g' = set_cnl g m /\ (forall c, In c l -> count_layers g (cs g c) = Ok (fget 0%Z m c)) /\
            (forall c, ~ In c l -> fget 0%Z m c = cl g c).
Proof.
  induction l as [|c r IH]; cbn [set_all_num_layers]; intros g g' H.
  - inversion H; subst g'. exists (cnl g). split; [reflexivity|]. split; [intros c []|reflexivity].
  - destruct (set_column_num_layers g c) as [g1|] eqn:E; cbn [bind] in H; [|discriminate].
    destruct (set_column_num_layers_closed g c g1 E) as [n [En ->]].
    destruct (IH _ g' H) as [m [Eg [A B]]]. exists m. split; [rewrite Eg; reflexivity|]. split.
    + intros c' [<-|Hc'].
      * destruct (in_dec Pos.eq_dec c r) as [Hr|Hr]; [exact (A c Hr)|].
        rewrite (B c Hr). unfold cl. gs. rewrite fget_fset_eq. exact En.
      * exact (A c' Hc').
    + intros c' Hc'. rewrite B by (intro X; apply Hc'; right; exact X).
      unfold cl. gs. apply fget_fset_neq. intros ->. apply Hc'. left. reflexivity.
Qed.
(** the common tail of copy_layers_from / refine_layers: layer counts, then the name lists *)
Lemma recount_and_setup g g' : InvS g -> S3b g ->
  (do g1 <- set_all_num_layers g (clist g); setup_names g1) = Ok g' -> Inv g'.
Proof.
  intros IS D1 H. destruct (set_all_num_layers g (clist g)) as [g1|] eqn:E; cbn [bind] in H; [|discriminate].
  destruct (set_all_num_layers_spec _ _ _ E) as [m [Eg [A _]]]. subst g1.
  apply (setup_names_inv (set_cnl g m)); [apply invS_set_cnl; exact IS|exact D1| |exact H].
  intros c Hc. exact (A c Hc).
Qed.
Lemma fold_add_layer_invS lays : forall g, InvS g ->
  InvS (fold_left (fun acc l => add_layer acc (fst l) (fst (fst (snd l))) (snd (fst (snd l))) (snd (snd l))) lays g).
Proof. induction lays as [|l r IH]; intros g I; cbn [fold_left]; [exact I|]. apply IH, add_layer_invS, I. Qed.
Lemma add_layer_frame g n b c t : let g' := add_layer g n b c t in
  clist g' = clist g /\ klist g' = klist g /\ cnbr g' = cnbr g /\ kc0 g' = kc0 g /\ kc1 g' = kc1 g.
Proof. cbn zeta. unfold add_layer, add_layer_obj, new_layer. destruct (lget _ _); gs; auto 10. Qed.
Lemma fold_add_layer_S3b lays : forall g, S3b g ->
  S3b (fold_left (fun acc l => add_layer acc (fst l) (fst (fst (snd l))) (snd (fst (snd l))) (snd (snd l))) lays g).
Proof.
  induction lays as [|l r IH]; intros g I; cbn [fold_left]; [exact I|]. apply IH.
  destruct (add_layer_frame g (fst l) (fst (fst (snd l))) (snd (fst (snd l))) (snd (snd l))) as [E1 [E2 [E3 [E4 E5]]]].
  eapply S3b_frame_layers; eauto.
Qed.
(** copy_layers_from: no precondition *)
Theorem copy_layers_from_inv g lays g' : Inv g -> copy_layers_from g lays = Ok g' -> Inv g'.
Proof.
  intros [IS [D1 D2 D3]] H. unfold copy_layers_from in H. cbv zeta in H.
  eapply recount_and_setup; [| |exact H].
  - apply fold_add_layer_invS, invS_clear_layers, IS.
  - apply fold_add_layer_S3b. unfold clear_layers. exact D1.
Qed.

(** refine_layers: add_layers rebuilds the layers; the old atmosphere name is restored when free *)
Lemma add_layers_loop_inv ths : forall g rj z num g', InvS g -> S3b g -> add_layers_loop g rj ths z num = Ok g' -> InvS g' /\ S3b g'.
Proof.
  induction ths as [|th r IH]; intros g rj z num g' IS D1 H; cbn [add_layers_loop] in H; [inversion H; subst; auto|].
  destruct (next_layer_name g rj 3 num) as [nn_|] eqn:E; cbn [bind] in H; [|discriminate].
  eapply IH; [| |exact H].
  - apply add_layer_invS, IS.
  - match goal with |- S3b (add_layer ?G ?n ?b ?c ?t) => destruct (add_layer_frame G n b c t) as [E1 [E2 [E3 [E4 E5]]]] end.
    eapply S3b_frame_layers; eauto.
Qed.
Lemma add_layers_inv g rj ths top g' : InvS g -> S3b g -> add_layers g rj ths top = Ok g' -> InvS g' /\ S3b g'.
Proof.
  intros IS D1 H. unfold add_layers in H. cbv zeta in H.
  match type of H with (do g1 <- ?X; _) = _ => destruct X as [g1|] eqn:E end; cbn [bind] in H; [|discriminate].
  assert (I0 : InvS (clear_layers g)) by (apply invS_clear_layers, IS).
  assert (D0 : S3b (clear_layers g)) by exact D1.
  destruct (add_layers_loop_inv _ _ _ _ _ _ (add_layer_invS _ _ _ _ _ I0)
             ltac:(match goal with |- S3b (add_layer ?G ?n ?b ?c ?t) => destruct (add_layer_frame G n b c t) as [E1 [E2 [E3 [E4 E5]]]]; eapply S3b_frame_layers; eauto end) E) as [I1 D1'].
  split; [eapply identify_layer_tops_invS; eauto|].
  destruct (identify_layer_tops_closed g1 g' H) as [m ->]. exact D1'.
Qed.
Theorem refine_layers_establishes g names factor g' : InvS g -> S3b g -> refine_layers g names factor = Ok g' -> Inv g'.
Proof.
  intros IS D1 H. unfold refine_layers in H.
  match type of H with (do lays <- ?X; _) = _ => destruct X as [lays|] end; cbn [bind] in H; [|discriminate].
  destruct (llist g) as [|l0 rest]; [discriminate|]. cbv zeta in H.
  match type of H with (do g1 <- ?X; _) = _ => destruct X as [g1|] eqn:E1 end; cbn [bind] in H; [|discriminate].
  destruct (add_layers_inv _ _ _ _ _ IS D1 E1) as [I1 D1'].
  match type of H with (do g2 <- ?X; _) = _ => destruct X as [g2|] eqn:E2 end; cbn [bind] in H; [|discriminate].
  assert (X : InvS g2 /\ S3b g2).
  { destruct (lget g1 (ln g l0)) as [x|] eqn:El; [inversion E2; subst g2; auto|].
    destruct (llist g1) as [|l0' r'] eqn:Ell; [discriminate|].
    assert (Ok_ : ren_lays_ok g1 (combine [ln g1 l0'] [ln g l0])).
    { cbn [combine ren_lays_ok]. destruct (lget g1 (ln g1 l0')) as [l|] eqn:E0; [|exact I].
      destruct (mem l (llist g1)); [|exact I]. split; [|exact I].
      rewrite (aget_adel str_eqb str_spec) by (apply (dl_keys _ _ _ (s1_l g1 (i_s1 g1 I1)))).
      destruct (str_eqb (ln g l0) (ln g1 l0')); [reflexivity|exact El]. }
    destruct (rename_layer_core g1 _ _ g2 I1 Ok_ E2) as [A [_ [B _]]]. auto. }
  destruct X as [I2 D2'].
  eapply recount_and_setup; eauto.
Qed.

Theorem refine_layers_inv g names factor g' : Inv g -> refine_layers g names factor = Ok g' -> Inv g'.
Proof. intros [IS [D1 D2 D3]] H. eapply refine_layers_establishes; eauto. Qed.
Theorem copy_layers_from_establishes g lays g' : InvS g -> S3b g -> copy_layers_from g lays = Ok g' -> Inv g'.
Proof.
  intros IS D1 H. unfold copy_layers_from in H. cbv zeta in H.
  eapply recount_and_setup; [| |exact H].
  - apply fold_add_layer_invS, invS_clear_layers, IS.
  - apply fold_add_layer_S3b. unfold clear_layers. exact D1.
Qed.

(** ** snapping: the object graph, the neighbour sets and (after the set-up) the name lists; the layer
    counts follow when the layers lie one below the other, which the model does not carry *)
Lemma snap_loop_closed cols : forall g minth g', snap_loop g cols minth = Ok g' -> exists m1 m2, g' = set_cnl (set_csurf g m1) m2.
Proof.
  induction cols as [|c r IH]; intros g minth g' H; cbn [snap_loop] in H.
  - inversion H; subst g'. exists (csurf g), (cnl g). reflexivity.
  - destruct (column_surface_layer g c) as [l|]; cbn [bind] in H; [|discriminate].
    destruct (cs g c) as [s|]; [|discriminate]. destruct (qltb _ _).
    + destruct (IH _ _ _ H) as [m1 [m2 ->]]. exists m1, m2. reflexivity.
    + exact (IH _ _ _ H).
Qed.
Lemma snap_nearest_loop_closed cols : forall g g', snap_nearest_loop g cols = Ok g' -> exists m1 m2, g' = set_cnl (set_csurf g m1) m2.
Proof.
  induction cols as [|c r IH]; intros g g' H; cbn [snap_nearest_loop] in H.
  - inversion H; subst g'. exists (csurf g), (cnl g). reflexivity.
  - destruct (column_surface_layer g c) as [l|]; cbn [bind] in H; [|discriminate].
    destruct (cs g c) as [s|]; [|discriminate]. destruct (qltb _ _); destruct (IH _ _ H) as [m1 [m2 ->]]; exists m1, m2; reflexivity.
Qed.
Theorem snap_columns_to_layers_partial g minth names g' : InvS g -> S3b g -> snap_columns_to_layers g minth names = Ok g' ->
  InvS g' /\ S3b g' /\ (qltb 0 minth = true -> S6 g').
Proof.
  intros IS D1 H. unfold snap_columns_to_layers in H. destruct (qltb 0 minth); [|inversion H; subst; split; [assumption|split; [assumption|intro X; discriminate X]]].
  match type of H with (do cols <- ?X; _) = _ => destruct X as [cols|] end; cbn [bind] in H; [|discriminate].
  destruct (snap_loop g cols minth) as [g1|] eqn:E; cbn [bind] in H; [|discriminate].
  destruct (snap_loop_closed _ _ _ _ E) as [m1 [m2 ->]].
  destruct (setup_names_establishes _ _ H) as [S [b [k ->]]].
  split; [apply invS_set_bcl, invS_set_bnl, invS_set_cnl, invS_set_csurf, IS|]. split; [exact D1|intros _; exact S].
Qed.
Theorem snap_columns_to_nearest_layers_partial g names g' : InvS g -> S3b g -> snap_columns_to_nearest_layers g names = Ok g' ->
  InvS g' /\ S3b g' /\ S6 g'.
Proof.
  intros IS D1 H. unfold snap_columns_to_nearest_layers in H.
  match type of H with (do cols <- ?X; _) = _ => destruct X as [cols|] end; cbn [bind] in H; [|discriminate].
  destruct (snap_nearest_loop g cols) as [g1|] eqn:E; cbn [bind] in H; [|discriminate].
  destruct (snap_nearest_loop_closed _ _ _ E) as [m1 [m2 ->]].
  destruct (setup_names_establishes _ _ H) as [S [b [k ->]]].
  split; [apply invS_set_bcl, invS_set_bnl, invS_set_cnl, invS_set_csurf, IS|]. split; [exact D1|exact S].
Qed.

(** ** check(fix = True) and reduce *)
(** every connection that is added joins two different columns sharing a side (at the moment it is added) *)
Fixpoint conns_ok (g : geo) (ks : list key2) : Prop :=
  match ks with
  | [] => True
  | (a, b) :: r => conn_args_ok g a b /\ forall g1, add_connection g a b = Ok g1 -> conns_ok g1 r
  end.
Lemma add_connection_fx g a b g' : add_connection g a b = Ok g' -> fx g' = fx g.
Proof.
  unfold add_connection. destruct (cget g a); [|discriminate]. destruct (cget g b); [|discriminate].
  intro H; inversion H; subst g'. unfold add_connection_obj. destruct (kget _ _); [reflexivity|].
  cbv zeta. change (fx (new_conn g i i0)) with (fx g). destruct (fx_nbr (fx g)); reflexivity.
Qed.
Lemma add_connections_invS ks : forall g g', InvS g -> conns_ok g ks -> add_connections g ks = Ok g' -> InvS g' /\ fx g' = fx g.
Proof.
  induction ks as [|[a b] r IH]; intros g g' I Ok_ H; cbn [add_connections] in H; [inversion H; subst; auto|].
  destruct (add_connection g a b) as [g1|] eqn:E; cbn [bind] in H; [|discriminate]. destruct Ok_ as [A B].
  destruct (IH g1 g' (add_connection_invS g a b g1 I A E) (B g1 E) H) as [X Y]. split; [exact X|].
  rewrite Y. apply (add_connection_fx g a b); exact E.
Qed.
Lemma delete_connections_invS ks : forall g g', InvS g -> delete_connections g ks = Ok g' -> InvS g' /\ fx g' = fx g.
Proof.
  induction ks as [|k r IH]; intros g g' I H; cbn [delete_connections] in H; [inversion H; subst; auto|].
  destruct (delete_connection g k) as [g1|] eqn:E; cbn [bind] in H; [|discriminate].
  pose proof (delete_connection_invS g k g1 I E) as I1.
  destruct (delete_connection_closed_any g k g1 E) as [k' [N [_ [_ [_ [Eg1 _]]]]]].
  assert (Fx1 : fx g1 = fx g) by (rewrite Eg1; reflexivity).
  destruct (IH g1 g' I1 H) as [X Y]. split; [exact X|congruence].
Qed.
Lemma delete_nodes_fx names : forall g g', delete_nodes g names = Ok g' -> fx g' = fx g.
Proof.
  induction names as [|n r IH]; intros g g' H; cbn [delete_nodes] in H; [inversion H; reflexivity|].
  destruct (delete_node g n) as [g1|] eqn:E; cbn [bind] in H; [|discriminate]. rewrite (IH _ _ H).
  unfold delete_node in E. destruct (nget g n); [|discriminate]. revert E. gs. destruct (mem _ _); [|discriminate]. intro E; inversion E; reflexivity.
Qed.
Lemma fix_centres_invS names : forall g g', InvS g -> fix_centres g names = Ok g' -> InvS g'.
Proof.
  induction names as [|n r IH]; intros g g' I H; cbn [fix_centres] in H; [inversion H; subst; exact I|].
  destruct (cget g n); [|discriminate]. eapply IH; [|exact H]. apply invS_set_ccen, I.
Qed.
Lemma fix_layer_invS g l : InvS g -> InvS (fix_layer g l).
Proof. intro I. unfold fix_layer. destruct (_ && _); [exact I|]. apply invS_set_lcen, invS_set_ltop, invS_set_lbot, I. Qed.
Theorem check_fix_invS g hm_ hbad g' : InvS g -> conns_ok g hm_ -> check_fix g hm_ hbad = Ok g' -> InvS g'.
Proof.
  intros I Ok_ H. unfold check_fix in H.
  destruct (add_missing g hm_) as [g1|] eqn:E1; cbn [bind] in H; [|discriminate].
  unfold add_missing in E1. destruct (is_ordering_of _ _); [|discriminate].
  destruct (add_connections_invS _ _ _ I Ok_ E1) as [I1 F1].
  cbv zeta in H.
  destruct (delete_connections g1 (extra_keys g1)) as [g2a|] eqn:E2; cbn [bind] in H; [|discriminate].
  destruct (delete_connections_invS _ _ _ I1 E2) as [I2a F2].
  match type of H with (do g2 <- ?X; _) = _ => destruct X as [g2|] eqn:E2b end; cbn [bind] in H; [|discriminate].
  assert (I2 : InvS g2).
  { destruct (_ && _) in E2b; [eapply setup_block_connection_name_index_invS; eauto|inversion E2b; subst; exact I2a]. }
  destruct (delete_orphans g2) as [g3|] eqn:E3; cbn [bind] in H; [|discriminate].
  pose proof (delete_orphans_invS g2 g3 I2 E3) as I3.
  destruct (fix_centres g3 hbad) as [g4|] eqn:E4; cbn [bind] in H; [|discriminate].
  pose proof (fix_centres_invS _ _ _ I3 E4) as I4.
  inversion H; subst g'. apply fold_invS; [intros; apply fix_layer_invS; assumption|exact I4].
Qed.
Lemma delete_columns_invS names : forall g g', InvS g -> delete_columns g names = Ok g' -> InvS g' /\ fx g' = fx g.
Proof.
  induction names as [|n r IH]; intros g g' I H; cbn [delete_columns] in H; [inversion H; subst; auto|].
  destruct (delete_column g n) as [g1|] eqn:E; cbn [bind] in H; [|discriminate].
  pose proof (delete_column_invS g n g1 I E) as I1.
  destruct (delete_column_closed g n g1 I E) as [C [D [L [mb [mn [cd [cl_ [Eg1 _]]]]]]]].
  assert (Fx1 : fx g1 = fx g) by (rewrite Eg1; reflexivity).
  destruct (IH g1 g' I1 H) as [X Y]. split; [exact X|congruence].
Qed.
(** reduce keeps the object graph, provided each missing connection it adds joins columns that share a side *)
Theorem reduce_invS g names hm_ hbad g' : InvS g ->
  (forall g1, delete_columns g (map (cn g) (filter (fun c => negb (existsb (fun n => match cget g n with Some x => Pos.eqb x c | None => false end) names)) (clist g))) = Ok g1 -> conns_ok g1 hm_) ->
  reduce g names hm_ hbad = Ok g' -> InvS g'.
Proof.
  intros I Ok_ H. unfold reduce in H.
  destruct (lookup_cols g names) as [keep|] eqn:E0; cbn [bind] in H; [|discriminate].
  match type of H with (do g1 <- delete_columns g ?L; _) = _ => destruct (delete_columns g L) as [g1|] eqn:E1 end; cbn [bind] in H; [|discriminate].
  destruct (delete_columns_invS _ _ _ I E1) as [I1 F1].
  destruct (check_fix g1 hm_ hbad) as [g2|] eqn:E2; cbn [bind] in H; [|discriminate].
  eapply setup_names_invS; [|exact H].
  eapply check_fix_invS; [exact I1| |exact E2].
  apply Ok_. rewrite <- E1. f_equal. f_equal. apply filter_ext. intro c. f_equal.
  clear - E0. revert keep E0. induction names as [|n r IH]; intros keep E0; cbn [lookup_cols] in E0.
  - inversion E0; reflexivity.
  - destruct (cget g n) as [x|] eqn:En; [|discriminate]. destruct (lookup_cols g r) as [l|]; cbn [bind] in E0; [|discriminate].
    inversion E0; subst keep. cbn [existsb mem]. rewrite En. rewrite (IH l eq_refl). unfold mem. cbn [existsb].
    rewrite (Pos.eqb_sym x c). reflexivity.
Qed.

Theorem snap_columns_to_layers_invS g minth names g' : InvS g -> snap_columns_to_layers g minth names = Ok g' -> InvS g'.
Proof.
  intros IS H. unfold snap_columns_to_layers in H. destruct (qltb 0 minth); [|inversion H; subst; exact IS].
  match type of H with (do cols <- ?X; _) = _ => destruct X as [cols|] end; cbn [bind] in H; [|discriminate].
  destruct (snap_loop g cols minth) as [g1|] eqn:E; cbn [bind] in H; [|discriminate].
  destruct (snap_loop_closed _ _ _ _ E) as [m1 [m2 ->]].
  eapply setup_names_invS; [|exact H]. apply invS_set_cnl, invS_set_csurf, IS.
Qed.
Theorem snap_columns_to_nearest_layers_invS g names g' : InvS g -> snap_columns_to_nearest_layers g names = Ok g' -> InvS g'.
Proof.
  intros IS H. unfold snap_columns_to_nearest_layers in H.
  match type of H with (do cols <- ?X; _) = _ => destruct X as [cols|] end; cbn [bind] in H; [|discriminate].
  destruct (snap_nearest_loop g cols) as [g1|] eqn:E; cbn [bind] in H; [|discriminate].
  destruct (snap_nearest_loop_closed _ _ _ E) as [m1 [m2 ->]].
  eapply setup_names_invS; [|exact H]. apply invS_set_cnl, invS_set_csurf, IS.
Qed.
Theorem copy_layers_from_invS g lays g' : InvS g -> copy_layers_from g lays = Ok g' -> InvS g'.
Proof.
  intros IS H. unfold copy_layers_from in H. cbv zeta in H.
  match type of H with (do g2 <- ?X; _) = _ => destruct X as [g2|] eqn:E end; cbn [bind] in H; [|discriminate].
  destruct (set_all_num_layers_spec _ _ _ E) as [m [-> _]].
  eapply setup_names_invS; [|exact H]. apply invS_set_cnl, fold_add_layer_invS, invS_clear_layers, IS.
Qed.

(** ** reduce on a geometry that stays a valid mesh: the whole invariant *)
Definition layers_fine (g : geo) : Prop :=
  forall l, In l (tl (llist g)) -> Qle_bool (lb g l) (lc g l) && Qle_bool (lc g l) (lt g l) = true.
Lemma fold_fix_layer_id ls : forall g, (forall l, In l ls -> Qle_bool (lb g l) (lc g l) && Qle_bool (lc g l) (lt g l) = true) -> fold_left fix_layer ls g = g.
Proof.
  induction ls as [|l r IH]; intros g H; cbn [fold_left]; [reflexivity|].
  unfold fix_layer at 2. rewrite (H l (or_introl eq_refl)). apply IH. intros x Hx. apply H. right. exact Hx.
Qed.
Lemma delete_columns_core names : forall g g', InvS g -> S3b g -> S5n g -> delete_columns g names = Ok g' -> InvS g' /\ S3b g' /\ S5n g'.
Proof.
  induction names as [|n r IH]; intros g g' I D1 D2 H; cbn [delete_columns] in H; [inversion H; subst; auto|].
  destruct (delete_column g n) as [g1|] eqn:E; cbn [bind] in H; [|discriminate].
  destruct (delete_column_core g n g1 I E) as [I1 [B [C _]]].
  assert (D1' : S3b g1) by (destruct (fx_nbr (fx g)) eqn:Fx; [eapply delete_column_S3b_repaired; eauto|apply B; auto]).
  exact (IH g1 g' I1 D1' (C D2) H).
Qed.
Lemma fix_centres_closed names : forall g g', fix_centres g names = Ok g' -> exists m, g' = set_ccen g m.
Proof.
  induction names as [|n r IH]; intros g g' H; cbn [fix_centres] in H; [inversion H; subst g'; exists (ccen g); reflexivity|].
  destruct (cget g n); [|discriminate]. destruct (IH _ _ H) as [m ->]. exists m. reflexivity.
Qed.
Theorem reduce_inv_clean g names hbad g' : Inv g -> reduce g names [] hbad = Ok g' ->
  (forall keep g1, lookup_cols g names = Ok keep -> delete_columns g (map (cn g) (filter (fun c => negb (mem c keep)) (clist g))) = Ok g1 ->
     extra_keys g1 = [] /\ layers_fine g1) ->
  Inv g'.
Proof.
  intros [IS [D1 D2 D3]] H Clean. unfold reduce in H.
  destruct (lookup_cols g names) as [keep|] eqn:E0; cbn [bind] in H; [|discriminate].
  match type of H with (do g1 <- delete_columns g ?L; _) = _ => destruct (delete_columns g L) as [g1|] eqn:E1 end; cbn [bind] in H; [|discriminate].
  destruct (Clean keep g1 eq_refl E1) as [Ex Lf].
  destruct (delete_columns_core _ _ _ IS D1 D2 E1) as [I1 [D1' D2']].
  destruct (check_fix g1 [] hbad) as [g2|] eqn:E2; cbn [bind] in H; [|discriminate].
  unfold check_fix, add_missing in E2. destruct (is_ordering_of [] (missing_pairs g1)); [|discriminate].
  cbn [add_connections bind] in E2. cbv zeta in E2. rewrite Ex in E2. cbn [delete_connections bind negb andb] in E2. rewrite andb_false_r in E2. cbn [bind] in E2.
  destruct (delete_orphans g1) as [g3|] eqn:E3; cbn [bind] in E2; [|discriminate].
  pose proof (delete_orphans_invS g1 g3 I1 E3) as I3.
  assert (D3' : S3b g3 /\ S5n g3).
  { unfold delete_orphans in E3. clear - D1' D2' E3. revert E3. generalize (map (nn g1) (orphans g1)). intro names. revert g1 D1' D2'.
    induction names as [|n r IH]; intros g1 D1' D2' H; cbn [delete_nodes] in H; [inversion H; subst; auto|].
    destruct (delete_node g1 n) as [g4|] eqn:E; cbn [bind] in H; [|discriminate].
    apply (IH g4); [| |exact H]; unfold delete_node in E; destruct (nget g1 n); try discriminate; revert E; gs; destruct (mem _ _); try discriminate; intro E; inversion E; subst g4; assumption. }
  destruct D3' as [D13 D23].
  destruct (fix_centres g3 hbad) as [g4|] eqn:E4; cbn [bind] in E2; [|discriminate].
  destruct (fix_centres_closed _ _ _ E4) as [m Eg4].
  assert (Lf4 : layers_fine g4).
  { subst g4. unfold delete_orphans in E3. clear - Lf E3.
    assert (X : llist g3 = llist g1 /\ lbot g3 = lbot g1 /\ lcen g3 = lcen g1 /\ ltop g3 = ltop g1).
    { revert E3. generalize (map (nn g1) (orphans g1)). intro names. revert g1 Lf. induction names as [|n r IH]; intros g1 Lf H; cbn [delete_nodes] in H; [inversion H; subst; auto|].
      destruct (delete_node g1 n) as [g4|] eqn:E; cbn [bind] in H; [|discriminate].
      assert (Y : llist g4 = llist g1 /\ lbot g4 = lbot g1 /\ lcen g4 = lcen g1 /\ ltop g4 = ltop g1).
      { unfold delete_node in E. destruct (nget g1 n); [|discriminate]. revert E. gs. destruct (mem _ _); [|discriminate]. intro E; inversion E; subst g4. auto. }
      destruct Y as [Y1 [Y2 [Y3 Y4]]]. destruct (IH g4) with (2 := H) as [Z1 [Z2 [Z3 Z4]]].
      - intros l Hl. unfold lb, lc, lt. rewrite Y2, Y3, Y4. apply Lf. rewrite <- Y1. exact Hl.
      - rewrite Z1, Z2, Z3, Z4. auto. }
    destruct X as [X1 [X2 [X3 X4]]]. intros l Hl. unfold lb, lc, lt. gs. rewrite X2, X3, X4. apply Lf. rewrite <- X1. exact Hl. }
  rewrite (fold_fix_layer_id _ g4 Lf4) in E2. inversion E2; subst g2; clear E2. subst g4.
  eapply setup_names_inv; [| | |exact H].
  - apply invS_set_ccen. exact I3.
  - exact D13.
  - exact D23.
Qed.

(** ** translate: the whole invariant (every elevation moves by the same amount) *)
Lemma qle_shift a b d : Qle_bool (Qred (a + d)) (Qred (b + d)) = Qle_bool a b.
Proof. apply Bool.eq_iff_eq_true. rewrite !Qle_bool_iff, !Qred_correct. apply Qplus_le_l. Qed.
Lemma qltb_shift a b d : qltb (Qred (a + d)) (Qred (b + d)) = qltb a b.
Proof. unfold qltb. rewrite qle_shift. reflexivity. Qed.
Definition shift_o (dz : Q) (o : option Q) : option Q := match o with Some s => Some (Qred (s + dz)) | None => None end.
Lemma translate_cols_closed (sh : pt -> pt) dz l : NoDup l -> forall G,
  exists CC CS, fold_left (fun acc c => set_csurf (set_ccen acc (fset (ccen acc) c (sh (cc acc c))))
                                                  (fset (csurf acc) c (match cs acc c with Some s => Some (Qred (s + dz)) | None => None end))) l G
                = set_csurf (set_ccen G CC) CS /\
               forall c, fget None CS c = if mem c l then shift_o dz (cs G c) else cs G c.
Proof.
  induction l as [|a r IH]; intros ND G; cbn [fold_left].
  - exists (ccen G), (csurf G). split; [reflexivity|]. intro c. reflexivity.
  - inversion ND as [|? ? Ha NDr]; subst.
    destruct (IH NDr (set_csurf (set_ccen G (fset (ccen G) a (sh (cc G a)))) (fset (csurf G) a (match cs G a with Some s => Some (Qred (s + dz)) | None => None end)))) as [CC [CS [E F]]].
    exists CC, CS. split; [rewrite E; reflexivity|]. intro c. rewrite F, mem_cons. unfold cs. gs.
    destruct (Pos.eqb_spec c a) as [->|N]; cbn [orb].
    + rewrite (notIn_mem_false _ _ Ha), fget_fset_eq. reflexivity.
    + rewrite fget_fset_neq by exact N. reflexivity.
Qed.
Lemma translate_lays_closed dz l : NoDup l -> forall G,
  exists LT LB LC, fold_left (fun acc l => set_lcen (set_lbot (set_ltop acc (fset (ltop acc) l (Qred (lt acc l + dz))))
                                                            (fset (lbot acc) l (Qred (lb acc l + dz))))
                                                  (fset (lcen acc) l (Qred (lc acc l + dz)))) l G
                  = set_lcen (set_lbot (set_ltop G LT) LB) LC /\
               (forall x, fget q0 LB x = if mem x l then Qred (lb G x + dz) else lb G x) /\
               (forall x, fget q0 LT x = if mem x l then Qred (lt G x + dz) else lt G x).
Proof.
  induction l as [|a r IH]; intros ND G; cbn [fold_left].
  - exists (ltop G), (lbot G), (lcen G). split; [reflexivity|]. split; intro x; reflexivity.
  - inversion ND as [|? ? Ha NDr]; subst.
    match goal with |- context [fold_left ?f r ?G1] => destruct (IH NDr G1) as [LT [LB [LC [E [F1 F2]]]]] end.
    exists LT, LB, LC. split; [rewrite E; reflexivity|]. split; intro x; [rewrite F1|rewrite F2]; rewrite mem_cons; unfold lb, lt; gs;
      (destruct (Pos.eqb_spec x a) as [->|N]; cbn [orb]; [rewrite (notIn_mem_false _ _ Ha), fget_fset_eq; reflexivity|rewrite fget_fset_neq by exact N; reflexivity]).
Qed.
Lemma fold_npos_closed (f : geo -> id -> pt) l : forall G, exists NP, fold_left (fun acc n => set_npos acc (fset (npos acc) n (f acc n))) l G = set_npos G NP.
Proof.
  induction l as [|a r IH]; intro G; cbn [fold_left]; [exists (npos G); reflexivity|].
  destruct (IH (set_npos G (fset (npos G) a (f G a)))) as [NP E]. exists NP. rewrite E. reflexivity.
Qed.
Theorem translate_inv g dx dy dz : Inv g -> Inv (translate g dx dy dz).
Proof.
  intros [IS [D1 D2 D3]]. constructor; [apply translate_invS; exact IS|].
  unfold translate. cbv zeta.
  destruct (fold_npos_closed (fun acc n => pred2 (fst (np acc n) + dx, snd (np acc n) + dy)%Q) (nlist g) g) as [NP E1]. rewrite E1.
  pose proof (dl_nodup _ _ _ (s1_c g (i_s1 g IS))) as NDc. pose proof (dl_nodup _ _ _ (s1_l g (i_s1 g IS))) as NDl.
  destruct (translate_cols_closed (fun p => pred2 (fst p + dx, snd p + dy)%Q) dz (clist g) NDc (set_npos g NP)) as [CC [CS [E2 F2]]].
  change (clist (set_npos g NP)) with (clist g). rewrite E2.
  destruct (translate_lays_closed dz (llist g) NDl (set_csurf (set_ccen (set_npos g NP) CC) CS)) as [LT [LB [LC [E3 [F3 F4]]]]].
  change (llist (set_csurf (set_ccen (set_npos g NP) CC) CS)) with (llist g). rewrite E3.
  set (g' := set_lcen (set_lbot (set_ltop (set_csurf (set_ccen (set_npos g NP) CC) CS) LT) LB) LC).
  assert (Ecs : forall c, In c (clist g) -> cs g' c = shift_o dz (cs g c)).
  { intros c Hc. unfold g', cs. gs. rewrite F2, (In_mem_true _ _ Hc). reflexivity. }
  assert (Elb : forall l, In l (llist g) -> lb g' l = Qred (lb g l + dz)).
  { intros l Hl. unfold g', lb. gs. rewrite F3, (In_mem_true _ _ Hl). reflexivity. }
  assert (Elt : forall l, In l (llist g) -> lt g' l = Qred (lt g l + dz)).
  { intros l Hl. unfold g', lt. gs. rewrite F4, (In_mem_true _ _ Hl). reflexivity. }
  constructor.
  - exact D1.
  - intros c Hc. change (clist g') with (clist g) in Hc. change (cl g' c) with (cl g c). rewrite <- (D2 c Hc), (Ecs c Hc).
    unfold count_layers. change (llist g') with (llist g). destruct (tl (llist g)) as [|l r] eqn:Et; [reflexivity|].
    destruct (cs g c) as [s|]; [|reflexivity]. cbn [shift_o]. f_equal. f_equal. f_equal. apply filter_ext_in.
    intros x Hx. rewrite Elb by (apply tl_incl; rewrite Et; exact Hx). apply qltb_shift.
  - apply (n_S6 g g'); [|exact D3]. constructor; try reflexivity.
    + intros k _. split; reflexivity.
    + intros lay c Hl Hc. unfold above_bottom. rewrite (Ecs c Hc), (Elb lay Hl). destruct (cs g c) as [s|]; [|reflexivity].
      cbn [shift_o]. f_equal. apply qltb_shift.
    + intros lay c Hl Hc. unfold surf_le_top. rewrite (Ecs c Hc), (Elt lay Hl). destruct (cs g c) as [s|]; [|reflexivity].
      cbn [shift_o]. f_equal. apply qle_shift.
Qed.
