(** C10 -- executable model of the mulgrid edit state machine (mulgrids.py), part 1: the state
    accessors, Python [set]s of objects, exact rational plane geometry, and the primitive edits
    add_/delete_ node, column, connection, layer, well; rename_column; rename_layer; split_column;
    delete_orphans; identify_neighbours; identify_layer_tops; set_default_surface;
    set_column_num_layers; setup_block_name_index; setup_block_connection_name_index.

    Every operation follows the statement order of the Python method and returns [Raise e] where
    Python raises [e]; a sequence of edits stops at the first exception.  Ids are never reused,
    like live Python objects.  Coordinates and elevations are exact rationals (the correspondence
    run uses inputs on which the double arithmetic of the implementation is exact). *)
From Coq Require Import Ascii String List Bool PArith NArith ZArith QArith FMapPositive Lia.
From PTBase Require Import Exn PyStr.
From PTModel Require Import Names.
From P Require Import Assoc GeoState.
Import ListNotations.
Close Scope N_scope.
Close Scope char_scope.
Open Scope list_scope.

Definition key2_eqb (a b : key2) : bool := str_eqb (fst a) (fst b) && str_eqb (snd a) (snd b).
Lemma key2_spec a b : reflect (a = b) (key2_eqb a b).
Proof.
  destruct a as [a1 a2], b as [b1 b2]. unfold key2_eqb; cbn.
  destruct (str_eqb_spec a1 b1), (str_eqb_spec a2 b2); constructor; congruence.
Qed.
Lemma str_spec a b : reflect (a = b) (str_eqb a b).
Proof. apply str_eqb_spec. Qed.

(** ** attribute reads *)
Definition q0 : Q := 0.
Definition p0 : pt := (q0, q0).
Definition nn (g : geo) (i : id) : str := fget [] (nname g) i.
Definition np (g : geo) (i : id) : pt := fget p0 (npos g) i.
Definition ncs (g : geo) (i : id) : list id := fget [] (ncol g) i.
Definition cn (g : geo) (c : id) : str := fget [] (cname g) c.
Definition cns (g : geo) (c : id) : list id := fget [] (cnode g) c.
Definition cnb (g : geo) (c : id) : list id := fget [] (cnbr g) c.
Definition cks (g : geo) (c : id) : list id := fget [] (ccon g) c.
Definition cl (g : geo) (c : id) : Z := fget 0%Z (cnl g) c.
Definition cs (g : geo) (c : id) : option Q := fget None (csurf g) c.
Definition cc (g : geo) (c : id) : pt := fget p0 (ccen g) c.
Definition k0 (g : geo) (k : id) : id := fget 1%positive (kc0 g) k.
Definition k1 (g : geo) (k : id) : id := fget 1%positive (kc1 g) k.
Definition kn (g : geo) (k : id) : option (id * id) := fget None (knode g) k.
Definition ln (g : geo) (l : id) : str := fget [] (lname g) l.
Definition lb (g : geo) (l : id) : Q := fget q0 (lbot g) l.
Definition lc (g : geo) (l : id) : Q := fget q0 (lcen g) l.
Definition lt (g : geo) (l : id) : Q := fget q0 (ltop g) l.
Definition wn (g : geo) (w : id) : str := fget [] (wname g) w.
(** [(con.column[0].name, con.column[1].name)] *)
Definition kkey (g : geo) (k : id) : key2 := (cn g (k0 g k), cn g (k1 g k)).

Definition nget (g : geo) (n : str) : option id := aget str_eqb (ndict g) n.
Definition cget (g : geo) (n : str) : option id := aget str_eqb (cdict g) n.
Definition kget (g : geo) (k : key2) : option id := aget key2_eqb (kdict g) k.
Definition lget (g : geo) (n : str) : option id := aget str_eqb (ldict g) n.
Definition wget (g : geo) (n : str) : option id := aget str_eqb (wdict g) n.

(** [mulgrid()] / [empty()] *)
Definition empty_geo (cv at_ : nat) (f : fixes) : geo :=
  {| nname := fempty; npos := fempty; ncol := fempty;
     cname := fempty; cnode := fempty; cnbr := fempty; ccon := fempty; cnl := fempty; csurf := fempty; ccen := fempty;
     kc0 := fempty; kc1 := fempty; knode := fempty;
     lname := fempty; lbot := fempty; lcen := fempty; ltop := fempty; wname := fempty;
     nlist := []; ndict := []; clist := []; cdict := []; klist := []; kdict := [];
     llist := []; ldict := []; wlist := []; wdict := [];
     bnl := []; bcl := []; conv := cv; atm := at_; fx := f; next := 1%positive |}.

(** ** Python [set] of objects: [add], [remove] (KeyError), [discard] *)
Definition sadd (s : list id) (x : id) : list id := if mem x s then s else s ++ [x].
Definition sremove (s : list id) (x : id) : res (list id) := if mem x s then Ok (lremove s x) else Raise KeyError.
Definition sdiscard (s : list id) (x : id) : list id := if mem x s then lremove s x else s.

(** ** exact plane geometry (geometry.polygon_area, geometry.polygon_centroid) *)
Open Scope Q_scope.
Definition qltb (a b : Q) : bool := negb (Qle_bool b a).
Definition qcross (p q : pt) : Q := fst p * snd q - fst q * snd p.
Definition qsub (p s : pt) : pt := (fst p - fst s, snd p - snd s).
Definition qadd (p s : pt) : pt := (fst p + fst s, snd p + snd s).
Definition pred2 (p : pt) : pt := (Qred (fst p), Qred (snd p)).
(** pairs (p_j, p_{j+1 mod n}) *)
Definition rot1 {A} (l : list A) : list A := match l with [] => [] | a :: r => r ++ [a] end.
Definition cyc_pairs {A} (l : list A) : list (A * A) := combine l (rot1 l).
Definition qpoly_area (l : list pt) : Q :=
  match l with
  | [] => 0
  | s :: _ => let sh := map (fun p => qsub p s) l in
              Qred (fold_left (fun a pq => Qred (a + qcross (fst pq) (snd pq))) (cyc_pairs sh) 0 * (1 # 2))
  end.
Definition qcentroid (l : list pt) : pt :=
  match l with
  | [] => p0
  | s :: _ =>
      let sh := map (fun p => qsub p s) l in
      if (length l <? 3)%nat then
        let sm := fold_left qadd sh p0 in
        let n := inject_Z (Z.of_nat (length l)) in
        pred2 (qadd (fst sm / n, snd sm / n) s)
      else
        let acc := fold_left (fun (a : Q * pt) pq =>
                                let t := qcross (fst pq) (snd pq) in
                                (Qred (fst a + t), (Qred (fst (snd a) + (fst (fst pq) + fst (snd pq)) * t),
                                                    Qred (snd (snd a) + (snd (fst pq) + snd (snd pq)) * t))))
                             (cyc_pairs sh) (q0, p0) in
        let area := fst acc * (1 # 2) in
        pred2 (qadd (fst (snd acc) / (6 * area), snd (snd acc) / (6 * area)) s)
  end.

Close Scope Q_scope.

(** ** nodes *)
(** [node(name, pos)]: a fresh object with an empty column set *)
Definition new_node (g : geo) (name : str) (pos : pt) : geo :=
  let i := next g in
  set_next (set_ncol (set_npos (set_nname g (fset (nname g) i name)) (fset (npos g) i pos))
                     (fset (ncol g) i [])) (Pos.succ i).
(** [add_node(nod)]: ignored when the name is taken *)
Definition add_node_obj (g : geo) (i : id) : geo :=
  match nget g (nn g i) with
  | Some _ => g
  | None => set_ndict (set_nlist g (nlist g ++ [i])) (aset str_eqb (ndict g) (nn g i) i)
  end.
Definition add_node (g : geo) (name : str) (pos : pt) : geo := add_node_obj (new_node g name pos) (next g).
Definition delete_node (g : geo) (name : str) : res geo :=
  match nget g name with
  | None => Raise KeyError
  | Some i =>
      let g1 := set_ndict g (adel str_eqb (ndict g) name) in
      if mem i (nlist g1) then Ok (set_nlist g1 (lremove (nlist g1) i)) else Raise ValueError
  end.
Definition lookup_nodes (g : geo) : list str -> res (list id) :=
  fix go (ns : list str) : res (list id) :=
  match ns with
  | [] => Ok []
  | n :: r => match nget g n with
              | None => Raise KeyError
              | Some i => do l <- go r; Ok (i :: l)
              end
  end.

(** ** columns *)
Definition poly (g : geo) (ns : list id) : list pt := map (np g) ns.
(** [column(name, node, centre, surface)]: centre = centroid unless given, node order reversed when the area
    is negative, empty neighbour / connection sets, num_layers 0 *)
Definition new_col (g : geo) (name : str) (ns : list id) (centre : option pt) (surf : option Q) : geo :=
  let c := next g in
  let ns' := if qltb (qpoly_area (poly g ns)) 0 then rev ns else ns in
  let g := set_cname g (fset (cname g) c name) in
  let g := set_cnode g (fset (cnode g) c ns') in
  let g := set_cnbr g (fset (cnbr g) c []) in
  let g := set_ccon g (fset (ccon g) c []) in
  let g := set_cnl g (fset (cnl g) c 0%Z) in
  let g := set_csurf g (fset (csurf g) c surf) in
  let g := set_ccen g (fset (ccen g) c (match centre with Some p => p | None => qcentroid (poly g ns) end)) in
  set_next g (Pos.succ c).
(** [node.column.add(col)] *)
Definition ncol_add (g : geo) (n c : id) : geo := set_ncol g (fset (ncol g) n (sadd (ncs g n) c)).
Definition ncol_remove (g : geo) (n c : id) : res geo :=
  do s <- sremove (ncs g n) c; Ok (set_ncol g (fset (ncol g) n s)).
(** [add_column(col)]: ignored when the name is taken *)
Definition add_column_obj (g : geo) (c : id) : geo :=
  match cget g (cn g c) with
  | Some _ => g
  | None =>
      let g1 := set_cdict (set_clist g (clist g ++ [c])) (aset str_eqb (cdict g) (cn g c) c) in
      fold_left (fun acc n => ncol_add acc n c) (cns g c) g1
  end.
(** [geo.add_column(column(name, [geo.node[n] for n in names], centre, surf))] *)
Definition add_column (g : geo) (name : str) (names : list str) (centre : option pt) (surf : option Q) : res geo :=
  do ns <- lookup_nodes g names;
  Ok (add_column_obj (new_col g name ns centre surf) (next g)).

(** ** connections *)
Definition ccon_add (g : geo) (c k : id) : geo := set_ccon g (fset (ccon g) c (sadd (cks g c) k)).
Definition ccon_remove (g : geo) (c k : id) : res geo :=
  do s <- sremove (cks g c) k; Ok (set_ccon g (fset (ccon g) c s)).
Definition nbr_add (g : geo) (c d : id) : geo := set_cnbr g (fset (cnbr g) c (sadd (cnb g c) d)).
Definition nbr_remove (g : geo) (c d : id) : res geo :=
  do s <- sremove (cnb g c) d; Ok (set_cnbr g (fset (cnbr g) c s)).
Definition nbr_discard (g : geo) (c d : id) : geo := set_cnbr g (fset (cnbr g) c (sdiscard (cnb g c) d)).

(** [connection_nodes(cols)]: first pair of consecutive nodes of the first column (with more than
    two nodes) that both belong to the other one, in the order of the first column *)
Definition first_shared (la lb : list id) : option (id * id) :=
  find (fun nm => mem (fst nm) lb && mem (snd nm) lb) (cyc_pairs la).
Definition connection_nodes (g : geo) (a b : id) : option (id * id) :=
  if (2 <? length (cns g a))%nat then first_shared (cns g a) (cns g b)
  else if (2 <? length (cns g b))%nat then
    match first_shared (cns g b) (cns g a) with Some (n, m) => Some (m, n) | None => None end
  else None.
(** [connection([a, b])] *)
Definition new_conn (g : geo) (a b : id) : geo :=
  let k := next g in
  set_next (set_knode (set_kc1 (set_kc0 g (fset (kc0 g) k a)) (fset (kc1 g) k b)) (fset (knode g) k None)) (Pos.succ k).
(** [add_connection(con)]: ignored when the ordered pair of names is taken *)
Definition add_connection_obj (g : geo) (k : id) : geo :=
  let key := kkey g k in
  match kget g key with
  | Some _ => g
  | None =>
      let a := k0 g k in let b := k1 g k in
      let g1 := set_kdict (set_klist g (klist g ++ [k])) (aset key2_eqb (kdict g) key k) in
      let g2 := set_knode g1 (fset (knode g1) k (connection_nodes g1 a b)) in
      let g3 := ccon_add (ccon_add g2 a k) b k in
      if fx_nbr (fx g) then nbr_add (nbr_add g3 a b) b a else g3
  end.
(** [geo.add_connection(connection([geo.column[a], geo.column[b]]))] *)
Definition add_connection (g : geo) (a b : str) : res geo :=
  match cget g a, cget g b with
  | Some ca, Some cb => Ok (add_connection_obj (new_conn g ca cb) (next g))
  | _, _ => Raise KeyError
  end.
(** the repaired delete_connection forgets the two columns as neighbours unless another
    connection still joins them ([col0.connection & col1.connection] non-empty) *)
Definition still_joined (g : geo) (a b : id) : bool := existsb (fun k => mem k (cks g b)) (cks g a).
Definition delete_connection (g : geo) (key : key2) : res geo :=
  match kget g key with
  | None => Raise KeyError
  | Some k =>
      let a := k0 g k in let b := k1 g k in
      do g1 <- ccon_remove g a k;
      do g2 <- ccon_remove g1 b k;
      let g3 := set_kdict g2 (adel key2_eqb (kdict g2) key) in
      if mem k (klist g3) then
        let g4 := set_klist g3 (lremove (klist g3) k) in
        Ok (if fx_nbr (fx g) then (if still_joined g4 a b then g4 else nbr_discard (nbr_discard g4 a b) b a) else g4)
      else Raise ValueError
  end.

(** [delete_column(colname)] *)
Definition col_in_conn (g : geo) (c k : id) : bool := Pos.eqb (k0 g k) c || Pos.eqb (k1 g k) c.
Fixpoint delete_conns (g : geo) (ks : list id) : res geo :=
  match ks with [] => Ok g | k :: r => do g1 <- delete_connection g (kkey g k); delete_conns g1 r end.
Fixpoint nbrs_forget (g : geo) (ds : list id) (c : id) : res geo :=
  match ds with [] => Ok g | d :: r => do g1 <- nbr_remove g d c; nbrs_forget g1 r c end.
Fixpoint nodes_forget (g : geo) (ns : list id) (c : id) : res geo :=
  match ns with [] => Ok g | n :: r => do g1 <- ncol_remove g n c; nodes_forget g1 r c end.
Definition delete_column (g : geo) (name : str) : res geo :=
  match cget g name with
  | None => Raise KeyError
  | Some c =>
      do g1 <- delete_conns g (filter (col_in_conn g c) (klist g));
      do g2 <- nbrs_forget g1 (cnb g1 c) c;
      do g3 <- nodes_forget g2 (cns g2 c) c;
      let g4 := set_cdict g3 (adel str_eqb (cdict g3) name) in
      if mem c (clist g4) then Ok (set_clist g4 (lremove (clist g4) c)) else Raise ValueError
  end.

(** [identify_neighbours()] *)
Definition identify_neighbours (g : geo) : geo :=
  fold_left (fun acc k => nbr_add (nbr_add acc (k0 acc k) (k1 acc k)) (k1 acc k) (k0 acc k)) (klist g) g.

(** ** layers *)
Definition new_layer (g : geo) (name : str) (bottom centre top : Q) : geo :=
  let l := next g in
  set_next (set_ltop (set_lcen (set_lbot (set_lname g (fset (lname g) l name)) (fset (lbot g) l bottom))
                               (fset (lcen g) l centre)) (fset (ltop g) l top)) (Pos.succ l).
Definition add_layer_obj (g : geo) (l : id) : geo :=
  match lget g (ln g l) with
  | Some _ => g
  | None => set_ldict (set_llist g (llist g ++ [l])) (aset str_eqb (ldict g) (ln g l) l)
  end.
Definition add_layer (g : geo) (name : str) (bottom centre top : Q) : geo :=
  add_layer_obj (new_layer g name bottom centre top) (next g).
Definition delete_layer (g : geo) (name : str) : res geo :=
  match lget g name with
  | None => Raise KeyError
  | Some l =>
      let g1 := set_ldict g (adel str_eqb (ldict g) name) in
      if mem l (llist g1) then Ok (set_llist g1 (lremove (llist g1) l)) else Raise ValueError
  end.
(** [identify_layer_tops()] *)
Fixpoint tops_from (g : geo) (above : id) (ls : list id) : geo :=
  match ls with
  | [] => g
  | l :: r => tops_from (set_ltop g (fset (ltop g) l (lb g above))) l r
  end.
Definition identify_layer_tops (g : geo) : res geo :=
  match llist g with
  | [] => Raise IndexError
  | l0 :: r => Ok (tops_from (set_ltop g (fset (ltop g) l0 (lb g l0))) l0 r)
  end.

(** [len([layer for layer in self.layerlist[1:] if layer.bottom < col.surface])]: comparing with a
    [None] surface is a TypeError, raised only if there is a layer to compare with *)
Definition count_layers (g : geo) (s : option Q) : res Z :=
  match tl (llist g) with
  | [] => Ok 0%Z
  | rest => match s with
            | None => Raise TypeError
            | Some z => Ok (Z.of_nat (length (filter (fun l => qltb (lb g l) z) rest)))
            end
  end.
(** [set_column_num_layers(col)] *)
Definition set_column_num_layers (g : geo) (c : id) : res geo :=
  do n <- count_layers g (cs g c); Ok (set_cnl g (fset (cnl g) c n)).
(** [set_default_surface()] *)
Definition set_default_surface (g : geo) : res geo :=
  match llist g with
  | [] => Raise IndexError
  | l0 :: _ =>
      let ground := lb g l0 in
      let n := (Z.of_nat (length (ldict g)) - 1)%Z in
      Ok (fold_left (fun acc c => set_cnl (set_csurf acc (fset (csurf acc) c (Some ground))) (fset (cnl acc) c n)) (clist g) g)
  end.
(** [col = geo.column[name]; col.surface = z; geo.set_column_num_layers(col)] (read_surface, fit_surface) *)
Definition set_surface (g : geo) (name : str) (z : Q) : res geo :=
  match cget g name with
  | None => Raise KeyError
  | Some c => set_column_num_layers (set_csurf g (fset (csurf g) c (Some z))) c
  end.
Definition set_num_layers (g : geo) (name : str) : res geo :=
  match cget g name with None => Raise KeyError | Some c => set_column_num_layers g c end.

(** ** wells (positions are not modelled) *)
Definition new_well (g : geo) (name : str) : geo :=
  set_next (set_wname g (fset (wname g) (next g) name)) (Pos.succ (next g)).
Definition add_well_obj (g : geo) (w : id) : geo :=
  match wget g (wn g w) with
  | Some _ => g
  | None => set_wdict (set_wlist g (wlist g ++ [w])) (aset str_eqb (wdict g) (wn g w) w)
  end.
Definition add_well (g : geo) (name : str) : geo := add_well_obj (new_well g name) (next g).
Definition delete_well (g : geo) (name : str) : res geo :=
  match wget g name with
  | None => Raise KeyError
  | Some w =>
      let g1 := set_wdict g (adel str_eqb (wdict g) name) in
      if mem w (wlist g1) then Ok (set_wlist g1 (lremove (wlist g1) w)) else Raise ValueError
  end.

(** ** block names and the two derived lists *)
Definition block_name (g : geo) (lay col : str) : str :=
  fix_blockname (match conv g with
                 | 0%nat | 3%nat => firstn 3 col ++ firstn 2 lay
                 | 1%nat => firstn 3 lay ++ firstn 2 col
                 | _ => firstn 2 lay ++ firstn 3 col
                 end).
Definition atmosphere_column_name (g : geo) : str :=
  s2l (match conv g with 0%nat => "ATM" | 1%nat => " 0" | 2%nat => "  0" | _ => "ATM" end)%string.
(** [col.surface > lay.bottom] *)
Definition above_bottom (g : geo) (lay c : id) : res bool :=
  match cs g c with None => Raise TypeError | Some s => Ok (qltb (lb g lay) s) end.
Fixpoint filterM {A} (f : A -> res bool) (l : list A) : res (list A) :=
  match l with
  | [] => Ok []
  | a :: r => do b <- f a; do r' <- filterM f r; Ok (if b then a :: r' else r')
  end.
Definition layer_cols (g : geo) (lay : id) : res (list id) := filterM (above_bottom g lay) (clist g).
(** [setup_block_name_index()] (block_order None / 'layer_column') *)
Definition fresh_bnl (g : geo) : res (list str) :=
  if (length (ldict g) =? 0)%nat then Ok []
  else
    do atmn <- match atm g with
               | 0%nat => match llist g with
                          | [] => Raise IndexError
                          | l0 :: _ => Ok [block_name g (ln g l0) (atmosphere_column_name g)]
                          end
               | 1%nat => match clist g with
                          | [] => Ok []
                          | _ => match llist g with
                                 | [] => Raise IndexError
                                 | l0 :: _ => Ok (map (fun c => block_name g (ln g l0) (cn g c)) (clist g))
                                 end
                          end
               | _ => Ok []
               end;
    do under <- mapM (fun lay => do cols <- layer_cols g lay;
                                 Ok (map (fun c => block_name g (ln g lay) (cn g c)) cols)) (tl (llist g));
    Ok (atmn ++ concat under).
(** [setup_block_connection_name_index()]: one layer.  [first]: ilay == 0; [prev]: layerlist[ilay] *)
(** [col.surface <= lay.top] *)
Definition surf_le_top (g : geo) (lay c : id) : res bool :=
  match cs g c with None => Raise TypeError | Some s => Ok (Qle_bool s (lt g lay)) end.
Definition vertical_names (g : geo) (first : bool) (prev lay : id) (cols : list id) : res (list key2) :=
  do per <- mapM (fun c =>
      let this := block_name g (ln g lay) (cn g c) in
      do below <- surf_le_top g lay c;
      if first || below then
        match atm g with
        | 0%nat => match bnl g with [] => Raise IndexError | b0 :: _ => Ok [(this, b0)] end
        | 1%nat => match llist g with
                   | [] => Raise IndexError
                   | l0 :: _ => Ok [(this, block_name g (ln g l0) (cn g c))]
                   end
        | _ => Ok []
        end
      else Ok [(this, block_name g (ln g prev) (cn g c))]) cols;
  Ok (concat per).
Definition horizontal_names (g : geo) (lay : id) (cols : list id) : list key2 :=
  map (fun k => (block_name g (ln g lay) (cn g (k0 g k)), block_name g (ln g lay) (cn g (k1 g k))))
      (filter (fun k => mem (k0 g k) cols && mem (k1 g k) cols) (klist g)).
(** ([g] is not an argument of the fixpoint: states that differ in unrelated fields give convertible terms) *)
Definition conn_names_from (g : geo) : bool -> id -> list id -> res (list key2) :=
  fix go (first : bool) (prev : id) (ls : list id) {struct ls} : res (list key2) :=
  match ls with
  | [] => Ok []
  | lay :: r =>
      do cols <- layer_cols g lay;
      do v <- vertical_names g first prev lay cols;
      do rest <- go false lay r;
      Ok (v ++ horizontal_names g lay cols ++ rest)
  end.
Definition fresh_bcl (g : geo) : res (list key2) :=
  match llist g with
  | [] => Ok []
  | l0 :: r => conn_names_from g true l0 r
  end.
Definition setup_block_name_index (g : geo) : res geo := do l <- fresh_bnl g; Ok (set_bnl g l).
Definition setup_block_connection_name_index (g : geo) : res geo := do l <- fresh_bcl g; Ok (set_bcl g l).
Definition setup_names (g : geo) : res geo :=
  do g1 <- setup_block_name_index g; setup_block_connection_name_index g1.

(** ** rename_column / rename_layer *)
(** the loop body; [(g, false)]: a ValueError (object filed but not listed) ended the loop at [g] *)
Fixpoint rename_cols (g : geo) (prs : list (str * str)) : res (geo * bool) :=
  match prs with
  | [] => Ok (g, true)
  | (old, new) :: r =>
      match cget g old with
      | None => Raise KeyError
      | Some c =>
          if mem c (clist g) then
            let g1 := set_cname g (fset (cname g) c new) in
            rename_cols (set_cdict g1 (aset str_eqb (adel str_eqb (cdict g1) old) new c)) r
          else Ok (g, false)
      end
  end.
(** the repaired rename_column files every connection under the current names of its columns:
    [self.connection = dict([((c.column[0].name, c.column[1].name), c) for c in self.connectionlist])] *)
Definition rekey_connections (g : geo) : geo :=
  set_kdict g (fold_left (fun acc k => aset key2_eqb acc (kkey g k) k) (klist g) []).
Definition rename_column (g : geo) (olds news : list str) : res geo :=
  do gb <- rename_cols g (combine olds news);
  if snd gb then setup_names (if fx_rename (fx g) then rekey_connections (fst gb) else fst gb)
  else Ok (fst gb).
Fixpoint rename_lays (g : geo) (prs : list (str * str)) : res (geo * bool) :=
  match prs with
  | [] => Ok (g, true)
  | (old, new) :: r =>
      match lget g old with
      | None => Raise KeyError
      | Some l =>
          if mem l (llist g) then
            let g1 := set_lname g (fset (lname g) l new) in
            rename_lays (set_ldict g1 (aset str_eqb (adel str_eqb (ldict g1) old) new l)) r
          else Ok (g, false)
      end
  end.
Definition rename_layer (g : geo) (olds news : list str) : res geo :=
  do gb <- rename_lays g (combine olds news);
  if snd gb then setup_names (fst gb) else Ok (fst gb).

(** ** new names: new_dict_key(d, istart, justfn, colname_length, chars = ascii_lowercase, spaces = True) *)
Definition lowercase : str := s2l "abcdefghijklmnopqrstuvwxyz".
Definition colname_length (g : geo) : nat := match conv g with 1%nat => 2 | _ => 3 end.
(** [right_justified_names] (as repaired by 61b1858): n = 2 if convention == 2 else 3;
    all(blkname[0:n] == blkname[0:n].strip().rjust(n) for blkname in block_name_list) *)
Definition right_justified_names (g : geo) : bool :=
  let n := match conv g with 2%nat => 2%nat | _ => 3%nat end in
  forallb (fun b => str_eqb (firstn n b) (rjust n (strip (firstn n b)))) (bnl g).
Definition just (g : geo) (s : str) : str :=
  if right_justified_names g then rjust (colname_length g) s else ljust (colname_length g) s.
Fixpoint new_key_from {V} (d : list (str * V)) (jf : str -> str) (fuel : nat) (i : N) : res (str * N) :=
  match fuel with
  | O => Raise OutOfFuel
  | S f =>
      let i1 := (i + 1)%N in
      let nm := jf (name lowercase i1) in
      match aget str_eqb d nm with
      | Some _ => new_key_from d jf f i1
      | None => Ok (nm, i1)
      end
  end.
(** [new_column_name(istart, justfn)] / [new_node_name]: NamingConventionError when too long *)
Definition new_name {V} (g : geo) (d : list (str * V)) (istart : N) : res (str * N) :=
  do ni <- new_key_from d (just g) (S (length d)) istart;
  if (colname_length g <? length (fst ni))%nat then Raise NamingConventionError else Ok ni.

(** ** split_column(colname, nodename) *)
(** [del l[i]] *)
Fixpoint remove_nth {A} (i : nat) (l : list A) : list A :=
  match l with [] => [] | a :: r => match i with O => r | S j => a :: remove_nth j r end end.
Fixpoint index_of (x : str) (l : list str) (i : nat) : option nat :=
  match l with [] => None | y :: r => if str_eqb x y then Some i else index_of x r (S i) end.
(** the loop over [list(col.connection)]: connections to a neighbour that holds node n3 move to col2 *)
Fixpoint swap_conns (g : geo) (ks : list id) (n3cols : list id) (c2 : id) (sc sn : list id) : geo * list id * list id :=
  match ks with
  | [] => (g, sc, sn)
  | k :: r =>
      if mem (k0 g k) n3cols then swap_conns (set_kc1 g (fset (kc1 g) k c2)) r n3cols c2 (sc ++ [k]) (sn ++ [k0 g k])
      else if mem (k1 g k) n3cols then swap_conns (set_kc0 g (fset (kc0 g) k c2)) r n3cols c2 (sc ++ [k]) (sn ++ [k1 g k])
      else swap_conns g r n3cols c2 sc sn
  end.
Fixpoint move_conns (g : geo) (sc : list id) (c c2 : id) : res geo :=
  match sc with
  | [] => Ok g
  | k :: r => do g1 <- ccon_remove g c k; move_conns (ccon_add g1 c2 k) r c c2
  end.
Fixpoint move_nbrs (g : geo) (sn : list id) (c c2 : id) : res geo :=
  match sn with
  | [] => Ok g
  | d :: r =>
      do g1 <- nbr_remove g c d;
      do g2 <- nbr_remove g1 d c;
      move_nbrs (nbr_add (nbr_add g2 c2 d) d c2) r c c2
  end.
Definition split_column (g : geo) (colname nodename : str) : res geo :=
  match cget g colname with
  | None => Ok g
  | Some c =>
      match cns g c with
      | [_; _; _; _] =>
          match index_of nodename (map (nn g) (cns g c)) 0 with
          | None => Ok g                                           (* ValueError: return False *)
          | Some i0 =>
              let at_ j := nth ((i0 + j) mod 4) (cns g c) 1%positive in
              do ni <- new_name g (cdict g) 0;
              let c2 := next g in
              let g := new_col g (fst ni) [at_ 2%nat; at_ 3%nat; at_ 0%nat] None (cs g c) in
              let n3 := at_ 3%nat in
              let n3cols := filter (fun d => mem n3 (cns g d)) (cnb g c) in
              let '(g, sc, sn) := swap_conns g (cks g c) n3cols c2 [] [] in
              do g <- move_conns g sc c c2;
              do g <- move_nbrs g sn c c2;
              let g := set_cnode g (fset (cnode g) c (remove_nth ((i0 + 3) mod 4) (cns g c))) in
              do g <- (if fx_split (fx g) then ncol_remove g n3 c else Ok g);
              let g := set_ccen g (fset (ccen g) c (qcentroid (poly g (cns g c)))) in
              let g := add_column_obj g c2 in
              do g <- set_column_num_layers g c2;
              let g := add_connection_obj (new_conn g c c2) (next g) in
              let g := if fx_split (fx g) then rekey_connections (nbr_add (nbr_add g c c2) c2 c) else g in
              setup_names g
          end
      | _ => Ok g
      end
  end.

(** ** delete_orphans() *)
Fixpoint delete_nodes (g : geo) (names : list str) : res geo :=
  match names with [] => Ok g | n :: r => do g1 <- delete_node g n; delete_nodes g1 r end.
Definition orphans (g : geo) : list id := filter (fun i => match ncs g i with [] => true | _ => false end) (nlist g).
Definition delete_orphans (g : geo) : res geo := delete_nodes g (map (nn g) (orphans g)).
