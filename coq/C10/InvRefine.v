(** C10 -- refine(columns) without bisection.

    The mid-side nodes are kept in a dictionary keyed by the unordered pair of the names of the two end
    nodes of the side; a side shared by two columns is therefore looked up from both of them and gives
    the same node.  The proofs carry three facts about the dictionary: the two orders of a pair are never
    both present ([sym_free]), different sides give different nodes ([sn_inj]), the nodes are new ones. *)
From Coq Require Import Ascii String List Bool PArith NArith ZArith QArith FMapPositive Permutation Lia.
From PTBase Require Import Exn PyStr.
From P Require Import Assoc GeoState GeoEdit GeoEdit2 Inv InvNames InvSimple Sets InvCol InvConn InvDel InvRefresh InvRename InvCompound InvSplit2 InvSnap InvDecomp.
Import ListNotations.
Open Scope list_scope.

(** ** the dictionary of mid-side nodes *)
Definition same_sideb (a b a' b' : str) : bool := key2_eqb (a', b') (a, b) || key2_eqb (a', b') (b, a).
Definition sym_free (sn : sidemap) : Prop :=
  forall a b, a <> b -> aget key2_eqb sn (a, b) <> None -> aget key2_eqb sn (b, a) = None.

Lemma key2_eqb_eq a b : key2_eqb a b = true <-> a = b.
Proof. destruct (key2_spec a b); split; intro; congruence. Qed.
Lemma key2_eqb_refl a : key2_eqb a a = true.
Proof. apply key2_eqb_eq. reflexivity. Qed.
Lemma key2_eqb_swap a b a' b' : key2_eqb (a', b') (a, b) = key2_eqb (b', a') (b, a).
Proof.
  destruct (key2_spec (a', b') (a, b)) as [E|N], (key2_spec (b', a') (b, a)) as [E'|N']; try reflexivity.
  - exfalso. apply N'. inversion E. reflexivity.
  - exfalso. apply N. inversion E'. reflexivity.
Qed.
Lemma same_sideb_sym a b a' b' : same_sideb a b a' b' = same_sideb a b b' a'.
Proof. unfold same_sideb. rewrite (key2_eqb_swap a b a' b'), (key2_eqb_swap b a a' b'). apply orb_comm. Qed.
Lemma same_sideb_true a b a' b' : same_sideb a b a' b' = true <-> (a' = a /\ b' = b) \/ (a' = b /\ b' = a).
Proof.
  unfold same_sideb. rewrite orb_true_iff, !key2_eqb_eq. split; intros [H|H]; [left|right|left|right]; try (inversion H; auto); destruct H; congruence.
Qed.

Lemma side_get_sym sn a b : sym_free sn -> side_get sn a b = side_get sn b a.
Proof.
  intro S. unfold side_get. destruct (str_spec a b) as [->|N]; [reflexivity|].
  destruct (aget key2_eqb sn (a, b)) as [v|] eqn:E1.
  - rewrite (S a b N) by congruence. reflexivity.
  - destruct (aget key2_eqb sn (b, a)); reflexivity.
Qed.

Lemma side_get_set sn a b v a' b' : sym_free sn -> a <> b ->
  side_get (side_set sn a b v) a' b' = if same_sideb a b a' b' then Some v else side_get sn a' b'.
Proof.
  intros S N. unfold side_set, side_get, same_sideb.
  assert (Sw : key2_eqb (b', a') (a, b) = key2_eqb (a', b') (b, a)) by (rewrite (key2_eqb_swap b a a' b'); reflexivity).
  assert (Sw' : key2_eqb (b', a') (b, a) = key2_eqb (a', b') (a, b)) by (rewrite (key2_eqb_swap a b a' b'); reflexivity).
  destruct (aget key2_eqb sn (a, b)) as [w|] eqn:E1.
  - rewrite !(aget_aset key2_eqb key2_spec), Sw. destruct (key2_spec (a', b') (a, b)) as [X|X]; [reflexivity|]. cbn [orb].
    destruct (key2_spec (a', b') (b, a)) as [Y|Y]; [|reflexivity].
    inversion Y; subst a' b'. rewrite (S a b N) by congruence. reflexivity.
  - destruct (aget key2_eqb sn (b, a)) as [w|] eqn:E2.
    + rewrite !(aget_aset key2_eqb key2_spec), Sw'. destruct (key2_spec (a', b') (b, a)) as [Y|Y].
      * rewrite orb_true_r. reflexivity.
      * rewrite orb_false_r. destruct (key2_spec (a', b') (a, b)) as [X|X]; [|reflexivity].
        inversion X; subst a' b'. rewrite E1. reflexivity.
    + rewrite !(aget_aset key2_eqb key2_spec), Sw. destruct (key2_spec (a', b') (a, b)) as [X|X]; [reflexivity|]. cbn [orb].
      destruct (key2_spec (a', b') (b, a)) as [Y|Y]; [|reflexivity].
      inversion Y; subst a' b'. rewrite E2. reflexivity.
Qed.
Lemma sym_free_set sn a b v : sym_free sn -> a <> b -> sym_free (side_set sn a b v).
Proof.
  intros S N x y Nxy H.
  (* go through the keys: the new table has the keys of the old one, plus (a, b) when neither order was present *)
  unfold side_set in *. destruct (aget key2_eqb sn (a, b)) as [w|] eqn:E1.
  - rewrite !(aget_aset key2_eqb key2_spec) in *. destruct (key2_spec (y, x) (a, b)) as [X|X].
    + inversion X; subst y x. destruct (key2_spec (b, a) (a, b)) as [Y|Y]; [inversion Y; congruence|]. exfalso. apply H. apply (S a b N). congruence.
    + destruct (key2_spec (x, y) (a, b)) as [Y|Y]; [inversion Y; subst x y; apply (S a b N); congruence|apply (S x y Nxy H)].
  - destruct (aget key2_eqb sn (b, a)) as [w|] eqn:E2.
    + rewrite !(aget_aset key2_eqb key2_spec) in *. destruct (key2_spec (y, x) (b, a)) as [X|X].
      * inversion X; subst y x. destruct (key2_spec (a, b) (b, a)) as [Y|Y]; [inversion Y; congruence|]. congruence.
      * destruct (key2_spec (x, y) (b, a)) as [Y|Y]; [inversion Y; subst x y; exact E1|apply (S x y Nxy H)].
    + rewrite !(aget_aset key2_eqb key2_spec) in *. destruct (key2_spec (y, x) (a, b)) as [X|X].
      * inversion X; subst y x. destruct (key2_spec (b, a) (a, b)) as [Y|Y]; [inversion Y; congruence|]. congruence.
      * destruct (key2_spec (x, y) (a, b)) as [Y|Y]; [inversion Y; subst x y; exact E2|apply (S x y Nxy H)].
Qed.
Lemma sym_free_nil : sym_free [].
Proof. intros a b _ H. exfalso. apply H. reflexivity. Qed.

(** different sides give different nodes; every node of the table satisfies [Pv] *)
Definition sn_inj (sn : sidemap) : Prop :=
  forall a b a' b' v, side_get sn a b = Some v -> side_get sn a' b' = Some v -> same_sideb a b a' b' = true.
Definition sn_vals (Pv : id -> Prop) (sn : sidemap) : Prop := forall a b v, side_get sn a b = Some v -> Pv v.
Lemma sn_inj_set sn a b v : sym_free sn -> a <> b -> sn_inj sn -> (forall x y, side_get sn x y <> Some v) -> sn_inj (side_set sn a b v).
Proof.
  intros S N I Fv x y x' y' w H H'. rewrite (side_get_set sn a b v _ _ S N) in H. rewrite (side_get_set sn a b v _ _ S N) in H'.
  destruct (same_sideb a b x y) eqn:E1, (same_sideb a b x' y') eqn:E2.
  - apply same_sideb_true in E1, E2. apply same_sideb_true. destruct E1 as [[-> ->]|[-> ->]], E2 as [[-> ->]|[-> ->]]; auto.
  - inversion H; subst w. exfalso. exact (Fv _ _ H').
  - inversion H'; subst w. exfalso. exact (Fv _ _ H).
  - exact (I _ _ _ _ _ H H').
Qed.
Lemma sn_vals_set (Pv : id -> Prop) sn a b v : sym_free sn -> a <> b -> sn_vals Pv sn -> Pv v -> sn_vals Pv (side_set sn a b v).
Proof.
  intros S N V Hv x y w H. rewrite (side_get_set sn a b v _ _ S N) in H.
  destruct (same_sideb a b x y); [inversion H; subst; exact Hv|exact (V _ _ _ H)].
Qed.
Lemma sn_vals_weaken (P Q : id -> Prop) sn : (forall v, P v -> Q v) -> sn_vals P sn -> sn_vals Q sn.
Proof. intros H V a b v E. apply H. exact (V a b v E). Qed.

(** ** the vertices of a refined column: corners, mid-side nodes, the centre node *)
Lemma mapM_vtx_eq f l : mapM_vtx f l = mapM f l.
Proof. induction l as [|a r IH]; cbn; [reflexivity|]. rewrite IH. reflexivity. Qed.

Definition vtx_okb (n : nat) (v : vtx) : bool :=
  match v with Vc i => (i <? n)%nat | Vm i j => (i <? n)%nat && (j <? n)%nat | Vcen => true end.
Definition vtx_eqv (v w : vtx) : bool :=
  match v, w with
  | Vc i, Vc j => (i =? j)%nat
  | Vm i j, Vm i' j' => ((i =? i') && (j =? j'))%nat || ((i =? j') && (j =? i'))%nat
  | Vcen, Vcen => true
  | _, _ => false
  end.
Fixpoint nodupv (row : list vtx) : bool :=
  match row with [] => true | v :: r => negb (existsb (vtx_eqv v) r) && nodupv r end.
Definition row_okb (n : nat) (row : list vtx) : bool :=
  (3 <=? length row)%nat && forallb (vtx_okb n) row && nodupv row.

Lemma tables_ok n nref irange subs : transition_column n nref irange = Some subs -> forallb (row_okb n) subs = true.
Proof.
  unfold transition_column.
  destruct n as [|[|[|[|[|n]]]]]; try discriminate;
  destruct nref as [|[|[|[|[|nref]]]]]; try discriminate;
  destruct irange as [|[|[|[|irange]]]]; try discriminate; intro H; inversion H; reflexivity.
Qed.

Section VResolve.
  Variables (nodes : list id) (names : id -> str) (istart : nat) (cen : option id) (sn : sidemap).
  Definition corner (i : nat) : id := nth ((istart + i) mod length nodes) nodes 1%positive.
  Definition vval (v : vtx) : res id :=
    match v with
    | Vc i => Ok (corner i)
    | Vcen => match cen with Some x => Ok x | None => Raise KeyError end
    | Vm i j => match side_get sn (names (corner i)) (names (corner j)) with Some x => Ok x | None => Raise KeyError end
    end.
  Hypothesis ND : NoDup nodes.
  Hypothesis Len : (0 < length nodes)%nat.
  Hypothesis NI : forall x y, In x nodes -> In y nodes -> names x = names y -> x = y.
  Hypothesis Cen : forall x, cen = Some x -> ~ In x nodes /\ forall a b, side_get sn a b <> Some x.
  Hypothesis SV : sn_vals (fun v => ~ In v nodes) sn.
  Hypothesis SI : sn_inj sn.

  Lemma corner_in i : In (corner i) nodes.
  Proof. unfold corner. apply nth_In. apply Nat.mod_upper_bound. lia. Qed.
  Lemma corner_inj i j : (i < length nodes)%nat -> (j < length nodes)%nat -> corner i = corner j -> i = j.
  Proof.
    intros Hi Hj H. unfold corner in H. apply (add_mod_inj (length nodes) istart i j Hi Hj).
    apply (proj1 (NoDup_nth nodes 1%positive) ND); [apply Nat.mod_upper_bound; lia..|exact H].
  Qed.
  Lemma vval_inj v w a : vtx_okb (length nodes) v = true -> vtx_okb (length nodes) w = true ->
    vval v = Ok a -> vval w = Ok a -> vtx_eqv v w = true.
  Proof.
    intros Ov Ow Hv Hw. destruct v as [i|i j|], w as [i'|i' j'|]; cbn [vval vtx_eqv vtx_okb] in *.
    - apply Nat.ltb_lt in Ov, Ow. inversion Hv as [Ev]. inversion Hw as [Ew]. apply Nat.eqb_eq. apply corner_inj; congruence.
    - exfalso. inversion Hv as [Ev]. destruct (side_get _ _ _) as [x|] eqn:E; [|discriminate]. inversion Hw; subst x.
      apply (SV _ _ _ E). rewrite <- Ev. apply corner_in.
    - exfalso. inversion Hv as [Ev]. destruct cen as [x|] eqn:E; [|discriminate]. inversion Hw; subst x.
      apply (proj1 (Cen a eq_refl)). rewrite <- Ev. apply corner_in.
    - exfalso. inversion Hw as [Ew]. destruct (side_get _ _ _) as [x|] eqn:E; [|discriminate]. inversion Hv; subst x.
      apply (SV _ _ _ E). rewrite <- Ew. apply corner_in.
    - destruct (side_get sn (names (corner i)) (names (corner j))) as [x|] eqn:E; [|discriminate]. inversion Hv; subst x.
      destruct (side_get sn (names (corner i')) (names (corner j'))) as [x|] eqn:E'; [|discriminate]. inversion Hw; subst x.
      pose proof (SI _ _ _ _ _ E E') as Q. apply same_sideb_true in Q.
      apply andb_prop in Ov, Ow. destruct Ov as [O1 O2], Ow as [O3 O4]. apply Nat.ltb_lt in O1, O2, O3, O4.
      apply orb_true_iff. destruct Q as [[Q1 Q2]|[Q1 Q2]]; [left|right]; apply andb_true_intro; split; apply Nat.eqb_eq;
        symmetry; apply corner_inj; try assumption; apply NI; try apply corner_in; assumption.
    - exfalso. destruct (side_get _ _ _) as [x|] eqn:E; [|discriminate]. inversion Hv; subst x.
      destruct cen as [x|] eqn:Ec; [|discriminate]. inversion Hw; subst x. exact (proj2 (Cen a eq_refl) _ _ E).
    - exfalso. inversion Hw as [Ew]. destruct cen as [x|] eqn:E; [|discriminate]. inversion Hv; subst x.
      apply (proj1 (Cen a eq_refl)). rewrite <- Ew. apply corner_in.
    - exfalso. destruct (side_get _ _ _) as [x|] eqn:E; [|discriminate]. inversion Hw; subst x.
      destruct cen as [x|] eqn:Ec; [|discriminate]. inversion Hv; subst x. exact (proj2 (Cen a eq_refl) _ _ E).
    - reflexivity.
  Qed.
  Lemma vval_in v a : vval v = Ok a -> In a nodes \/ cen = Some a \/ exists x y, side_get sn x y = Some a.
  Proof.
    clear Cen SV SI NI ND. destruct v as [i|i j|]; cbn [vval]; intro H.
    - inversion H; subst a. left. apply corner_in.
    - destruct (side_get _ _ _) as [x|] eqn:E; [|discriminate]. inversion H; subst x. right. right. eauto.
    - destruct cen as [x|]; [|discriminate]. inversion H; subst. auto.
  Qed.
  Lemma mapM_vval row : forall ns, row_okb (length nodes) row = true -> mapM vval row = Ok ns ->
    NoDup ns /\ (3 <= length ns)%nat /\ forall a, In a ns -> exists v, In v row /\ vval v = Ok a.
  Proof.
    intros ns H. unfold row_okb in H. apply andb_prop in H. destruct H as [H C]. apply andb_prop in H. destruct H as [A B].
    apply Nat.leb_le in A. revert A. generalize 3%nat as m. revert ns B C.
    induction row as [|v r IH]; intros ns B C m A H; cbn [mapM] in H.
    - inversion H; subst. split; [constructor|]. split; [exact A|intros a []].
    - destruct (vval v) as [x|] eqn:E; cbn [bind] in H; [|discriminate].
      destruct (mapM vval r) as [xs|] eqn:Er; cbn [bind] in H; [|discriminate]. inversion H; subst ns.
      cbn [forallb] in B. apply andb_prop in B. destruct B as [Bv Br].
      cbn [nodupv] in C. apply andb_prop in C. destruct C as [Cv Cr]. apply negb_true_iff in Cv.
      destruct (IH xs Br Cr (pred m) ltac:(cbn [length] in A; lia) eq_refl) as [X [Y Z]]. split; [|split].
      + constructor; [|exact X]. intro Hx. destruct (Z x Hx) as [w [Hw Ew]].
        assert (Q : existsb (vtx_eqv v) r = true).
        { apply existsb_exists. exists w. split; [exact Hw|]. apply (vval_inj v w x Bv); [|exact E|exact Ew].
          exact (proj1 (forallb_forall _ _) Br w Hw). }
        congruence.
      + cbn [length] in *. lia.
      + intros a [<-|Ha]; [exists v; split; [left; reflexivity|exact E]|]. destruct (Z a Ha) as [w [Hw Ew]]. exists w. split; [right; exact Hw|exact Ew].
  Qed.
End VResolve.

Lemma add_node_closed g n p : nget g n = None ->
  add_node g n p = set_ndict (set_nlist (new_node g n p) (nlist g ++ [next g])) (aset str_eqb (ndict g) n (next g)).
Proof.
  intro H. unfold add_node, add_node_obj.
  assert (E : nn (new_node g n p) (next g) = n) by (unfold new_node; gsu; apply fget_fset_eq). rewrite E.
  change (nget (new_node g n p) n) with (nget g n). rewrite H. reflexivity.
Qed.

(** a new node / column of [g'] that [g] did not have *)
Definition used_by_new (g g' : geo) (a : id) : Prop :=
  exists c', In c' (clist g') /\ ~ In c' (clist g) /\ In a (cns g' c').

(** ** the sub-columns of one refined column *)
Lemma sub_columns_invM (P : Prop) c istart cen sn nodes names subs : forall g colnum g' num',
  InvMp P g -> In c (clist g) -> cns g c = nodes -> (forall x, In x nodes -> nn g x = names x) ->
  (forall x y, In x nodes -> In y nodes -> names x = names y -> x = y) ->
  (forall x, cen = Some x -> In x (nlist g) /\ ~ In x nodes /\ forall a b, side_get sn a b <> Some x) ->
  sn_vals (fun v => In v (nlist g) /\ ~ In v nodes) sn -> sn_inj sn ->
  forallb (row_okb (length nodes)) subs = true ->
  sub_columns g c istart cen sn subs colnum = Ok (g', num') ->
  InvMp P g' /\ keeps g g' /\ nlist g' = nlist g /\
  (forall row v a, In row subs -> In v row -> vval nodes names istart cen sn v = Ok a -> used_by_new g g' a).
Proof.
  induction subs as [|sub r IH]; intros g colnum g' num' IM Hc Ens Hnm NI Hcen SV SI Hok H; cbn [sub_columns] in H.
  - inversion H; subst. split; [exact IM|]. split; [apply keeps_refl|]. split; [reflexivity|]. intros row v a [].
  - cbv zeta in H. destruct (new_name g (cdict g) colnum) as [ni|] eqn:En; cbn [bind] in H; [|discriminate].
    pose proof (new_name_fresh g (cdict g) colnum ni En) as Fresh.
    pose proof (proj1 IM) as IS.
    assert (NDn : NoDup nodes) by (rewrite <- Ens; apply (i_s5p g IS c Hc)).
    assert (Ln : (3 <= length nodes)%nat) by (rewrite <- Ens; apply (i_s5p g IS c Hc)).
    assert (Hold : forall x, In x nodes -> In x (nlist g)) by (intros x Hx; rewrite <- Ens in Hx; exact (s2_in g (i_s2 g IS) c Hc x Hx)).
    rewrite Ens, mapM_vtx_eq in H.
    cbn [forallb] in Hok. apply andb_prop in Hok. destruct Hok as [Hrow Hok'].
    assert (Ef : forall v, vtx_okb (length nodes) v = true ->
              match v with
              | Vc i => Ok (nth ((istart + i) mod length nodes) nodes 1%positive)
              | Vm i j => match side_get sn (nn g (nth ((istart + i) mod length nodes) nodes 1%positive))
                                        (nn g (nth ((istart + j) mod length nodes) nodes 1%positive)) with
                          | Some x => Ok x | None => Raise KeyError end
              | Vcen => match cen with Some x => Ok x | None => Raise KeyError end
              end = vval nodes names istart cen sn v).
    { intros v _. destruct v as [i|i j|]; cbn [vval]; try reflexivity.
      fold (corner nodes istart i). fold (corner nodes istart j).
      rewrite !Hnm by (apply corner_in; lia). reflexivity. }
    assert (Okrow : forallb (vtx_okb (length nodes)) sub = true).
    { unfold row_okb in Hrow. apply andb_prop in Hrow. destruct Hrow as [Hrow _]. apply andb_prop in Hrow. apply Hrow. }
    rewrite (mapM_ext_in _ (vval nodes names istart cen sn) sub) in H
      by (intros v Hv; apply Ef; exact (proj1 (forallb_forall _ _) Okrow v Hv)).
    destruct (mapM (vval nodes names istart cen sn) sub) as [ns|] eqn:Em; cbn [bind] in H; [|discriminate].
    destruct (mapM_vval nodes names istart cen sn NDn ltac:(lia) NI
               ltac:(intros x Hx; destruct (Hcen x Hx) as [_ [A B]]; split; assumption)
               ltac:(intros a b v E; exact (proj2 (SV a b v E))) SI sub ns Hrow Em) as [NDns [Lns Inns]].
    destruct (sub_step P g c (fst ni) ns IM Hc Fresh) as [El [IM2 [Hc2 [Ens2 [_ [Enl2 [Efx2 [_ [_ [K2 [Enx2 [Ecl2 Ecns2]]]]]]]]]]]].
    + intros a Ha. destruct (Inns a Ha) as [v [Hv Ev]].
      destruct (vval_in nodes names istart cen sn ltac:(lia) v a Ev) as [X|[X|[x [y X]]]]; [exact (Hold a X)|exact (proj1 (Hcen a X))|exact (proj1 (SV x y a X))].
    + exact NDns.
    + exact Lns.
    + rewrite El in H.
      match type of H with sub_columns ?G _ _ _ _ _ _ = _ => set (g2 := G) in * end.
      assert (Hnm2 : forall x, In x nodes -> nn g2 x = names x).
      { intros x Hx. rewrite (proj2 (kp_n _ _ K2 x (Hold x Hx))). exact (Hnm x Hx). }
      destruct (IH g2 (snd ni) g' num' IM2 Hc2 ltac:(rewrite Ens2; exact Ens) Hnm2 NI
                  ltac:(intros x Hx; rewrite Enl2; exact (Hcen x Hx))
                  ltac:(intros a b v E; rewrite Enl2; exact (SV a b v E)) SI Hok' H) as [IM' [K' [Enl' U']]].
      split; [exact IM'|]. split; [exact (keeps_trans _ _ _ K2 K')|]. split; [rewrite Enl'; exact Enl2|].
      intros row v a [<-|Hrow'] Hv Ev.
      * (* the column just created *)
        assert (Ha : In a ns).
        { clear - Em Hv Ev. revert ns Em. induction sub as [|w s IHs]; intros ns Em; [destruct Hv|]. cbn [mapM] in Em.
          destruct (vval nodes names istart cen sn w) as [x|] eqn:E; cbn [bind] in Em; [|discriminate].
          destruct (mapM _ s) as [xs|] eqn:Es; cbn [bind] in Em; [|discriminate]. inversion Em; subst ns.
          destruct Hv as [<-|Hv]; [left; congruence|right; apply (IHs Hv xs eq_refl)]. }
        assert (Hnew : In (next g) (clist g2)) by (apply Ecl2; right; reflexivity).
        destruct (kp_c _ _ K' (next g) Hnew) as [X1 [X2 _]].
        exists (next g). split; [exact X1|]. split.
        -- intro Y. apply (fr_c g (i_fr g IS)) in Y. lia.
        -- rewrite X2. apply Ecns2. exact Ha.
      * destruct (U' row v a Hrow' Hv Ev) as [c' [Y1 [Y2 Y3]]]. exists c'. split; [exact Y1|]. split; [|exact Y3].
        intro Z. apply Y2. apply Ecl2. left. exact Z.
Qed.

Lemma used_mono g g1 g2 g3 a : (forall x, In x (clist g) -> In x (clist g1)) -> used_by_new g1 g2 a -> keeps g2 g3 -> used_by_new g g3 a.
Proof.
  intros Hin [c' [A [B C]]] K. destruct (kp_c _ _ K c' A) as [X [Y _]]. exists c'. split; [exact X|]. split; [|rewrite Y; exact C].
  intro Z. apply B. apply Hin. exact Z.
Qed.
Lemma keeps_clist g g' : keeps g g' -> forall x, In x (clist g) -> In x (clist g').
Proof. intros K x Hx. exact (proj1 (kp_c _ _ K x Hx)). Qed.

(** ** every refined side of a column is used by one of its sub-columns *)
Definition row_has_side (n istart i : nat) (row : list vtx) : bool :=
  existsb (fun v => match v with
                    | Vm p q => (((istart + p) mod n =? i) && ((istart + q) mod n =? (i + 1) mod n))%nat
                                || (((istart + q) mod n =? i) && ((istart + p) mod n =? (i + 1) mod n))%nat
                    | _ => false end) row.
Definition covers (n : nat) (sides : list nat) : bool :=
  match transition_type n sides with
  | None => true
  | Some (nref, istart, irange) =>
      match transition_column n nref irange with
      | None => true
      | Some subs => forallb (fun i => existsb (row_has_side n istart i) subs) sides
      end
  end.
Lemma covers_all n f : n = 3%nat \/ n = 4%nat -> covers n (filter f (seq 0 n)) = true.
Proof.
  intros [->| ->]; cbn [seq filter];
    destruct (f 0%nat), (f 1%nat), (f 2%nat); try destruct (f 3%nat); vm_compute; reflexivity.
Qed.

(** ** the loop over the columns to refine *)
Definition side_node (g : geo) (sn : sidemap) (c : id) (i : nat) : option id :=
  side_get sn (nn g (nth i (cns g c) 1%positive)) (nn g (nth ((i + 1) mod length (cns g c)) (cns g c) 1%positive)).

Lemma refine_columns_invM (P : Prop) gb sn cols : forall g nodenum colnum g' nn' cn',
  InvMp P g -> keeps gb g -> InvS gb -> sym_free sn ->
  (forall c, In c cols -> In c (clist gb)) ->
  sn_vals (fun v => In v (nlist gb) /\ forall c, In c (clist gb) -> ~ In v (cns gb c)) sn -> sn_inj sn ->
  refine_columns g cols sn nodenum colnum = Ok (g', nn', cn') ->
  InvMp P g' /\ keeps g g' /\
  (forall a, In a (nlist g') -> ~ In a (nlist g) -> used_by_new g g' a) /\
  (forall c i v, In c cols -> length (cns gb c) = 3%nat \/ length (cns gb c) = 4%nat -> (i < length (cns gb c))%nat ->
                 side_node gb sn c i = Some v -> used_by_new g g' v).
Proof.
  induction cols as [|c r IH]; intros g nodenum colnum g' nn' cn' IM K ISb SF Hcols SV SI H; cbn [refine_columns] in H.
  - inversion H; subst. split; [exact IM|]. split; [apply keeps_refl|]. split; [intros a X Y; contradiction|intros c i v []].
  - cbv zeta in H.
    assert (Hcb : In c (clist gb)) by (apply Hcols; left; reflexivity).
    destruct (kp_c _ _ K c Hcb) as [Hc [Ens [_ _]]].
    pose proof (proj1 IM) as IS.
    set (nodes := cns gb c) in *.
    assert (NDn : NoDup nodes) by (apply (i_s5p gb ISb c Hcb)).
    assert (Ln : (3 <= length nodes)%nat) by (apply (i_s5p gb ISb c Hcb)).
    assert (Holdb : forall x, In x nodes -> In x (nlist gb)) by (intros x Hx; exact (s2_in gb (i_s2 gb ISb) c Hcb x Hx)).
    assert (Hnm : forall x, In x nodes -> nn g x = nn gb x) by (intros x Hx; exact (proj2 (kp_n _ _ K x (Holdb x Hx)))).
    assert (NI : forall x y, In x nodes -> In y nodes -> nn gb x = nn gb y -> x = y).
    { intros x y Hx Hy E. apply (DL_inj str_eqb str_spec _ _ _ _ _ (s1_n gb (i_s1 gb ISb))); auto. }
    rewrite Ens in H.
    (* the refined sides, read through the names of the state [gb] *)
    assert (Esides : filter (fun i => match side_get sn (nn g (nth i nodes 1%positive)) (nn g (nth ((i + 1) mod length nodes) nodes 1%positive)) with
                                      | Some _ => true | None => false end) (seq 0 (length nodes)) =
                     filter (fun i => match side_node gb sn c i with Some _ => true | None => false end) (seq 0 (length nodes))).
    { apply filter_ext_in. intros i Hi. apply in_seq in Hi. unfold side_node. fold nodes.
      rewrite !Hnm by (apply nth_In; try apply Nat.mod_upper_bound; lia). reflexivity. }
    rewrite Esides in H. clear Esides.
    set (sides := filter _ (seq 0 (length nodes))) in *.
    destruct (transition_type (length nodes) sides) as [[[nref istart] irange]|] eqn:Et; [|discriminate].
    (* the centre node *)
    match type of H with (do gc <- ?X; _) = _ => set (pre := X) in * end.
    assert (Pre : exists g1 cen nodenum1, pre = Ok (g1, cen, nodenum1) /\ InvMp P g1 /\ keeps g g1 /\
              (forall x, cen = Some x -> In x (nlist g1) /\ ~ In x (nlist g)) /\
              (forall a, In a (nlist g1) -> ~ In a (nlist g) -> cen = Some a)).
    { unfold pre in *. clear pre. destruct (_ && _).
      - destruct (new_name g (ndict g) nodenum) as [ni|] eqn:En; cbn [bind] in H |- *; [|discriminate].
        pose proof (new_name_fresh g (ndict g) nodenum ni En) as Fresh.
        destruct (add_node_frame g (fst ni) (cc g c) c (i_fr g IS) Hc Fresh) as [_ [_ [_ [_ [A5 _]]]]].
        assert (Enl : nlist (add_node g (fst ni) (cc g c)) = nlist g ++ [next g]) by (rewrite (add_node_closed g (fst ni) _ Fresh); reflexivity).
        rewrite Enl, last_opt_snoc in H |- *. eexists _, _, _. split; [reflexivity|].
        split; [apply add_node_invM; exact IM|]. split; [apply keeps_add_node; exact (i_fr g IS)|]. split.
        + intros x Hx. inversion Hx; subst x. split; [rewrite Enl; apply in_snoc; right; reflexivity|].
          intro X. apply (fr_n g (i_fr g IS)) in X. lia.
        + intros a Ha Na. rewrite Enl in Ha. apply in_snoc in Ha. destruct Ha as [Ha| ->]; [contradiction|]. reflexivity.
      - eexists _, _, _. split; [reflexivity|]. split; [exact IM|]. split; [apply keeps_refl|]. split; [intros x Hx; discriminate|].
        intros a Ha Na. contradiction. }
    destruct Pre as [g1 [cen [nodenum1 [Eq [IM1 [K1 [Hcen Hnew1]]]]]]]. rewrite Eq in H. cbn [bind] in H.
    destruct (transition_column (length nodes) nref irange) as [subs|] eqn:Etc; [|discriminate].
    destruct (sub_columns g1 c istart cen sn subs colnum) as [[gn cnum]|] eqn:Es; cbn [bind fst snd] in H; [|discriminate].
    destruct (kp_c _ _ K1 c Hc) as [Hc1 [Ens1 _]].
    assert (Hnm1 : forall x, In x nodes -> nn g1 x = nn gb x).
    { intros x Hx. destruct (kp_n _ _ K x (Holdb x Hx)) as [X Y]. rewrite (proj2 (kp_n _ _ K1 x X)). exact Y. }
    assert (Kb1 : keeps gb g1) by exact (keeps_trans _ _ _ K K1).
    destruct (sub_columns_invM P c istart cen sn nodes (nn gb) subs g1 colnum gn cnum IM1 Hc1 ltac:(rewrite Ens1; exact Ens) Hnm1 NI) as [IMn [Kn [Enln Un]]].
    + intros x Hx. destruct (Hcen x Hx) as [A B]. split; [exact A|]. split.
      * intro X. apply B. exact (proj1 (kp_n _ _ K x (Holdb x X))).
      * intros a b E. destruct (SV a b x E) as [Y _]. apply B. exact (proj1 (kp_n _ _ K x Y)).
    + intros a b v E. destruct (SV a b v E) as [Y Z]. split; [exact (proj1 (kp_n _ _ Kb1 v Y))|exact (Z c Hcb)].
    + exact SI.
    + exact (tables_ok _ _ _ _ Etc).
    + exact Es.
    + destruct (IH gn nodenum1 cnum g' nn' cn' IMn (keeps_trans _ _ _ Kb1 Kn) ISb SF
                  ltac:(intros x Hx; apply Hcols; right; exact Hx) SV SI H) as [IM' [K' [N' U']]].
      assert (Kgn : keeps g gn) by exact (keeps_trans _ _ _ K1 Kn).
      split; [exact IM'|]. split; [exact (keeps_trans _ _ _ Kgn K')|]. split.
      * (* nodes created in the loop *)
        intros a Ha Na. destruct (in_dec Pos.eq_dec a (nlist gn)) as [Hgn|Ngn].
        -- rewrite Enln in Hgn. pose proof (Hnew1 a Hgn Na) as Ec.
           (* the centre node: the tables that ask for one use it *)
           assert (Uc : exists row, In row subs /\ In Vcen row).
           { revert Eq. unfold pre. clear - Etc Ec. destruct (_ && _) eqn:Eb.
             - intros _. apply andb_prop in Eb. destruct Eb as [E4 Eb]. apply Nat.eqb_eq in E4. rewrite E4 in Etc.
               apply orb_prop in Eb. destruct Eb as [Eb|Eb].
               + apply Nat.eqb_eq in Eb. subst nref. unfold transition_column in Etc.
                 destruct irange as [|[|[|[|?]]]]; try discriminate. inversion Etc; subst subs. eexists. split; [left; reflexivity|cbn; auto].
               + apply andb_prop in Eb. destruct Eb as [E2 E1]. apply Nat.eqb_eq in E2, E1. subst nref irange.
                 inversion Etc; subst subs. eexists. split; [left; reflexivity|cbn; auto].
             - intro X. inversion X; subst. discriminate. }
           destruct Uc as [row [Hrow Hv]].
           apply (used_mono g g1 gn g' a (keeps_clist _ _ K1)); [|exact K'].
           apply (Un row Vcen a Hrow Hv). cbn [vval]. rewrite Ec. reflexivity.
        -- apply (used_mono g gn g' g' a (keeps_clist _ _ Kgn)); [|apply keeps_refl]. apply N'; assumption.
      * intros c' i v [<-|Hc'] L34 Hi Ev.
        -- (* a refined side of this column *)
           fold nodes in L34, Hi. unfold side_node in Ev. fold nodes in Ev.
           assert (Hs : In i sides).
           { unfold sides. apply filter_In. split; [apply in_seq; lia|]. unfold side_node. fold nodes. rewrite Ev. reflexivity. }
           pose proof (covers_all (length nodes) (fun i => match side_node gb sn c i with Some _ => true | None => false end) L34) as Cv.
           fold sides in Cv. unfold covers in Cv. rewrite Et, Etc in Cv.
           pose proof (proj1 (forallb_forall _ _) Cv i Hs) as Ci. apply existsb_exists in Ci. destruct Ci as [row [Hrow Hr]].
           unfold row_has_side in Hr. apply existsb_exists in Hr. destruct Hr as [w [Hw Ew]].
           destruct w as [?|p q|]; try discriminate.
           apply (used_mono g g1 gn g' v (keeps_clist _ _ K1)); [|exact K'].
           apply (Un row (Vm p q) v Hrow Hw). cbn [vval]. unfold corner.
           apply orb_prop in Ew. destruct Ew as [Ew|Ew]; apply andb_prop in Ew; destruct Ew as [E1 E2]; apply Nat.eqb_eq in E1, E2; rewrite E1, E2.
           ++ rewrite Ev. reflexivity.
           ++ rewrite (side_get_sym sn _ _ SF), Ev. reflexivity.
        -- apply (used_mono g gn g' g' v (keeps_clist _ _ Kgn)); [|apply keeps_refl]. exact (U' c' i v Hc' L34 Hi Ev).
Qed.

(** ** the sides of a polygon by position *)
Lemma rot1_nth {A} (l : list A) d i : (i < length l)%nat -> nth i (rot1 l) d = nth ((i + 1) mod length l) l d.
Proof.
  destruct l as [|a r]; [cbn; lia|]. cbn [rot1 length]. intro Hi.
  destruct (Nat.eq_dec i (length r)) as [->|Ni].
  - rewrite app_nth2 by lia. rewrite Nat.sub_diag. replace (length r + 1)%nat with (S (length r)) by lia. rewrite Nat.mod_same by lia. reflexivity.
  - rewrite app_nth1 by lia. rewrite Nat.mod_small by lia. replace (i + 1)%nat with (S i) by lia. reflexivity.
Qed.
Lemma rot1_length {A} (l : list A) : length (rot1 l) = length l.
Proof. destruct l as [|a r]; [reflexivity|]. cbn. rewrite app_length. cbn. lia. Qed.
Lemma cyc_pairs_nth {A} (l : list A) d x y : In (x, y) (cyc_pairs l) ->
  exists i, (i < length l)%nat /\ x = nth i l d /\ y = nth ((i + 1) mod length l) l d.
Proof.
  unfold cyc_pairs. intro H. apply (In_nth _ _ (d, d)) in H. destruct H as [i [Hi E]].
  rewrite combine_length, rot1_length, Nat.min_id in Hi. rewrite combine_nth in E by (rewrite rot1_length; reflexivity).
  inversion E as [[E1 E2]]. exists i. split; [exact Hi|]. split; [reflexivity|]. rewrite rot1_nth by exact Hi. reflexivity.
Qed.

(** [x], [y] name the two ends of a side of one of the columns [cols] *)
Definition is_side (g : geo) (cols : list id) (x y : str) : Prop :=
  exists c i, In c cols /\ (i < length (cns g c))%nat /\
    same_sideb x y (nn g (nth i (cns g c) 1%positive)) (nn g (nth ((i + 1) mod length (cns g c)) (cns g c) 1%positive)) = true.

(** ** the state while the mid-side nodes are created: the columns and connections are those of [g0].
    [C]: the case in which no entry of the dictionary is ever overwritten (then every new node stays in it) *)
Record MidI (P C : Prop) (g0 : geo) (cols : list id) (g : geo) (sn : sidemap) : Prop := {
  mi_inv : InvMp P g;
  mi_keeps : keeps g0 g;
  mi_clist : clist g = clist g0;
  mi_cdict : cdict g = cdict g0;
  mi_cks : ccon g = ccon g0;
  mi_klist : klist g = klist g0;
  mi_kdict : kdict g = kdict g0;
  mi_k : knode g = knode g0 /\ kc0 g = kc0 g0 /\ kc1 g = kc1 g0;
  mi_cnode : cnode g = cnode g0;
  mi_sf : sym_free sn;
  mi_vals : sn_vals (fun v => In v (nlist g) /\ ~ In v (nlist g0)) sn;
  mi_inj : sn_inj sn;
  mi_new : C -> forall a, In a (nlist g) -> ~ In a (nlist g0) -> exists x y, side_get sn x y = Some a /\ is_side g0 cols x y }.

Lemma same_sideb_refl a b : same_sideb a b a b = true.
Proof. unfold same_sideb. rewrite key2_eqb_refl. reflexivity. Qed.
Lemma side_get_same sn a b x y : sym_free sn -> same_sideb a b x y = true -> side_get sn x y = side_get sn a b.
Proof. intros S H. apply same_sideb_true in H. destruct H as [[-> ->]|[-> ->]]; [reflexivity|apply side_get_sym; exact S]. Qed.

Lemma create_mid_node_MidI (P C : Prop) g0 cols g sn n1 n2 num g1 sn1 num1 : InvS g0 -> MidI P C g0 cols g sn ->
  In n1 (nlist g0) -> In n2 (nlist g0) -> n1 <> n2 ->
  (C -> side_get sn (nn g0 n1) (nn g0 n2) = None /\ is_side g0 cols (nn g0 n1) (nn g0 n2)) ->
  create_mid_node g n1 n2 sn num = Ok (g1, sn1, num1) ->
  MidI P C g0 cols g1 sn1 /\ sn1 = side_set sn (nn g0 n1) (nn g0 n2) (next g) /\ nn g0 n1 <> nn g0 n2.
Proof.
  intros IS0 M H1 H2 N12 HC H. destruct M as [IM K Ecl Ecd Ecc Ekl Ekd Ek Ecn SF SV SI NW].
  pose proof (proj1 IM) as IS.
  unfold create_mid_node in H. destruct (new_name g (ndict g) num) as [ni|] eqn:En; cbn [bind] in H; [|discriminate].
  pose proof (new_name_fresh g (ndict g) num ni En) as Fresh.
  rewrite (add_node_closed g (fst ni) _ Fresh) in H. revert H. gsg. rewrite last_opt_snoc. intro H. inversion H; subst g1 sn1 num1. clear H.
  rewrite <- (add_node_closed g (fst ni) (qmid (np g n1) (np g n2)) Fresh).
  rewrite (proj2 (kp_n _ _ K n1 H1)), (proj2 (kp_n _ _ K n2 H2)).
  assert (Nn : nn g0 n1 <> nn g0 n2).
  { intro E. apply N12. apply (DL_inj str_eqb str_spec _ _ _ _ _ (s1_n g0 (i_s1 g0 IS0))); assumption. }
  assert (Enl : nlist (add_node g (fst ni) (qmid (np g n1) (np g n2))) = nlist g ++ [next g]) by (rewrite (add_node_closed g (fst ni) _ Fresh); reflexivity).
  assert (Lt : forall v, In v (nlist g) -> v <> next g) by (intros v Hv ->; apply (fr_n g (i_fr g IS)) in Hv; lia).
  assert (Fv : forall x y, side_get sn x y <> Some (next g)) by (intros x y E; apply (Lt _ (proj1 (SV x y _ E))); reflexivity).
  assert (N0 : ~ In (next g) (nlist g0)) by (intro X; apply (Lt _ (proj1 (kp_n _ _ K _ X))); reflexivity).
  split; [|split; [reflexivity|exact Nn]]. constructor.
  - apply add_node_invM. exact IM.
  - exact (keeps_trans _ _ _ K (keeps_add_node g _ _ (i_fr g IS))).
  - rewrite (add_node_closed g (fst ni) _ Fresh). exact Ecl.
  - rewrite (add_node_closed g (fst ni) _ Fresh). exact Ecd.
  - rewrite (add_node_closed g (fst ni) _ Fresh). exact Ecc.
  - rewrite (add_node_closed g (fst ni) _ Fresh). exact Ekl.
  - rewrite (add_node_closed g (fst ni) _ Fresh). exact Ekd.
  - rewrite (add_node_closed g (fst ni) _ Fresh). exact Ek.
  - rewrite (add_node_closed g (fst ni) _ Fresh). exact Ecn.
  - apply sym_free_set; assumption.
  - apply sn_vals_set; try assumption.
    + intros a b v E. destruct (SV a b v E) as [X Y]. split; [rewrite Enl; apply in_snoc; left; exact X|exact Y].
    + split; [rewrite Enl; apply in_snoc; right; reflexivity|exact N0].
  - apply sn_inj_set; assumption.
  - intros HCc a Ha Na. destruct (HC HCc) as [Hnone Hside]. rewrite Enl in Ha. apply in_snoc in Ha. destruct Ha as [Ha| ->].
    + destruct (NW HCc a Ha Na) as [x [y [E Sd]]]. exists x, y. split; [|exact Sd].
      rewrite (side_get_set sn _ _ _ x y SF Nn). destruct (same_sideb (nn g0 n1) (nn g0 n2) x y) eqn:Es; [|exact E].
      rewrite (side_get_same sn _ _ x y SF Es) in E. congruence.
    + exists (nn g0 n1), (nn g0 n2). split; [|exact Hside].
      rewrite (side_get_set sn _ _ _ _ _ SF Nn), same_sideb_refl. reflexivity.
Qed.

(** the connections to refine: their sides are sides of the columns [cols], different connections lie on different sides *)
Definition conn_side_of (g0 : geo) (cols : list id) (k : id) : Prop :=
  forall a b, kn g0 k = Some (a, b) -> is_side g0 cols (nn g0 a) (nn g0 b).
Definition conn_sides_differ (g0 : geo) (k k' : id) : Prop :=
  forall a b a' b', kn g0 k = Some (a, b) -> kn g0 k' = Some (a', b') -> same_sideb (nn g0 a) (nn g0 b) (nn g0 a') (nn g0 b') = false.

Lemma FOP_cons_inv {A} (R : A -> A -> Prop) a l : ForallOrdPairs R (a :: l) -> Forall (R a) l /\ ForallOrdPairs R l.
Proof. intro H. inversion H; subst. auto. Qed.
Lemma mid_nodes_conns_MidI (P C : Prop) g0 cols ks : forall g sn num g' sn' num',
  InvS g0 -> MidI P C g0 cols g sn -> (forall k, In k ks -> In k (klist g0)) ->
  (C -> (forall k, In k ks -> conn_side_of g0 cols k /\ forall a b, kn g0 k = Some (a, b) -> side_get sn (nn g0 a) (nn g0 b) = None) /\
        ForallOrdPairs (conn_sides_differ g0) ks) ->
  mid_nodes_conns g ks sn num = Ok (g', sn', num') -> MidI P C g0 cols g' sn'.
Proof.
  induction ks as [|k r IH]; intros g sn num g' sn' num' IS0 M Hks HC H; cbn [mid_nodes_conns] in H.
  - inversion H; subst. exact M.
  - assert (Hk : In k (klist g0)) by (apply Hks; left; reflexivity).
    assert (Ekg : kn g k = kn g0 k) by (unfold kn; rewrite (proj1 (mi_k _ _ _ _ _ _ M)); reflexivity). rewrite Ekg in H.
    destruct (i_s4 g0 IS0 k Hk) as [a [b [Ekn [Nab [A1 [B1 _]]]]]]. rewrite Ekn in H.
    destruct (s3_ends g0 (i_s3a g0 IS0) k Hk) as [Hc0 _].
    pose proof (s2_in g0 (i_s2 g0 IS0) _ Hc0 a A1) as Ha. pose proof (s2_in g0 (i_s2 g0 IS0) _ Hc0 b B1) as Hb.
    destruct (create_mid_node g a b sn num) as [[[g1 sn1] num1]|] eqn:Ec; cbn [bind] in H; [|discriminate].
    destruct (create_mid_node_MidI P C g0 cols g sn a b num g1 sn1 num1 IS0 M Ha Hb Nab) as [M1 [Esn1 Nn]]; [|exact Ec|].
    + intro HCc. destruct (HC HCc) as [X _]. destruct (X k (or_introl eq_refl)) as [Y Z]. split; [exact (Z a b Ekn)|exact (Y a b Ekn)].
    + apply (IH g1 sn1 num1 g' sn' num' IS0 M1); [intros k' Hk'; apply Hks; right; exact Hk'| |exact H].
      intro HCc. destruct (HC HCc) as [X Y]. destruct (FOP_cons_inv _ _ _ Y) as [Yk Yr]. split; [|exact Yr].
      intros k' Hk'. destruct (X k' (or_intror Hk')) as [X1 X2]. split; [exact X1|].
      intros a' b' Ekn'. rewrite Esn1, (side_get_set sn _ _ _ _ _ (mi_sf _ _ _ _ _ _ M) Nn).
      rewrite (proj1 (Forall_forall _ _) Yk k' Hk' a b a' b' Ekn Ekn'). exact (X2 a' b' Ekn').
Qed.

Lemma mid_nodes_sides_MidI (P C : Prop) g0 cols sides bdy : forall g sn num g' sn' num',
  InvS g0 -> MidI P C g0 cols g sn ->
  (forall a b, In (a, b) sides -> In a (nlist g0) /\ In b (nlist g0) /\ a <> b /\ (C -> is_side g0 cols (nn g0 a) (nn g0 b))) ->
  mid_nodes_sides g sides bdy sn num = Ok (g', sn', num') -> MidI P C g0 cols g' sn'.
Proof.
  induction sides as [|[a b] r IH]; intros g sn num g' sn' num' IS0 M Hs H; cbn [mid_nodes_sides] in H.
  - inversion H; subst. exact M.
  - destruct (Hs a b (or_introl eq_refl)) as [Ha [Hb [Nab Sd]]].
    assert (Hr : forall x y, In (x, y) r -> In x (nlist g0) /\ In y (nlist g0) /\ x <> y /\ (C -> is_side g0 cols (nn g0 x) (nn g0 y))) by (intros x y Hxy; apply Hs; right; exact Hxy).
    rewrite (proj2 (kp_n _ _ (mi_keeps _ _ _ _ _ _ M) a Ha)), (proj2 (kp_n _ _ (mi_keeps _ _ _ _ _ _ M) b Hb)) in H.
    destruct (mem a bdy && mem b bdy); cbn [andb] in H; [|exact (IH _ _ _ _ _ _ IS0 M Hr H)].
    destruct (side_get sn (nn g0 a) (nn g0 b)) as [v|] eqn:Eg; [exact (IH _ _ _ _ _ _ IS0 M Hr H)|].
    destruct (create_mid_node g a b sn num) as [[[g1 sn1] num1]|] eqn:Ec; cbn [bind] in H; [|discriminate].
    destruct (create_mid_node_MidI P C g0 cols g sn a b num g1 sn1 num1 IS0 M Ha Hb Nab) as [M1 _]; [|exact Ec|].
    + intro HCc. split; [exact Eg|exact (Sd HCc)].
    + exact (IH _ _ _ _ _ _ IS0 M1 Hr H).
Qed.

(** ** the old columns deleted: the new ones stay *)
Lemma delete_column_exact g name g' : InvS g -> delete_column g name = Ok g' ->
  exists c, cget g name = Some c /\ clist g' = lremove (clist g) c /\ cnode g' = cnode g /\ cname g' = cname g /\ nlist g' = nlist g.
Proof.
  intros IS H. unfold delete_column in H. destruct (cget g name) as [c|] eqn:E; [|discriminate]. exists c. split; [reflexivity|].
  destruct (delete_conns g (filter (col_in_conn g c) (klist g))) as [g1|] eqn:E1; cbn [bind] in H; [|discriminate].
  assert (X1 : forall k, In k (filter (col_in_conn g c) (klist g)) -> In k (klist g)) by (intros k Hk; apply filter_In in Hk; apply Hk).
  assert (X2 : NoDup (filter (col_in_conn g c) (klist g))) by (apply NoDup_filter; apply (dl_nodup _ _ _ (i_s1k g IS))).
  destruct (delete_conns_spec _ g g1 IS X1 X2 E1) as [_ [[C [D [L [NB [Eg1 _]]]]] _]].
  destruct (nbrs_forget g1 (cnb g1 c) c) as [g2|] eqn:E2; cbn [bind] in H; [|discriminate].
  destruct (nbrs_forget_closed _ _ _ _ E2) as [mb [_ Eg2]].
  destruct (nodes_forget g2 (cns g2 c) c) as [g3|] eqn:E3; cbn [bind] in H; [|discriminate].
  destruct (nodes_forget_closed _ _ _ _ E3) as [mn [_ Eg3]].
  revert H. gs. destruct (mem c (clist g3)); [|discriminate]. intro H. inversion H; subst g'. subst g3 g2 g1. gsg. auto.
Qed.
Lemma delete_columns_new_stay (P : Prop) names : forall g gi g', InvS g -> InvMp P gi ->
  (forall x, In x (clist gi) -> In x (clist g)) -> cname gi = cname g ->
  delete_columns gi names = Ok g' ->
  InvMp P g' /\ fx g' = fx gi /\ cnode g' = cnode gi /\ nlist g' = nlist gi /\
  forall c', In c' (clist gi) -> (forall c0, In c0 (clist g) -> In (cn g c0) names -> c' <> c0) -> In c' (clist g').
Proof.
  induction names as [|n r IH]; intros g gi g' IS IMi Hsub Ecn H; cbn [delete_columns] in H.
  - inversion H; subst. auto 10.
  - destruct (delete_column gi n) as [g1|] eqn:E; cbn [bind] in H; [|discriminate].
    destruct (delete_column_invM P gi n g1 IMi E) as [IM1 F1].
    destruct (delete_column_exact gi n g1 (proj1 IMi) E) as [c [Ec [Ecl [Ecno [Ecna Enl]]]]].
    destruct (s1_cget gi n c (i_s1 gi (proj1 IMi)) Ec) as [Hc Hn].
    pose proof (dl_nodup _ _ _ (s1_c gi (i_s1 gi (proj1 IMi)))) as NDc.
    destruct (IH g g1 g' IS IM1) as [A [B [C [D F]]]]; [| |exact H|].
    + intros x Hx. rewrite Ecl in Hx. apply lremove_incl in Hx. apply Hsub. exact Hx.
    + congruence.
    + split; [exact A|]. split; [congruence|]. split; [congruence|]. split; [congruence|].
      intros c' Hc' Hne. apply F.
      * rewrite Ecl. apply (In_lremove _ _ _ NDc). split; [exact Hc'|]. intros ->.
        apply (Hne c (Hsub c Hc)); [|reflexivity]. left. unfold cn in *. rewrite <- Ecn. symmetry. exact Hn.
      * intros c0 H0 Hin. apply Hne; [exact H0|right; exact Hin].
Qed.

(** ** the missing connections: no stale neighbour appears, the layer counts stay *)
Lemma add_connection_sound g a b g' : InvS g -> nbrs_sound g -> S5n g -> add_connection g a b = Ok g' ->
  nbrs_sound g' /\ S5n g' /\ clist g' = clist g /\ cnode g' = cnode g /\ nlist g' = nlist g.
Proof.
  intros IS Snd D2 H. unfold add_connection in H.
  destruct (cget g a) as [ca|] eqn:Ea; [|discriminate]. destruct (cget g b) as [cb|] eqn:Eb; [|discriminate].
  inversion H; subst g'; clear H. pose proof (i_fr g IS) as F.
  destruct (s1_cget g a ca (i_s1 g IS) Ea) as [Ha _]. destruct (s1_cget g b cb (i_s1 g IS) Eb) as [Hb _].
  destruct (new_conn_facts g ca cb) as [E0 [E1 [Ens [Enm Enb]]]].
  pose proof (agree_new_conn g ca cb F) as Ag.
  assert (Snd1 : nbrs_sound (new_conn g ca cb)).
  { intros c Hc. change (In c (clist g)) in Hc. rewrite Enb. destruct (Snd c Hc) as [X Y]. split; [exact X|].
    intros d Hd. apply (agree_joined g _ Ag). exact (Y d Hd). }
  assert (D2n : S5n (new_conn g ca cb)) by (apply (agree_S5n g); assumption).
  set (g1 := new_conn g ca cb) in *. set (k := next g) in *.
  assert (Fr1 : clist g1 = clist g /\ cnode g1 = cnode g /\ nlist g1 = nlist g) by (split; [|split]; reflexivity).
  clearbody g1. destruct Fr1 as [R1 [R2 R3]]. rewrite <- R1, <- R2, <- R3. rewrite <- R1 in Ha, Hb. clear R1 R2 R3 Ag Ens Enm Enb D2 Snd IS F Ea Eb.
  destruct (Snd1 ca Ha) as [Xa Ya]. destruct (Snd1 cb Hb) as [Xb Yb].
  unfold add_connection_obj. destruct (kget g1 (kkey g1 k)); [auto 10|]. cbv zeta.
  assert (J : forall G, klist G = klist g1 ++ [k] -> kc0 G = kc0 g1 -> kc1 G = kc1 g1 -> forall c d, joined g1 c d -> joined G c d).
  { intros G X1 X2 X3 c d [k' [Hk' M]]. exists k'. unfold joined. ua. rewrite X1, X2, X3. split; [apply in_snoc; left; exact Hk'|exact M]. }
  assert (Jn : forall G, klist G = klist g1 ++ [k] -> kc0 G = kc0 g1 -> kc1 G = kc1 g1 -> joined G ca cb /\ joined G cb ca).
  { intros G X1 X2 X3. split; exists k; unfold joined; ua; rewrite X1, X2, X3; (split; [apply in_snoc; right; reflexivity|]); ua; rewrite E0, E1; auto. }
  destruct (fx_nbr (fx g1)).
  - split; [|split; [exact D2n|auto]]. intros c Hc. change (In c (clist g1)) in Hc. destruct (Snd1 c Hc) as [X Y].
    match goal with |- NoDup (cnb ?GG c) /\ _ => set (G := GG) end.
    assert (JG : forall c d, joined g1 c d -> joined G c d) by (apply J; reflexivity).
    destruct (Jn G eq_refl eq_refl eq_refl) as [Jab Jba].
    assert (EG : cnb G c = fget [] (fset (fset (cnbr g1) ca (sadd (cnb g1 ca) cb)) cb
                                        (sadd (fget [] (fset (cnbr g1) ca (sadd (cnb g1 ca) cb)) cb) ca)) c).
    { unfold G, nbr_add, ccon_add, cnb. gsg. rewrite E0, E1. reflexivity. }
    rewrite EG. clear EG. rewrite fget_fset. destruct (Pos.eqb_spec c cb) as [->|Ncb].
    + rewrite fget_fset. destruct (Pos.eqb_spec cb ca) as [Ee|Ne].
      * rewrite Ee in *. split; [apply NoDup_sadd, NoDup_sadd; exact Xa|].
        intros d Hd. apply In_sadd in Hd. destruct Hd as [Hd| ->]; [|exact Jab]. apply In_sadd in Hd. destruct Hd as [Hd| ->]; [exact (JG _ _ (Ya d Hd))|exact Jab].
      * split; [apply NoDup_sadd; exact Xb|]. intros d Hd. apply In_sadd in Hd. destruct Hd as [Hd| ->]; [exact (JG _ _ (Yb d Hd))|exact Jba].
    + rewrite fget_fset. destruct (Pos.eqb_spec c ca) as [->|Nca].
      * split; [apply NoDup_sadd; exact Xa|]. intros d Hd. apply In_sadd in Hd. destruct Hd as [Hd| ->]; [exact (JG _ _ (Ya d Hd))|exact Jab].
      * split; [exact X|]. intros d Hd. exact (JG _ _ (Y d Hd)).
  - split; [|split; [exact D2n|auto]]. intros c Hc. change (In c (clist g1)) in Hc. destruct (Snd1 c Hc) as [X Y].
    split; [exact X|]. intros d Hd. apply J; try reflexivity. exact (Y d Hd).
Qed.
Lemma add_connections_sound ks : forall g g', InvS g -> nbrs_sound g -> S5n g -> conns_ok g ks -> add_connections g ks = Ok g' ->
  InvS g' /\ nbrs_sound g' /\ S5n g' /\ clist g' = clist g /\ cnode g' = cnode g /\ nlist g' = nlist g.
Proof.
  induction ks as [|[a b] r IH]; intros g g' IS Snd D2 Ok_ H; cbn [add_connections] in H; [inversion H; subst; auto 10|].
  destruct (add_connection g a b) as [g1|] eqn:E; cbn [bind] in H; [|discriminate]. destruct Ok_ as [A B].
  destruct (add_connection_sound g a b g1 IS Snd D2 E) as [S1' [D1' [E1 [E2 E3]]]].
  destruct (IH g1 g' (add_connection_invS g a b g1 IS A E) S1' D1' (B g1 E) H) as [X1 [X2 [X3 [X4 [X5 X6]]]]].
  split; [exact X1|]. split; [exact X2|]. split; [exact X3|]. split; [congruence|]. split; congruence.
Qed.

(** ** refine: the part before the missing connections are added ([None]: the selection holds a column that is
    neither a triangle nor a quadrilateral, refine prints a message and leaves the geometry alone) *)
Definition refine_prefix (g : geo) (names : list str) (h : refine_hints) : res (option geo) :=
  do columns <- (match names with [] => Ok (clist g) | _ => lookup_cols g names end);
  let conns := dedup (flat_map (cks g) columns) in
  let plus_edge := dedup (columns ++ flat_map (fun k => [k0 g k; k1 g k]) conns) in
  if forallb (fun c => let n := length (cns g c) in (n =? 3)%nat || (n =? 4)%nat) plus_edge then
    do korder <- mapM (nth_res (klist g)) (hk h);
    do corder <- mapM (nth_res (clist g)) (hc h);
    if is_ordering_of_ids korder conns && is_ordering_of_ids corder plus_edge then
      do x <- mid_nodes_conns g korder [] 0%N;
      let '(g1, sn1, num1) := x in
      do hbl <- hb h;
      do bdy <- mapM (nth_res (nlist g)) hbl;
      do y <- mid_nodes_sides g1 (flat_map (fun c => cyc_pairs (cns g1 c)) columns) bdy sn1 num1;
      let '(g2, sn2, num2) := y in
      do z <- refine_columns g2 corder sn2 num2 0%N;
      let g3 := fst (fst z) in
      do g4 <- delete_columns g3 (map (cn g3) corder);
      Ok (Some g4)
    else Raise OutOfFuel
  else Ok None.
Lemma refine_eq g names h :
  refine g names h = do r <- refine_prefix g names h;
                     match r with
                     | None => Ok g
                     | Some g4 => do g5 <- add_missing g4 (hm h); setup_names (identify_neighbours g5)
                     end.
Proof.
  unfold refine, refine_prefix.
  destruct (match names with [] => Ok (clist g) | _ :: _ => lookup_cols g names end) as [columns|]; cbn [bind]; [|reflexivity].
  cbv zeta. destruct (forallb _ _); [|reflexivity].
  destruct (mapM (nth_res (klist g)) (hk h)) as [korder|]; cbn [bind]; [|reflexivity].
  destruct (mapM (nth_res (clist g)) (hc h)) as [corder|]; cbn [bind]; [|reflexivity].
  destruct (_ && _); [|reflexivity].
  destruct (mid_nodes_conns g korder [] 0%N) as [[[g1 sn1] num1]|]; cbn [bind]; [|reflexivity].
  destruct (hb h) as [hbl|]; cbn [bind]; [|reflexivity].
  destruct (mapM (nth_res (nlist g)) hbl) as [bdy|]; cbn [bind]; [|reflexivity].
  destruct (mid_nodes_sides g1 _ bdy sn1 num1) as [[[g2 sn2] num2]|]; cbn [bind]; [|reflexivity].
  destruct (refine_columns g2 corder sn2 num2 0%N) as [z|]; cbn [bind]; [|reflexivity].
  destruct (delete_columns _ _) as [g4|]; cbn [bind]; reflexivity.
Qed.

Lemma In_dedup l x : In x (dedup l) <-> In x l.
Proof.
  induction l as [|a r IH]; cbn [dedup]; [tauto|]. destruct (mem a r) eqn:E.
  - rewrite IH. cbn [In]. split; [auto|]. intros [<-|H]; [apply mem_In; exact E|exact H].
  - cbn. rewrite IH. tauto.
Qed.
Lemma NoDup_dedup l : NoDup (dedup l).
Proof.
  induction l as [|a r IH]; cbn [dedup]; [constructor|]. destruct (mem a r) eqn:E; [exact IH|].
  constructor; [|exact IH]. rewrite In_dedup. apply mem_false. exact E.
Qed.
Lemma is_ordering_of_ids_spec hl s : is_ordering_of_ids hl s = true -> length hl = length s /\ forall x, In x hl <-> In x s.
Proof.
  unfold is_ordering_of_ids. intro H. apply andb_prop in H. destruct H as [H C]. apply andb_prop in H. destruct H as [A B].
  apply Nat.eqb_eq in A. split; [exact A|]. intro x. split; intro Hx.
  - apply mem_In. exact (proj1 (forallb_forall _ _) C x Hx).
  - apply mem_In. exact (proj1 (forallb_forall _ _) B x Hx).
Qed.
Lemma ForallOrdPairs_of_NoDup {A} (R : A -> A -> Prop) l : NoDup l -> (forall x y, In x l -> In y l -> x <> y -> R x y) -> ForallOrdPairs R l.
Proof.
  induction l as [|a r IH]; intros ND H; [constructor|]. inversion ND as [|? ? Hn Hr]; subst. constructor.
  - apply Forall_forall. intros y Hy. apply H; [left; reflexivity|right; exact Hy|]. intros ->. contradiction.
  - apply IH; [exact Hr|]. intros x y Hx Hy. apply H; right; assumption.
Qed.

Lemma add_connection_frame g a b g' : add_connection g a b = Ok g' -> clist g' = clist g /\ cnode g' = cnode g /\ nlist g' = nlist g.
Proof.
  unfold add_connection. destruct (cget g a); [|discriminate]. destruct (cget g b); [|discriminate]. intro H; inversion H; subst g'.
  unfold add_connection_obj. destruct (kget _ _); [auto|]. cbv zeta. destruct (fx_nbr _); auto.
Qed.
Lemma add_connections_frame ks : forall g g', add_connections g ks = Ok g' -> clist g' = clist g /\ cnode g' = cnode g /\ nlist g' = nlist g.
Proof.
  induction ks as [|[a b] r IH]; intros g g' H; cbn [add_connections] in H; [inversion H; subst; auto|].
  destruct (add_connection g a b) as [g1|] eqn:E; cbn [bind] in H; [|discriminate].
  destruct (add_connection_frame g a b g1 E) as [A [B C]]. destruct (IH g1 g' H) as [A' [B' C']]. split; [|split]; congruence.
Qed.

(** the connections around the selection lie on sides of its columns, one connection per side *)
Definition refine_conforming (g : geo) (names : list str) : Prop :=
  forall columns, (match names with [] => Ok (clist g) | _ => lookup_cols g names end) = Ok columns ->
    let conns := dedup (flat_map (cks g) columns) in
    let plus_edge := dedup (columns ++ flat_map (fun k => [k0 g k; k1 g k]) conns) in
    (forall k, In k conns -> conn_side_of g plus_edge k) /\
    (forall k k', In k conns -> In k' conns -> k <> k' -> conn_sides_differ g k k').

Theorem refine_prefix_spec (P C : Prop) g names h g4 : InvMp P g -> (C -> refine_conforming g names) ->
  refine_prefix g names h = Ok (Some g4) ->
  InvMp P g4 /\ fx g4 = fx g /\ (forall x, In x (nlist g) -> In x (nlist g4)) /\
  (C -> forall a, In a (nlist g4) -> ~ In a (nlist g) -> exists c', In c' (clist g4) /\ In a (cns g4 c')).
Proof.
  intros IM HC H. pose proof (proj1 IM) as IS. unfold refine_prefix in H.
  destruct (match names with [] => Ok (clist g) | _ :: _ => lookup_cols g names end) as [columns|] eqn:Ecols; cbn [bind] in H; [|discriminate].
  assert (HCc : C -> _) by (intro X; exact (HC X columns Ecols)). clear HC.
  assert (Hcols : forall c, In c columns -> In c (clist g)).
  { destruct names as [|n r]; [inversion Ecols; subst; auto|]. apply (lookup_cols_listed g (n :: r) (i_s1 g IS) columns Ecols). }
  cbv zeta in H, HCc.
  set (conns := dedup (flat_map (cks g) columns)) in *.
  set (plus_edge := dedup (columns ++ flat_map (fun k => [k0 g k; k1 g k]) conns)) in *.
  assert (Hconns : forall k, In k conns -> In k (klist g)).
  { intros k Hk. unfold conns in Hk. apply (proj1 (In_dedup _ _)) in Hk. apply in_flat_map in Hk. destruct Hk as [c [Hc Hk]].
    exact (proj1 (proj1 (s3_ex g (i_s3a g IS) c (Hcols c Hc) k) Hk)). }
  assert (Hpe : forall c, In c plus_edge -> In c (clist g)).
  { intros c Hc. unfold plus_edge in Hc. apply (proj1 (In_dedup _ _)) in Hc. apply in_app_or in Hc. destruct Hc as [Hc|Hc]; [exact (Hcols c Hc)|].
    apply in_flat_map in Hc. destruct Hc as [k [Hk Hc]]. destruct (s3_ends g (i_s3a g IS) k (Hconns k Hk)) as [A B].
    destruct Hc as [<-|[<-|[]]]; assumption. }
  destruct (forallb _ plus_edge) eqn:E34; [|discriminate].
  destruct (mapM (nth_res (klist g)) (hk h)) as [korder|]; cbn [bind] in H; [|discriminate].
  destruct (mapM (nth_res (clist g)) (hc h)) as [corder|]; cbn [bind] in H; [|discriminate].
  destruct (is_ordering_of_ids korder conns && is_ordering_of_ids corder plus_edge) eqn:Eo; [|discriminate].
  apply andb_prop in Eo. destruct Eo as [Eok Eoc].
  destruct (is_ordering_of_ids_spec _ _ Eok) as [Lk Mk]. destruct (is_ordering_of_ids_spec _ _ Eoc) as [Lc Mc].
  (* the mid-side nodes *)
  assert (M0 : MidI P C g plus_edge g []).
  { constructor; try reflexivity; try exact IM; try apply keeps_refl; try (split; [|split]; reflexivity).
    - exact sym_free_nil.
    - intros a b v E. discriminate.
    - intros a b a' b' v E. discriminate.
    - intros _ a Ha Na. contradiction. }
  destruct (mid_nodes_conns g korder [] 0%N) as [[[g1 sn1] num1]|] eqn:E1; cbn [bind] in H; [|discriminate].
  assert (M1 : MidI P C g plus_edge g1 sn1).
  { apply (mid_nodes_conns_MidI P C g plus_edge korder g [] 0%N g1 sn1 num1 IS M0); [intros k Hk; apply Hconns, Mk, Hk| |exact E1].
    intro X. destruct (HCc X) as [A B]. split.
    - intros k Hk. split; [apply A, Mk, Hk|reflexivity].
    - apply ForallOrdPairs_of_NoDup.
      + apply (@NoDup_incl_NoDup _ conns korder (NoDup_dedup _)); [lia|]. intros x Hx. apply Mk. exact Hx.
      + intros x y Hx Hy Nxy. apply B; [apply Mk, Hx|apply Mk, Hy|exact Nxy]. }
  destruct (hb h) as [hbl|]; cbn [bind] in H; [|discriminate].
  destruct (mapM (nth_res (nlist g)) hbl) as [bdy|]; cbn [bind] in H; [|discriminate].
  match type of H with (do y <- mid_nodes_sides g1 ?S bdy sn1 num1; _) = _ => set (sides := S) in * end.
  destruct (mid_nodes_sides g1 sides bdy sn1 num1) as [[[g2 sn2] num2]|] eqn:E2; cbn [bind] in H; [|discriminate].
  assert (M2 : MidI P C g plus_edge g2 sn2).
  { apply (mid_nodes_sides_MidI P C g plus_edge sides bdy g1 sn1 num1 g2 sn2 num2 IS M1); [|exact E2].
    intros a b Hab. unfold sides in Hab. apply in_flat_map in Hab. destruct Hab as [c [Hc Hab]].
    assert (Ecns : cns g1 c = cns g c) by (unfold cns; rewrite (mi_cnode _ _ _ _ _ _ M1); reflexivity). rewrite Ecns in Hab.
    pose proof (Hcols c Hc) as Hcl. destruct (i_s5p g IS c Hcl) as [NDc Lc3].
    destruct (In_cyc_pairs _ _ _ Hab) as [Ha Hb].
    split; [exact (s2_in g (i_s2 g IS) c Hcl a Ha)|]. split; [exact (s2_in g (i_s2 g IS) c Hcl b Hb)|].
    split; [apply (cyc_pairs_neq (cns g c)); [exact NDc|lia|exact Hab]|].
    intros _. destruct (cyc_pairs_nth (cns g c) 1%positive a b Hab) as [i [Hi [Ea Eb]]].
    exists c, i. split; [unfold plus_edge; apply (proj2 (In_dedup _ _)); apply in_or_app; left; exact Hc|]. split; [exact Hi|]. rewrite <- Ea, <- Eb. apply same_sideb_refl. }
  clear M0 M1 E1 E2.
  destruct M2 as [IM2 K2 Ecl2 Ecd2 Ecc2 Ekl2 Ekd2 Ek2 Ecn2 SF2 SV2 SI2 NW2].
  pose proof (proj1 IM2) as IS2.
  (* the refined columns *)
  destruct (refine_columns g2 corder sn2 num2 0%N) as [[[g3 nn3] cn3]|] eqn:E3; cbn [bind fst] in H; [|discriminate].
  assert (Hcor : forall c, In c corder -> In c (clist g2)) by (intros c Hc; rewrite Ecl2; apply Hpe, Mc, Hc).
  assert (Ecns2 : forall c, cns g2 c = cns g c) by (intro c; unfold cns; rewrite Ecn2; reflexivity).
  destruct (refine_columns_invM P g2 sn2 corder g2 num2 0%N g3 nn3 cn3 IM2 (keeps_refl g2) IS2 SF2 Hcor) as [IM3 [K3 [N3 U3]]]; [| |exact E3|].
  { intros a b v E. destruct (SV2 a b v E) as [X Y]. split; [exact X|]. intros c Hc Hv. apply Y.
    rewrite Ecns2 in Hv. rewrite Ecl2 in Hc. exact (s2_in g (i_s2 g IS) c Hc v Hv). }
  { exact SI2. }
  pose proof (proj1 IM3) as IS3.
  destruct (delete_columns g3 (map (cn g3) corder)) as [g4'|] eqn:E4; cbn [bind] in H; [|discriminate]. inversion H; subst g4'. clear H.
  destruct (delete_columns_new_stay P (map (cn g3) corder) g3 g3 g4 IS3 IM3 (fun x Hx => Hx) eq_refl E4) as [IM4 [F4 [Ecn4 [Enl4 Stay]]]].
  split; [exact IM4|]. split; [rewrite F4, (kp_fx _ _ K3), (kp_fx _ _ K2); reflexivity|].
  split; [intros x Hx; rewrite Enl4; exact (proj1 (kp_n _ _ K3 x (proj1 (kp_n _ _ K2 x Hx))))|].
  intros X a Ha Na. rewrite Enl4 in Ha.
  assert (Survive : used_by_new g2 g3 a -> exists c', In c' (clist g4) /\ In a (cns g4 c')).
  { intros [c' [A [B D]]]. exists c'. split; [|unfold cns in *; rewrite Ecn4; exact D].
    apply Stay; [exact A|]. intros c0 H0 Hin ->. apply in_map_iff in Hin. destruct Hin as [c1 [En1 Hc1]].
    assert (c1 = c0).
    { apply (DL_inj str_eqb str_spec _ _ _ _ _ (s1_c g3 (i_s1 g3 IS3))); [exact (keeps_clist _ _ K3 c1 (Hcor c1 Hc1))|exact H0|exact En1]. }
    subst c1. apply B. exact (Hcor c0 Hc1). }
  apply Survive. destruct (in_dec Pos.eq_dec a (nlist g2)) as [H2|H2]; [|exact (N3 a Ha H2)].
  destruct (NW2 X a H2 Na) as [x [y [Exy [c [i [Hc [Hi Es]]]]]]].
  apply (U3 c i a); [apply Mc; exact Hc| |rewrite Ecns2; exact Hi|].
  - rewrite Ecns2. pose proof (proj1 (forallb_forall _ _) E34 c Hc) as L. cbv zeta in L. apply orb_prop in L.
    destruct L as [L|L]; apply Nat.eqb_eq in L; auto.
  - unfold side_node. rewrite Ecns2.
    pose proof (Hpe c Hc) as Hcl.
    assert (Hin : forall j, (j < length (cns g c))%nat -> nn g2 (nth j (cns g c) 1%positive) = nn g (nth j (cns g c) 1%positive)).
    { intros j Hj. apply (proj2 (kp_n _ _ K2 _ (s2_in g (i_s2 g IS) c Hcl _ (nth_In _ _ Hj)))). }
    rewrite (Hin i Hi), (Hin ((i + 1) mod length (cns g c))%nat) by (apply Nat.mod_upper_bound; lia).
    rewrite (side_get_same sn2 x y _ _ SF2 Es). exact Exy.
Qed.

(** ** refine keeps the object graph (either source variant, whatever the state of the derived data) *)
Definition refine_conns_ok (g : geo) (names : list str) (h : refine_hints) : Prop :=
  forall g4, refine_prefix g names h = Ok (Some g4) -> conns_ok g4 (hm h).
Theorem refine_invS g names h g' : InvS g -> refine_conns_ok g names h -> refine g names h = Ok g' -> InvS g'.
Proof.
  intros IS Ok_ H. rewrite refine_eq in H. destruct (refine_prefix g names h) as [[g4|]|] eqn:Ep; cbn [bind] in H; [|inversion H; subst; exact IS|discriminate].
  destruct (refine_prefix_spec False False g names h g4 (proj2 (invMp_false g) IS) ltac:(intros []) Ep) as [IM4 _].
  apply invMp_false in IM4.
  destruct (add_missing g4 (hm h)) as [g5|] eqn:E5; cbn [bind] in H; [|discriminate].
  unfold add_missing in E5. destruct (is_ordering_of _ _); [|discriminate].
  destruct (add_connections_invS _ _ _ IM4 (Ok_ g4 Ep) E5) as [IS5 _].
  eapply setup_names_invS; [|exact H]. apply identify_neighbours_invS. exact IS5.
Qed.
(** ... and the whole invariant: it identifies the neighbours and sets up the name lists itself *)
Theorem refine_inv g names h g' : Inv g -> refine_conns_ok g names h -> refine g names h = Ok g' -> Inv g'.
Proof.
  intros I Ok_ H. rewrite refine_eq in H. destruct (refine_prefix g names h) as [[g4|]|] eqn:Ep; cbn [bind] in H; [|inversion H; subst; exact I|discriminate].
  destruct (refine_prefix_spec True False g names h g4 (proj2 (invMp_true g) (invM_inv g I)) ltac:(intros []) Ep) as [IM4 _].
  apply invMp_true in IM4. destruct IM4 as [IS4 [D14 D24]].
  destruct (add_missing g4 (hm h)) as [g5|] eqn:E5; cbn [bind] in H; [|discriminate].
  unfold add_missing in E5. destruct (is_ordering_of _ _); [|discriminate].
  assert (Snd4 : nbrs_sound g4).
  { intros c Hc. split; [apply (s3b_nd g4 D14 c Hc)|]. intros d Hd. apply (s3b_ex g4 D14 c Hc d). exact Hd. }
  destruct (add_connections_sound _ _ _ IS4 Snd4 D24 (Ok_ g4 Ep) E5) as [IS5 [Snd5 [D25 _]]].
  pose proof (identify_neighbours_establishes g5 Snd5) as D16.
  pose proof (identify_neighbours_invS g5 IS5) as IS6.
  eapply setup_names_inv; [exact IS6|exact D16| |exact H].
  rewrite identify_neighbours_eq. destruct (idn_closed (klist g5) g5) as [m [-> _]]. exact D25.
Qed.
(** ... and leaves no orphan: on a selection whose connections lie on sides of its columns, one per side, every node
    that refine adds to the geometry is a node of a column of the result *)
Theorem refine_new_nodes_used g names h g' : InvS g -> refine_conforming g names -> refine g names h = Ok g' ->
  forall a, In a (nlist g') -> ~ In a (nlist g) -> exists c', In c' (clist g') /\ In a (cns g' c').
Proof.
  intros IS Cf H a Ha Na. rewrite refine_eq in H. destruct (refine_prefix g names h) as [[g4|]|] eqn:Ep; cbn [bind] in H; [|inversion H; subst; contradiction|discriminate].
  destruct (refine_prefix_spec False True g names h g4 (proj2 (invMp_false g) IS) (fun _ => Cf) Ep) as [_ [_ [_ U]]].
  destruct (add_missing g4 (hm h)) as [g5|] eqn:E5; cbn [bind] in H; [|discriminate].
  unfold add_missing in E5. destruct (is_ordering_of _ _); [|discriminate].
  destruct (add_connections_frame _ _ _ E5) as [A [B C']].
  destruct (setup_names_establishes _ _ H) as [_ [bb [kk ->]]].
  revert Ha. rewrite identify_neighbours_eq. destruct (idn_closed (klist g5) g5) as [m [-> _]]. gsg. intro Ha.
  rewrite C' in Ha. destruct (U I a Ha Na) as [c' [X Y]]. exists c'. unfold cns in *. gsg. rewrite A, B. auto.
Qed.
