(** C10 -- check(fix = True) and reduce:
    - the missing connections they add join two different columns sharing a side BECAUSE the start mesh is
      conforming in the sense [shares_side] (two columns with two or more common nodes have two consecutive common
      nodes) -- no hypothesis on intermediate states;
    - the whole invariant: reduce (it sets up the name lists itself); check(fix) in the repaired source
      (proposed_fixes/C10-check-fix-name-index.diff: the connection name index is set up again when connections
      were added or deleted) -- while no layer needs fixing ([layers_fine]). *)
From Coq Require Import Ascii String List Bool PArith NArith ZArith QArith FMapPositive Permutation Lia.
From PTBase Require Import Exn PyStr.
From P Require Import Assoc GeoState GeoEdit GeoEdit2 Inv InvNames InvSimple Sets InvCol InvConn InvDel InvRefresh InvRename InvCompound InvSplit2 InvSnap InvDecomp InvRefine.
Import ListNotations.
Open Scope list_scope.

(** ** conformity of the mesh, as far as the missing connections need it *)
Definition shares_side (g : geo) : Prop :=
  forall a b, In a (clist g) -> In b (clist g) -> a <> b -> is_against g a b = true ->
    connection_nodes g a b <> None /\ connection_nodes g b a <> None.

Lemma In_kdedup l k : In k (kdedup l) -> In k l.
Proof.
  induction l as [|a r IH]; cbn [kdedup]; [tauto|]. destruct (key_mem a r); [intro H; right; exact (IH H)|].
  intros [<-|H]; [left; reflexivity|right; exact (IH H)].
Qed.
Lemma In_pairs_of (l : list id) a b : In (a, b) (pairs_of l) -> In a l /\ In b l /\ (NoDup l -> a <> b).
Proof.
  induction l as [|x r IH]; cbn [pairs_of]; [tauto|]. intro H. apply in_app_or in H. destruct H as [H|H].
  - apply in_map_iff in H. destruct H as [y [E Hy]]. inversion E; subst x y. split; [left; reflexivity|]. split; [right; exact Hy|].
    intros ND ->. inversion ND; contradiction.
  - destruct (IH H) as [A [B C]]. split; [right; exact A|]. split; [right; exact B|]. intro ND. apply C. inversion ND; assumption.
Qed.
Lemma missing_pairs_spec g x y : InvS g -> In (x, y) (missing_pairs g) ->
  exists a b, In a (clist g) /\ In b (clist g) /\ a <> b /\ is_against g a b = true /\
              ((x = cn g a /\ y = cn g b) \/ (x = cn g b /\ y = cn g a)).
Proof.
  intros IS H. unfold missing_pairs in H. apply In_kdedup in H. apply in_flat_map in H. destruct H as [n [Hn H]].
  apply in_flat_map in H. destruct H as [[a b] [Hab H]].
  destruct (In_pairs_of _ a b Hab) as [Ha [Hb Nab]]. specialize (Nab (s2_nd g (i_s2 g IS) n Hn)).
  destruct (is_against g a b) eqn:Eag; cbn [andb] in H; [|destruct H].
  destruct (negb (connects g a b)); [|destruct H].
  exists a, b. split; [exact (proj1 (proj1 (s2_ex g (i_s2 g IS) n Hn a) Ha))|]. split; [exact (proj1 (proj1 (s2_ex g (i_s2 g IS) n Hn b) Hb))|].
  split; [exact Nab|]. split; [exact Eag|].
  destruct (str_leb (cn g a) (cn g b)); destruct H as [H|[]]; inversion H; auto.
Qed.
Lemma add_connection_names g a b g' : add_connection g a b = Ok g' -> cdict g' = cdict g /\ cnode g' = cnode g.
Proof.
  unfold add_connection. destruct (cget g a); [|discriminate]. destruct (cget g b); [|discriminate]. intro H; inversion H; subst g'.
  unfold add_connection_obj. destruct (kget _ _); [auto|]. cbv zeta. destruct (fx_nbr _); auto.
Qed.
Lemma connection_nodes_ext g g' a b : cnode g' = cnode g -> connection_nodes g' a b = connection_nodes g a b.
Proof. intro E. unfold connection_nodes, cns. rewrite E. reflexivity. Qed.
(** a static condition on the pairs is enough: adding connections changes neither the columns nor their nodes *)
Lemma conns_ok_static ks : forall g,
  (forall a b, In (a, b) ks -> forall ca cb, cget g a = Some ca -> cget g b = Some cb -> ca <> cb /\ connection_nodes g ca cb <> None) ->
  conns_ok g ks.
Proof.
  induction ks as [|[a b] r IH]; intros g H; cbn [conns_ok]; [exact I|]. split.
  - intros ca cb Ea Eb _. exact (H a b (or_introl eq_refl) ca cb Ea Eb).
  - intros g1 E. destruct (add_connection_names g a b g1 E) as [E1 E2]. apply IH.
    intros x y Hxy ca cb Ea Eb. unfold cget in Ea, Eb. rewrite E1 in Ea, Eb.
    rewrite (connection_nodes_ext g g1 ca cb E2). exact (H x y (or_intror Hxy) ca cb Ea Eb).
Qed.
Lemma is_ordering_of_in hl s k : is_ordering_of hl s = true -> In k hl -> In k s.
Proof.
  unfold is_ordering_of. intros H Hk. apply andb_prop in H. destruct H as [_ C].
  pose proof (proj1 (forallb_forall _ _) C k Hk) as M. unfold key_mem in M. apply existsb_exists in M.
  destruct M as [k' [Hk' E]]. apply key2_eqb_eq in E. subst k'. exact Hk'.
Qed.
Theorem missing_conns_ok g hl : InvS g -> shares_side g -> is_ordering_of hl (missing_pairs g) = true -> conns_ok g hl.
Proof.
  intros IS Sh Ho. apply conns_ok_static. intros x y Hxy ca cb Ea Eb.
  destruct (missing_pairs_spec g x y IS (is_ordering_of_in _ _ _ Ho Hxy)) as [a [b [Ha [Hb [Nab [Eag Enm]]]]]].
  destruct (Sh a b Ha Hb Nab Eag) as [S1' S2'].
  pose proof (DL_aget_name str_eqb str_spec _ _ _ a (s1_c g (i_s1 g IS)) Ha) as Ga.
  pose proof (DL_aget_name str_eqb str_spec _ _ _ b (s1_c g (i_s1 g IS)) Hb) as Gb.
  unfold cget in Ea, Eb. destruct Enm as [[-> ->]|[-> ->]].
  - rewrite Ga in Ea. rewrite Gb in Eb. inversion Ea; inversion Eb; subst. auto.
  - rewrite Gb in Ea. rewrite Ga in Eb. inversion Ea; inversion Eb; subst. split; [intro X; apply Nab; symmetry; exact X|exact S2'].
Qed.

(** check(fix) keeps the object graph of a conforming mesh: no hypothesis on the connections it adds *)
Theorem check_fix_invS_conforming g hm_ hbad g' : InvS g -> shares_side g -> check_fix g hm_ hbad = Ok g' -> InvS g'.
Proof.
  intros IS Sh H. apply (check_fix_invS g hm_ hbad g' IS); [|exact H].
  unfold check_fix in H. destruct (add_missing g hm_) as [g1|] eqn:E1; [|discriminate].
  unfold add_missing in E1. destruct (is_ordering_of hm_ (missing_pairs g)) eqn:Eo; [|discriminate].
  exact (missing_conns_ok g hm_ IS Sh Eo).
Qed.

(** the remaining columns of a conforming mesh form a conforming mesh *)
Lemma delete_columns_frame names : forall g g', InvS g -> delete_columns g names = Ok g' ->
  (forall x, In x (clist g') -> In x (clist g)) /\ cnode g' = cnode g.
Proof.
  induction names as [|n r IH]; intros g g' IS H; cbn [delete_columns] in H; [inversion H; subst; auto|].
  destruct (delete_column g n) as [g1|] eqn:E; cbn [bind] in H; [|discriminate].
  destruct (delete_column_exact g n g1 IS E) as [c [_ [Ecl [Ecn _]]]].
  destruct (IH g1 g' (delete_column_invS g n g1 IS E) H) as [A B]. split; [|congruence].
  intros x Hx. apply A in Hx. rewrite Ecl in Hx. exact (lremove_incl _ _ _ Hx).
Qed.
Lemma shares_side_sub g g' : (forall x, In x (clist g') -> In x (clist g)) -> cnode g' = cnode g -> shares_side g -> shares_side g'.
Proof.
  intros Hsub Ecn Sh a b Ha Hb Nab Eag.
  rewrite !(connection_nodes_ext g g' _ _ Ecn). apply (Sh a b (Hsub a Ha) (Hsub b Hb) Nab).
  unfold is_against, cns in *. rewrite Ecn in Eag. exact Eag.
Qed.
Theorem reduce_invS_conforming g names hm_ hbad g' : InvS g -> shares_side g -> reduce g names hm_ hbad = Ok g' -> InvS g'.
Proof.
  intros IS Sh H. unfold reduce in H.
  destruct (lookup_cols g names) as [keep|] eqn:E0; cbn [bind] in H; [|discriminate].
  match type of H with (do g1 <- delete_columns g ?L; _) = _ => destruct (delete_columns g L) as [g1|] eqn:E1 end; cbn [bind] in H; [|discriminate].
  destruct (delete_columns_invS _ _ _ IS E1) as [I1 F1].
  destruct (delete_columns_frame _ _ _ IS E1) as [Hsub Ecn].
  destruct (check_fix g1 hm_ hbad) as [g2|] eqn:E2; cbn [bind] in H; [|discriminate].
  eapply setup_names_invS; [|exact H].
  exact (check_fix_invS_conforming g1 hm_ hbad g2 I1 (shares_side_sub g g1 Hsub Ecn Sh) E2).
Qed.

(** ** the derived data *)
(** what adding / deleting connections, deleting orphan nodes and moving centres leave alone *)
Record cframe (g g' : geo) : Prop := {
  cf_clist : clist g' = clist g; cf_cname : cname g' = cname g; cf_csurf : csurf g' = csurf g; cf_cnl : cnl g' = cnl g;
  cf_llist : llist g' = llist g; cf_ldict : ldict g' = ldict g; cf_lname : lname g' = lname g;
  cf_lbot : lbot g' = lbot g; cf_lcen : lcen g' = lcen g; cf_ltop : ltop g' = ltop g;
  cf_bnl : bnl g' = bnl g; cf_conv : conv g' = conv g; cf_atm : atm g' = atm g; cf_fx : fx g' = fx g }.
Lemma cframe_refl g : cframe g g.
Proof. constructor; reflexivity. Qed.
Lemma cframe_trans g1 g2 g3 : cframe g1 g2 -> cframe g2 g3 -> cframe g1 g3.
Proof. intros [] []. constructor; congruence. Qed.
Lemma add_connection_cframe g a b g' : add_connection g a b = Ok g' -> cframe g g' /\ bcl g' = bcl g.
Proof.
  unfold add_connection. destruct (cget g a); [|discriminate]. destruct (cget g b); [|discriminate]. intro H; inversion H; subst g'.
  unfold add_connection_obj. destruct (kget _ _); [split; [constructor|]; reflexivity|]. cbv zeta. destruct (fx_nbr _); (split; [constructor|]; reflexivity).
Qed.
Lemma add_connections_cframe ks : forall g g', add_connections g ks = Ok g' -> cframe g g' /\ bcl g' = bcl g.
Proof.
  induction ks as [|[a b] r IH]; intros g g' H; cbn [add_connections] in H; [inversion H; subst; split; [apply cframe_refl|reflexivity]|].
  destruct (add_connection g a b) as [g1|] eqn:E; cbn [bind] in H; [|discriminate].
  destruct (add_connection_cframe g a b g1 E) as [A B]. destruct (IH g1 g' H) as [A' B']. split; [exact (cframe_trans _ _ _ A A')|congruence].
Qed.
Lemma delete_connections_M ks : forall g g', fx_nbr (fx g) = true -> InvS g -> S3b g -> S5n g -> delete_connections g ks = Ok g' ->
  InvS g' /\ S3b g' /\ S5n g' /\ cframe g g' /\ bcl g' = bcl g.
Proof.
  induction ks as [|k r IH]; intros g g' Fx IS D1 D2 H; cbn [delete_connections] in H.
  - inversion H; subst. split; [exact IS|]. split; [exact D1|]. split; [exact D2|]. split; [apply cframe_refl|reflexivity].
  - destruct (delete_connection g k) as [g1|] eqn:E; cbn [bind] in H; [|discriminate].
    pose proof (delete_connection_invS g k g1 IS E) as I1.
    pose proof (delete_connection_S3b_repaired g k g1 Fx IS D1 E) as D11.
    destruct (delete_connection_closed_any g k g1 E) as [k' [N [_ [_ [_ [Eg1 _]]]]]].
    assert (D21 : S5n g1) by (rewrite Eg1; apply S5n_dk; exact D2).
    assert (C1 : cframe g g1 /\ bcl g1 = bcl g) by (rewrite Eg1; split; [constructor|]; reflexivity).
    assert (Fx1 : fx_nbr (fx g1) = true) by (rewrite (cf_fx _ _ (proj1 C1)); exact Fx).
    destruct (IH g1 g' Fx1 I1 D11 D21 H) as [A [B [C [D E']]]].
    split; [exact A|]. split; [exact B|]. split; [exact C|]. split; [exact (cframe_trans _ _ _ (proj1 C1) D)|]. rewrite E'. exact (proj2 C1).
Qed.
Lemma delete_orphans_cframe g g' : delete_orphans g = Ok g' -> cframe g g' /\ bcl g' = bcl g /\ klist g' = klist g.
Proof.
  unfold delete_orphans. generalize (map (nn g) (orphans g)). intro names. revert g.
  induction names as [|n r IH]; intros g H; cbn [delete_nodes] in H; [inversion H; subst; split; [apply cframe_refl|auto]|].
  destruct (delete_node g n) as [g1|] eqn:E; cbn [bind] in H; [|discriminate].
  assert (C1 : cframe g g1 /\ bcl g1 = bcl g /\ klist g1 = klist g).
  { unfold delete_node in E. destruct (nget g n); [|discriminate]. revert E. gs. destruct (mem _ _); [|discriminate].
    intro E; inversion E; subst g1. split; [constructor|split]; reflexivity. }
  destruct (IH g1 H) as [A [B C]]. destruct C1 as [A1 [B1 C1]]. split; [exact (cframe_trans _ _ _ A1 A)|]. split; congruence.
Qed.
Lemma layers_fine_cframe g g' : cframe g g' -> layers_fine g -> layers_fine g'.
Proof.
  intros C Lf l Hl. unfold lb, lc, lt. rewrite (cf_lbot _ _ C), (cf_lcen _ _ C), (cf_ltop _ _ C). apply Lf. rewrite <- (cf_llist _ _ C). exact Hl.
Qed.
(** the block name list does not depend on what [cframe] lets change *)
Lemma fresh_bnl_cframe g g' : cframe g g' -> fresh_bnl g' = fresh_bnl g.
Proof.
  intro C.
  set (gs := set_bcl (set_kc1 (set_kc0 (set_klist g' (klist g)) (kc0 g)) (kc1 g)) (bcl g)).
  change (fresh_bnl g') with (fresh_bnl gs). apply n_fresh_bnl. unfold gs. constructor; gsg; try reflexivity.
  - exact (cf_clist _ _ C). - exact (cf_llist _ _ C). - exact (cf_ldict _ _ C). - exact (cf_bnl _ _ C).
  - exact (cf_conv _ _ C). - exact (cf_atm _ _ C).
  - intros c _. unfold cn. gsg. rewrite (cf_cname _ _ C). reflexivity.
  - intros l _. unfold ln. gsg. rewrite (cf_lname _ _ C). reflexivity.
  - intros k _. split; reflexivity.
  - intros lay c _ _. unfold above_bottom, cs, lb. gsg. rewrite (cf_csurf _ _ C), (cf_lbot _ _ C). reflexivity.
  - intros lay c _ _. unfold surf_le_top, cs, lt. gsg. rewrite (cf_csurf _ _ C), (cf_ltop _ _ C). reflexivity.
Qed.

(** the common part of check(fix) and reduce, up to the orphan nodes and the centres *)
Lemma check_fix_M g hm_ hbad g' : InvS g -> S3b g -> S5n g -> fx_nbr (fx g) = true -> shares_side g -> layers_fine g ->
  check_fix g hm_ hbad = Ok g' ->
  InvS g' /\ S3b g' /\ S5n g' /\ cframe g g' /\
  ((hm_ = [] /\ extra_keys g = [] /\ bcl g' = bcl g /\ fresh_bcl g' = fresh_bcl g) \/ (fx_check (fx g) = true -> fresh_bcl g' = Ok (bcl g'))).
Proof.
  intros IS D1 D2 Fx Sh Lf H. unfold check_fix in H.
  destruct (add_missing g hm_) as [g1|] eqn:E1; cbn [bind] in H; [|discriminate].
  unfold add_missing in E1. destruct (is_ordering_of hm_ (missing_pairs g)) eqn:Eo; [|discriminate].
  pose proof (missing_conns_ok g hm_ IS Sh Eo) as Ok_.
  destruct (add_connections_invM hm_ g g1 (conj IS (conj D1 D2)) Fx Ok_ E1) as [I1 [D11 D21]].
  destruct (add_connections_cframe _ _ _ E1) as [C1 B1].
  cbv zeta in H.
  destruct (delete_connections g1 (extra_keys g1)) as [g2a|] eqn:E2; cbn [bind] in H; [|discriminate].
  destruct (delete_connections_M _ g1 g2a ltac:(rewrite (cf_fx _ _ C1); exact Fx) I1 D11 D21 E2) as [I2a [D12a [D22a [C2a B2a]]]].
  match type of H with (do g2 <- ?X; _) = _ => destruct X as [g2|] eqn:E2b end; cbn [bind] in H; [|discriminate].
  assert (P2 : InvS g2 /\ S3b g2 /\ S5n g2 /\ cframe g g2 /\
               ((hm_ = [] /\ extra_keys g = [] /\ bcl g2 = bcl g /\ fresh_bcl g2 = fresh_bcl g) \/ (fx_check (fx g) = true -> fresh_bcl g2 = Ok (bcl g2)))).
  { pose proof (cframe_trans _ _ _ C1 C2a) as C02.
    destruct hm_ as [|p r].
    - cbn [add_connections] in E1. inversion E1; subst g1. destruct (extra_keys g) as [|e er] eqn:Ee.
      + cbn [delete_connections] in E2. inversion E2; subst g2a. rewrite andb_false_r in E2b. inversion E2b; subst g2.
        split; [exact IS|]. split; [exact D1|]. split; [exact D2|]. split; [apply cframe_refl|]. left. auto.
      + destruct (fx_check (fx g)) eqn:Fc; cbn [andb negb] in E2b.
        * destruct (setup_block_connection_name_index_closed _ _ E2b) as [l [El ->]].
          split; [apply invS_set_bcl; exact I2a|]. split; [exact D12a|]. split; [exact D22a|].
          split; [destruct C02; constructor; assumption|]. right. intros _. exact El.
        * inversion E2b; subst g2. split; [exact I2a|]. split; [exact D12a|]. split; [exact D22a|]. split; [exact C02|]. right. discriminate.
    - destruct (fx_check (fx g)) eqn:Fc; cbn [andb negb] in E2b.
      + destruct (setup_block_connection_name_index_closed _ _ E2b) as [l [El ->]].
        split; [apply invS_set_bcl; exact I2a|]. split; [exact D12a|]. split; [exact D22a|].
        split; [destruct C02; constructor; assumption|]. right. intros _. exact El.
      + inversion E2b; subst g2. split; [exact I2a|]. split; [exact D12a|]. split; [exact D22a|]. split; [exact C02|]. right. discriminate. }
  destruct P2 as [I2 [D12 [D22 [C2 S2]]]].
  destruct (delete_orphans g2) as [g3|] eqn:E3; cbn [bind] in H; [|discriminate].
  pose proof (delete_orphans_invS g2 g3 I2 E3) as I3.
  destruct (delete_orphans_cframe g2 g3 E3) as [C3 [B3 K3]].
  (* S3b, S5n and the freshness of the connection name list survive the deletion of orphan nodes *)
  assert (D3' : S3b g3 /\ S5n g3 /\ fresh_bcl g3 = fresh_bcl g2).
  { pose proof (delete_nodes_invD (map (nn g2) (orphans g2)) g2 g3) as X. unfold delete_orphans in E3.
    clear - D12 D22 E3. revert E3. generalize (map (nn g2) (orphans g2)). intro names. revert g2 D12 D22.
    induction names as [|n r IH]; intros g2 D12 D22 H; cbn [delete_nodes] in H; [inversion H; subst; auto|].
    destruct (delete_node g2 n) as [g4|] eqn:E; cbn [bind] in H; [|discriminate].
    assert (Y : S3b g4 /\ S5n g4 /\ fresh_bcl g4 = fresh_bcl g2).
    { unfold delete_node in E. destruct (nget g2 n); [|discriminate]. revert E. gs. destruct (mem _ _); [|discriminate].
      intro E; inversion E; subst g4. split; [exact D12|split; [exact D22|reflexivity]]. }
    destruct Y as [Y1 [Y2 Y3]]. destruct (IH g4 Y1 Y2 H) as [Z1 [Z2 Z3]]. split; [exact Z1|split; [exact Z2|congruence]]. }
  destruct D3' as [D13 [D23 Fb3]].
  destruct (fix_centres g3 hbad) as [g4|] eqn:E4; cbn [bind] in H; [|discriminate].
  destruct (fix_centres_closed _ _ _ E4) as [m Eg4].
  assert (C04 : cframe g g4) by (subst g4; destruct (cframe_trans _ _ _ C2 C3); constructor; assumption).
  rewrite (fold_fix_layer_id _ g4 (layers_fine_cframe g g4 C04 Lf)) in H. inversion H; subst g'. subst g4.
  split; [apply invS_set_ccen; exact I3|]. split; [exact D13|]. split; [exact D23|]. split; [exact C04|].
  destruct S2 as [[A [B [C D]]]|S2]; [left; repeat split; [exact A|exact B|change (bcl g3 = bcl g); congruence|change (fresh_bcl g3 = fresh_bcl g); congruence]|].
  right. intro Fc. change (fresh_bcl g3 = Ok (bcl g3)). rewrite Fb3, B3. exact (S2 Fc).
Qed.

(** check(fix) in the repaired source keeps the whole invariant of a conforming mesh *)
Theorem check_fix_inv g hm_ hbad g' : Inv g -> fx_nbr (fx g) = true -> fx_check (fx g) = true -> shares_side g -> layers_fine g ->
  check_fix g hm_ hbad = Ok g' -> Inv g'.
Proof.
  intros [IS [D1 D2 [B K]]] Fx Fc Sh Lf H.
  destruct (check_fix_M g hm_ hbad g' IS D1 D2 Fx Sh Lf H) as [IS' [D1' [D2' [C S]]]].
  constructor; [exact IS'|]. constructor; [exact D1'|exact D2'|]. split.
  - rewrite (fresh_bnl_cframe g g' C), (cf_bnl _ _ C). exact B.
  - destruct S as [[_ [_ [E1 E2]]]|S]; [rewrite E2, E1; exact K|exact (S Fc)].
Qed.

Lemma delete_columns_layers names : forall g g', InvS g -> delete_columns g names = Ok g' -> layers_fine g -> layers_fine g'.
Proof.
  induction names as [|n r IH]; intros g g' IS H Lf; cbn [delete_columns] in H; [inversion H; subst; exact Lf|].
  destruct (delete_column g n) as [g1|] eqn:E; cbn [bind] in H; [|discriminate].
  apply (IH g1 g' (delete_column_invS g n g1 IS E) H).
  destruct (delete_column_closed g n g1 IS E) as [? [? [? [? [? [? [? [-> _]]]]]]]]. exact Lf.
Qed.
(** reduce keeps the whole invariant of a conforming mesh (repaired source aa68858: the neighbour sets follow the
    connections); it sets up the name lists itself *)
Theorem reduce_inv g names hm_ hbad g' : Inv g -> fx_nbr (fx g) = true -> shares_side g -> layers_fine g ->
  reduce g names hm_ hbad = Ok g' -> Inv g'.
Proof.
  intros [IS [D1 D2 D3]] Fx Sh Lf H. unfold reduce in H.
  destruct (lookup_cols g names) as [keep|] eqn:E0; cbn [bind] in H; [|discriminate].
  match type of H with (do g1 <- delete_columns g ?L; _) = _ => destruct (delete_columns g L) as [g1|] eqn:E1 end; cbn [bind] in H; [|discriminate].
  destruct (delete_columns_core _ _ _ IS D1 D2 E1) as [I1 [D11 D21]].
  destruct (delete_columns_invS _ _ _ IS E1) as [_ F1].
  destruct (delete_columns_frame _ _ _ IS E1) as [Hsub Ecn].
  destruct (check_fix g1 hm_ hbad) as [g2|] eqn:E2; cbn [bind] in H; [|discriminate].
  destruct (check_fix_M g1 hm_ hbad g2 I1 D11 D21 ltac:(rewrite F1; exact Fx) (shares_side_sub g g1 Hsub Ecn Sh)
              (delete_columns_layers _ _ _ IS E1 Lf) E2) as [I2 [D12 [D22 _]]].
  eapply setup_names_inv; eauto.
Qed.

(** ** decompose_columns and refine: the hypothesis on the connections they add, as a property of the mesh in which they are
    added ([shares_side]; independent of the hint) *)
Lemma decompose_conns_ok g names hs hmiss g' :
  InvS g -> (forall g1, decompose_each g names hs = Ok g1 -> shares_side g1) ->
  decompose_columns g names hs hmiss = Ok g' -> forall g1, decompose_each g names hs = Ok g1 -> conns_ok g1 hmiss.
Proof.
  intros IS Hs H g1 E1. destruct (is_ordering_of hmiss (missing_pairs g1)) eqn:Eo.
  - apply missing_conns_ok; [|exact (Hs g1 E1)|exact Eo].
    destruct (decompose_each_invM False names g hs g1 (proj2 (invMp_false g) IS) E1) as [IM1 _]. apply (proj1 (invMp_false g1)). exact IM1.
  - exfalso. unfold decompose_columns in H. destruct (lookup_cols g names); cbn [bind] in H; [|discriminate].
    rewrite E1 in H. cbn [bind] in H. unfold add_missing in H. rewrite Eo in H. discriminate.
Qed.
Theorem decompose_columns_inv_conforming g names hs hmiss g' : Inv g -> fx_nbr (fx g) = true ->
  (forall g1, decompose_each g names hs = Ok g1 -> shares_side g1) ->
  decompose_columns g names hs hmiss = Ok g' -> Inv g'.
Proof. intros I Fx Hs H. exact (decompose_columns_inv g names hs hmiss g' I Fx (decompose_conns_ok g names hs hmiss g' (i_s g I) Hs H) H). Qed.
Lemma refine_conns_ok_conforming g names h g' : InvS g ->
  (forall g4, refine_prefix g names h = Ok (Some g4) -> shares_side g4) -> refine g names h = Ok g' -> refine_conns_ok g names h.
Proof.
  intros IS Hs H g4 Ep. destruct (is_ordering_of (hm h) (missing_pairs g4)) eqn:Eo.
  - apply missing_conns_ok; [|exact (Hs g4 Ep)|exact Eo].
    destruct (refine_prefix_spec False False g names h g4 (proj2 (invMp_false g) IS) ltac:(intros []) Ep) as [IM4 _].
    apply (proj1 (invMp_false g4)). exact IM4.
  - exfalso. rewrite refine_eq, Ep in H. cbn [bind] in H. unfold add_missing in H. rewrite Eo in H. discriminate.
Qed.
Theorem refine_inv_conforming g names h g' : Inv g ->
  (forall g4, refine_prefix g names h = Ok (Some g4) -> shares_side g4) -> refine g names h = Ok g' -> Inv g'.
Proof. intros I Hs H. exact (refine_inv g names h g' I (refine_conns_ok_conforming g names h g' (i_s g I) Hs H) H). Qed.
