(** C10 -- add_connection and delete_connection. *)
From Coq Require Import Ascii String List Bool PArith NArith ZArith QArith FMapPositive Permutation Lia.
From PTBase Require Import Exn PyStr.
From P Require Import Assoc GeoState GeoEdit Inv InvNames InvSimple Sets InvCol.
Import ListNotations.
Open Scope list_scope.

Lemma agree_new_conn g a b : Fr g -> agree g (new_conn g a b).
Proof.
  intro F. constructor; try reflexivity; try (intros; repeat split; reflexivity).
  - cbn. lia.
  - intros i H. unfold new_conn. gsu. rewrite !fget_fset_neq by fresh_neq F H. auto.
Qed.

(** ** connection_nodes: what it returns is a pair of consecutive nodes of one column that both belong to the other *)
Lemma In_cyc_pairs {A} (l : list A) x y : In (x, y) (cyc_pairs l) -> In x l /\ In y l.
Proof.
  unfold cyc_pairs. intro H. split; [exact (in_combine_l _ _ _ _ H)|].
  apply in_combine_r in H. destruct l as [|a r]; [destruct H|]. cbn [rot1] in H. apply in_app_iff in H. cbn in H.
  destruct H as [H|[<-|[]]]; [right; exact H|left; reflexivity].
Qed.
Lemma first_shared_ok la lb x y : first_shared la lb = Some (x, y) -> In x la /\ In y la /\ In x lb /\ In y lb.
Proof.
  unfold first_shared. intro H. apply find_some in H. destruct H as [H M]. cbn [fst snd] in M.
  apply andb_prop in M. destruct M as [M1 M2]. apply mem_In in M1. apply mem_In in M2.
  destruct (In_cyc_pairs _ _ _ H). auto.
Qed.
(** consecutive entries of a duplicate-free cycle of length >= 2 differ *)
Lemma cyc_pairs_neq (l : list id) x y : NoDup l -> (2 <= length l)%nat -> In (x, y) (cyc_pairs l) -> x <> y.
Proof.
  intros ND L H E. subst y. unfold cyc_pairs in H.
  destruct l as [|a r]; [destruct H|]. cbn [rot1] in H.
  (* positions: x at index i in (a :: r) and at index i in (r ++ [a]) *)
  apply In_nth_error in H. destruct H as [i H].
  assert (H1 : nth_error (a :: r) i = Some x /\ nth_error (r ++ [a]) i = Some x).
  { revert H. generalize (a :: r) (r ++ [a]). intros l1 l2. revert l1 l2. induction i as [|i IH]; intros [|p l1] [|q l2] H; cbn in H; try discriminate.
    - inversion H; subst. auto.
    - cbn. apply IH. exact H. }
  destruct H1 as [H1 H2].
  assert (Hlen : (i < length (a :: r))%nat) by (apply nth_error_Some; congruence).
  (* x is also at index i+1 (mod n) of a :: r *)
  destruct (Nat.eq_dec i (length r)) as [->|Ni].
  - rewrite nth_error_app2 in H2 by lia. rewrite Nat.sub_diag in H2. cbn in H2. inversion H2; subst x.
    cbn in L. destruct r as [|b r']; [cbn in L; lia|].
    assert (X : nth_error (a :: b :: r') 0 = Some a) by reflexivity.
    rewrite NoDup_nth_error in ND. specialize (ND (length (b :: r')) 0%nat Hlen). rewrite H1, X in ND. specialize (ND eq_refl). discriminate ND.
  - cbn in Hlen. rewrite nth_error_app1 in H2 by lia.
    assert (X : nth_error (a :: r) (S i) = Some x) by exact H2.
    rewrite NoDup_nth_error in ND. specialize (ND i (S i) Hlen). rewrite H1, X in ND. specialize (ND eq_refl). lia.
Qed.
Lemma connection_nodes_ok g a b x y : NoDup (cns g a) -> NoDup (cns g b) -> connection_nodes g a b = Some (x, y) ->
  x <> y /\ In x (cns g a) /\ In y (cns g a) /\ In x (cns g b) /\ In y (cns g b).
Proof.
  intros Na Nb H. unfold connection_nodes in H.
  destruct (2 <? length (cns g a))%nat eqn:La.
  - apply Nat.ltb_lt in La. pose proof (first_shared_ok _ _ _ _ H) as [A [B [C D]]]. split; [|auto].
    unfold first_shared in H. apply find_some in H. destruct H as [H _]. apply (cyc_pairs_neq (cns g a)); [exact Na|lia|exact H].
  - destruct (2 <? length (cns g b))%nat eqn:Lb; [|discriminate]. apply Nat.ltb_lt in Lb.
    destruct (first_shared (cns g b) (cns g a)) as [[n m]|] eqn:E; [|discriminate]. inversion H; subst; clear H.
    pose proof (first_shared_ok _ _ _ _ E) as [A [B [C D]]]. split; [|auto].
    unfold first_shared in E. apply find_some in E. destruct E as [E _]. intro X. symmetry in X. revert X. apply (cyc_pairs_neq (cns g b)); [exact Nb|lia|exact E].
Qed.

(** ** add_connection *)
(** [k]: a fresh connection object joining two different listed columns that share a side; the
    neighbour sets follow only in the repaired source, or when the two columns are neighbours already;
    the name lists follow only while there is no layer *)
Definition nbrs_follow (g : geo) (a b : id) : Prop :=
  fx_nbr (fx g) = true \/ (In b (cnb g a) /\ In a (cnb g b)).

Lemma add_connection_obj_invS g k : InvS g -> ~ In k (klist g) -> (k < next g)%positive ->
  In (k0 g k) (clist g) -> In (k1 g k) (clist g) -> k0 g k <> k1 g k ->
  (kget g (kkey g k) = None -> connection_nodes g (k0 g k) (k1 g k) <> None) ->
  InvS (add_connection_obj g k).
Proof.
  intros I Hk Hlt Ha Hb Hab Hedge. unfold add_connection_obj. destruct (kget g (kkey g k)) eqn:E; [exact I|].
  specialize (Hedge eq_refl).
  set (a := k0 g k) in *. set (b := k1 g k) in *.
  destruct I as [F P1 P1k P2 P3 P4 P5].
  assert (Hnk : forall c, In c (clist g) -> ~ In k (cks g c)).
  { intros c Hc X. apply (s3_ex g P3 c Hc k) in X. destruct X; contradiction. }
  (* the state after the list/dict/node/connection-set updates, whatever the neighbour update *)
  assert (Core : forall nb, InvS (set_cnbr (ccon_add (ccon_add
      (set_knode (set_kdict (set_klist g (klist g ++ [k])) (aset key2_eqb (kdict g) (kkey g k) k))
                 (fset (knode g) k (connection_nodes g a b))) a k) b k) nb)).
  { intro nb. constructor.
    - destruct F as [F1 [F2 [F3 [F4 F5]]]]. unfold Fr, ccon_add. gs. repeat split; try assumption.
      intros x Hx. apply in_snoc in Hx. destruct Hx as [Hx| ->]; auto.
    - exact P1.
    - unfold S1k, ccon_add. gs. apply (DL_add_new key2_eqb key2_spec (kkey g)); auto.
    - exact P2.
    - destruct P3 as [Q1 [Q2 Q3]]. unfold S3a, ccon_add. gsu. split; [|split].
      + intros k' Hk'. apply in_snoc in Hk'. destruct Hk' as [Hk'| ->]; [exact (Q1 k' Hk')|auto].
      + intros c Hc. rewrite fget_fset. destruct (Pos.eqb_spec c b) as [->|Nb].
        * apply NoDup_sadd. rewrite fget_fset. destruct (Pos.eqb b a); [apply NoDup_sadd|]; apply Q2; assumption.
        * rewrite fget_fset. destruct (Pos.eqb_spec c a) as [->|Na]; [apply NoDup_sadd|]; apply Q2; assumption.
      + intros c Hc k'. rewrite in_snoc. specialize (Hnk c Hc). unfold cks in Hnk.
        assert (X : In k' (fget [] (fset (fset (ccon g) a (sadd (fget [] (ccon g) a) k)) b
                                        (sadd (fget [] (fset (ccon g) a (sadd (fget [] (ccon g) a) k)) b) k)) c)
                    <-> In k' (fget [] (ccon g) c) \/ (k' = k /\ (c = a \/ c = b))).
        { rewrite fget_fset. destruct (Pos.eqb_spec c b) as [->|Nb].
          - rewrite In_sadd, fget_fset. destruct (Pos.eqb_spec b a) as [Eb|Nb']; [exfalso; apply Hab; unfold a, b in *; ua; congruence|]. intuition.
          - rewrite fget_fset. destruct (Pos.eqb_spec c a) as [->|Na].
            + rewrite In_sadd. intuition.
            + intuition. }
        rewrite X, (Q3 c Hc k'). fold a b. split.
        * intros [[A B]|[-> B]]; [auto|]. split; [auto|]. destruct B as [->| ->]; auto.
        * intros [[A| ->] B]; [auto|]. right. split; [reflexivity|]. unfold a, b. ua. destruct B; auto.
    - intros k' Hk'. unfold ccon_add in Hk' |- *. revert Hk'. gsu. intro Hk'. apply in_snoc in Hk'. destruct Hk' as [Hk'| ->].
      + rewrite fget_fset_neq by (intros ->; contradiction). exact (P4 k' Hk').
      + rewrite fget_fset_eq. fold a b. destruct (connection_nodes g a b) as [[x y]|] eqn:En; [|contradiction].
        exists x, y. split; [reflexivity|].
        apply (connection_nodes_ok g a b x y); [apply (P5 a Ha)|apply (P5 b Hb)|exact En].
    - exact P5. }
  destruct (fx_nbr (fx g)).
  - unfold nbr_add. match goal with |- InvS (set_cnbr (set_cnbr ?G _) ?N) => exact (Core N) end.
  - unfold ccon_add in *. specialize (Core (cnbr g)). exact Core.
Qed.

Lemma add_connection_obj_invD g k : Inv g -> ~ In k (klist g) ->
  In (k0 g k) (clist g) -> In (k1 g k) (clist g) -> k0 g k <> k1 g k ->
  (kget g (kkey g k) = None -> nbrs_follow g (k0 g k) (k1 g k) /\ llist g = []) ->
  InvD (add_connection_obj g k).
Proof.
  intros I Hk Ha Hb Hab Hpre. unfold add_connection_obj. destruct (kget g (kkey g k)) eqn:E; [exact (i_d g I)|].
  destruct (Hpre eq_refl) as [Hn Hlay]. clear Hpre.
  set (a := k0 g k) in *. set (b := k1 g k) in *.
  destruct I as [[F P1 P1k P2 P3 P4 P5] [D1 D2 D3]].
  assert (J : forall G, klist G = klist g ++ [k] -> kc0 G = kc0 g -> kc1 G = kc1 g ->
              forall c d, joined G c d <-> joined g c d \/ (c = a /\ d = b) \/ (c = b /\ d = a)).
  { intros G E1 E2 E3 c d. unfold joined. ua. rewrite E1, E2, E3. split.
    - intros [k' [Hk' M]]. apply in_snoc in Hk'. destruct Hk' as [Hk'| ->]; [left; exists k'; auto|]. right. unfold a, b. ua. intuition.
    - intros [[k' [Hk' M]]|M]; [exists k'; split; [apply in_snoc; auto|exact M]|]. exists k. split; [apply in_snoc; auto|]. unfold a, b in M. ua. intuition. }
  assert (S5 : forall G, clist G = clist g -> llist G = llist g -> cnl G = cnl g -> csurf G = csurf g -> lbot G = lbot g -> S5n G).
  { intros G E1 E2 E3 E4 E5 c Hc. rewrite E1 in Hc. specialize (D2 c Hc). unfold count_layers in *. ua. rewrite E2, E3, E4, E5. exact D2. }
  assert (S6' : forall G, llist G = llist g -> ldict G = ldict g -> bnl G = bnl g -> bcl G = bcl g -> S6 G).
  { intros G E1 E2 E3 E4. apply (S6_no_layers g); auto. }
  destruct D1 as [Q1 Q2].
  destruct (fx_nbr (fx g)) eqn:Fx.
  - constructor; [|apply S5; reflexivity|apply S6'; reflexivity].
    unfold S3b, nbr_add, ccon_add. gs. split.
    + intros c Hc. unfold cnb. gs. rewrite fget_fset. destruct (Pos.eqb_spec c b) as [->|Nb].
      * apply NoDup_sadd. rewrite fget_fset. destruct (Pos.eqb b a); [apply NoDup_sadd|]; apply Q1; assumption.
      * rewrite fget_fset. destruct (Pos.eqb_spec c a) as [->|Na]; [apply NoDup_sadd|]; apply Q1; assumption.
    + intros c Hc d. rewrite J by reflexivity. rewrite <- (Q2 c Hc d). unfold cnb. gs.
      rewrite fget_fset. destruct (Pos.eqb_spec c b) as [->|Nb].
      * rewrite In_sadd, fget_fset. destruct (Pos.eqb_spec b a) as [Eb|Nb']; [exfalso; apply Hab; symmetry; exact Eb|]. intuition.
      * rewrite fget_fset. destruct (Pos.eqb_spec c a) as [->|Na]; [rewrite In_sadd|]; intuition.
  - destruct Hn as [Hn|[Hn1 Hn2]]; [congruence|].
    constructor; [|apply S5; reflexivity|apply S6'; reflexivity].
    unfold S3b, ccon_add. gs. split; [exact Q1|].
    intros c Hc d. rewrite J by reflexivity. rewrite <- (Q2 c Hc d). change (cnb (set_ccon _ _) c) with (cnb g c).
    split; [auto|]. intros [X|[[-> ->]|[-> ->]]]; assumption.
Qed.

Definition conn_args_ok (g : geo) (a b : str) : Prop :=
  forall ca cb, cget g a = Some ca -> cget g b = Some cb -> kget g (a, b) = None ->
    ca <> cb /\ connection_nodes g ca cb <> None.
Definition conn_derived_ok (g : geo) (a b : str) : Prop :=
  forall ca cb, cget g a = Some ca -> cget g b = Some cb -> kget g (a, b) = None ->
    nbrs_follow g ca cb /\ llist g = [].

Lemma new_conn_facts g ca cb : let g1 := new_conn g ca cb in
  k0 g1 (next g) = ca /\ k1 g1 (next g) = cb /\ (forall c, cns g1 c = cns g c) /\ (forall c, cn g1 c = cn g c) /\ (forall c, cnb g1 c = cnb g c).
Proof. cbn zeta. unfold new_conn. gsu. rewrite !fget_fset_eq. auto. Qed.

Theorem add_connection_invS g a b g' : InvS g -> conn_args_ok g a b -> add_connection g a b = Ok g' -> InvS g'.
Proof.
  intros I A H. unfold add_connection in H.
  destruct (cget g a) as [ca|] eqn:Ea; [|discriminate]. destruct (cget g b) as [cb|] eqn:Eb; [|discriminate].
  inversion H; subst g'; clear H. pose proof (i_fr g I) as F.
  destruct (s1_cget g a ca (i_s1 g I) Ea) as [Ha Hna]. destruct (s1_cget g b cb (i_s1 g I) Eb) as [Hb Hnb].
  destruct (new_conn_facts g ca cb) as [E0 [E1 [Ens [Enm _]]]].
  set (g1 := new_conn g ca cb) in *.
  assert (I1 : InvS g1) by (apply (agree_InvS g); [apply agree_new_conn; exact F|exact I]).
  assert (Ekey : kkey g1 (next g) = (a, b)) by (unfold kkey; rewrite E0, E1, !Enm, Hna, Hnb; reflexivity).
  assert (Cn : connection_nodes g1 ca cb = connection_nodes g ca cb) by (unfold connection_nodes; rewrite !Ens; reflexivity).
  destruct (kget g (a, b)) as [old|] eqn:Ek.
  { unfold add_connection_obj. rewrite Ekey. change (kget g1 (a, b)) with (kget g (a, b)). rewrite Ek. exact I1. }
  destruct (A ca cb Ea Eb Ek) as [Hne Hed].
  apply add_connection_obj_invS; try assumption.
  - intro X. change (In (next g) (klist g)) in X. apply (fr_k g F) in X. lia.
  - cbn. lia.
  - rewrite E0. exact Ha.
  - rewrite E1. exact Hb.
  - rewrite E0, E1. exact Hne.
  - intros _. rewrite E0, E1, Cn. exact Hed.
Qed.

Theorem add_connection_inv g a b g' : Inv g -> conn_args_ok g a b -> conn_derived_ok g a b -> add_connection g a b = Ok g' -> Inv g'.
Proof.
  intros I A D H. constructor; [eapply add_connection_invS; [apply I|exact A|exact H]|].
  unfold add_connection in H.
  destruct (cget g a) as [ca|] eqn:Ea; [|discriminate]. destruct (cget g b) as [cb|] eqn:Eb; [|discriminate].
  inversion H; subst g'; clear H. pose proof (i_fr g (i_s g I)) as F.
  destruct (s1_cget g a ca (i_s1 g (i_s g I)) Ea) as [Ha Hna]. destruct (s1_cget g b cb (i_s1 g (i_s g I)) Eb) as [Hb Hnb].
  destruct (new_conn_facts g ca cb) as [E0 [E1 [Ens [Enm Enb]]]].
  set (g1 := new_conn g ca cb) in *.
  assert (I1 : Inv g1) by (apply (agree_Inv g); [apply agree_new_conn; exact F|exact I]).
  assert (Ekey : kkey g1 (next g) = (a, b)) by (unfold kkey; rewrite E0, E1, !Enm, Hna, Hnb; reflexivity).
  destruct (kget g (a, b)) as [old|] eqn:Ek.
  { unfold add_connection_obj. rewrite Ekey. change (kget g1 (a, b)) with (kget g (a, b)). rewrite Ek. exact (i_d g1 I1). }
  destruct (A ca cb Ea Eb Ek) as [Hne Hed]. destruct (D ca cb Ea Eb Ek) as [Hnf Hlay].
  apply add_connection_obj_invD; try assumption.
  - intro X. change (In (next g) (klist g)) in X. apply (fr_k g F) in X. lia.
  - rewrite E0. exact Ha.
  - rewrite E1. exact Hb.
  - rewrite E0, E1. exact Hne.
  - intros _. rewrite E0, E1. split; [|exact Hlay]. unfold nbrs_follow. rewrite !Enb. exact Hnf.
Qed.
