(** C10 -- property theorems only.  Each is closed by [exact] of a lemma proved in the other files
    of this directory and followed by Print Assumptions.
    Model: GeoState.v / GeoEdit.v / GeoStep.v (mulgrid edit state machine).  Invariant: Inv.v.
    [InvS]: lookups/lists agree, node<->column and column<->connection back-references exact, each
    connection's nodes are two distinct nodes of both its columns, every column a polygon.
    [InvD]: neighbour sets exact (symmetric), layer counts match surfaces, name lists fresh.
    [Inv] = [InvS] /\ [InvD]. *)
From Coq Require Import Ascii String List Bool PArith NArith ZArith QArith FMapPositive Permutation.
From PTBase Require Import Exn PyStr.
From P Require Import Assoc GeoState GeoEdit GeoEdit2 GeoStep Inv InvNames InvSimple Sets InvCol InvConn InvDel InvRefresh InvRename InvCompound InvSplit InvSplit2 InvSnap InvDecomp InvRefine InvCheck Reach Witness InvConseq InvLookup.
Import ListNotations.
Open Scope list_scope.

(** the empty geometry is consistent, whatever the naming convention and atmosphere type *)
Theorem geo_inv_init : forall cv a f, Inv (empty_geo cv a f).
Proof. exact inv_empty. Qed.
Print Assumptions geo_inv_init.

(** ** the object graph ([InvS]) is kept by every edit given well-formed arguments ... *)
Theorem geo_invS_step : forall g o g', InvS g -> preS g o -> step g o = Ok g' -> InvS g'.
Proof. exact step_invS. Qed.
Print Assumptions geo_invS_step.
(** ... hence after every finite sequence of edits (induction over the sequence, no length bound) *)
Theorem geo_invS_reachable : forall ops g g', InvS g -> all_pre preS g ops -> run g ops = Ok g' -> InvS g'.
Proof. exact invS_reachable. Qed.
Print Assumptions geo_invS_reachable.
(** from ANY state with a consistent object graph and no stale neighbour, identify_neighbours +
    set_column_num_layers on every column + the two name-list set-ups give the whole invariant *)
Theorem geo_refresh_establishes : forall g g', InvS g -> nbrs_sound g -> refresh g = Ok g' -> Inv g'.
Proof. exact refresh_establishes. Qed.
Print Assumptions geo_refresh_establishes.
Theorem setup_names_make_name_lists_fresh : forall g g', setup_names g = Ok g' -> S6 g' /\ exists b k, g' = set_bcl (set_bnl g b) k.
Proof. exact setup_names_establishes. Qed.
Print Assumptions setup_names_make_name_lists_fresh.
Theorem identify_neighbours_makes_neighbours_exact : forall g, nbrs_sound g -> S3b (identify_neighbours g).
Proof. exact identify_neighbours_establishes. Qed.
Print Assumptions identify_neighbours_makes_neighbours_exact.
Theorem set_surface_keeps_layer_counts : forall g name z g', S5n g -> set_surface g name z = Ok g' -> S5n g'.
Proof. exact set_surface_S5n. Qed.
Print Assumptions set_surface_keeps_layer_counts.

(** ** the whole invariant: one theorem per edit, under the weakest precondition proved for the faithful model *)
Theorem add_node_preserves : forall g n p, Inv g -> Inv (add_node g n p).
Proof. exact add_node_inv. Qed.
Print Assumptions add_node_preserves.
Theorem delete_node_preserves : forall g n g', Inv g -> node_unused g n -> delete_node g n = Ok g' -> Inv g'.
Proof. exact delete_node_inv. Qed.
Print Assumptions delete_node_preserves.
Theorem add_column_preserves : forall g n ns ce s g', Inv g -> col_args_ok g n ns -> col_derived_ok g n -> add_column g n ns ce s = Ok g' -> Inv g'.
Proof. exact add_column_inv. Qed.
Print Assumptions add_column_preserves.
Theorem delete_column_preserves : forall g n g', Inv g -> llist g = [] -> delete_column g n = Ok g' -> Inv g'.
Proof. exact delete_column_inv_any. Qed.
Print Assumptions delete_column_preserves.
Theorem delete_column_keeps_all_but_names : forall g n g', InvS g -> delete_column g n = Ok g' ->
  InvS g' /\ (fx_nbr (fx g) = false -> S3b g -> S3b g') /\ (S5n g -> S5n g') /\ (llist g = [] -> S6 g -> S6 g').
Proof. exact delete_column_core. Qed.
Print Assumptions delete_column_keeps_all_but_names.
Theorem add_connection_preserves : forall g a b g', Inv g -> conn_args_ok g a b -> conn_derived_ok g a b -> add_connection g a b = Ok g' -> Inv g'.
Proof. exact add_connection_inv. Qed.
Print Assumptions add_connection_preserves.
Theorem delete_connection_preserves : forall g key g', Inv g -> (fx_nbr (fx g) = true \/ joined_otherwise g key) -> llist g = [] ->
  delete_connection g key = Ok g' -> Inv g'.
Proof. exact delete_connection_inv_any. Qed.
Print Assumptions delete_connection_preserves.
Theorem add_layer_preserves : forall g n b c t, Inv g -> no_dependants g -> Inv (add_layer g n b c t).
Proof. exact add_layer_inv. Qed.
Print Assumptions add_layer_preserves.
Theorem delete_layer_preserves : forall g n g', Inv g -> no_dependants g -> delete_layer g n = Ok g' -> Inv g'.
Proof. exact delete_layer_inv. Qed.
Print Assumptions delete_layer_preserves.
Theorem add_well_preserves : forall g n, Inv g -> Inv (add_well g n).
Proof. exact add_well_inv. Qed.
Print Assumptions add_well_preserves.
Theorem delete_well_preserves : forall g n g', Inv g -> delete_well g n = Ok g' -> Inv g'.
Proof. exact delete_well_inv. Qed.
Print Assumptions delete_well_preserves.
Theorem delete_orphans_preserves : forall g g', Inv g -> delete_orphans g = Ok g' -> Inv g'.
Proof. exact delete_orphans_inv. Qed.
Print Assumptions delete_orphans_preserves.
(** renaming with free new names; in the source as it stands the renamed columns must be unconnected,
    in the repaired source ([fx_rename]) there is no such condition *)
Theorem rename_column_preserves : forall g olds news g', Inv g -> ren_cols_ok g (combine olds news) -> rename_column g olds news = Ok g' -> Inv g'.
Proof. exact rename_column_inv. Qed.
Print Assumptions rename_column_preserves.
Theorem rename_layer_preserves : forall g olds news g', Inv g -> ren_lays_ok g (combine olds news) -> rename_layer g olds news = Ok g' -> Inv g'.
Proof. exact rename_layer_inv. Qed.
Print Assumptions rename_layer_preserves.
(** split_column in the repaired source (proposed_fixes/C10-split-column.diff), provided no neighbour holding the corner
    that leaves the column also holds the opposite corner; in the source as it stands see split_column_breaks_inv *)
Theorem split_column_repaired_preserves : forall g colname nodename g', Inv g -> split_pre g colname nodename ->
  split_column g colname nodename = Ok g' -> Inv g'.
Proof. exact split_column_inv. Qed.
Print Assumptions split_column_repaired_preserves.
Theorem identify_neighbours_preserves : forall g, Inv g -> Inv (identify_neighbours g).
Proof. exact identify_neighbours_inv. Qed.
Print Assumptions identify_neighbours_preserves.
Theorem set_column_num_layers_preserves : forall g n g', Inv g -> set_num_layers g n = Ok g' -> Inv g'.
Proof. exact set_num_layers_inv. Qed.
Print Assumptions set_column_num_layers_preserves.
Theorem set_surface_preserves : forall g n z g', Inv g -> llist g = [] -> set_surface g n z = Ok g' -> Inv g'.
Proof. exact set_surface_inv. Qed.
Print Assumptions set_surface_preserves.
Theorem setup_block_name_index_preserves : forall g g', Inv g -> setup_block_name_index g = Ok g' -> Inv g'.
Proof. exact setup_block_name_index_inv. Qed.
Print Assumptions setup_block_name_index_preserves.
Theorem setup_block_connection_name_index_preserves : forall g g', Inv g -> setup_block_connection_name_index g = Ok g' -> Inv g'.
Proof. exact setup_block_connection_name_index_inv. Qed.
Print Assumptions setup_block_connection_name_index_preserves.

(** ** compound operations *)
(** rebuilding the layers (copy_layers_from, refine_layers) re-establishes the whole invariant from any consistent
    object graph with exact neighbour sets: no precondition on layer counts or name lists *)
Theorem copy_layers_from_preserves : forall g lays g', Inv g -> copy_layers_from g lays = Ok g' -> Inv g'.
Proof. exact copy_layers_from_inv. Qed.
Print Assumptions copy_layers_from_preserves.
Theorem copy_layers_from_reestablishes : forall g lays g', InvS g -> S3b g -> copy_layers_from g lays = Ok g' -> Inv g'.
Proof. exact copy_layers_from_establishes. Qed.
Print Assumptions copy_layers_from_reestablishes.
Theorem refine_layers_preserves : forall g names factor g', Inv g -> refine_layers g names factor = Ok g' -> Inv g'.
Proof. exact refine_layers_inv. Qed.
Print Assumptions refine_layers_preserves.
Theorem refine_layers_reestablishes : forall g names factor g', InvS g -> S3b g -> refine_layers g names factor = Ok g' -> Inv g'.
Proof. exact refine_layers_establishes. Qed.
Print Assumptions refine_layers_reestablishes.
(** rotate: whatever the new positions of the nodes and centres *)
Theorem rotate_preserves : forall g ps cs g', Inv g -> move_nodes g ps cs = Ok g' -> Inv g'.
Proof. exact move_nodes_inv. Qed.
Print Assumptions rotate_preserves.
(** translate: every elevation moves by the same amount, so layer counts and name lists stay right *)
Theorem translate_preserves : forall g dx dy dz, Inv g -> Inv (translate g dx dy dz).
Proof. exact translate_inv. Qed.
Print Assumptions translate_preserves.
(** ** snapping surfaces to layers: the whole invariant when the layers (below the atmosphere layer) lie one below the
    other -- strictly decreasing bottoms; for the nearest-layer variant also tops above the bottom of the same layer and not
    above the bottom of the layer before.  add_layer accepts any elevations, so this is a hypothesis on the state. *)
Theorem snap_columns_to_layers_preserves : forall g minth names g', Inv g -> layers_descend g ->
  snap_columns_to_layers g minth names = Ok g' -> Inv g'.
Proof. exact snap_columns_to_layers_inv. Qed.
Print Assumptions snap_columns_to_layers_preserves.
Theorem snap_columns_to_nearest_layers_preserves : forall g names g', Inv g -> layers_stacked g ->
  snap_columns_to_nearest_layers g names = Ok g' -> Inv g'.
Proof. exact snap_columns_to_nearest_layers_inv. Qed.
Print Assumptions snap_columns_to_nearest_layers_preserves.

(** fit_surface with the fitted elevations given: each surface assigned with its layer count, the columns snapped, the name
    lists set up *)
Theorem fit_surface_preserves : forall g names zs snap g', Inv g -> layers_descend g -> fit_surface g names zs snap = Ok g' -> Inv g'.
Proof. exact fit_surface_inv. Qed.
Print Assumptions fit_surface_preserves.

(** ** triangulate_column / decompose_columns: the new centre node, the new columns (distinct corners of the old one,
    wherever the table starts) and the old column's removal keep the object graph, the neighbour sets and the layer counts
    -- in either source variant and whatever the state of the derived data ([InvS] alone is kept from [InvS] alone);
    triangulate_column does not refresh the name lists, decompose_columns does *)
Theorem triangulate_column_keeps_object_graph : forall g name g' names, InvS g -> triangulate_column g name = Ok (g', names) -> InvS g'.
Proof. exact triangulate_column_invS. Qed.
Print Assumptions triangulate_column_keeps_object_graph.
Theorem triangulate_column_keeps_all_but_name_lists : forall g name g' names, Inv g -> triangulate_column g name = Ok (g', names) ->
  InvS g' /\ S3b g' /\ S5n g'.
Proof. exact triangulate_column_keeps. Qed.
Print Assumptions triangulate_column_keeps_all_but_name_lists.
Theorem decompose_columns_keeps_object_graph : forall g names hs hmiss g', InvS g ->
  (forall g1, decompose_each g names hs = Ok g1 -> conns_ok g1 hmiss) ->
  decompose_columns g names hs hmiss = Ok g' -> InvS g'.
Proof. exact decompose_columns_invS. Qed.
Print Assumptions decompose_columns_keeps_object_graph.
(** the whole invariant in the repaired source (aa68858: add_connection keeps the neighbour sets; decompose_columns never
    calls identify_neighbours), given that each missing connection it adds joins two different columns sharing a side *)
Theorem decompose_columns_preserves : forall g names hs hmiss g', Inv g -> fx_nbr (fx g) = true ->
  (forall g1, decompose_each g names hs = Ok g1 -> conns_ok g1 hmiss) ->
  decompose_columns g names hs hmiss = Ok g' -> Inv g'.
Proof. exact decompose_columns_inv. Qed.
Print Assumptions decompose_columns_preserves.

(** ** refine (no bisection), for every iteration order of its sets and every boundary-node list: the object graph from any
    consistent object graph; the whole invariant (it identifies the neighbours and sets up the name lists itself, either
    source variant) -- given that each missing connection it adds joins two different columns sharing a side *)
Theorem refine_keeps_object_graph : forall g names h g', InvS g -> refine_conns_ok g names h -> refine g names h = Ok g' -> InvS g'.
Proof. exact refine_invS. Qed.
Print Assumptions refine_keeps_object_graph.
Theorem refine_preserves : forall g names h g', Inv g -> refine_conns_ok g names h -> refine g names h = Ok g' -> Inv g'.
Proof. exact refine_inv. Qed.
Print Assumptions refine_preserves.
(** no orphan node: when the connections around the selection lie on sides of its columns, one connection per side
    ([refine_conforming]), every node that refine adds -- mid-side nodes at connections and on the boundary, centre nodes --
    is a node of a column of the result.  (The mid-side node of a shared side is found from both columns because the
    dictionary is keyed by the unordered pair of end-node names; a second node made for a side that has one already -- the
    defect repaired by 721b330 -- would overwrite the entry and leave the first without a column.) *)
Theorem refine_new_nodes_belong_to_columns : forall g names h g', InvS g -> refine_conforming g names -> refine g names h = Ok g' ->
  forall a, In a (nlist g') -> ~ In a (nlist g) -> exists c', In c' (clist g') /\ In a (cns g' c').
Proof. exact refine_new_nodes_used. Qed.
Print Assumptions refine_new_nodes_belong_to_columns.
(** every refined side of a triangle or quadrilateral is used by one of its sub-columns, whichever sides are refined
    (checked by computation over all 8 + 16 side sets and the transition tables) *)
Theorem refine_tables_cover_refined_sides : forall n f, n = 3%nat \/ n = 4%nat -> covers n (filter f (seq 0 n)) = true.
Proof. exact covers_all. Qed.
Print Assumptions refine_tables_cover_refined_sides.

(** proved only for part of the invariant: the snaps without the hypothesis on the layers (all but the layer counts),
    check(fix) / reduce in general (the object graph) *)
Theorem snap_columns_to_layers_partial : forall g minth names g', InvS g -> S3b g -> snap_columns_to_layers g minth names = Ok g' ->
  InvS g' /\ S3b g' /\ (qltb 0 minth = true -> S6 g').
Proof. exact InvCompound.snap_columns_to_layers_partial. Qed.
Print Assumptions snap_columns_to_layers_partial.
Theorem snap_columns_to_nearest_layers_partial : forall g names g', InvS g -> S3b g -> snap_columns_to_nearest_layers g names = Ok g' ->
  InvS g' /\ S3b g' /\ S6 g'.
Proof. exact InvCompound.snap_columns_to_nearest_layers_partial. Qed.
Print Assumptions snap_columns_to_nearest_layers_partial.
Theorem check_fix_object_graph_partial : forall g hm hbad g', InvS g -> conns_ok g hm -> check_fix g hm hbad = Ok g' -> InvS g'.
Proof. exact check_fix_invS. Qed.
Print Assumptions check_fix_object_graph_partial.
Theorem reduce_object_graph_partial : forall g names hm hbad g', InvS g ->
  (forall g1, delete_columns g (map (cn g) (filter (fun c => negb (existsb (fun n => match cget g n with Some x => Pos.eqb x c | None => false end) names)) (clist g))) = Ok g1 -> conns_ok g1 hm) ->
  reduce g names hm hbad = Ok g' -> InvS g'.
Proof. exact reduce_invS. Qed.
Print Assumptions reduce_object_graph_partial.

(** ** check(fix) and reduce on a conforming mesh ([shares_side]: two columns with two or more common nodes have two
    consecutive common nodes): the connections that are added then join two different columns sharing a side -- derived from
    the start mesh, no hypothesis on intermediate states *)
Theorem missing_connections_join_columns_sharing_a_side : forall g hl, InvS g -> shares_side g ->
  is_ordering_of hl (missing_pairs g) = true -> conns_ok g hl.
Proof. exact missing_conns_ok. Qed.
Print Assumptions missing_connections_join_columns_sharing_a_side.
Theorem check_fix_keeps_object_graph : forall g hm hbad g', InvS g -> shares_side g -> check_fix g hm hbad = Ok g' -> InvS g'.
Proof. exact check_fix_invS_conforming. Qed.
Print Assumptions check_fix_keeps_object_graph.
Theorem reduce_keeps_object_graph : forall g names hm hbad g', InvS g -> shares_side g -> reduce g names hm hbad = Ok g' -> InvS g'.
Proof. exact reduce_invS_conforming. Qed.
Print Assumptions reduce_keeps_object_graph.
(** the whole invariant while no layer needs fixing: reduce (repaired source aa68858; it sets up the name lists itself);
    check(fix) with the connection name index set up again (proposed_fixes/C10-check-fix-name-index.diff, flag fx_check) --
    without it the connection name list goes stale: check_fix_breaks_inv *)
Theorem reduce_preserves : forall g names hm hbad g', Inv g -> fx_nbr (fx g) = true -> shares_side g -> layers_fine g ->
  reduce g names hm hbad = Ok g' -> Inv g'.
Proof. exact reduce_inv. Qed.
Print Assumptions reduce_preserves.
Theorem check_fix_repaired_preserves : forall g hm hbad g', Inv g -> fx_nbr (fx g) = true -> fx_check (fx g) = true ->
  shares_side g -> layers_fine g -> check_fix g hm hbad = Ok g' -> Inv g'.
Proof. exact check_fix_inv. Qed.
Print Assumptions check_fix_repaired_preserves.

(** reduce keeps the WHOLE invariant when the remaining columns still form a valid mesh (nothing missing -- checked by the
    empty hint --, no extra connection, layers containing their centres) *)
Theorem reduce_valid_mesh_preserves : forall g names hbad g', Inv g -> reduce g names [] hbad = Ok g' ->
  (forall keep g1, lookup_cols g names = Ok keep -> delete_columns g (map (cn g) (filter (fun c => negb (mem c keep)) (clist g))) = Ok g1 ->
     extra_keys g1 = [] /\ layers_fine g1) ->
  Inv g'.
Proof. exact reduce_inv_clean. Qed.
Print Assumptions reduce_valid_mesh_preserves.

(** any edit, then any finite sequence of edits *)
Theorem geo_inv_step : forall g o g', Inv g -> pre g o -> step g o = Ok g' -> Inv g'.
Proof. exact step_inv. Qed.
Print Assumptions geo_inv_step.
Theorem geo_inv_reachable : forall ops g g', Inv g -> all_pre pre g ops -> run g ops = Ok g' -> Inv g'.
Proof. exact inv_reachable. Qed.
Print Assumptions geo_inv_reachable.
Theorem run_is_a_left_fold : forall ops g, fold_left (fun r o => bind r (fun g1 => step g1 o)) ops (Ok g) = run g ops.
Proof. exact run_fold_eq. Qed.
Print Assumptions run_is_a_left_fold.

(** ** the preconditions cannot be dropped: the faithful model of the source as it stands carries the findings *)
Theorem split_column_breaks_inv :
  exists g c n g', Inv g /\ split_column g c n = Ok g' /\ ~ S1k g' /\ ~ S2 g' /\ ~ S3b g'.
Proof. exact split_column_refuted. Qed.
Print Assumptions split_column_breaks_inv.
Theorem rename_column_breaks_inv :
  exists g olds news g', Inv g /\ rename_column g olds news = Ok g' /\ ~ S1k g'.
Proof. exact rename_column_refuted. Qed.
Print Assumptions rename_column_breaks_inv.
Theorem add_connection_breaks_inv :
  exists g a b g', Inv g /\ add_connection g a b = Ok g' /\ ~ S3b g' /\ ~ S6 g'.
Proof. exact add_connection_refuted. Qed.
Print Assumptions add_connection_breaks_inv.
Theorem delete_connection_breaks_inv :
  exists g key g', Inv g /\ delete_connection g key = Ok g' /\ ~ S3b g' /\ ~ S6 g'.
Proof. exact delete_connection_refuted. Qed.
Print Assumptions delete_connection_breaks_inv.
Theorem add_column_breaks_inv :
  exists g n ns ce s g', Inv g /\ add_column g n ns ce s = Ok g' /\ ~ S5n g' /\ ~ S6 g'.
Proof. exact add_column_refuted. Qed.
Print Assumptions add_column_breaks_inv.
Theorem delete_column_breaks_inv :
  exists g n g', Inv g /\ delete_column g n = Ok g' /\ ~ S6 g'.
Proof. exact delete_column_refuted. Qed.
Print Assumptions delete_column_breaks_inv.
Theorem add_layer_breaks_inv :
  exists g n b c t, Inv g /\ ~ S5n (add_layer g n b c t) /\ ~ S6 (add_layer g n b c t).
Proof. exact add_layer_refuted. Qed.
Print Assumptions add_layer_breaks_inv.
Theorem delete_layer_breaks_inv :
  exists g n g', Inv g /\ delete_layer g n = Ok g' /\ ~ S5n g' /\ ~ S6 g'.
Proof. exact delete_layer_refuted. Qed.
Print Assumptions delete_layer_breaks_inv.

(** check(fix = True) and triangulate_column: two more members of the family "derived data is not refreshed" *)
Theorem check_fix_breaks_inv : exists g hm hbad g', Inv g /\ check_fix g hm hbad = Ok g' /\ ~ S6 g'.
Proof. exact check_fix_refuted. Qed.
Print Assumptions check_fix_breaks_inv.
Theorem triangulate_column_breaks_inv : exists g n g' names, Inv g /\ triangulate_column g n = Ok (g', names) /\ ~ S6 g'.
Proof. exact triangulate_column_refuted. Qed.
Print Assumptions triangulate_column_breaks_inv.

(** [split_pre] cannot be dropped either: in the repaired source too, a quadrilateral with a neighbour that shares three of
    its corners (an overlapping column, outside the meshes the property ranges over) is split into halves one of which
    carries a connection whose two nodes are not both its own *)
Theorem split_column_overlap_breaks_inv :
  exists g c n g', Inv g /\ fx_split (fx g) = true /\ split_column g c n = Ok g' /\ ~ S4 g'.
Proof. exact split_column_overlap_refuted. Qed.
Print Assumptions split_column_overlap_breaks_inv.

(** ** the hypotheses are met by a non-trivial geometry: two quadrilateral columns sharing a side, two layers *)
Theorem example_two_columns_consistent : Inv g_two.
Proof. exact g_two_inv. Qed.
Print Assumptions example_two_columns_consistent.
Theorem example_built_by_edits : run (empty_geo 0 2 nofix) (ops_flat ++ ops_layers) = Ok g_two.
Proof. exact g_two_built. Qed.
Print Assumptions example_built_by_edits.
Theorem example_repaired_split_keeps_inv : exists g', split_column g_two_fixed na nd = Ok g' /\ Inv g'.
Proof. exact split_column_repaired_keeps_inv. Qed.
Print Assumptions example_repaired_split_keeps_inv.
Theorem example_repaired_rename_keeps_inv : exists g', rename_column g_two_fixed [na] [nz] = Ok g' /\ Inv g'.
Proof. exact rename_column_repaired_keeps_inv. Qed.
Print Assumptions example_repaired_rename_keeps_inv.
(** the hypotheses of the refine theorems are met: one of the two columns refined (hints: the one connection, all six nodes on
    the boundary, the two columns, the eight missing connections in the order the model finds them) *)
Theorem example_refine_runs : refine g_two [na] h_ref = Ok g_refined.
Proof. exact g_refined_run. Qed.
Print Assumptions example_refine_runs.
Theorem example_refine_keeps_inv_and_leaves_no_orphan :
  Inv g_refined /\ forall a, In a (nlist g_refined) -> ~ In a (nlist g_two) -> exists c', In c' (clist g_refined) /\ In a (cns g_refined c').
Proof. exact refine_example. Qed.
Print Assumptions example_refine_keeps_inv_and_leaves_no_orphan.
(** decompose_columns / refine with the hypothesis on the added connections stated as conformity ([shares_side]) of the mesh
    in which they are added (after the columns were replaced) -- hint-independent; deriving it from conformity of the START
    mesh needs the tiling argument of C11 and is not done here *)
Theorem decompose_columns_conforming_preserves : forall g names hs hmiss g', Inv g -> fx_nbr (fx g) = true ->
  (forall g1, decompose_each g names hs = Ok g1 -> shares_side g1) -> decompose_columns g names hs hmiss = Ok g' -> Inv g'.
Proof. exact decompose_columns_inv_conforming. Qed.
Print Assumptions decompose_columns_conforming_preserves.
Theorem refine_conforming_preserves : forall g names h g', Inv g ->
  (forall g4, refine_prefix g names h = Ok (Some g4) -> shares_side g4) -> refine g names h = Ok g' -> Inv g'.
Proof. exact refine_inv_conforming. Qed.
Print Assumptions refine_conforming_preserves.

(** ** the statement's words read off the invariant, for every state: "each column knows exactly its neighbours
    (symmetrically)" -- a neighbour of a listed column is a different listed column that has the column among its own
    neighbours; "each connection's two nodes are the edge its two columns share" -- two neighbouring columns are joined by a
    listed connection that both of them hold and whose two distinct nodes are nodes of both *)
Theorem neighbours_are_symmetric : forall g c d, Inv g -> In c (clist g) -> In d (cnb g c) ->
  In d (clist g) /\ d <> c /\ In c (cnb g d).
Proof. exact nbr_symmetric. Qed.
Print Assumptions neighbours_are_symmetric.
Theorem neighbours_share_the_nodes_of_their_connection : forall g c d, Inv g -> In c (clist g) -> In d (cnb g c) ->
  exists k a b, In k (klist g) /\ In k (cks g c) /\ In k (cks g d) /\ kn g k = Some (a, b) /\ a <> b /\
    In a (cns g c) /\ In b (cns g c) /\ In a (cns g d) /\ In b (cns g d).
Proof. exact nbr_share_edge. Qed.
Print Assumptions neighbours_share_the_nodes_of_their_connection.
(** the invariant after every finite sequence of edits applied to the EMPTY geometry: no hypothesis on a start state is
    left ([geo_inv_init] composed with [geo_inv_reachable] / [geo_invS_reachable]) *)
Theorem geo_inv_from_empty : forall cv a f ops g',
  all_pre pre (empty_geo cv a f) ops -> run (empty_geo cv a f) ops = Ok g' -> Inv g'.
Proof. exact inv_from_empty. Qed.
Print Assumptions geo_inv_from_empty.
Theorem geo_invS_from_empty : forall cv a f ops g',
  all_pre preS (empty_geo cv a f) ops -> run (empty_geo cv a f) ops = Ok g' -> InvS g'.
Proof. exact invS_from_empty. Qed.
Print Assumptions geo_invS_from_empty.

(** ** "the by-name lookups and ordered lists agree", for every state with a consistent object graph: every listed node /
    column / connection / layer / well is what the lookup under its current name returns (connections under the pair of the
    current names of their columns), and every lookup returns a listed object carrying that name *)
Theorem lookups_find_every_listed_object : forall g, InvS g ->
  (forall n, In n (nlist g) -> nget g (nn g n) = Some n) /\
  (forall c, In c (clist g) -> cget g (cn g c) = Some c) /\
  (forall k, In k (klist g) -> kget g (cn g (k0 g k), cn g (k1 g k)) = Some k) /\
  (forall l, In l (llist g) -> lget g (ln g l) = Some l) /\
  (forall w, In w (wlist g) -> wget g (wn g w) = Some w).
Proof. exact lookups_find_listed. Qed.
Print Assumptions lookups_find_every_listed_object.
Theorem lookups_return_listed_objects_of_that_name : forall g, InvS g ->
  (forall s n, nget g s = Some n -> In n (nlist g) /\ nn g n = s) /\
  (forall s c, cget g s = Some c -> In c (clist g) /\ cn g c = s) /\
  (forall key k, kget g key = Some k -> In k (klist g) /\ (cn g (k0 g k), cn g (k1 g k)) = key) /\
  (forall s l, lget g s = Some l -> In l (llist g) /\ ln g l = s) /\
  (forall s w, wget g s = Some w -> In w (wlist g) /\ wn g w = s).
Proof. exact lookups_return_listed. Qed.
Print Assumptions lookups_return_listed_objects_of_that_name.
(** the nodes of a listed column are listed nodes that know the column *)
Theorem column_nodes_know_their_column : forall g c n, InvS g -> In c (clist g) -> In n (cns g c) ->
  In n (nlist g) /\ In c (ncs g n).
Proof. exact column_nodes_know_column. Qed.
Print Assumptions column_nodes_know_their_column.
(** two listed connections with the same first and the same second column are one connection *)
Theorem connections_with_the_same_ends_coincide : forall g k k', InvS g -> In k (klist g) -> In k' (klist g) ->
  k0 g k = k0 g k' -> k1 g k = k1 g k' -> k = k'.
Proof. exact same_ends_same_connection. Qed.
Print Assumptions connections_with_the_same_ends_coincide.
