(** C10 -- concrete states: the hypotheses of the theorems are met by a non-trivial geometry (two
    quadrilateral columns sharing a side, two layers), and the faithful model of the source as it
    stands carries the listed findings: split_column, rename_column, add_connection,
    delete_connection, add_column, delete_column, add_layer, delete_layer break clauses of [Inv]. *)
From Coq Require Import Ascii String List Bool PArith NArith ZArith QArith FMapPositive Permutation Lia.
From PTBase Require Import Exn PyStr.
From P Require Import Assoc GeoState GeoEdit GeoEdit2 GeoStep Inv InvNames InvSimple Sets InvCol InvConn InvDel InvRefresh InvRename InvCompound InvSplit InvSplit2 InvSnap InvDecomp InvRefine InvCheck Reach.
Import ListNotations.
Open Scope list_scope.

Definition nofix : fixes := {| fx_rename := false; fx_split := false; fx_nbr := false; fx_check := false |}.
Definition na : str := s2l "  a". Definition nb : str := s2l "  b". Definition nc : str := s2l "  c".
Definition nd : str := s2l "  d". Definition ne : str := s2l "  e". Definition nf : str := s2l "  f".
Definition nz : str := s2l "  z".
Definition l0 : str := s2l " 0". Definition l1 : str := s2l " 1". Definition l2 : str := s2l " 2".
Definition result (r : res geo) : geo := match r with Ok g => g | Raise _ => empty_geo 0 2 nofix end.

(** two unit squares side by side, one connection, neighbours identified; no layer yet *)
Definition P (x y : Z) : pt := (inject_Z x, inject_Z y).
Definition ops_flat : list op :=
  [AddNode na (P 0 0); AddNode nb (P 1 0); AddNode nc (P 2 0); AddNode nd (P 0 1); AddNode ne (P 1 1); AddNode nf (P 2 1);
   AddCol na [na; nb; ne; nd] None (Some 0%Q); AddCol nb [nb; nc; nf; ne] None (Some 0%Q);
   AddConn na nb; IdentifyNbrs].
(** ... then two layers, the name lists set up *)
Definition ops_layers : list op :=
  [AddLayer l0 0%Q 0%Q 0%Q; AddLayer l1 (-1)%Q (-1 # 2)%Q 0%Q; SetNumLayers na; SetNumLayers nb; SetupBlockNames; SetupConnNames].
Definition g_flat : geo := Eval vm_compute in result (run (empty_geo 0 2 nofix) ops_flat).
Definition g_two : geo := Eval vm_compute in result (run g_flat ops_layers).

Ltac one_step :=
  match goal with
  | |- _ /\ _ => split
  | |- forall g, step _ _ = Ok g -> _ =>
      let g := fresh "g" in let H := fresh "H" in
      intros g H; vm_compute in H; inversion H; subst g; clear H
  | |- True => exact I
  | |- col_args_ok _ _ _ => intros _; split; [repeat constructor; cbn; intuition discriminate|cbn; lia]
  | |- conn_args_ok _ _ _ =>
      let ca := fresh in let cb := fresh in let A := fresh in let B := fresh in
      intros ca cb A B _; vm_compute in A, B; inversion A; inversion B; subst; split; [discriminate|vm_compute; discriminate]
  end.

Lemma g_flat_run : run (empty_geo 0 2 nofix) ops_flat = Ok g_flat.
Proof. vm_compute. reflexivity. Qed.
Lemma g_two_run : run g_flat ops_layers = Ok g_two.
Proof. vm_compute. reflexivity. Qed.
Lemma g_flat_invS : InvS g_flat.
Proof.
  apply (invS_reachable_init 0 2 nofix ops_flat); [|exact g_flat_run].
  cbn [all_pre ops_flat preS]. repeat one_step.
Qed.
Lemma g_two_invS : InvS g_two.
Proof.
  apply (invS_reachable ops_layers g_flat); [exact g_flat_invS| |exact g_two_run].
  cbn [all_pre ops_layers preS]. repeat one_step.
Qed.

(** the derived data of the two-layer geometry is fresh: the whole invariant holds *)
Lemma g_two_invD : InvD g_two.
Proof.
  constructor.
  - split.
    + intros c Hc; vm_compute in Hc; destruct Hc as [<-|[<-|[]]]; vm_compute; repeat constructor; cbn; intuition discriminate.
    + intros c Hc d. vm_compute in Hc. destruct Hc as [<-|[<-|[]]]; split.
      * intro H. vm_compute in H. destruct H as [<-|[]]. exists 9%positive. vm_compute. auto.
      * intros [k [Hk M]]. vm_compute in Hk. destruct Hk as [<-|[]]. vm_compute in M. vm_compute.
        destruct M as [[_ <-]|[_ M]]; [auto|discriminate M].
      * intro H. vm_compute in H. destruct H as [<-|[]]. exists 9%positive. vm_compute. auto.
      * intros [k [Hk M]]. vm_compute in Hk. destruct Hk as [<-|[]]. vm_compute in M. vm_compute.
        destruct M as [[M _]|[<- _]]; [discriminate M|auto].
  - intros c Hc; vm_compute in Hc; destruct Hc as [<-|[<-|[]]]; vm_compute; reflexivity.
  - split; vm_compute; reflexivity.
Qed.
Lemma g_two_built : run (empty_geo 0 2 nofix) (ops_flat ++ ops_layers) = Ok g_two.
Proof. vm_compute. reflexivity. Qed.
Lemma g_two_inv : Inv g_two.
Proof. constructor; [exact g_two_invS|exact g_two_invD]. Qed.

(** ** findings: the source as it stands breaks clauses of the invariant *)
(** split_column: the connection moved to the new column stays filed under the old pair of names
    ([S1k]), the corner that left the column still lists it ([S2]), the two halves are connected
    but not neighbours ([S3b]) *)
Theorem split_column_refuted :
  exists g c n g', Inv g /\ split_column g c n = Ok g' /\ ~ S1k g' /\ ~ S2 g' /\ ~ S3b g'.
Proof.
  exists g_two, na, nd, (result (split_column g_two na nd)).
  split; [exact g_two_inv|]. split; [vm_compute; reflexivity|]. split; [|split].
  - intro X. destruct (dl_sound _ _ _ X (na, nb) 9%positive) as [_ K]; [vm_compute; auto|]. vm_compute in K. discriminate K.
  - intros [_ [_ X]]. destruct (X 5%positive) with (c := 7%positive) as [Y _]; [vm_compute; auto 10|].
    destruct Y as [_ Y]; [vm_compute; auto|]. vm_compute in Y. intuition discriminate.
  - intros [_ X]. destruct (X 7%positive) with (d := 12%positive) as [_ Y]; [vm_compute; auto|].
    assert (J : joined (result (split_column g_two na nd)) 7%positive 12%positive) by (exists 13%positive; vm_compute; auto).
    apply Y in J. vm_compute in J. exact J.
Qed.
(** rename_column: the connections of the renamed column stay filed under its old name *)
Theorem rename_column_refuted :
  exists g olds news g', Inv g /\ rename_column g olds news = Ok g' /\ ~ S1k g'.
Proof.
  exists g_two, [na], [nz], (result (rename_column g_two [na] [nz])).
  split; [exact g_two_inv|]. split; [vm_compute; reflexivity|].
  intro X. destruct (dl_sound _ _ _ X (na, nb) 9%positive) as [_ K]; [vm_compute; auto|]. vm_compute in K. discriminate K.
Qed.
(** delete_connection: the two columns stay in each other's neighbour sets; the name list keeps the connection *)
Theorem delete_connection_refuted :
  exists g key g', Inv g /\ delete_connection g key = Ok g' /\ ~ S3b g' /\ ~ S6 g'.
Proof.
  exists g_two, (na, nb), (result (delete_connection g_two (na, nb))).
  split; [exact g_two_inv|]. split; [vm_compute; reflexivity|]. split.
  - intros [_ X]. destruct (X 7%positive) with (d := 8%positive) as [Y _]; [vm_compute; auto|].
    destruct Y as [k [Hk _]]; [vm_compute; auto|]. vm_compute in Hk. exact Hk.
  - intros [_ K]. vm_compute in K. discriminate K.
Qed.
(** delete_column, add_layer, delete_layer: the name lists (and the layer counts) are not refreshed *)
Theorem delete_column_refuted :
  exists g n g', Inv g /\ delete_column g n = Ok g' /\ ~ S6 g'.
Proof.
  exists g_two, nb, (result (delete_column g_two nb)).
  split; [exact g_two_inv|]. split; [vm_compute; reflexivity|]. intros [B _]. vm_compute in B. discriminate B.
Qed.
Theorem add_layer_refuted :
  exists g n b c t, Inv g /\ ~ S5n (add_layer g n b c t) /\ ~ S6 (add_layer g n b c t).
Proof.
  exists g_two, l2, (-2)%Q, (-3 # 2)%Q, (-1)%Q. split; [exact g_two_inv|]. split.
  - intro X. specialize (X 7%positive). vm_compute in X. assert (Y : Ok 2%Z = Ok 1%Z) by (apply X; auto). discriminate Y.
  - intros [B _]. vm_compute in B. discriminate B.
Qed.
Theorem delete_layer_refuted :
  exists g n g', Inv g /\ delete_layer g n = Ok g' /\ ~ S5n g' /\ ~ S6 g'.
Proof.
  exists g_two, l1, (result (delete_layer g_two l1)).
  split; [exact g_two_inv|]. split; [vm_compute; reflexivity|]. split.
  - intro X. specialize (X 7%positive). vm_compute in X. assert (Y : Ok 0%Z = Ok 1%Z) by (apply X; auto). discriminate Y.
  - intros [B _]. vm_compute in B. discriminate B.
Qed.
(** add_column into a layered geometry: layer count 0 whatever the surface; name lists not refreshed *)
Theorem add_column_refuted :
  exists g n ns ce s g', Inv g /\ add_column g n ns ce s = Ok g' /\ ~ S5n g' /\ ~ S6 g'.
Proof.
  exists g_two, nc, [nb; nc; nf], None, (Some 0%Q), (result (add_column g_two nc [nb; nc; nf] None (Some 0%Q))).
  split; [exact g_two_inv|]. split; [vm_compute; reflexivity|]. split.
  - intro X. specialize (X 12%positive). vm_compute in X. assert (Y : Ok 1%Z = Ok 0%Z) by (apply X; auto). discriminate Y.
  - intros [B _]. vm_compute in B. discriminate B.
Qed.

(** add_connection: two adjacent columns without a connection *)
Definition ops_open : list op :=
  [AddNode na (P 0 0); AddNode nb (P 1 0); AddNode nc (P 2 0); AddNode nd (P 0 1); AddNode ne (P 1 1); AddNode nf (P 2 1);
   AddCol na [na; nb; ne; nd] None (Some 0%Q); AddCol nb [nb; nc; nf; ne] None (Some 0%Q);
   AddLayer l0 0%Q 0%Q 0%Q; AddLayer l1 (-1)%Q (-1 # 2)%Q 0%Q; SetNumLayers na; SetNumLayers nb; SetupBlockNames; SetupConnNames].
Definition g_open : geo := Eval vm_compute in result (run (empty_geo 0 2 nofix) ops_open).
Lemma g_open_inv : Inv g_open.
Proof.
  constructor.
  - apply (invS_reachable_init 0 2 nofix ops_open); [|vm_compute; reflexivity].
    cbn [all_pre ops_open preS]. repeat one_step.
  - constructor.
    + split.
      * intros c Hc; vm_compute in Hc; destruct Hc as [<-|[<-|[]]]; vm_compute; constructor.
      * intros c Hc d. vm_compute in Hc. destruct Hc as [<-|[<-|[]]]; (split; [intro H; vm_compute in H; destruct H|intros [k [Hk _]]; vm_compute in Hk; destruct Hk]).
    + intros c Hc; vm_compute in Hc; destruct Hc as [<-|[<-|[]]]; vm_compute; reflexivity.
    + split; vm_compute; reflexivity.
Qed.
Theorem add_connection_refuted :
  exists g a b g', Inv g /\ add_connection g a b = Ok g' /\ ~ S3b g' /\ ~ S6 g'.
Proof.
  exists g_open, na, nb, (result (add_connection g_open na nb)).
  split; [exact g_open_inv|]. split; [vm_compute; reflexivity|]. split.
  - intros [_ X]. destruct (X 7%positive) with (d := 8%positive) as [_ Y]; [vm_compute; auto|].
    assert (J : joined (result (add_connection g_open na nb)) 7%positive 8%positive) by (exists 11%positive; vm_compute; auto).
    apply Y in J. vm_compute in J. exact J.
  - intros [_ K]. vm_compute in K. discriminate K.
Qed.

(** ** the repaired source (proposed_fixes/C10-*.diff): the same calls keep the invariant *)
Definition allfix : fixes := {| fx_rename := true; fx_split := true; fx_nbr := false; fx_check := false |}.
Definition g_two_fixed : geo := Eval vm_compute in set_fx g_two allfix.
Lemma g_two_fixed_inv : Inv g_two_fixed.
Proof.
  destruct g_two_inv as [[F P1 P1k P2 P3 P4 P5] [D1 D2 D3]]. constructor; constructor; assumption.
Qed.
Example rename_column_repaired_keeps_inv : exists g', rename_column g_two_fixed [na] [nz] = Ok g' /\ Inv g'.
Proof.
  eexists. split; [vm_compute; reflexivity|].
  eapply (rename_column_inv g_two_fixed [na] [nz]); [exact g_two_fixed_inv| |vm_compute; reflexivity].
  cbn [combine ren_cols_ok]. vm_compute. auto.
Qed.

Example split_column_repaired_keeps_inv : exists g', split_column g_two_fixed na nd = Ok g' /\ Inv g'.
Proof.
  eexists. split; [vm_compute; reflexivity|].
  eapply (split_column_inv g_two_fixed na nd); [exact g_two_fixed_inv| |vm_compute; reflexivity].
  split; [reflexivity|].
  intros c i0 Hc _ Hi d Hd H3 H1. vm_compute in Hc. inversion Hc; subst c. vm_compute in Hi. inversion Hi; subst i0.
  vm_compute in Hd. destruct Hd as [<-|[]]. vm_compute in H1. intuition discriminate.
Qed.

(** ** the precondition of the split theorem is needed, in the repaired source too *)
Definition splitfix : fixes := {| fx_rename := true; fx_split := true; fx_nbr := true; fx_check := false |}.
Definition nt : str := s2l "zzz".
Definition ops_overlap : list op :=
  [AddNode na (P 0 0); AddNode nb (P 1 0); AddNode ne (P 1 1); AddNode nd (P 0 1);
   AddCol na [na; nb; ne; nd] None (Some 0%Q); AddCol nt [nb; ne; nd] None (Some 0%Q);
   AddConn na nt; IdentifyNbrs].
Definition g_overlap : geo := Eval vm_compute in result (run (empty_geo 0 2 splitfix) ops_overlap).

Lemma g_overlap_inv : Inv g_overlap.
Proof.
  constructor.
  - apply (invS_reachable_init 0 2 splitfix ops_overlap); [|vm_compute; reflexivity].
    cbn [all_pre ops_overlap preS]. repeat one_step.
  - constructor.
    + split.
      * intros c Hc; vm_compute in Hc; destruct Hc as [<-|[<-|[]]]; vm_compute; repeat constructor; cbn; intuition discriminate.
      * intros c Hc d. vm_compute in Hc. destruct Hc as [<-|[<-|[]]]; split.
        -- intro H. vm_compute in H. destruct H as [<-|[]]. exists 7%positive. vm_compute. auto.
        -- intros [k [Hk M]]. vm_compute in Hk. destruct Hk as [<-|[]]. vm_compute in M. vm_compute.
           destruct M as [[_ <-]|[_ M]]; [auto|discriminate M].
        -- intro H. vm_compute in H. destruct H as [<-|[]]. exists 7%positive. vm_compute. auto.
        -- intros [k [Hk M]]. vm_compute in Hk. destruct Hk as [<-|[]]. vm_compute in M. vm_compute.
           destruct M as [[M _]|[<- _]]; [discriminate M|auto].
    + intros c Hc; vm_compute in Hc; destruct Hc as [<-|[<-|[]]]; vm_compute; reflexivity.
    + split; vm_compute; reflexivity.
Qed.

(** the precondition of [split_column_inv] is needed: a neighbour sharing three corners with the
    quadrilateral (it overlaps it) borders both halves; the one connection goes to the new column with
    its old pair of nodes, which is not a side of the new column *)
Theorem split_column_overlap_refuted :
  exists g c n g', Inv g /\ fx_split (fx g) = true /\ split_column g c n = Ok g' /\ ~ S4 g'.
Proof.
  exists g_overlap, na, na, (result (split_column g_overlap na na)).
  split; [exact g_overlap_inv|]. split; [reflexivity|]. split; [vm_compute; reflexivity|].
  intro X. destruct (X 7%positive) as [a [b [E [_ [A _]]]]]; [vm_compute; auto|].
  vm_compute in E. inversion E; subst a b. vm_compute in A. intuition discriminate.
Qed.

(** ** refine: the hypotheses of the refine theorems are met (column a of the two-column geometry refined: four
    quadrilaterals, its neighbour split into three triangles, eight missing connections added) *)
Definition mp (l : list (string * string)) : list key2 := map (fun k => (s2l (fst k), s2l (snd k))) l.
Definition h_ref : refine_hints :=
  {| hk := [0%nat]; hb := Ok [0; 1; 2; 3; 4; 5]%nat; hc := [0; 1]%nat;
     hm := mp [("  d", "  h"); ("  e", "  g"); ("  g", "  i"); ("  h", "  i"); ("  c", "  d"); ("  c", "  f"); ("  d", "  e"); ("  e", "  f")]%string |}.
Definition g_ref4 : geo := Eval vm_compute in (match refine_prefix g_two [na] h_ref with Ok (Some g) => g | _ => g_two end).
Lemma g_ref4_run : refine_prefix g_two [na] h_ref = Ok (Some g_ref4).
Proof. vm_compute. reflexivity. Qed.
Lemma ref_conns_ok : refine_conns_ok g_two [na] h_ref.
Proof.
  intros g4 E. rewrite g_ref4_run in E. inversion E; subst g4. clear E.
  change (hm h_ref) with (mp [("  d", "  h"); ("  e", "  g"); ("  g", "  i"); ("  h", "  i"); ("  c", "  d"); ("  c", "  f"); ("  d", "  e"); ("  e", "  f")]%string).
  cbn [mp map fst snd conns_ok].
  repeat (split; [let ca := fresh in let cb := fresh in let A := fresh in let B := fresh in
                  intros ca cb A B _; vm_compute in A, B; inversion A; inversion B; subst; split; [discriminate|vm_compute; discriminate]
                 |let g1 := fresh "g" in let E1 := fresh in intros g1 E1; vm_compute in E1; inversion E1; subst g1; clear E1]).
  exact I.
Qed.
Definition g_refined : geo := Eval vm_compute in result (refine g_two [na] h_ref).
Lemma g_refined_run : refine g_two [na] h_ref = Ok g_refined.
Proof. vm_compute. reflexivity. Qed.
Lemma g_two_refine_conforming : refine_conforming g_two [na].
Proof.
  intros columns E. vm_compute in E. inversion E; subst columns. clear E. cbv zeta. split.
  - intros k Hk. vm_compute in Hk. destruct Hk as [<-|[]]. intros a b Ekn. vm_compute in Ekn. inversion Ekn; subst a b.
    exists 7%positive, 1%nat. split; [vm_compute; auto|]. split; [vm_compute; lia|vm_compute; reflexivity].
  - intros k k' Hk Hk' N. vm_compute in Hk, Hk'. destruct Hk as [<-|[]]. destruct Hk' as [<-|[]]. contradiction.
Qed.
Example refine_example : Inv g_refined /\ forall a, In a (nlist g_refined) -> ~ In a (nlist g_two) -> exists c', In c' (clist g_refined) /\ In a (cns g_refined c').
Proof.
  split.
  - exact (refine_inv g_two [na] h_ref g_refined g_two_inv ref_conns_ok g_refined_run).
  - exact (refine_new_nodes_used g_two [na] h_ref g_refined (i_s _ g_two_inv) g_two_refine_conforming g_refined_run).
Qed.

(** ** two more instances of "derived data is not refreshed" (source as it stands) *)
(** check(fix = True) adds the missing connection of two adjacent unconnected columns: the neighbour sets (before aa68858)
    and the connection name list are left as they were *)
Theorem check_fix_refuted :
  exists g hm_ hbad g', Inv g /\ check_fix g hm_ hbad = Ok g' /\ ~ S6 g'.
Proof.
  exists g_open, [(na, nb)], [], (result (check_fix g_open [(na, nb)] [])).
  split; [exact g_open_inv|]. split; [vm_compute; reflexivity|]. intros [_ K]. vm_compute in K. discriminate K.
Qed.
(** triangulate_column replaces a column by triangles around a new centre node and returns: block_name_list and
    block_connection_name_list still name the blocks of the old column *)
Theorem triangulate_column_refuted :
  exists g n g' names, Inv g /\ triangulate_column g n = Ok (g', names) /\ ~ S6 g'.
Proof.
  exists g_two, na. eexists. eexists. split; [exact g_two_inv|]. split; [vm_compute; reflexivity|].
  intros [B _]. vm_compute in B. discriminate B.
Qed.
