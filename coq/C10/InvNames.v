(** C10 -- the derived clauses [S5n] (layer counts) and [S6] (name lists) depend only on the listed
    objects: two states that agree on them give the same fresh recomputation. *)
From Coq Require Import Ascii String List Bool PArith NArith ZArith QArith FMapPositive Permutation Lia.
From PTBase Require Import Exn PyStr.
From P Require Import Assoc GeoState GeoEdit Inv.
Import ListNotations.
Open Scope list_scope.

Lemma mapM_ext_in {A B} (f f' : A -> res B) l : (forall a, In a l -> f a = f' a) -> mapM f l = mapM f' l.
Proof.
  induction l as [|a r IH]; cbn [mapM]; intro H; [reflexivity|].
  rewrite (H a (or_introl eq_refl)). rewrite IH; [reflexivity|]. intros x Hx. apply H. right. exact Hx.
Qed.
Lemma filterM_ext_in {A} (f f' : A -> res bool) l : (forall a, In a l -> f a = f' a) -> filterM f l = filterM f' l.
Proof.
  induction l as [|a r IH]; cbn [filterM]; intro H; [reflexivity|].
  rewrite (H a (or_introl eq_refl)). rewrite IH; [reflexivity|]. intros x Hx. apply H. right. exact Hx.
Qed.
Lemma filterM_incl {A} (f : A -> res bool) l l' : filterM f l = Ok l' -> forall a, In a l' -> In a l.
Proof.
  revert l'. induction l as [|x r IH]; cbn [filterM]; intros l' H a Ha.
  - inversion H; subst. destruct Ha.
  - destruct (f x) as [b|e]; cbn [bind] in H; [|discriminate].
    destruct (filterM f r) as [r'|e]; cbn [bind] in H; [|discriminate]. inversion H; subst; clear H.
    destruct b; [destruct Ha as [<-|Ha]; [left; reflexivity|]|]; right; eapply IH; eauto.
Qed.
Lemma tl_incl {A} (l : list A) x : In x (tl l) -> In x l.
Proof. destruct l; cbn; auto. Qed.

(** ** the name lists depend only on names, lists, and the two comparisons surface > bottom, surface <= top *)
Record nagree (g g' : geo) : Prop := {
  n_clist : clist g' = clist g; n_klist : klist g' = klist g; n_llist : llist g' = llist g; n_ldict : ldict g' = ldict g;
  n_bnl : bnl g' = bnl g; n_bcl : bcl g' = bcl g; n_conv : conv g' = conv g; n_atm : atm g' = atm g;
  n_cn : forall c, In c (clist g) -> cn g' c = cn g c;
  n_ln : forall l, In l (llist g) -> ln g' l = ln g l;
  n_k : forall k, In k (klist g) -> k0 g' k = k0 g k /\ k1 g' k = k1 g k;
  n_ab : forall lay c, In lay (llist g) -> In c (clist g) -> above_bottom g' lay c = above_bottom g lay c;
  n_st : forall lay c, In lay (llist g) -> In c (clist g) -> surf_le_top g' lay c = surf_le_top g lay c }.

Section NamesAgree.
  Variables g g' : geo.
  Hypothesis A : nagree g g'.

  Lemma n_block_name a b : block_name g' a b = block_name g a b.
  Proof. unfold block_name. rewrite (n_conv _ _ A). reflexivity. Qed.
  Lemma n_atmcol : atmosphere_column_name g' = atmosphere_column_name g.
  Proof. unfold atmosphere_column_name. rewrite (n_conv _ _ A). reflexivity. Qed.
  Lemma n_layer_cols lay : In lay (llist g) -> layer_cols g' lay = layer_cols g lay.
  Proof.
    intro Hl. unfold layer_cols. rewrite (n_clist _ _ A). apply filterM_ext_in. intros c Hc. exact (n_ab _ _ A lay c Hl Hc).
  Qed.
  Lemma n_fresh_bnl : fresh_bnl g' = fresh_bnl g.
  Proof.
    unfold fresh_bnl. rewrite (n_ldict _ _ A), (n_atm _ _ A), (n_llist _ _ A), (n_clist _ _ A).
    destruct (length (ldict g) =? 0)%nat; [reflexivity|].
    assert (E1 : forall l0, In l0 (llist g) ->
                 map (fun c => block_name g' (ln g' l0) (cn g' c)) (clist g) = map (fun c => block_name g (ln g l0) (cn g c)) (clist g)).
    { intros l0 H0. apply map_ext_in. intros c Hc. rewrite n_block_name, (n_ln _ _ A l0 H0), (n_cn _ _ A c Hc). reflexivity. }
    assert (E2 : mapM (fun lay => do cols <- layer_cols g' lay; Ok (map (fun c => block_name g' (ln g' lay) (cn g' c)) cols)) (tl (llist g)) =
                 mapM (fun lay => do cols <- layer_cols g lay; Ok (map (fun c => block_name g (ln g lay) (cn g c)) cols)) (tl (llist g))).
    { apply mapM_ext_in. intros lay Hl. apply tl_incl in Hl. rewrite (n_layer_cols lay Hl).
      destruct (layer_cols g lay) as [cols|e] eqn:E; cbn [bind]; [|reflexivity]. f_equal. apply map_ext_in.
      intros c Hc. rewrite n_block_name, (n_ln _ _ A lay Hl).
      rewrite (n_cn _ _ A c); [reflexivity|]. eapply filterM_incl; [exact E|exact Hc]. }
    rewrite E2. rewrite n_atmcol.
    destruct (atm g) as [|[|n]].
    - destruct (llist g) as [|l0 r] eqn:EL; [reflexivity|].
      assert (H0 : In l0 (llist g)) by (rewrite EL; left; reflexivity).
      rewrite n_block_name, (n_ln _ _ A l0 H0). reflexivity.
    - destruct (clist g) as [|c0 cr] eqn:Ec; [reflexivity|]. destruct (llist g) as [|l0 r] eqn:EL; [reflexivity|].
      rewrite (E1 l0 (or_introl eq_refl)). reflexivity.
    - reflexivity.
  Qed.
  Lemma n_vertical first prev lay cols : In prev (llist g) -> In lay (llist g) -> (forall c, In c cols -> In c (clist g)) ->
    vertical_names g' first prev lay cols = vertical_names g first prev lay cols.
  Proof.
    intros Hp Hl Hc. unfold vertical_names. f_equal.
    - apply mapM_ext_in. intros c Hcc. pose proof (Hc c Hcc) as Hcl.
      rewrite (n_st _ _ A lay c Hl Hcl), n_block_name, (n_ln _ _ A lay Hl), (n_cn _ _ A c Hcl).
      destruct (surf_le_top g lay c) as [below|]; cbn [bind]; [|reflexivity].
      rewrite (n_atm _ _ A), (n_bnl _ _ A), (n_llist _ _ A), n_block_name, (n_ln _ _ A prev Hp).
      destruct (first || below); [|reflexivity].
      destruct (atm g) as [|[|n]]; try reflexivity.
      destruct (llist g) as [|l0 r] eqn:EL; [reflexivity|].
      assert (H0 : In l0 (llist g)) by (rewrite EL; left; reflexivity).
      rewrite n_block_name, (n_ln _ _ A l0 H0). reflexivity.
  Qed.
  Lemma n_horizontal lay cols : In lay (llist g) -> (forall c, In c cols -> In c (clist g)) ->
    horizontal_names g' lay cols = horizontal_names g lay cols.
  Proof.
    intros Hl Hc. unfold horizontal_names. rewrite (n_klist _ _ A).
    assert (F : filter (fun k => mem (k0 g' k) cols && mem (k1 g' k) cols) (klist g) =
                filter (fun k => mem (k0 g k) cols && mem (k1 g k) cols) (klist g)).
    { apply filter_ext_in. intros k Hk. destruct (n_k _ _ A k Hk) as [E0 E1]. rewrite E0, E1. reflexivity. }
    rewrite F. apply map_ext_in. intros k Hk. apply filter_In in Hk. destruct Hk as [Hk Hm].
    apply andb_prop in Hm. destruct Hm as [M0 M1]. apply mem_In in M0. apply mem_In in M1.
    destruct (n_k _ _ A k Hk) as [E0 E1].
    rewrite !n_block_name, (n_ln _ _ A lay Hl), E0, E1.
    rewrite (n_cn _ _ A _ (Hc _ M0)), (n_cn _ _ A _ (Hc _ M1)). reflexivity.
  Qed.
  Lemma n_conn_names_from ls : forall first prev, In prev (llist g) -> (forall l, In l ls -> In l (llist g)) ->
    conn_names_from g' first prev ls = conn_names_from g first prev ls.
  Proof.
    induction ls as [|lay r IH]; intros first prev Hp Hls; cbn [conn_names_from]; [reflexivity|].
    assert (Hl : In lay (llist g)) by (apply Hls; left; reflexivity).
    rewrite (n_layer_cols lay Hl). destruct (layer_cols g lay) as [cols|e] eqn:E; cbn [bind]; [|reflexivity].
    assert (Hc : forall c, In c cols -> In c (clist g)) by (intros c H; eapply filterM_incl; eauto).
    rewrite (n_vertical first prev lay cols Hp Hl Hc), (n_horizontal lay cols Hl Hc).
    rewrite IH; [reflexivity|exact Hl|]. intros l H. apply Hls. right. exact H.
  Qed.
  Lemma n_fresh_bcl : fresh_bcl g' = fresh_bcl g.
  Proof.
    unfold fresh_bcl. rewrite (n_llist _ _ A). destruct (llist g) as [|l0 r] eqn:E; [reflexivity|].
    apply n_conn_names_from; rewrite E; [left; reflexivity|]. intros l H. right. exact H.
  Qed.
  Lemma n_S6 : S6 g -> S6 g'.
  Proof. intros [P1 P2]. split; [rewrite n_fresh_bnl, (n_bnl _ _ A)|rewrite n_fresh_bcl, (n_bcl _ _ A)]; assumption. Qed.
End NamesAgree.

Lemma agree_nagree g g' : agree g g' -> nagree g g'.
Proof.
  intro A. constructor.
  - exact (a_clist _ _ A). - exact (a_klist _ _ A). - exact (a_llist _ _ A). - exact (a_ldict _ _ A).
  - exact (a_bnl _ _ A). - exact (a_bcl _ _ A). - exact (a_conv _ _ A). - exact (a_atm _ _ A).
  - intros c Hc. apply (a_c _ _ A c Hc).
  - intros l Hl. apply (a_l _ _ A l Hl).
  - intros k Hk. destruct (a_k _ _ A k Hk) as [E0 [E1 _]]. auto.
  - intros lay c Hl Hc. unfold above_bottom. rewrite (agree_cs g g' A c Hc), (agree_lb g g' A lay Hl). reflexivity.
  - intros lay c Hl Hc. unfold surf_le_top. rewrite (agree_cs g g' A c Hc), (agree_lt g g' A lay Hl). reflexivity.
Qed.

Section AgreeNames.
  Variables g g' : geo.
  Hypothesis A : agree g g'.

  Lemma agree_count_layers s : count_layers g' s = count_layers g s.
  Proof.
    unfold count_layers. rewrite (a_llist _ _ A). destruct (tl (llist g)) as [|l r] eqn:E; [reflexivity|].
    destruct s as [z|]; [|reflexivity]. f_equal. f_equal. f_equal. apply filter_ext_in.
    intros x Hx. rewrite (agree_lb g g' A x); [reflexivity|]. apply tl_incl. rewrite E. exact Hx.
  Qed.
  Lemma agree_S5n : S5n g -> S5n g'.
  Proof.
    intros P c Hc. rewrite (a_clist _ _ A) in Hc.
    rewrite agree_count_layers, (agree_cs g g' A c Hc), (agree_cl g g' A c Hc). exact (P c Hc).
  Qed.
  Lemma agree_S6 : S6 g -> S6 g'.
  Proof. apply n_S6. apply agree_nagree. exact A. Qed.

  Lemma agree_InvS : InvS g -> InvS g'.
  Proof.
    intros [F P1 P1k P2 P3 P4 P5]. constructor.
    - eapply agree_Fr; eauto. - eapply agree_S1; eauto. - eapply agree_S1k; eauto. - eapply agree_S2; eauto.
    - eapply agree_S3a; eauto. - eapply agree_S4; eauto. - eapply agree_S5p; eauto.
  Qed.
  Lemma agree_InvD : InvD g -> InvD g'.
  Proof. intros [P1 P2 P3]. constructor; [eapply agree_S3b; eauto|apply agree_S5n; exact P2|apply agree_S6; exact P3]. Qed.
  Lemma agree_Inv : Inv g -> Inv g'.
  Proof. intros [S D]. constructor; [apply agree_InvS; exact S|apply agree_InvD; exact D]. Qed.
End AgreeNames.
