(** C10 -- extraction of the executable geometry-edit model for the correspondence run.

    One case per line, fields separated by TAB:
      field 0   [F<k>] (full canonical dump) or [H<k>] (Adler-32 of the dump); the first [k]
                steps (the construction of the start geometry) are not printed;
      field 1   [convention,atmosphere_type,fixbits] (fixbits: 1 rename_column, 2 split_column,
                4 add_/delete_connection repaired);
      field i>1 one edit [kind,arg,...]; names hex-encoded, numbers [num] or [num/den], [N] = None,
                name lists joined with [.].
    Result: the observations after each printed step joined by [|]; a step that raises prints
    [E:<exception>] and ends the case. *)
From Coq Require Import Ascii String List Bool PArith NArith ZArith QArith Qround FMapPositive.
From PTBase Require Import Exn PyStr PyNum PyVal Wire.
From P Require Import Assoc GeoState GeoEdit GeoEdit2 GeoStep.
Import ListNotations.
Open Scope list_scope.

(** ** canonical observation *)
Definition index_map (l : list id) : fmap N :=
  fst (fold_left (fun (acc : fmap N * N) i =>
                    (match PositiveMap.find i (fst acc) with Some _ => fst acc | None => fset (fst acc) i (snd acc) end,
                     N.succ (snd acc))) l (fempty, 0%N)).
(** position in the list, or 1000000 for an object that is not listed (printed as [-]) *)
Definition idx_of (m : fmap N) (i : id) : N := match PositiveMap.find i m with Some n => n | None => 1000000%N end.
Definition show_idxn (n : N) : str := if (n =? 1000000)%N then s2l "-" else show_n n.
Definition show_idx (m : fmap N) (i : id) : str := show_idxn (idx_of m i).
Fixpoint insert_n (k : N) (l : list N) : list N :=
  match l with [] => [k] | x :: r => if (k <=? x)%N then k :: l else x :: insert_n k r end.
Definition sort_n (l : list N) : list N := fold_right insert_n [] l.
Fixpoint joinw (sep : str) (l : list str) : str :=
  match l with [] => [] | [a] => a | a :: r => a ++ sep ++ joinw sep r end.
Definition show_set (m : fmap N) (s : list id) : str :=
  joinw (s2l "+") (map show_idxn (sort_n (map (idx_of m) s))).
(** numbers on the grid 2^-16: floor(x * 65536 + 1/2) *)
Definition show_q (x : Q) : str := show_z (Qfloor (x * 65536 + (1 # 2))).
Definition show_oq (x : option Q) : str := match x with None => s2l "None" | Some q => show_q q end.
Definition show_key (k : key2) : str := fst k ++ s2l "~" ++ snd k.

Definition observe (g : geo) : str :=
  let nm := index_map (nlist g) in
  let cm := index_map (clist g) in
  let km := index_map (klist g) in
  let lm := index_map (llist g) in
  let wm := index_map (wlist g) in
  let comma := s2l "," in let sl := s2l "/" in let eq := s2l "=" in let dot := s2l "." in
  s2l "N:" ++ joinw comma (map (fun i => nn g i ++ sl ++ show_q (fst (np g i)) ++ s2l ":" ++ show_q (snd (np g i)) ++ sl ++
                                         show_set cm (ncs g i)) (nlist g)) ++
  s2l ";ND:" ++ joinw comma (map (fun kv => fst kv ++ eq ++ show_idx nm (snd kv) ++ eq ++ nn g (snd kv)) (ndict g)) ++
  s2l ";C:" ++ joinw comma (map (fun c => cn g c ++ sl ++ joinw dot (map (fun n => show_idx nm n) (cns g c)) ++ sl ++
                                         show_set cm (cnb g c) ++ sl ++ show_set km (cks g c) ++ sl ++
                                         show_z (cl g c) ++ sl ++ show_oq (cs g c)) (clist g)) ++
  s2l ";CD:" ++ joinw comma (map (fun kv => fst kv ++ eq ++ show_idx cm (snd kv) ++ eq ++ cn g (snd kv)) (cdict g)) ++
  s2l ";K:" ++ joinw comma (map (fun k => show_key (kkey g k) ++ sl ++ show_idx cm (k0 g k) ++ sl ++ show_idx cm (k1 g k) ++ sl ++
                                         match kn g k with
                                         | None => s2l "None"
                                         | Some (a, b) => show_idx nm a ++ dot ++ show_idx nm b
                                         end) (klist g)) ++
  s2l ";KD:" ++ joinw comma (map (fun kv => show_key (fst kv) ++ eq ++ show_idx km (snd kv) ++ eq ++ show_key (kkey g (snd kv))) (kdict g)) ++
  s2l ";L:" ++ joinw comma (map (fun l => ln g l ++ sl ++ show_q (lb g l) ++ sl ++ show_q (lc g l) ++ sl ++ show_q (lt g l)) (llist g)) ++
  s2l ";LD:" ++ joinw comma (map (fun kv => fst kv ++ eq ++ show_idx lm (snd kv) ++ eq ++ ln g (snd kv)) (ldict g)) ++
  s2l ";W:" ++ joinw comma (map (wn g) (wlist g)) ++
  s2l ";WD:" ++ joinw comma (map (fun kv => fst kv ++ eq ++ show_idx wm (snd kv) ++ eq ++ wn g (snd kv)) (wdict g)) ++
  s2l ";BN:" ++ joinw comma (bnl g) ++
  s2l ";BC:" ++ joinw comma (map show_key (bcl g)).

(** Adler-32 of a string: the pair (a, b) with result b * 65536 + a *)
Definition adler (s : str) : N * N :=
  fold_left (fun (ab : N * N) c =>
               let a := (fst ab + N_of_ascii c)%N in
               let a := if (65521 <=? a)%N then (a - 65521)%N else a in
               let b := (snd ab + a)%N in
               let b := if (65521 <=? b)%N then (b - 65521)%N else b in (a, b)) s (1%N, 0%N).
Definition show_adler (s : str) : str := let ab := adler s in show_n (fst ab) ++ s2l "." ++ show_n (snd ab).

(** ** parsing *)
Definition comma_c : ascii := ",".
Definition dot_c : ascii := ".".
Definition slash_c : ascii := "/".
Definition names_of (f : str) : list str := match f with [] => [] | _ => map unhex (split_c dot_c f) end.
Definition parse_q (f : str) : Q :=
  match split_c slash_c f with
  | [a; b] => Qmake (z_of_str a) (Z.to_pos (z_of_str b))
  | _ => inject_Z (z_of_str f)
  end.
Definition parse_oq (f : str) : option Q := if str_eqb f (s2l "N") then None else Some (parse_q f).
Fixpoint pairs (l : list str) : list (str * str) :=
  match l with a :: b :: r => (a, b) :: pairs r | _ => [] end.
Definition keys_of (f : str) : list key2 := pairs (names_of f).
Definition colon_c : ascii := ":".
Definition nats_of (f : str) : list nat := match f with [] => [] | _ => map nat_of_str (split_c dot_c f) end.
Definition natss_of (f : str) : list (list nat) :=
  match f with [] => [] | _ => map (fun s => match s with [] => [] | _ => map nat_of_str (split_c colon_c s) end) (split_c dot_c f) end.
Definition qs_of (f : str) : list Q := match f with [] => [] | _ => map parse_q (split_c dot_c f) end.
Definition pts_of (f : str) : list pt :=
  match f with [] => [] | _ => map (fun s => match split_c colon_c s with [x; y] => (parse_q x, parse_q y) | _ => p0 end) (split_c dot_c f) end.
Fixpoint layers_of (a : list str) : list (str * (Q * Q * Q)) :=
  match a with n :: b :: c :: t :: r => (unhex n, (parse_q b, parse_q c, parse_q t)) :: layers_of r | _ => [] end.
Definition exn_of (s : str) : exn :=
  if str_eqb s (s2l "ValueError") then ValueError else if str_eqb s (s2l "KeyError") then KeyError
  else if str_eqb s (s2l "IndexError") then IndexError else if str_eqb s (s2l "TypeError") then TypeError
  else if str_eqb s (s2l "AttributeError") then AttributeError else if str_eqb s (s2l "ZeroDivisionError") then ZeroDivisionError
  else if str_eqb s (s2l "NamingConventionError") then NamingConventionError else PlainException.
Definition res_nats_of (f : str) : res (list nat) :=
  match f with "!"%char :: e => Raise (exn_of e) | _ => Ok (nats_of f) end.
Definition parse_op (f : str) : option op :=
  match split_c comma_c f with
  | k :: a =>
      let is (s : string) := str_eqb k (s2l s) in
      if is "an"%string then match a with [n; x; y] => Some (AddNode (unhex n) (parse_q x, parse_q y)) | _ => None end
      else if is "dn"%string then match a with [n] => Some (DelNode (unhex n)) | _ => None end
      else if is "ac"%string then match a with
                           | [n; ns; s] => Some (AddCol (unhex n) (names_of ns) None (parse_oq s))
                           | [n; ns; s; x; y] => Some (AddCol (unhex n) (names_of ns) (Some (parse_q x, parse_q y)) (parse_oq s))
                           | _ => None end
      else if is "dc"%string then match a with [n] => Some (DelCol (unhex n)) | _ => None end
      else if is "ak"%string then match a with [x; y] => Some (AddConn (unhex x) (unhex y)) | _ => None end
      else if is "dk"%string then match a with [x; y] => Some (DelConn (unhex x) (unhex y)) | _ => None end
      else if is "al"%string then match a with [n; b; c; t] => Some (AddLayer (unhex n) (parse_q b) (parse_q c) (parse_q t)) | _ => None end
      else if is "dl"%string then match a with [n] => Some (DelLayer (unhex n)) | _ => None end
      else if is "aw"%string then match a with [n] => Some (AddWell (unhex n)) | _ => None end
      else if is "dw"%string then match a with [n] => Some (DelWell (unhex n)) | _ => None end
      else if is "rc"%string then match a with [x; y] => Some (RenCol (names_of x) (names_of y)) | _ => None end
      else if is "rl"%string then match a with [x; y] => Some (RenLayer (names_of x) (names_of y)) | _ => None end
      else if is "sp"%string then match a with [c; n] => Some (SplitCol (unhex c) (unhex n)) | _ => None end
      else if is "do"%string then Some DelOrphans
      else if is "in"%string then Some IdentifyNbrs
      else if is "lt"%string then Some LayerTops
      else if is "ds"%string then Some DefaultSurface
      else if is "ss"%string then match a with [c; z] => Some (SetSurface (unhex c) (parse_q z)) | _ => None end
      else if is "nl"%string then match a with [c] => Some (SetNumLayers (unhex c)) | _ => None end
      else if is "sb"%string then Some SetupBlockNames
      else if is "sk"%string then Some SetupConnNames
      else if is "cf"%string then match a with [m; b] => Some (CheckFix (keys_of m) (names_of b)) | _ => None end
      else if is "rd"%string then match a with [n; m; b] => Some (Reduce (names_of n) (keys_of m) (names_of b)) | _ => None end
      else if is "rf"%string then match a with
                                  | [n; k; b; c; m] => Some (Refine (names_of n) {| hk := nats_of k; hb := res_nats_of b; hc := nats_of c; hm := keys_of m |})
                                  | _ => None end
      else if is "tr"%string then match a with [n] => Some (Triangulate (unhex n)) | _ => None end
      else if is "de"%string then match a with [n; h; m] => Some (DecomposeCols (names_of n) (natss_of h) (keys_of m)) | _ => None end
      else if is "ry"%string then match a with [n; f] => Some (RefineLayers (names_of n) (Z.to_pos (z_of_str f))) | _ => None end
      else if is "cl"%string then Some (CopyLayers (layers_of a))
      else if is "sn"%string then match a with [t; n] => Some (SnapLayers (parse_q t) (names_of n)) | _ => None end
      else if is "sr"%string then match a with [n] => Some (SnapNearest (names_of n)) | _ => None end
      else if is "fs"%string then match a with [n; z; t] => Some (FitSurface (names_of n) (qs_of z) (parse_q t)) | _ => None end
      else if is "tl"%string then match a with [x; y; z] => Some (Translate (parse_q x) (parse_q y) (parse_q z)) | _ => None end
      else if is "mv"%string then match a with [p; c] => Some (MoveNodes (pts_of p) (pts_of c)) | _ => None end
      else None
  | [] => None
  end.
Fixpoint parse_ops (fs : list str) : option (list op) :=
  match fs with
  | [] => Some []
  | f :: r => match parse_op f, parse_ops r with Some o, Some l => Some (o :: l) | _, _ => None end
  end.
Definition parse_settings (f : str) : option geo :=
  match split_c comma_c f with
  | [c; a; b] =>
      let bits := nat_of_str b in
      Some (empty_geo (nat_of_str c) (nat_of_str a)
                      {| fx_rename := Nat.odd bits; fx_split := Nat.odd (bits / 2); fx_nbr := Nat.odd (bits / 4); fx_check := Nat.odd (bits / 8) |})
  | _ => None
  end.

Fixpoint exec (hash : bool) (g : geo) (ops : list op) (skip : nat) : list str :=
  match ops with
  | [] => []
  | o :: r =>
      match step g o with
      | Raise e => [s2l "E:" ++ show_exn e]
      | Ok g1 =>
          match skip with
          | S k => exec hash g1 r k
          | O => (if hash then show_adler (observe g1) else observe g1) :: exec hash g1 r O
          end
      end
  end.

Definition run_case (line : str) : str :=
  match fields line with
  | (m :: kdigits) :: st :: fs =>
      match parse_settings st, parse_ops fs with
      | Some g0, Some ops =>
          if ceqb m "F" then joinw (s2l "|") (exec false g0 ops (nat_of_str kdigits))
          else if ceqb m "H" then joinw (s2l "|") (exec true g0 ops (nat_of_str kdigits))
          else s2l "BADCASE"
      | _, _ => s2l "BADCASE"
      end
  | _ => s2l "BADCASE"
  end.

Require Extraction.
Require Import ExtrOcamlBasic ExtrOcamlString.
Extraction "Drv.ml" run_case.
