(** C10 -- the invariant of the property statement, over the model state, clause by clause.

    [InvS] ("the object graph is consistent"):
      - [Fr]   model bookkeeping: listed ids are below the allocation counter;
      - [S1]   nodes, columns, layers, wells: the by-name lookup and the ordered list hold the same
               objects, without repetition, each filed under its own current name;
      - [S1k]  the same for connections, filed under the pair of the current names of their columns;
      - [S2]   each node knows exactly the columns that use it (and columns use nodes of the geometry);
      - [S3a]  each column knows exactly its connections (and connections join columns of the geometry);
      - [S4]   each connection's two nodes are two distinct nodes of both of its columns;
      - [S5p]  every column is a polygon: at least three nodes, none repeated.
    [InvD] ("derived data is what a fresh recomputation gives"):
      - [S3b]  each column's neighbours are exactly the columns it is connected to (symmetric by form);
      - [S5n]  each column's layer count matches its surface;
      - [S6]   block_name_list and block_connection_name_list equal a fresh recomputation.
    Orientation / positive area is the separate predicate [Ccw] (Geom clause, see InvGeom.v). *)
From Coq Require Import Ascii String List Bool PArith NArith ZArith QArith FMapPositive Permutation Lia.
From PTBase Require Import Exn PyStr.
From P Require Import Assoc GeoState GeoEdit.
Import ListNotations.
Open Scope list_scope.

(** the clauses are plain conjunctions (so that a state and the same state with an unrelated field
    updated give convertible clauses); named projections follow *)
Definition Fr (g : geo) : Prop :=
  (forall i, In i (nlist g) -> (i < next g)%positive) /\
  (forall i, In i (clist g) -> (i < next g)%positive) /\
  (forall i, In i (klist g) -> (i < next g)%positive) /\
  (forall i, In i (llist g) -> (i < next g)%positive) /\
  (forall i, In i (wlist g) -> (i < next g)%positive).
Lemma fr_n g : Fr g -> forall i, In i (nlist g) -> (i < next g)%positive. Proof. intro H; apply H. Qed.
Lemma fr_c g : Fr g -> forall i, In i (clist g) -> (i < next g)%positive. Proof. intro H; apply H. Qed.
Lemma fr_k g : Fr g -> forall i, In i (klist g) -> (i < next g)%positive. Proof. intro H; apply H. Qed.
Lemma fr_l g : Fr g -> forall i, In i (llist g) -> (i < next g)%positive. Proof. intro H; apply H. Qed.
Lemma fr_w g : Fr g -> forall i, In i (wlist g) -> (i < next g)%positive. Proof. intro H; apply H. Qed.

Definition S1 (g : geo) : Prop :=
  DL (nn g) (nlist g) (ndict g) /\ DL (cn g) (clist g) (cdict g) /\
  DL (ln g) (llist g) (ldict g) /\ DL (wn g) (wlist g) (wdict g).
Lemma s1_n g : S1 g -> DL (nn g) (nlist g) (ndict g). Proof. intro H; apply H. Qed.
Lemma s1_c g : S1 g -> DL (cn g) (clist g) (cdict g). Proof. intro H; apply H. Qed.
Lemma s1_l g : S1 g -> DL (ln g) (llist g) (ldict g). Proof. intro H; apply H. Qed.
Lemma s1_w g : S1 g -> DL (wn g) (wlist g) (wdict g). Proof. intro H; apply H. Qed.

Definition S1k (g : geo) : Prop := DL (kkey g) (klist g) (kdict g).

Definition S2 (g : geo) : Prop :=
  (forall c, In c (clist g) -> forall n, In n (cns g c) -> In n (nlist g)) /\
  (forall n, In n (nlist g) -> NoDup (ncs g n)) /\
  (forall n, In n (nlist g) -> forall c, In c (ncs g n) <-> In c (clist g) /\ In n (cns g c)).
Lemma s2_in g : S2 g -> forall c, In c (clist g) -> forall n, In n (cns g c) -> In n (nlist g). Proof. intro H; apply H. Qed.
Lemma s2_nd g : S2 g -> forall n, In n (nlist g) -> NoDup (ncs g n). Proof. intro H; apply H. Qed.
Lemma s2_ex g : S2 g -> forall n, In n (nlist g) -> forall c, In c (ncs g n) <-> In c (clist g) /\ In n (cns g c). Proof. intro H; apply H. Qed.

Definition S3a (g : geo) : Prop :=
  (forall k, In k (klist g) -> In (k0 g k) (clist g) /\ In (k1 g k) (clist g) /\ k0 g k <> k1 g k) /\
  (forall c, In c (clist g) -> NoDup (cks g c)) /\
  (forall c, In c (clist g) -> forall k, In k (cks g c) <-> In k (klist g) /\ (k0 g k = c \/ k1 g k = c)).
Lemma s3_ends g : S3a g -> forall k, In k (klist g) -> In (k0 g k) (clist g) /\ In (k1 g k) (clist g).
Proof. intros H k Hk. destruct (proj1 H k Hk) as [A [B _]]. auto. Qed.
Lemma s3_neq g : S3a g -> forall k, In k (klist g) -> k0 g k <> k1 g k.
Proof. intros H k Hk. destruct (proj1 H k Hk) as [_ [_ C]]. exact C. Qed.
Lemma s3_nd g : S3a g -> forall c, In c (clist g) -> NoDup (cks g c). Proof. intro H; apply H. Qed.
Lemma s3_ex g : S3a g -> forall c, In c (clist g) -> forall k, In k (cks g c) <-> In k (klist g) /\ (k0 g k = c \/ k1 g k = c). Proof. intro H; apply H. Qed.

(** [d] is joined to [c] by a listed connection *)
Definition joined (g : geo) (c d : id) : Prop :=
  exists k, In k (klist g) /\ ((k0 g k = c /\ k1 g k = d) \/ (k0 g k = d /\ k1 g k = c)).
Definition S3b (g : geo) : Prop :=
  (forall c, In c (clist g) -> NoDup (cnb g c)) /\
  (forall c, In c (clist g) -> forall d, In d (cnb g c) <-> joined g c d).
Lemma s3b_nd g : S3b g -> forall c, In c (clist g) -> NoDup (cnb g c). Proof. intro H; apply H. Qed.
Lemma s3b_ex g : S3b g -> forall c, In c (clist g) -> forall d, In d (cnb g c) <-> joined g c d. Proof. intro H; apply H. Qed.

Definition S4 (g : geo) : Prop :=
  forall k, In k (klist g) -> exists a b, kn g k = Some (a, b) /\ a <> b /\
    In a (cns g (k0 g k)) /\ In b (cns g (k0 g k)) /\ In a (cns g (k1 g k)) /\ In b (cns g (k1 g k)).

Definition S5p (g : geo) : Prop :=
  forall c, In c (clist g) -> NoDup (cns g c) /\ (3 <= length (cns g c))%nat.

Definition S5n (g : geo) : Prop :=
  forall c, In c (clist g) -> count_layers g (cs g c) = Ok (cl g c).

Definition S6 (g : geo) : Prop := fresh_bnl g = Ok (bnl g) /\ fresh_bcl g = Ok (bcl g).

Record InvS (g : geo) : Prop := {
  i_fr : Fr g; i_s1 : S1 g; i_s1k : S1k g; i_s2 : S2 g; i_s3a : S3a g; i_s4 : S4 g; i_s5p : S5p g }.
Record InvD (g : geo) : Prop := { i_s3b : S3b g; i_s5n : S5n g; i_s6 : S6 g }.
Record Inv (g : geo) : Prop := { i_s : InvS g; i_d : InvD g }.

(** unfold the attribute reads and normalise projections of setters *)
Ltac ua := unfold nget, cget, kget, lget, wget, kkey, nn, np, ncs, cn, cns, cnb, cks, cl, cs, cc, k0, k1, kn, ln, lb, lc, lt, wn in *.
Ltac gsu := ua; gs.

(** ** the empty geometry *)
Lemma invS_empty cv a f : InvS (empty_geo cv a f).
Proof.
  constructor.
  - unfold Fr; cbn; tauto.
  - split; [|split; [|split]]; apply DL_empty.
  - apply DL_empty.
  - unfold S2; cbn; tauto.
  - unfold S3a; cbn; tauto.
  - intros k [].
  - intros c [].
Qed.
Lemma invD_empty cv a f : InvD (empty_geo cv a f).
Proof.
  constructor.
  - unfold S3b; cbn; tauto.
  - intros c [].
  - split; reflexivity.
Qed.
Lemma inv_empty cv a f : Inv (empty_geo cv a f).
Proof. constructor; [apply invS_empty|apply invD_empty]. Qed.

(** ** consequences *)
Lemma s1_nget g n i : S1 g -> nget g n = Some i -> In i (nlist g) /\ nn g i = n.
Proof. intros I H. exact (DL_aget str_eqb str_spec _ _ _ _ _ (s1_n g I) H). Qed.
Lemma s1_cget g n i : S1 g -> cget g n = Some i -> In i (clist g) /\ cn g i = n.
Proof. intros I H. exact (DL_aget str_eqb str_spec _ _ _ _ _ (s1_c g I) H). Qed.
Lemma s1_lget g n i : S1 g -> lget g n = Some i -> In i (llist g) /\ ln g i = n.
Proof. intros I H. exact (DL_aget str_eqb str_spec _ _ _ _ _ (s1_l g I) H). Qed.
Lemma s1_wget g n i : S1 g -> wget g n = Some i -> In i (wlist g) /\ wn g i = n.
Proof. intros I H. exact (DL_aget str_eqb str_spec _ _ _ _ _ (s1_w g I) H). Qed.
Lemma s1k_kget g key k : S1k g -> kget g key = Some k -> In k (klist g) /\ kkey g k = key.
Proof. intros I H. exact (DL_aget key2_eqb key2_spec _ _ _ _ _ I H). Qed.
Lemma s1_cn_inj g c d : S1 g -> In c (clist g) -> In d (clist g) -> cn g c = cn g d -> c = d.
Proof. intro I. exact (DL_inj str_eqb str_spec _ _ _ _ _ (s1_c g I)). Qed.
Lemma s1k_kkey_inj g k k' : S1k g -> In k (klist g) -> In k' (klist g) -> kkey g k = kkey g k' -> k = k'.
Proof. intro I. exact (DL_inj key2_eqb key2_spec _ _ _ _ _ I). Qed.

(** ** two states that agree on every listed object *)
Record agree (g g' : geo) : Prop := {
  a_nlist : nlist g' = nlist g; a_ndict : ndict g' = ndict g;
  a_clist : clist g' = clist g; a_cdict : cdict g' = cdict g;
  a_klist : klist g' = klist g; a_kdict : kdict g' = kdict g;
  a_llist : llist g' = llist g; a_ldict : ldict g' = ldict g;
  a_wlist : wlist g' = wlist g; a_wdict : wdict g' = wdict g;
  a_bnl : bnl g' = bnl g; a_bcl : bcl g' = bcl g;
  a_conv : conv g' = conv g; a_atm : atm g' = atm g; a_fx : fx g' = fx g;
  a_next : (next g <= next g')%positive;
  a_n : forall i, In i (nlist g) -> nn g' i = nn g i /\ np g' i = np g i /\ ncs g' i = ncs g i;
  a_c : forall c, In c (clist g) -> cn g' c = cn g c /\ cns g' c = cns g c /\ cnb g' c = cnb g c /\
                                    cks g' c = cks g c /\ cl g' c = cl g c /\ cs g' c = cs g c /\ cc g' c = cc g c;
  a_k : forall k, In k (klist g) -> k0 g' k = k0 g k /\ k1 g' k = k1 g k /\ kn g' k = kn g k;
  a_l : forall l, In l (llist g) -> ln g' l = ln g l /\ lb g' l = lb g l /\ lc g' l = lc g l /\ lt g' l = lt g l;
  a_w : forall w, In w (wlist g) -> wn g' w = wn g w }.

Section Agree.
  Variables g g' : geo.
  Hypothesis A : agree g g'.
  Let En := a_nlist _ _ A. Let Ec := a_clist _ _ A. Let Ek := a_klist _ _ A. Let El := a_llist _ _ A. Let Ew := a_wlist _ _ A.

  Lemma agree_cn c : In c (clist g) -> cn g' c = cn g c. Proof. intro H. apply (a_c _ _ A c H). Qed.
  Lemma agree_cns c : In c (clist g) -> cns g' c = cns g c. Proof. intro H. apply (a_c _ _ A c H). Qed.
  Lemma agree_cnb c : In c (clist g) -> cnb g' c = cnb g c. Proof. intro H. apply (a_c _ _ A c H). Qed.
  Lemma agree_cks c : In c (clist g) -> cks g' c = cks g c. Proof. intro H. apply (a_c _ _ A c H). Qed.
  Lemma agree_cl c : In c (clist g) -> cl g' c = cl g c. Proof. intro H. apply (a_c _ _ A c H). Qed.
  Lemma agree_cs c : In c (clist g) -> cs g' c = cs g c. Proof. intro H. apply (a_c _ _ A c H). Qed.
  Lemma agree_k0 k : In k (klist g) -> k0 g' k = k0 g k. Proof. intro H. apply (a_k _ _ A k H). Qed.
  Lemma agree_k1 k : In k (klist g) -> k1 g' k = k1 g k. Proof. intro H. apply (a_k _ _ A k H). Qed.
  Lemma agree_kn k : In k (klist g) -> kn g' k = kn g k. Proof. intro H. apply (a_k _ _ A k H). Qed.
  Lemma agree_ncs n : In n (nlist g) -> ncs g' n = ncs g n. Proof. intro H. apply (a_n _ _ A n H). Qed.
  Lemma agree_nn n : In n (nlist g) -> nn g' n = nn g n. Proof. intro H. apply (a_n _ _ A n H). Qed.
  Lemma agree_ln l : In l (llist g) -> ln g' l = ln g l. Proof. intro H. apply (a_l _ _ A l H). Qed.
  Lemma agree_lb l : In l (llist g) -> lb g' l = lb g l. Proof. intro H. apply (a_l _ _ A l H). Qed.
  Lemma agree_lt l : In l (llist g) -> lt g' l = lt g l. Proof. intro H. apply (a_l _ _ A l H). Qed.

  Lemma agree_Fr : Fr g -> Fr g'.
  Proof.
    intros [F1 [F2 [F3 [F4 F5]]]]. pose proof (a_next _ _ A) as L.
    repeat split; intros i H; [rewrite En in H; apply F1 in H|rewrite Ec in H; apply F2 in H|rewrite Ek in H; apply F3 in H
                              |rewrite El in H; apply F4 in H|rewrite Ew in H; apply F5 in H]; lia.
  Qed.
  Lemma agree_S1 : S1 g -> S1 g'.
  Proof.
    intros [D1 [D2 [D3 D4]]]. split; [|split; [|split]].
    - rewrite En, (a_ndict _ _ A). apply DL_ext with (name := nn g); [|exact D1]. intros i H. apply agree_nn; exact H.
    - rewrite Ec, (a_cdict _ _ A). apply DL_ext with (name := cn g); [|exact D2]. intros i H. apply agree_cn; exact H.
    - rewrite El, (a_ldict _ _ A). apply DL_ext with (name := ln g); [|exact D3]. intros i H. apply agree_ln; exact H.
    - rewrite Ew, (a_wdict _ _ A). apply DL_ext with (name := wn g); [|exact D4]. intros i H. apply (a_w _ _ A); exact H.
  Qed.
  Lemma agree_kkey k : S3a g -> In k (klist g) -> kkey g' k = kkey g k.
  Proof.
    intros S H. unfold kkey. rewrite (agree_k0 k H), (agree_k1 k H).
    destruct (s3_ends g S k H) as [H0 H1]. rewrite (agree_cn _ H0), (agree_cn _ H1). reflexivity.
  Qed.
  Lemma agree_S1k : S3a g -> S1k g -> S1k g'.
  Proof.
    intros S D. unfold S1k. rewrite Ek, (a_kdict _ _ A). apply DL_ext with (name := kkey g); [|exact D].
    intros k H. apply agree_kkey; assumption.
  Qed.
  Lemma agree_S2 : S2 g -> S2 g'.
  Proof.
    intros [P1 [P2 P3]]. split; [|split].
    - intros c Hc n Hn. rewrite Ec in Hc. rewrite (agree_cns c Hc) in Hn. rewrite En. exact (P1 c Hc n Hn).
    - intros n Hn. rewrite En in Hn. rewrite (agree_ncs n Hn). exact (P2 n Hn).
    - intros n Hn c. rewrite En in Hn. rewrite (agree_ncs n Hn), Ec, (P3 n Hn c).
      split; intros [Hc Hm]; (split; [exact Hc|]); [rewrite (agree_cns c Hc)|rewrite <- (agree_cns c Hc)]; exact Hm.
  Qed.
  Lemma agree_S3a : S3a g -> S3a g'.
  Proof.
    intros [P1 [P2 P3]]. split; [|split].
    - intros k Hk. rewrite Ek in Hk. rewrite (agree_k0 k Hk), (agree_k1 k Hk), Ec. exact (P1 k Hk).
    - intros c Hc. rewrite Ec in Hc. rewrite (agree_cks c Hc). exact (P2 c Hc).
    - intros c Hc k. rewrite Ec in Hc. rewrite (agree_cks c Hc), Ek, (P3 c Hc k).
      split; intros [Hk Hm]; (split; [exact Hk|]); [rewrite (agree_k0 k Hk), (agree_k1 k Hk)|rewrite <- (agree_k0 k Hk), <- (agree_k1 k Hk)]; exact Hm.
  Qed.
  Lemma agree_joined c d : joined g' c d <-> joined g c d.
  Proof.
    unfold joined. split; intros [k [Hk Hm]]; exists k.
    - rewrite Ek in Hk. rewrite (agree_k0 k Hk), (agree_k1 k Hk) in Hm. auto.
    - rewrite Ek. rewrite (agree_k0 k Hk), (agree_k1 k Hk). auto.
  Qed.
  Lemma agree_S3b : S3b g -> S3b g'.
  Proof.
    intros [P1 P2]. split.
    - intros c Hc. rewrite Ec in Hc. rewrite (agree_cnb c Hc). exact (P1 c Hc).
    - intros c Hc d. rewrite Ec in Hc. rewrite (agree_cnb c Hc), agree_joined. exact (P2 c Hc d).
  Qed.
  Lemma agree_S4 : S3a g -> S4 g -> S4 g'.
  Proof.
    intros S P k Hk. rewrite Ek in Hk. destruct (s3_ends g S k Hk) as [H0 H1].
    rewrite (agree_k0 k Hk), (agree_k1 k Hk), (agree_kn k Hk), (agree_cns _ H0), (agree_cns _ H1). exact (P k Hk).
  Qed.
  Lemma agree_S5p : S5p g -> S5p g'.
  Proof. intros P c Hc. rewrite Ec in Hc. rewrite (agree_cns c Hc). exact (P c Hc). Qed.
End Agree.

Lemma agree_refl g : agree g g.
Proof. constructor; auto; try lia; intros; auto 10. Qed.
