(** C10 -- add_column. *)
From Coq Require Import Ascii String List Bool PArith NArith ZArith QArith FMapPositive Permutation Lia.
From PTBase Require Import Exn PyStr.
From P Require Import Assoc GeoState GeoEdit Inv InvNames InvSimple Sets.
Import ListNotations.
Open Scope list_scope.

Lemma agree_new_col g name ns ce surf : Fr g -> agree g (new_col g name ns ce surf).
Proof.
  intro F. constructor; try reflexivity; try (intros; repeat split; reflexivity).
  - cbn. lia.
  - intros i H. unfold new_col. gsu. rewrite !fget_fset_neq by fresh_neq F H. auto 10.
Qed.

(** the loop [for node in col.node: node.column.add(col)] only touches the nodes' column sets *)
Lemma fold_ncol_add ns : forall g c, fold_left (fun acc n => ncol_add acc n c) ns g = set_ncol g (addall (ncol g) ns c).
Proof.
  induction ns as [|a r IH]; intros g c; [reflexivity|].
  cbn [fold_left]. rewrite IH. reflexivity.
Qed.

(** with no layer the derived lists are empty whatever the columns *)
Lemma fresh_no_layers g : llist g = [] -> ldict g = [] -> fresh_bnl g = Ok [] /\ fresh_bcl g = Ok [].
Proof. intros H1 H2. unfold fresh_bnl, fresh_bcl. rewrite H1, H2. auto. Qed.
Lemma s1_no_layers g : S1 g -> llist g = [] -> ldict g = [].
Proof.
  intros P H. destruct (ldict g) as [|[k l] r] eqn:E; [reflexivity|].
  destruct (dl_sound _ _ _ (s1_l g P) k l) as [X _]; [rewrite E; left; reflexivity|]. rewrite H in X. destruct X.
Qed.

Lemma S6_no_layers g g' : S1 g -> llist g = [] -> S6 g ->
  llist g' = llist g -> ldict g' = ldict g -> bnl g' = bnl g -> bcl g' = bcl g -> S6 g'.
Proof.
  intros P Hlay [B' K'] E1 E2 E3 E4.
  destruct (fresh_no_layers g Hlay (s1_no_layers g P Hlay)) as [B K].
  rewrite B in B'. rewrite K in K'. inversion B' as [Hb]. inversion K' as [Hk].
  unfold S6, fresh_bnl, fresh_bcl. rewrite E1, E2, E3, E4, Hlay, (s1_no_layers g P Hlay). cbn. rewrite <- Hb, <- Hk. auto.
Qed.

(** [add_column(col)] for a fresh column object [c] (not listed, no neighbour, no connection, layer count 0)
    whose nodes are distinct nodes of the geometry *)
Lemma add_column_obj_invS g c : InvS g -> ~ In c (clist g) -> (c < next g)%positive -> cks g c = [] ->
  (forall n, In n (cns g c) -> In n (nlist g)) -> NoDup (cns g c) -> (3 <= length (cns g c))%nat ->
  InvS (add_column_obj g c).
Proof.
  intros I Hc Hlt Hks Hns Hnd Hlen. unfold add_column_obj. destruct (cget g (cn g c)) eqn:E; [exact I|].
  rewrite fold_ncol_add. gs.
  destruct I as [F P1 P1k P2 P3 P4 P5].
  assert (Hk : forall k, In k (klist g) -> k0 g k <> c /\ k1 g k <> c).
  { intros k Hk. destruct (s3_ends g P3 k Hk) as [A B]. split; intros X; rewrite X in *; contradiction. }
  constructor.
  - destruct F as [F1 [F2 [F3 [F4 F5]]]]. unfold Fr. gs. repeat split; try assumption.
    intros x Hx. apply in_snoc in Hx. destruct Hx as [Hx| ->]; auto.
  - destruct P1 as [Dn [Dc [Dl Dw]]]. split; [|split; [|split]]; try assumption.
    apply (DL_add_new str_eqb str_spec (cn g)); auto.
  - exact P1k.
  - destruct P2 as [Q1 [Q2 Q3]]. unfold S2. gsu. split; [|split].
    + intros c' Hc' n Hn. apply in_snoc in Hc'. destruct Hc' as [Hc'| ->]; [exact (Q1 c' Hc' n Hn)|exact (Hns n Hn)].
    + intros n Hn. rewrite fget_addall. match goal with |- context [mem ?a ?b] => destruct (mem a b) end; [apply NoDup_sadd|]; exact (Q2 n Hn).
    + intros n Hn c'. rewrite fget_addall, in_snoc.
      assert (Nc : ~ In c (fget [] (ncol g) n)) by (intro X; apply (Q3 n Hn c) in X; destruct X; contradiction).
      match goal with |- context [mem ?a ?b] => destruct (mem a b) eqn:M end.
      * apply mem_In in M. rewrite In_sadd, (Q3 n Hn c'). split.
        -- intros [[A B]| ->]; auto.
        -- intros [[A| ->] B]; auto.
      * apply mem_false in M. rewrite (Q3 n Hn c'). split.
        -- intros [A B]; auto.
        -- intros [[A| ->] B]; [auto|contradiction].
  - destruct P3 as [Q1 [Q2 Q3]]. unfold S3a. gsu. split; [|split].
    + intros k Hk'. destruct (Q1 k Hk') as [X1 [X2 X3]]. split; [|split]; [apply in_snoc; left; assumption..|exact X3].
    + intros c' Hc'. apply in_snoc in Hc'. destruct Hc' as [Hc'| ->]; [exact (Q2 c' Hc')|]. rewrite Hks. constructor.
    + intros c' Hc' k. apply in_snoc in Hc'. destruct Hc' as [Hc'| ->]; [exact (Q3 c' Hc' k)|].
      rewrite Hks. split; [intros []|]. intros [A B]. destruct (Hk k A). destruct B; contradiction.
  - exact P4.
  - intros c' Hc'. gsu. apply in_snoc in Hc'. destruct Hc' as [Hc'| ->]; [exact (P5 c' Hc')|auto].
Qed.
(** the derived data is kept when the new column has no neighbour, layer count 0 and the geometry no layer yet *)
Lemma add_column_obj_invD g c : Inv g -> ~ In c (clist g) -> cnb g c = [] -> cl g c = 0%Z ->
  (cget g (cn g c) = None -> llist g = []) -> InvD (add_column_obj g c).
Proof.
  intros I Hc Hnb Hcl Hlay. unfold add_column_obj. destruct (cget g (cn g c)) eqn:E; [exact (i_d g I)|].
  specialize (Hlay eq_refl). rewrite fold_ncol_add. gs.
  destruct I as [[F P1 P1k P2 P3 P4 P5] [D1 D2 D3]].
  assert (Hk : forall k, In k (klist g) -> k0 g k <> c /\ k1 g k <> c).
  { intros k Hk. destruct (s3_ends g P3 k Hk) as [A B]. split; intros X; rewrite X in *; contradiction. }
  constructor.
  - destruct D1 as [Q1 Q2]. unfold S3b. gsu. split.
    + intros c' Hc'. apply in_snoc in Hc'. destruct Hc' as [Hc'| ->]; [exact (Q1 c' Hc')|]. rewrite Hnb. constructor.
    + intros c' Hc' d. apply in_snoc in Hc'. destruct Hc' as [Hc'| ->]; [exact (Q2 c' Hc' d)|].
      rewrite Hnb. split; [intros []|]. intros [k [A B]]. destruct (Hk k A). destruct B as [[B _]|[_ B]]; contradiction.
  - intros c' Hc'. gsu. apply in_snoc in Hc'. destruct Hc' as [Hc'| ->]; [exact (D2 c' Hc')|].
    unfold count_layers. gsu. rewrite Hlay. cbn. rewrite Hcl. reflexivity.
  - apply (S6_no_layers g); auto.
Qed.

Lemma lookup_nodes_ok g names ns : S1 g -> lookup_nodes g names = Ok ns -> (forall n, In n ns -> In n (nlist g)) /\ map (nn g) ns = names.
Proof.
  intro P. revert ns. induction names as [|a r IH]; intros ns H; cbn [lookup_nodes] in H.
  - inversion H; subst. split; [intros n []|reflexivity].
  - destruct (nget g a) as [i|] eqn:E; [|discriminate].
    destruct (lookup_nodes g r) as [l|] eqn:El; cbn [bind] in H; [|discriminate]. inversion H; subst ns; clear H.
    destruct (IH l eq_refl) as [A B]. destruct (s1_nget g a i P E) as [Hi Hn]. split.
    + intros n [<-|Hn']; auto.
    + cbn. rewrite Hn, B. reflexivity.
Qed.

(** distinct names: the nodes given to the column constructor are distinct objects *)
Definition col_args_ok (g : geo) (name : str) (names : list str) : Prop :=
  cget g name = None -> NoDup names /\ (3 <= length names)%nat.
Definition col_derived_ok (g : geo) (name : str) : Prop := cget g name = None -> llist g = [].

Lemma new_col_facts g name ns ce surf : let g1 := new_col g name ns ce surf in
  cns g1 (next g) = (if qltb (qpoly_area (poly g ns)) 0 then rev ns else ns) /\ cn g1 (next g) = name /\
  cnb g1 (next g) = [] /\ cks g1 (next g) = [] /\ cl g1 (next g) = 0%Z.
Proof. cbn zeta. unfold new_col. gsu. rewrite !fget_fset_eq. auto. Qed.

Theorem add_column_invS g name names ce surf g' : InvS g -> col_args_ok g name names ->
  add_column g name names ce surf = Ok g' -> InvS g'.
Proof.
  intros I A H. unfold add_column in H. destruct (lookup_nodes g names) as [ns|] eqn:E; cbn [bind] in H; [|discriminate].
  inversion H; subst g'; clear H. pose proof (i_fr g I) as F.
  destruct (lookup_nodes_ok g names ns (i_s1 g I) E) as [Hin Hnm].
  destruct (new_col_facts g name ns ce surf) as [Ecns [Ecn [Enb [Eks Ecl]]]].
  set (g1 := new_col g name ns ce surf) in *.
  assert (I1 : InvS g1) by (apply (agree_InvS g); [apply agree_new_col; exact F|exact I]).
  assert (Hmem : forall n, In n (cns g1 (next g)) <-> In n ns).
  { intro n. rewrite Ecns. destruct (qltb _ _); [symmetry; apply in_rev|reflexivity]. }
  destruct (cget g name) as [old|] eqn:X.
  { unfold add_column_obj. rewrite Ecn. change (cget g1 name) with (cget g name). rewrite X. exact I1. }
  destruct (A X) as [ND L].
  assert (NDn : NoDup ns) by (rewrite <- Hnm in ND; apply NoDup_map_inv in ND; exact ND).
  apply add_column_obj_invS; try assumption.
  - intro Y. change (In (next g) (clist g)) in Y. apply (fr_c g F) in Y. lia.
  - cbn. lia.
  - intros n Hn. apply Hmem in Hn. exact (Hin n Hn).
  - rewrite Ecns. destruct (qltb _ _); [apply NoDup_rev|]; exact NDn.
  - rewrite Ecns. rewrite <- Hnm, map_length in L. destruct (qltb _ _); [rewrite rev_length|]; exact L.
Qed.
Theorem add_column_inv g name names ce surf g' : Inv g -> col_args_ok g name names -> col_derived_ok g name ->
  add_column g name names ce surf = Ok g' -> Inv g'.
Proof.
  intros I A D H. constructor; [eapply add_column_invS; [apply I|exact A|exact H]|].
  unfold add_column in H. destruct (lookup_nodes g names) as [ns|] eqn:E; cbn [bind] in H; [|discriminate].
  inversion H; subst g'; clear H. pose proof (i_fr g (i_s g I)) as F.
  destruct (new_col_facts g name ns ce surf) as [Ecns [Ecn [Enb [Eks Ecl]]]].
  set (g1 := new_col g name ns ce surf) in *.
  assert (I1 : Inv g1) by (apply (agree_Inv g); [apply agree_new_col; exact F|exact I]).
  apply add_column_obj_invD; try assumption.
  - intro Y. change (In (next g) (clist g)) in Y. apply (fr_c g F) in Y. lia.
  - rewrite Ecn. intro X. apply D. exact X.
Qed.
