(** C10 -- executable model of the mulgrid edit state machine, part 2: the compound operations
    check(fix = True), reduce, refine (no bisection), subdivide_column / triangulate_column /
    decompose_columns, add_layers, refine_layers, snap_columns_to_layers,
    snap_columns_to_nearest_layers, copy_layers_from, translate, rotate (as a move of the nodes).

    Python iterates over SETS of objects in several of these (the connections and columns to refine,
    the missing connections to add): the iteration order decides which new name a new node / column
    gets and where a new connection lands in connectionlist.  The model takes that order as an
    argument (a "hint", observed on the implementation by the correspondence run), checks that it is
    an ordering of the set the model itself computes, and raises [OutOfFuel] otherwise; the theorems
    hold for every such order.  Floating-point geometry that does not influence the combinatorial
    state (which columns fail to contain their centre; straight angles in decompose_column; the
    rotation) is taken the same way. *)
From Coq Require Import Ascii String List Bool PArith NArith ZArith QArith FMapPositive Lia.
From PTBase Require Import Exn PyStr PyNum PyVal.
From PTModel Require Import Names.
From P Require Import Assoc GeoState GeoEdit.
Import ListNotations.
Close Scope N_scope.
Close Scope char_scope.
Open Scope list_scope.

(** ** small helpers *)
(** Python [a <= b] on strings *)
Fixpoint str_leb (a b : str) : bool :=
  match a, b with
  | [], _ => true
  | _ :: _, [] => false
  | x :: a', y :: b' =>
      let nx := nat_of_ascii x in let ny := nat_of_ascii y in
      if (nx <? ny)%nat then true else if (ny <? nx)%nat then false else str_leb a' b'
  end.
Fixpoint dedup (l : list id) : list id :=
  match l with [] => [] | a :: r => if mem a r then dedup r else a :: dedup r end.
Definition key_mem (k : key2) (l : list key2) : bool := existsb (key2_eqb k) l.
Fixpoint kdedup (l : list key2) : list key2 :=
  match l with [] => [] | a :: r => if key_mem a r then kdedup r else a :: kdedup r end.
(** the hint [h] is an ordering of the set [s] *)
Definition is_ordering_of (h s : list key2) : bool :=
  (length h =? length s)%nat && forallb (fun k => key_mem k h) s && forallb (fun k => key_mem k s) h.
Definition is_ordering_of_ids (h s : list id) : bool :=
  (length h =? length s)%nat && forallb (fun k => mem k h) s && forallb (fun k => mem k s) h.
Fixpoint lookup_cols (g : geo) (ns : list str) : res (list id) :=
  match ns with
  | [] => Ok []
  | n :: r => match cget g n with
              | None => Raise KeyError
              | Some i => do l <- lookup_cols g r; Ok (i :: l)
              end
  end.
Definition qmid (p q : pt) : pt := pred2 ((fst p + fst q) * (1 # 2), (snd p + snd q) * (1 # 2))%Q.

(** ** missing_connections / extra_connections / check(fix = True) *)
(** [len(set(self.node).intersection(set(col.node))) > 1] *)
Definition is_against (g : geo) (a b : id) : bool :=
  (1 <? length (filter (fun n => mem n (cns g b)) (dedup (cns g a))))%nat.
(** [any([(col1 in con.column) and (col2 in con.column) for con in self.connectionlist])] *)
Definition connects (g : geo) (a b : id) : bool :=
  existsb (fun k => (Pos.eqb (k0 g k) a || Pos.eqb (k1 g k) a) && (Pos.eqb (k0 g k) b || Pos.eqb (k1 g k) b)) (klist g).
Fixpoint pairs_of (l : list id) : list (id * id) :=
  match l with [] => [] | a :: r => map (fun b => (a, b)) r ++ pairs_of r end.
(** the set [missing] of (smaller name, larger name) pairs *)
Definition missing_pairs (g : geo) : list key2 :=
  kdedup (flat_map (fun n =>
            flat_map (fun ab => let '(a, b) := ab in
                        if is_against g a b && negb (connects g a b)
                        then [if str_leb (cn g a) (cn g b) then (cn g a, cn g b) else (cn g b, cn g a)]
                        else []) (pairs_of (ncs g n))) (nlist g)).
Fixpoint add_connections (g : geo) (ks : list key2) : res geo :=
  match ks with [] => Ok g | (a, b) :: r => do g1 <- add_connection g a b; add_connections g1 r end.
(** [for con in self.missing_connections: self.add_connection(con)], in the order [h] *)
Definition add_missing (g : geo) (h : list key2) : res geo :=
  if is_ordering_of h (missing_pairs g) then add_connections g h else Raise OutOfFuel.
Definition extra_keys (g : geo) : list key2 :=
  kdedup (map (kkey g) (filter (fun k => negb (is_against g (k0 g k) (k1 g k))) (klist g))).
Fixpoint delete_connections (g : geo) (ks : list key2) : res geo :=
  match ks with [] => Ok g | k :: r => do g1 <- delete_connection g k; delete_connections g1 r end.
(** bad layers: [bottom = min(bottom, top); top = max(bottom, top); centre = (bottom + top) / 2] *)
Definition qmin (a b : Q) : Q := if Qle_bool a b then a else b.
Definition qmax (a b : Q) : Q := if Qle_bool a b then b else a.
Definition fix_layer (g : geo) (l : id) : geo :=
  if Qle_bool (lb g l) (lc g l) && Qle_bool (lc g l) (lt g l) then g
  else let b := qmin (lb g l) (lt g l) in let t := qmax b (lt g l) in
       set_lcen (set_ltop (set_lbot g (fset (lbot g) l b)) (fset (ltop g) l t)) (fset (lcen g) l (Qred ((b + t) * (1 # 2)))).
(** bad columns (named by the hint): [c.centre = sum([n.pos for n in c.node]) / c.num_nodes] *)
Definition mean_pos (g : geo) (ns : list id) : pt :=
  let s := fold_left qadd (poly g ns) p0 in
  let n := inject_Z (Z.of_nat (length ns)) in pred2 (fst s / n, snd s / n)%Q.
Fixpoint fix_centres (g : geo) (names : list str) : res geo :=
  match names with
  | [] => Ok g
  | n :: r => match cget g n with
              | None => Raise OutOfFuel
              | Some c => fix_centres (set_ccen g (fset (ccen g) c (mean_pos g (cns g c)))) r
              end
  end.
Definition check_fix (g : geo) (hm : list key2) (hbad : list str) : res geo :=
  do g1 <- add_missing g hm;
  let ek := extra_keys g1 in
  do g2a <- delete_connections g1 ek;
  (* repaired source (proposed_fixes/C10-check-fix-name-index.diff): connections were added / deleted, the connection name
     index is set up again *)
  do g2 <- (if fx_check (fx g) && negb (match hm, ek with [], [] => true | _, _ => false end)
            then setup_block_connection_name_index g2a else Ok g2a);
  do g3 <- delete_orphans g2;
  do g4 <- fix_centres g3 hbad;
  Ok (fold_left fix_layer (tl (llist g4)) g4).

(** ** reduce(columns) *)
Fixpoint delete_columns (g : geo) (names : list str) : res geo :=
  match names with [] => Ok g | n :: r => do g1 <- delete_column g n; delete_columns g1 r end.
Definition reduce (g : geo) (names : list str) (hm : list key2) (hbad : list str) : res geo :=
  do keep <- lookup_cols g names;
  do g1 <- delete_columns g (map (cn g) (filter (fun c => negb (mem c keep)) (clist g)));
  do g2 <- check_fix g1 hm hbad;
  setup_names g2.

(** ** refine(columns) without bisection *)
Inductive vtx := Vc (i : nat) | Vm (i j : nat) | Vcen.
Definition transition_column (nn nref irange : nat) : option (list (list vtx)) :=
  match nn, nref, irange with
  | 3, 1, 0 => Some [[Vc 0; Vm 0 1; Vc 2]; [Vm 0 1; Vc 1; Vc 2]]
  | 3, 2, 1 => Some [[Vc 0; Vm 0 1; Vm 1 2; Vc 2]; [Vm 0 1; Vc 1; Vm 1 2]]
  | 3, 3, 2 => Some [[Vc 0; Vm 0 1; Vm 2 0]; [Vm 0 1; Vc 1; Vm 1 2]; [Vm 1 2; Vc 2; Vm 2 0]; [Vm 0 1; Vm 1 2; Vm 2 0]]
  | 4, 1, 0 => Some [[Vc 0; Vm 0 1; Vc 3]; [Vm 0 1; Vc 1; Vc 2]; [Vm 0 1; Vc 2; Vc 3]]
  | 4, 2, 1 => Some [[Vc 0; Vm 0 1; Vcen]; [Vm 0 1; Vc 1; Vm 1 2; Vcen]; [Vm 1 2; Vc 2; Vcen]; [Vc 2; Vc 3; Vcen]; [Vc 0; Vcen; Vc 3]]
  | 4, 2, 2 => Some [[Vc 0; Vm 0 1; Vm 2 3; Vc 3]; [Vm 0 1; Vc 1; Vc 2; Vm 2 3]]
  | 4, 3, 2 => Some [[Vc 0; Vm 0 1; Vm 2 3; Vc 3]; [Vm 0 1; Vc 1; Vm 1 2]; [Vm 1 2; Vc 2; Vm 2 3]; [Vm 0 1; Vm 1 2; Vm 2 3]]
  | 4, 4, 3 => Some [[Vc 0; Vm 0 1; Vcen; Vm 3 0]; [Vm 0 1; Vc 1; Vm 1 2; Vcen]; [Vm 1 2; Vc 2; Vm 2 3; Vcen]; [Vm 2 3; Vc 3; Vm 3 0; Vcen]]
  | _, _, _ => None
  end%nat.
(** [transition_type(nn, sides)]: (nrefined, istart, irange); [None]: the function prints an error and returns None *)
Definition transition_type (nn : nat) (sides : list nat) : option (nat * nat * nat) :=
  let nref := length sides in
  let missing := filter (fun i => negb (existsb (Nat.eqb i) sides)) (seq 0 nn) in
  if (nref =? 1)%nat then Some (1, hd 0 sides, 0)%nat
  else if (nref =? nn)%nat then Some (nn, 0, nn - 1)%nat
  else if (length missing =? 1)%nat then Some (nref, (hd 0 missing + 1) mod nn, nn - 2)%nat
  else if ((nn =? 4) && (nref =? 2))%nat then
    let s0 := hd 0%nat sides in let s1 := nth 1 sides 0%nat in
    if (s1 - s0 <? 3)%nat then Some (nref, s0, s1 - s0)%nat else Some (nref, s1, 1%nat)
  else None.

(** [sidenodes]: dictionary keyed by the unordered pair of the names of the two end nodes *)
Definition sidemap := list (key2 * id).
Definition side_get (sn : sidemap) (a b : str) : option id :=
  match aget key2_eqb sn (a, b) with Some i => Some i | None => aget key2_eqb sn (b, a) end.
Definition side_set (sn : sidemap) (a b : str) (i : id) : sidemap :=
  match aget key2_eqb sn (a, b) with
  | Some _ => aset key2_eqb sn (a, b) i
  | None => match aget key2_eqb sn (b, a) with Some _ => aset key2_eqb sn (b, a) i | None => aset key2_eqb sn (a, b) i end
  end.
Definition last_opt {A} (l : list A) : option A := match rev l with [] => None | a :: _ => Some a end.
(** [create_mid_node(node1, node2, sidenodes, nodenumber)] *)
Definition create_mid_node (g : geo) (n1 n2 : id) (sn : sidemap) (num : N) : res (geo * sidemap * N) :=
  do ni <- new_name g (ndict g) num;
  let g1 := add_node g (fst ni) (qmid (np g n1) (np g n2)) in
  match last_opt (nlist g1) with
  | None => Raise IndexError
  | Some l => Ok (g1, side_set sn (nn g n1) (nn g n2) l, snd ni)
  end.
Fixpoint mid_nodes_conns (g : geo) (ks : list id) (sn : sidemap) (num : N) : res (geo * sidemap * N) :=
  match ks with
  | [] => Ok (g, sn, num)
  | k :: r => match kn g k with
              | None => Raise TypeError
              | Some (a, b) => do x <- create_mid_node g a b sn num;
                               let '(g1, sn1, num1) := x in mid_nodes_conns g1 r sn1 num1
              end
  end.
(** sides of the refined columns that lie on the grid boundary *)
Fixpoint mid_nodes_sides (g : geo) (sides : list (id * id)) (bdy : list id) (sn : sidemap) (num : N) : res (geo * sidemap * N) :=
  match sides with
  | [] => Ok (g, sn, num)
  | (a, b) :: r =>
      if mem a bdy && mem b bdy && match side_get sn (nn g a) (nn g b) with Some _ => false | None => true end
      then do x <- create_mid_node g a b sn num; let '(g1, sn1, num1) := x in mid_nodes_sides g1 r bdy sn1 num1
      else mid_nodes_sides g r bdy sn num
  end.
Fixpoint mapM_vtx (f : vtx -> res id) (l : list vtx) : res (list id) :=
  match l with [] => Ok [] | v :: r => do a <- f v; do rr <- mapM_vtx f r; Ok (a :: rr) end.
(** one refined column: its centre node (quadrilaterals that need one) and its sub-columns *)
Fixpoint sub_columns (g : geo) (c : id) (istart : nat) (cen : option id) (sn : sidemap) (subs : list (list vtx)) (colnum : N) : res (geo * N) :=
  match subs with
  | [] => Ok (g, colnum)
  | sub :: r =>
      let nodes := cns g c in let n := length nodes in
      let corner i := nth ((istart + i) mod n) nodes 1%positive in
      do ni <- new_name g (cdict g) colnum;
      do ns <- mapM_vtx (fun v => match v with
                                  | Vc i => Ok (corner i)
                                  | Vcen => match cen with Some x => Ok x | None => Raise KeyError end
                                  | Vm i j => match side_get sn (nn g (corner i)) (nn g (corner j)) with
                                              | Some x => Ok x | None => Raise KeyError end
                                  end) sub;
      let c2 := next g in
      let g1 := add_column_obj (new_col g (fst ni) ns None (cs g c)) c2 in
      (* self.columnlist[-1].num_layers = col.num_layers *)
      match last_opt (clist g1) with
      | None => Raise IndexError
      | Some l => sub_columns (set_cnl g1 (fset (cnl g1) l (cl g1 c))) c istart cen sn r (snd ni)
      end
  end.
Fixpoint refine_columns (g : geo) (cols : list id) (sn : sidemap) (nodenum colnum : N) : res (geo * N * N) :=
  match cols with
  | [] => Ok (g, nodenum, colnum)
  | c :: r =>
      let nodes := cns g c in let n := length nodes in
      let sides := filter (fun i => match side_get sn (nn g (nth i nodes 1%positive)) (nn g (nth ((i + 1) mod n) nodes 1%positive)) with
                                    | Some _ => true | None => false end) (seq 0 n) in
      match transition_type n sides with
      | None => Raise TypeError
      | Some (nref, istart, irange) =>
          do gc <- (if (n =? 4)%nat && ((nref =? 4)%nat || ((nref =? 2)%nat && (irange =? 1)%nat)) then
                      do ni <- new_name g (ndict g) nodenum;
                      let g1 := add_node g (fst ni) (cc g c) in
                      match last_opt (nlist g1) with
                      | None => Raise IndexError
                      | Some l => Ok (g1, Some l, snd ni)
                      end
                    else Ok (g, None, nodenum));
          let '(g1, cen, nodenum1) := gc in
          match transition_column n nref irange with
          | None => Raise KeyError
          | Some subs => do gn <- sub_columns g1 c istart cen sn subs colnum;
                         refine_columns (fst gn) r sn nodenum1 (snd gn)
          end
      end
  end.
(** positions in connectionlist / nodelist / columnlist (robust against stale dictionaries); the missing
    connections by the names of their columns *)
(** [hb]: the nodes of [self.boundary_nodes] -- or the exception that the boundary walk raises *)
Record refine_hints := { hk : list nat; hb : res (list nat); hc : list nat; hm : list key2 }.
Definition nth_res {A} (l : list A) (i : nat) : res A := match nth_error l i with Some a => Ok a | None => Raise OutOfFuel end.
Definition refine (g : geo) (names : list str) (h : refine_hints) : res geo :=
  do columns <- (match names with [] => Ok (clist g) | _ => lookup_cols g names end);
  let conns := dedup (flat_map (cks g) columns) in
  let plus_edge := dedup (columns ++ flat_map (fun k => [k0 g k; k1 g k]) conns) in
  if forallb (fun c => let n := length (cns g c) in (n =? 3)%nat || (n =? 4)%nat) plus_edge then
    (* the iteration orders of the two sets *)
    do korder <- mapM (nth_res (klist g)) (hk h);
    do corder <- mapM (nth_res (clist g)) (hc h);
    if is_ordering_of_ids korder conns && is_ordering_of_ids corder plus_edge then
      do x <- mid_nodes_conns g korder [] 0%N;
      let '(g1, sn1, num1) := x in
      do hbl <- hb h;                                      (* bdy = self.boundary_nodes *)
      do bdy <- mapM (nth_res (nlist g)) hbl;
      do y <- mid_nodes_sides g1 (flat_map (fun c => cyc_pairs (cns g1 c)) columns) bdy sn1 num1;
      let '(g2, sn2, num2) := y in
      do z <- refine_columns g2 corder sn2 num2 0%N;
      let g3 := fst (fst z) in
      do g4 <- delete_columns g3 (map (cn g3) corder);
      do g5 <- add_missing g4 (hm h);
      setup_names (identify_neighbours g5)
    else Raise OutOfFuel
  else Ok g.

(** ** subdivide_column, triangulate_column, decompose_columns *)
Inductive dvtx := Dc (i : nat) | Dcen.
Fixpoint sub_columns_d (g : geo) (c : id) (i0 : nat) (cen : option id) (subs : list (list dvtx)) (colnum : N) (acc : list str) : res (geo * list str) :=
  match subs with
  | [] => Ok (g, acc)
  | sub :: r =>
      let nodes := cns g c in let n := length nodes in
      do ni <- new_name g (cdict g) colnum;
      do ns <- mapM (fun v => match v with
                              | Dc i => Ok (nth ((i0 + i) mod n) nodes 1%positive)
                              | Dcen => match cen with Some x => Ok x | None => Raise KeyError end
                              end) sub;
      let c2 := next g in
      let g1 := add_column_obj (new_col g (fst ni) ns None (cs g c)) c2 in
      match last_opt (clist g1) with
      | None => Raise IndexError
      | Some l => sub_columns_d (set_cnl g1 (fset (cnl g1) l (cl g1 c))) c i0 cen r (snd ni) (acc ++ [fst ni])
      end
  end.
Definition uses_centre (subs : list (list dvtx)) : bool :=
  existsb (existsb (fun v => match v with Dcen => true | _ => false end)) subs.
(** [subdivide_column(column_name, i0, colnodelist)]: returns the names of the new columns *)
Definition subdivide_column (g : geo) (name : str) (i0 : nat) (subs : list (list dvtx)) : res (geo * list str) :=
  match cget g name with
  | None => Raise KeyError
  | Some c =>
      do gc <- (if uses_centre subs then
                  do ni <- new_name g (ndict g) 0%N;
                  let cen := next g in
                  Ok (add_node_obj (new_node g (fst ni) (cc g c)) cen, Some cen)
                else Ok (g, None));
      do gl <- sub_columns_d (fst gc) c i0 (snd gc) subs 0%N [];
      do g2 <- delete_column (fst gl) name;
      Ok (g2, snd gl)
  end.
Definition fan (n : nat) : list (list dvtx) := map (fun i => [Dc i; Dc ((i + 1) mod n); Dcen]) (seq 0 n).
Definition triangulate_column (g : geo) (name : str) : res (geo * list str) :=
  match cget g name with
  | None => Raise KeyError
  | Some c => subdivide_column g name 0 (fan (length (cns g c)))
  end.
Definition index_minus (nn i d : nat) : nat := if (i <? d)%nat then (i + nn - d)%nat else (i - d)%nat.
Definition index_dist (nn i1 i2 : nat) : nat :=
  let d := (Nat.max i1 i2 - Nat.min i1 i2)%nat in if (nn <? 2 * d)%nat then (nn - d)%nat else d.
Definition nmem (x : nat) (l : list nat) : bool := existsb (Nat.eqb x) l.
(** [decompose_column(column_name)]; [straight]: indices of the nodes with an interior angle > pi - 1e-3 (hint) *)
Definition decompose_column (g : geo) (name : str) (straight : list nat) : res (geo * list str) :=
  match cget g name with
  | None => Raise KeyError
  | Some c =>
      let nn_ := length (cns g c) in let ns := length straight in
      let start_after_gap := hd_error (filter (fun s => negb (nmem (index_minus nn_ s 2) straight)) straight) in
      if (nn_ <=? 4)%nat then Ok (g, [name])
      else if (nn_ <=? 8)%nat then
        if ((nn_ =? 5) && (ns =? 1))%nat then
          subdivide_column g name (hd 0%nat straight) [[Dc 0; Dc 1; Dc 2]; [Dc 0; Dc 2; Dc 3]; [Dc 0; Dc 3; Dc 4]]
        else if ((nn_ =? 6) && (ns =? 2))%nat then
          let d := index_dist nn_ (hd 0%nat straight) (nth 1 straight 0%nat) in
          if (d =? 2)%nat then
            match start_after_gap with
            | None => Raise IndexError
            | Some s => subdivide_column g name s [[Dc 0; Dc 1; Dc 2; Dcen]; [Dc 2; Dc 3; Dcen]; [Dc 3; Dc 4; Dcen]; [Dc 4; Dc 5; Dcen]; [Dc 5; Dc 0; Dcen]]
            end
          else if (d =? 3)%nat then subdivide_column g name (hd 0%nat straight) [[Dc 0; Dc 1; Dc 2; Dc 3]; [Dc 3; Dc 4; Dc 5; Dc 0]]
          else triangulate_column g name
        else if ((nn_ =? 7) && (ns =? 3))%nat then
          match start_after_gap with
          | None => Raise IndexError
          | Some s => subdivide_column g name s [[Dc 0; Dc 1; Dc 2]; [Dc 2; Dc 3; Dc 4]; [Dc 0; Dc 2; Dc 4]; [Dc 4; Dc 5; Dc 6; Dc 0]]
          end
        else if ((nn_ =? 8) && (ns =? 4))%nat then
          subdivide_column g name (hd 0%nat straight) [[Dc 1; Dc 2; Dcen; Dc 0]; [Dc 2; Dc 3; Dc 4; Dcen]; [Dc 4; Dc 5; Dc 6; Dcen]; [Dc 6; Dc 7; Dc 0; Dcen]]
        else triangulate_column g name
      else triangulate_column g name
  end.
(** [decompose_columns(columns)] for an explicit list of names; [hs]: the straight-node hint of each *)
Fixpoint decompose_each (g : geo) (names : list str) (hs : list (list nat)) : res geo :=
  match names with
  | [] => Ok g
  | n :: r => do gl <- decompose_column g n (hd [] hs); decompose_each (fst gl) r (tl hs)
  end.
Definition decompose_columns (g : geo) (names : list str) (hs : list (list nat)) (hmiss : list key2) : res geo :=
  do cols <- lookup_cols g names;          (* [self.column[col] for col in columns] *)
  do g1 <- decompose_each g names hs;
  do g2 <- add_missing g1 hmiss;
  setup_names g2.

(** ** layers: add_layers, refine_layers, copy_layers_from *)
Definition clear_layers (g : geo) : geo := set_llist (set_ldict g []) [].
Definition layername_length (g : geo) : nat := match conv g with 1%nat => 3 | _ => 2 end.
Definition surface_layer_name (g : geo) : str :=
  s2l (match conv g with 0%nat => " 0" | 1%nat => "atm" | 2%nat => "at" | _ => " 0" end)%string.
Definition show_dec (n : N) : str := n_to_str n.
(** [layer_name_from_number(num, justfn, chars, spaces)] with justfn decided by right_justified_names *)
Definition layer_name_from_number (g : geo) (rj : bool) (num : N) : res str :=
  let raw := match conv g with 0%nat => show_dec num | _ => name lowercase num end in
  let nm := if rj then rjust (layername_length g) raw else ljust (layername_length g) raw in
  if (layername_length g <? length nm)%nat then Raise NamingConventionError else Ok nm.
Fixpoint next_layer_name (g : geo) (rj : bool) (fuel : nat) (num : N) : res (str * N) :=
  match fuel with
  | O => Raise OutOfFuel
  | S f => let num1 := (num + 1)%N in
           do nm <- layer_name_from_number g rj num1;
           if str_eqb nm (surface_layer_name g) then next_layer_name g rj f num1 else Ok (nm, num1)
  end.
Fixpoint add_layers_loop (g : geo) (rj : bool) (ths : list Q) (z : Q) (num : N) : res geo :=
  match ths with
  | [] => Ok g
  | th :: r =>
      let z1 := Qred (z - th) in
      do nn_ <- next_layer_name g rj 3 num;
      add_layers_loop (add_layer g (fst nn_) z1 (Qred (z1 + th * (1 # 2))) q0) rj r z1 (snd nn_)
  end.
(** [add_layers(thicknesses, top_elevation, justify)] *)
Definition add_layers (g : geo) (rj : bool) (ths : list Q) (top : Q) : res geo :=
  let g0 := clear_layers g in
  do g1 <- add_layers_loop (add_layer g0 (surface_layer_name g0) top top q0) rj ths top 0%N;
  identify_layer_tops g1.
Fixpoint set_all_num_layers (g : geo) (cs_ : list id) : res geo :=
  match cs_ with [] => Ok g | c :: r => do g1 <- set_column_num_layers g c; set_all_num_layers g1 r end.
Fixpoint lookup_lays (g : geo) (ns : list str) : res (list id) :=
  match ns with
  | [] => Ok []
  | n :: r => match lget g n with
              | None => Raise KeyError
              | Some i => do l <- lookup_lays g r; Ok (i :: l)
              end
  end.
(** [refine_layers(layers, factor)] *)
Definition refine_layers (g : geo) (names : list str) (factor : positive) : res geo :=
  do lays <- (match names with [] => Ok (llist g) | _ => lookup_lays g names end);
  match llist g with
  | [] => Raise IndexError
  | l0 :: rest =>
      let top := lt g l0 in
      let atm_name := ln g l0 in
      let f := inject_Z (Zpos factor) in
      let ths := flat_map (fun l => let th := Qred (lt g l - lb g l) in
                                    if mem l lays then repeat (Qred (th / f)) (Pos.to_nat factor) else [th]) rest in
      let rj := right_justified_names g in
      do g1 <- add_layers g rj ths top;
      do g2 <- (match lget g1 atm_name with
                | Some _ => Ok g1
                | None => match llist g1 with
                          | [] => Raise IndexError
                          | l0' :: _ => rename_layer g1 [ln g1 l0'] [atm_name]
                          end
                end);
      do g3 <- set_all_num_layers g2 (clist g2);
      setup_names g3
  end.
(** [copy_layers_from(geo)]: the layers of the other geometry as (name, bottom, centre, top) *)
Definition copy_layers_from (g : geo) (lays : list (str * (Q * Q * Q))) : res geo :=
  let g1 := fold_left (fun acc l => add_layer acc (fst l) (fst (fst (snd l))) (snd (fst (snd l))) (snd (snd l))) lays (clear_layers g) in
  do g2 <- set_all_num_layers g1 (clist g1);
  setup_names g2.

(** ** snapping surfaces to layers *)
(** [self.layerlist[self.num_layers - col.num_layers]] (Python indexing: negative indices wrap) *)
Definition column_surface_layer (g : geo) (c : id) : res id :=
  match pyindex (Z.of_nat (length (ldict g)) - cl g c)%Z (llist g) with Some l => Ok l | None => Raise IndexError end.
Fixpoint snap_loop (g : geo) (cols : list id) (minth : Q) : res geo :=
  match cols with
  | [] => Ok g
  | c :: r =>
      do l <- column_surface_layer g c;
      match cs g c with
      | None => Raise TypeError
      | Some s =>
          if qltb (s - lb g l) minth
          then snap_loop (set_cnl (set_csurf g (fset (csurf g) c (Some (lb g l)))) (fset (cnl g) c (cl g c - 1)%Z)) r minth
          else snap_loop g r minth
      end
  end.
Definition snap_columns_to_layers (g : geo) (minth : Q) (names : list str) : res geo :=
  if qltb 0 minth then
    do cols <- (match names with [] => Ok (clist g) | _ => lookup_cols g names end);
    do g1 <- snap_loop g cols minth;
    setup_names g1
  else Ok g.
Fixpoint snap_nearest_loop (g : geo) (cols : list id) : res geo :=
  match cols with
  | [] => Ok g
  | c :: r =>
      do l <- column_surface_layer g c;
      match cs g c with
      | None => Raise TypeError
      | Some s =>
          if qltb (lc g l) s
          then snap_nearest_loop (set_csurf g (fset (csurf g) c (Some (lt g l)))) r
          else snap_nearest_loop (set_cnl (set_csurf g (fset (csurf g) c (Some (lb g l)))) (fset (cnl g) c (cl g c - 1)%Z)) r
      end
  end.
Definition snap_columns_to_nearest_layers (g : geo) (names : list str) : res geo :=
  do cols <- (match names with [] => Ok (clist g) | _ => lookup_cols g names end);
  do g1 <- snap_nearest_loop g cols;
  setup_names g1.

(** ** fit_surface(data, columns, layer_snap): the fitted elevations (least squares, floating point) are given *)
(** [for col, elev in zip(columns, col_elevations): col.surface = elev; self.set_column_num_layers(col)] *)
Fixpoint set_surfaces (g : geo) (cols : list id) (zs : list Q) : res geo :=
  match cols, zs with
  | c :: r, z :: zr => do g1 <- set_column_num_layers (set_csurf g (fset (csurf g) c (Some z))) c; set_surfaces g1 r zr
  | _, _ => Ok g
  end.
Definition fit_surface (g : geo) (names : list str) (zs : list Q) (snap : Q) : res geo :=
  do cols <- (match names with [] => Ok (clist g) | _ => lookup_cols g names end);
  do g1 <- set_surfaces g cols zs;
  do g2 <- snap_columns_to_layers g1 snap names;
  setup_names g2.

(** ** translate(shift); rotate(angle): the new positions (irrational) are given *)
Definition translate (g : geo) (dx dy dz : Q) : geo :=
  let sh (p : pt) : pt := pred2 (fst p + dx, snd p + dy)%Q in
  let g1 := fold_left (fun acc n => set_npos acc (fset (npos acc) n (sh (np acc n)))) (nlist g) g in
  let g2 := fold_left (fun acc c => set_csurf (set_ccen acc (fset (ccen acc) c (sh (cc acc c))))
                                              (fset (csurf acc) c (match cs acc c with Some s => Some (Qred (s + dz)) | None => None end)))
                      (clist g1) g1 in
  fold_left (fun acc l => set_lcen (set_lbot (set_ltop acc (fset (ltop acc) l (Qred (lt acc l + dz))))
                                              (fset (lbot acc) l (Qred (lb acc l + dz))))
                                   (fset (lcen acc) l (Qred (lc acc l + dz)))) (llist g2) g2.
(** [rotate]: positions of all nodes and centres of all columns, in list order *)
Definition move_nodes (g : geo) (ps cs_ : list pt) : res geo :=
  if (length ps =? length (nlist g))%nat && (length cs_ =? length (clist g))%nat then
    let g1 := fold_left (fun acc np_ => set_npos acc (fset (npos acc) (fst np_) (snd np_))) (combine (nlist g) ps) g in
    Ok (fold_left (fun acc cp => set_ccen acc (fset (ccen acc) (fst cp) (snd cp))) (combine (clist g1) cs_) g1)
  else Raise OutOfFuel.
