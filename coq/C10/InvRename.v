(** C10 -- rename_layer and rename_column. *)
From Coq Require Import Ascii String List Bool PArith NArith ZArith QArith FMapPositive Permutation Lia.
From PTBase Require Import Exn PyStr.
From P Require Import Assoc GeoState GeoEdit Inv InvNames InvSimple Sets InvCol InvConn InvDel InvRefresh.
Import ListNotations.
Open Scope list_scope.

(** * generic helpers (as in the C08 development) *)
Section FoldAset.
  Context {K : Type} (eqb : K -> K -> bool).
  Hypothesis eqb_spec : forall a b, reflect (a = b) (eqb a b).
  Variable f : id -> K.
  Lemma fold_aset_spec l : forall d0, NoDup (map fst d0) -> NoDup l ->
    (forall i i', In i l -> In i' l -> f i = f i' -> i = i') ->
    NoDup (map fst (fold_left (fun d i => aset eqb d (f i) i) l d0)) /\
    forall k v, In (k, v) (fold_left (fun d i => aset eqb d (f i) i) l d0) <->
                (In v l /\ k = f v) \/ (In (k, v) d0 /\ ~ In k (map f l)).
  Proof.
    induction l as [|a r IH]; cbn [fold_left map]; intros d0 ND0 NDl Inj.
    - split; [exact ND0|]. intros k v. cbn [In]. tauto.
    - inversion NDl as [|? ? Ha NDr]; subst.
      assert (ND1 : NoDup (map fst (aset eqb d0 (f a) a))) by (apply (NoDup_keys_aset eqb eqb_spec); exact ND0).
      assert (Inj' : forall i i', In i r -> In i' r -> f i = f i' -> i = i') by (intros i i' Hi Hi'; apply Inj; right; assumption).
      destruct (IH _ ND1 NDr Inj') as [NDk Hin]. split; [exact NDk|].
      assert (Hfa : ~ In (f a) (map f r)).
      { intro H. apply in_map_iff in H. destruct H as [x [E Hx]]. apply Ha.
        rewrite (Inj a x); [exact Hx|left; reflexivity|right; exact Hx|symmetry; exact E]. }
      intros k v. rewrite Hin. rewrite (In_aset eqb eqb_spec _ _ _ _ _ ND0). cbn [In].
      split.
      + intros [[Hv Hk]|[[[Hk Hv]|[Nk Hd]] Nr]].
        * left. split; [right; exact Hv|exact Hk].
        * left. subst. split; [left; reflexivity|reflexivity].
        * right. split; [exact Hd|]. intros [E|H]; [apply Nk; symmetry; exact E|exact (Nr H)].
      + intros [[[Ev|Hv] Hk]|[Hd Nk]].
        * subst. right. split; [left; split; reflexivity|exact Hfa].
        * left. split; assumption.
        * right. split; [right; split; [intro E; apply Nk; left; symmetry; exact E|exact Hd]|].
          intro H; apply Nk; right; exact H.
  Qed.
  (** [d = {}; for i in l: d[f(i)] = i] *)
  Lemma DL_rebuild l : NoDup l -> (forall i i', In i l -> In i' l -> f i = f i' -> i = i') ->
    DL f l (fold_left (fun d i => aset eqb d (f i) i) l []).
  Proof.
    intros ND Inj. destruct (fold_aset_spec l [] (NoDup_nil _) ND Inj) as [A B]. constructor.
    - exact ND.
    - exact A.
    - intros k i H. apply B in H. destruct H as [[H1 H2]|[[] _]]. auto.
    - intros i H. apply B. left. auto.
  Qed.
End FoldAset.

(** * rename_layer *)
(** every new name is free at the moment it is assigned (the old name has just been popped) *)
Fixpoint ren_lays_ok (g : geo) (prs : list (str * str)) : Prop :=
  match prs with
  | [] => True
  | (old, new) :: r =>
      match lget g old with
      | None => True
      | Some l =>
          if mem l (llist g) then
            aget str_eqb (adel str_eqb (ldict g) old) new = None /\
            ren_lays_ok (set_ldict (set_lname g (fset (lname g) l new)) (aset str_eqb (adel str_eqb (ldict g) old) new l)) r
          else True
      end
  end.
Lemma rename_lays_spec prs : forall g gb, DL (ln g) (llist g) (ldict g) -> ren_lays_ok g prs -> rename_lays g prs = Ok gb ->
  exists N D, fst gb = set_ldict (set_lname g N) D /\ DL (fget [] N) (llist g) D.
Proof.
  induction prs as [|[old new] r IH]; intros g gb DLl Ok_ H; cbn [rename_lays] in H.
  - inversion H; subst gb. exists (lname g), (ldict g). split; [reflexivity|exact DLl].
  - cbn [ren_lays_ok] in Ok_. destruct (lget g old) as [l|] eqn:E; [|discriminate].
    destruct (mem l (llist g)) eqn:M.
    + destruct Ok_ as [Fr_ Ok_]. revert H. gs. intro H.
      assert (DL' : DL (ln (set_ldict (set_lname g (fset (lname g) l new)) (aset str_eqb (adel str_eqb (ldict g) old) new l)))
                       (llist g) (aset str_eqb (adel str_eqb (ldict g) old) new l)).
      { apply (DL_rename str_eqb str_spec (ln g)) with (a := old); auto.
        - apply (aget_None_notin str_eqb str_spec). exact Fr_.
        - unfold ln. gs. apply fget_fset_eq.
        - intros i Ni. unfold ln. gs. apply fget_fset_neq. exact Ni. }
      destruct (IH _ gb DL' Ok_ H) as [N [D [E1 E2]]]. exists N, D. split; [rewrite E1; reflexivity|exact E2].
    + inversion H; subst gb. exists (lname g), (ldict g). split; [reflexivity|exact DLl].
Qed.
(** in a consistent geometry the loop never meets an object that is filed but not listed *)
Lemma rename_lays_complete prs : forall g gb, DL (ln g) (llist g) (ldict g) -> ren_lays_ok g prs -> rename_lays g prs = Ok gb -> snd gb = true.
Proof.
  induction prs as [|[old new] r IH]; intros g0 gb0 DLl Ok0 H0; cbn [rename_lays] in H0; [inversion H0; reflexivity|].
  cbn [ren_lays_ok] in Ok0. destruct (lget g0 old) as [l|] eqn:El; [|discriminate].
  destruct (DL_aget str_eqb str_spec _ _ _ _ _ DLl El) as [Hl _]. rewrite (In_mem_true _ _ Hl) in *.
  destruct Ok0 as [Fr_ Ok0]. eapply IH; [|exact Ok0|exact H0].
  apply (DL_rename str_eqb str_spec (ln g0)) with (a := old); auto.
  - apply (aget_None_notin str_eqb str_spec). exact Fr_.
  - unfold ln. gs. apply fget_fset_eq.
  - intros i Ni. unfold ln. gs. apply fget_fset_neq. exact Ni.
Qed.
Lemma rename_layer_core g olds news g' : InvS g -> ren_lays_ok g (combine olds news) -> rename_layer g olds news = Ok g' ->
  InvS g' /\ S6 g' /\ (S3b g -> S3b g') /\ (S5n g -> S5n g').
Proof.
  intros IS Ok_ H. unfold rename_layer in H.
  destruct (rename_lays g (combine olds news)) as [gb|] eqn:E; cbn [bind] in H; [|discriminate].
  destruct (rename_lays_spec _ g gb (s1_l g (i_s1 g IS)) Ok_ E) as [N [D [E1 E2]]].
  rewrite (rename_lays_complete _ g gb (s1_l g (i_s1 g IS)) Ok_ E) in H.
  assert (IS1 : InvS (fst gb)).
  { rewrite E1. destruct IS as [F P1 P1k P2 P3 P4 P5]. constructor; try assumption.
    destruct P1 as [Dn [Dc [Dl Dw]]]. split; [|split; [|split]]; assumption. }
  destruct (setup_names_establishes _ _ H) as [S [b [k Eg]]].
  split; [eapply setup_names_invS; eauto|]. split; [exact S|]. rewrite Eg, E1. split; intro X; exact X.
Qed.
Theorem rename_layer_invS g olds news g' : InvS g -> ren_lays_ok g (combine olds news) -> rename_layer g olds news = Ok g' -> InvS g'.
Proof. intros I O H. exact (proj1 (rename_layer_core g olds news g' I O H)). Qed.
Theorem rename_layer_inv g olds news g' : Inv g -> ren_lays_ok g (combine olds news) -> rename_layer g olds news = Ok g' -> Inv g'.
Proof.
  intros [IS [D1 D2 D3]] O H. destruct (rename_layer_core g olds news g' IS O H) as [A [B [C D]]].
  constructor; [exact A|constructor; auto].
Qed.

(** * rename_column *)
(** every new name is free at the moment it is assigned; in the source as it stands the [connection]
    dictionary is not re-keyed, so the renamed column must have no connection *)
Fixpoint ren_cols_ok (g : geo) (prs : list (str * str)) : Prop :=
  match prs with
  | [] => True
  | (old, new) :: r =>
      match cget g old with
      | None => True
      | Some c =>
          if mem c (clist g) then
            aget str_eqb (adel str_eqb (cdict g) old) new = None /\
            (fx_rename (fx g) = true \/ cks g c = []) /\
            ren_cols_ok (set_cdict (set_cname g (fset (cname g) c new)) (aset str_eqb (adel str_eqb (cdict g) old) new c)) r
          else True
      end
  end.
Lemma rename_cols_spec prs : forall g gb, DL (cn g) (clist g) (cdict g) -> S3a g -> ren_cols_ok g prs -> rename_cols g prs = Ok gb ->
  exists N D, fst gb = set_cdict (set_cname g N) D /\ DL (fget [] N) (clist g) D /\ snd gb = true /\
              (fx_rename (fx g) = false -> forall k, In k (klist g) -> kkey (fst gb) k = kkey g k).
Proof.
  induction prs as [|[old new] r IH]; intros g gb DLc S Ok_ H; cbn [rename_cols] in H.
  - inversion H; subst gb. exists (cname g), (cdict g). split; [reflexivity|]. split; [exact DLc|]. split; [reflexivity|]. reflexivity.
  - cbn [ren_cols_ok] in Ok_. destruct (cget g old) as [c|] eqn:E; [|discriminate].
    destruct (DL_aget str_eqb str_spec _ _ _ _ _ DLc E) as [Hc _]. rewrite (In_mem_true _ _ Hc) in *.
    destruct Ok_ as [Fr_ [Nk Ok_]]. revert H. gs. intro H.
    set (g1 := set_cdict (set_cname g (fset (cname g) c new)) (aset str_eqb (adel str_eqb (cdict g) old) new c)) in *.
    assert (DL' : DL (cn g1) (clist g1) (cdict g1)).
    { apply (DL_rename str_eqb str_spec (cn g)) with (a := old); auto.
      - apply (aget_None_notin str_eqb str_spec). exact Fr_.
      - unfold g1, cn. gs. apply fget_fset_eq.
      - intros i Ni. unfold g1, cn. gs. apply fget_fset_neq. exact Ni. }
    destruct (IH g1 gb DL' S Ok_ H) as [N [D [E1 [E2 [E3 E4]]]]]. exists N, D.
    split; [rewrite E1; reflexivity|]. split; [exact E2|]. split; [exact E3|].
    intros Fx k Hk. rewrite (E4 Fx k Hk). destruct Nk as [Nk|Nk]; [congruence|].
    assert (X : k0 g k <> c /\ k1 g k <> c).
    { split; intro X; assert (Y : In k (cks g c)) by (apply (s3_ex g S c Hc k); auto); rewrite Nk in Y; destruct Y. }
    destruct X as [X0 X1]. unfold g1, kkey, cn, k0, k1 in *. gs. rewrite !fget_fset_neq by assumption. reflexivity.
Qed.
Lemma rename_column_core g olds news g' : InvS g -> ren_cols_ok g (combine olds news) -> rename_column g olds news = Ok g' ->
  InvS g' /\ S6 g' /\ (S3b g -> S3b g') /\ (S5n g -> S5n g').
Proof.
  intros IS Ok_ H. unfold rename_column in H.
  destruct (rename_cols g (combine olds news)) as [gb|] eqn:E; cbn [bind] in H; [|discriminate].
  destruct (rename_cols_spec _ g gb (s1_c g (i_s1 g IS)) (i_s3a g IS) Ok_ E) as [N [D [E1 [E2 [E3 E4]]]]].
  rewrite E3 in H. destruct IS as [F P1 P1k P2 P3 P4 P5].
  assert (P1' : S1 (fst gb)).
  { rewrite E1. destruct P1 as [Dn [Dc [Dl Dw]]]. split; [|split; [|split]]; assumption. }
  assert (Inj : forall k k', In k (klist g) -> In k' (klist g) -> kkey (fst gb) k = kkey (fst gb) k' -> k = k').
  { intros k k' Hk Hk' Ek. apply (s1k_kkey_inj g k k' P1k Hk Hk').
    destruct (s3_ends g P3 k Hk) as [A0 A1]. destruct (s3_ends g P3 k' Hk') as [B0 B1].
    rewrite E1 in Ek. unfold kkey in Ek. inversion Ek as [[Ea Eb]].
    assert (X0 : k0 g k = k0 g k') by (apply (DL_inj str_eqb str_spec _ _ _ _ _ E2); assumption).
    assert (X1 : k1 g k = k1 g k') by (apply (DL_inj str_eqb str_spec _ _ _ _ _ E2); assumption).
    unfold kkey. rewrite X0, X1. reflexivity. }
  assert (IS2 : InvS (if fx_rename (fx g) then rekey_connections (fst gb) else fst gb)).
  { destruct (fx_rename (fx g)) eqn:Fx.
    - unfold rekey_connections. rewrite E1 in *. gs. constructor; try assumption.
      unfold S1k. gs. apply (DL_rebuild key2_eqb key2_spec); [apply (dl_nodup _ _ _ P1k)|exact Inj].
    - rewrite E1 in *. constructor; try assumption.
      unfold S1k. gs. apply DL_ext with (name := kkey g); [|exact P1k]. intros k Hk. exact (E4 eq_refl k Hk). }
  destruct (setup_names_establishes _ _ H) as [S [b [k Eg]]].
  split; [eapply setup_names_invS; eauto|]. split; [exact S|]. rewrite Eg.
  destruct (fx_rename (fx g)); rewrite E1; split; intro X; exact X.
Qed.
Theorem rename_column_invS g olds news g' : InvS g -> ren_cols_ok g (combine olds news) -> rename_column g olds news = Ok g' -> InvS g'.
Proof. intros I O H. exact (proj1 (rename_column_core g olds news g' I O H)). Qed.
Theorem rename_column_inv g olds news g' : Inv g -> ren_cols_ok g (combine olds news) -> rename_column g olds news = Ok g' -> Inv g'.
Proof.
  intros [IS [D1 D2 D3]] O H. destruct (rename_column_core g olds news g' IS O H) as [A [B [C D]]].
  constructor; [exact A|constructor; auto].
Qed.
