(** C10 -- the edit alphabet of the mulgrid model and the run of a sequence of edits. *)
From Coq Require Import Ascii String List Bool PArith NArith ZArith QArith FMapPositive Lia.
From PTBase Require Import Exn PyStr.
From P Require Import Assoc GeoState GeoEdit GeoEdit2.
Import ListNotations.
Open Scope list_scope.

Inductive op :=
  | AddNode (n : str) (p : pt) | DelNode (n : str)
  | AddCol (n : str) (ns : list str) (ce : option pt) (s : option Q) | DelCol (n : str)
  | AddConn (a b : str) | DelConn (a b : str)
  | AddLayer (n : str) (b c t : Q) | DelLayer (n : str)
  | AddWell (n : str) | DelWell (n : str)
  | RenCol (olds news : list str) | RenLayer (olds news : list str)
  | SplitCol (c n : str)
  | DelOrphans | IdentifyNbrs | LayerTops | DefaultSurface
  | SetSurface (c : str) (z : Q) | SetNumLayers (c : str)
  | SetupBlockNames | SetupConnNames
  (* compound operations; arguments after the first line are hints (iteration orders, float geometry) *)
  | CheckFix (hmiss : list key2) (hbad : list str)
  | Reduce (names : list str) (hmiss : list key2) (hbad : list str)
  | Refine (names : list str) (h : refine_hints)
  | Triangulate (n : str)
  | DecomposeCols (names : list str) (hs : list (list nat)) (hmiss : list key2)
  | RefineLayers (names : list str) (factor : positive)
  | CopyLayers (lays : list (str * (Q * Q * Q)))
  | SnapLayers (minth : Q) (names : list str) | SnapNearest (names : list str)
  | FitSurface (names : list str) (zs : list Q) (snap : Q)
  | Translate (dx dy dz : Q) | MoveNodes (ps cs : list pt).

Definition step (g : geo) (o : op) : res geo :=
  match o with
  | AddNode n p => Ok (add_node g n p)
  | DelNode n => delete_node g n
  | AddCol n ns ce s => add_column g n ns ce s
  | DelCol n => delete_column g n
  | AddConn a b => add_connection g a b
  | DelConn a b => delete_connection g (a, b)
  | AddLayer n b c t => Ok (add_layer g n b c t)
  | DelLayer n => delete_layer g n
  | AddWell n => Ok (add_well g n)
  | DelWell n => delete_well g n
  | RenCol olds news => rename_column g olds news
  | RenLayer olds news => rename_layer g olds news
  | SplitCol c n => split_column g c n
  | DelOrphans => delete_orphans g
  | IdentifyNbrs => Ok (identify_neighbours g)
  | LayerTops => identify_layer_tops g
  | DefaultSurface => set_default_surface g
  | SetSurface c z => set_surface g c z
  | SetNumLayers c => set_num_layers g c
  | SetupBlockNames => setup_block_name_index g
  | SetupConnNames => setup_block_connection_name_index g
  | CheckFix hmiss hbad => check_fix g hmiss hbad
  | Reduce names hmiss hbad => reduce g names hmiss hbad
  | Refine names h => refine g names h
  | Triangulate n => do gl <- triangulate_column g n; Ok (fst gl)
  | DecomposeCols names hs hmiss => decompose_columns g names hs hmiss
  | RefineLayers names factor => refine_layers g names factor
  | CopyLayers lays => copy_layers_from g lays
  | SnapLayers minth names => snap_columns_to_layers g minth names
  | SnapNearest names => snap_columns_to_nearest_layers g names
  | FitSurface names zs snap => fit_surface g names zs snap
  | Translate dx dy dz => Ok (translate g dx dy dz)
  | MoveNodes ps cs => move_nodes g ps cs
  end.

Fixpoint run (g : geo) (ops : list op) : res geo :=
  match ops with [] => Ok g | o :: r => do g1 <- step g o; run g1 r end.
