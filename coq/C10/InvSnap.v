(** C10 -- snap_columns_to_layers / snap_columns_to_nearest_layers: the layer counts.

    [col.num_layers -= 1] after [col.surface = toplayer.bottom] is the count of the layers below the
    new surface when the layers (below the atmosphere layer) lie one below the other: their bottoms
    strictly decrease down the list ([layers_descend]; for the nearest-layer variant also each top is
    above the bottom of the same layer and not above the bottom of the layer before,
    [layers_stacked]).  The model state does not force this (add_layer accepts any elevations), so it
    is a hypothesis on the state; add_layers / refine_layers / rectangular() build such layers. *)
From Coq Require Import Ascii String List Bool PArith NArith ZArith QArith FMapPositive Permutation Lia.
From PTBase Require Import Exn PyStr.
From P Require Import Assoc GeoState GeoEdit GeoEdit2 Inv InvNames InvSimple Sets InvCol InvConn InvDel InvRefresh InvRename InvCompound.
Import ListNotations.
Open Scope list_scope.

Lemma qltb_lt a b : qltb a b = true <-> (a < b)%Q.
Proof.
  unfold qltb. rewrite negb_true_iff. split.
  - intro H. apply Qnot_le_lt. intro X. apply Qle_bool_iff in X. congruence.
  - intro H. destruct (Qle_bool b a) eqn:E; [|reflexivity]. apply Qle_bool_iff in E. exfalso. exact (Qlt_not_le _ _ H E).
Qed.
Lemma qltb_ge a b : qltb a b = false <-> (b <= a)%Q.
Proof.
  unfold qltb. rewrite negb_false_iff. apply Qle_bool_iff.
Qed.

(** the dictionary and the list have the same length *)
Lemma DL_length {K} (name : id -> K) l d : DL name l d -> length d = length l.
Proof.
  intro D. apply Nat.le_antisymm.
  - rewrite <- (map_length fst d), <- (map_length name l). apply NoDup_incl_length; [exact (dl_keys _ _ _ D)|].
    intros k Hk. apply in_map_iff in Hk. destruct Hk as [[k' i] [<- Hi]]. cbn.
    destruct (dl_sound _ _ _ D k' i Hi) as [A <-]. apply in_map. exact A.
  - rewrite <- (map_length (fun i => (name i, i)) l). apply NoDup_incl_length.
    + apply FinFun.Injective_map_NoDup; [|exact (dl_nodup _ _ _ D)]. intros x y E. inversion E. reflexivity.
    + intros p Hp. apply in_map_iff in Hp. destruct Hp as [i [<- Hi]]. exact (dl_compl _ _ _ D i Hi).
Qed.

(** ** lists of layers whose bottoms strictly decrease *)
Fixpoint descending (f : id -> Q) (ls : list id) : Prop :=
  match ls with [] => True | l :: r => (forall l', In l' r -> (f l' < f l)%Q) /\ descending f r end.
Definition layers_descend (g : geo) : Prop := descending (lb g) (tl (llist g)).
(** ... and whose tops fit: each layer has a positive thickness and lies below the bottom of the layers before it *)
Fixpoint stacked (fb ft : id -> Q) (ls : list id) : Prop :=
  match ls with
  | [] => True
  | l :: r => (fb l < ft l)%Q /\ (forall l', In l' r -> (ft l' <= fb l)%Q) /\ stacked fb ft r
  end.
Definition layers_stacked (g : geo) : Prop := stacked (lb g) (lt g) (tl (llist g)).

Lemma stacked_descending fb ft ls : stacked fb ft ls -> descending fb ls.
Proof.
  induction ls as [|l r IH]; cbn; [auto|]. intros [A [B C]]. split; [|exact (IH C)].
  intros l' Hl'. clear IH. revert C. induction r as [|x r IHr]; [destruct Hl'|].
  cbn. intros [Ax [Bx Cx]]. destruct Hl' as [<-|Hl'].
  - eapply Qlt_le_trans; [exact Ax|]. apply B. left. reflexivity.
  - apply IHr; [|exact Hl'|exact Cx]. intros y Hy. apply B. right. exact Hy.
Qed.

Lemma filter_all {A} (p : A -> bool) l : (forall x, In x l -> p x = true) -> filter p l = l.
Proof.
  induction l as [|a r IH]; intro H; cbn; [reflexivity|]. rewrite (H a (or_introl eq_refl)). f_equal. apply IH. intros x Hx. apply H. right. exact Hx.
Qed.
Lemma nth_error_len {A} (l : list A) i x : nth_error l i = Some x -> (i < length l)%nat.
Proof. intro H. apply nth_error_Some. congruence. Qed.

(** the layer at position [i] has exactly the layers after it strictly below its bottom *)
Lemma count_below_bottom f rest : descending f rest -> forall i l, nth_error rest i = Some l ->
  length (filter (fun x => qltb (f x) (f l)) rest) = (length rest - i - 1)%nat.
Proof.
  induction rest as [|a r IH]; intros D i l H; [destruct i; discriminate|].
  destruct D as [Da Dr]. destruct i as [|j]; cbn [nth_error] in H.
  - inversion H; subst a. cbn [filter].
    assert (X : qltb (f l) (f l) = false) by (apply qltb_ge; apply Qle_refl). rewrite X.
    rewrite filter_all; [cbn; lia|]. intros x Hx. apply qltb_lt. exact (Da x Hx).
  - cbn [filter]. assert (X : qltb (f a) (f l) = false).
    { apply qltb_ge. apply Qlt_le_weak. apply Da. eapply nth_error_In; eauto. }
    rewrite X. rewrite (IH Dr j l H). pose proof (nth_error_len _ _ _ H). cbn [length]. lia.
Qed.
(** ... and the layers from itself on strictly below its top *)
Lemma count_below_top fb ft rest : stacked fb ft rest -> forall i l, nth_error rest i = Some l ->
  length (filter (fun x => qltb (fb x) (ft l)) rest) = (length rest - i)%nat.
Proof.
  induction rest as [|a r IH]; intros D i l H; [destruct i; discriminate|].
  pose proof (stacked_descending _ _ _ D) as Dd. destruct D as [Da [Ta Dr]]. destruct Dd as [Dda _].
  destruct i as [|j]; cbn [nth_error] in H.
  - inversion H; subst a. cbn [filter]. assert (X : qltb (fb l) (ft l) = true) by (apply qltb_lt; exact Da). rewrite X.
    rewrite filter_all; [cbn; lia|]. intros x Hx. apply qltb_lt. eapply Qlt_trans; [exact (Dda x Hx)|exact Da].
  - cbn [filter]. assert (X : qltb (fb a) (ft l) = false).
    { apply qltb_ge. apply Ta. eapply nth_error_In; eauto. }
    rewrite X. rewrite (IH Dr j l H). pose proof (nth_error_len _ _ _ H). cbn [length]. lia.
Qed.

Lemma filter_length_le' {A} (p : A -> bool) l : (length (filter p l) <= length l)%nat.
Proof. induction l as [|a r IH]; cbn; [lia|]. destruct (p a); cbn; lia. Qed.
Lemma pyindex_pos {A} (i : Z) (s : list A) x : (0 <= i)%Z -> pyindex i s = Some x ->
  nth_error s (Z.to_nat i) = Some x /\ (i < Z.of_nat (length s))%Z.
Proof.
  unfold pyindex. cbv zeta. intros Hi H. destruct (i <? 0)%Z eqn:E1; [apply Z.ltb_lt in E1; lia|].
  cbn [orb] in H. rewrite E1 in H. cbn [orb] in H. destruct (Z.of_nat (length s) <=? i)%Z eqn:E2; [discriminate|]. apply Z.leb_gt in E2. auto.
Qed.
(** the surface layer of a column whose layer count is right: its position in the list *)
Lemma surface_layer_position g c l : S1 g -> S5n g -> In c (clist g) -> column_surface_layer g c = Ok l ->
  exists l0 rest i, llist g = l0 :: rest /\ nth_error rest i = Some l /\ cl g c = Z.of_nat (length rest - i).
Proof.
  intros P D Hc H. unfold column_surface_layer in H.
  rewrite (DL_length (ln g) _ _ (s1_l g P)) in H.
  destruct (pyindex _ _) as [l'|] eqn:Ep; [|discriminate]. inversion H; subst l'. clear H.
  specialize (D c Hc). unfold count_layers in D.
  destruct (llist g) as [|l0 rest] eqn:El.
  { cbn in D. inversion D as [E]. rewrite <- E in Ep. cbn in Ep. discriminate. }
  cbn [tl] in D.
  assert (K : exists k, cl g c = Z.of_nat k /\ (k <= length rest)%nat).
  { destruct rest as [|x y]; [exists 0%nat; inversion D; split; [reflexivity|cbn; lia]|].
    destruct (cs g c) as [s|]; [|discriminate]. exists (length (filter (fun l => qltb (lb g l) s) (x :: y))). split; [inversion D; reflexivity|apply filter_length_le']. }
  destruct K as [k [Ek Kle]]. rewrite Ek in Ep. cbn [length] in Ep.
  apply pyindex_pos in Ep; [|lia]. destruct Ep as [En Lt]. cbn [length] in Lt.
  assert (Ej : Z.to_nat (Z.of_nat (S (length rest)) - Z.of_nat k) = S (length rest - k)) by lia.
  rewrite Ej in En. cbn [nth_error] in En.
  exists l0, rest, (length rest - k)%nat. split; [reflexivity|]. split; [exact En|]. rewrite Ek. f_equal. lia.
Qed.

(** counting for a surface on the state with some surfaces / counts changed: the layers are the same *)
Lemma count_layers_frame g m1 m2 s : count_layers (set_cnl (set_csurf g m1) m2) s = count_layers g s.
Proof. reflexivity. Qed.

Lemma lookup_cols_listed g names : S1 g -> forall cols, lookup_cols g names = Ok cols -> forall c, In c cols -> In c (clist g).
Proof.
  intro P. induction names as [|n r IH]; intros cols H c Hc; cbn [lookup_cols] in H.
  - inversion H; subst. destruct Hc.
  - destruct (cget g n) as [x|] eqn:En; [|discriminate]. destruct (lookup_cols g r) as [l|]; cbn [bind] in H; [|discriminate].
    inversion H; subst cols. destruct Hc as [<-|Hc]; [exact (proj1 (s1_cget g n x P En))|exact (IH l eq_refl c Hc)].
Qed.

(** one snapped column *)
Lemma snap_one_S5n g c l : S1 g -> S5n g -> layers_descend g -> In c (clist g) -> column_surface_layer g c = Ok l ->
  S5n (set_cnl (set_csurf g (fset (csurf g) c (Some (lb g l)))) (fset (cnl g) c (cl g c - 1)%Z)).
Proof.
  intros P D Ld Hc H. destruct (surface_layer_position g c l P D Hc H) as [l0 [rest [i [El [En Ecl]]]]].
  intros c' Hc'. change (In c' (clist g)) in Hc'. rewrite count_layers_frame. unfold cs, cl. gs.
  destruct (Pos.eq_dec c' c) as [->|Nc].
  - rewrite !fget_fset_eq. unfold count_layers. rewrite El. cbn [tl].
    destruct rest as [|x y] eqn:Er; [destruct i; discriminate|]. rewrite <- Er in *.
    unfold layers_descend in Ld. rewrite El in Ld. cbn [tl] in Ld.
    rewrite (count_below_bottom (lb g) rest Ld i l En). f_equal. fold (cl g c). rewrite Ecl.
    pose proof (nth_error_len _ _ _ En). lia.
  - rewrite !fget_fset_neq by exact Nc. exact (D c' Hc').
Qed.
Lemma snap_loop_S5n cols : forall g minth g', S1 g -> S5n g -> layers_descend g -> (forall c, In c cols -> In c (clist g)) ->
  snap_loop g cols minth = Ok g' -> S5n g'.
Proof.
  induction cols as [|c r IH]; intros g minth g' P D Ld Hin H; cbn [snap_loop] in H.
  - inversion H; subst; exact D.
  - destruct (column_surface_layer g c) as [l|] eqn:E; cbn [bind] in H; [|discriminate].
    destruct (cs g c) as [s|]; [|discriminate]. destruct (qltb _ _).
    + eapply IH; [| | | |exact H].
      * exact P.
      * apply snap_one_S5n; auto. apply Hin. left. reflexivity.
      * exact Ld.
      * intros x Hx. apply Hin. right. exact Hx.
    + eapply IH; [exact P|exact D|exact Ld| |exact H]. intros x Hx. apply Hin. right. exact Hx.
Qed.

(** snap_columns_to_layers keeps the whole invariant on layers that lie one below the other *)
Theorem snap_columns_to_layers_inv g minth names g' : Inv g -> layers_descend g ->
  snap_columns_to_layers g minth names = Ok g' -> Inv g'.
Proof.
  intros [IS [D1 D2 D3]] Ld H.
  destruct (snap_columns_to_layers_partial g minth names g' IS D1 H) as [IS' [D1' D3']].
  constructor; [exact IS'|]. unfold snap_columns_to_layers in H. destruct (qltb 0 minth) eqn:Em.
  2:{ inversion H; subst g'. constructor; assumption. }
  constructor; [exact D1'| |exact (D3' eq_refl)].
  destruct (match names with [] => Ok (clist g) | _ :: _ => lookup_cols g names end) as [cols|] eqn:Ec; cbn [bind] in H; [|discriminate].
  destruct (snap_loop g cols minth) as [g1|] eqn:E; cbn [bind] in H; [|discriminate].
  assert (Hin : forall c, In c cols -> In c (clist g)).
  { destruct names as [|n r]; [inversion Ec; subst; auto|]. apply (lookup_cols_listed g (n :: r) (i_s1 g IS) cols Ec). }
  pose proof (snap_loop_S5n cols g minth g1 (i_s1 g IS) D2 Ld Hin E) as D2'.
  destruct (setup_names_establishes _ _ H) as [_ [b [k ->]]]. exact D2'.
Qed.

(** ** nearest layer *)
Lemma snap_nearest_up_S5n g c l : S1 g -> S5n g -> layers_stacked g -> In c (clist g) -> column_surface_layer g c = Ok l ->
  S5n (set_csurf g (fset (csurf g) c (Some (lt g l)))).
Proof.
  intros P D Ls Hc H. destruct (surface_layer_position g c l P D Hc H) as [l0 [rest [i [El [En Ecl]]]]].
  intros c' Hc'. change (In c' (clist g)) in Hc'. change (count_layers (set_csurf g ?m) ?s) with (count_layers g s). unfold cs, cl. gs.
  destruct (Pos.eq_dec c' c) as [->|Nc].
  - rewrite !fget_fset_eq. unfold count_layers. rewrite El. cbn [tl].
    destruct rest as [|x y] eqn:Er; [destruct i; discriminate|]. rewrite <- Er in *.
    unfold layers_stacked in Ls. rewrite El in Ls. cbn [tl] in Ls.
    rewrite (count_below_top (lb g) (lt g) rest Ls i l En). f_equal. fold (cl g c). rewrite Ecl. reflexivity.
  - rewrite !fget_fset_neq by exact Nc. exact (D c' Hc').
Qed.
Lemma snap_nearest_loop_S5n cols : forall g g', S1 g -> S5n g -> layers_stacked g -> (forall c, In c cols -> In c (clist g)) ->
  snap_nearest_loop g cols = Ok g' -> S5n g'.
Proof.
  induction cols as [|c r IH]; intros g g' P D Ls Hin H; cbn [snap_nearest_loop] in H.
  - inversion H; subst; exact D.
  - destruct (column_surface_layer g c) as [l|] eqn:E; cbn [bind] in H; [|discriminate].
    destruct (cs g c) as [s|]; [|discriminate]. destruct (qltb _ _).
    + eapply IH; [| | | |exact H].
      * exact P.
      * apply snap_nearest_up_S5n; auto. apply Hin. left. reflexivity.
      * exact Ls.
      * intros x Hx. apply Hin. right. exact Hx.
    + eapply IH; [| | | |exact H].
      * exact P.
      * apply snap_one_S5n; auto; [apply stacked_descending with (ft := lt g); exact Ls|apply Hin; left; reflexivity].
      * exact Ls.
      * intros x Hx. apply Hin. right. exact Hx.
Qed.
Theorem snap_columns_to_nearest_layers_inv g names g' : Inv g -> layers_stacked g ->
  snap_columns_to_nearest_layers g names = Ok g' -> Inv g'.
Proof.
  intros [IS [D1 D2 D3]] Ls H.
  destruct (snap_columns_to_nearest_layers_partial g names g' IS D1 H) as [IS' [D1' D3']].
  constructor; [exact IS'|]. constructor; [exact D1'| |exact D3'].
  unfold snap_columns_to_nearest_layers in H.
  destruct (match names with [] => Ok (clist g) | _ :: _ => lookup_cols g names end) as [cols|] eqn:Ec; cbn [bind] in H; [|discriminate].
  destruct (snap_nearest_loop g cols) as [g1|] eqn:E; cbn [bind] in H; [|discriminate].
  assert (Hin : forall c, In c cols -> In c (clist g)).
  { destruct names as [|n r]; [inversion Ec; subst; auto|]. apply (lookup_cols_listed g (n :: r) (i_s1 g IS) cols Ec). }
  pose proof (snap_nearest_loop_S5n cols g g1 (i_s1 g IS) D2 Ls Hin E) as D2'.
  destruct (setup_names_establishes _ _ H) as [_ [b [k ->]]]. exact D2'.
Qed.

(** ** fit_surface: surfaces assigned (each with its layer count), then snapped, then the name lists set up *)
Lemma snap_columns_to_layers_M g minth names g' : InvS g -> S3b g -> S5n g -> layers_descend g ->
  snap_columns_to_layers g minth names = Ok g' -> InvS g' /\ S3b g' /\ S5n g'.
Proof.
  intros IS D1 D2 Ld H.
  destruct (snap_columns_to_layers_partial g minth names g' IS D1 H) as [IS' [D1' _]].
  split; [exact IS'|]. split; [exact D1'|]. unfold snap_columns_to_layers in H. destruct (qltb 0 minth) eqn:Em.
  2:{ inversion H; subst g'. exact D2. }
  destruct (match names with [] => Ok (clist g) | _ :: _ => lookup_cols g names end) as [cols|] eqn:Ec; cbn [bind] in H; [|discriminate].
  destruct (snap_loop g cols minth) as [g1|] eqn:E; cbn [bind] in H; [|discriminate].
  assert (Hin : forall c, In c cols -> In c (clist g)).
  { destruct names as [|n r]; [inversion Ec; subst; auto|]. apply (lookup_cols_listed g (n :: r) (i_s1 g IS) cols Ec). }
  pose proof (snap_loop_S5n cols g minth g1 (i_s1 g IS) D2 Ld Hin E) as D2'.
  destruct (setup_names_establishes _ _ H) as [_ [b [k ->]]]. exact D2'.
Qed.
Lemma set_surfaces_M cols : forall zs g g', InvS g -> S3b g -> S5n g -> layers_descend g ->
  set_surfaces g cols zs = Ok g' ->
  InvS g' /\ S3b g' /\ S5n g' /\ layers_descend g'.
Proof.
  induction cols as [|c r IH]; intros zs g g' IS D1 D2 Ld H; cbn [set_surfaces] in H; [inversion H; subst; auto|].
  destruct zs as [|z zr]; [inversion H; subst; auto|].
  match type of H with (do g1 <- ?X; _) = _ => destruct X as [g1|] eqn:E end; cbn [bind] in H; [|discriminate].
  assert (D2' : S5n g1).
  { apply (set_column_num_layers_S5n (set_csurf g (fset (csurf g) c (Some z))) c g1); [|exact E].
    intros c' Hc' N. specialize (D2 c' Hc'). unfold cs, cl in *. gs. rewrite fget_fset_neq by exact N. exact D2. }
  destruct (set_column_num_layers_closed _ c g1 E) as [n [_ Eg1]]. subst g1.
  match type of H with set_surfaces ?G _ _ = _ => exact (IH zr G g' (invS_set_cnl _ _ (invS_set_csurf _ _ IS)) D1 D2' Ld H) end.
Qed.
Theorem fit_surface_inv g names zs snap g' : Inv g -> layers_descend g -> fit_surface g names zs snap = Ok g' -> Inv g'.
Proof.
  intros [IS [D1 D2 D3]] Ld H. unfold fit_surface in H.
  destruct (match names with [] => Ok (clist g) | _ :: _ => lookup_cols g names end) as [cols|]; cbn [bind] in H; [|discriminate].
  destruct (set_surfaces g cols zs) as [g1|] eqn:E1; cbn [bind] in H; [|discriminate].
  destruct (set_surfaces_M cols zs g g1 IS D1 D2 Ld E1) as [IS1 [D11 [D21 Ld1]]].
  destruct (snap_columns_to_layers g1 snap names) as [g2|] eqn:E2; cbn [bind] in H; [|discriminate].
  destruct (snap_columns_to_layers_M g1 snap names g2 IS1 D11 D21 Ld1 E2) as [IS2 [D12 D22]].
  eapply setup_names_inv; eauto.
Qed.
Theorem fit_surface_invS g names zs snap g' : InvS g -> fit_surface g names zs snap = Ok g' -> InvS g'.
Proof.
  intros IS H. unfold fit_surface in H.
  destruct (match names with [] => Ok (clist g) | _ :: _ => lookup_cols g names end) as [cols|]; cbn [bind] in H; [|discriminate].
  destruct (set_surfaces g cols zs) as [g1|] eqn:E1; cbn [bind] in H; [|discriminate].
  assert (IS1 : InvS g1).
  { clear - IS E1. revert zs g IS E1. induction cols as [|c r IH]; intros zs g IS H; cbn [set_surfaces] in H; [inversion H; subst; auto|].
    destruct zs as [|z zr]; [inversion H; subst; auto|].
    match type of H with (do g1 <- ?X; _) = _ => destruct X as [g2|] eqn:E end; cbn [bind] in H; [|discriminate].
    destruct (set_column_num_layers_closed _ c g2 E) as [n [_ ->]]. refine (IH zr _ _ H). apply invS_set_cnl, invS_set_csurf, IS. }
  destruct (snap_columns_to_layers g1 snap names) as [g2|] eqn:E2; cbn [bind] in H; [|discriminate].
  eapply setup_names_invS; [|exact H]. eapply snap_columns_to_layers_invS; eauto.
Qed.
