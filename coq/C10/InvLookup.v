(** C10 -- more of the statement's words read off the invariant, for every state: "the by-name lookups and ordered
    lists agree" (every listed object is what the lookup under its current name returns -- connections under the pair of the
    current names of their columns --, and every lookup returns a listed object of that name), "each node knows exactly
    the columns that use it" seen from the column, and: two listed connections with the same ends are one connection. *)
From Coq Require Import Ascii String List Bool PArith NArith ZArith QArith FMapPositive Permutation.
From PTBase Require Import Exn PyStr.
From P Require Import Assoc GeoState GeoEdit Inv.
Import ListNotations.
Open Scope list_scope.

Lemma lookups_find_listed g : InvS g ->
  (forall n, In n (nlist g) -> nget g (nn g n) = Some n) /\
  (forall c, In c (clist g) -> cget g (cn g c) = Some c) /\
  (forall k, In k (klist g) -> kget g (cn g (k0 g k), cn g (k1 g k)) = Some k) /\
  (forall l, In l (llist g) -> lget g (ln g l) = Some l) /\
  (forall w, In w (wlist g) -> wget g (wn g w) = Some w).
Proof.
  intro I. pose proof (i_s1 g I) as S. pose proof (i_s1k g I) as Sk.
  split; [|split; [|split; [|split]]].
  - intros n H. exact (DL_aget_name str_eqb str_spec _ _ _ _ (s1_n g S) H).
  - intros c H. exact (DL_aget_name str_eqb str_spec _ _ _ _ (s1_c g S) H).
  - intros k H. exact (DL_aget_name key2_eqb key2_spec _ _ _ _ Sk H).
  - intros l H. exact (DL_aget_name str_eqb str_spec _ _ _ _ (s1_l g S) H).
  - intros w H. exact (DL_aget_name str_eqb str_spec _ _ _ _ (s1_w g S) H).
Qed.

Lemma lookups_return_listed g : InvS g ->
  (forall s n, nget g s = Some n -> In n (nlist g) /\ nn g n = s) /\
  (forall s c, cget g s = Some c -> In c (clist g) /\ cn g c = s) /\
  (forall key k, kget g key = Some k -> In k (klist g) /\ (cn g (k0 g k), cn g (k1 g k)) = key) /\
  (forall s l, lget g s = Some l -> In l (llist g) /\ ln g l = s) /\
  (forall s w, wget g s = Some w -> In w (wlist g) /\ wn g w = s).
Proof.
  intro I. pose proof (i_s1 g I) as S. pose proof (i_s1k g I) as Sk.
  split; [|split; [|split; [|split]]].
  - intros s n H. exact (s1_nget g s n S H).
  - intros s c H. exact (s1_cget g s c S H).
  - intros key k H. exact (s1k_kget g key k Sk H).
  - intros s l H. exact (s1_lget g s l S H).
  - intros s w H. exact (s1_wget g s w S H).
Qed.

(** a column's nodes are listed nodes that know the column *)
Lemma column_nodes_know_column g c n : InvS g -> In c (clist g) -> In n (cns g c) -> In n (nlist g) /\ In c (ncs g n).
Proof.
  intros I Hc Hn. pose proof (i_s2 g I) as S2'. pose proof (s2_in g S2' c Hc n Hn) as Hl.
  split; [exact Hl|]. apply (proj2 (s2_ex g S2' n Hl c)). split; assumption.
Qed.

(** two listed connections with the same first and the same second column are the same connection *)
Lemma same_ends_same_connection g k k' : InvS g -> In k (klist g) -> In k' (klist g) ->
  k0 g k = k0 g k' -> k1 g k = k1 g k' -> k = k'.
Proof.
  intros I H H' E0 E1. apply (s1k_kkey_inj g k k' (i_s1k g I) H H'). unfold kkey. rewrite E0, E1. reflexivity.
Qed.
