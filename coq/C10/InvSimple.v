(** C10 -- nodes, layers and wells: add_node, delete_node, delete_orphans, add_layer, delete_layer,
    add_well, delete_well, identify_layer_tops. *)
From Coq Require Import Ascii String List Bool PArith NArith ZArith QArith FMapPositive Permutation Lia.
From PTBase Require Import Exn PyStr.
From P Require Import Assoc GeoState GeoEdit Inv InvNames.
Import ListNotations.
Open Scope list_scope.

Lemma in_snoc {A} (l : list A) a x : In x (l ++ [a]) <-> In x l \/ x = a.
Proof. rewrite in_app_iff. cbn. intuition. Qed.

(** ** fresh objects do not disturb the geometry *)
Ltac fresh_neq F H := first [apply (fr_n _ F) in H|apply (fr_c _ F) in H|apply (fr_k _ F) in H|apply (fr_l _ F) in H|apply (fr_w _ F) in H]; lia.

Lemma agree_new_node g n p : Fr g -> agree g (new_node g n p).
Proof.
  intro F. constructor; try reflexivity; try (intros; repeat split; reflexivity).
  - cbn. lia.
  - intros i H. unfold new_node. gsu. rewrite !fget_fset_neq by fresh_neq F H. auto.
Qed.
Lemma agree_new_layer g n b c t : Fr g -> agree g (new_layer g n b c t).
Proof.
  intro F. constructor; try reflexivity; try (intros; repeat split; reflexivity).
  - cbn. lia.
  - intros i H. unfold new_layer. gsu. rewrite !fget_fset_neq by fresh_neq F H. auto.
Qed.
Lemma agree_new_well g n : Fr g -> agree g (new_well g n).
Proof.
  intro F. constructor; try reflexivity; try (intros; repeat split; reflexivity).
  - cbn. lia.
  - intros i H. unfold new_well. gsu. rewrite !fget_fset_neq by fresh_neq F H. auto.
Qed.

(** ** add_node *)
Lemma add_node_obj_invS g i : InvS g -> ~ In i (nlist g) -> (i < next g)%positive -> ncs g i = [] -> InvS (add_node_obj g i).
Proof.
  intros I Hi Hlt Hc. unfold add_node_obj. destruct (nget g (nn g i)) eqn:E; [exact I|].
  destruct I as [F P1 P1k P2 P3 P4 P5].
  constructor; try assumption.
  - destruct F as [F1 [F2 [F3 [F4 F5]]]]. unfold Fr. gs. repeat split; try assumption.
    intros x Hx. apply in_snoc in Hx. destruct Hx as [Hx| ->]; auto.
  - destruct P1 as [Dn [Dc [Dl Dw]]]. split; [|split; [|split]]; try assumption.
    apply (DL_add_new str_eqb str_spec (nn g)); auto.
  - destruct P2 as [Q1 [Q2 Q3]]. split; [|split]; gs.
    + intros c Hc' n Hn. apply in_snoc. left. exact (Q1 c Hc' n Hn).
    + intros n Hn. apply in_snoc in Hn. destruct Hn as [Hn| ->]; [exact (Q2 n Hn)|]. change (NoDup (ncs g i)). rewrite Hc. constructor.
    + intros n Hn c. apply in_snoc in Hn. destruct Hn as [Hn| ->]; [exact (Q3 n Hn c)|].
      change (In c (ncs g i) <-> In c (clist g) /\ In i (cns g c)). rewrite Hc. split; [intros []|].
      intros [Hcl Hm]. apply Hi. exact (Q1 c Hcl i Hm).
Qed.
Lemma add_node_obj_invD g i : InvD g -> InvD (add_node_obj g i).
Proof. intros [D1 D2 D3]. unfold add_node_obj. destruct (nget g (nn g i)); constructor; assumption. Qed.
Theorem add_node_invS g n p : InvS g -> InvS (add_node g n p).
Proof.
  intro I. unfold add_node. pose proof (i_fr g I) as F.
  apply add_node_obj_invS.
  - apply (agree_InvS g); [apply agree_new_node; exact F|exact I].
  - intro H. change (In (next g) (nlist g)) in H. apply (fr_n g F) in H. lia.
  - cbn. lia.
  - unfold new_node. gsu. apply fget_fset_eq.
Qed.
Theorem add_node_inv g n p : Inv g -> Inv (add_node g n p).
Proof.
  intros [IS ID]. constructor; [apply add_node_invS; exact IS|].
  unfold add_node. apply add_node_obj_invD. apply (agree_InvD g); [apply agree_new_node; apply IS|exact ID].
Qed.

(** ** delete_node: the node must not be used by a column *)
Definition node_unused (g : geo) (name : str) : Prop :=
  forall i, nget g name = Some i -> ncs g i = [].
Theorem delete_node_invS g name g' : InvS g -> node_unused g name -> delete_node g name = Ok g' -> InvS g'.
Proof.
  intros I U H. unfold delete_node in H. destruct (nget g name) as [i|] eqn:E; [|discriminate].
  revert H. gs. destruct (mem i (nlist g)) eqn:M; [|discriminate]. intro H. inversion H; subst g'; clear H.
  apply mem_In in M. specialize (U i E).
  destruct I as [F P1 P1k P2 P3 P4 P5].
  constructor; try assumption.
  - destruct F as [F1 [F2 [F3 [F4 F5]]]]. unfold Fr. gs. repeat split; try assumption.
    intros x Hx. apply lremove_incl in Hx. auto.
  - destruct P1 as [Dn [Dc [Dl Dw]]]. split; [|split; [|split]]; try assumption.
    apply (DL_del str_eqb str_spec (nn g)); assumption.
  - destruct P1 as [Dn _]. destruct P2 as [Q1 [Q2 Q3]]. split; [|split]; gs.
    + intros c Hc n Hn. apply In_lremove; [apply Dn|]. split; [exact (Q1 c Hc n Hn)|].
      intros ->. assert (X : In c (ncs g i)) by (apply (Q3 i M c); auto). rewrite U in X. destruct X.
    + intros n Hn. apply lremove_incl in Hn. exact (Q2 n Hn).
    + intros n Hn c. apply lremove_incl in Hn. exact (Q3 n Hn c).
Qed.
Lemma delete_node_invD g name g' : InvD g -> delete_node g name = Ok g' -> InvD g'.
Proof.
  intros [D1 D2 D3] H. unfold delete_node in H. destruct (nget g name) as [i|]; [|discriminate].
  revert H. gs. destruct (mem i (nlist g)); [|discriminate]. intro H. inversion H; subst g'. constructor; assumption.
Qed.
Theorem delete_node_inv g name g' : Inv g -> node_unused g name -> delete_node g name = Ok g' -> Inv g'.
Proof. intros [IS ID] U H. constructor; [eapply delete_node_invS; eauto|eapply delete_node_invD; eauto]. Qed.

(** ** delete_orphans: no precondition *)
Lemma delete_nodes_invS names : forall g g', InvS g ->
  (forall n i, In n names -> nget g n = Some i -> ncs g i = []) -> delete_nodes g names = Ok g' -> InvS g'.
Proof.
  induction names as [|n r IH]; cbn [delete_nodes]; intros g g' I U H; [inversion H; subst; exact I|].
  destruct (delete_node g n) as [g1|] eqn:E; cbn [bind] in H; [|discriminate].
  assert (I1 : InvS g1).
  { eapply delete_node_invS; [exact I| |exact E]. intros i Hi. exact (U n i (or_introl eq_refl) Hi). }
  apply (IH g1 g' I1); [|exact H].
  intros m j Hm Hj. unfold delete_node in E. destruct (nget g n) as [i|] eqn:En; [|discriminate].
  revert E. gs. destruct (mem i (nlist g)); [|discriminate]. intro E. inversion E; subst g1; clear E.
  revert Hj. unfold nget. gs. rewrite (aget_adel str_eqb str_spec) by (apply (dl_keys _ _ _ (s1_n g (i_s1 g I)))).
  destruct (str_eqb m n); [discriminate|]. intro Hj. change (ncs g j = []). exact (U m j (or_intror Hm) Hj).
Qed.
Lemma delete_nodes_invD names : forall g g', InvD g -> delete_nodes g names = Ok g' -> InvD g'.
Proof.
  induction names as [|n r IH]; cbn [delete_nodes]; intros g g' I H; [inversion H; subst; exact I|].
  destruct (delete_node g n) as [g1|] eqn:E; cbn [bind] in H; [|discriminate].
  eapply IH; [|exact H]. eapply delete_node_invD; eauto.
Qed.
Theorem delete_orphans_invS g g' : InvS g -> delete_orphans g = Ok g' -> InvS g'.
Proof.
  intros I H. unfold delete_orphans in H. eapply delete_nodes_invS; [exact I| |exact H].
  intros n i Hn Hi. apply in_map_iff in Hn. destruct Hn as [j [Hj Ho]]. unfold orphans in Ho. apply filter_In in Ho.
  destruct Ho as [Hjl Hjo]. pose proof (s1_n g (i_s1 g I)) as Dn.
  assert (X : nget g n = Some j). { rewrite <- Hj. unfold nget. apply (DL_aget_name str_eqb str_spec (nn g) (nlist g) (ndict g)); assumption. }
  rewrite X in Hi. inversion Hi; subst i. destruct (ncs g j); [reflexivity|discriminate].
Qed.
Theorem delete_orphans_inv g g' : Inv g -> delete_orphans g = Ok g' -> Inv g'.
Proof.
  intros [IS ID] H. constructor; [eapply delete_orphans_invS; eauto|]. unfold delete_orphans in H. eapply delete_nodes_invD; eauto.
Qed.

(** ** wells *)
Lemma add_well_obj_invS g w : InvS g -> ~ In w (wlist g) -> (w < next g)%positive -> InvS (add_well_obj g w).
Proof.
  intros I Hi Hlt. unfold add_well_obj. destruct (wget g (wn g w)) eqn:E; [exact I|].
  destruct I as [F P1 P1k P2 P3 P4 P5].
  constructor; try assumption.
  - destruct F as [F1 [F2 [F3 [F4 F5]]]]. unfold Fr. gs. repeat split; try assumption.
    intros x Hx. apply in_snoc in Hx. destruct Hx as [Hx| ->]; auto.
  - destruct P1 as [Dn [Dc [Dl Dw]]]. split; [|split; [|split]]; try assumption.
    apply (DL_add_new str_eqb str_spec (wn g)); auto.
Qed.
Theorem add_well_invS g n : InvS g -> InvS (add_well g n).
Proof.
  intro I. unfold add_well. pose proof (i_fr g I) as F.
  apply add_well_obj_invS.
  - apply (agree_InvS g); [apply agree_new_well; exact F|exact I].
  - intro H. change (In (next g) (wlist g)) in H. apply (fr_w g F) in H. lia.
  - cbn. lia.
Qed.
Theorem add_well_inv g n : Inv g -> Inv (add_well g n).
Proof.
  intros [IS ID]. constructor; [apply add_well_invS; exact IS|].
  assert (X : InvD (new_well g n)) by (apply (agree_InvD g); [apply agree_new_well; apply IS|exact ID]).
  destruct X as [D1 D2 D3]. unfold add_well, add_well_obj. destruct (wget _ _); constructor; assumption.
Qed.
Theorem delete_well_invS g name g' : InvS g -> delete_well g name = Ok g' -> InvS g'.
Proof.
  intros I H. unfold delete_well in H. destruct (wget g name) as [i|] eqn:E; [|discriminate].
  revert H. gs. destruct (mem i (wlist g)) eqn:M; [|discriminate]. intro H. inversion H; subst g'; clear H.
  destruct I as [F P1 P1k P2 P3 P4 P5].
  constructor; try assumption.
  - destruct F as [F1 [F2 [F3 [F4 F5]]]]. unfold Fr. gs. repeat split; try assumption.
    intros x Hx. apply lremove_incl in Hx. auto.
  - destruct P1 as [Dn [Dc [Dl Dw]]]. split; [|split; [|split]]; try assumption.
    apply (DL_del str_eqb str_spec (wn g)); assumption.
Qed.
Theorem delete_well_inv g name g' : Inv g -> delete_well g name = Ok g' -> Inv g'.
Proof.
  intros [IS [D1 D2 D3]] H. constructor; [eapply delete_well_invS; eauto|].
  unfold delete_well in H. destruct (wget g name) as [i|]; [|discriminate].
  revert H. gs. destruct (mem i (wlist g)); [|discriminate]. intro H. inversion H; subst g'. constructor; assumption.
Qed.

(** ** layers: the object graph stays consistent; the derived data (layer counts, name lists) is
    only kept when nothing depends on the layer (no column, no atmosphere block) *)
Lemma add_layer_obj_invS g l : InvS g -> ~ In l (llist g) -> (l < next g)%positive -> InvS (add_layer_obj g l).
Proof.
  intros I Hi Hlt. unfold add_layer_obj. destruct (lget g (ln g l)) eqn:E; [exact I|].
  destruct I as [F P1 P1k P2 P3 P4 P5].
  constructor; try assumption.
  - destruct F as [F1 [F2 [F3 [F4 F5]]]]. unfold Fr. gs. repeat split; try assumption.
    intros x Hx. apply in_snoc in Hx. destruct Hx as [Hx| ->]; auto.
  - destruct P1 as [Dn [Dc [Dl Dw]]]. split; [|split; [|split]]; try assumption.
    apply (DL_add_new str_eqb str_spec (ln g)); auto.
Qed.
Theorem add_layer_invS g n b c t : InvS g -> InvS (add_layer g n b c t).
Proof.
  intro I. unfold add_layer. pose proof (i_fr g I) as F.
  apply add_layer_obj_invS.
  - apply (agree_InvS g); [apply agree_new_layer; exact F|exact I].
  - intro H. change (In (next g) (llist g)) in H. apply (fr_l g F) in H. lia.
  - cbn. lia.
Qed.
Theorem delete_layer_invS g name g' : InvS g -> delete_layer g name = Ok g' -> InvS g'.
Proof.
  intros I H. unfold delete_layer in H. destruct (lget g name) as [i|] eqn:E; [|discriminate].
  revert H. gs. destruct (mem i (llist g)) eqn:M; [|discriminate]. intro H. inversion H; subst g'; clear H.
  destruct I as [F P1 P1k P2 P3 P4 P5].
  constructor; try assumption.
  - destruct F as [F1 [F2 [F3 [F4 F5]]]]. unfold Fr. gs. repeat split; try assumption.
    intros x Hx. apply lremove_incl in Hx. auto.
  - destruct P1 as [Dn [Dc [Dl Dw]]]. split; [|split; [|split]]; try assumption.
    apply (DL_del str_eqb str_spec (ln g)); assumption.
Qed.

(** with no column and no atmosphere block nothing derived depends on the layers *)
Definition no_dependants (g : geo) : Prop := clist g = [] /\ (2 <= atm g)%nat.
Lemma fresh_no_dependants g : no_dependants g -> fresh_bnl g = Ok [] /\ fresh_bcl g = Ok [].
Proof.
  intros [Hc Ha]. unfold fresh_bnl, fresh_bcl. destruct (atm g) as [|[|a]]; try lia.
  assert (L : forall ls, mapM (fun lay => do cols <- layer_cols g lay; Ok (map (fun c => block_name g (ln g lay) (cn g c)) cols)) ls = Ok (map (fun _ => []) ls)).
  { induction ls as [|x r IH]; cbn [mapM map]; [reflexivity|]. unfold layer_cols at 1. rewrite Hc. cbn [filterM bind map]. rewrite IH. reflexivity. }
  assert (C : forall ls, concat (map (fun _ : id => @nil str) ls) = []) by (induction ls; cbn; auto).
  assert (K : forall ls first prev, conn_names_from g first prev ls = Ok []).
  { induction ls as [|x r IH]; intros first prev; cbn [conn_names_from]; [reflexivity|].
    unfold layer_cols. rewrite Hc. cbn [filterM bind]. unfold vertical_names. cbn [mapM bind concat].
    rewrite IH. cbn [bind]. unfold horizontal_names.
    assert (Fl : filter (fun k => mem (k0 g k) [] && mem (k1 g k) []) (klist g) = []).
    { induction (klist g) as [|k kr IHk]; cbn; auto. }
    rewrite Fl. reflexivity. }
  split.
  - destruct (length (ldict g) =? 0)%nat; [reflexivity|]. cbn [bind]. rewrite L. cbn [bind]. rewrite C. reflexivity.
  - destruct (llist g); [reflexivity|apply K].
Qed.
Lemma invD_no_dependants g : no_dependants g -> bnl g = [] -> bcl g = [] -> InvD g.
Proof.
  intros N Hb Hk. destruct (fresh_no_dependants g N) as [B K]. destruct N as [Hc Ha]. constructor.
  - split; intros c H; rewrite Hc in H; destruct H.
  - intros c H. rewrite Hc in H. destruct H.
  - unfold S6. rewrite Hb, Hk. auto.
Qed.
Lemma no_dependants_lists g : no_dependants g -> S6 g -> bnl g = [] /\ bcl g = [].
Proof.
  intros N [B K]. destruct (fresh_no_dependants g N) as [B' K']. rewrite B' in B. rewrite K' in K.
  inversion B. inversion K. auto.
Qed.
Theorem add_layer_inv g n b c t : Inv g -> no_dependants g -> Inv (add_layer g n b c t).
Proof.
  intros I N. constructor; [apply add_layer_invS; apply I|].
  destruct (no_dependants_lists g N (i_s6 g (i_d g I))) as [Hb Hk]. destruct N as [Hc Ha].
  apply invD_no_dependants; [split|..]; unfold add_layer, add_layer_obj; destruct (lget _ _); assumption.
Qed.
Theorem delete_layer_inv g name g' : Inv g -> no_dependants g -> delete_layer g name = Ok g' -> Inv g'.
Proof.
  intros I N H. constructor; [eapply delete_layer_invS; [apply I|exact H]|].
  assert (X : clist g' = clist g /\ atm g' = atm g /\ bnl g' = bnl g /\ bcl g' = bcl g).
  { unfold delete_layer in H. destruct (lget g name); [|discriminate]. revert H. gs. destruct (mem _ _); [|discriminate].
    intro H; inversion H; subst g'. auto. }
  destruct X as [X1 [X2 [X3 X4]]].
  destruct (no_dependants_lists g N (i_s6 g (i_d g I))) as [Hb Hk]. destruct N as [Hc Ha].
  apply invD_no_dependants; [split; [rewrite X1; exact Hc|rewrite X2; exact Ha]|rewrite X3; exact Hb|rewrite X4; exact Hk].
Qed.
