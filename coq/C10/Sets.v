(** C10 -- Python [set]s of objects as duplicate-free lists: add / remove / discard, and the closed
    forms of the loops that update one set per visited object. *)
From Coq Require Import Ascii String List Bool PArith NArith ZArith QArith FMapPositive Permutation Lia.
From PTBase Require Import Exn PyStr.
From P Require Import Assoc GeoState GeoEdit.
Import ListNotations.
Open Scope list_scope.

Lemma mem_cons x a r : mem x (a :: r) = Pos.eqb x a || mem x r.
Proof. reflexivity. Qed.
Lemma mem_app x l l' : mem x (l ++ l') = mem x l || mem x l'.
Proof. unfold mem. apply existsb_app. Qed.
Lemma mem_true_In x l : mem x l = true -> In x l. Proof. apply mem_In. Qed.
Lemma In_mem_true x l : In x l -> mem x l = true. Proof. apply mem_In. Qed.
Lemma notIn_mem_false x l : ~ In x l -> mem x l = false. Proof. apply mem_false. Qed.
Lemma mem_false_notIn x l : mem x l = false -> ~ In x l. Proof. apply mem_false. Qed.

Lemma In_sadd s y x : In x (sadd s y) <-> In x s \/ x = y.
Proof.
  unfold sadd. destruct (mem y s) eqn:M.
  - apply mem_In in M. split; [auto|]. intros [H| ->]; assumption.
  - rewrite in_app_iff. cbn. intuition.
Qed.
Lemma NoDup_sadd s y : NoDup s -> NoDup (sadd s y).
Proof.
  intro N. unfold sadd. destruct (mem y s) eqn:M; [exact N|]. apply mem_false in M. apply NoDup_snoc; assumption.
Qed.
Lemma sadd_idem s y : sadd (sadd s y) y = sadd s y.
Proof.
  unfold sadd at 2. destruct (mem y s) eqn:M.
  - unfold sadd. rewrite M. reflexivity.
  - unfold sadd. rewrite mem_app, M. cbn. rewrite Pos.eqb_refl. reflexivity.
Qed.
Lemma sadd_in s y : In y s -> sadd s y = s.
Proof. intro H. unfold sadd. rewrite (In_mem_true _ _ H). reflexivity. Qed.
Lemma sremove_ok s x s' : sremove s x = Ok s' -> In x s /\ s' = lremove s x.
Proof. unfold sremove. destruct (mem x s) eqn:M; [|discriminate]. intro H; inversion H. split; [apply mem_In; exact M|reflexivity]. Qed.
Lemma sremove_in s x : In x s -> sremove s x = Ok (lremove s x).
Proof. intro H. unfold sremove. rewrite (In_mem_true _ _ H). reflexivity. Qed.
Lemma In_sdiscard s x y : NoDup s -> (In y (sdiscard s x) <-> In y s /\ y <> x).
Proof.
  intro N. unfold sdiscard. destruct (mem x s) eqn:M.
  - apply In_lremove. exact N.
  - apply mem_false in M. split; [intro H; split; [exact H|intros ->; contradiction]|intros [H _]; exact H].
Qed.
Lemma NoDup_sdiscard s x : NoDup s -> NoDup (sdiscard s x).
Proof. intro N. unfold sdiscard. destruct (mem x s); [apply NoDup_lremove|]; exact N. Qed.

(** [for n in ns: set_of(n).add(c)] on a field map of sets *)
Definition addall (m : fmap (list id)) (ns : list id) (c : id) : fmap (list id) :=
  fold_left (fun m n => fset m n (sadd (fget [] m n) c)) ns m.
Lemma fget_addall ns : forall m c n, fget [] (addall m ns c) n = if mem n ns then sadd (fget [] m n) c else fget [] m n.
Proof.
  induction ns as [|a r IH]; intros m c n; [reflexivity|].
  unfold addall. cbn [fold_left]. fold (addall (fset m a (sadd (fget [] m a) c)) r c).
  rewrite IH, mem_cons, fget_fset. destruct (Pos.eqb_spec n a) as [->|N]; cbn [orb].
  - destruct (mem a r); [apply sadd_idem|reflexivity].
  - reflexivity.
Qed.

(** [for n in ns: set_of(n).remove(c)] (KeyError) *)
Fixpoint removeall (m : fmap (list id)) (ns : list id) (c : id) : res (fmap (list id)) :=
  match ns with
  | [] => Ok m
  | n :: r => do s <- sremove (fget [] m n) c; removeall (fset m n s) r c
  end.
Lemma removeall_ok ns : forall m c m', NoDup ns -> removeall m ns c = Ok m' ->
  (forall n, In n ns -> In c (fget [] m n)) /\
  forall n, fget [] m' n = if mem n ns then lremove (fget [] m n) c else fget [] m n.
Proof.
  induction ns as [|a r IH]; intros m c m' ND H; cbn [removeall] in H.
  - inversion H; subst. split; [intros n []|reflexivity].
  - inversion ND as [|? ? Ha NDr]; subst.
    destruct (sremove (fget [] m a) c) as [s|] eqn:E; cbn [bind] in H; [|discriminate].
    apply sremove_ok in E. destruct E as [Hin ->].
    destruct (IH _ _ _ NDr H) as [A B]. split.
    + intros n [<-|Hn]; [exact Hin|]. specialize (A n Hn). rewrite fget_fset_neq in A; [exact A|]. intros ->. contradiction.
    + intro n. rewrite B, mem_cons, fget_fset. destruct (Pos.eqb_spec n a) as [->|N]; cbn [orb].
      * rewrite (notIn_mem_false _ _ Ha). reflexivity.
      * reflexivity.
Qed.
Lemma removeall_total ns : forall m c, NoDup ns -> (forall n, In n ns -> In c (fget [] m n)) -> exists m', removeall m ns c = Ok m'.
Proof.
  induction ns as [|a r IH]; intros m c ND H; cbn [removeall]; [eauto|].
  inversion ND as [|? ? Ha NDr]; subst. rewrite (sremove_in _ _ (H a (or_introl eq_refl))). cbn [bind].
  apply IH; [exact NDr|]. intros n Hn. rewrite fget_fset_neq; [apply H; right; exact Hn|]. intros ->. contradiction.
Qed.
