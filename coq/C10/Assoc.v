(** C10 -- Python containers as used by mulgrid (copied from the C08 development): insertion-ordered dictionaries
    (association lists: [d[k] = v] replaces in place or appends, [del d[k]]),
    lists of object ids with [list.remove] / [l[l.index(x)] = y], field maps of a
    heap of objects, and the generic "dictionary and list describe the same
    objects" relation [DL] with its preservation lemmas. *)
From Coq Require Import Ascii String List Bool PArith NArith FMapPositive Permutation Lia.
Import ListNotations.
Open Scope list_scope.

(** * object ids and field maps *)
Definition id := positive.
Definition fmap (A : Type) := PositiveMap.t A.
Definition fempty {A} : fmap A := PositiveMap.empty A.
Definition fget {A} (d : A) (h : fmap A) (i : id) : A :=
  match PositiveMap.find i h with Some a => a | None => d end.
Definition fset {A} (h : fmap A) (i : id) (a : A) : fmap A := PositiveMap.add i a h.

Lemma fget_fset {A} (d : A) h i a j : fget d (fset h i a) j = if Pos.eqb j i then a else fget d h j.
Proof.
  unfold fget, fset. destruct (Pos.eqb_spec j i) as [->|N].
  - rewrite PositiveMap.gss. reflexivity.
  - rewrite PositiveMap.gso by exact N. reflexivity.
Qed.
Lemma fget_fset_eq {A} (d : A) h i a : fget d (fset h i a) i = a.
Proof. rewrite fget_fset, Pos.eqb_refl. reflexivity. Qed.
Lemma fget_fset_neq {A} (d : A) h i a j : j <> i -> fget d (fset h i a) j = fget d h j.
Proof. intro N. rewrite fget_fset. destruct (Pos.eqb_spec j i); [contradiction|reflexivity]. Qed.
Lemma fget_empty {A} (d : A) i : fget d fempty i = d.
Proof. unfold fget, fempty. rewrite PositiveMap.gempty. reflexivity. Qed.

(** * lists of ids *)
Definition mem (x : id) (l : list id) : bool := existsb (Pos.eqb x) l.
(** [l.remove(x)]: first occurrence (the caller tests membership: ValueError otherwise) *)
Fixpoint lremove (l : list id) (x : id) : list id :=
  match l with [] => [] | y :: r => if Pos.eqb x y then r else y :: lremove r x end.
(** [l[l.index(x)] = y] *)
Fixpoint lreplace (l : list id) (x y : id) : list id :=
  match l with [] => [] | z :: r => if Pos.eqb x z then y :: r else z :: lreplace r x y end.

Lemma mem_In x l : mem x l = true <-> In x l.
Proof.
  unfold mem. rewrite existsb_exists. split.
  - intros [y [H E]]. apply Pos.eqb_eq in E. subst. exact H.
  - intro H. exists x. split; [exact H|apply Pos.eqb_refl].
Qed.
Lemma mem_false x l : mem x l = false <-> ~ In x l.
Proof. rewrite <- mem_In. destruct (mem x l); split; intro H; congruence. Qed.

Lemma In_lremove l x y : NoDup l -> (In y (lremove l x) <-> In y l /\ y <> x).
Proof.
  induction l as [|a r IH]; cbn; [tauto|]. intro ND. inversion ND as [|? ? Ha NDr]; subst.
  destruct (Pos.eqb_spec x a) as [->|N].
  - split; [intro H; split; [auto|intros ->; contradiction]|intros [[E|H] Ny]; [congruence|exact H]].
  - cbn. rewrite (IH NDr). split.
    + intros [E|[H Ny]]; [subst; split; [auto|congruence]|split; auto].
    + intros [[E|H] Ny]; [left; exact E|right; split; assumption].
Qed.
Lemma lremove_incl l x y : In y (lremove l x) -> In y l.
Proof.
  induction l as [|a r IH]; cbn; [tauto|]. destruct (Pos.eqb x a); cbn; [auto|]. intros [E|H]; auto.
Qed.
Lemma NoDup_lremove l x : NoDup l -> NoDup (lremove l x).
Proof.
  induction l as [|a r IH]; cbn; intro ND; [constructor|]. inversion ND as [|? ? Ha NDr]; subst.
  destruct (Pos.eqb x a); [exact NDr|]. constructor; [|exact (IH NDr)].
  intro H. apply Ha. exact (lremove_incl _ _ _ H).
Qed.
Lemma lremove_notin l x : ~ In x l -> lremove l x = l.
Proof.
  induction l as [|a r IH]; cbn; [reflexivity|]. intro H. destruct (Pos.eqb_spec x a) as [->|N]; [exfalso; apply H; auto|].
  f_equal. apply IH. intro; apply H; auto.
Qed.
Lemma In_lreplace l x y z : NoDup l -> In x l -> (In z (lreplace l x y) <-> z = y \/ (In z l /\ z <> x)).
Proof.
  induction l as [|a r IH]; cbn; [tauto|]. intros ND Hx. inversion ND as [|? ? Ha NDr]; subst.
  destruct (Pos.eqb_spec x a) as [->|N]; cbn.
  - split.
    + intros [E|H]; [left; auto|right; split; [auto|intros ->; contradiction]].
    + intros [E|[[E|H] Nz]]; [left; auto|congruence|right; exact H].
  - destruct Hx as [E|Hx]; [congruence|]. rewrite (IH NDr Hx). split.
    + intros [E|[E|[H Nz]]]; [right; split; [auto|congruence]|left; exact E|right; split; auto].
    + intros [E|[[E|H] Nz]]; [right; left; exact E|left; exact E|right; right; split; assumption].
Qed.
Lemma lreplace_incl l x y z : In z (lreplace l x y) -> z = y \/ In z l.
Proof.
  induction l as [|a r IH]; cbn; [tauto|]. destruct (Pos.eqb x a); cbn.
  - intros [E|H]; auto.
  - intros [E|H]; [auto|]. destruct (IH H); auto.
Qed.
Lemma NoDup_lreplace l x y : NoDup l -> ~ In y l -> NoDup (lreplace l x y).
Proof.
  induction l as [|a r IH]; cbn; intros ND Hy; [constructor|]. inversion ND as [|? ? Ha NDr]; subst.
  destruct (Pos.eqb x a).
  - constructor; [intro; apply Hy; auto|exact NDr].
  - constructor; [|apply IH; [exact NDr|intro; apply Hy; auto]].
    intro H. apply lreplace_incl in H. destruct H as [E|H]; [subst; apply Hy; auto|contradiction].
Qed.
Lemma NoDup_snoc {A} (l : list A) x : NoDup l -> ~ In x l -> NoDup (l ++ [x]).
Proof.
  induction l as [|a r IH]; cbn; intros ND NI; [constructor; auto; constructor|].
  inversion ND; subst. constructor.
  - rewrite in_app_iff. cbn. intuition.
  - apply IH; auto.
Qed.
Lemma Permutation_lremove_snoc l x : In x l -> Permutation l (lremove l x ++ [x]).
Proof.
  induction l as [|a r IH]; cbn; [tauto|]. intro H. destruct (Pos.eqb_spec x a) as [->|N].
  - apply Permutation_cons_append.
  - destruct H as [E|H]; [congruence|]. cbn. apply perm_skip. apply IH. exact H.
Qed.

(** * insertion-ordered dictionaries *)
Section Assoc.
  Context {K V : Type} (eqb : K -> K -> bool).
  Hypothesis eqb_spec : forall a b, reflect (a = b) (eqb a b).
  Fixpoint aget (d : list (K * V)) (k : K) : option V :=
    match d with [] => None | (k', v) :: r => if eqb k k' then Some v else aget r k end.
  (** [d[k] = v]: replace in place or append *)
  Fixpoint aset (d : list (K * V)) (k : K) (v : V) : list (K * V) :=
    match d with [] => [(k, v)] | (k', v') :: r => if eqb k k' then (k', v) :: r else (k', v') :: aset r k v end.
  (** [del d[k]] (the caller tests membership: KeyError otherwise) *)
  Fixpoint adel (d : list (K * V)) (k : K) : list (K * V) :=
    match d with [] => [] | (k', v') :: r => if eqb k k' then r else (k', v') :: adel r k end.

  Lemma aget_aset d k v k' : aget (aset d k v) k' = if eqb k' k then Some v else aget d k'.
  Proof.
    induction d as [|[a b] r IH]; cbn.
    - destruct (eqb_spec k' k); reflexivity.
    - destruct (eqb_spec k a) as [->|N]; cbn.
      + destruct (eqb_spec k' a); reflexivity.
      + destruct (eqb_spec k' a) as [->|N']; cbn.
        * destruct (eqb_spec a k); [congruence|reflexivity].
        * apply IH.
  Qed.
  Lemma aget_In d k v : aget d k = Some v -> In (k, v) d.
  Proof.
    induction d as [|[a b] r IH]; cbn; [discriminate|].
    destruct (eqb_spec k a) as [->|N]; intro H; [inversion H; auto|auto].
  Qed.
  Lemma In_aget d k v : NoDup (map fst d) -> In (k, v) d -> aget d k = Some v.
  Proof.
    induction d as [|[a b] r IH]; cbn; [tauto|]. intros ND [E|H].
    - inversion E; subst. destruct (eqb_spec k k); congruence.
    - inversion ND; subst. destruct (eqb_spec k a) as [->|N].
      + exfalso. apply H2. apply (in_map fst) in H. exact H.
      + auto.
  Qed.
  Lemma aget_None_notin d k : aget d k = None -> ~ In k (map fst d).
  Proof.
    induction d as [|[a b] r IH]; cbn; [tauto|]. destruct (eqb_spec k a); [discriminate|]. intros H [E|I]; [congruence|]. exact (IH H I).
  Qed.
  Lemma aget_Some_in d k v : aget d k = Some v -> In k (map fst d).
  Proof. intro H. apply aget_In in H. apply (in_map fst) in H. exact H. Qed.
  Lemma in_keys_aget d k : In k (map fst d) -> exists v, aget d k = Some v.
  Proof.
    induction d as [|[a b] r IH]; cbn; [tauto|]. destruct (eqb_spec k a) as [->|N]; [eauto|].
    intros [E|H]; [congruence|auto].
  Qed.
  Lemma keys_aset d k v : map fst (aset d k v) = match aget d k with Some _ => map fst d | None => map fst d ++ [k] end.
  Proof.
    induction d as [|[a b] r IH]; cbn; [reflexivity|].
    destruct (eqb_spec k a) as [->|N]; cbn; [reflexivity|]. rewrite IH. destruct (aget r k); reflexivity.
  Qed.
  Lemma NoDup_keys_aset d k v : NoDup (map fst d) -> NoDup (map fst (aset d k v)).
  Proof.
    intro ND. rewrite keys_aset. destruct (aget d k) eqn:E; [exact ND|].
    apply aget_None_notin in E. apply NoDup_snoc; auto.
  Qed.
  Lemma In_aset d k v k' v' : NoDup (map fst d) -> In (k', v') (aset d k v) <-> (k' = k /\ v' = v) \/ (k' <> k /\ In (k', v') d).
  Proof.
    intro ND. split.
    - intro H. apply In_aget in H; [|apply NoDup_keys_aset; exact ND]. rewrite aget_aset in H.
      destruct (eqb_spec k' k) as [->|N]; [left; inversion H; auto|right; split; auto using aget_In].
    - intros [[-> ->]|[N H]].
      + apply aget_In. rewrite aget_aset. destruct (eqb_spec k k); congruence.
      + apply aget_In. rewrite aget_aset. destruct (eqb_spec k' k); [congruence|]. apply In_aget; auto.
  Qed.
  Lemma in_keys_aset d k v k' : In k' (map fst (aset d k v)) <-> k' = k \/ In k' (map fst d).
  Proof.
    rewrite keys_aset. destruct (aget d k) eqn:E.
    - split; [auto|]. intros [->|H]; [eapply aget_Some_in; eauto|exact H].
    - rewrite in_app_iff. cbn. intuition.
  Qed.
  Lemma In_adel_incl d k x : In x (adel d k) -> In x d.
  Proof.
    induction d as [|[a b] r IH]; cbn; [tauto|]. destruct (eqb k a); cbn; [auto|]. intros [E|H]; auto.
  Qed.
  Lemma keys_adel_incl d k x : In x (map fst (adel d k)) -> In x (map fst d).
  Proof.
    induction d as [|[a b] r IH]; cbn; [tauto|]. destruct (eqb k a); cbn; [auto|]. intros [E|H]; auto.
  Qed.
  Lemma NoDup_keys_adel d k : NoDup (map fst d) -> NoDup (map fst (adel d k)).
  Proof.
    induction d as [|[a b] r IH]; cbn; intro ND; [constructor|]. inversion ND as [|? ? Ha NDr]; subst.
    destruct (eqb k a); [exact NDr|]. cbn. constructor; [|exact (IH NDr)].
    intro H. apply Ha. exact (keys_adel_incl _ _ _ H).
  Qed.
  Lemma In_adel d k k' v' : NoDup (map fst d) -> (In (k', v') (adel d k) <-> k' <> k /\ In (k', v') d).
  Proof.
    induction d as [|[a b] r IH]; cbn; [tauto|]. intro ND. inversion ND as [|? ? Ha NDr]; subst.
    destruct (eqb_spec k a) as [->|N].
    - split.
      + intro H. split; [|auto]. intros ->. apply Ha. apply (in_map fst) in H. exact H.
      + intros [Nk [E|H]]; [congruence|exact H].
    - cbn. rewrite (IH NDr). split.
      + intros [E|[Nk H]]; [inversion E; subst; split; [congruence|auto]|split; auto].
      + intros [Nk [E|H]]; [left; exact E|right; split; assumption].
  Qed.
  Lemma aget_adel d k k' : NoDup (map fst d) -> aget (adel d k) k' = if eqb k' k then None else aget d k'.
  Proof.
    intro ND. destruct (aget (adel d k) k') eqn:E.
    - apply aget_In in E. apply In_adel in E; [|exact ND]. destruct E as [N H].
      destruct (eqb_spec k' k); [contradiction|]. symmetry. apply In_aget; assumption.
    - destruct (eqb_spec k' k) as [->|N]; [reflexivity|].
      destruct (aget d k') eqn:E'; [|reflexivity]. exfalso.
      apply aget_In in E'. assert (H : In (k', v) (adel d k)) by (apply In_adel; auto).
      apply In_aget in H; [congruence|]. apply NoDup_keys_adel. exact ND.
  Qed.
  Lemma notin_keys_adel d k : NoDup (map fst d) -> ~ In k (map fst (adel d k)).
  Proof.
    intros ND H. apply in_keys_aget in H. destruct H as [v H]. rewrite aget_adel in H by exact ND.
    destruct (eqb_spec k k); congruence.
  Qed.
  Lemma in_keys_adel d k k' : NoDup (map fst d) -> (In k' (map fst (adel d k)) <-> k' <> k /\ In k' (map fst d)).
  Proof.
    intro ND. split.
    - intro H. split; [intros ->; exact (notin_keys_adel d k ND H)|exact (keys_adel_incl _ _ _ H)].
    - intros [N H]. apply in_keys_aget in H. destruct H as [v H]. apply aget_In in H.
      assert (H' : In (k', v) (adel d k)) by (apply In_adel; auto). apply (in_map fst) in H'. exact H'.
  Qed.
  Lemma NoDup_keys_inj (d : list (K * V)) k v v' : NoDup (map fst d) -> In (k, v) d -> In (k, v') d -> v = v'.
  Proof. intros ND H H'. apply (In_aget _ _ _ ND) in H. apply (In_aget _ _ _ ND) in H'. congruence. Qed.
  Lemma aget_notin_keys (d : list (K * V)) k : ~ In k (map fst d) -> aget d k = None.
  Proof. intro H. destruct (aget d k) eqn:E; [|reflexivity]. exfalso. apply H. eapply aget_Some_in; eauto. Qed.
End Assoc.

(** * a dictionary and a list that describe the same named objects
    [DL name l d]: [l] has no repeated object, [d] has no repeated key, every entry of
    [d] is an object of [l] filed under its own name, every object of [l] is filed. *)
Section DictList.
  Context {K : Type} (eqb : K -> K -> bool).
  Hypothesis eqb_spec : forall a b, reflect (a = b) (eqb a b).
  Record DL (name : id -> K) (l : list id) (d : list (K * id)) : Prop := {
    dl_nodup : NoDup l;
    dl_keys : NoDup (map fst d);
    dl_sound : forall k i, In (k, i) d -> In i l /\ name i = k;
    dl_compl : forall i, In i l -> In (name i, i) d }.

  Lemma DL_empty name : DL name [] [].
  Proof. constructor; cbn; try constructor; tauto. Qed.

  (** distinct listed objects have distinct names *)
  Lemma DL_inj name l d i i' : DL name l d -> In i l -> In i' l -> name i = name i' -> i = i'.
  Proof.
    intros D H H' E. apply (dl_compl _ _ _ D) in H. apply (dl_compl _ _ _ D) in H'. rewrite E in H.
    exact (NoDup_keys_inj eqb eqb_spec _ _ _ _ (dl_keys _ _ _ D) H H').
  Qed.
  Lemma DL_aget name l d k i : DL name l d -> aget eqb d k = Some i -> In i l /\ name i = k.
  Proof. intros D H. apply (aget_In eqb eqb_spec) in H. exact (dl_sound _ _ _ D _ _ H). Qed.
  Lemma DL_aget_name name l d i : DL name l d -> In i l -> aget eqb d (name i) = Some i.
  Proof. intros D H. apply (In_aget eqb eqb_spec); [apply D|apply D; exact H]. Qed.
  Lemma DL_key_in name l d k : DL name l d -> (In k (map fst d) <-> exists i, In i l /\ name i = k).
  Proof.
    intro D. split.
    - intro H. apply (in_keys_aget eqb eqb_spec) in H. destruct H as [i H]. exists i. eapply DL_aget; eauto.
    - intros [i [H <-]]. apply (dl_compl _ _ _ D) in H. apply (in_map fst) in H. exact H.
  Qed.

  (** the names of the listed objects are all that matters *)
  Lemma DL_ext name name' l d : (forall i, In i l -> name' i = name i) -> DL name l d -> DL name' l d.
  Proof.
    intros E D. constructor; try apply D.
    - intros k i H. destruct (dl_sound _ _ _ D _ _ H) as [Hi Hn]. split; [exact Hi|]. rewrite E; auto.
    - intros i H. rewrite E by exact H. apply D. exact H.
  Qed.
  Lemma DL_perm name l l' d : Permutation l l' -> DL name l d -> DL name l' d.
  Proof.
    intros P D. constructor; try apply D.
    - eapply Permutation_NoDup; [exact P|apply D].
    - intros k i H. destruct (dl_sound _ _ _ D _ _ H) as [Hi Hn]. split; [|exact Hn]. eapply Permutation_in; eauto.
    - intros i H. apply D. eapply Permutation_in; [apply Permutation_sym; exact P|exact H].
  Qed.
  (** [l.append(j); d[k] = j] for a new key *)
  Lemma DL_add_new name l d j k : DL name l d -> ~ In j l -> name j = k -> aget eqb d k = None ->
    DL name (l ++ [j]) (aset eqb d k j).
  Proof.
    intros D Hj Hn Hk. constructor.
    - apply NoDup_snoc; [apply D|exact Hj].
    - apply (NoDup_keys_aset eqb eqb_spec). apply D.
    - intros k' i H. apply (In_aset eqb eqb_spec) in H; [|apply D]. rewrite in_app_iff. cbn.
      destruct H as [[-> ->]|[N H]]; [split; auto|]. destruct (dl_sound _ _ _ D _ _ H); split; auto.
    - intros i H. rewrite in_app_iff in H. cbn in H. apply (In_aset eqb eqb_spec); [apply D|].
      destruct H as [H|[<-|[]]]; [|left; auto]. right. split; [|apply D; exact H].
      intro E. apply (dl_compl _ _ _ D) in H. rewrite E in H. apply (In_aget eqb eqb_spec) in H; [congruence|apply D].
  Qed.
  (** [l[l.index(d[k])] = j; d[k] = j] for an existing key *)
  Lemma DL_add_replace name l d j k old : DL name l d -> ~ In j l -> name j = k -> aget eqb d k = Some old ->
    DL name (lreplace l old j) (aset eqb d k j).
  Proof.
    intros D Hj Hn Hk. destruct (DL_aget _ _ _ _ _ D Hk) as [Hold Holdn]. constructor.
    - apply NoDup_lreplace; [apply D|exact Hj].
    - apply (NoDup_keys_aset eqb eqb_spec). apply D.
    - intros k' i H. apply (In_aset eqb eqb_spec) in H; [|apply D].
      rewrite (In_lreplace _ _ _ _ (dl_nodup _ _ _ D) Hold).
      destruct H as [[-> ->]|[N H]]; [split; auto|]. destruct (dl_sound _ _ _ D _ _ H) as [Hi Hin]. split; [|exact Hin].
      right. split; [exact Hi|]. intros ->. congruence.
    - intros i H. apply (In_lreplace _ _ _ _ (dl_nodup _ _ _ D) Hold) in H. apply (In_aset eqb eqb_spec); [apply D|].
      destruct H as [->|[H Ni]]; [left; auto|]. right. split; [|apply D; exact H].
      intro E. apply Ni. apply (DL_inj name l d); auto. congruence.
  Qed.
  (** [del d[k]; l.remove(j)] *)
  Lemma DL_del name l d k j : DL name l d -> aget eqb d k = Some j -> DL name (lremove l j) (adel eqb d k).
  Proof.
    intros D Hk. destruct (DL_aget _ _ _ _ _ D Hk) as [Hj Hjn]. constructor.
    - apply NoDup_lremove. apply D.
    - apply (NoDup_keys_adel eqb). apply D.
    - intros k' i H. apply (In_adel eqb eqb_spec) in H; [|apply D]. destruct H as [N H].
      destruct (dl_sound _ _ _ D _ _ H) as [Hi Hin]. split; [|exact Hin].
      apply In_lremove; [apply D|]. split; [exact Hi|]. intros ->. congruence.
    - intros i H. apply In_lremove in H; [|apply D]. destruct H as [H Ni]. apply (In_adel eqb eqb_spec); [apply D|].
      split; [|apply D; exact H]. intro E. apply Ni. apply (DL_inj name l d); auto. congruence.
  Qed.
  (** [del d[a]; obj.name = b; d[b] = obj] when [b] is not a key (after the deletion) *)
  Lemma DL_rename name name' l d a b j : DL name l d -> aget eqb d a = Some j ->
    ~ In b (map fst (adel eqb d a)) -> name' j = b -> (forall i, i <> j -> name' i = name i) ->
    DL name' l (aset eqb (adel eqb d a) b j).
  Proof.
    intros D Ha Hb Hn Ho. destruct (DL_aget _ _ _ _ _ D Ha) as [Hj Hjn].
    assert (NDa : NoDup (map fst (adel eqb d a))) by (apply (NoDup_keys_adel eqb); apply D).
    constructor.
    - apply D.
    - apply (NoDup_keys_aset eqb eqb_spec). exact NDa.
    - intros k i H. apply (In_aset eqb eqb_spec) in H; [|exact NDa].
      destruct H as [[-> ->]|[N H]]; [split; auto|]. apply (In_adel eqb eqb_spec) in H; [|apply D]. destruct H as [Nk H].
      destruct (dl_sound _ _ _ D _ _ H) as [Hi Hin]. split; [exact Hi|]. rewrite Ho; [exact Hin|]. intros ->. congruence.
    - intros i H. apply (In_aset eqb eqb_spec); [exact NDa|]. destruct (Pos.eq_dec i j) as [->|Ni]; [left; auto|].
      right. rewrite (Ho _ Ni).
      assert (Hin : In (name i, i) (adel eqb d a)).
      { apply (In_adel eqb eqb_spec); [apply D|]. split; [|apply D; exact H]. intro E. apply Ni. apply (DL_inj name l d); auto. congruence. }
      split; [|exact Hin]. intros E. apply Hb. rewrite <- E. apply (in_map fst) in Hin. exact Hin.
  Qed.
End DictList.
