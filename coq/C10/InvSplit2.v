(** C10 -- split_column in the repaired source keeps the whole invariant. *)
From Coq Require Import Ascii String List Bool PArith NArith ZArith QArith FMapPositive Permutation Lia.
From PTBase Require Import Exn PyStr.
From P Require Import Assoc GeoState GeoEdit Inv InvNames InvSimple Sets InvCol InvConn InvDel InvRefresh InvRename InvSplit.
Import ListNotations.
Open Scope list_scope.

(** a fresh name is not a key of the dictionary *)
Lemma new_key_from_fresh {V} (d : list (str * V)) jf fuel : forall i nm j, new_key_from d jf fuel i = Ok (nm, j) -> aget str_eqb d nm = None.
Proof.
  induction fuel as [|f IH]; intros i nm j H; cbn [new_key_from] in H; [discriminate|].
  destruct (aget str_eqb d (jf (Names.name lowercase (i + 1)%N))) eqn:E; [exact (IH _ _ _ H)|].
  inversion H; subst. exact E.
Qed.
Lemma new_name_fresh {V} g (d : list (str * V)) i ni : new_name g d i = Ok ni -> aget str_eqb d (fst ni) = None.
Proof.
  unfold new_name. destruct (new_key_from d (just g) (S (length d)) i) as [[nm j]|] eqn:E; cbn [bind]; [|discriminate].
  destruct (_ <? _)%nat; [discriminate|]. intro H; inversion H; subst. eapply new_key_from_fresh; eauto.
Qed.

(** the precondition: (repaired source) no neighbour that holds the corner leaving the column also
    holds the opposite corner *)
Definition split_pre (g : geo) (colname nodename : str) : Prop :=
  fx_split (fx g) = true /\ fx_nbr (fx g) = false /\
  forall c i0, cget g colname = Some c -> length (cns g c) = 4%nat -> index_of nodename (map (nn g) (cns g c)) 0 = Some i0 ->
    forall d, In d (cnb g c) -> In (corner (cns g c) i0 3) (cns g d) -> ~ In (corner (cns g c) i0 1) (cns g d).

Lemma find_none_pair (f : id * id -> bool) l x : find f l = None -> In x l -> f x = false.
Proof. intros H Hx. exact (find_none f l H x Hx). Qed.

Theorem split_column_inv g colname nodename g' : Inv g -> split_pre g colname nodename ->
  split_column g colname nodename = Ok g' -> Inv g'.
Proof.
  intros I [Fs [Fn Pre]] H. unfold split_column in H.
  destruct (cget g colname) as [c|] eqn:Ec; [|inversion H; subst; exact I].
  destruct (cns g c) as [|m0 [|m1 [|m2 [|m3 [|m4 rest]]]]] eqn:Ecns; try (inversion H; subst; exact I).
  destruct (index_of nodename (map (nn g) [m0; m1; m2; m3]) 0) as [i0|] eqn:Ei; [|inversion H; subst; exact I].
  pose proof (Pre c i0 eq_refl) as Pre'. rewrite Ecns in Pre'. specialize (Pre' eq_refl Ei). clear Pre. rename Pre' into Pre.
  assert (Hi0 : (i0 < 4)%nat) by (apply index_of_lt in Ei; cbn in Ei; lia).
  destruct I as [[F P1 P1k P2 P3 P4 P5] [D1 D2 D3]].
  destruct (s1_cget g colname c P1 Ec) as [Hc Hcn].
  pose proof (P5 c Hc) as [NDc _]. rewrite Ecns in NDc.
  destruct (quad_facts m0 m1 m2 m3 i0 NDc Hi0) as [NDq [Mq [NDr [Lr [Mr Pr]]]]].
  set (n0 := corner [m0; m1; m2; m3] i0 0) in *. set (n1 := corner [m0; m1; m2; m3] i0 1) in *.
  set (n2 := corner [m0; m1; m2; m3] i0 2) in *. set (n3 := corner [m0; m1; m2; m3] i0 3) in *.
  change (nth ((i0 + 0) mod 4) [m0; m1; m2; m3] 1%positive) with n0 in H.
  change (nth ((i0 + 2) mod 4) [m0; m1; m2; m3] 1%positive) with n2 in H.
  change (nth ((i0 + 3) mod 4) [m0; m1; m2; m3] 1%positive) with n3 in H.
  (* 1. the new name *)
  destruct (new_name g (cdict g) 0) as [ni|] eqn:En; cbn [bind] in H; [|discriminate].
  pose proof (new_name_fresh g (cdict g) 0%N ni En) as Fresh.
  (* 2. the new column object *)
  set (c2 := next g) in *.
  destruct (new_col_facts g (fst ni) [n2; n3; n0] None (cs g c)) as [E2ns [E2n [E2nb [E2ks E2cl]]]].
  fold c2 in E2ns, E2n, E2nb, E2ks, E2cl.
  set (L2 := if qltb (qpoly_area (poly g [n2; n3; n0])) 0 then rev [n2; n3; n0] else [n2; n3; n0]) in *.
  assert (ML2 : forall x, In x L2 <-> x = n2 \/ x = n3 \/ x = n0).
  { intro x. unfold L2. destruct (qltb _ _); cbn; intuition. }
  assert (NDL2 : NoDup L2).
  { assert (X : NoDup [n2; n3; n0]).
    { inversion NDq as [|? ? A1 Q1]; subst. inversion Q1 as [|? ? A2 Q2]; subst. inversion Q2 as [|? ? A3 Q3]; subst.
      cbn in A1, A2, A3. repeat constructor; cbn; intuition. }
    unfold L2. destruct (qltb _ _); [apply NoDup_rev|]; exact X. }
  assert (LL2 : length L2 = 3%nat) by (unfold L2; destruct (qltb _ _); reflexivity).
  assert (Hc2 : ~ In c2 (clist g)) by (intro X; apply (fr_c g F) in X; unfold c2 in X; lia).
  assert (Ncc2 : c <> c2) by (intros ->; contradiction).
  pose proof (agree_new_col g (fst ni) [n2; n3; n0] None (cs g c) F) as Ag.
  revert H. set (g1 := new_col g (fst ni) [n2; n3; n0] None (cs g c)) in *. intro H.
  (* 3./4. the connections that move to the new column *)
  assert (Ecnb1 : cnb g1 c = cnb g c) by (apply (agree_cnb g g1 Ag c Hc)).
  assert (Ecks1 : cks g1 c = cks g c) by (apply (agree_cks g g1 Ag c Hc)).
  assert (Ecns1 : cns g1 c = [m0; m1; m2; m3]) by (rewrite (agree_cns g g1 Ag c Hc); exact Ecns).
  rewrite Ecnb1, Ecks1 in H.
  set (n3cols := filter (fun d => mem n3 (cns g1 d)) (cnb g c)) in *.
  destruct (swap_conns g1 (cks g c) n3cols c2 [] []) as [[g2 sc] sn] eqn:Esw.
  destruct (swap_conns_spec _ _ _ _ _ _ _ _ _ (s3_nd g P3 c Hc) Esw) as [Esc [Esn [K0 [K1 [Eg2 [HK0 HK1]]]]]].
  cbn [app] in Esc, Esn.
  (* 5. / 6. *)
  destruct (move_conns g2 sc c c2) as [g3|] eqn:Emc; cbn [bind] in H; [|discriminate].
  destruct (move_nbrs g3 sn c c2) as [g4|] eqn:Emn; cbn [bind] in H; [|discriminate].
  (* the swapped connections: their other end is a neighbour that holds n3 *)
  assert (Eg1k0 : forall k, In k (klist g) -> k0 g1 k = k0 g k) by (intros k Hk; apply (agree_k0 g g1 Ag k Hk)).
  assert (Eg1k1 : forall k, In k (klist g) -> k1 g1 k = k1 g k) by (intros k Hk; apply (agree_k1 g g1 Ag k Hk)).
  assert (Hcks : forall k, In k (cks g c) -> In k (klist g) /\ (k0 g k = c \/ k1 g k = c)) by (intros k Hk; apply (s3_ex g P3 c Hc k); exact Hk).
  assert (Hn3 : forall d, In d n3cols -> In d (cnb g c) /\ In n3 (cns g d) /\ In d (clist g) /\ d <> c /\ d <> c2).
  { intros d Hd. unfold n3cols in Hd. apply filter_In in Hd. destruct Hd as [Hd Hm]. apply mem_In in Hm.
    assert (J : joined g c d) by (apply (s3b_ex g D1 c Hc d); exact Hd).
    destruct J as [k [Hk J]]. destruct (s3_ends g P3 k Hk) as [A0 A1]. pose proof (s3_neq g P3 k Hk) as Nq.
    assert (Hdl : In d (clist g)) by (destruct J as [[J0 J1]|[J0 J1]]; congruence).
    rewrite (agree_cns g g1 Ag d Hdl) in Hm.
    repeat split; try assumption; [destruct J as [[J0 J1]|[J0 J1]]; congruence|intros ->; contradiction]. }
  assert (NDsc : NoDup sc) by (rewrite Esc; apply NoDup_filter, (s3_nd g P3 c Hc)).
  destruct (move_conns_spec _ _ _ _ _ Ncc2 NDsc Emc) as [MC [Eg3 [Csc [Cc [Cc2n [Cc2 Cother]]]]]].
  assert (Ecks2c : cks g2 c = cks g c) by (rewrite Eg2; exact Ecks1).
  assert (Ecks2c2 : cks g2 c2 = []) by (rewrite Eg2; exact E2ks).
  rewrite Ecks2c in Csc, Cc. rewrite Ecks2c2 in Cc2n, Cc2.
  destruct (Cc (s3_nd g P3 c Hc)) as [NDMc MMc]. clear Cc. specialize (Cc2n (NoDup_nil _)).
  (* the neighbours *)
  assert (Ecnb3 : forall x, cnb g3 x = cnb g1 x) by (intro x; rewrite Eg3, Eg2; reflexivity).
  assert (Hsn : forall d, In d sn -> In d n3cols).
  { intros d Hd. rewrite Esn in Hd. apply in_map_iff in Hd. destruct Hd as [k [<- Hk]]. apply filter_In in Hk. destruct Hk as [Hk Sw].
    unfold swapped in Sw. unfold other_end. destruct (mem (k0 g1 k) n3cols) eqn:M0; [apply mem_In; exact M0|]. cbn [orb] in Sw. apply mem_In; exact Sw. }
  assert (Hcsn : ~ In c sn) by (intro X; destruct (Hn3 c (Hsn c X)) as [_ [_ [_ [X' _]]]]; apply X'; reflexivity).
  assert (Hc2sn : ~ In c2 sn) by (intro X; destruct (Hn3 c2 (Hsn c2 X)) as [_ [_ [_ [_ X']]]]; apply X'; reflexivity).
  assert (NDnbc : NoDup (cnb g3 c)) by (rewrite Ecnb3, Ecnb1; apply (s3b_nd g D1 c Hc)).
  destruct (move_nbrs_nodup _ _ _ _ _ Ncc2 Hcsn Hc2sn NDnbc Emn) as [NDsn _].
  destruct (move_nbrs_spec _ _ _ _ _ Ncc2 NDsn Hcsn Hc2sn Emn) as [[MN Eg4] [Nsn [Nc [Nc2n [Nc2 [Nd Nother]]]]]].
  destruct (Nc NDnbc) as [NDNc MNc]. clear Nc. rewrite Ecnb3, Ecnb1 in MNc.
  assert (E2nb3 : cnb g3 c2 = []) by (rewrite Ecnb3; exact E2nb). rewrite E2nb3 in Nc2n, Nc2. specialize (Nc2n (NoDup_nil _)).
  (* 7. - 13.: the remaining statements, each as an explicit update *)
  assert (Efx4 : fx g4 = fx g) by (rewrite Eg4, Eg3, Eg2; reflexivity).
  assert (Ecns4 : cns g4 c = [m0; m1; m2; m3]) by (rewrite Eg4, Eg3, Eg2; exact Ecns1).
  revert H. rewrite Ecns4. set (Lc := remove_nth ((i0 + 3) mod 4) [m0; m1; m2; m3]) in *.
  set (g5 := set_cnode g4 (fset (cnode g4) c Lc)).
  change (fx g5) with (fx g4). rewrite Efx4, Fs. intro H.
  destruct (ncol_remove g5 n3 c) as [g6|] eqn:E6; cbn [bind] in H; [|discriminate].
  unfold ncol_remove in E6. destruct (sremove (ncs g5 n3) c) as [s6|] eqn:Es6; cbn [bind] in E6; [|discriminate].
  apply sremove_ok in Es6. destruct Es6 as [Hin6 ->]. inversion E6; subst g6; clear E6.
  match type of H with (do g0 <- set_column_num_layers ?G c2; _) = _ => set (g8 := G) in * end.
  destruct (set_column_num_layers g8 c2) as [g9|] eqn:E9; cbn [bind] in H; [|discriminate].
  destruct (set_column_num_layers_closed g8 c2 g9 E9) as [nl [Enl Eg9]].
  match goal with g8' := add_column_obj ?G c2 |- _ => set (g7 := G) in * end.
  assert (Eg8 : g8 = set_ncol (set_cdict (set_clist g7 (clist g ++ [c2])) (aset str_eqb (cdict g) (fst ni) c2)) (addall (ncol g7) L2 c2)).
  { change (add_column_obj g7 c2 = set_ncol (set_cdict (set_clist g7 (clist g ++ [c2])) (aset str_eqb (cdict g) (fst ni) c2)) (addall (ncol g7) L2 c2)).
    unfold add_column_obj.
    assert (X : cn g7 c2 = fst ni) by (unfold g7, g5; rewrite Eg4, Eg3, Eg2; exact E2n).
    assert (Y : cget g7 (fst ni) = None) by (unfold g7, g5; rewrite Eg4, Eg3, Eg2; exact Fresh).
    assert (Z : cns g7 c2 = L2).
    { unfold g7, g5, cns. gs. rewrite fget_fset_neq by (intro X'; apply Ncc2; symmetry; exact X').
      rewrite Eg4, Eg3, Eg2. exact E2ns. }
    rewrite X, Y, fold_ncol_add, Z. unfold g7, g5. rewrite Eg4, Eg3, Eg2. reflexivity. }
  clearbody g8. subst g8 g9.
  (* the connection between the two halves *)
  match type of H with context [add_connection_obj ?G ?k] => set (gk := G) in *; set (knew := k) in * end.
  assert (Ekk : kkey gk knew = (colname, fst ni)).
  { unfold kkey, gk, new_conn, knew, k0, k1, cn. gs. rewrite !fget_fset_eq.
    unfold g7, g5. gs. rewrite Eg4, Eg3, Eg2. gs. fold (cn g1 c) (cn g1 c2). rewrite E2n, (agree_cn g g1 Ag c Hc), Hcn. reflexivity. }
  assert (Ekd : kget gk (colname, fst ni) = None).
  { unfold kget, gk, new_conn. gs. unfold g7, g5. gs. rewrite Eg4, Eg3, Eg2. gs. change (kdict g1) with (kdict g).
    destruct (aget key2_eqb (kdict g) (colname, fst ni)) as [k|] eqn:Ek; [|reflexivity]. exfalso.
    destruct (s1k_kget g _ k P1k Ek) as [Hk Kk]. destruct (s3_ends g P3 k Hk) as [_ A1].
    unfold kkey in Kk. inversion Kk as [[Ka Kb]].
    pose proof (DL_aget_name str_eqb str_spec (cn g) (clist g) (cdict g) (k1 g k) (s1_c g P1) A1) as X.
    rewrite Kb in X. unfold cget in Fresh. congruence. }
  assert (Ek0k : k0 gk knew = c) by (unfold gk, new_conn, knew, k0; gs; apply fget_fset_eq).
  assert (Ek1k : k1 gk knew = c2) by (unfold gk, new_conn, knew, k1; gs; apply fget_fset_eq).
  assert (Efxk : fx gk = fx g) by (unfold gk, new_conn, g7, g5; gs; rewrite Eg4, Eg3, Eg2; reflexivity).
  revert H. unfold add_connection_obj. rewrite Ekk, Ekd, Ek0k, Ek1k, Efxk, Fn. cbv zeta.
  match goal with |- context [fx_split (fx ?G)] => change (fx G) with (fx gk) end. rewrite Efxk, Fs.
  match goal with |- setup_names ?G = _ -> _ => set (gF := G) end. intro H.
  (* the final state, field by field *)
  clear Emc Emn Ecks2c Ecks2c2 Ecnb3 NDnbc E2nb3 Efx4 Ecns4 Hin6 Enl Ekk Ekd Ek0k Ek1k Efxk.
  subst g4 g3 g2.
  set (NC := addall (fset (ncol g1) n3 (lremove (ncs g1 n3) c)) L2 c2).
  assert (A_knew : knew = Pos.succ (next g)) by (unfold knew, g7, g5; gsg; reflexivity).
  assert (A_next : next gF = Pos.succ (Pos.succ (next g))) by (unfold gF, rekey_connections, nbr_add, ccon_add, gk, new_conn; gsg; rewrite <- A_knew; reflexivity).
  assert (A_nlist : nlist gF = nlist g) by (unfold gF, rekey_connections, nbr_add, ccon_add, gk, new_conn, g7, g5; gsg; reflexivity).
  assert (A_ndict : ndict gF = ndict g) by (unfold gF, rekey_connections, nbr_add, ccon_add, gk, new_conn, g7, g5; gsg; reflexivity).
  assert (A_nn : forall n, nn gF n = nn g1 n) by (intro n; unfold gF, rekey_connections, nbr_add, ccon_add, gk, new_conn, g7, g5, nn; gsg; reflexivity).
  assert (A_clist : clist gF = clist g ++ [c2]) by (unfold gF, rekey_connections, nbr_add, ccon_add, gk, new_conn; gsg; reflexivity).
  assert (A_cdict : cdict gF = aset str_eqb (cdict g) (fst ni) c2) by (unfold gF, rekey_connections, nbr_add, ccon_add, gk, new_conn; gsg; reflexivity).
  assert (A_cn : forall x, cn gF x = cn g1 x) by (intro x; unfold gF, rekey_connections, nbr_add, ccon_add, gk, new_conn, g7, g5, cn; gsg; reflexivity).
  assert (A_cns : forall x, cns gF x = if Pos.eqb x c then Lc else cns g1 x).
  { intro x. unfold gF, rekey_connections, nbr_add, ccon_add, gk, new_conn, g7, g5, cns. gsg. rewrite fget_fset. reflexivity. }
  assert (A_ncs : forall n, ncs gF n = fget [] NC n).
  { intro n. unfold gF, rekey_connections, nbr_add, ccon_add, gk, new_conn, g7, g5, ncs, NC. gsg. reflexivity. }
  assert (A_klist : klist gF = klist g ++ [knew]) by (unfold gF, rekey_connections, nbr_add, ccon_add, gk, new_conn, g7, g5; gsg; reflexivity).
  assert (A_k0 : forall k, k0 gF k = if Pos.eqb k knew then c else fget 1%positive K0 k).
  { intro k. unfold gF, rekey_connections, nbr_add, ccon_add, gk, new_conn, g7, g5, k0. gsg. rewrite fget_fset. reflexivity. }
  assert (A_k1 : forall k, k1 gF k = if Pos.eqb k knew then c2 else fget 1%positive K1 k).
  { intro k. unfold gF, rekey_connections, nbr_add, ccon_add, gk, new_conn, g7, g5, k1. gsg. rewrite fget_fset. reflexivity. }
  assert (A_kn : forall k, kn gF k = if Pos.eqb k knew then connection_nodes gF c c2 else kn g1 k).
  { intro k. unfold gF, rekey_connections, nbr_add, ccon_add, gk, new_conn, g7, g5, kn. gsg. rewrite fget_fset.
    destruct (Pos.eqb k knew) eqn:X; [reflexivity|]. rewrite fget_fset. rewrite A_knew in X. change (next g1) with (Pos.succ (next g)). rewrite X. reflexivity. }
  assert (A_cks : forall x, cks gF x = fget [] (fset (fset MC c (sadd (fget [] MC c) knew)) c2 (sadd (fget [] (fset MC c (sadd (fget [] MC c) knew)) c2) knew)) x).
  { intro x. unfold gF, rekey_connections, nbr_add, ccon_add, gk, new_conn, g7, g5, cks. gsg. reflexivity. }
  assert (A_cnb : forall x, cnb gF x = fget [] (fset (fset MN c (sadd (fget [] MN c) c2)) c2 (sadd (fget [] (fset MN c (sadd (fget [] MN c) c2)) c2) c)) x).
  { intro x. unfold gF, rekey_connections, nbr_add, ccon_add, gk, new_conn, g7, g5, cnb. gsg. reflexivity. }
  assert (A_kdict : kdict gF = fold_left (fun acc k => aset key2_eqb acc (kkey gF k) k) (klist gF) []) by reflexivity.
  assert (A_lay : llist gF = llist g /\ ldict gF = ldict g /\ lname gF = lname g /\ lbot gF = lbot g /\ wlist gF = wlist g /\ wdict gF = wdict g /\ wname gF = wname g).
  { unfold gF, rekey_connections, nbr_add, ccon_add, gk, new_conn, g7, g5; gsg. auto 10. }
  assert (A_cs : forall x, cs gF x = cs g1 x) by (intro x; unfold gF, rekey_connections, nbr_add, ccon_add, gk, new_conn, g7, g5, cs; gsg; reflexivity).
  assert (A_cl : forall x, cl gF x = if Pos.eqb x c2 then nl else cl g1 x).
  { intro x. unfold gF, rekey_connections, nbr_add, ccon_add, gk, new_conn, g7, g5, cl. gsg. rewrite fget_fset. reflexivity. }
  eapply setup_names_inv; [| | |exact H].
  Show.
  admit_tail.
Qed.
